(* WrappedItvSound.v — membership soundness of the wrapped-interval model
   (Scalar/WrappedItv.v) with respect to the wrapint operations (Num/Wrapint.v):
   every bit-vector result of operands drawn from the argument intervals lies in the
   result interval, including across the north and south poles, top and bottom.

     wfw w x      : x is a well-formed wrapint of bitwidth w
     iwf w i      : i is an interval of bitwidth w (bottom, the canonical top, or bounds of
                    bitwidth w)
     gamma w i x  : the w-bit number x is a member of i  (wi_at, the model of at()) *)
From Coq Require Import ZArith Lia Bool List.
From CrabV Require Import Num.Wrapint Num.WrapintSound Scalar.WrappedItv.
Import ListNotations.
Local Open Scope Z_scope.


(* ---------------------------------------------------------------- modular intervals on Z *)
Definition inr (M s e x : Z) : Prop := (x - s) mod M <= (e - s) mod M.

Lemma msub_cases M a b : 0 <= a < M -> 0 <= b < M ->
  ((a - b) mod M = a - b /\ b <= a) \/ ((a - b) mod M = a - b + M /\ a < b).
Proof.
  intros Ha Hb. destruct (Z_le_gt_dec b a).
  - left. split; [apply Z.mod_small; lia|lia].
  - right. split; [|lia]. symmetry. apply (Z.mod_unique (a - b) M (-1)); lia.
Qed.

Ltac msub M a b :=
  let H := fresh "MS" in pose proof (msub_cases M a b ltac:(lia) ltac:(lia)) as H.

(* ---------------------------------------------------------------- wrapint facts in Z form *)
Definition wfw (w : Z) (x : wrapint) : Prop := wf x /\ ww x = w.

Lemma wfw_range w x : wfw w x -> 1 <= w <= 64 /\ 0 <= wn x < 2 ^ w.
Proof. intros [[H1 H2] <-]. auto. Qed.

Lemma wsub_val w a b : wfw w a -> wfw w b -> wfw w (wsub a b) /\ wn (wsub a b) = (wn a - wn b) mod 2 ^ w.
Proof.
  intros [Wa Ea] [Wb Eb]. destruct (wsub_spec a b Wa Wb (eq_trans Ea (eq_sym Eb))) as (A & B & C).
  split; [split; [exact A|rewrite B; exact Ea]|]. unfold to_Z, wrap in C. rewrite C, Ea. reflexivity.
Qed.
Lemma wadd_val w a b : wfw w a -> wfw w b -> wfw w (wadd a b) /\ wn (wadd a b) = (wn a + wn b) mod 2 ^ w.
Proof.
  intros [Wa Ea] [Wb Eb]. destruct (wadd_spec a b Wa Wb (eq_trans Ea (eq_sym Eb))) as (A & B & C).
  split; [split; [exact A|rewrite B; exact Ea]|]. unfold to_Z, wrap in C. rewrite C, Ea. reflexivity.
Qed.
Lemma wmul_val w a b : wfw w a -> wfw w b -> wfw w (wmul a b) /\ wn (wmul a b) = (wn a * wn b) mod 2 ^ w.
Proof.
  intros [Wa Ea] [Wb Eb]. destruct (wmul_spec a b Wa Wb (eq_trans Ea (eq_sym Eb))) as (A & B & C).
  split; [split; [exact A|rewrite B; exact Ea]|]. unfold to_Z, wrap in C. rewrite C, Ea. reflexivity.
Qed.
Lemma wneg_val w a : wfw w a -> wfw w (wneg a) /\ wn (wneg a) = (- wn a) mod 2 ^ w.
Proof.
  intros [Wa Ea]. destruct (wneg_spec a Wa) as (A & B & C).
  split; [split; [exact A|rewrite B; exact Ea]|]. unfold to_Z, wrap in C. rewrite C, Ea. reflexivity.
Qed.
Lemma umax_val w : 1 <= w <= 64 -> wfw w (get_unsigned_max w) /\ wn (get_unsigned_max w) = 2 ^ w - 1.
Proof. intros H. destruct (get_unsigned_max_spec w H) as (A & B & C). split; [split; [exact A|exact B]|exact C]. Qed.
Lemma umin_val w : 1 <= w <= 64 -> wfw w (get_unsigned_min w) /\ wn (get_unsigned_min w) = 0.
Proof. intros H. destruct (get_unsigned_min_spec w H) as (A & B & C). split; [split; [exact A|exact B]|exact C]. Qed.
Lemma smax_val w : 1 <= w <= 64 -> wfw w (get_signed_max w) /\ wn (get_signed_max w) = 2 ^ (w - 1) - 1.
Proof. intros H. destruct (get_signed_max_spec w H) as (A & B & C). split; [split; [exact A|exact B]|exact C]. Qed.
Lemma smin_val w : 1 <= w <= 64 -> wfw w (get_signed_min w) /\ wn (get_signed_min w) = 2 ^ (w - 1).
Proof. intros H. destruct (get_signed_min_spec w H) as (A & B & C). split; [split; [exact A|exact B]|exact C]. Qed.

(* ---------------------------------------------------------------- well-formed intervals *)
(* an interval of bitwidth w: bottom, top (the canonical [0,7] of bitwidth 3 or any interval
   with end - start = 2^width - 1), or two bounds of bitwidth w *)
Definition iwf (w : Z) (i : witv) : Prop :=
  wbot i = true \/ is_top i = true \/ (wbot i = false /\ wfw w (wstart i) /\ wfw w (wend i)).

Definition gamma (w : Z) (i : witv) (x : wrapint) : Prop := wfw w x /\ wi_at i x = true.

Lemma is_top_wi_top : is_top wi_top = true.
Proof. reflexivity. Qed.

Lemma is_top_range w i : wbot i = false -> wfw w (wstart i) -> wfw w (wend i) ->
  is_top i = ((wn (wend i) - wn (wstart i)) mod 2 ^ w =? 2 ^ w - 1).
Proof.
  intros B Hs He. unfold is_top. rewrite B. simpl.
  destruct (wsub_val w _ _ He Hs) as [_ V]. unfold weq. rewrite V.
  unfold get_bitwidth. destruct Hs as [Ws Es]. rewrite Es.
  destruct (umax_val w) as [_ U]; [rewrite <- Es; apply Ws|]. rewrite U. reflexivity.
Qed.

Lemma iwf_range w i : iwf w i -> is_bottom i = false -> is_top i = false ->
  wbot i = false /\ wfw w (wstart i) /\ wfw w (wend i).
Proof.
  intros [B|[T|R]] NB NT.
  - unfold is_bottom in NB. congruence.
  - congruence.
  - exact R.
Qed.

Lemma at_range w i x : wbot i = false -> is_top i = false -> wfw w (wstart i) -> wfw w (wend i) ->
  wfw w x ->
  wi_at i x = ((wn x - wn (wstart i)) mod 2 ^ w <=? (wn (wend i) - wn (wstart i)) mod 2 ^ w).
Proof.
  intros B T Hs He Hx. unfold wi_at, is_bottom. rewrite B, T.
  destruct (wsub_val w _ _ Hx Hs) as [_ V1]. destruct (wsub_val w _ _ He Hs) as [_ V2].
  unfold wle. rewrite V1, V2. reflexivity.
Qed.

Lemma at_top i x : is_bottom i = false -> is_top i = true -> wi_at i x = true.
Proof. intros B T. unfold wi_at. rewrite B, T. reflexivity. Qed.
Lemma at_bot i x : is_bottom i = true -> wi_at i x = false.
Proof. intros B. unfold wi_at. rewrite B. reflexivity. Qed.


Lemma top_not_bot i : is_top i = true -> is_bottom i = false.
Proof. unfold is_top, is_bottom. destruct (wbot i); simpl; congruence. Qed.

Ltac b2p1 := rewrite ?andb_true_iff, ?orb_true_iff, ?negb_true_iff, ?andb_false_iff, ?orb_false_iff,
  ?negb_false_iff, ?Z.leb_le, ?Z.leb_gt, ?Z.eqb_eq, ?Z.eqb_neq, ?Z.ltb_lt, ?Z.ltb_ge in *.
Ltac b2p := repeat progress b2p1.

Lemma gamma_bot w i v : is_bottom i = true -> ~ gamma w i v.
Proof. intros B [_ H]. rewrite at_bot in H by exact B. discriminate. Qed.

Lemma gamma_top w i v : is_top i = true -> wfw w v -> gamma w i v.
Proof. intros T H. split; [exact H|]. apply at_top; [apply top_not_bot|]; exact T. Qed.

Lemma leq_sound w a x v : iwf w a -> iwf w x -> wi_leq a x = true -> gamma w a v -> gamma w x v.
Proof.
  intros Wa Wx L [Hv G]. unfold wi_leq in L.
  destruct (is_top x) eqn:Tx; [apply gamma_top; assumption|].
  destruct (is_bottom a) eqn:Ba; [rewrite at_bot in G by exact Ba; discriminate|].
  simpl in L.
  destruct (is_bottom x) eqn:Bx; [discriminate|].
  destruct (is_top a) eqn:Ta; [discriminate|]. simpl in L.
  destruct (iwf_range w a Wa Ba Ta) as (Ba' & Hs & He).
  destruct (iwf_range w x Wx Bx Tx) as (Bx' & Hxs & Hxe).
  split; [exact Hv|].
  repeat rewrite (at_range w) in * by assumption.
  pose proof (wfw_range _ _ Hs) as [Hw Rs]. pose proof (wfw_range _ _ He) as [_ Re].
  pose proof (wfw_range _ _ Hxs) as [_ Rxs]. pose proof (wfw_range _ _ Hxe) as [_ Rxe].
  pose proof (wfw_range _ _ Hv) as [_ Rv].
  set (M := 2 ^ w) in *.
  destruct (weq (wstart a) (wstart x) && weq (wend a) (wend x)) eqn:EQ.
  - unfold weq in EQ. b2p. destruct EQ as [E1 E2]. rewrite <- E1, <- E2. exact G.
  - clear EQ. b2p.
    msub M (wn v) (wn (wstart a)). msub M (wn (wend a)) (wn (wstart a)).
    msub M (wn v) (wn (wstart x)). msub M (wn (wend x)) (wn (wstart x)).
    msub M (wn (wstart a)) (wn (wstart x)). msub M (wn (wend a)) (wn (wstart x)).
    msub M (wn (wstart x)) (wn (wstart a)). msub M (wn (wend x)) (wn (wstart a)).
    lia.
Qed.
Lemma gamma_mk w s e v : wfw w s -> wfw w e -> wfw w v ->
  (wn v - wn s) mod 2 ^ w <= (wn e - wn s) mod 2 ^ w -> gamma w (wi_mk s e) v.
Proof.
  intros Hs He Hv H. split; [exact Hv|].
  destruct (is_top (wi_mk s e)) eqn:T.
  - apply at_top; [reflexivity|exact T].
  - rewrite (at_range w) by (try assumption; reflexivity). simpl. apply Z.leb_le. exact H.
Qed.

Lemma gamma_range w i v : wbot i = false -> is_top i = false -> wfw w (wstart i) -> wfw w (wend i) ->
  gamma w i v -> (wn v - wn (wstart i)) mod 2 ^ w <= (wn (wend i) - wn (wstart i)) mod 2 ^ w.
Proof.
  intros B T Hs He [Hv G]. rewrite (at_range w) in G by assumption. apply Z.leb_le. exact G.
Qed.



(* membership in the wrapped interval [s,e] by comparisons of the representatives *)
Definition inb (s e p : Z) : bool :=
  if s <=? e then (s <=? p) && (p <=? e) else (s <=? p) || (p <=? e).

Lemma inb_spec M s e p : 0 <= s < M -> 0 <= e < M -> 0 <= p < M ->
  ((p - s) mod M <=? (e - s) mod M) = inb s e p.
Proof.
  intros Hs He Hp. unfold inb.
  destruct (msub_cases M p s Hp Hs) as [[-> ?]|[-> ?]];
  destruct (msub_cases M e s He Hs) as [[-> ?]|[-> ?]];
  destruct (Z.leb_spec s e); destruct (Z.leb_spec s p); destruct (Z.leb_spec p e); simpl;
  try lia; (apply Z.leb_le || apply Z.leb_gt); lia.
Qed.

(* decide every comparison occurring in the goal or the hypotheses, pruning with lia *)
Ltac dec_cmp a b :=
  let P := fresh "P" in
  destruct (Z.leb_spec a b) as [P|P];
  [rewrite ?(proj2 (Z.leb_le a b) P) in * | rewrite ?(proj2 (Z.leb_gt a b) P) in *].
Ltac dec_lt a b :=
  let P := fresh "P" in
  destruct (Z.ltb_spec a b) as [P|P];
  [rewrite ?(proj2 (Z.ltb_lt a b) P) in * | rewrite ?(proj2 (Z.ltb_ge a b) P) in *].
Ltac dec_eq a b :=
  let P := fresh "P" in
  destruct (Z.eqb_spec a b) as [P|P];
  [rewrite ?(proj2 (Z.eqb_eq a b) P) in * | rewrite ?(proj2 (Z.eqb_neq a b) P) in *].
Ltac dec_step :=
  match goal with
  | H : context [?a <=? ?b] |- _ => dec_cmp a b
  | |- context [?a <=? ?b] => dec_cmp a b
  | H : context [?a <? ?b] |- _ => dec_lt a b
  | |- context [?a <? ?b] => dec_lt a b
  | H : context [?a =? ?b] |- _ => dec_eq a b
  | |- context [?a =? ?b] => dec_eq a b
  end; cbn [andb orb negb] in *; try discriminate; try reflexivity; try (exfalso; lia).
Ltac dec_all := cbn [andb orb negb] in *; repeat dec_step.


Lemma at_inb w i x : wbot i = false -> is_top i = false -> wfw w (wstart i) -> wfw w (wend i) ->
  wfw w x -> wi_at i x = inb (wn (wstart i)) (wn (wend i)) (wn x).
Proof.
  intros B T Hs He Hx. rewrite (at_range w) by assumption.
  apply inb_spec; eapply wfw_range; eassumption.
Qed.

Lemma gamma_mk_inb w s e v : wfw w s -> wfw w e -> wfw w v ->
  inb (wn s) (wn e) (wn v) = true -> gamma w (wi_mk s e) v.
Proof.
  intros Hs He Hv H. split; [exact Hv|].
  destruct (is_top (wi_mk s e)) eqn:T.
  - apply at_top; [reflexivity|exact T].
  - rewrite (at_inb w) by (try assumption; reflexivity). exact H.
Qed.

Lemma gamma_inb w i v : wbot i = false -> is_top i = false -> wfw w (wstart i) -> wfw w (wend i) ->
  gamma w i v -> inb (wn (wstart i)) (wn (wend i)) (wn v) = true.
Proof. intros B T Hs He [Hv G]. rewrite (at_inb w) in G by assumption. exact G. Qed.

Lemma leq_inb w a x :
  wbot a = false -> is_top a = false -> wfw w (wstart a) -> wfw w (wend a) ->
  wbot x = false -> is_top x = false -> wfw w (wstart x) -> wfw w (wend x) ->
  let s := wn (wstart a) in let e := wn (wend a) in
  let xs := wn (wstart x) in let xe := wn (wend x) in
  wi_leq a x =
  if (s =? xs) && (e =? xe) then true
  else inb xs xe s && inb xs xe e && (negb (inb s e xs) || negb (inb s e xe)).
Proof.
  intros Ba Ta Hs He Bx Tx Hxs Hxe. simpl. unfold wi_leq, is_bottom. rewrite Ba, Bx, Ta, Tx. simpl.
  repeat rewrite (at_inb w) by assumption. reflexivity.
Qed.

Lemma leq_false_l a x : wi_leq a x = false -> is_top x = false /\ is_bottom a = false.
Proof.
  unfold wi_leq. destruct (is_top x); [discriminate|]. destruct (is_bottom a); [discriminate|]. auto.
Qed.

Lemma iwf_mk w s e : wfw w s -> wfw w e -> iwf w (wi_mk s e).
Proof. intros. right. right. simpl. auto. Qed.
Lemma iwf_top w : iwf w wi_top.
Proof. right. left. reflexivity. Qed.
Lemma iwf_bottom w : iwf w wi_bottom.
Proof. left. reflexivity. Qed.

Lemma not_leq_ranges w a x : iwf w a -> iwf w x -> wi_leq a x = false -> wi_leq x a = false ->
  (wbot a = false /\ is_top a = false /\ wfw w (wstart a) /\ wfw w (wend a)) /\
  (wbot x = false /\ is_top x = false /\ wfw w (wstart x) /\ wfw w (wend x)).
Proof.
  intros Wa Wx L1 L2. destruct (leq_false_l _ _ L1) as [Tx Ba]. destruct (leq_false_l _ _ L2) as [Ta Bx].
  destruct (iwf_range w a Wa Ba Ta) as (A1 & A2 & A3).
  destruct (iwf_range w x Wx Bx Tx) as (B1 & B2 & B3). auto 10.
Qed.

Ltac zranges :=
  repeat match goal with
  | H : wfw ?w ?x |- _ =>
    lazymatch goal with
    | _ : 0 <= wn x < 2 ^ w |- _ => fail
    | _ => pose proof (proj2 (wfw_range w x H))
    end
  end.

Lemma join_sound w a x v : iwf w a -> iwf w x -> gamma w a v \/ gamma w x v -> gamma w (wi_join a x) v.
Proof.
  intros Wa Wx G. unfold wi_join.
  destruct (wi_leq a x) eqn:L1.
  { destruct G as [G|G]; [exact (leq_sound w a x v Wa Wx L1 G)|exact G]. }
  destruct (wi_leq x a) eqn:L2.
  { destruct G as [G|G]; [exact G|exact (leq_sound w x a v Wx Wa L2 G)]. }
  destruct (not_leq_ranges w a x Wa Wx L1 L2) as ((Ba & Ta & Hs & He) & (Bx & Tx & Hxs & Hxe)).
  assert (wfw w v) as Hv by (destruct G as [[H _]|[H _]]; exact H).
  assert (inb (wn (wstart a)) (wn (wend a)) (wn v) || inb (wn (wstart x)) (wn (wend x)) (wn v) = true) as G'.
  { apply orb_true_iff. destruct G as [G|G]; [left|right]; eapply gamma_inb; eassumption. }
  clear G. rewrite (leq_inb w) in L1, L2 by assumption.
  repeat rewrite (at_inb w) by assumption.
  zranges.
  match goal with |- context [if wlt ?p ?q || ?r then _ else _] => generalize (wlt p q || r) end.
  intros gapc.
  repeat match goal with
  | |- context [if ?c then _ else _] => let E := fresh "E" in destruct c eqn:E
  end; try (apply gamma_top; [reflexivity|exact Hv]);
  (apply gamma_mk_inb; [assumption|assumption|assumption|]).
  all: clear Wa Wx Ba Ta Bx Tx Hs He Hxs Hxe Hv; unfold inb in *; dec_all.
Qed.

Lemma iwf_join w a x : iwf w a -> iwf w x -> iwf w (wi_join a x).
Proof.
  intros Wa Wx. unfold wi_join.
  destruct (wi_leq a x) eqn:L1; [exact Wx|].
  destruct (wi_leq x a) eqn:L2; [exact Wa|].
  destruct (not_leq_ranges w a x Wa Wx L1 L2) as ((Ba & Ta & Hs & He) & (Bx & Tx & Hxs & Hxe)).
  repeat match goal with
  | |- context [if ?c then _ else _] => destruct c
  end; try apply iwf_top; apply iwf_mk; assumption.
Qed.

(* ---------------------------------------------------------------- meet, equality *)


Lemma leq_bot_l a x : is_bottom a = true -> wi_leq a x = true.
Proof. intros B. unfold wi_leq. rewrite B, orb_true_r. reflexivity. Qed.

Lemma meet_sound w a x v : iwf w a -> iwf w x -> gamma w a v -> gamma w x v -> gamma w (wi_meet a x) v.
Proof.
  intros Wa Wx Ga Gx. unfold wi_meet.
  destruct (wi_leq a x) eqn:L1; [exact Ga|].
  destruct (wi_leq x a) eqn:L2; [exact Gx|].
  destruct (not_leq_ranges w a x Wa Wx L1 L2) as ((Ba & Ta & Hs & He) & (Bx & Tx & Hxs & Hxe)).
  pose proof (gamma_inb w a v Ba Ta Hs He Ga) as Ia.
  pose proof (gamma_inb w x v Bx Tx Hxs Hxe Gx) as Ix.
  assert (wfw w v) as Hv by apply Ga.
  rewrite (leq_inb w) in L1, L2 by assumption.
  repeat rewrite (at_inb w) by assumption.
  zranges.
  match goal with |- context [if wlt ?p ?q || ?r then _ else _] => generalize (wlt p q || r) end.
  intros gapc.
  repeat match goal with
  | |- context [if ?c then _ else _] => let E := fresh "E" in destruct c eqn:E
  end; try assumption; try (apply gamma_mk_inb; [assumption|assumption|assumption|]).
  all: clear Wa Wx Ba Ta Bx Tx Hs He Hxs Hxe Hv Ga Gx; unfold inb in *; dec_all.
Qed.

Lemma iwf_meet w a x : iwf w a -> iwf w x -> iwf w (wi_meet a x).
Proof.
  intros Wa Wx. unfold wi_meet.
  destruct (wi_leq a x) eqn:L1; [exact Wa|].
  destruct (wi_leq x a) eqn:L2; [exact Wx|].
  destruct (not_leq_ranges w a x Wa Wx L1 L2) as ((Ba & Ta & Hs & He) & (Bx & Tx & Hxs & Hxe)).
  repeat match goal with
  | |- context [if ?c then _ else _] => destruct c
  end; try assumption; try apply iwf_bottom; apply iwf_mk; assumption.
Qed.

Lemma eq_sound w a x v : iwf w a -> iwf w x -> wi_eq a x = true -> (gamma w a v <-> gamma w x v).
Proof.
  intros Wa Wx E. unfold wi_eq in E. apply andb_true_iff in E. destruct E as [E1 E2].
  split; intros G; [exact (leq_sound w a x v Wa Wx E1 G)|exact (leq_sound w x a v Wx Wa E2 G)].
Qed.

(* ---------------------------------------------------------------- addition, subtraction, negation *)


Lemma madd_cases M a b : 0 <= a < M -> 0 <= b < M ->
  ((a + b) mod M = a + b /\ a + b < M) \/ ((a + b) mod M = a + b - M /\ M <= a + b).
Proof.
  intros Ha Hb. destruct (Z_lt_ge_dec (a + b) M).
  - left. split; [apply Z.mod_small; lia|lia].
  - right. split; [|lia]. symmetry. apply (Z.mod_unique (a + b) M 1); lia.
Qed.

(* the overflow test of operator+ / operator-: x_sz + sz + 1 <= x_sz (mod M) is false exactly
   when the two lengths add up to less than M - 1 *)
Lemma no_overflow_Z M la lx : 1 < M -> 0 <= la < M -> 0 <= lx < M ->
  (((lx + la) mod M + 1 mod M) mod M <=? lx) = false -> lx + la + 1 < M.
Proof.
  intros HM Ha Hx H. apply Z.leb_gt in H.
  rewrite (Z.mod_small 1 M) in H by lia.
  destruct (madd_cases M lx la Hx Ha) as [[E1 ?]|[E1 ?]]; rewrite E1 in H.
  - destruct (Z.eq_dec (lx + la + 1) M) as [EQ|NE]; [|lia].
    rewrite EQ, Z.mod_same in H by lia. lia.
  - rewrite Z.mod_small in H by lia. lia.
Qed.

Lemma add_Z M s e xs xe v y : 0 < M ->
  (xe - xs) mod M + (e - s) mod M + 1 < M ->
  (v - s) mod M <= (e - s) mod M -> (y - xs) mod M <= (xe - xs) mod M ->
  ((v + y) mod M - (s + xs) mod M) mod M <= ((e + xe) mod M - (s + xs) mod M) mod M.
Proof.
  intros HM NO Hv Hy.
  pose proof (Z.mod_pos_bound (v - s) M HM). pose proof (Z.mod_pos_bound (y - xs) M HM).
  pose proof (Z.mod_pos_bound (e - s) M HM). pose proof (Z.mod_pos_bound (xe - xs) M HM).
  replace (((v + y) mod M - (s + xs) mod M) mod M) with (((v - s) mod M + (y - xs) mod M) mod M)
    by (rewrite <- Zminus_mod, <- Zplus_mod; f_equal; lia).
  replace (((e + xe) mod M - (s + xs) mod M) mod M) with (((e - s) mod M + (xe - xs) mod M) mod M)
    by (rewrite <- Zminus_mod, <- Zplus_mod; f_equal; lia).
  rewrite (Z.mod_small ((v - s) mod M + (y - xs) mod M)) by lia.
  rewrite (Z.mod_small ((e - s) mod M + (xe - xs) mod M)) by lia. lia.
Qed.

(* distance to the end of an interval *)
Lemma dist_end_Z M s e v : 0 < M -> (v - s) mod M <= (e - s) mod M ->
  (e - v) mod M = (e - s) mod M - (v - s) mod M.
Proof.
  intros HM H.
  pose proof (Z.mod_pos_bound (v - s) M HM). pose proof (Z.mod_pos_bound (e - s) M HM).
  replace (e - v) with ((e - s) - (v - s)) by lia. rewrite Zminus_mod. apply Z.mod_small. lia.
Qed.

Lemma sub_Z M s e xs xe v y : 0 < M ->
  (xe - xs) mod M + (e - s) mod M + 1 < M ->
  (v - s) mod M <= (e - s) mod M -> (y - xs) mod M <= (xe - xs) mod M ->
  ((v - y) mod M - (s - xe) mod M) mod M <= ((e - xs) mod M - (s - xe) mod M) mod M.
Proof.
  intros HM NO Hv Hy.
  pose proof (Z.mod_pos_bound (v - s) M HM). pose proof (Z.mod_pos_bound (y - xs) M HM).
  pose proof (Z.mod_pos_bound (e - s) M HM). pose proof (Z.mod_pos_bound (xe - xs) M HM).
  pose proof (dist_end_Z M xs xe y HM Hy) as D.
  replace (((v - y) mod M - (s - xe) mod M) mod M) with (((v - s) mod M + (xe - y) mod M) mod M)
    by (rewrite <- Zminus_mod, <- Zplus_mod; f_equal; lia).
  replace (((e - xs) mod M - (s - xe) mod M) mod M) with (((e - s) mod M + (xe - xs) mod M) mod M)
    by (rewrite <- Zminus_mod, <- Zplus_mod; f_equal; lia).
  rewrite D.
  rewrite (Z.mod_small ((v - s) mod M + ((xe - xs) mod M - (y - xs) mod M))) by lia.
  rewrite (Z.mod_small ((e - s) mod M + (xe - xs) mod M)) by lia. lia.
Qed.

Lemma neg_Z M s e v : 0 < M -> (v - s) mod M <= (e - s) mod M ->
  ((- v) mod M - (- e) mod M) mod M <= ((- s) mod M - (- e) mod M) mod M.
Proof.
  intros HM Hv.
  pose proof (Z.mod_pos_bound (v - s) M HM). pose proof (Z.mod_pos_bound (e - s) M HM).
  pose proof (dist_end_Z M s e v HM Hv) as D.
  replace (((- v) mod M - (- e) mod M) mod M) with ((e - v) mod M)
    by (rewrite <- Zminus_mod; f_equal; lia).
  replace (((- s) mod M - (- e) mod M) mod M) with ((e - s) mod M)
    by (rewrite <- Zminus_mod; f_equal; lia).
  lia.
Qed.

Lemma pow2_gt1 w : 1 <= w -> 1 < 2 ^ w.
Proof. intros. change 1 with (2 ^ 0) at 1. apply Z.pow_lt_mono_r; lia. Qed.

Lemma wmk_one w : 1 <= w <= 64 -> wfw w (wmk 1 w) /\ wn (wmk 1 w) = 1 mod 2 ^ w.
Proof.
  intros H. destruct (wmk_spec 1 w H) as (A & B & C); [split; [lia|reflexivity]|].
  split; [split; assumption|exact C].
Qed.

Lemma gamma_cases w i v : iwf w i -> gamma w i v ->
  is_bottom i = false /\
  (is_top i = true \/
   (is_top i = false /\ wbot i = false /\ wfw w (wstart i) /\ wfw w (wend i) /\
    (wn v - wn (wstart i)) mod 2 ^ w <= (wn (wend i) - wn (wstart i)) mod 2 ^ w)).
Proof.
  intros W G. destruct (is_bottom i) eqn:B; [elim (gamma_bot w i v B G)|]. split; [reflexivity|].
  destruct (is_top i) eqn:T; [left; reflexivity|right].
  destruct (iwf_range w i W B T) as (B' & Hs & He).
  split; [reflexivity|]. split; [exact B'|]. split; [exact Hs|]. split; [exact He|].
  eapply gamma_range; eassumption.
Qed.

Lemma add_sound w a x v y : iwf w a -> iwf w x -> gamma w a v -> gamma w x y ->
  gamma w (wi_add a x) (wadd v y).
Proof.
  intros Wa Wx Ga Gx.
  destruct (gamma_cases w a v Wa Ga) as (Ba & Ca). destruct (gamma_cases w x y Wx Gx) as (Bx & Cx).
  assert (wfw w v) as Hv by apply Ga. assert (wfw w y) as Hy by apply Gx.
  destruct (wadd_val w v y Hv Hy) as [Hr Vr].
  unfold wi_add. rewrite Ba, Bx. cbn [orb].
  destruct Ca as [Ta|(Ta & Ba' & Hs & He & Ia)]; [rewrite Ta; cbn [orb]; apply gamma_top; [reflexivity|exact Hr]|].
  destruct Cx as [Tx|(Tx & Bx' & Hxs & Hxe & Ix)];
    [rewrite Tx, orb_true_r; apply gamma_top; [reflexivity|exact Hr]|].
  rewrite Ta, Tx. cbn [orb].
  pose proof (wfw_range _ _ Hs) as [Hw _].
  destruct (wsub_val w _ _ Hxe Hxs) as [Hxsz Vxsz]. destruct (wsub_val w _ _ He Hs) as [Hsz Vsz].
  assert (get_bitwidth (wsub (wend x) (wstart x)) = w) as BW by apply Hxsz. rewrite BW.
  destruct (wmk_one w Hw) as [Hone Vone].
  destruct (wadd_val w _ _ Hxsz Hsz) as [H1 V1]. destruct (wadd_val w _ _ H1 Hone) as [H2 V2].
  unfold wle. rewrite V2, V1, Vone, Vxsz, Vsz.
  pose proof (pow2_gt1 w ltac:(lia)) as M1.
  destruct (_ <=? _) eqn:OV; [apply gamma_top; [reflexivity|exact Hr]|].
  apply no_overflow_Z in OV; [|lia|apply Z.mod_pos_bound; lia|apply Z.mod_pos_bound; lia].
  destruct (wadd_val w _ _ Hs Hxs) as [Hrs Vrs]. destruct (wadd_val w _ _ He Hxe) as [Hre Vre].
  apply gamma_mk; [exact Hrs|exact Hre|exact Hr|]. rewrite Vr, Vrs, Vre.
  apply add_Z; [lia|exact OV|exact Ia|exact Ix].
Qed.

Lemma sub_sound w a x v y : iwf w a -> iwf w x -> gamma w a v -> gamma w x y ->
  gamma w (wi_sub a x) (wsub v y).
Proof.
  intros Wa Wx Ga Gx.
  destruct (gamma_cases w a v Wa Ga) as (Ba & Ca). destruct (gamma_cases w x y Wx Gx) as (Bx & Cx).
  assert (wfw w v) as Hv by apply Ga. assert (wfw w y) as Hy by apply Gx.
  destruct (wsub_val w v y Hv Hy) as [Hr Vr].
  unfold wi_sub. rewrite Ba, Bx. cbn [orb].
  destruct Ca as [Ta|(Ta & Ba' & Hs & He & Ia)]; [rewrite Ta; cbn [orb]; apply gamma_top; [reflexivity|exact Hr]|].
  destruct Cx as [Tx|(Tx & Bx' & Hxs & Hxe & Ix)];
    [rewrite Tx, orb_true_r; apply gamma_top; [reflexivity|exact Hr]|].
  rewrite Ta, Tx. cbn [orb].
  pose proof (wfw_range _ _ Hs) as [Hw _].
  destruct (wsub_val w _ _ Hxe Hxs) as [Hxsz Vxsz]. destruct (wsub_val w _ _ He Hs) as [Hsz Vsz].
  assert (get_bitwidth (wsub (wend x) (wstart x)) = w) as BW by apply Hxsz. rewrite BW.
  destruct (wmk_one w Hw) as [Hone Vone].
  destruct (wadd_val w _ _ Hxsz Hsz) as [H1 V1]. destruct (wadd_val w _ _ H1 Hone) as [H2 V2].
  unfold wle. rewrite V2, V1, Vone, Vxsz, Vsz.
  pose proof (pow2_gt1 w ltac:(lia)) as M1.
  destruct (_ <=? _) eqn:OV; [apply gamma_top; [reflexivity|exact Hr]|].
  apply no_overflow_Z in OV; [|lia|apply Z.mod_pos_bound; lia|apply Z.mod_pos_bound; lia].
  destruct (wsub_val w _ _ Hs Hxe) as [Hrs Vrs]. destruct (wsub_val w _ _ He Hxs) as [Hre Vre].
  apply gamma_mk; [exact Hrs|exact Hre|exact Hr|]. rewrite Vr, Vrs, Vre.
  apply sub_Z; [lia|exact OV|exact Ia|exact Ix].
Qed.

Lemma neg_sound w a v : iwf w a -> gamma w a v -> gamma w (wi_neg a) (wneg v).
Proof.
  intros Wa Ga.
  destruct (gamma_cases w a v Wa Ga) as (Ba & Ca).
  assert (wfw w v) as Hv by apply Ga.
  destruct (wneg_val w v Hv) as [Hr Vr].
  unfold wi_neg. rewrite Ba.
  destruct Ca as [Ta|(Ta & Ba' & Hs & He & Ia)]; rewrite Ta; [apply gamma_top; [reflexivity|exact Hr]|].
  pose proof (wfw_range _ _ Hs) as [Hw _].
  destruct (wneg_val w _ He) as [Hrs Vrs]. destruct (wneg_val w _ Hs) as [Hre Vre].
  apply gamma_mk; [exact Hrs|exact Hre|exact Hr|]. rewrite Vr, Vrs, Vre.
  apply neg_Z; [apply pow2_pos; lia|exact Ia].
Qed.

Lemma iwf_add w a x : iwf w a -> iwf w x -> iwf w (wi_add a x).
Proof.
  intros Wa Wx. unfold wi_add.
  destruct (is_bottom a) eqn:Ba; [apply iwf_bottom|]. destruct (is_bottom x) eqn:Bx; [apply iwf_bottom|].
  destruct (is_top a) eqn:Ta; [apply iwf_top|]. destruct (is_top x) eqn:Tx; [apply iwf_top|]. simpl.
  destruct (iwf_range w a Wa Ba Ta) as (_ & Hs & He). destruct (iwf_range w x Wx Bx Tx) as (_ & Hxs & Hxe).
  destruct (wle _ _); [apply iwf_top|]. apply iwf_mk; eapply wadd_val; eassumption.
Qed.
Lemma iwf_sub w a x : iwf w a -> iwf w x -> iwf w (wi_sub a x).
Proof.
  intros Wa Wx. unfold wi_sub.
  destruct (is_bottom a) eqn:Ba; [apply iwf_bottom|]. destruct (is_bottom x) eqn:Bx; [apply iwf_bottom|].
  destruct (is_top a) eqn:Ta; [apply iwf_top|]. destruct (is_top x) eqn:Tx; [apply iwf_top|]. simpl.
  destruct (iwf_range w a Wa Ba Ta) as (_ & Hs & He). destruct (iwf_range w x Wx Bx Tx) as (_ & Hxs & Hxe).
  destruct (wle _ _); [apply iwf_top|]. apply iwf_mk; eapply wsub_val; eassumption.
Qed.
Lemma iwf_neg w a : iwf w a -> iwf w (wi_neg a).
Proof.
  intros Wa. unfold wi_neg.
  destruct (is_bottom a) eqn:Ba; [apply iwf_bottom|]. destruct (is_top a) eqn:Ta; [apply iwf_top|].
  destruct (iwf_range w a Wa Ba Ta) as (_ & Hs & He). apply iwf_mk; eapply wneg_val; eassumption.
Qed.

(* ---------------------------------------------------------------- widening, default operators, constructors *)


Lemma wmk_wfw n w : 1 <= w <= 64 -> 0 <= n < 2 ^ 64 -> wfw w (wmk n w) /\ wn (wmk n w) = n mod 2 ^ w.
Proof.
  intros H Hn. destruct (wmk_spec n w H Hn) as (A & B & C). split; [split; assumption|exact C].
Qed.

Lemma wmk_small_wfw n w : 1 <= w <= 64 -> 0 <= n < 2 ^ 64 -> wfw w (wmk n w).
Proof. intros. apply wmk_wfw; assumption. Qed.

Lemma widen_sound w a x r v : iwf w a -> iwf w x -> wi_widen a x = Some r ->
  gamma w a v \/ gamma w x v -> gamma w r v.
Proof.
  intros Wa Wx R G. unfold wi_widen in R.
  assert (wfw w v) as Hv by (destruct G as [[H _]|[H _]]; exact H).
  destruct (is_bottom a) eqn:Ba.
  { inversion R; subst r. destruct G as [G|G]; [elim (gamma_bot w a v Ba G)|exact G]. }
  destruct (is_bottom x) eqn:Bx.
  { inversion R; subst r. destruct G as [G|G]; [exact G|elim (gamma_bot w x v Bx G)]. }
  destruct (is_top a || is_top x) eqn:TT.
  { inversion R; subst r. apply gamma_top; [reflexivity|exact Hv]. }
  apply orb_false_iff in TT. destruct TT as [Ta Tx].
  destruct (wi_leq x a) eqn:L.
  { inversion R; subst r. destruct G as [G|G]; [exact G|exact (leq_sound w x a v Wx Wa L G)]. }
  destruct (iwf_range w a Wa Ba Ta) as (_ & Hs & He). destruct (iwf_range w x Wx Bx Tx) as (_ & Hxs & Hxe).
  pose proof (wfw_range _ _ Hs) as [Hw _].
  assert (get_bitwidth (wstart x) = w) as BW by apply Hxs. rewrite BW in R.
  match type of R with obind ?m _ = _ => destruct m as [mx|] end; [|discriminate]. cbn [obind] in R.
  pose proof (join_sound w a x v Wa Wx G) as GJ. pose proof (iwf_join w a x Wa Wx) as WJ.
  assert (forall n, 0 <= n < 2 ^ 64 -> wfw w (wmk n w)) as K by (intros; apply wmk_small_wfw; assumption).
  assert (wfw w (wmk 8 w)) as K8 by (apply K; split; [lia|reflexivity]).
  assert (wfw w (wmk 7 w)) as K7 by (apply K; split; [lia|reflexivity]).
  destruct (wge _ _); [inversion R; subst r; apply gamma_top; [reflexivity|exact Hv]|].
  destruct (wi_eq (wi_join a x) (wi_mk (wstart a) (wend x))).
  { inversion R; subst r. apply join_sound; [exact WJ| |left; exact GJ].
    apply iwf_mk; [exact Hs|].
    apply wadd_val; [|exact K7]. apply wsub_val; apply wmul_val; assumption. }
  destruct (wi_eq (wi_join a x) (wi_mk (wstart x) (wend a))).
  { inversion R; subst r. apply join_sound; [exact WJ| |left; exact GJ].
    apply iwf_mk; [|exact He].
    apply wsub_val; [|exact K7]. apply wsub_val; apply wmul_val; assumption. }
  destruct (wi_at x (wstart a) && wi_at x (wend a)).
  { inversion R; subst r. apply join_sound; [exact WJ| |left; exact GJ].
    apply iwf_mk; [exact Hxs|]. apply wadd_val; [exact Hxs|].
    apply wadd_val; [|exact K7]. apply wsub_val; apply wmul_val; assumption. }
  inversion R; subst r. apply gamma_top; [reflexivity|exact Hv].
Qed.

Lemma default_sound w a x v y r : gamma w a v -> gamma w x y -> wfw w r ->
  gamma w (default_implementation a x) r.
Proof.
  intros Ga Gx Hr. unfold default_implementation.
  destruct (is_bottom a) eqn:Ba; [elim (gamma_bot w a v Ba Ga)|].
  destruct (is_bottom x) eqn:Bx; [elim (gamma_bot w x y Bx Gx)|].
  apply gamma_top; [reflexivity|exact Hr].
Qed.

Lemma singleton_sound w n : wfw w n -> gamma w (wi_single n) n.
Proof.
  intros H. apply gamma_mk; try exact H. rewrite Z.sub_diag. lia.
Qed.

Lemma gamma_single w n v : wfw w n -> gamma w (wi_single n) v -> is_top (wi_single n) = false -> v = n.
Proof.
  intros Hn G T. pose proof (gamma_range w (wi_single n) v eq_refl T Hn Hn G) as R. simpl in R.
  destruct G as [Hv _]. pose proof (wfw_range _ _ Hn) as [Hw Rn]. pose proof (wfw_range _ _ Hv) as [_ Rv].
  rewrite Z.sub_diag, Z.mod_0_l in R by (apply Z.pow_nonzero; lia).
  destruct (msub_cases (2 ^ w) (wn v) (wn n) Rv Rn) as [[E ?]|[E ?]]; rewrite E in R; try lia.
  apply wrapint_eq; [destruct Hv as [_ ->]; destruct Hn as [_ ->]; reflexivity|lia].
Qed.

(* mk_winterval: the number (modulo 2^w) is a member *)
Lemma mk_winterval1_sound n w r : mk_winterval1 n w = Some r ->
  forall x, of_z n w = Some x -> gamma w r x.
Proof.
  unfold mk_winterval1. intros R x X. pose proof (of_z_spec n w) as S. rewrite X in S.
  destruct S as (Hw & Hn & Wx & Ex & Vx).
  assert (fits_wrapint n w = true) as F by (apply fits_wrapint_spec; lia). rewrite F, X in R.
  cbn [obind] in R. inversion R; subst r. apply singleton_sound. split; assumption.
Qed.

(* ---------------------------------------------------------------- cuts at the poles *)


(* is_top by comparisons of the representatives *)
Lemma is_top_cmp w i : wbot i = false -> wfw w (wstart i) -> wfw w (wend i) ->
  is_top i = (wn (wstart i) =? wn (wend i) + 1) || ((wn (wstart i) =? 0) && (wn (wend i) =? 2 ^ w - 1)).
Proof.
  intros B Hs He. rewrite (is_top_range w) by assumption.
  pose proof (wfw_range _ _ Hs) as [Hw Rs]. pose proof (wfw_range _ _ He) as [_ Re].
  destruct (msub_cases (2 ^ w) _ _ Re Rs) as [[-> ?]|[-> ?]]; dec_all.
Qed.

Definition range_nt (w : Z) (i : witv) : Prop :=
  wbot i = false /\ is_top i = false /\ wfw w (wstart i) /\ wfw w (wend i).

Lemma range_nt_mk w s e : wfw w s -> wfw w e -> is_top (wi_mk s e) = false -> range_nt w (wi_mk s e).
Proof. intros. split; [reflexivity|]. split; [assumption|]. split; assumption. Qed.

Lemma bitwidth_range w i : range_nt w i -> wi_bitwidth i = Some w.
Proof.
  intros (B & T & Hs & He). unfold wi_bitwidth, is_bottom. rewrite B, T.
  f_equal. apply Hs.
Qed.

Lemma half_pow w : 1 <= w -> 2 ^ w = 2 * 2 ^ (w - 1) /\ 0 < 2 ^ (w - 1).
Proof. intros. split; [apply pow2_split; lia|apply pow2_pos; lia]. Qed.

(* unsigned_split cuts exactly the intervals that wrap around 2^w - 1 -> 0 *)
Lemma unsigned_split_range w i : range_nt w i ->
  unsigned_split i = Some (if wn (wstart i) <=? wn (wend i) then [i]
                           else [wi_mk (wstart i) (get_unsigned_max w); wi_mk (get_unsigned_min w) (wend i)]).
Proof.
  intros R. pose proof R as (B & T & Hs & He). unfold unsigned_split, is_bottom. rewrite B.
  rewrite (bitwidth_range w i R). cbn [obind].
  pose proof (wfw_range _ _ Hs) as [Hw Rs]. pose proof (wfw_range _ _ He) as [_ Re].
  destruct (umax_val w Hw) as [Hmax Vmax]. destruct (umin_val w Hw) as [Hmin Vmin].
  pose proof T as T'. rewrite (is_top_cmp w) in T by assumption.
  destruct (half_pow w ltac:(lia)) as [M2 HP].
  destruct (is_top (unsigned_limit w)) eqn:TL.
  - assert (wi_leq (unsigned_limit w) i = false) as ->.
    { unfold wi_leq, is_bottom. rewrite B, T', TL. reflexivity. }
    rewrite (is_top_cmp w) in TL by (try reflexivity; assumption). cbn [unsigned_limit wi_mk wstart wend] in TL.
    rewrite Vmax, Vmin in TL. clear T'. dec_all.
  - rewrite (leq_inb w) by (try assumption; reflexivity).
    cbn [unsigned_limit wi_mk wstart wend]. rewrite Vmax, Vmin. unfold inb.
    clear TL T'. dec_all.
Qed.

(* signed_split cuts exactly the intervals that contain the step 2^(w-1) - 1 -> 2^(w-1) *)
Definition cross_north (w : Z) (i : witv) : bool :=
  let s := wn (wstart i) in let e := wn (wend i) in let H := 2 ^ (w - 1) in
  if s <=? e then (s <=? H - 1) && (H <=? e) else (s <=? H - 1) || (H <=? e).

Lemma signed_split_range w i : range_nt w i ->
  signed_split i = Some (if cross_north w i
                         then [wi_mk (wstart i) (get_signed_max w); wi_mk (get_signed_min w) (wend i)]
                         else [i]).
Proof.
  intros R. pose proof R as (B & T & Hs & He). unfold signed_split, is_bottom. rewrite B.
  rewrite (bitwidth_range w i R). cbn [obind].
  pose proof (wfw_range _ _ Hs) as [Hw Rs]. pose proof (wfw_range _ _ He) as [_ Re].
  destruct (smax_val w Hw) as [Hmax Vmax]. destruct (smin_val w Hw) as [Hmin Vmin].
  destruct (half_pow w ltac:(lia)) as [M2 HP].
  pose proof T as T'. rewrite (is_top_cmp w) in T by assumption. unfold cross_north.
  destruct (is_top (signed_limit w)) eqn:TL.
  - assert (wi_leq (signed_limit w) i = false) as ->.
    { unfold wi_leq, is_bottom. rewrite B, T', TL. reflexivity. }
    rewrite (is_top_cmp w) in TL by (try reflexivity; assumption). cbn [signed_limit wi_mk wstart wend] in TL.
    rewrite Vmax, Vmin in TL. clear T'. dec_all.
  - rewrite (leq_inb w) by (try assumption; reflexivity).
    cbn [signed_limit wi_mk wstart wend]. rewrite Vmax, Vmin. unfold inb.
    clear TL T'. dec_all.
Qed.


(* a piece that crosses neither pole *)
Definition hemi (w : Z) (p : witv) : Prop :=
  wbot p = false /\ wfw w (wstart p) /\ wfw w (wend p) /\
  wn (wstart p) <= wn (wend p) /\ (wn (wend p) < 2 ^ (w - 1) \/ 2 ^ (w - 1) <= wn (wstart p)).
(* a piece that does not cross the south pole *)
Definition sfree (w : Z) (p : witv) : Prop :=
  wbot p = false /\ wfw w (wstart p) /\ wfw w (wend p) /\ wn (wstart p) <= wn (wend p).

Lemma hemi_sfree w p : hemi w p -> sfree w p.
Proof. intros (A & B & C & D & _). split; [exact A|]. split; [exact B|]. split; [exact C|exact D]. Qed.

Definition inp (v : Z) (p : witv) : bool := inb (wn (wstart p)) (wn (wend p)) v.

Lemma gamma_of_inp w p v : wbot p = false -> wfw w (wstart p) -> wfw w (wend p) -> wfw w v ->
  inp (wn v) p = true -> gamma w p v.
Proof.
  intros B Hs He Hv I. split; [exact Hv|].
  destruct (is_top p) eqn:T; [apply at_top; [exact B|exact T]|].
  rewrite (at_inb w) by assumption. exact I.
Qed.

Lemma exists_of_existsb w l v : wfw w v ->
  Forall (fun p => wbot p = false /\ wfw w (wstart p) /\ wfw w (wend p)) l ->
  existsb (inp (wn v)) l = true -> Exists (fun p => gamma w p v) l.
Proof.
  intros Hv F. induction F as [|p l (B & Hs & He) F IH]; simpl; [discriminate|].
  intros E. apply orb_true_iff in E. destruct E as [E|E].
  - left. apply gamma_of_inp; assumption.
  - right. apply IH. exact E.
Qed.

Lemma sfree_not_top w p : sfree w p -> wn (wstart p) <> 0 \/ wn (wend p) <> 2 ^ w - 1 -> is_top p = false.
Proof.
  intros (B & Hs & He & L) N. rewrite (is_top_cmp w) by assumption. dec_all.
Qed.

Lemma unsigned_split_spec w i : range_nt w i ->
  exists l, unsigned_split i = Some l /\ Forall (sfree w) l /\
            (forall v, gamma w i v -> existsb (inp (wn v)) l = true).
Proof.
  intros R. pose proof R as (B & T & Hs & He). rewrite (unsigned_split_range w i R).
  pose proof (wfw_range _ _ Hs) as [Hw Rs]. pose proof (wfw_range _ _ He) as [_ Re].
  destruct (umax_val w Hw) as [Hmax Vmax]. destruct (umin_val w Hw) as [Hmin Vmin].
  eexists; split; [reflexivity|].
  destruct (Z.leb_spec (wn (wstart i)) (wn (wend i))) as [L|L].
  - split.
    + constructor; [|constructor]. split; [exact B|]. split; [exact Hs|]. split; [exact He|exact L].
    + intros v G. pose proof (gamma_inb w i v B T Hs He G) as I. cbn [existsb]. unfold inp. rewrite I. reflexivity.
  - split.
    + constructor; [|constructor; [|constructor]]; (split; [reflexivity|]); cbn [wi_mk wstart wend];
        (split; [assumption|]); (split; [assumption|]); lia.
    + intros v G. pose proof (gamma_inb w i v B T Hs He G) as I. pose proof (wfw_range _ _ (proj1 G)) as [_ Rv].
      cbn [existsb]. unfold inp. cbn [wi_mk wstart wend]. rewrite Vmax, Vmin.
      unfold inb in *. dec_all.
Qed.

Lemma signed_split_spec w i : range_nt w i ->
  exists l, signed_split i = Some l /\ Forall (range_nt w) l /\
            Forall (fun p => cross_north w p = false) l /\
            (forall v, gamma w i v -> existsb (inp (wn v)) l = true).
Proof.
  intros R. pose proof R as (B & T & Hs & He). rewrite (signed_split_range w i R).
  pose proof (wfw_range _ _ Hs) as [Hw Rs]. pose proof (wfw_range _ _ He) as [_ Re].
  destruct (smax_val w Hw) as [Hmax Vmax]. destruct (smin_val w Hw) as [Hmin Vmin].
  destruct (half_pow w ltac:(lia)) as [M2 HP].
  eexists; split; [reflexivity|].
  destruct (cross_north w i) eqn:CN.
  - unfold cross_north in CN.
    assert (is_top (wi_mk (wstart i) (get_signed_max w)) = false) as T1.
    { rewrite (is_top_cmp w) by (try reflexivity; assumption). cbn [wi_mk wstart wend]. rewrite Vmax.
      rewrite (is_top_cmp w) in T by assumption. dec_all. }
    assert (is_top (wi_mk (get_signed_min w) (wend i)) = false) as T2.
    { rewrite (is_top_cmp w) by (try reflexivity; assumption). cbn [wi_mk wstart wend]. rewrite Vmin.
      rewrite (is_top_cmp w) in T by assumption. dec_all. }
    split; [constructor; [|constructor; [|constructor]]; apply range_nt_mk; assumption|].
    split.
    + constructor; [|constructor; [|constructor]]; unfold cross_north; cbn [wi_mk wstart wend];
        rewrite ?Vmax, ?Vmin; dec_all.
    + intros v G. pose proof (gamma_inb w i v B T Hs He G) as I. pose proof (wfw_range _ _ (proj1 G)) as [_ Rv].
      cbn [existsb]. unfold inp. cbn [wi_mk wstart wend]. rewrite Vmax, Vmin.
      unfold inb in *. clear T1 T2. dec_all.
  - split; [constructor; [exact R|constructor]|].
    split; [constructor; [exact CN|constructor]|].
    intros v G. pose proof (gamma_inb w i v B T Hs He G) as I. cbn [existsb]. unfold inp. rewrite I. reflexivity.
Qed.

Lemma unsigned_split_hemi w i : range_nt w i -> cross_north w i = false ->
  exists l, unsigned_split i = Some l /\ Forall (hemi w) l /\
            (forall v, gamma w i v -> existsb (inp (wn v)) l = true).
Proof.
  intros R CN. pose proof R as (B & T & Hs & He). rewrite (unsigned_split_range w i R).
  pose proof (wfw_range _ _ Hs) as [Hw Rs]. pose proof (wfw_range _ _ He) as [_ Re].
  destruct (umax_val w Hw) as [Hmax Vmax]. destruct (umin_val w Hw) as [Hmin Vmin].
  destruct (half_pow w ltac:(lia)) as [M2 HP].
  eexists; split; [reflexivity|]. unfold cross_north in CN.
  destruct (Z.leb_spec (wn (wstart i)) (wn (wend i))) as [L|L].
  - split.
    + constructor; [|constructor]. split; [exact B|]. split; [exact Hs|]. split; [exact He|]. split; [exact L|].
      dec_all; lia.
    + intros v G. pose proof (gamma_inb w i v B T Hs He G) as I. cbn [existsb]. unfold inp. rewrite I. reflexivity.
  - split.
    + constructor; [|constructor; [|constructor]]; (split; [reflexivity|]); cbn [wi_mk wstart wend];
        (split; [assumption|]); (split; [assumption|]); rewrite ?Vmax, ?Vmin; dec_all; lia.
    + intros v G. pose proof (gamma_inb w i v B T Hs He G) as I. pose proof (wfw_range _ _ (proj1 G)) as [_ Rv].
      cbn [existsb]. unfold inp. cbn [wi_mk wstart wend]. rewrite Vmax, Vmin.
      unfold inb in *. clear CN. dec_all.
Qed.

Lemma existsb_app_l {A} (f : A -> bool) l1 l2 : existsb f l1 = true -> existsb f (l1 ++ l2) = true.
Proof. intros H. rewrite existsb_app, H. reflexivity. Qed.
Lemma existsb_app_r {A} (f : A -> bool) l1 l2 : existsb f l2 = true -> existsb f (l1 ++ l2) = true.
Proof. intros H. rewrite existsb_app, H. apply orb_true_r. Qed.

Lemma hemi_gamma w p v : hemi w p -> wfw w v -> inp (wn v) p = true -> gamma w p v.
Proof. intros (B & Hs & He & _) Hv I. apply gamma_of_inp; assumption. Qed.

Lemma split_all_hemi w l :
  Forall (range_nt w) l -> Forall (fun p => cross_north w p = false) l ->
  exists l', split_all unsigned_split l = Some l' /\ Forall (hemi w) l' /\
             (forall v, wfw w v -> existsb (inp (wn v)) l = true -> existsb (inp (wn v)) l' = true).
Proof.
  intros F1 F2. induction l as [|p l IH].
  - exists []. split; [reflexivity|]. split; [constructor|]. intros v _ H. exact H.
  - inversion F1 as [|? ? R1 F1']; subst. inversion F2 as [|? ? C1 F2']; subst.
    destruct (unsigned_split_hemi w p R1 C1) as (lp & Ep & Hp & Cp).
    destruct (IH F1' F2') as (lr & Er & Hr & Cr).
    exists (lp ++ lr). cbn [split_all]. rewrite Ep. cbn [obind]. rewrite Er. cbn [obind].
    split; [reflexivity|]. split; [apply Forall_app; split; assumption|].
    intros v Hv E. cbn [existsb] in E. apply orb_true_iff in E. destruct E as [E|E].
    + apply existsb_app_l. apply Cp. destruct R1 as (B & T & Hs & He). apply gamma_of_inp; assumption.
    + apply existsb_app_r. apply Cr; assumption.
Qed.

Lemma sus_split_spec w i : range_nt w i ->
  exists l, signed_and_unsigned_split i = Some l /\ Forall (hemi w) l /\
            (forall v, gamma w i v -> existsb (inp (wn v)) l = true).
Proof.
  intros R. destruct (signed_split_spec w i R) as (ls & Es & F1 & F2 & Cs).
  destruct (split_all_hemi w ls F1 F2) as (l & El & Hl & Cl).
  exists l. unfold signed_and_unsigned_split. rewrite Es. cbn [obind].
  split; [exact El|]. split; [exact Hl|].
  intros v G. apply Cl; [apply G|]. apply Cs. exact G.
Qed.

(* ---------------------------------------------------------------- multiplication *)


Lemma interval_mod_Z M lo hi p : 0 < M -> lo <= p <= hi -> hi - lo < M ->
  (p mod M - lo mod M) mod M <= (hi mod M - lo mod M) mod M.
Proof.
  intros HM Hp Hd. rewrite <- !Zminus_mod. rewrite !Z.mod_small by lia. lia.
Qed.

Lemma sfree_bounds w a v : sfree w a -> gamma w a v -> wn (wstart a) <= wn v <= wn (wend a).
Proof.
  intros (B & Hs & He & L) G. pose proof (wfw_range _ _ (proj1 G)) as [Hw Rv].
  destruct (is_top a) eqn:T.
  - rewrite (is_top_cmp w) in T by assumption. dec_all; lia.
  - pose proof (gamma_inb w a v B T Hs He G) as I. unfold inb in I. dec_all; lia.
Qed.

Lemma unsigned_mul_sound w a x v y : sfree w a -> sfree w x -> gamma w a v -> gamma w x y ->
  gamma w (unsigned_mul a x) (wmul v y).
Proof.
  intros Fa Fx Ga Gx. pose proof (sfree_bounds w a v Fa Ga) as Bv. pose proof (sfree_bounds w x y Fx Gx) as By.
  destruct Fa as (Ba & Hs & He & La). destruct Fx as (Bx & Hxs & Hxe & Lx).
  assert (wfw w v) as Hv by apply Ga. assert (wfw w y) as Hy by apply Gx.
  destruct (wmul_val w v y Hv Hy) as [Hr Vr].
  pose proof (wfw_range _ _ Hs) as [Hw Rs]. pose proof (wfw_range _ _ He) as [_ Re].
  pose proof (wfw_range _ _ Hxs) as [_ Rxs]. pose proof (wfw_range _ _ Hxe) as [_ Rxe].
  unfold unsigned_mul, get_unsigned_bignum.
  assert (get_bitwidth (wstart a) = w) as -> by apply Hs.
  destruct (umax_val w Hw) as [_ ->].
  destruct (Z.ltb_spec (wn (wend a) * wn (wend x) - wn (wstart a) * wn (wstart x)) (2 ^ w - 1)) as [C|C];
    [|apply gamma_top; [reflexivity|exact Hr]].
  destruct (wmul_val w _ _ Hs Hxs) as [Hrs Vrs]. destruct (wmul_val w _ _ He Hxe) as [Hre Vre].
  apply gamma_mk; [exact Hrs|exact Hre|exact Hr|]. rewrite Vr, Vrs, Vre.
  apply interval_mod_Z; [apply pow2_pos; lia| |lia]. nia.
Qed.

Lemma to_sZ_val w x : wfw w x -> to_sZ x = if wn x <? 2 ^ (w - 1) then wn x else wn x - 2 ^ w.
Proof. intros [_ E]. unfold to_sZ, signed_of. rewrite E. reflexivity. Qed.

Lemma msb_val w x : wfw w x -> msb x = (2 ^ (w - 1) <=? wn x).
Proof. intros [W E]. rewrite msb_spec by exact W. rewrite E. reflexivity. Qed.

Lemma mod_sub_mul M a b k l : M <> 0 -> ((a - k * M) * (b - l * M)) mod M = (a * b) mod M.
Proof.
  intros HM. replace ((a - k * M) * (b - l * M)) with (a * b + (k * l * M - a * l - k * b) * M) by ring.
  apply Z.mod_add. exact HM.
Qed.

Lemma signed_mul_sound w a x v y : sfree w a -> sfree w x -> gamma w a v -> gamma w x y ->
  gamma w (signed_mul a x) (wmul v y).
Proof.
  intros Fa Fx Ga Gx. pose proof (sfree_bounds w a v Fa Ga) as Bv. pose proof (sfree_bounds w x y Fx Gx) as By.
  pose proof (unsigned_mul_sound w a x v y Fa Fx Ga Gx) as US.
  destruct Fa as (Ba & Hs & He & La). destruct Fx as (Bx & Hxs & Hxe & Lx).
  assert (wfw w v) as Hv by apply Ga. assert (wfw w y) as Hy by apply Gx.
  destruct (wmul_val w v y Hv Hy) as [Hr Vr].
  pose proof (wfw_range _ _ Hs) as [Hw Rs]. pose proof (wfw_range _ _ He) as [_ Re].
  pose proof (wfw_range _ _ Hxs) as [_ Rxs]. pose proof (wfw_range _ _ Hxe) as [_ Rxe].
  destruct (half_pow w ltac:(lia)) as [M2 HP].
  assert (2 ^ w <> 0) as MN by lia.
  unfold signed_mul.
  rewrite !get_signed_bignum_spec by (apply Hs || apply He || apply Hxs || apply Hxe).
  rewrite (to_sZ_val w _ Hs), (to_sZ_val w _ He), (to_sZ_val w _ Hxs), (to_sZ_val w _ Hxe).
  rewrite (msb_val w _ Hs), (msb_val w _ He), (msb_val w _ Hxs), (msb_val w _ Hxe).
  unfold get_unsigned_bignum. assert (get_bitwidth (wstart a) = w) as -> by apply Hs.
  destruct (umax_val w Hw) as [_ ->].
  destruct (wmul_val w _ _ Hs Hxs) as [Hss Vss]. destruct (wmul_val w _ _ He Hxe) as [Hee Vee].
  destruct (wmul_val w _ _ Hs Hxe) as [Hse Vse]. destruct (wmul_val w _ _ He Hxs) as [Hes Ves].
  set (HH := 2 ^ (w - 1)) in *. set (M := 2 ^ w) in *.
  destruct (Z.leb_spec HH (wn (wstart a))) as [C1|C1]; destruct (Z.leb_spec HH (wn (wend a))) as [C2|C2];
  destruct (Z.leb_spec HH (wn (wstart x))) as [C3|C3]; destruct (Z.leb_spec HH (wn (wend x))) as [C4|C4];
  cbn [eqb andb orb negb]; try exact US; try (apply gamma_top; [reflexivity|exact Hr]); try lia.
  - (* both negative *)
    destruct (Z.ltb_spec (wn (wstart a)) HH); [lia|]. destruct (Z.ltb_spec (wn (wend a)) HH); [lia|].
    destruct (Z.ltb_spec (wn (wstart x)) HH); [lia|]. destruct (Z.ltb_spec (wn (wend x)) HH); [lia|].
    match goal with |- context [if ?c then _ else _] => destruct c eqn:OV end;
      [|apply gamma_top; [reflexivity|exact Hr]].
    apply Z.ltb_lt in OV.
    apply gamma_mk; [exact Hee|exact Hss|exact Hr|]. rewrite Vr, Vee, Vss.
    rewrite <- (mod_sub_mul M (wn v) (wn y) 1 1), <- (mod_sub_mul M (wn (wend a)) (wn (wend x)) 1 1),
            <- (mod_sub_mul M (wn (wstart a)) (wn (wstart x)) 1 1) by exact MN.
    apply interval_mod_Z; [lia| |lia]. nia.
  - (* a negative, x non-negative *)
    destruct (Z.ltb_spec (wn (wstart a)) HH); [lia|]. destruct (Z.ltb_spec (wn (wend a)) HH); [lia|].
    destruct (Z.ltb_spec (wn (wstart x)) HH); [|lia]. destruct (Z.ltb_spec (wn (wend x)) HH); [|lia].
    match goal with |- context [if ?c then _ else _] => destruct c eqn:OV end;
      [|apply gamma_top; [reflexivity|exact Hr]].
    apply Z.ltb_lt in OV.
    apply gamma_mk; [exact Hse|exact Hes|exact Hr|]. rewrite Vr, Vse, Ves.
    rewrite <- (mod_sub_mul M (wn v) (wn y) 1 0), <- (mod_sub_mul M (wn (wend a)) (wn (wstart x)) 1 0),
            <- (mod_sub_mul M (wn (wstart a)) (wn (wend x)) 1 0) by exact MN.
    apply interval_mod_Z; [lia| |lia]. nia.
  - (* a non-negative, x negative *)
    destruct (Z.ltb_spec (wn (wstart a)) HH); [|lia]. destruct (Z.ltb_spec (wn (wend a)) HH); [|lia].
    destruct (Z.ltb_spec (wn (wstart x)) HH); [lia|]. destruct (Z.ltb_spec (wn (wend x)) HH); [lia|].
    match goal with |- context [if ?c then _ else _] => destruct c eqn:OV end;
      [|apply gamma_top; [reflexivity|exact Hr]].
    apply Z.ltb_lt in OV.
    apply gamma_mk; [exact Hes|exact Hse|exact Hr|]. rewrite Vr, Vse, Ves.
    rewrite <- (mod_sub_mul M (wn v) (wn y) 0 1), <- (mod_sub_mul M (wn (wend a)) (wn (wstart x)) 0 1),
            <- (mod_sub_mul M (wn (wstart a)) (wn (wend x)) 0 1) by exact MN.
    apply interval_mod_Z; [lia| |lia]. nia.
Qed.


Lemma iwf_unsigned_mul w a x : sfree w a -> sfree w x -> iwf w (unsigned_mul a x).
Proof.
  intros (_ & Hs & He & _) (_ & Hxs & Hxe & _). unfold unsigned_mul.
  destruct (_ <? _); [|apply iwf_top]. apply iwf_mk; eapply wmul_val; eassumption.
Qed.

Lemma iwf_signed_mul w a x : sfree w a -> sfree w x -> iwf w (signed_mul a x).
Proof.
  intros Fa Fx. pose proof (iwf_unsigned_mul w a x Fa Fx) as U.
  destruct Fa as (_ & Hs & He & _). destruct Fx as (_ & Hxs & Hxe & _). unfold signed_mul.
  repeat match goal with
  | |- context [if ?c then _ else _] => destruct c
  end; try exact U; try apply iwf_top; apply iwf_mk; eapply wmul_val; eassumption.
Qed.

(* exact_meet is only exact when the operands do not overlap partially (its last two
   non-empty cases are unreachable and a partial overlap falls through to the empty list):
   the configurations produced by the multiplication are "one is top", "equal" and "each
   contains both bounds of the other" *)
Definition meet_cfg (a x : witv) : Prop :=
  is_top a = true \/ is_top x = true \/ wi_eq a x = true \/
  (wi_at x (wstart a) && wi_at x (wend a) && wi_at a (wstart x) && wi_at a (wend x) = true).

Lemma exact_meet_sound w a x r : iwf w a -> iwf w x -> meet_cfg a x -> gamma w a r -> gamma w x r ->
  Exists (fun p => gamma w p r) (exact_meet a x).
Proof.
  intros Wa Wx Cfg Ga Gx. unfold exact_meet.
  destruct (is_bottom a) eqn:Ba; [elim (gamma_bot w a r Ba Ga)|].
  destruct (is_bottom x) eqn:Bx; [elim (gamma_bot w x r Bx Gx)|]. cbn [orb].
  destruct (wi_eq a x || is_top a) eqn:C0; [left; exact Gx|].
  apply orb_false_iff in C0. destruct C0 as [NE Ta].
  destruct (is_top x) eqn:Tx; [left; exact Ga|].
  destruct Cfg as [C|[C|[C|C]]]; try congruence. rewrite C.
  destruct (iwf_range w a Wa Ba Ta) as (Ba' & Hs & He). destruct (iwf_range w x Wx Bx Tx) as (Bx' & Hxs & Hxe).
  assert (wfw w r) as Hr by apply Ga.
  pose proof (gamma_inb w a r Ba' Ta Hs He Ga) as Ia. pose proof (gamma_inb w x r Bx' Tx Hxs Hxe Gx) as Ix.
  apply (exists_of_existsb w); [exact Hr| |].
  - repeat (apply Forall_cons || apply Forall_nil); cbn [wi_mk wstart wend wbot];
      (split; [reflexivity || assumption|split; assumption]).
  - repeat rewrite (at_inb w) in C by assumption. zranges.
    cbn [existsb]; unfold inp; cbn [wi_mk wstart wend];
    clear Wa Wx Ga Gx Ba Bx Ta Tx Ba' Bx' Hs He Hxs Hxe Hr NE; unfold inb in *; dec_all.
Qed.


Lemma mod_diff_eq M a b d k : 0 < M -> 0 <= d < M -> a - b = d + k * M ->
  (a mod M - b mod M) mod M = d.
Proof.
  intros HM Hd E. rewrite <- Zminus_mod, E, Z.mod_add by lia. apply Z.mod_small. exact Hd.
Qed.

Lemma at_mk_true w A B C : wfw w A -> wfw w B -> wfw w C ->
  (wn C - wn A) mod 2 ^ w <= (wn B - wn A) mod 2 ^ w -> wi_at (wi_mk A B) C = true.
Proof. intros HA HB HC H. apply (gamma_mk w A B C HA HB HC H). Qed.

Lemma at_start i : is_bottom i = false -> wfw (ww (wstart i)) (wstart i) -> wfw (ww (wstart i)) (wend i) ->
  wi_at i (wstart i) = true.
Proof.
  intros B Hs He. destruct (is_top i) eqn:T; [apply at_top; assumption|].
  rewrite (at_range (ww (wstart i))) by assumption.
  apply Z.leb_le. rewrite Z.sub_diag, Z.mod_0_l.
  - apply Z.mod_pos_bound. apply pow2_pos. destruct Hs as [[? _] _]. lia.
  - apply Z.pow_nonzero; [lia|]. destruct Hs as [[? _] _]. lia.
Qed.

Lemma leq_refl w a : iwf w a -> is_bottom a = false -> wi_leq a a = true.
Proof.
  intros W B. unfold wi_leq. destruct (is_top a) eqn:T; [reflexivity|]. rewrite B. cbn [orb].
  unfold weq. rewrite !Z.eqb_refl. reflexivity.
Qed.

Lemma eq_refl_itv w a : iwf w a -> is_bottom a = false -> wi_eq a a = true.
Proof. intros W B. unfold wi_eq. rewrite (leq_refl w a W B). reflexivity. Qed.

Lemma cfg_swap w p q : wfw w p -> wfw w q -> meet_cfg (wi_mk q p) (wi_mk p q).
Proof.
  intros Hp Hq. right. right. right. cbn [wi_mk wstart wend].
  pose proof (wfw_range _ _ Hp) as [Hw Rp]. pose proof (wfw_range _ _ Hq) as [_ Rq].
  assert (0 < 2 ^ w) as HM by (apply pow2_pos; lia).
  rewrite !andb_true_iff. repeat split; apply (at_mk_true w); try assumption;
    rewrite ?Z.sub_diag, ?Z.mod_0_l by lia; try lia; apply Z.mod_pos_bound; lia.
Qed.

Lemma mul_cfg w a x : sfree w a -> sfree w x -> meet_cfg (signed_mul a x) (unsigned_mul a x).
Proof.
  intros Fa Fx. pose proof (iwf_unsigned_mul w a x Fa Fx) as WU.
  destruct Fa as (Ba & Hs & He & La). destruct Fx as (Bx & Hxs & Hxe & Lx).
  pose proof (wfw_range _ _ Hs) as [Hw Rs]. pose proof (wfw_range _ _ He) as [_ Re].
  pose proof (wfw_range _ _ Hxs) as [_ Rxs]. pose proof (wfw_range _ _ Hxe) as [_ Rxe].
  destruct (half_pow w ltac:(lia)) as [M2 HP].
  destruct (is_top (unsigned_mul a x)) eqn:TU; [right; left; exact TU|].
  assert (is_bottom (unsigned_mul a x) = false) as BU.
  { unfold unsigned_mul. destruct (_ <? _); reflexivity. }
  unfold signed_mul.
  rewrite !get_signed_bignum_spec by (apply Hs || apply He || apply Hxs || apply Hxe).
  rewrite (to_sZ_val w _ Hs), (to_sZ_val w _ He), (to_sZ_val w _ Hxs), (to_sZ_val w _ Hxe).
  rewrite (msb_val w _ Hs), (msb_val w _ He), (msb_val w _ Hxs), (msb_val w _ Hxe).
  assert (get_unsigned_bignum (get_unsigned_max (get_bitwidth (wstart a))) = 2 ^ w - 1) as UM.
  { unfold get_unsigned_bignum. assert (get_bitwidth (wstart a) = w) as -> by apply Hs.
    apply (umax_val w Hw). }
  rewrite UM.
  (* the unsigned product is not top: its overflow test passed *)
  assert (unsigned_mul a x = wi_mk (wmul (wstart a) (wstart x)) (wmul (wend a) (wend x)) /\
          wn (wend a) * wn (wend x) - wn (wstart a) * wn (wstart x) < 2 ^ w - 1) as [EU DU].
  { unfold unsigned_mul in *. unfold get_unsigned_bignum in *. rewrite UM in *.
    destruct (Z.ltb_spec (wn (wend a) * wn (wend x) - wn (wstart a) * wn (wstart x)) (2 ^ w - 1)).
    - split; [reflexivity|assumption].
    - discriminate TU. }
  destruct (wmul_val w _ _ Hs Hxs) as [Hss Vss]. destruct (wmul_val w _ _ He Hxe) as [Hee Vee].
  destruct (wmul_val w _ _ Hs Hxe) as [Hse Vse]. destruct (wmul_val w _ _ He Hxs) as [Hes Ves].
  set (HH := 2 ^ (w - 1)) in *. set (M := 2 ^ w) in *.
  destruct (Z.leb_spec HH (wn (wstart a))) as [C1|C1]; destruct (Z.leb_spec HH (wn (wend a))) as [C2|C2];
  destruct (Z.leb_spec HH (wn (wstart x))) as [C3|C3]; destruct (Z.leb_spec HH (wn (wend x))) as [C4|C4];
  cbn [eqb andb orb negb]; try (left; reflexivity); try lia.
  - (* both negative: the bounds are swapped *)
    match goal with |- context [if ?c then _ else _] => destruct c end; [|left; reflexivity].
    rewrite EU. apply (cfg_swap w); assumption.
  - (* a negative, x non-negative *)
    match goal with |- context [if ?c then _ else _] => destruct c end; [|left; reflexivity].
    rewrite EU.
    assert (wn (wend x) = wn (wstart x) \/ wn (wend x) = wn (wstart x) + 1) as [D|D] by nia.
    + (* singleton x: same interval *)
      assert (wend x = wstart x) as ->.
      { apply wrapint_eq; [destruct Hxe as [_ ->]; destruct Hxs as [_ ->]; reflexivity|exact D]. }
      right. right. left. apply (eq_refl_itv w); [apply iwf_mk; assumption|reflexivity].
    + right. right. right. cbn [wi_mk wstart wend]. rewrite !andb_true_iff.
      assert (0 <= (wn (wend a) - wn (wstart a)) * wn (wstart x)) as Bn by nia.
      repeat split; apply (at_mk_true w); try assumption; rewrite ?Vss, ?Vee, ?Vse, ?Ves; fold M.
      * rewrite (mod_diff_eq M _ _ (wn (wstart a)) 0), (mod_diff_eq M _ _
          (wn (wend a) * wn (wend x) - wn (wstart a) * wn (wstart x)) 0) by nia. nia.
      * rewrite (mod_diff_eq M _ _ ((wn (wend a) - wn (wstart a)) * wn (wstart x)) 0), (mod_diff_eq M _ _
          (wn (wend a) * wn (wend x) - wn (wstart a) * wn (wstart x)) 0) by nia. nia.
      * rewrite (mod_diff_eq M _ _ (M - wn (wstart a)) (-1)),
                (mod_diff_eq M _ _ ((wn (wend a) - wn (wstart a)) * wn (wstart x) - wn (wstart a) + M) (-1)) by nia.
        nia.
      * rewrite (mod_diff_eq M _ _ ((wn (wend a) - wn (wstart a)) * wn (wend x)) 0),
                (mod_diff_eq M _ _ ((wn (wend a) - wn (wstart a)) * wn (wstart x) - wn (wstart a) + M) (-1)) by nia.
        nia.
  - (* a non-negative, x negative *)
    match goal with |- context [if ?c then _ else _] => destruct c end; [|left; reflexivity].
    rewrite EU.
    assert (wn (wend a) = wn (wstart a) \/ wn (wend a) = wn (wstart a) + 1) as [D|D] by nia.
    + assert (wend a = wstart a) as ->.
      { apply wrapint_eq; [destruct He as [_ ->]; destruct Hs as [_ ->]; reflexivity|exact D]. }
      right. right. left. apply (eq_refl_itv w); [apply iwf_mk; assumption|reflexivity].
    + right. right. right. cbn [wi_mk wstart wend]. rewrite !andb_true_iff.
      assert (0 <= wn (wstart a) * (wn (wend x) - wn (wstart x))) as Bn by nia.
      repeat split; apply (at_mk_true w); try assumption; rewrite ?Vss, ?Vee, ?Vse, ?Ves; fold M.
      * rewrite (mod_diff_eq M _ _ (wn (wstart x)) 0), (mod_diff_eq M _ _
          (wn (wend a) * wn (wend x) - wn (wstart a) * wn (wstart x)) 0) by nia. nia.
      * rewrite (mod_diff_eq M _ _ (wn (wstart a) * (wn (wend x) - wn (wstart x))) 0), (mod_diff_eq M _ _
          (wn (wend a) * wn (wend x) - wn (wstart a) * wn (wstart x)) 0) by nia. nia.
      * rewrite (mod_diff_eq M _ _ (M - wn (wstart x)) (-1)),
                (mod_diff_eq M _ _ (wn (wstart a) * (wn (wend x) - wn (wstart x)) - wn (wstart x) + M) (-1)) by nia.
        nia.
      * rewrite (mod_diff_eq M _ _ (wn (wend a) * (wn (wend x) - wn (wstart x))) 0),
                (mod_diff_eq M _ _ (wn (wstart a) * (wn (wend x) - wn (wstart x)) - wn (wstart x) + M) (-1)) by nia.
        nia.
  - (* both non-negative: signed_mul is unsigned_mul *)
    right. right. left. apply (eq_refl_itv w); [exact WU|exact BU].
Qed.


Lemma iwf_exact_meet w a x : iwf w a -> iwf w x -> Forall (iwf w) (exact_meet a x).
Proof.
  intros Wa Wx. unfold exact_meet.
  destruct (is_bottom a) eqn:Ba; [constructor|]. destruct (is_bottom x) eqn:Bx; [constructor|]. cbn [orb].
  destruct (wi_eq a x || is_top a) eqn:C0; [constructor; [exact Wx|constructor]|].
  apply orb_false_iff in C0. destruct C0 as [_ Ta].
  destruct (is_top x) eqn:Tx; [constructor; [exact Wa|constructor]|].
  destruct (iwf_range w a Wa Ba Ta) as (Ba' & Hs & He). destruct (iwf_range w x Wx Bx Tx) as (Bx' & Hxs & Hxe).
  repeat match goal with
  | |- context [if ?c then _ else _] => destruct c
  end; repeat (apply Forall_cons || apply Forall_nil); try assumption; apply iwf_mk; assumption.
Qed.

Lemma sfree_not_bot w p : sfree w p -> is_bottom p = false.
Proof. intros (B & _). exact B. Qed.

Lemma reduced_sound w a x v y : sfree w a -> sfree w x -> gamma w a v -> gamma w x y ->
  Exists (fun p => gamma w p (wmul v y)) (reduced_signed_unsigned_mul a x).
Proof.
  intros Fa Fx Ga Gx. unfold reduced_signed_unsigned_mul.
  rewrite (sfree_not_bot w a Fa), (sfree_not_bot w x Fx). cbn [orb].
  apply (exact_meet_sound w).
  - apply iwf_signed_mul; assumption.
  - apply iwf_unsigned_mul; assumption.
  - apply (mul_cfg w); assumption.
  - apply signed_mul_sound; assumption.
  - apply unsigned_mul_sound; assumption.
Qed.

Lemma iwf_reduced w a x : sfree w a -> sfree w x -> Forall (iwf w) (reduced_signed_unsigned_mul a x).
Proof.
  intros Fa Fx. unfold reduced_signed_unsigned_mul.
  destruct (is_bottom a || is_bottom x); [constructor|].
  apply iwf_exact_meet; [apply iwf_signed_mul|apply iwf_unsigned_mul]; assumption.
Qed.

(* res | p1 | p2 | ... contains res and every pi *)
Lemma join_all_spec w l : Forall (iwf w) l -> forall res, iwf w res ->
  iwf w (join_all res l) /\
  (forall r, gamma w res r -> gamma w (join_all res l) r) /\
  (forall r, Exists (fun p => gamma w p r) l -> gamma w (join_all res l) r).
Proof.
  unfold join_all. induction 1 as [|p l Wp F IH]; intros res Wr; cbn [fold_left].
  - split; [exact Wr|]. split; [auto|]. intros r E. inversion E.
  - destruct (IH (wi_join res p) (iwf_join w res p Wr Wp)) as (I1 & I2 & I3).
    split; [exact I1|]. split.
    + intros r G. apply I2. apply join_sound; auto.
    + intros r E. inversion E as [? ? G|? ? E']; subst.
      * apply I2. apply join_sound; auto.
      * apply I3. exact E'.
Qed.

Definition mul_inner (c : witv) (x_cuts : list witv) (res : witv) : witv :=
  fold_left (fun res xc => join_all res (reduced_signed_unsigned_mul c xc)) x_cuts res.

Lemma mul_inner_spec w c x_cuts : sfree w c -> Forall (sfree w) x_cuts -> forall res, iwf w res ->
  iwf w (mul_inner c x_cuts res) /\
  (forall r, gamma w res r -> gamma w (mul_inner c x_cuts res) r) /\
  (forall v y, gamma w c v -> Exists (fun xc => gamma w xc y) x_cuts ->
               gamma w (mul_inner c x_cuts res) (wmul v y)).
Proof.
  intros Fc F. unfold mul_inner. induction F as [|xc l Fx F IH]; intros res Wr; cbn [fold_left].
  - split; [exact Wr|]. split; [auto|]. intros v y _ E. inversion E.
  - destruct (join_all_spec w _ (iwf_reduced w c xc Fc Fx) res Wr) as (J1 & J2 & J3).
    destruct (IH _ J1) as (I1 & I2 & I3).
    split; [exact I1|]. split.
    + intros r G. apply I2, J2, G.
    + intros v y Gv E. inversion E as [? ? G|? ? E']; subst.
      * apply I2, J3. apply reduced_sound; assumption.
      * apply I3; assumption.
Qed.

Definition mul_outer (cuts x_cuts : list witv) (res : witv) : witv :=
  fold_left (fun res c => mul_inner c x_cuts res) cuts res.

Lemma mul_outer_spec w cuts x_cuts : Forall (sfree w) cuts -> Forall (sfree w) x_cuts ->
  forall res, iwf w res ->
  iwf w (mul_outer cuts x_cuts res) /\
  (forall r, gamma w res r -> gamma w (mul_outer cuts x_cuts res) r) /\
  (forall v y, Exists (fun c => gamma w c v) cuts -> Exists (fun xc => gamma w xc y) x_cuts ->
               gamma w (mul_outer cuts x_cuts res) (wmul v y)).
Proof.
  intros F Fx. unfold mul_outer. induction F as [|c l Fc F IH]; intros res Wr; cbn [fold_left].
  - split; [exact Wr|]. split; [auto|]. intros v y E _. inversion E.
  - destruct (mul_inner_spec w c x_cuts Fc Fx res Wr) as (J1 & J2 & J3).
    destruct (IH _ J1) as (I1 & I2 & I3).
    split; [exact I1|]. split.
    + intros r G. apply I2, J2, G.
    + intros v y E Ey. inversion E as [? ? G|? ? E']; subst.
      * apply I2, J3; assumption.
      * apply I3; assumption.
Qed.

Lemma hemi_forall_sfree w l : Forall (hemi w) l -> Forall (sfree w) l.
Proof. intros F. eapply Forall_impl; [|exact F]. intros p. apply hemi_sfree. Qed.

Lemma hemi_forall_base w l : Forall (hemi w) l ->
  Forall (fun p => wbot p = false /\ wfw w (wstart p) /\ wfw w (wend p)) l.
Proof. intros F. eapply Forall_impl; [|exact F]. intros p (A & B & C & _). auto. Qed.

Lemma range_nt_of w i : iwf w i -> is_bottom i = false -> is_top i = false -> range_nt w i.
Proof.
  intros W B T. destruct (iwf_range w i W B T) as (B' & Hs & He).
  split; [exact B'|]. split; [exact T|]. split; assumption.
Qed.

Theorem mul_sound w a x v y : iwf w a -> iwf w x -> gamma w a v -> gamma w x y ->
  exists r, wi_mul a x = Some r /\ iwf w r /\ gamma w r (wmul v y).
Proof.
  intros Wa Wx Ga Gx. unfold wi_mul.
  assert (wfw w v) as Hv by apply Ga. assert (wfw w y) as Hy by apply Gx.
  destruct (wmul_val w v y Hv Hy) as [Hr _].
  destruct (is_bottom a) eqn:Ba; [elim (gamma_bot w a v Ba Ga)|].
  destruct (is_bottom x) eqn:Bx; [elim (gamma_bot w x y Bx Gx)|]. cbn [orb].
  destruct (is_top a) eqn:Ta.
  { exists wi_top. split; [reflexivity|]. split; [apply iwf_top|apply gamma_top; [reflexivity|exact Hr]]. }
  destruct (is_top x) eqn:Tx.
  { exists wi_top. split; [reflexivity|]. split; [apply iwf_top|apply gamma_top; [reflexivity|exact Hr]]. }
  cbn [orb].
  destruct (sus_split_spec w a (range_nt_of w a Wa Ba Ta)) as (cuts & Ec & Hc & Cc).
  destruct (sus_split_spec w x (range_nt_of w x Wx Bx Tx)) as (x_cuts & Ex & Hx & Cx).
  rewrite Ec, Ex. cbn [obind].
  destruct (mul_outer_spec w cuts x_cuts (hemi_forall_sfree w _ Hc) (hemi_forall_sfree w _ Hx)
              wi_bottom (iwf_bottom w)) as (I1 & I2 & I3).
  eexists. split; [reflexivity|]. split; [exact I1|].
  apply I3.
  - apply (exists_of_existsb w); [exact Hv|apply hemi_forall_base; exact Hc|apply Cc; exact Ga].
  - apply (exists_of_existsb w); [exact Hy|apply hemi_forall_base; exact Hx|apply Cx; exact Gx].
Qed.

(* ---------------------------------------------------------------- division *)


(* pieces that do not cross the south pole, contain v as integers s <= v <= e *)
Lemma gamma_mk_le w s e v : wfw w s -> wfw w e -> wfw w v -> wn s <= wn v <= wn e -> gamma w (wi_mk s e) v.
Proof.
  intros Hs He Hv L. apply gamma_mk_inb; try assumption. unfold inb. dec_all; lia.
Qed.

Lemma wmk_val_small n w : 1 <= w <= 64 -> 0 <= n < 2 ^ w -> wfw w (wmk n w) /\ wn (wmk n w) = n.
Proof.
  intros Hw Hn. pose proof (pow2_le_64 w ltac:(lia)).
  destruct (wmk_wfw n w Hw ltac:(lia)) as [A B]. split; [exact A|]. rewrite B. apply Z.mod_small. exact Hn.
Qed.

Lemma wmk_minus_one w : 1 <= w <= 64 -> wfw w (wmk (two64 - 1) w) /\ wn (wmk (two64 - 1) w) = 2 ^ w - 1.
Proof.
  intros Hw. destruct (wmk_wfw (two64 - 1) w Hw) as [A B]; [vm_compute; split; [discriminate|reflexivity]|].
  split; [exact A|]. rewrite B. rewrite two64_eq.
  replace 64 with (w + (64 - w)) by lia. rewrite Z.pow_add_r by lia.
  pose proof (pow2_pos w ltac:(lia)). pose proof (pow2_pos (64 - w) ltac:(lia)).
  replace (2 ^ w * 2 ^ (64 - w) - 1) with ((2 ^ w - 1) + (2 ^ (64 - w) - 1) * 2 ^ w) by ring.
  rewrite Z.mod_add by lia. apply Z.mod_small. lia.
Qed.

(* trim_zero on a piece that does not cross the south pole *)
Lemma trim_zero_spec w i : sfree w i ->
  Forall (fun d => sfree w d /\ 1 <= wn (wstart d) /\
                   (wn (wend i) < 2 ^ (w - 1) -> wn (wend d) < 2 ^ (w - 1)) /\
                   (2 ^ (w - 1) <= wn (wstart i) -> 2 ^ (w - 1) <= wn (wstart d))) (trim_zero i) /\
  (forall y, gamma w i y -> wn y <> 0 -> Exists (fun d => gamma w d y) (trim_zero i)).
Proof.
  intros F. pose proof F as (B & Hs & He & L).
  pose proof (wfw_range _ _ Hs) as [Hw Rs]. pose proof (wfw_range _ _ He) as [_ Re].
  destruct (half_pow w ltac:(lia)) as [M2 HP].
  unfold trim_zero. assert (get_bitwidth (wstart i) = w) as -> by apply Hs.
  destruct (wmk_val_small 0 w Hw ltac:(lia)) as [Hz Vz].
  destruct (wmk_val_small 1 w Hw ltac:(lia)) as [H1 V1].
  destruct (wmk_minus_one w Hw) as [Hm Vm].
  unfold is_bottom. rewrite B. cbn [negb andb].
  destruct (wi_eq i (wi_single (wmk 0 w))) eqn:EQ; cbn [negb].
  { split; [constructor|]. intros y G NZ. exfalso.
    assert (iwf w i) as Wi by (right; right; auto).
    apply (eq_sound w i _ y Wi (iwf_mk w _ _ Hz Hz) EQ) in G.
    destruct (is_top (wi_single (wmk 0 w))) eqn:T.
    - rewrite (is_top_cmp w) in T by (try reflexivity; assumption). cbn [wi_single wstart wend] in T.
      rewrite Vz in T. dec_all.
    - apply (gamma_single w _ y Hz G) in T. subst y. lia. }
  unfold weq. rewrite Vz.
  destruct (Z.eqb_spec (wn (wstart i)) 0) as [S0|S0].
  { split.
    - constructor; [|constructor]. cbn [wi_mk wstart wend]. rewrite V1.
      split; [|split; [lia|split; [auto|lia]]].
      split; [reflexivity|]. cbn [wi_mk wstart wend]. split; [exact H1|]. split; [exact He|]. rewrite V1.
      (* the interval is not [0,0], so its end is at least 1 *)
      destruct (Z.eq_dec (wn (wend i)) 0) as [E0|E0]; [|lia].
      exfalso. assert (wi_eq i (wi_single (wmk 0 w)) = true); [|congruence].
      unfold wi_eq.
      assert (is_top i = false) as Ti by (rewrite (is_top_cmp w) by assumption; dec_all).
      assert (is_top (wi_single (wmk 0 w)) = false) as Tz.
      { rewrite (is_top_cmp w) by (try reflexivity; assumption). cbn [wi_single wstart wend]. rewrite Vz. dec_all. }
      rewrite !(leq_inb w) by (try assumption; reflexivity). cbn [wi_single wstart wend]. rewrite Vz, S0, E0.
      reflexivity.
    - intros y G NZ. left. pose proof (sfree_bounds w i y F G) as By.
      apply gamma_mk_le; [exact H1|exact He|apply G|]. rewrite V1. pose proof (wfw_range _ _ (proj1 G)). lia. }
  destruct (Z.eqb_spec (wn (wend i)) 0) as [E0|E0]; [lia|].
  assert (is_top i = false) as Ti by (rewrite (is_top_cmp w) by assumption; dec_all).
  rewrite (at_inb w) by assumption. rewrite Vz. unfold inb.
  destruct (Z.leb_spec (wn (wstart i)) (wn (wend i))); [|lia].
  destruct (Z.leb_spec (wn (wstart i)) 0); [lia|]. cbn [andb].
  split.
  - constructor; [|constructor]. split; [exact F|]. split; [lia|]. auto.
  - intros y G _. left. exact G.
Qed.


Lemma wudiv_val w a b : wfw w a -> wfw w b -> wn b <> 0 ->
  exists r, wudiv a b = Some r /\ wfw w r /\ wn r = wn a / wn b.
Proof.
  intros [Wa Ea] [Wb Eb] NZ. pose proof (wudiv_spec a b Wa Wb (eq_trans Ea (eq_sym Eb))) as S.
  destruct (wudiv a b) as [r|]; [|elim NZ; exact S].
  destruct S as (_ & Wr & Er & Vr). exists r. split; [reflexivity|]. split; [split; [exact Wr|congruence]|exact Vr].
Qed.

Lemma div_mono s v e ds y de : 0 <= s <= v -> v <= e -> 1 <= ds <= y -> y <= de ->
  s / de <= v / y <= e / ds.
Proof.
  intros H1 H2 H3 H4. split.
  - apply Z.le_trans with (v / de); [apply Z.div_le_mono; lia|apply Z.div_le_compat_l; lia].
  - apply Z.le_trans with (e / y); [apply Z.div_le_mono; lia|apply Z.div_le_compat_l; lia].
Qed.

(* divisor pieces: no zero, not across the south pole *)
Definition divisor (w : Z) (d : witv) : Prop := sfree w d /\ 1 <= wn (wstart d).

Lemma unsigned_div_sound w c d : sfree w c -> divisor w d ->
  exists q, unsigned_div c d = Some q /\ iwf w q /\
            forall v y, gamma w c v -> gamma w d y ->
                        exists r, wudiv v y = Some r /\ gamma w q r.
Proof.
  intros Fc [Fd D1]. pose proof Fc as (Bc & Hs & He & Lc). pose proof Fd as (Bd & Hds & Hde & Ld).
  unfold unsigned_div.
  destruct (wudiv_val w _ _ Hs Hde ltac:(lia)) as (lo & E1 & Hlo & Vlo).
  destruct (wudiv_val w _ _ He Hds ltac:(lia)) as (hi & E2 & Hhi & Vhi).
  rewrite E1, E2. cbn [obind]. eexists. split; [reflexivity|]. split; [apply iwf_mk; assumption|].
  intros v y Gv Gy. pose proof (sfree_bounds w c v Fc Gv) as Bv. pose proof (sfree_bounds w d y Fd Gy) as By.
  destruct (wudiv_val w v y (proj1 Gv) (proj1 Gy) ltac:(lia)) as (r & E & Hr & Vr).
  exists r. split; [exact E|]. apply gamma_mk_le; try assumption.
  rewrite Vlo, Vhi, Vr. pose proof (wfw_range _ _ Hs) as [_ Rs]. apply div_mono; lia.
Qed.

(* the three nested loops of SDiv / UDiv *)
Section DivFold.
  Variable w : Z.
  Variable dv : witv -> witv -> option witv.
  Variable cop : wrapint -> wrapint -> option wrapint.
  Variable PC PD : witv -> Prop.
  Hypothesis dv_sound : forall c d, PC c -> PD d ->
    exists q, dv c d = Some q /\ iwf w q /\
              forall v y, gamma w c v -> gamma w d y -> exists r, cop v y = Some r /\ gamma w q r.

  Lemma div_divisors_spec c ds : PC c -> Forall PD ds -> forall res, iwf w res ->
    exists res', div_divisors dv c ds res = Some res' /\ iwf w res' /\
      (forall r, gamma w res r -> gamma w res' r) /\
      (forall v y, gamma w c v -> Exists (fun d => gamma w d y) ds ->
                   exists r, cop v y = Some r /\ gamma w res' r).
  Proof.
    intros Pc F. induction F as [|d l Pd F IH]; intros res Wr; cbn [div_divisors].
    - exists res. split; [reflexivity|]. split; [exact Wr|]. split; [auto|]. intros v y _ E. inversion E.
    - destruct (dv_sound c d Pc Pd) as (q & Eq & Wq & Sq). rewrite Eq. cbn [obind].
      destruct (IH (wi_join res q) (iwf_join w res q Wr Wq)) as (res' & E' & W' & M' & S').
      exists res'. split; [exact E'|]. split; [exact W'|]. split.
      + intros r G. apply M'. apply join_sound; auto.
      + intros v y Gv E. inversion E as [? ? G|? ? E2]; subst.
        * destruct (Sq v y Gv G) as (r & Er & Gr). exists r. split; [exact Er|].
          apply M'. apply join_sound; auto.
        * apply S'; assumption.
  Qed.

  Variable PX : witv -> Prop.
  Hypothesis trim_ok : forall xc, PX xc ->
    Forall PD (trim_zero xc) /\
    (forall y, gamma w xc y -> wn y <> 0 -> Exists (fun d => gamma w d y) (trim_zero xc)).

  Lemma div_xcuts_spec c xcuts : PC c -> Forall PX xcuts -> forall res, iwf w res ->
    exists res', div_xcuts dv c xcuts res = Some res' /\ iwf w res' /\
      (forall r, gamma w res r -> gamma w res' r) /\
      (forall v y, gamma w c v -> Exists (fun xc => gamma w xc y) xcuts -> wn y <> 0 ->
                   exists r, cop v y = Some r /\ gamma w res' r).
  Proof.
    intros Pc F. induction F as [|xc l Px F IH]; intros res Wr; cbn [div_xcuts].
    - exists res. split; [reflexivity|]. split; [exact Wr|]. split; [auto|]. intros v y _ E. inversion E.
    - destruct (trim_ok xc Px) as [T1 T2].
      destruct (div_divisors_spec c _ Pc T1 res Wr) as (r1 & E1 & W1 & M1 & S1). rewrite E1. cbn [obind].
      destruct (IH r1 W1) as (res' & E' & W' & M' & S').
      exists res'. split; [exact E'|]. split; [exact W'|]. split.
      + intros r G. apply M', M1, G.
      + intros v y Gv E NZ. inversion E as [? ? G|? ? E2]; subst.
        * destruct (S1 v y Gv (T2 y G NZ)) as (r & Er & Gr). exists r. split; [exact Er|apply M', Gr].
        * apply S'; assumption.
  Qed.

  Lemma div_cuts_spec cuts xcuts : Forall PC cuts -> Forall PX xcuts -> forall res, iwf w res ->
    exists res', div_cuts dv cuts xcuts res = Some res' /\ iwf w res' /\
      (forall r, gamma w res r -> gamma w res' r) /\
      (forall v y, Exists (fun c => gamma w c v) cuts -> Exists (fun xc => gamma w xc y) xcuts ->
                   wn y <> 0 -> exists r, cop v y = Some r /\ gamma w res' r).
  Proof.
    intros F Fx. induction F as [|c l Pc F IH]; intros res Wr; cbn [div_cuts].
    - exists res. split; [reflexivity|]. split; [exact Wr|]. split; [auto|]. intros v y E. inversion E.
    - destruct (div_xcuts_spec c xcuts Pc Fx res Wr) as (r1 & E1 & W1 & M1 & S1). rewrite E1. cbn [obind].
      destruct (IH r1 W1) as (res' & E' & W' & M' & S').
      exists res'. split; [exact E'|]. split; [exact W'|]. split.
      + intros r G. apply M', M1, G.
      + intros v y E Ey NZ. inversion E as [? ? G|? ? E2]; subst.
        * destruct (S1 v y G Ey NZ) as (r & Er & Gr). exists r. split; [exact Er|apply M', Gr].
        * apply S'; assumption.
  Qed.
End DivFold.

Lemma sfree_forall_base w l : Forall (sfree w) l ->
  Forall (fun p => wbot p = false /\ wfw w (wstart p) /\ wfw w (wend p)) l.
Proof. intros F. eapply Forall_impl; [|exact F]. intros p (A & B & C & _). auto. Qed.

Theorem udiv_sound w a x v y : iwf w a -> iwf w x -> gamma w a v -> gamma w x y -> wn y <> 0 ->
  exists q r, wi_udiv a x = Some q /\ iwf w q /\ wudiv v y = Some r /\ gamma w q r.
Proof.
  intros Wa Wx Ga Gx NZ. unfold wi_udiv.
  assert (wfw w v) as Hv by apply Ga. assert (wfw w y) as Hy by apply Gx.
  destruct (wudiv_val w v y Hv Hy NZ) as (r0 & Er0 & Hr0 & _).
  destruct (is_bottom a) eqn:Ba; [elim (gamma_bot w a v Ba Ga)|].
  destruct (is_bottom x) eqn:Bx; [elim (gamma_bot w x y Bx Gx)|]. cbn [orb].
  destruct (is_top a) eqn:Ta.
  { exists wi_top, r0. split; [reflexivity|]. split; [apply iwf_top|]. split; [exact Er0|].
    apply gamma_top; [reflexivity|exact Hr0]. }
  destruct (is_top x) eqn:Tx.
  { exists wi_top, r0. split; [reflexivity|]. split; [apply iwf_top|]. split; [exact Er0|].
    apply gamma_top; [reflexivity|exact Hr0]. }
  cbn [orb].
  destruct (unsigned_split_spec w a (range_nt_of w a Wa Ba Ta)) as (cuts & Ec & Fc & Cc).
  destruct (unsigned_split_spec w x (range_nt_of w x Wx Bx Tx)) as (x_cuts & Ex & Fx & Cx).
  rewrite Ec, Ex. cbn [obind].
  destruct (div_cuts_spec w unsigned_div wudiv (sfree w) (divisor w) (unsigned_div_sound w) (sfree w)
              (fun xc F => let (T1, T2) := trim_zero_spec w xc F in
                           conj (Forall_impl _ (fun d H => conj (proj1 H) (proj1 (proj2 H))) T1) T2)
              cuts x_cuts Fc Fx wi_bottom (iwf_bottom w)) as (q & Eq & Wq & _ & Sq).
  destruct (Sq v y) as (r & Er & Gr).
  - apply (exists_of_existsb w); [exact Hv|apply sfree_forall_base; exact Fc|apply Cc; exact Ga].
  - apply (exists_of_existsb w); [exact Hy|apply sfree_forall_base; exact Fx|apply Cx; exact Gx].
  - exact NZ.
  - exists q, r. auto.
Qed.


Lemma wsdiv_val w a b : wfw w a -> wfw w b -> wn b <> 0 ->
  exists r, wsdiv a b = Some r /\ wfw w r /\ wn r = Z.quot (to_sZ a) (to_sZ b) mod 2 ^ w.
Proof.
  intros [Wa Ea] [Wb Eb] NZ. pose proof (wsdiv_spec a b Wa Wb (eq_trans Ea (eq_sym Eb))) as S.
  destruct (wsdiv a b) as [r|]; [|elim NZ; exact S].
  destruct S as (_ & Wr & Er & Vr). exists r. split; [reflexivity|]. split; [split; [exact Wr|congruence]|].
  unfold to_Z, wrap in Vr. rewrite Vr, Ea. reflexivity.
Qed.

(* monotonicity of the truncating quotient, by signs *)
Lemma quot_mono_pp a1 a a2 b1 b b2 : 0 <= a1 <= a -> a <= a2 -> 0 < b1 <= b -> b <= b2 ->
  Z.quot a1 b2 <= Z.quot a b <= Z.quot a2 b1.
Proof.
  intros. rewrite !Z.quot_div_nonneg by lia.
  split.
  - apply Z.le_trans with (a / b2); [apply Z.div_le_mono; lia|apply Z.div_le_compat_l; lia].
  - apply Z.le_trans with (a2 / b); [apply Z.div_le_mono; lia|apply Z.div_le_compat_l; lia].
Qed.
Lemma quot_mono_nn a1 a a2 b1 b b2 : a1 <= a -> a <= a2 <= 0 -> b1 <= b -> b <= b2 < 0 ->
  Z.quot a2 b1 <= Z.quot a b <= Z.quot a1 b2.
Proof.
  intros. rewrite <- (Z.quot_opp_opp a2 b1), <- (Z.quot_opp_opp a b), <- (Z.quot_opp_opp a1 b2) by lia.
  apply quot_mono_pp; lia.
Qed.
Lemma quot_mono_np a1 a a2 b1 b b2 : a1 <= a -> a <= a2 <= 0 -> 0 < b1 <= b -> b <= b2 ->
  Z.quot a1 b1 <= Z.quot a b <= Z.quot a2 b2.
Proof.
  intros. pose proof (quot_mono_pp (- a2) (- a) (- a1) b1 b b2 ltac:(lia) ltac:(lia) ltac:(lia) ltac:(lia)) as Q.
  rewrite !Z.quot_opp_l in Q by lia. lia.
Qed.
Lemma quot_mono_pn a1 a a2 b1 b b2 : 0 <= a1 <= a -> a <= a2 -> b1 <= b -> b <= b2 < 0 ->
  Z.quot a2 b2 <= Z.quot a b <= Z.quot a1 b1.
Proof.
  intros. pose proof (quot_mono_pp a1 a a2 (- b2) (- b) (- b1) ltac:(lia) ltac:(lia) ltac:(lia) ltac:(lia)) as Q.
  rewrite !Z.quot_opp_r in Q by lia. lia.
Qed.

Lemma quot_abs_le a b : b <> 0 -> Z.abs (Z.quot a b) <= Z.abs a.
Proof.
  intros Hb. rewrite <- Z.quot_abs by lia. apply Z.quot_le_upper_bound; [lia|]. nia.
Qed.

Definition sdivisor (w : Z) (d : witv) : Prop := hemi w d /\ 1 <= wn (wstart d).

(* signed values of the members of a piece within one hemisphere *)
Lemma hemi_signed w c v : hemi w c -> gamma w c v ->
  let H := 2 ^ (w - 1) in
  (wn (wend c) < H /\ to_sZ (wstart c) = wn (wstart c) /\ to_sZ v = wn v /\ to_sZ (wend c) = wn (wend c) /\
   0 <= wn (wstart c) <= wn v /\ wn v <= wn (wend c)) \/
  (H <= wn (wstart c) /\ to_sZ (wstart c) = wn (wstart c) - 2 ^ w /\ to_sZ v = wn v - 2 ^ w /\
   to_sZ (wend c) = wn (wend c) - 2 ^ w /\
   wn (wstart c) <= wn v /\ wn v <= wn (wend c) /\ wn (wend c) < 2 ^ w).
Proof.
  intros Hc G. pose proof (sfree_bounds w c v (hemi_sfree w c Hc) G) as Bv.
  destruct Hc as (B & Hs & He & L & HM). pose proof (wfw_range _ _ Hs) as [Hw Rs]. pose proof (wfw_range _ _ He) as [_ Re].
  rewrite (to_sZ_val w _ Hs), (to_sZ_val w _ He), (to_sZ_val w _ (proj1 G)). cbv zeta.
  destruct HM as [HM|HM]; [left|right];
  destruct (Z.ltb_spec (wn (wstart c)) (2 ^ (w - 1))); destruct (Z.ltb_spec (wn (wend c)) (2 ^ (w - 1)));
  destruct (Z.ltb_spec (wn v) (2 ^ (w - 1))); lia.
Qed.

Lemma signed_div_sound w c d : hemi w c -> sdivisor w d ->
  exists q, signed_div c d = Some q /\ iwf w q /\
            forall v y, gamma w c v -> gamma w d y ->
                        exists r, wsdiv v y = Some r /\ gamma w q r.
Proof.
  intros Hc [Hd D1]. pose proof Hc as (Bc & Hs & He & Lc & HMc). pose proof Hd as (Bd & Hds & Hde & Ld & HMd).
  pose proof (wfw_range _ _ Hs) as [Hw Rs]. pose proof (wfw_range _ _ He) as [_ Re].
  pose proof (wfw_range _ _ Hds) as [_ Rds]. pose proof (wfw_range _ _ Hde) as [_ Rde].
  destruct (half_pow w ltac:(lia)) as [M2 HP].
  destruct (wsdiv_val w _ _ Hs Hds ltac:(lia)) as (qss & Ess & Hss & Vss).
  destruct (wsdiv_val w _ _ Hs Hde ltac:(lia)) as (qse & Ese & Hse & Vse).
  destruct (wsdiv_val w _ _ He Hds ltac:(lia)) as (qes & Ees & Hes & Ves).
  destruct (wsdiv_val w _ _ He Hde ltac:(lia)) as (qee & Eee & Hee & Vee).
  (* generic conclusion: any pair of bounds lo, hi with lo <= quot <= hi *)
  assert (forall lo hi qlo qhi, wfw w qlo -> wfw w qhi -> wn qlo = lo mod 2 ^ w -> wn qhi = hi mod 2 ^ w ->
            hi - lo < 2 ^ w ->
            (forall v y, gamma w c v -> gamma w d y -> lo <= Z.quot (to_sZ v) (to_sZ y) <= hi) ->
            forall v y, gamma w c v -> gamma w d y -> exists r, wsdiv v y = Some r /\ gamma w (wi_mk qlo qhi) r) as K.
  { intros lo hi qlo qhi Hlo Hhi Vlo Vhi Hd' Hb v y Gv Gy.
    pose proof (sfree_bounds w d y (hemi_sfree w d Hd) Gy) as By.
    destruct (wsdiv_val w v y (proj1 Gv) (proj1 Gy) ltac:(lia)) as (r & Er & Hr & Vr).
    exists r. split; [exact Er|]. apply gamma_mk; try assumption. rewrite Vr, Vlo, Vhi.
    apply interval_mod_Z; [lia|apply Hb; assumption|exact Hd']. }
  assert (forall a b, wfw w a -> wfw w b -> wn b <> 0 -> - 2 ^ (w - 1) <= Z.quot (to_sZ a) (to_sZ b) <= 2 ^ (w - 1)) as QB.
  { intros a b Ha Hb NZ. pose proof (to_sZ_range a (proj1 Ha)) as Ra. destruct Ha as [_ Ea]. rewrite Ea in Ra.
    assert (to_sZ b <> 0) as NZs by (rewrite to_sZ_zero by apply Hb; exact NZ).
    pose proof (quot_abs_le (to_sZ a) (to_sZ b) NZs). lia. }
  unfold signed_div. rewrite (msb_val w _ Hs), (msb_val w _ Hds).
  rewrite Ess, Ese, Ees, Eee. cbn [obind].
  destruct (Z.leb_spec (2 ^ (w - 1)) (wn (wstart c))) as [C1|C1];
  destruct (Z.leb_spec (2 ^ (w - 1)) (wn (wstart d))) as [C2|C2]; cbn [eqb];
  match goal with |- context [if negb ?g then _ else _] => destruct g end; cbn [negb];
  try (eexists; split; [reflexivity|]; split; [apply iwf_top|];
       intros v y Gv Gy; pose proof (sfree_bounds w d y (hemi_sfree w d Hd) Gy);
       destruct (wsdiv_val w v y (proj1 Gv) (proj1 Gy) ltac:(lia)) as (r & Er & Hr & _);
       exists r; split; [exact Er|apply gamma_top; [reflexivity|exact Hr]]);
  (eexists; split; [reflexivity|]; split; [apply iwf_mk; assumption|]).
  - (* both negative *)
    apply (K _ _ _ _ Hes Hse Ves Vse).
    + pose proof (QB _ _ He Hds ltac:(lia)). pose proof (QB _ _ Hs Hde ltac:(lia)).
      assert (0 <= Z.quot (to_sZ (wend c)) (to_sZ (wstart d))).
      { rewrite (to_sZ_val w _ He), (to_sZ_val w _ Hds).
        destruct (Z.ltb_spec (wn (wend c)) (2 ^ (w - 1))); [lia|]. destruct (Z.ltb_spec (wn (wstart d)) (2 ^ (w - 1))); [lia|].
        rewrite <- Z.quot_opp_opp by lia. apply Z.quot_pos; lia. }
      lia.
    + intros v y Gv Gy. destruct (hemi_signed w c v Hc Gv) as [X|X]; [lia|].
      destruct (hemi_signed w d y Hd Gy) as [Y|Y]; [lia|].
      destruct X as (_ & -> & -> & -> & ?). destruct Y as (_ & -> & -> & -> & ?).
      apply quot_mono_nn; lia.
  - (* dividend negative, divisor positive *)
    apply (K _ _ _ _ Hss Hee Vss Vee).
    + pose proof (QB _ _ Hs Hds ltac:(lia)). pose proof (QB _ _ He Hde ltac:(lia)).
      assert (Z.quot (to_sZ (wend c)) (to_sZ (wend d)) <= 0).
      { rewrite (to_sZ_val w _ He), (to_sZ_val w _ Hde).
        destruct (Z.ltb_spec (wn (wend c)) (2 ^ (w - 1))); [lia|].
        destruct HMd as [HMd|HMd]; [|lia]. destruct (Z.ltb_spec (wn (wend d)) (2 ^ (w - 1))); [|lia].
        pose proof (Z.quot_pos (- (wn (wend c) - 2 ^ w)) (wn (wend d)) ltac:(lia) ltac:(lia)) as Q.
        rewrite Z.quot_opp_l in Q by lia. lia. }
      lia.
    + intros v y Gv Gy. destruct (hemi_signed w c v Hc Gv) as [X|X]; [lia|].
      destruct (hemi_signed w d y Hd Gy) as [Y|Y]; [|lia].
      destruct X as (_ & -> & -> & -> & ?). destruct Y as (_ & -> & -> & -> & ?).
      apply quot_mono_np; lia.
  - (* dividend positive, divisor negative *)
    apply (K _ _ _ _ Hee Hss Vee Vss).
    + pose proof (QB _ _ Hs Hds ltac:(lia)). pose proof (QB _ _ He Hde ltac:(lia)).
      assert (Z.quot (to_sZ (wstart c)) (to_sZ (wstart d)) <= 0).
      { rewrite (to_sZ_val w _ Hs), (to_sZ_val w _ Hds).
        destruct (Z.ltb_spec (wn (wstart c)) (2 ^ (w - 1))); [|lia].
        destruct (Z.ltb_spec (wn (wstart d)) (2 ^ (w - 1))); [lia|].
        pose proof (Z.quot_pos (wn (wstart c)) (- (wn (wstart d) - 2 ^ w)) ltac:(lia) ltac:(lia)) as Q.
        rewrite Z.quot_opp_r in Q by lia. lia. }
      lia.
    + intros v y Gv Gy. destruct (hemi_signed w c v Hc Gv) as [X|X]; [|lia].
      destruct (hemi_signed w d y Hd Gy) as [Y|Y]; [lia|].
      destruct X as (_ & -> & -> & -> & ?). destruct Y as (_ & -> & -> & -> & ?).
      apply quot_mono_pn; lia.
  - (* both positive *)
    apply (K _ _ _ _ Hse Hes Vse Ves).
    + pose proof (QB _ _ He Hds ltac:(lia)). pose proof (QB _ _ Hs Hde ltac:(lia)).
      assert (0 <= Z.quot (to_sZ (wstart c)) (to_sZ (wend d))).
      { rewrite (to_sZ_val w _ Hs), (to_sZ_val w _ Hde).
        destruct (Z.ltb_spec (wn (wstart c)) (2 ^ (w - 1))); [|lia].
        destruct HMd as [HMd|HMd]; [|lia]. destruct (Z.ltb_spec (wn (wend d)) (2 ^ (w - 1))); [|lia].
        apply Z.quot_pos; lia. }
      lia.
    + intros v y Gv Gy. destruct (hemi_signed w c v Hc Gv) as [X|X]; [|lia].
      destruct (hemi_signed w d y Hd Gy) as [Y|Y]; [|lia].
      destruct X as (_ & -> & -> & -> & ?). destruct Y as (_ & -> & -> & -> & ?).
      apply quot_mono_pp; lia.
Qed.

Lemma trim_zero_hemi w xc : hemi w xc ->
  Forall (sdivisor w) (trim_zero xc) /\
  (forall y, gamma w xc y -> wn y <> 0 -> Exists (fun d => gamma w d y) (trim_zero xc)).
Proof.
  intros Hx. destruct (trim_zero_spec w xc (hemi_sfree w xc Hx)) as [T1 T2]. split; [|exact T2].
  eapply Forall_impl; [|exact T1]. intros d ((B & Hs & He & L) & D1 & K1 & K2).
  destruct Hx as (_ & _ & _ & _ & HM).
  split; [|exact D1]. split; [exact B|]. split; [exact Hs|]. split; [exact He|]. split; [exact L|].
  destruct HM as [HM|HM]; [left; auto|right; auto].
Qed.

Theorem sdiv_sound w a x v y : iwf w a -> iwf w x -> gamma w a v -> gamma w x y -> wn y <> 0 ->
  exists q r, wi_sdiv a x = Some q /\ iwf w q /\ wsdiv v y = Some r /\ gamma w q r.
Proof.
  intros Wa Wx Ga Gx NZ. unfold wi_sdiv.
  assert (wfw w v) as Hv by apply Ga. assert (wfw w y) as Hy by apply Gx.
  destruct (wsdiv_val w v y Hv Hy NZ) as (r0 & Er0 & Hr0 & _).
  destruct (is_bottom a) eqn:Ba; [elim (gamma_bot w a v Ba Ga)|].
  destruct (is_bottom x) eqn:Bx; [elim (gamma_bot w x y Bx Gx)|]. cbn [orb].
  destruct (is_top a) eqn:Ta.
  { exists wi_top, r0. split; [reflexivity|]. split; [apply iwf_top|]. split; [exact Er0|].
    apply gamma_top; [reflexivity|exact Hr0]. }
  destruct (is_top x) eqn:Tx.
  { exists wi_top, r0. split; [reflexivity|]. split; [apply iwf_top|]. split; [exact Er0|].
    apply gamma_top; [reflexivity|exact Hr0]. }
  cbn [orb].
  destruct (sus_split_spec w a (range_nt_of w a Wa Ba Ta)) as (cuts & Ec & Fc & Cc).
  destruct (sus_split_spec w x (range_nt_of w x Wx Bx Tx)) as (x_cuts & Ex & Fx & Cx).
  rewrite Ec, Ex. cbn [obind].
  destruct (div_cuts_spec w signed_div wsdiv (hemi w) (sdivisor w) (signed_div_sound w) (hemi w)
              (trim_zero_hemi w) cuts x_cuts Fc Fx wi_bottom (iwf_bottom w)) as (q & Eq & Wq & _ & Sq).
  destruct (Sq v y) as (r & Er & Gr).
  - apply (exists_of_existsb w); [exact Hv|apply hemi_forall_base; exact Fc|apply Cc; exact Ga].
  - apply (exists_of_existsb w); [exact Hy|apply hemi_forall_base; exact Fx|apply Cx; exact Gx].
  - exact NZ.
  - exists q, r. auto.
Qed.

(* ---------------------------------------------------------------- right shifts *)


Lemma leq_ulimit w i : range_nt w i ->
  wi_leq (unsigned_limit w) i = negb (wn (wstart i) <=? wn (wend i)).
Proof.
  intros R. pose proof R as (B & T & Hs & He).
  pose proof (wfw_range _ _ Hs) as [Hw Rs]. pose proof (wfw_range _ _ He) as [_ Re].
  destruct (umax_val w Hw) as [Hmax Vmax]. destruct (umin_val w Hw) as [Hmin Vmin].
  pose proof T as T'. rewrite (is_top_cmp w) in T by assumption.
  destruct (half_pow w ltac:(lia)) as [M2 HP].
  destruct (is_top (unsigned_limit w)) eqn:TL.
  - assert (wi_leq (unsigned_limit w) i = false) as ->.
    { unfold wi_leq, is_bottom. rewrite B, T', TL. reflexivity. }
    rewrite (is_top_cmp w) in TL by (try reflexivity; assumption). cbn [unsigned_limit wi_mk wstart wend] in TL.
    rewrite Vmax, Vmin in TL. clear T'. dec_all.
  - rewrite (leq_inb w) by (try assumption; reflexivity).
    cbn [unsigned_limit wi_mk wstart wend]. rewrite Vmax, Vmin. unfold inb.
    clear TL T'. dec_all.
Qed.

Lemma leq_slimit w i : range_nt w i -> wi_leq (signed_limit w) i = cross_north w i.
Proof.
  intros R. pose proof R as (B & T & Hs & He).
  pose proof (wfw_range _ _ Hs) as [Hw Rs]. pose proof (wfw_range _ _ He) as [_ Re].
  destruct (smax_val w Hw) as [Hmax Vmax]. destruct (smin_val w Hw) as [Hmin Vmin].
  destruct (half_pow w ltac:(lia)) as [M2 HP].
  pose proof T as T'. rewrite (is_top_cmp w) in T by assumption. unfold cross_north.
  destruct (is_top (signed_limit w)) eqn:TL.
  - assert (wi_leq (signed_limit w) i = false) as ->.
    { unfold wi_leq, is_bottom. rewrite B, T', TL. reflexivity. }
    rewrite (is_top_cmp w) in TL by (try reflexivity; assumption). cbn [signed_limit wi_mk wstart wend] in TL.
    rewrite Vmax, Vmin in TL. clear T'. dec_all.
  - rewrite (leq_inb w) by (try assumption; reflexivity).
    cbn [signed_limit wi_mk wstart wend]. rewrite Vmax, Vmin. unfold inb.
    clear TL T'. dec_all.
Qed.

Lemma cross_unsigned_limit_val w i : range_nt w i ->
  cross_unsigned_limit i = Some (negb (wn (wstart i) <=? wn (wend i))).
Proof. intros R. unfold cross_unsigned_limit. rewrite (bitwidth_range w i R). cbn [obind]. rewrite (leq_ulimit w i R). reflexivity. Qed.
Lemma cross_signed_limit_val w i : range_nt w i -> cross_signed_limit i = Some (cross_north w i).
Proof. intros R. unfold cross_signed_limit. rewrite (bitwidth_range w i R). cbn [obind]. rewrite (leq_slimit w i R). reflexivity. Qed.

Lemma wlshr_val w a k : wfw w a -> wfw w k -> wn k < 64 ->
  exists r, wlshr a k = Some r /\ wfw w r /\ wn r = wn a / 2 ^ wn k.
Proof.
  intros [Wa Ea] [Wk Ek] K. destruct (wlshr_spec a k Wa Wk (eq_trans Ea (eq_sym Ek)) K) as (r & E & Wr & Er & Vr).
  exists r. split; [exact E|]. split; [split; [exact Wr|congruence]|exact Vr].
Qed.
Lemma washr_val w a k : wfw w a -> wfw w k -> wn k < 64 ->
  exists r, washr a k = Some r /\ wfw w r /\ wn r = (to_sZ a / 2 ^ wn k) mod 2 ^ w.
Proof.
  intros [Wa Ea] [Wk Ek] K. destruct (washr_spec a k Wa Wk (eq_trans Ea (eq_sym Ek)) K) as (r & E & Wr & Er & Vr).
  exists r. split; [exact E|]. split; [split; [exact Wr|congruence]|]. unfold to_Z, wrap in Vr. rewrite Vr, Ea. reflexivity.
Qed.
Lemma wshl_val w a k : wfw w a -> wfw w k -> wn k < 64 ->
  exists r, wshl a k = Some r /\ wfw w r /\ wn r = (wn a * 2 ^ wn k) mod 2 ^ w.
Proof.
  intros [Wa Ea] [Wk Ek] K. destruct (wshl_spec a k Wa Wk (eq_trans Ea (eq_sym Ek)) K) as (r & E & Wr & Er & Vr).
  exists r. split; [exact E|]. split; [split; [exact Wr|congruence]|]. unfold to_Z, wrap in Vr. rewrite Vr, Ea. reflexivity.
Qed.

(* the shift amount of the interval operators: the value of a w-bit number *)
Lemma wmk_amount w k : wfw w k -> wmk (wn k) w = k.
Proof.
  intros Hk. pose proof (wfw_range _ _ Hk) as [Hw Rk]. destruct (wmk_val_small (wn k) w Hw Rk) as [[_ E] V].
  apply wrapint_eq; [rewrite E; symmetry; apply Hk|exact V].
Qed.

Lemma lshr_k_sound w a kk v : iwf w a -> gamma w a v -> wfw w kk -> wn kk < 64 ->
  exists q r, wi_lshr_k a (wn kk) = Some q /\ iwf w q /\ wlshr v kk = Some r /\ gamma w q r.
Proof.
  intros Wa Ga Hk K. assert (wfw w v) as Hv by apply Ga.
  destruct (wlshr_val w v kk Hv Hk K) as (r & Er & Hr & Vr).
  unfold wi_lshr_k. destruct (is_bottom a) eqn:Ba; [elim (gamma_bot w a v Ba Ga)|].
  destruct (is_top a) eqn:Ta.
  { exists a, r. split; [reflexivity|]. split; [exact Wa|]. split; [exact Er|]. apply gamma_top; assumption. }
  pose proof (range_nt_of w a Wa Ba Ta) as R. pose proof R as (B & _ & Hs & He).
  rewrite (cross_unsigned_limit_val w a R). cbn [obind].
  destruct (Z.leb_spec (wn (wstart a)) (wn (wend a))) as [L|L]; cbn [negb].
  - assert (get_bitwidth (wstart a) = w) as -> by apply Hs. rewrite (wmk_amount w kk Hk).
    destruct (wlshr_val w _ kk Hs Hk K) as (lo & Elo & Hlo & Vlo).
    destruct (wlshr_val w _ kk He Hk K) as (hi & Ehi & Hhi & Vhi).
    rewrite Elo, Ehi. cbn [obind]. exists (wi_mk lo hi), r. split; [reflexivity|]. split; [apply iwf_mk; assumption|].
    split; [exact Er|]. apply gamma_mk_le; try assumption. rewrite Vlo, Vhi, Vr.
    pose proof (sfree_bounds w a v (conj B (conj Hs (conj He L))) Ga) as Bv.
    pose proof (wfw_range _ _ Hk) as [_ Rk]. pose proof (pow2_pos (wn kk) ltac:(lia)).
    split; apply Z.div_le_mono; lia.
  - exists wi_top, r. split; [reflexivity|]. split; [apply iwf_top|]. split; [exact Er|].
    apply gamma_top; [reflexivity|exact Hr].
Qed.

(* members of an interval that does not cross the north pole, in the signed order *)
Lemma signed_bounds w a v : range_nt w a -> cross_north w a = false -> gamma w a v ->
  to_sZ (wstart a) <= to_sZ v <= to_sZ (wend a).
Proof.
  intros (B & T & Hs & He) CN G. pose proof (gamma_inb w a v B T Hs He G) as I.
  pose proof (wfw_range _ _ Hs) as [Hw Rs]. pose proof (wfw_range _ _ He) as [_ Re].
  pose proof (wfw_range _ _ (proj1 G)) as [_ Rv]. destruct (half_pow w ltac:(lia)) as [M2 HP].
  rewrite (to_sZ_val w _ Hs), (to_sZ_val w _ He), (to_sZ_val w _ (proj1 G)).
  unfold cross_north in CN. unfold inb in I. clear T. dec_all; lia.
Qed.

Lemma ashr_k_sound w a kk v : iwf w a -> gamma w a v -> wfw w kk -> wn kk < 64 ->
  exists q r, wi_ashr_k a (wn kk) = Some q /\ iwf w q /\ washr v kk = Some r /\ gamma w q r.
Proof.
  intros Wa Ga Hk K. assert (wfw w v) as Hv by apply Ga.
  destruct (washr_val w v kk Hv Hk K) as (r & Er & Hr & Vr).
  unfold wi_ashr_k. destruct (is_bottom a) eqn:Ba; [elim (gamma_bot w a v Ba Ga)|].
  destruct (is_top a) eqn:Ta.
  { exists a, r. split; [reflexivity|]. split; [exact Wa|]. split; [exact Er|]. apply gamma_top; assumption. }
  pose proof (range_nt_of w a Wa Ba Ta) as R. pose proof R as (B & _ & Hs & He).
  rewrite (cross_signed_limit_val w a R). cbn [obind].
  destruct (cross_north w a) eqn:CN; cbn [negb].
  - exists wi_top, r. split; [reflexivity|]. split; [apply iwf_top|]. split; [exact Er|].
    apply gamma_top; [reflexivity|exact Hr].
  - assert (get_bitwidth (wstart a) = w) as -> by apply Hs. rewrite (wmk_amount w kk Hk).
    destruct (washr_val w _ kk Hs Hk K) as (lo & Elo & Hlo & Vlo).
    destruct (washr_val w _ kk He Hk K) as (hi & Ehi & Hhi & Vhi).
    rewrite Elo, Ehi. cbn [obind]. exists (wi_mk lo hi), r. split; [reflexivity|]. split; [apply iwf_mk; assumption|].
    split; [exact Er|]. apply gamma_mk; try assumption. rewrite Vlo, Vhi, Vr.
    pose proof (signed_bounds w a v R CN Ga) as Bv.
    pose proof (wfw_range _ _ Hk) as [Hw Rk]. pose proof (pow2_pos (wn kk) ltac:(lia)) as PK.
    pose proof (to_sZ_range _ (proj1 Hs)) as R1. pose proof (to_sZ_range _ (proj1 He)) as R2.
    destruct Hs as [_ Es]. destruct He as [_ Ee]. rewrite Es in R1. rewrite Ee in R2.
    destruct (half_pow w ltac:(lia)) as [M2 HP].
    apply interval_mod_Z; [lia|split; apply Z.div_le_mono; lia|].
    assert (- 2 ^ (w - 1) <= to_sZ (wstart a) / 2 ^ wn kk) by (apply Z.div_le_lower_bound; nia).
    assert (to_sZ (wend a) / 2 ^ wn kk < 2 ^ (w - 1)) by (apply Z.div_lt_upper_bound; nia).
    lia.
Qed.

Lemma single_member w x kk : iwf w x -> is_singleton x = true -> gamma w x kk -> kk = wstart x.
Proof.
  intros Wx S G. unfold is_singleton in S. apply andb_true_iff in S. destruct S as [S E].
  apply andb_true_iff in S. destruct S as [B T]. apply negb_true_iff in B, T.
  destruct (iwf_range w x Wx B T) as (B' & Hs & He).
  assert (wend x = wstart x) as EE.
  { symmetry. apply weq_true; [|exact E]. destruct Hs as [_ ->]. destruct He as [_ ->]. reflexivity. }
  assert (x = wi_single (wstart x)) as X.
  { destruct x as [s e b]. cbn in *. subst. reflexivity. }
  rewrite X in G, T. apply (gamma_single w _ kk Hs G T).
Qed.

Theorem lshr_sound w a x v kk : iwf w a -> iwf w x -> gamma w a v -> gamma w x kk -> wn kk < 64 ->
  exists q r, wi_lshr a x = Some q /\ iwf w q /\ wlshr v kk = Some r /\ gamma w q r.
Proof.
  intros Wa Wx Ga Gx K. unfold wi_lshr.
  destruct (is_bottom a) eqn:Ba; [elim (gamma_bot w a v Ba Ga)|].
  destruct (is_singleton x) eqn:S.
  - rewrite <- (single_member w x kk Wx S Gx). unfold get_uint64_t. apply lshr_k_sound; try assumption. apply Gx.
  - destruct (wlshr_val w v kk (proj1 Ga) (proj1 Gx) K) as (r & Er & Hr & _).
    exists wi_top, r. split; [reflexivity|]. split; [apply iwf_top|]. split; [exact Er|].
    apply gamma_top; [reflexivity|exact Hr].
Qed.

Theorem ashr_sound w a x v kk : iwf w a -> iwf w x -> gamma w a v -> gamma w x kk -> wn kk < 64 ->
  exists q r, wi_ashr a x = Some q /\ iwf w q /\ washr v kk = Some r /\ gamma w q r.
Proof.
  intros Wa Wx Ga Gx K. unfold wi_ashr.
  destruct (is_bottom a) eqn:Ba; [elim (gamma_bot w a v Ba Ga)|].
  destruct (is_singleton x) eqn:S.
  - rewrite <- (single_member w x kk Wx S Gx). unfold get_uint64_t. apply ashr_k_sound; try assumption. apply Gx.
  - destruct (washr_val w v kk (proj1 Ga) (proj1 Gx) K) as (r & Er & Hr & _).
    exists wi_top, r. split; [reflexivity|]. split; [apply iwf_top|]. split; [exact Er|].
    apply gamma_top; [reflexivity|exact Hr].
Qed.

(* ---------------------------------------------------------------- truncation, left shift *)


Lemma mod_eq_small M a b : 0 < M -> a mod M = b mod M -> - M < a - b < M -> a = b.
Proof.
  intros HM E R.
  pose proof (Z.div_mod a M ltac:(lia)) as Da. pose proof (Z.div_mod b M ltac:(lia)) as Db.
  assert (a - b = M * (a / M - b / M)) as D by lia.
  assert (a / M - b / M = 0) by nia. lia.
Qed.

Lemma wkeep_lower_val w a k : wfw w a -> 1 <= k < w ->
  exists r, wkeep_lower a k = Some r /\ wfw k r /\ wn r = wn a mod 2 ^ k.
Proof.
  intros [Wa Ea] Hk. pose proof (wkeep_lower_spec a k Wa ltac:(lia)) as S.
  destruct (wkeep_lower a k) as [r|]; [|lia].
  destruct S as (Wr & [[L _]|(_ & Er & Vr)]); [lia|].
  exists r. split; [reflexivity|]. split; [split; assumption|exact Vr].
Qed.

(* the signed reading split into a block number and the low bits *)
Lemma signed_blocks w k x : wfw w x -> 1 <= k < w ->
  let L := 2 ^ k in
  to_sZ x = (to_sZ x / L) * L + wn x mod L /\
  - 2 ^ (w - 1 - k) <= to_sZ x / L < 2 ^ (w - 1 - k).
Proof.
  intros Hx Hk L. pose proof (wfw_range _ _ Hx) as [Hw Rx].
  pose proof (to_sZ_range x (proj1 Hx)) as R. destruct Hx as [Wx Ex]. rewrite Ex in R.
  assert (0 < L) as HL by (apply pow2_pos; lia).
  assert (2 ^ (w - 1) = 2 ^ (w - 1 - k) * L) as E1.
  { unfold L. rewrite <- Z.pow_add_r by lia. f_equal. lia. }
  assert (2 ^ w = 2 * 2 ^ (w - 1 - k) * L) as E2 by (rewrite (pow2_split w) by lia; lia).
  assert (to_sZ x mod L = wn x mod L) as EM.
  { unfold to_sZ, signed_of. rewrite Ex. destruct (_ <? _); [reflexivity|].
    rewrite E2. replace (wn x - 2 * 2 ^ (w - 1 - k) * L) with (wn x + (- (2 * 2 ^ (w - 1 - k))) * L) by ring.
    apply Z.mod_add. lia. }
  split.
  - rewrite <- EM. rewrite Z.mul_comm. apply Z.div_mod. lia.
  - split; [apply Z.div_le_lower_bound; [lia|]; nia|apply Z.div_lt_upper_bound; [lia|]; nia].
Qed.

(* Trunc either returns top or the distance between the bounds is below 2^k and the low
   bits of the bounds delimit the low bits of the members *)
Lemma trunc_range w i k : range_nt w i -> 1 <= k < w ->
  exists q, wi_trunc i k = Some q /\
    (q = wi_top \/
     exists ls le, q = wi_mk ls le /\ wfw k ls /\ wfw k le /\
       wn ls = wn (wstart i) mod 2 ^ k /\ wn le = wn (wend i) mod 2 ^ k /\
       (wn (wend i) - wn (wstart i)) mod 2 ^ w < 2 ^ k /\
       (wn (wend i) - wn (wstart i)) mod 2 ^ w = (wn le - wn ls) mod 2 ^ k).
Proof.
  intros R Hk. pose proof R as (B & T & Hs & He).
  pose proof (wfw_range _ _ Hs) as [Hw Rs]. pose proof (wfw_range _ _ He) as [_ Re].
  unfold wi_trunc, is_bottom. rewrite B, T. cbn [orb].
  assert (get_bitwidth (wstart i) = w) as -> by apply Hs.
  destruct (Z.leb_spec w k) as [KW|_]; [lia|].
  assert (0 < 2 ^ k) as HL by (apply pow2_pos; lia).
  assert (2 ^ k < 2 ^ w) as LM by (apply Z.pow_lt_mono_r; lia).
  destruct (wmk_val_small k w Hw) as [Hkk Vkk].
  { split; [lia|]. apply Z.lt_trans with (2 ^ k); [apply Z.pow_gt_lin_r; lia|exact LM]. }
  assert (wn (wmk k w) < 64) as K64 by lia.
  destruct (washr_val w _ _ Hs Hkk K64) as (us & Eus & Hus & Vus).
  destruct (washr_val w _ _ He Hkk K64) as (ue & Eue & Hue & Vue).
  rewrite Eus, Eue. cbn [obind]. rewrite Vkk in Vus, Vue.
  destruct (wkeep_lower_val w _ k Hs Hk) as (ls & Els & Hls & Vls).
  destruct (wkeep_lower_val w _ k He Hk) as (le & Ele & Hle & Vle).
  destruct (signed_blocks w k _ Hs Hk) as [Ds Bs]. destruct (signed_blocks w k _ He Hk) as [De Be].
  cbv zeta in *.
  set (Fs := to_sZ (wstart i) / 2 ^ k) in *. set (Fe := to_sZ (wend i) / 2 ^ k) in *.
  assert (2 ^ w = 2 * 2 ^ (w - 1 - k) * 2 ^ k) as E2.
  { rewrite (pow2_split w) by lia. replace (w - 1) with (w - 1 - k + k) at 1 by lia.
    rewrite Z.pow_add_r by lia. ring. }
  assert (0 < 2 ^ (w - 1 - k)) as HB by (apply pow2_pos; lia).
  assert (2 <= 2 ^ k) as L2 by (change 2 with (2 ^ 1) at 1; apply Z.pow_le_mono_r; lia).
  pose proof (Z.mod_pos_bound (wn (wstart i)) (2 ^ k) HL) as Rls.
  pose proof (Z.mod_pos_bound (wn (wend i)) (2 ^ k) HL) as Rle.
  (* the distance between the bounds, through the signed readings *)
  assert ((wn (wend i) - wn (wstart i)) mod 2 ^ w = (to_sZ (wend i) - to_sZ (wstart i)) mod 2 ^ w) as DS.
  { pose proof (to_sZ_wrap _ (proj1 Hs)) as W1. pose proof (to_sZ_wrap _ (proj1 He)) as W2.
    unfold wrap, to_Z in W1, W2. destruct Hs as [_ Es]. destruct He as [_ Ee]. rewrite Es in W1. rewrite Ee in W2.
    rewrite (Zminus_mod (to_sZ (wend i)) (to_sZ (wstart i))), W1, W2. reflexivity. }
  unfold weq.
  destruct (Z.eqb_spec (wn us) (wn ue)) as [EQ|NE].
  - (* same block *)
    rewrite Els, Ele. cbn [obind]. rewrite Vus, Vue in EQ.
    assert (Fs = Fe) as FE by (apply (mod_eq_small (2 ^ w)); [lia|exact EQ|nia]).
    unfold wle. destruct (Z.leb_spec (wn ls) (wn le)) as [LL|LL].
    + eexists. split; [reflexivity|]. right. exists ls, le. split; [reflexivity|].
      split; [exact Hls|]. split; [exact Hle|]. split; [exact Vls|]. split; [exact Vle|].
      assert (to_sZ (wend i) - to_sZ (wstart i) = wn le - wn ls) as DD by (rewrite Vls, Vle; nia).
      rewrite DS, DD. rewrite !Z.mod_small by lia. lia.
    + eexists. split; [reflexivity|]. left. reflexivity.
  - (* next block *)
    destruct (wpreinc_spec us (proj1 Hus)) as (Wy & Ey & Vy). unfold to_Z, wrap in Vy.
    destruct Hus as [Wus Eus']. rewrite Eus' in Vy.
    destruct (Z.eqb_spec (wn (wpreinc us)) (wn ue)) as [EQ|NE2].
    + rewrite Els, Ele. cbn [obind]. rewrite Vy, Vus, Vue in EQ. rewrite Zplus_mod_idemp_l in EQ.
      assert (Fs + 1 = Fe) as FE by (apply (mod_eq_small (2 ^ w)); [lia|exact EQ|nia]).
      unfold wle. destruct (Z.leb_spec (wn ls) (wn le)) as [LL|LL]; cbn [negb].
      * eexists. split; [reflexivity|]. left. reflexivity.
      * eexists. split; [reflexivity|]. right. exists ls, le. split; [reflexivity|].
        split; [exact Hls|]. split; [exact Hle|]. split; [exact Vls|]. split; [exact Vle|].
        assert (to_sZ (wend i) - to_sZ (wstart i) = 2 ^ k + wn le - wn ls) as DD by (rewrite Vls, Vle; nia).
        rewrite DS, DD. rewrite (Z.mod_small (2 ^ k + wn le - wn ls)) by lia.
        split; [lia|]. apply (Z.mod_unique (wn le - wn ls) (2 ^ k) (-1)); lia.
    + eexists. split; [reflexivity|]. left. reflexivity.
Qed.

Lemma iwf_of_top w i : is_top i = true -> iwf w i.
Proof. intros T. right. left. exact T. Qed.

Theorem trunc_sound w i k v : iwf w i -> gamma w i v -> 1 <= k < w ->
  exists q r, wi_trunc i k = Some q /\ iwf k q /\ wkeep_lower v k = Some r /\ gamma k q r.
Proof.
  intros Wi G Hk. assert (wfw w v) as Hv by apply G.
  destruct (wkeep_lower_val w v k Hv Hk) as (r & Er & Hr & Vr).
  destruct (is_bottom i) eqn:Bi; [elim (gamma_bot w i v Bi G)|].
  destruct (is_top i) eqn:Ti.
  { exists i, r. unfold wi_trunc. rewrite Bi, Ti. cbn [orb]. split; [reflexivity|].
    split; [apply iwf_of_top; exact Ti|]. split; [exact Er|]. apply gamma_top; assumption. }
  pose proof (range_nt_of w i Wi Bi Ti) as R. pose proof R as (B & _ & Hs & He).
  destruct (trunc_range w i k R Hk) as (q & Eq & [->|(ls & le & -> & Hls & Hle & Vls & Vle & DL & DE)]).
  { exists wi_top, r. split; [exact Eq|]. split; [apply iwf_top|]. split; [exact Er|].
    apply gamma_top; [reflexivity|exact Hr]. }
  exists (wi_mk ls le), r. split; [exact Eq|]. split; [apply iwf_mk; assumption|]. split; [exact Er|].
  apply gamma_mk; try assumption. rewrite Vr, Vls, Vle in *.
  pose proof (gamma_range w i v B Ti Hs He G) as Gv.
  pose proof (wfw_range _ _ Hs) as [Hw Rs].
  assert (0 < 2 ^ k) as HL by (apply pow2_pos; lia).
  pose proof (Z.mod_pos_bound (wn v - wn (wstart i)) (2 ^ w) ltac:(apply pow2_pos; lia)) as Rd.
  rewrite <- DE.
  replace ((wn v mod 2 ^ k - wn (wstart i) mod 2 ^ k) mod 2 ^ k)
    with ((wn v - wn (wstart i)) mod 2 ^ w) ; [exact Gv|].
  rewrite <- Zminus_mod. rewrite <- (mod_mod_pow2 (wn v - wn (wstart i)) k w) by lia.
  symmetry. apply Z.mod_small. lia.
Qed.


Lemma shl_k_sound w a kk v : iwf w a -> gamma w a v -> wfw w kk -> 1 <= wn kk < 64 ->
  exists q r, wi_shl_k a (wn kk) = Some q /\ iwf w q /\ wshl v kk = Some r /\ gamma w q r.
Proof.
  intros Wa Ga Hk K. assert (wfw w v) as Hv by apply Ga.
  destruct (wshl_val w v kk Hv Hk ltac:(lia)) as (r & Er & Hr & Vr).
  unfold wi_shl_k. destruct (is_bottom a) eqn:Ba; [elim (gamma_bot w a v Ba Ga)|].
  destruct (is_top a) eqn:Ta.
  { exists a, r. split; [reflexivity|]. split; [exact Wa|]. split; [exact Er|]. apply gamma_top; assumption. }
  pose proof (range_nt_of w a Wa Ba Ta) as R. pose proof R as (B & _ & Hs & He).
  pose proof (wfw_range _ _ Hs) as [Hw Rs].
  assert (get_bitwidth (wstart a) = w) as -> by apply Hs.
  assert (0 < 2 ^ w) as HM by (apply pow2_pos; lia).
  destruct (Z.leb_spec w (wn kk)) as [KW|KW].
  - (* everything is shifted out *)
    destruct (wmk_val_small 0 w Hw ltac:(lia)) as [Hz Vz].
    exists (wi_single (wmk 0 w)), r. split; [reflexivity|]. split; [apply iwf_mk; assumption|].
    split; [exact Er|].
    assert (r = wmk 0 w) as ->; [|apply singleton_sound; exact Hz].
    apply wrapint_eq; [destruct Hr as [_ ->]; destruct Hz as [_ ->]; reflexivity|].
    rewrite Vr, Vz. replace (wn kk) with (w + (wn kk - w)) by lia. rewrite Z.pow_add_r by lia.
    replace (wn v * (2 ^ w * 2 ^ (wn kk - w))) with (wn v * 2 ^ (wn kk - w) * 2 ^ w) by ring.
    apply Z.mod_mul. lia.
  - destruct (trunc_range w a (w - wn kk) R ltac:(lia)) as (y & Ey & Cy). rewrite Ey. cbn [obind].
    destruct (is_top y) eqn:Ty; cbn [negb].
    { exists wi_top, r. split; [reflexivity|]. split; [apply iwf_top|]. split; [exact Er|].
      apply gamma_top; [reflexivity|exact Hr]. }
    destruct Cy as [->|(ls & le & _ & _ & _ & _ & _ & DL & _)]; [discriminate|].
    rewrite (wmk_amount w kk Hk).
    destruct (wshl_val w _ kk Hs Hk ltac:(lia)) as (lo & Elo & Hlo & Vlo).
    destruct (wshl_val w _ kk He Hk ltac:(lia)) as (hi & Ehi & Hhi & Vhi).
    rewrite Elo, Ehi. cbn [obind]. exists (wi_mk lo hi), r. split; [reflexivity|].
    split; [apply iwf_mk; assumption|]. split; [exact Er|].
    apply gamma_mk; try assumption. rewrite Vr, Vlo, Vhi.
    pose proof (gamma_range w a v B Ta Hs He Ga) as Gv.
    pose proof (Z.mod_pos_bound (wn v - wn (wstart a)) (2 ^ w) HM) as Rd.
    pose proof (Z.mod_pos_bound (wn (wend a) - wn (wstart a)) (2 ^ w) HM) as RD.
    assert (0 < 2 ^ wn kk) as HK by (apply pow2_pos; lia).
    assert (2 ^ w = 2 ^ (w - wn kk) * 2 ^ wn kk) as EM by (rewrite <- Z.pow_add_r by lia; f_equal; lia).
    assert (forall p, ((p * 2 ^ wn kk) mod 2 ^ w - (wn (wstart a) * 2 ^ wn kk) mod 2 ^ w) mod 2 ^ w =
                      ((p - wn (wstart a)) mod 2 ^ w * 2 ^ wn kk) mod 2 ^ w) as X.
    { intros p. rewrite <- Zminus_mod, <- Z.mul_sub_distr_r, Zmult_mod_idemp_l. reflexivity. }
    rewrite !X.
    set (d := (wn v - wn (wstart a)) mod 2 ^ w) in *. set (D := (wn (wend a) - wn (wstart a)) mod 2 ^ w) in *.
    rewrite (Z.mod_small (d * 2 ^ wn kk)), (Z.mod_small (D * 2 ^ wn kk)) by nia. nia.
Qed.

Theorem shl_sound w a x v kk : iwf w a -> iwf w x -> gamma w a v -> gamma w x kk -> 1 <= wn kk < 64 ->
  exists q r, wi_shl a x = Some q /\ iwf w q /\ wshl v kk = Some r /\ gamma w q r.
Proof.
  intros Wa Wx Ga Gx K. unfold wi_shl.
  destruct (is_bottom a) eqn:Ba; [elim (gamma_bot w a v Ba Ga)|].
  destruct (is_singleton x) eqn:S.
  - rewrite <- (single_member w x kk Wx S Gx). unfold get_uint64_t. apply shl_k_sound; try assumption. apply Gx.
  - destruct (wshl_val w v kk (proj1 Ga) (proj1 Gx) ltac:(lia)) as (r & Er & Hr & _).
    exists wi_top, r. split; [reflexivity|]. split; [apply iwf_top|]. split; [exact Er|].
    apply gamma_top; [reflexivity|exact Hr].
Qed.

(* ---------------------------------------------------------------- extensions *)


Lemma wzext_val w a k : wfw w a -> 0 <= k -> w + k <= 64 ->
  exists r, wzext a k = Some r /\ wfw (w + k) r /\ wn r = wn a.
Proof.
  intros [Wa Ea] Hk L. pose proof (wzext_spec a k Wa Hk) as S. rewrite Ea in S.
  destruct (wzext a k) as [r|]; [|lia]. destruct S as (_ & Wr & Er & Vr).
  exists r. split; [reflexivity|]. split; [split; assumption|exact Vr].
Qed.
Lemma wsext_val w a k : wfw w a -> 0 <= k -> w + k <= 64 ->
  exists r, wsext a k = Some r /\ wfw (w + k) r /\ wn r = to_sZ a mod 2 ^ (w + k).
Proof.
  intros [Wa Ea] Hk L. pose proof (wsext_spec a k Wa Hk) as S. rewrite Ea in S.
  destruct (wsext a k) as [r|]; [|lia]. destruct S as (_ & Wr & Er & Vr).
  exists r. split; [reflexivity|]. split; [split; assumption|exact Vr].
Qed.

Section ExtFold.
  Variable w k : Z.
  Variable ext : wrapint -> Z -> option wrapint.
  Variable P : witv -> Prop.
  Hypothesis piece_sound : forall p, P p ->
    is_bottom p = false /\ is_top p = false /\
    exists lo hi, ext (wstart p) k = Some lo /\ ext (wend p) k = Some hi /\
                  wfw (w + k) lo /\ wfw (w + k) hi /\
                  forall v, gamma w p v -> exists r, ext v k = Some r /\ gamma (w + k) (wi_mk lo hi) r.

  Lemma ext_pieces_spec l : Forall P l -> forall res, iwf (w + k) res ->
    exists res', ext_pieces ext k l res = Some res' /\ iwf (w + k) res' /\
      (forall r, gamma (w + k) res r -> gamma (w + k) res' r) /\
      (forall v, Exists (fun p => gamma w p v) l -> exists r, ext v k = Some r /\ gamma (w + k) res' r).
  Proof.
    intros F. induction F as [|p l Pp F IH]; intros res Wr; cbn [ext_pieces].
    - exists res. split; [reflexivity|]. split; [exact Wr|]. split; [auto|]. intros v E. inversion E.
    - destruct (piece_sound p Pp) as (B & T & lo & hi & Elo & Ehi & Hlo & Hhi & S). rewrite B, T. cbn [orb].
      rewrite Elo, Ehi. cbn [obind].
      pose proof (iwf_mk (w + k) lo hi Hlo Hhi) as Wp.
      destruct (IH _ (iwf_join (w + k) res _ Wr Wp)) as (res' & E' & W' & M' & S').
      exists res'. split; [exact E'|]. split; [exact W'|]. split.
      + intros r G. apply M'. apply join_sound; auto.
      + intros v E. inversion E as [? ? G|? ? E2]; subst.
        * destruct (S v G) as (r & Er & Gr). exists r. split; [exact Er|]. apply M'. apply join_sound; auto.
        * apply S'. exact E2.
  Qed.
End ExtFold.

Lemma unsigned_split_nt w i : range_nt w i ->
  exists l, unsigned_split i = Some l /\ Forall (fun p => sfree w p /\ is_top p = false) l /\
            (forall v, gamma w i v -> existsb (inp (wn v)) l = true).
Proof.
  intros R. destruct (unsigned_split_spec w i R) as (l & E & F & C). exists l. split; [exact E|]. split; [|exact C].
  rewrite (unsigned_split_range w i R) in E. pose proof R as (B & T & Hs & He).
  pose proof (wfw_range _ _ Hs) as [Hw Rs]. pose proof (wfw_range _ _ He) as [_ Re].
  destruct (umax_val w Hw) as [Hmax Vmax]. destruct (umin_val w Hw) as [Hmin Vmin].
  destruct (Z.leb_spec (wn (wstart i)) (wn (wend i))) as [L|L]; inversion E; subst l.
  - inversion F; subst. constructor; [split; assumption|constructor].
  - inversion F as [|? ? F1 F']; subst. inversion F' as [|? ? F2 _]; subst.
    constructor; [split; [exact F1|]|constructor; [split; [exact F2|]|constructor]];
      rewrite (is_top_cmp w) by (try reflexivity; assumption); cbn [wi_mk wstart wend];
      rewrite ?Vmax, ?Vmin; dec_all.
Qed.

Theorem zext_sound w i k v : iwf w i -> is_top i = false -> gamma w i v -> 0 <= k -> w + k <= 64 ->
  exists q r, wi_zext i k = Some q /\ iwf (w + k) q /\ wzext v k = Some r /\ gamma (w + k) q r.
Proof.
  intros Wi Ti G Hk L. assert (wfw w v) as Hv by apply G.
  destruct (is_bottom i) eqn:Bi; [elim (gamma_bot w i v Bi G)|].
  pose proof (range_nt_of w i Wi Bi Ti) as R.
  destruct (unsigned_split_nt w i R) as (l & El & Fl & Cl).
  unfold wi_zext. rewrite El. cbn [obind].
  destruct (ext_pieces_spec w k wzext (fun p => sfree w p /\ is_top p = false)) with (l := l) (res := wi_bottom)
    as (q & Eq & Wq & _ & Sq).
  - intros p [Fp Tp]. pose proof Fp as (Bp & Hs & He & Lp).
    split; [exact Bp|]. split; [exact Tp|].
    destruct (wzext_val w _ k Hs Hk L) as (lo & Elo & Hlo & Vlo).
    destruct (wzext_val w _ k He Hk L) as (hi & Ehi & Hhi & Vhi).
    exists lo, hi. split; [exact Elo|]. split; [exact Ehi|]. split; [exact Hlo|]. split; [exact Hhi|].
    intros u Gu. destruct (wzext_val w u k (proj1 Gu) Hk L) as (r & Er & Hr & Vr).
    exists r. split; [exact Er|]. apply gamma_mk_le; try assumption. rewrite Vlo, Vhi, Vr.
    apply (sfree_bounds w p u Fp Gu).
  - exact Fl.
  - apply iwf_bottom.
  - destruct (Sq v) as (r & Er & Gr).
    + apply (exists_of_existsb w); [exact Hv| |apply Cl; exact G].
      eapply Forall_impl; [|exact Fl]. intros p [(A & B & C & _) _]. auto.
    + exists q, r. auto.
Qed.

Theorem sext_sound w i k v : iwf w i -> is_top i = false -> gamma w i v -> 0 <= k -> w + k <= 64 ->
  exists q r, wi_sext i k = Some q /\ iwf (w + k) q /\ wsext v k = Some r /\ gamma (w + k) q r.
Proof.
  intros Wi Ti G Hk L. assert (wfw w v) as Hv by apply G.
  destruct (is_bottom i) eqn:Bi; [elim (gamma_bot w i v Bi G)|].
  pose proof (range_nt_of w i Wi Bi Ti) as R.
  destruct (signed_split_spec w i R) as (l & El & F1 & F2 & Cl).
  unfold wi_sext. rewrite El. cbn [obind].
  destruct (ext_pieces_spec w k wsext (fun p => range_nt w p /\ cross_north w p = false)) with (l := l) (res := wi_bottom)
    as (q & Eq & Wq & _ & Sq).
  - intros p [Rp Cp]. pose proof Rp as (Bp & Tp & Hs & He).
    split; [exact Bp|]. split; [exact Tp|].
    destruct (wsext_val w _ k Hs Hk L) as (lo & Elo & Hlo & Vlo).
    destruct (wsext_val w _ k He Hk L) as (hi & Ehi & Hhi & Vhi).
    exists lo, hi. split; [exact Elo|]. split; [exact Ehi|]. split; [exact Hlo|]. split; [exact Hhi|].
    intros u Gu. destruct (wsext_val w u k (proj1 Gu) Hk L) as (r & Er & Hr & Vr).
    exists r. split; [exact Er|]. apply gamma_mk; try assumption. rewrite Vlo, Vhi, Vr.
    pose proof (signed_bounds w p u Rp Cp Gu) as Bu.
    pose proof (to_sZ_range _ (proj1 Hs)) as R1. pose proof (to_sZ_range _ (proj1 He)) as R2.
    pose proof (wfw_range _ _ Hs) as [Hw _].
    destruct Hs as [_ Es]. destruct He as [_ Ee]. rewrite Es in R1. rewrite Ee in R2.
    destruct (half_pow w ltac:(lia)) as [M2 HP].
    assert (2 ^ w <= 2 ^ (w + k)) by (apply Z.pow_le_mono_r; lia).
    apply interval_mod_Z; [apply pow2_pos; lia|exact Bu|lia].
  - clear - F1 F2. induction F1; inversion F2; subst; constructor; auto.
  - apply iwf_bottom.
  - destruct (Sq v) as (r & Er & Gr).
    + apply (exists_of_existsb w); [exact Hv| |apply Cl; exact G].
      eapply Forall_impl; [|exact F1]. intros p (A & _ & B & C). auto.
    + exists q, r. auto.
Qed.

(* ---------------------------------------------------------------- conversions, half lines, trimming *)


(* to_interval: the signed readings of the members lie between the bounds *)
Theorem to_interval_sound w i v : iwf w i -> gamma w i v ->
  match wi_to_interval i with
  | Some IVBot => False
  | Some IVTop => True
  | Some (IVRange l u) => l <= to_sZ v <= u
  | None => False
  end.
Proof.
  intros Wi G. unfold wi_to_interval.
  destruct (is_bottom i) eqn:Bi; [exact (gamma_bot w i v Bi G)|].
  destruct (is_top i) eqn:Ti; [exact I|].
  pose proof (range_nt_of w i Wi Bi Ti) as R. pose proof R as (_ & _ & Hs & He).
  rewrite (cross_signed_limit_val w i R). cbn [obind].
  destruct (cross_north w i) eqn:CN; [exact I|].
  rewrite !get_signed_bignum_spec by (apply Hs || apply He).
  exact (signed_bounds w i v R CN G).
Qed.

Theorem lower_half_line_signed_sound w i v u : iwf w i -> gamma w i v -> wfw w u -> to_sZ u <= to_sZ v ->
  gamma w (wi_lower_half_line i true) u.
Proof.
  intros Wi G Hu L. unfold wi_lower_half_line.
  destruct (is_top i) eqn:Ti; [apply gamma_top; assumption|].
  destruct (is_bottom i) eqn:Bi; [elim (gamma_bot w i v Bi G)|]. cbn [orb].
  pose proof (range_nt_of w i Wi Bi Ti) as R. pose proof R as (B & _ & Hs & He).
  pose proof (wfw_range _ _ Hs) as [Hw Rs]. pose proof (wfw_range _ _ He) as [_ Re].
  assert (get_bitwidth (wstart i) = w) as -> by apply Hs.
  destruct (smax_val w Hw) as [Hmax Vmax]. destruct (smin_val w Hw) as [Hmin Vmin].
  rewrite (at_inb w) by assumption. rewrite Vmax.
  pose proof (gamma_inb w i v B Ti Hs He G) as Iv.
  destruct (inb _ _ (2 ^ (w - 1) - 1)) eqn:AT; [apply gamma_top; [reflexivity|exact Hu]|].
  apply gamma_mk_inb; try assumption. rewrite Vmin.
  pose proof (wfw_range _ _ Hu) as [_ Ru]. pose proof (wfw_range _ _ (proj1 G)) as [_ Rv].
  rewrite (to_sZ_val w _ Hu), (to_sZ_val w _ (proj1 G)) in L.
  destruct (half_pow w ltac:(lia)) as [M2 HP]. unfold inb in *. clear Ti. dec_all.
Qed.

Theorem lower_half_line_unsigned_sound w i v u : iwf w i -> gamma w i v -> wfw w u -> wn u <= wn v ->
  gamma w (wi_lower_half_line i false) u.
Proof.
  intros Wi G Hu L. unfold wi_lower_half_line.
  destruct (is_top i) eqn:Ti; [apply gamma_top; assumption|].
  destruct (is_bottom i) eqn:Bi; [elim (gamma_bot w i v Bi G)|]. cbn [orb].
  pose proof (range_nt_of w i Wi Bi Ti) as R. pose proof R as (B & _ & Hs & He).
  pose proof (wfw_range _ _ Hs) as [Hw Rs]. pose proof (wfw_range _ _ He) as [_ Re].
  assert (get_bitwidth (wstart i) = w) as -> by apply Hs.
  destruct (umax_val w Hw) as [Hmax Vmax]. destruct (umin_val w Hw) as [Hmin Vmin].
  rewrite (at_inb w) by assumption. rewrite Vmax.
  pose proof (gamma_inb w i v B Ti Hs He G) as Iv.
  destruct (inb _ _ (2 ^ w - 1)) eqn:AT; [apply gamma_top; [reflexivity|exact Hu]|].
  apply gamma_mk_inb; try assumption. rewrite Vmin.
  pose proof (wfw_range _ _ Hu) as [_ Ru]. pose proof (wfw_range _ _ (proj1 G)) as [_ Rv].
  unfold inb in *. clear Ti. dec_all.
Qed.

Theorem upper_half_line_signed_sound w i v u : iwf w i -> gamma w i v -> wfw w u -> to_sZ v <= to_sZ u ->
  gamma w (wi_upper_half_line i true) u.
Proof.
  intros Wi G Hu L. unfold wi_upper_half_line.
  destruct (is_top i) eqn:Ti; [apply gamma_top; assumption|].
  destruct (is_bottom i) eqn:Bi; [elim (gamma_bot w i v Bi G)|]. cbn [orb].
  pose proof (range_nt_of w i Wi Bi Ti) as R. pose proof R as (B & _ & Hs & He).
  pose proof (wfw_range _ _ Hs) as [Hw Rs]. pose proof (wfw_range _ _ He) as [_ Re].
  assert (get_bitwidth (wstart i) = w) as -> by apply Hs.
  destruct (smax_val w Hw) as [Hmax Vmax]. destruct (smin_val w Hw) as [Hmin Vmin].
  rewrite (at_inb w) by assumption. rewrite Vmin.
  pose proof (gamma_inb w i v B Ti Hs He G) as Iv.
  destruct (inb _ _ (2 ^ (w - 1))) eqn:AT; [apply gamma_top; [reflexivity|exact Hu]|].
  apply gamma_mk_inb; try assumption. rewrite Vmax.
  pose proof (wfw_range _ _ Hu) as [_ Ru]. pose proof (wfw_range _ _ (proj1 G)) as [_ Rv].
  rewrite (to_sZ_val w _ Hu), (to_sZ_val w _ (proj1 G)) in L.
  destruct (half_pow w ltac:(lia)) as [M2 HP]. unfold inb in *. clear Ti. dec_all.
Qed.

Theorem upper_half_line_unsigned_sound w i v u : iwf w i -> gamma w i v -> wfw w u -> wn v <= wn u ->
  gamma w (wi_upper_half_line i false) u.
Proof.
  intros Wi G Hu L. unfold wi_upper_half_line.
  destruct (is_top i) eqn:Ti; [apply gamma_top; assumption|].
  destruct (is_bottom i) eqn:Bi; [elim (gamma_bot w i v Bi G)|]. cbn [orb].
  pose proof (range_nt_of w i Wi Bi Ti) as R. pose proof R as (B & _ & Hs & He).
  pose proof (wfw_range _ _ Hs) as [Hw Rs]. pose proof (wfw_range _ _ He) as [_ Re].
  assert (get_bitwidth (wstart i) = w) as -> by apply Hs.
  destruct (umax_val w Hw) as [Hmax Vmax]. destruct (umin_val w Hw) as [Hmin Vmin].
  rewrite (at_inb w) by assumption. rewrite Vmin.
  pose proof (gamma_inb w i v B Ti Hs He G) as Iv.
  destruct (inb _ _ 0) eqn:AT; [apply gamma_top; [reflexivity|exact Hu]|].
  apply gamma_mk_inb; try assumption. rewrite Vmax.
  pose proof (wfw_range _ _ Hu) as [_ Ru]. pose proof (wfw_range _ _ (proj1 G)) as [_ Rv].
  unfold inb in *. clear Ti. dec_all.
Qed.

(* trim_interval: removing a singleton bound keeps every other member *)
Lemma trim_start_Z M s e v : 0 < M -> (v - s) mod M <= (e - s) mod M -> (v - s) mod M <> 0 ->
  (v - (s + 1) mod M) mod M <= (e - (s + 1) mod M) mod M.
Proof.
  intros HM L NZ. pose proof (Z.mod_pos_bound (v - s) M HM). pose proof (Z.mod_pos_bound (e - s) M HM).
  rewrite !Zminus_mod_idemp_r.
  replace (v - (s + 1)) with ((v - s) - 1) by lia. replace (e - (s + 1)) with ((e - s) - 1) by lia.
  rewrite (Zminus_mod (v - s)), (Zminus_mod (e - s)).
  destruct (Z.eq_dec M 1) as [->|M1]; [rewrite !Z.mod_1_r; lia|].
  rewrite (Z.mod_small 1) by lia.
  rewrite (Z.mod_small ((v - s) mod M - 1)), (Z.mod_small ((e - s) mod M - 1)) by lia. lia.
Qed.
Lemma trim_end_Z M s e v : 0 < M -> (v - s) mod M <= (e - s) mod M -> (v - s) mod M <> (e - s) mod M ->
  (v - s) mod M <= ((e - 1) mod M - s) mod M.
Proof.
  intros HM L NZ. pose proof (Z.mod_pos_bound (v - s) M HM). pose proof (Z.mod_pos_bound (e - s) M HM).
  rewrite Zminus_mod_idemp_l. replace (e - 1 - s) with ((e - s) - 1) by lia.
  rewrite (Zminus_mod (e - s)).
  destruct (Z.eq_dec M 1) as [->|M1]; [rewrite !Z.mod_1_r in *; lia|].
  rewrite (Z.mod_small 1) by lia. rewrite (Z.mod_small ((e - s) mod M - 1)) by lia. lia.
Qed.

Theorem trim_interval_sound w i j v c : iwf w i -> iwf w j -> gamma w i v -> gamma w j c -> v <> c ->
  gamma w (wi_trim_interval i j) v.
Proof.
  intros Wi Wj G Gc NE. unfold wi_trim_interval.
  destruct (is_bottom i) eqn:Bi; [exact G|]. destruct (is_top i) eqn:Ti; [exact G|].
  destruct (is_singleton j) eqn:Sj; cbn [negb]; [|exact G].
  pose proof (single_member w j c Wj Sj Gc) as EC. subst c.
  pose proof (range_nt_of w i Wi Bi Ti) as R. pose proof R as (B & _ & Hs & He).
  pose proof (wfw_range _ _ Hs) as [Hw Rs].
  assert (0 < 2 ^ w) as HM by (apply pow2_pos; lia).
  pose proof (gamma_range w i v B Ti Hs He G) as Gv. assert (wfw w v) as Hv by apply G.
  assert (wfw w (wstart j)) as Hk by apply Gc.
  unfold weq.
  destruct (Z.eqb_spec (wn (wstart i)) (wn (wstart j))) as [E1|E1].
  - assert (wstart i = wstart j) as ES.
    { apply wrapint_eq; [destruct Hs as [_ ->]; destruct Hk as [_ ->]; reflexivity|exact E1]. }
    assert ((wn v - wn (wstart i)) mod 2 ^ w <> 0) as NZ.
    { intros Z0. apply NE. rewrite <- ES. apply wrapint_eq; [destruct Hs as [_ ->]; destruct Hv as [_ ->]; reflexivity|].
      pose proof (wfw_range _ _ Hv) as [_ Rv].
      destruct (msub_cases (2 ^ w) (wn v) (wn (wstart i)) Rv Rs) as [[E ?]|[E ?]]; rewrite E in Z0; lia. }
    destruct (is_singleton i) eqn:Si.
    + exfalso. unfold is_singleton in Si. apply andb_true_iff in Si. destruct Si as [_ Si].
      unfold weq in Si. apply Z.eqb_eq in Si. rewrite <- Si, Z.sub_diag, Z.mod_0_l in Gv by lia.
      pose proof (Z.mod_pos_bound (wn v - wn (wstart i)) (2 ^ w) HM). lia.
    + destruct (wpreinc_spec (wstart j) (proj1 Hk)) as (Wp & Ep & Vp). unfold to_Z, wrap in Vp.
      assert (wfw w (wpreinc (wstart j))) as Hp by (split; [exact Wp|rewrite Ep; apply Hk]).
      apply gamma_mk; try assumption. rewrite Vp. destruct Hk as [_ ->]. rewrite <- E1.
      apply trim_start_Z; assumption.
  - destruct (Z.eqb_spec (wn (wend i)) (wn (wstart j))) as [E2|E2]; [|exact G].
    assert (wend i = wstart j) as ES.
    { apply wrapint_eq; [destruct He as [_ ->]; destruct Hk as [_ ->]; reflexivity|exact E2]. }
    destruct (is_singleton i) eqn:Si.
    + exfalso. unfold is_singleton in Si. apply andb_true_iff in Si. destruct Si as [_ Si].
      unfold weq in Si. apply Z.eqb_eq in Si. lia.
    + destruct (wpredec_spec (wstart j) (proj1 Hk)) as (Wp & Ep & Vp). unfold to_Z, wrap in Vp.
      assert (wfw w (wpredec (wstart j))) as Hp by (split; [exact Wp|rewrite Ep; apply Hk]).
      apply gamma_mk; try assumption. rewrite Vp. destruct Hk as [_ ->]. rewrite <- E2.
      apply trim_end_Z; [assumption|assumption|].
      intros EQ. apply NE. rewrite <- ES.
      apply wrapint_eq; [destruct He as [_ ->]; destruct Hv as [_ ->]; reflexivity|].
      pose proof (wfw_range _ _ Hv) as [_ Rv]. pose proof (wfw_range _ _ He) as [_ Re].
      destruct (msub_cases (2 ^ w) (wn v) (wn (wstart i)) Rv Rs) as [[E ?]|[E ?]];
      destruct (msub_cases (2 ^ w) (wn (wend i)) (wn (wstart i)) Re Rs) as [[E' ?]|[E' ?]]; rewrite E, E' in EQ; lia.
Qed.

(* ---------------------------------------------------------------- membership, examples *)


(* membership in [s,e]: going clockwise from s, v is met before e *)
Theorem gamma_mk_iff w s e v : wfw w s -> wfw w e -> wfw w v ->
  (gamma w (wi_mk s e) v <-> (wn v - wn s) mod 2 ^ w <= (wn e - wn s) mod 2 ^ w).
Proof.
  intros Hs He Hv. split; [|apply gamma_mk; assumption].
  intros G. destruct (is_top (wi_mk s e)) eqn:T.
  - rewrite (is_top_range w) in T by (try reflexivity; assumption). cbn [wi_mk wstart wend] in T.
    apply Z.eqb_eq in T. rewrite T. pose proof (wfw_range _ _ Hs) as [Hw _].
    pose proof (Z.mod_pos_bound (wn v - wn s) (2 ^ w) ltac:(apply pow2_pos; lia)). lia.
  - exact (gamma_range w (wi_mk s e) v eq_refl T Hs He G).
Qed.

Theorem gamma_bottom_empty w v : ~ gamma w wi_bottom v.
Proof. apply gamma_bot. reflexivity. Qed.
Theorem gamma_top_all w v : wfw w v -> gamma w wi_top v.
Proof. apply gamma_top. reflexivity. Qed.

(* non-vacuity: an interval across the south pole, one across the north pole *)
Example gamma_example_south : gamma 8 (wi_mk (mkW 250 8) (mkW 5 8)) (mkW 2 8).
Proof. split; [split; [split; simpl; lia|reflexivity]|reflexivity]. Qed.
Example gamma_example_north : gamma 8 (wi_mk (mkW 120 8) (mkW 130 8)) (mkW 128 8).
Proof. split; [split; [split; simpl; lia|reflexivity]|reflexivity]. Qed.
Example iwf_example : iwf 8 (wi_mk (mkW 250 8) (mkW 5 8)).
Proof. apply iwf_mk; split; try reflexivity; split; simpl; lia. Qed.
Example mul_example :
  wi_mul (wi_mk (mkW 0 8) (mkW 2 8)) (wi_mk (mkW 128 8) (mkW 255 8)) = Some wi_top.
Proof. vm_compute. reflexivity. Qed.
Example udiv_example :
  exists q, wi_udiv (wi_mk (mkW 200 8) (mkW 100 8)) (wi_mk (mkW 1 8) (mkW 10 8)) = Some q /\
            wi_at q (mkW 255 8) = true /\ wi_at q (mkW 0 8) = true.
Proof. eexists. split; [vm_compute; reflexivity|]. split; reflexivity. Qed.
Example widen_example :
  wi_widen (wi_mk (mkW 3 8) (mkW 5 8)) (wi_mk (mkW 5 8) (mkW 3 8)) = Some wi_top.
Proof. vm_compute. reflexivity. Qed.


(* mk_winterval(lb, ub, width): every number of the range, modulo 2^w, is a member *)
Theorem mk_winterval2_sound lb ub w r : mk_winterval2 lb ub w = Some r ->
  forall z x, lb <= z <= ub -> of_z z w = Some x -> gamma w r x.
Proof.
  unfold mk_winterval2. intros R z x Hz X.
  pose proof (of_z_spec z w) as S. rewrite X in S. destruct S as (Hw & Fz & Wx & Ex & Vx).
  assert (wfw w x) as Hx by (split; assumption).
  destruct (fits_wrapint lb w) eqn:F1; cbn [negb] in R;
    [|inversion R; subst r; apply gamma_top; [reflexivity|exact Hx]].
  destruct (fits_wrapint ub w) eqn:F2; cbn [negb] in R;
    [|inversion R; subst r; apply gamma_top; [reflexivity|exact Hx]].
  apply fits_wrapint_spec in F1, F2.
  assert (valid_width w = true) as V by (apply valid_width_spec; exact Hw). rewrite V in R. cbn [negb] in R.
  destruct (umax_val w Hw) as [_ UM]. unfold get_unsigned_bignum in R. rewrite UM in R.
  destruct (Z.leb_spec (2 ^ w - 1) (ub - lb)) as [Wd|Nw];
    [inversion R; subst r; apply gamma_top; [reflexivity|exact Hx]|].
  pose proof (of_z_spec lb w) as Sl. pose proof (of_z_spec ub w) as Su.
  destruct (of_z lb w) as [l|]; [|exfalso; apply Sl; lia].
  destruct (of_z ub w) as [u|]; [|exfalso; apply Su; lia].
  cbn [obind] in R. inversion R; subst r.
  destruct Sl as (_ & _ & Wl & El & Vl). destruct Su as (_ & _ & Wu & Eu & Vu).
  apply gamma_mk; [split; assumption|split; assumption|exact Hx|].
  unfold to_Z, wrap in *. rewrite Vx, Vl, Vu.
  apply interval_mod_Z; [apply pow2_pos; lia|exact Hz|lia].
Qed.
