(* SignSound.v — concretisation of signs and soundness of every operation of Sign.v. *)
From Coq Require Import ZArith Lia Bool.
From CrabV Require Import Base.ZInf Scalar.Itv Scalar.ItvSound Scalar.Sign.
Local Open Scope Z_scope.

Definition sgamma (s : sign) (x : Z) : Prop :=
  match s with
  | SBot => False
  | SLtz => x < 0
  | SGtz => 0 < x
  | SEqz => x = 0
  | SNez => x <> 0
  | SGez => 0 <= x
  | SLez => x <= 0
  | STop => True
  end.

Lemma sgamma_bot x : ~ sgamma sg_bot x.
Proof. simpl; auto. Qed.
Lemma sgamma_top x : sgamma sg_top x.
Proof. simpl; auto. Qed.

Lemma sg_is_bot_spec s : sg_is_bot s = true <-> (forall x, ~ sgamma s x).
Proof.
  split.
  - destruct s; simpl; try discriminate; auto.
  - intros H. destruct s; simpl; auto; exfalso.
    + apply (H (-1)); simpl; lia.
    + apply (H 1); simpl; lia.
    + apply (H 0); simpl; lia.
    + apply (H 1); simpl; lia.
    + apply (H 0); simpl; lia.
    + apply (H 0); simpl; lia.
    + apply (H 0); simpl; auto.
Qed.

Lemma sg_is_top_sound s x : sg_is_top s = true -> sgamma s x.
Proof. destruct s; simpl; try discriminate; auto. Qed.

Lemma sg_const_sound c : sgamma (sg_const c) c.
Proof.
  unfold sg_const. destruct (Z.eqb_spec c 0). simpl; auto.
  destruct (Z.ltb_spec c 0); simpl; lia.
Qed.

Lemma sg_eq_spec a b : sg_eq a b = true <-> a = b.
Proof. destruct a, b; simpl; split; intros; try discriminate; auto. Qed.

Lemma sg_leq_sound a b : sg_leq a b = true -> forall x, sgamma a x -> sgamma b x.
Proof. destruct a, b; simpl; intros H x; try discriminate; try lia; auto. Qed.

Lemma sg_leq_complete a b : (forall x, sgamma a x -> sgamma b x) -> sg_leq a b = true.
Proof.
  intros H. pose proof (H (-1)) as H1. pose proof (H 0) as H2. pose proof (H 1) as H3.
  destruct a, b; simpl in *; first [reflexivity | exfalso; intuition lia].
Qed.

Lemma sg_leq_refl a : sg_leq a a = true.
Proof. destruct a; reflexivity. Qed.

Lemma sg_join_sound a b x : sgamma a x \/ sgamma b x -> sgamma (sg_join a b) x.
Proof. destruct a, b; simpl; intros [H|H]; try lia; auto. Qed.

(* the join is the least sign above both operands *)
Lemma sg_join_least a b c :
  sg_leq a c = true -> sg_leq b c = true -> sg_leq (sg_join a b) c = true.
Proof. destruct a, b, c; simpl; intros; try discriminate; reflexivity. Qed.

Lemma sg_meet_exact a b x : sgamma (sg_meet a b) x <-> (sgamma a x /\ sgamma b x).
Proof. destruct a, b; simpl; lia. Qed.

Lemma sg_add_sound a b x y : sgamma a x -> sgamma b y -> sgamma (sg_add a b) (x + y).
Proof. destruct a, b; simpl; intros; try lia; auto. Qed.

Lemma sg_sub_sound a b x y : sgamma a x -> sgamma b y -> sgamma (sg_sub a b) (x - y).
Proof. destruct a, b; simpl; intros; try lia; auto. Qed.

Lemma sg_mul_sound a b x y : sgamma a x -> sgamma b y -> sgamma (sg_mul a b) (x * y).
Proof. destruct a, b; simpl; intros; try nia; auto. Qed.

Lemma quot_sign x y : y <> 0 ->
  (0 <= x -> 0 < y -> 0 <= Z.quot x y) /\ (x <= 0 -> 0 < y -> Z.quot x y <= 0) /\
  (0 <= x -> y < 0 -> Z.quot x y <= 0) /\ (x <= 0 -> y < 0 -> 0 <= Z.quot x y).
Proof.
  intros Hy. repeat split; intros.
  - apply Z.quot_pos; lia.
  - replace x with (- (- x)) by lia. rewrite Z.quot_opp_l; auto.
    pose proof (Z.quot_pos (- x) y). lia.
  - replace y with (- (- y)) by lia. rewrite Z.quot_opp_r; try lia.
    pose proof (Z.quot_pos x (- y)). lia.
  - replace x with (- (- x)) by lia. replace y with (- (- y)) by lia.
    rewrite Z.quot_opp_opp; try lia. apply Z.quot_pos; lia.
Qed.

Lemma sg_div_sound a b x y :
  sgamma a x -> sgamma b y -> y <> 0 -> sgamma (sg_div a b) (Z.quot x y).
Proof.
  intros Ha Hb Hy. destruct (quot_sign x y Hy) as (Q1 & Q2 & Q3 & Q4).
  destruct a, b; simpl in *; auto; try lia; subst; rewrite ?Z.quot_0_l; auto.
Qed.

(* UDiv, SRem, URem: any result is allowed once both operands are inhabited *)
Lemma sg_default_sound a b x y (r : Z) : sgamma a x -> sgamma b y -> sgamma (sg_default a b) r.
Proof. destruct a, b; simpl; auto. Qed.

Lemma sg_and_sound a b x y : sgamma a x -> sgamma b y -> sgamma (sg_and a b) (Z.land x y).
Proof.
  destruct a, b; simpl; intros; auto; subst; rewrite ?Z.land_0_l, ?Z.land_0_r; auto.
Qed.

Lemma sg_or_sound a b x y : sgamma a x -> sgamma b y -> sgamma (sg_or a b) (Z.lor x y).
Proof.
  destruct a, b; simpl; intros; auto; subst; rewrite ?Z.lor_0_l, ?Z.lor_0_r; auto.
Qed.

Lemma sg_xor_sound a b x y : sgamma a x -> sgamma b y -> sgamma (sg_xor a b) (Z.lxor x y).
Proof.
  destruct a, b; simpl; intros; auto; subst; rewrite ?Z.lxor_0_l, ?Z.lxor_0_r; auto.
Qed.

Lemma sg_shl_sound a b x k : sgamma a x -> sgamma b k -> sgamma (sg_shift a b) (Z.shiftl x k).
Proof.
  destruct a, b; simpl; intros; auto; subst; rewrite ?Z.shiftl_0_l, ?Z.shiftl_0_r; auto.
Qed.

Lemma sg_ashr_sound a b x k : sgamma a x -> sgamma b k -> sgamma (sg_shift a b) (Z.shiftr x k).
Proof.
  destruct a, b; simpl; intros; auto; subst; rewrite ?Z.shiftr_0_l, ?Z.shiftr_0_r; auto.
Qed.

(* logical shift right: the concrete result r is the value itself when the amount is 0
   and the arithmetic shift when the value is non-negative (true for every bit width) *)
Lemma sg_lshr_sound a b x k r :
  sgamma a x -> sgamma b k -> (k = 0 -> r = x) -> (0 <= x -> r = Z.shiftr x k) ->
  sgamma (sg_shift a b) r.
Proof.
  destruct a, b; simpl; intros Ha Hb H0 H1; auto; subst;
    try (rewrite H0 by reflexivity; auto; fail);
    try (rewrite H1 by lia; rewrite ?Z.shiftr_0_l; auto; fail).
Qed.

Lemma sg_from_itv_sound i x : gamma i x -> sgamma (sg_from_itv i) x.
Proof.
  intros G. unfold sg_from_itv. rewrite (gamma_not_bot _ _ G).
  destruct (is_top i). simpl; auto.
  destruct (ileq i (imk (Fin 0) (Fin 0))) eqn:E1.
  { apply (ileq_sound _ _ E1) in G. apply gamma_imk_elim in G. destruct G. bsimp. simpl. lia. }
  destruct (ileq i (imk MInf (Fin (-1)))) eqn:E2.
  { apply (ileq_sound _ _ E2) in G. apply gamma_imk_elim in G. destruct G. bsimp. simpl. lia. }
  destruct (ileq i (imk MInf (Fin 0))) eqn:E3.
  { apply (ileq_sound _ _ E3) in G. apply gamma_imk_elim in G. destruct G. bsimp. simpl. lia. }
  destruct (ileq i (imk (Fin 1) PInf)) eqn:E4.
  { apply (ileq_sound _ _ E4) in G. apply gamma_imk_elim in G. destruct G. bsimp. simpl. lia. }
  destruct (ileq i (imk (Fin 0) PInf)) eqn:E5.
  { apply (ileq_sound _ _ E5) in G. apply gamma_imk_elim in G. destruct G. bsimp. simpl. lia. }
  simpl; auto.
Qed.

Lemma sg_to_itv_sound s x : sgamma s x -> gamma (sg_to_itv s) x.
Proof.
  destruct s; simpl; intros H; try contradiction; try apply gamma_top;
    try (apply gamma_iconst; auto; fail);
    apply gamma_imk; simpl; split; auto; apply Z.leb_le; lia.
Qed.

(* non-vacuity: 1 / 5 = 0 lies in the quotient of two positive signs (the pinned code
   answered "positive") *)
Example sg_div_example : sgamma SGtz 1 /\ sgamma SGtz 5 /\ sg_div SGtz SGtz = SGez
                         /\ sgamma (sg_div SGtz SGtz) (Z.quot 1 5).
Proof. simpl. repeat split; try lia. vm_compute. discriminate. Qed.
