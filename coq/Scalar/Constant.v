(* Constant.v — mirror model of crab::domains::constant<z_number>
   (include/crab/domains/constant.hpp, constant_impl.hpp, lib/constant.cpp: the
   z_number specialisations of SRem and of the bitwise operations).
   C++ state (m_constant, m_is_bottom): bottom = (none,true), top = (none,false),
   constant c = (c,false).  No proofs here. *)
From Coq Require Import ZArith Bool.
Local Open Scope Z_scope.

Inductive cst : Type := CBot | CTop | CVal (n : Z).

Definition ct_is_bot (x : cst) : bool := match x with CBot => true | _ => false end.
Definition ct_is_top (x : cst) : bool := match x with CTop => true | _ => false end.
Definition ct_is_const (x : cst) : bool := match x with CVal _ => true | _ => false end.

Definition ct_eq (x y : cst) : bool :=
  match x, y with
  | CBot, CBot | CTop, CTop => true
  | CVal a, CVal b => a =? b
  | _, _ => false
  end.

Definition ct_leq (x y : cst) : bool :=
  if ct_is_bot x || ct_is_top y then true
  else if ct_is_bot y || ct_is_top x then false
  else match x, y with CVal a, CVal b => a =? b | _, _ => false end.

Definition ct_join (x y : cst) : cst :=
  if ct_is_bot x || ct_is_top y then y
  else if ct_is_top x || ct_is_bot y then x
  else match x, y with CVal a, CVal b => if a =? b then x else CTop | _, _ => CTop end.

Definition ct_meet (x y : cst) : cst :=
  if ct_is_bot x || ct_is_top y then x
  else if ct_is_top x || ct_is_bot y then y
  else match x, y with CVal a, CVal b => if a =? b then x else CBot | _, _ => CBot end.

Definition ct_widen := ct_join.
Definition ct_narrow := ct_meet.

Definition ct_lift (f : Z -> Z -> Z) (x y : cst) : cst :=
  match x, y with CVal a, CVal b => CVal (f a b) | _, _ => CTop end.

Definition ct_add := ct_lift Z.add.
Definition ct_sub := ct_lift Z.sub.
Definition ct_mul := ct_lift Z.mul.

Definition ct_div_zero (y : cst) : bool := match y with CVal 0 => true | _ => false end.

Definition ct_sdiv (x y : cst) : cst := if ct_div_zero y then CBot else ct_lift Z.quot x y.
Definition ct_srem (x y : cst) : cst := if ct_div_zero y then CBot else ct_lift Z.rem x y.
Definition ct_udiv (x y : cst) : cst := if ct_div_zero y then CBot else CTop.
Definition ct_urem (x y : cst) : cst := if ct_div_zero y then CBot else CTop.

Definition ct_and := ct_lift Z.land.
Definition ct_or := ct_lift Z.lor.
Definition ct_xor := ct_lift Z.lxor.

(* z_number::operator>> = mpz_fdiv_q_2exp; computed without iterating k times *)
Definition shiftr_safe (x k : Z) : Z :=
  if Z.log2 (Z.abs x) + 1 <? k then (if x <? 0 then -1 else 0) else Z.shiftr x k.

Definition ct_shl (x y : cst) : cst :=
  match x, y with
  | CVal a, CVal k => if 0 <=? k then CVal (a * 2 ^ k) else CTop
  | _, _ => CTop
  end.

Definition ct_lshr (x y : cst) : cst :=
  match x, y with
  | CVal a, CVal k => if (0 <=? a) && (0 <=? k) then CVal (shiftr_safe a k) else CTop
  | _, _ => CTop
  end.

Definition ct_ashr (x y : cst) : cst :=
  match x, y with
  | CVal a, CVal k => if 0 <=? k then CVal (shiftr_safe a k) else CTop
  | _, _ => CTop
  end.
