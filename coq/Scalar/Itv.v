(* Itv.v — mirror model of ikos::interval<z_number>
   (include/crab/domains/interval.hpp, interval_impl.hpp, lib/interval.cpp).
   Each definition follows the C++ member of the same name decision by decision.
   No proofs here (so that the model still runs when a proof breaks). *)
From Coq Require Import ZArith Bool List.
From CrabV Require Import Base.ZInf.
Local Open Scope Z_scope.

Record itv : Type := mkI { lb : bound; ub : bound }.

(* interval<Number>::interval() : _lb(0), _ub(-1) *)
Definition ibot : itv := mkI (Fin 0) (Fin (-1)).
Definition itop : itv := mkI MInf PInf.

(* interval(bound lb, bound ub): if (lb > ub) bottom *)
Definition imk (l u : bound) : itv := if bgt l u then ibot else mkI l u.
Definition iconst (n : Z) : itv := mkI (Fin n) (Fin n).

Definition is_bot (i : itv) : bool := bgt (lb i) (ub i).
Definition is_top (i : itv) : bool := negb (b_is_finite (lb i)) && negb (b_is_finite (ub i)).

Definition ieq (a b : itv) : bool :=
  if is_bot a then is_bot b else beqb (lb a) (lb b) && beqb (ub a) (ub b).

Definition ileq (a b : itv) : bool :=
  if is_bot a then true
  else if is_bot b then false
  else ble (lb b) (lb a) && ble (ub a) (ub b).

Definition ijoin (a b : itv) : itv :=
  if is_bot a then b else if is_bot b then a
  else imk (bmin (lb a) (lb b)) (bmax (ub a) (ub b)).

Definition imeet (a b : itv) : itv :=
  if is_bot a || is_bot b then ibot
  else imk (bmax (lb a) (lb b)) (bmin (ub a) (ub b)).

Definition iwiden (a b : itv) : itv :=
  if is_bot a then b else if is_bot b then a
  else imk (if blt (lb b) (lb a) then MInf else lb a)
           (if blt (ub a) (ub b) then PInf else ub a).

(* widening_thresholds, parametric in the thresholds' get_prev / get_next *)
Definition iwiden_thr (get_prev get_next : bound -> bound) (a b : itv) : itv :=
  if is_bot a then b else if is_bot b then a
  else imk (if blt (lb b) (lb a) then get_prev (lb b) else lb a)
           (if blt (ub a) (ub b) then get_next (ub b) else ub a).

Definition inarrow (a b : itv) : itv :=
  if is_bot a || is_bot b then ibot
  else imk (if negb (b_is_finite (lb a)) && b_is_finite (lb b) then lb b else lb a)
           (if negb (b_is_finite (ub a)) && b_is_finite (ub b) then ub b else ub a).

Definition iadd (a b : itv) : itv :=
  if is_bot a || is_bot b then ibot
  else imk (badd (lb a) (lb b)) (badd (ub a) (ub b)).

Definition ineg (a : itv) : itv :=
  if is_bot a then ibot else imk (bneg (ub a)) (bneg (lb a)).

Definition isub (a b : itv) : itv :=
  if is_bot a || is_bot b then ibot
  else imk (bsub (lb a) (ub b)) (bsub (ub a) (lb b)).

Definition imul (a b : itv) : itv :=
  if is_bot a || is_bot b then ibot
  else
    let ll := bmul (lb a) (lb b) in let lu := bmul (lb a) (ub b) in
    let ul := bmul (ub a) (lb b) in let uu := bmul (ub a) (ub b) in
    imk (bmin4 ll lu ul uu) (bmax4 ll lu ul uu).

Definition isingleton (a : itv) : option Z :=
  if negb (is_bot a) && beqb (lb a) (ub a)
  then match lb a with Fin n => Some n | _ => None end
  else None.

(* operator[] *)
Definition imem (a : itv) (n : Z) : bool :=
  if is_bot a then false else ble (lb a) (Fin n) && ble (Fin n) (ub a).

Definition ilower_half (a : itv) : itv := imk MInf (ub a).
Definition iupper_half (a : itv) : itv := imk (lb a) PInf.

(* z_interval::operator/ (lib/interval.cpp).  The C++ is recursive (the divisor, then
   the dividend, are split around 0); the recursion depth is at most 3, which
   [idiv_fuel_enough] in ItvSound.v proves; out of fuel returns top. *)
Definition idiv_corners (a x : itv) : itv :=
  let ll := bdiv (lb a) (lb x) in let lu := bdiv (lb a) (ub x) in
  let ul := bdiv (ub a) (lb x) in let uu := bdiv (ub a) (ub x) in
  imk (bmin4 ll lu ul uu) (bmax4 ll lu ul uu).

Fixpoint idiv_f (fuel : nat) (a x : itv) : itv :=
  match fuel with
  | O => itop
  | S f =>
    if is_bot a || is_bot x then ibot
    else
      let generic :=
        if imem x 0 then
          ijoin (idiv_f f a (imk (lb x) (Fin (-1)))) (idiv_f f a (imk (Fin 1) (ub x)))
        else if imem a 0 then
          ijoin (ijoin (idiv_f f (imk (lb a) (Fin (-1))) x)
                       (idiv_f f (imk (Fin 1) (ub a)) x))
                (iconst 0)
        else idiv_corners a x in
      match isingleton x with
      | Some c =>
        if c =? 1 then a
        else if 0 <? c then imk (bdiv (lb a) (Fin c)) (bdiv (ub a) (Fin c))
        else if c <? 0 then imk (bdiv (ub a) (Fin c)) (bdiv (lb a) (Fin c))
        else generic
      | None => generic
      end
  end.

Definition idiv (a x : itv) : itv := idiv_f 4 a x.

Definition zabs (x : Z) := if x <? 0 then - x else x.
Definition zmax (x y : Z) := if x <=? y then y else x.

(* SRem *)
Definition isrem (a x : itv) : itv :=
  if is_bot a || is_bot x then ibot
  else match isingleton a, isingleton x with
  | Some dividend, Some divisor =>
      if divisor =? 0 then ibot else iconst (Z.rem dividend divisor)
  | _, _ =>
    match lb x, ub x with
    | Fin xl, Fin xu =>
      let m := zmax (zabs xl) (zabs xu) in
      if m =? 0 then ibot
      else if blt (lb a) (Fin 0) then
        if bgt (ub a) (Fin 0) then imk (Fin (- (m - 1))) (Fin (m - 1))
        else imk (Fin (- (m - 1))) (Fin 0)
      else imk (Fin 0) (Fin (m - 1))
    | _, _ => itop
    end
  end.

Definition iurem (a x : itv) : itv :=
  if is_bot a || is_bot x then ibot
  else match isingleton a, isingleton x with
  | Some dividend, Some divisor =>
      if divisor <? 0 then itop
      else if divisor =? 0 then ibot
      else if dividend <? 0 then imk (Fin 0) (Fin (divisor - 1))
      else iconst (Z.rem dividend divisor)
  | _, _ =>
    match lb x, ub x with
    | Fin xl, Fin xu =>
      if blt (lb x) (Fin 0) || blt (ub x) (Fin 0) then itop
      else if xu =? 0 then ibot
      else imk (Fin 0) (Fin (xu - 1))
    | _, _ => itop
    end
  end.

Definition iudiv (a x : itv) : itv :=
  if is_bot a || is_bot x then ibot else itop.

Definition iand (a x : itv) : itv :=
  if is_bot a || is_bot x then ibot
  else match isingleton a, isingleton x with
  | Some l, Some r => iconst (Z.land l r)
  | _, _ =>
    if bge (lb a) (Fin 0) && bge (lb x) (Fin 0)
    then imk (Fin 0) (bmin (ub a) (ub x))
    else itop
  end.

(* z_number::fill_ones (lib/bignums.cpp): smallest 2^k - 1 >= n, for n > 0;
   mirrored in Num/Bignum.v as a loop; here the closed form via log2. *)
Definition fill_ones (n : Z) : Z :=
  if n <=? 0 then 0 else Z.ones (Z.log2 n + 1).

Definition ior (a x : itv) : itv :=
  if is_bot a || is_bot x then ibot
  else match isingleton a, isingleton x with
  | Some l, Some r => iconst (Z.lor l r)
  | _, _ =>
    if bge (lb a) (Fin 0) && bge (lb x) (Fin 0) then
      match ub a, ub x with
      | Fin l, Fin r => imk (Fin 0) (Fin (fill_ones (if r <? l then l else r)))
      | _, _ => imk (Fin 0) PInf
      end
    else itop
  end.

Definition ixor (a x : itv) : itv :=
  if is_bot a || is_bot x then ibot
  else match isingleton a, isingleton x with
  | Some l, Some r => iconst (Z.lxor l r)
  | _, _ => ior a x
  end.

Definition ishl (a x : itv) : itv :=
  if is_bot a || is_bot x then ibot
  else match isingleton x with
  | Some k =>
    if k <? 0 then itop
    else if k <=? 128 then imul a (iconst (2 ^ k))
    else itop
  | None => itop
  end.

Definition iashr (a x : itv) : itv :=
  if is_bot a || is_bot x then ibot
  else match isingleton x with
  | Some k =>
    if k <? 0 then itop
    else if k <=? 128 then
      imk (match lb a with Fin l => Fin (Z.shiftr l k) | b => b end)
          (match ub a with Fin u => Fin (Z.shiftr u k) | b => b end)
    else itop
  | None => itop
  end.

(* z_number::operator>> on a non-negative number (mpz_fdiv_q_2exp); computed without
   iterating k times so that the model also runs on huge shift amounts (amounts of 2^64
   and more are outside the model: the C++ truncates them with mpz_get_ui). *)
Definition shiftr_nn (l k : Z) : Z := if Z.log2 l <? k then 0 else Z.shiftr l k.

Definition ilshr (a x : itv) : itv :=
  if is_bot a || is_bot x then ibot
  else match isingleton x with
  | Some k =>
    if k <? 0 then itop
    else match lb a, ub a with
      | Fin l, Fin u => if 0 <=? l then imk (Fin (shiftr_nn l k)) (Fin (shiftr_nn u k)) else itop
      | _, _ => itop
      end
  | None => itop
  end.

(* linear_interval_solver_impl::trim_interval *)
Definition itrim (i j : itv) : itv :=
  match isingleton j with
  | Some c =>
    if beqb (lb i) (Fin c) then imk (Fin (c + 1)) (ub i)
    else if beqb (ub i) (Fin c) then imk (lb i) (Fin (c - 1))
    else i
  | None => i
  end.
