(* Boolean.v — mirror model of crab::domains::boolean_value
   (include/crab/domains/boolean.hpp, lib/boolean.cpp).
   kind_t { False = 0, True = 1, Bottom = 2, Top = 3 }.  No proofs here. *)
From Coq Require Import Bool.

Inductive bv : Type := BFalse | BTrue | BBot | BTop.

Definition bv_is_bot (x : bv) : bool := match x with BBot => true | _ => false end.
Definition bv_is_top (x : bv) : bool := match x with BTop => true | _ => false end.
Definition bv_is_true (x : bv) : bool := match x with BTrue => true | _ => false end.
Definition bv_is_false (x : bv) : bool := match x with BFalse => true | _ => false end.

Definition bv_eq (x y : bv) : bool :=
  match x, y with
  | BFalse, BFalse | BTrue, BTrue | BBot, BBot | BTop, BTop => true
  | _, _ => false
  end.

Definition bv_leq (x y : bv) : bool :=
  if bv_is_bot x || bv_is_top y then true
  else match x with
       | BTop => bv_is_top y
       | BTrue => bv_is_true y || bv_is_top y
       | BFalse => bv_is_false y || bv_is_top y
       | BBot => false
       end.

Definition bv_join (x y : bv) : bv :=
  if bv_is_bot x then y else if bv_is_bot y then x
  else if bv_is_top x || bv_is_top y then BTop
  else if bv_eq x y then x else BTop.

Definition bv_meet (x y : bv) : bv :=
  if bv_is_bot x then x else if bv_is_bot y then y
  else if bv_is_top x then y else if bv_is_top y then x
  else if bv_eq x y then x else BBot.

Definition bv_widen := bv_join.
Definition bv_narrow := bv_meet.

(* the bit patterns 0 / 1 of the definite values *)
Definition bv_of_bool (b : bool) : bv := if b then BTrue else BFalse.
Definition bv_bit (x : bv) : option bool :=
  match x with BFalse => Some false | BTrue => Some true | _ => None end.

Definition bv_and (x y : bv) : bv :=
  if bv_is_bot x || bv_is_bot y then BBot
  else match bv_bit x, bv_bit y with
       | Some a, Some b => bv_of_bool (a && b)
       | _, _ => if bv_is_false x || bv_is_false y then BFalse else BTop
       end.

Definition bv_or (x y : bv) : bv :=
  if bv_is_bot x || bv_is_bot y then BBot
  else match bv_bit x, bv_bit y with
       | Some a, Some b => bv_of_bool (a || b)
       | _, _ => if bv_is_true x || bv_is_true y then BTrue else BTop
       end.

Definition bv_xor (x y : bv) : bv :=
  if bv_is_bot x || bv_is_bot y then BBot
  else match bv_bit x, bv_bit y with
       | Some a, Some b => bv_of_bool (xorb a b)
       | _, _ => BTop
       end.

Definition bv_negate (x : bv) : bv :=
  match x with BBot => BBot | BTrue => BFalse | BFalse => BTrue | BTop => BTop end.
