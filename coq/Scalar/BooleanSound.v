(* BooleanSound.v — concretisation of three-valued booleans and soundness of Boolean.v. *)
From Coq Require Import Bool.
From CrabV Require Import Scalar.Boolean.

Definition bgamma (x : bv) (b : bool) : Prop :=
  match x with BBot => False | BTop => True | BTrue => b = true | BFalse => b = false end.

Lemma bgamma_bot b : ~ bgamma BBot b.
Proof. simpl; auto. Qed.
Lemma bgamma_top b : bgamma BTop b.
Proof. simpl; auto. Qed.
Lemma bgamma_of_bool b : bgamma (bv_of_bool b) b.
Proof. destruct b; reflexivity. Qed.

Lemma bv_is_bot_spec x : bv_is_bot x = true <-> (forall b, ~ bgamma x b).
Proof.
  destruct x; simpl; split; intros H; auto; try discriminate; exfalso.
  - apply (H false); auto.
  - apply (H true); auto.
  - apply (H true); auto.
Qed.
Lemma bv_is_top_spec x : bv_is_top x = true <-> (forall b, bgamma x b).
Proof.
  destruct x; simpl; split; intros H; auto; try discriminate;
    try (pose proof (H true) as A; discriminate A);
    try (pose proof (H false) as A; discriminate A); try (destruct (H true)).
Qed.

Lemma bv_leq_sound x y : bv_leq x y = true -> forall b, bgamma x b -> bgamma y b.
Proof. destruct x, y; simpl; intros H b; try discriminate; auto; try contradiction. Qed.

Lemma bv_leq_complete x y : (forall b, bgamma x b -> bgamma y b) -> bv_leq x y = true.
Proof.
  intros H. pose proof (H true) as H1. pose proof (H false) as H2.
  destruct x, y; simpl in *; auto; exfalso;
    first [ discriminate (H1 eq_refl) | discriminate (H2 eq_refl) | apply H1; auto
          | discriminate (H1 I) | discriminate (H2 I) ].
Qed.

Lemma bv_leq_refl x : bv_leq x x = true.
Proof. destruct x; reflexivity. Qed.

Lemma bv_eq_spec x y : bv_eq x y = true <-> x = y.
Proof. destruct x, y; simpl; split; intros; try discriminate; auto. Qed.

Lemma bv_join_sound x y b : bgamma x b \/ bgamma y b -> bgamma (bv_join x y) b.
Proof. destruct x, y; simpl; intros [H|H]; auto; try contradiction. Qed.

Lemma bv_join_least x y z :
  bv_leq x z = true -> bv_leq y z = true -> bv_leq (bv_join x y) z = true.
Proof. destruct x, y, z; simpl; intros; try discriminate; reflexivity. Qed.

Lemma bv_meet_exact x y b : bgamma (bv_meet x y) b <-> (bgamma x b /\ bgamma y b).
Proof. destruct x, y; simpl; try tauto; destruct b; intuition discriminate. Qed.

Lemma bv_and_sound x y a b : bgamma x a -> bgamma y b -> bgamma (bv_and x y) (a && b).
Proof. destruct x, y; simpl; intros; subst; auto; try contradiction; destruct a; auto. Qed.

Lemma bv_or_sound x y a b : bgamma x a -> bgamma y b -> bgamma (bv_or x y) (a || b).
Proof. destruct x, y; simpl; intros; subst; auto; try contradiction; destruct a; auto. Qed.

Lemma bv_xor_sound x y a b : bgamma x a -> bgamma y b -> bgamma (bv_xor x y) (xorb a b).
Proof. destruct x, y; simpl; intros; subst; auto; try contradiction. Qed.

Lemma bv_negate_sound x a : bgamma x a -> bgamma (bv_negate x) (negb a).
Proof. destruct x; simpl; intros; subst; auto. Qed.

Example bv_and_example : bv_and BFalse BTop = BFalse /\ bgamma BTop true /\ bgamma BFalse false.
Proof. repeat split. Qed.
