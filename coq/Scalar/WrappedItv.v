(* WrappedItv.v — mirror model of crab::domains::wrapped_interval<z_number>
   (include/crab/domains/wrapped_interval.hpp, wrapped_interval_impl.hpp,
   lib/wrapped_interval.cpp) over the wrapint model Num/Wrapint.v.  Each definition follows
   the C++ member of the same name decision by decision.  No proofs here.

   The model follows the code with the repairs fixes/wrapint-1..4 (wrapint) and
     5. UDiv : the operands are cut at the unsigned limit (south pole) with unsigned_split
               (the code used signed_split and was unsound for dividends across 2^w-1 -> 0)
     6. Shl(k) : k >= bitwidth returns the singleton 0 (the code called Trunc(0), a CRAB_ERROR)
     7. signed_mul : the overflow tests read the bounds as signed numbers
               (the code read them as unsigned numbers and accepted overflowing products)
     8. operator|| : the last case returns (this | x) | [x.start, x.start + delta]
               (the code returned x | [...], which can miss members of *this)
     9. mk_winterval(lb, ub, width) : top when ub - lb >= 2^width - 1
               (the code reduced the bounds modulo 2^width independently)
    10. Trunc(k) : k >= bitwidth returns *this (the code went on to ashr(k): a shift of an
               uint64_t by 64 bits at bitwidth 64, so did Shl(0), which calls Trunc(bitwidth))

   Conventions.
   - top is the interval [0,7] of bitwidth 3 (whatever the bitwidth of the other operand);
     is_top holds of every interval with end - start = 2^w - 1.
   - CRAB_ERROR and failed assertions (the library is compiled with assertions) are [None].
   - Binary operations assume that both operands have the same bitwidth unless one of them
     is top or bottom (otherwise wrapint::sanity_check_bitwidths raises CRAB_ERROR). *)
From Coq Require Import ZArith Bool List.
From CrabV Require Import Num.Wrapint.
Import ListNotations.
Local Open Scope Z_scope.

Record witv : Type := mkWI { wstart : wrapint; wend : wrapint; wbot : bool }.

Definition obind {A B : Type} (o : option A) (f : A -> option B) : option B :=
  match o with Some a => f a | None => None end.
Notation "'do' x <- o ; k" := (obind o (fun x => k))
  (at level 200, x name, o at level 100, k at level 200, right associativity).

(* wrapped_interval(start, end) / (n) / top() / bottom() *)
Definition wi_mk (s e : wrapint) : witv := mkWI s e false.
Definition wi_single (n : wrapint) : witv := mkWI n n false.
Definition wi_top : witv := mkWI (wmk 0 3) (wmk 7 3) false.
Definition wi_bottom : witv := mkWI (wmk 0 1) (wmk 0 1) true.

Definition is_bottom (i : witv) : bool := wbot i.
(* maxspan = unsigned_max(width of start); !bottom && end - start == maxspan *)
Definition is_top (i : witv) : bool :=
  negb (wbot i) && weq (wsub (wend i) (wstart i)) (get_unsigned_max (get_bitwidth (wstart i))).

(* get_bitwidth(line): CRAB_ERROR on bottom and on top *)
Definition wi_bitwidth (i : witv) : option Z :=
  if is_bottom i then None else if is_top i then None else Some (get_bitwidth (wstart i)).
(* start() / end(): CRAB_ERROR if top *)
Definition wi_start (i : witv) : option wrapint := if is_top i then None else Some (wstart i).
Definition wi_end (i : witv) : option wrapint := if is_top i then None else Some (wend i).

(* mk_winterval *)
Definition mk_winterval1 (n w : Z) : option witv :=
  if fits_wrapint n w then do x <- of_z n w; Some (wi_single x) else Some wi_top.
(* (repaired: a range with 2^width numbers or more is top) *)
Definition mk_winterval2 (lb ub w : Z) : option witv :=
  if negb (fits_wrapint lb w) then Some wi_top
  else if negb (fits_wrapint ub w) then Some wi_top
  else if negb (valid_width w) then None   (* get_unsigned_max(width): CRAB_ERROR *)
  else if get_unsigned_bignum (get_unsigned_max w) <=? ub - lb then Some wi_top
  else do l <- of_z lb w; do u <- of_z ub w; Some (wi_mk l u).

Definition is_singleton (i : witv) : bool :=
  negb (is_bottom i) && negb (is_top i) && weq (wstart i) (wend i).

(* at *)
Definition wi_at (i : witv) (x : wrapint) : bool :=
  if is_bottom i then false
  else if is_top i then true
  else wle (wsub x (wstart i)) (wsub (wend i) (wstart i)).

(* operator<= *)
Definition wi_leq (a x : witv) : bool :=
  if is_top x || is_bottom a then true
  else if is_bottom x || is_top a then false
  else if weq (wstart a) (wstart x) && weq (wend a) (wend x) then true
  else wi_at x (wstart a) && wi_at x (wend a) &&
       (negb (wi_at a (wstart x)) || negb (wi_at a (wend x))).

Definition wi_eq (a x : witv) : bool := wi_leq a x && wi_leq x a.

(* operator| *)
Definition wi_join (a x : witv) : witv :=
  if wi_leq a x then x
  else if wi_leq x a then a
  else if wi_at x (wstart a) && wi_at x (wend a) && wi_at a (wstart x) && wi_at a (wend x)
  then wi_top
  else if wi_at x (wend a) && wi_at a (wstart x) then wi_mk (wstart a) (wend x)
  else if wi_at a (wend x) && wi_at x (wstart a) then wi_mk (wstart x) (wend a)
  else
    let span_a := wsub (wstart x) (wend a) in
    let span_b := wsub (wstart a) (wend x) in
    if wlt span_a span_b || (weq span_a span_b && wle (wstart a) (wstart x))
    then wi_mk (wstart a) (wend x)
    else wi_mk (wstart x) (wend a).

(* operator& (and operator&&, which calls it) *)
Definition wi_meet (a x : witv) : witv :=
  if wi_leq a x then a
  else if wi_leq x a then x
  else if wi_at x (wstart a) then
    if wi_at a (wstart x) then
      let span_a := wsub (wend a) (wstart a) in
      let span_b := wsub (wend x) (wstart x) in
      if wlt span_a span_b || (weq span_a span_b && wle (wstart a) (wstart x)) then a else x
    else if wi_at x (wend a) then a else wi_mk (wstart a) (wend x)
  else if wi_at a (wstart x) then
    if wi_at a (wend x) then x else wi_mk (wstart x) (wend a)
  else wi_bottom.

(* signed_limit (north pole) and unsigned_limit (south pole) *)
Definition signed_limit (b : Z) : witv := wi_mk (get_signed_max b) (get_signed_min b).
Definition unsigned_limit (b : Z) : witv := wi_mk (get_unsigned_max b) (get_unsigned_min b).
Definition cross_signed_limit (i : witv) : option bool :=
  do b <- wi_bitwidth i; Some (wi_leq (signed_limit b) i).
Definition cross_unsigned_limit (i : witv) : option bool :=
  do b <- wi_bitwidth i; Some (wi_leq (unsigned_limit b) i).

(* signed_split / unsigned_split: get_bitwidth is called before the is_top test, so the
   branch for top of the C++ is unreachable (top is a CRAB_ERROR) *)
Definition signed_split (i : witv) : option (list witv) :=
  if is_bottom i then Some []
  else do b <- wi_bitwidth i;
       if wi_leq (signed_limit b) i
       then Some [wi_mk (wstart i) (get_signed_max b); wi_mk (get_signed_min b) (wend i)]
       else Some [i].
Definition unsigned_split (i : witv) : option (list witv) :=
  if is_bottom i then Some []
  else do b <- wi_bitwidth i;
       if wi_leq (unsigned_limit b) i
       then Some [wi_mk (wstart i) (get_unsigned_max b); wi_mk (get_unsigned_min b) (wend i)]
       else Some [i].

Fixpoint split_all (f : witv -> option (list witv)) (l : list witv) : option (list witv) :=
  match l with
  | [] => Some []
  | p :: r => do a <- f p; do b <- split_all f r; Some (a ++ b)
  end.
Definition signed_and_unsigned_split (i : witv) : option (list witv) :=
  do ss <- signed_split i; split_all unsigned_split ss.

(* unsigned_mul *)
Definition unsigned_mul (a x : witv) : witv :=
  let b := get_bitwidth (wstart a) in
  if get_unsigned_bignum (wend a) * get_unsigned_bignum (wend x)
     - get_unsigned_bignum (wstart a) * get_unsigned_bignum (wstart x)
     <? get_unsigned_bignum (get_unsigned_max b)
  then wi_mk (wmul (wstart a) (wstart x)) (wmul (wend a) (wend x))
  else wi_top.

(* signed_mul *)
Definition signed_mul (a x : witv) : witv :=
  let msb_start := msb (wstart a) in
  let msb_end := msb (wend a) in
  let msb_x_start := msb (wstart x) in
  let msb_x_end := msb (wend x) in
  let b := get_bitwidth (wstart a) in
  let umax := get_unsigned_bignum (get_unsigned_max b) in
  let u := get_signed_bignum in   (* repaired: was get_unsigned_bignum *)
  if eqb msb_start msb_end && eqb msb_end msb_x_start && eqb msb_x_start msb_x_end then
    if negb msb_start then unsigned_mul a x
    else if u (wstart a) * u (wstart x) - u (wend a) * u (wend x) <? umax
         then wi_mk (wmul (wend a) (wend x)) (wmul (wstart a) (wstart x))
         else wi_top
  else if negb (negb (eqb msb_start msb_end) || negb (eqb msb_x_start msb_x_end)) then
    if msb_start && negb msb_x_start then
      if u (wend a) * u (wstart x) - u (wstart a) * u (wend x) <? umax
      then wi_mk (wmul (wstart a) (wend x)) (wmul (wend a) (wstart x))
      else wi_top
    else if negb msb_start && msb_x_start then
      if u (wstart a) * u (wend x) - u (wend a) * u (wstart x) <? umax
      then wi_mk (wmul (wend a) (wstart x)) (wmul (wstart a) (wend x))
      else wi_top
    else wi_top
  else wi_top.

(* exact_meet *)
Definition exact_meet (a x : witv) : list witv :=
  if is_bottom a || is_bottom x then []
  else if wi_eq a x || is_top a then [x]
  else if is_top x then [a]
  else if wi_at x (wstart a) && wi_at x (wend a) && wi_at a (wstart x) && wi_at a (wend x)
  then [wi_mk (wstart a) (wend x); wi_mk (wstart x) (wend a)]
  else if wi_at x (wstart a) && wi_at x (wend a) then [a]
  else if wi_at a (wstart x) && wi_at a (wend x) then [x]
  else if wi_at x (wstart a) && wi_at a (wend x) && negb (wi_at x (wend a)) && wi_at a (wstart x)
  then [wi_mk (wstart a) (wend x)]
  else if wi_at x (wend a) && wi_at a (wstart x) && negb (wi_at x (wstart a)) && wi_at a (wend x)
  then [wi_mk (wstart x) (wend a)]
  else [].

Definition reduced_signed_unsigned_mul (a x : witv) : list witv :=
  if is_bottom a || is_bottom x then []
  else exact_meet (signed_mul a x) (unsigned_mul a x).

Definition join_all (res : witv) (l : list witv) : witv := fold_left wi_join l res.

(* operator* *)
Definition wi_mul (a x : witv) : option witv :=
  if is_bottom a || is_bottom x then Some wi_bottom
  else if is_top a || is_top x then Some wi_top
  else
    do cuts <- signed_and_unsigned_split a;
    do x_cuts <- signed_and_unsigned_split x;
    Some (fold_left (fun res c =>
            fold_left (fun res xc => join_all res (reduced_signed_unsigned_mul c xc)) x_cuts res)
          cuts wi_bottom).

(* operator+ / operator- / unary - *)
Definition wi_add (a x : witv) : witv :=
  if is_bottom a || is_bottom x then wi_bottom
  else if is_top a || is_top x then wi_top
  else
    let x_sz := wsub (wend x) (wstart x) in
    let sz := wsub (wend a) (wstart a) in
    let one := wmk 1 (get_bitwidth x_sz) in
    if wle (wadd (wadd x_sz sz) one) x_sz then wi_top
    else wi_mk (wadd (wstart a) (wstart x)) (wadd (wend a) (wend x)).

Definition wi_neg (a : witv) : witv :=
  if is_bottom a then wi_bottom
  else if is_top a then wi_top
  else wi_mk (wneg (wend a)) (wneg (wstart a)).

Definition wi_sub (a x : witv) : witv :=
  if is_bottom a || is_bottom x then wi_bottom
  else if is_top a || is_top x then wi_top
  else
    let x_sz := wsub (wend x) (wstart x) in
    let sz := wsub (wend a) (wstart a) in
    let one := wmk 1 (get_bitwidth x_sz) in
    if wle (wadd (wadd x_sz sz) one) x_sz then wi_top
    else wi_mk (wsub (wstart a) (wend x)) (wsub (wend a) (wstart x)).

(* trim_zero *)
Definition trim_zero (i : witv) : list witv :=
  let w := get_bitwidth (wstart i) in
  let zero := wmk 0 w in
  if negb (is_bottom i) && negb (wi_eq i (wi_single zero)) then
    if weq (wstart i) zero then [wi_mk (wmk 1 w) (wend i)]
    else if weq (wend i) zero then [wi_mk (wstart i) (wmk (two64 - 1) w)]
    else if wi_at i zero then [wi_mk (wstart i) (wmk (two64 - 1) w); wi_mk (wmk 1 w) (wend i)]
    else [i]
  else [].

(* unsigned_div, signed_div (divisor without zero) *)
Definition unsigned_div (a x : witv) : option witv :=
  do l <- wudiv (wstart a) (wend x);
  do u <- wudiv (wend a) (wstart x);
  Some (wi_mk l u).

Definition signed_div (a x : witv) : option witv :=
  let msb_start := msb (wstart a) in
  let msb_x_start := msb (wstart x) in
  let b := get_bitwidth (wstart a) in
  let smin := get_signed_min b in
  let minus_one := wmk (two64 - 1) b in
  let s := wstart a in let e := wend a in let xs := wstart x in let xe := wend x in
  if eqb msb_start msb_x_start then
    if msb_start then
      if negb ((weq e smin && weq xs minus_one) || (weq s smin && weq xe minus_one))
      then do l <- wsdiv e xs; do u <- wsdiv s xe; Some (wi_mk l u)
      else Some wi_top
    else
      if negb ((weq s smin && weq xe minus_one) || (weq e smin && weq xs minus_one))
      then do l <- wsdiv s xe; do u <- wsdiv e xs; Some (wi_mk l u)
      else Some wi_top
  else
    if msb_start then
      if negb ((weq s smin && weq xs minus_one) || (weq e smin && weq xe minus_one))
      then do l <- wsdiv s xs; do u <- wsdiv e xe; Some (wi_mk l u)
      else Some wi_top
    else
      if negb ((weq e smin && weq xe minus_one) || (weq s smin && weq xs minus_one))
      then do l <- wsdiv e xe; do u <- wsdiv s xs; Some (wi_mk l u)
      else Some wi_top.

(* res = res | dividend.div(d) for every trimmed divisor d of every piece of x *)
Fixpoint div_divisors (dv : witv -> witv -> option witv) (c : witv) (ds : list witv) (res : witv)
  : option witv :=
  match ds with
  | [] => Some res
  | d :: r => do q <- dv c d; div_divisors dv c r (wi_join res q)
  end.
Fixpoint div_xcuts (dv : witv -> witv -> option witv) (c : witv) (xcuts : list witv) (res : witv)
  : option witv :=
  match xcuts with
  | [] => Some res
  | xc :: r => do res' <- div_divisors dv c (trim_zero xc) res; div_xcuts dv c r res'
  end.
Fixpoint div_cuts (dv : witv -> witv -> option witv) (cuts xcuts : list witv) (res : witv)
  : option witv :=
  match cuts with
  | [] => Some res
  | c :: r => do res' <- div_xcuts dv c xcuts res; div_cuts dv r xcuts res'
  end.

Definition wi_sdiv (a x : witv) : option witv :=
  if is_bottom a || is_bottom x then Some wi_bottom
  else if is_top a || is_top x then Some wi_top
  else
    do cuts <- signed_and_unsigned_split a;
    do x_cuts <- signed_and_unsigned_split x;
    div_cuts signed_div cuts x_cuts wi_bottom.

(* UDiv (repaired: unsigned_split) *)
Definition wi_udiv (a x : witv) : option witv :=
  if is_bottom a || is_bottom x then Some wi_bottom
  else if is_top a || is_top x then Some wi_top
  else
    do cuts <- unsigned_split a;
    do x_cuts <- unsigned_split x;
    div_cuts unsigned_div cuts x_cuts wi_bottom.

(* SRem, URem, And, Or, Xor: default_implementation *)
Definition default_implementation (a x : witv) : witv :=
  if is_bottom a || is_bottom x then wi_bottom else wi_top.

(* ZExt / SExt: pieces that are bottom or top are skipped *)
Fixpoint ext_pieces (ext : wrapint -> Z -> option wrapint) (k : Z) (l : list witv) (res : witv)
  : option witv :=
  match l with
  | [] => Some res
  | p :: r =>
    if is_bottom p || is_top p then ext_pieces ext k r res
    else do a <- ext (wstart p) k; do b <- ext (wend p) k;
         ext_pieces ext k r (wi_join res (wi_mk a b))
  end.
Definition wi_zext (i : witv) (bits_to_add : Z) : option witv :=
  do l <- unsigned_split i; ext_pieces wzext bits_to_add l wi_bottom.
Definition wi_sext (i : witv) (bits_to_add : Z) : option witv :=
  do l <- signed_split i; ext_pieces wsext bits_to_add l wi_bottom.

(* Trunc (repaired for bits_to_keep >= bitwidth) *)
Definition wi_trunc (i : witv) (bits_to_keep : Z) : option witv :=
  if is_bottom i || is_top i then Some i
  else
    let w := get_bitwidth (wstart i) in
    if w <=? bits_to_keep then Some i   (* repaired: nothing is cut off *)
    else
    let k := wmk bits_to_keep w in
    do us <- washr (wstart i) k;
    do ue <- washr (wend i) k;
    if weq us ue then
      do ls <- wkeep_lower (wstart i) bits_to_keep;
      do le <- wkeep_lower (wend i) bits_to_keep;
      if wle ls le then Some (wi_mk ls le) else Some wi_top
    else
      let y := wpreinc us in
      if weq y ue then
        do ls <- wkeep_lower (wstart i) bits_to_keep;
        do le <- wkeep_lower (wend i) bits_to_keep;
        if negb (wle ls le) then Some (wi_mk ls le) else Some wi_top
      else Some wi_top.

(* Shl(k) (repaired for k >= bitwidth), LShr(k), AShr(k) *)
Definition wi_shl_k (i : witv) (k : Z) : option witv :=
  if is_bottom i then Some i
  else if is_top i then Some i
  else
    let b := get_bitwidth (wstart i) in
    if b <=? k then Some (wi_single (wmk 0 b))
    else
      do y <- wi_trunc i (b - k);
      if negb (is_top y) then
        let wk := wmk k b in
        do s <- wshl (wstart i) wk; do e <- wshl (wend i) wk; Some (wi_mk s e)
      else Some wi_top.

Definition wi_lshr_k (i : witv) (k : Z) : option witv :=
  if is_bottom i then Some i
  else if is_top i then Some i
  else
    do c <- cross_unsigned_limit i;
    if negb c then
      let wk := wmk k (get_bitwidth (wstart i)) in
      do s <- wlshr (wstart i) wk; do e <- wlshr (wend i) wk; Some (wi_mk s e)
    else Some wi_top.

Definition wi_ashr_k (i : witv) (k : Z) : option witv :=
  if is_bottom i then Some i
  else if is_top i then Some i
  else
    do c <- cross_signed_limit i;
    if negb c then
      let wk := wmk k (get_bitwidth (wstart i)) in
      do s <- washr (wstart i) wk; do e <- washr (wend i) wk; Some (wi_mk s e)
    else Some wi_top.

(* Shl / LShr / AShr with an interval as shift amount: only singletons *)
Definition wi_shl (a x : witv) : option witv :=
  if is_bottom a then Some a
  else if is_singleton x then wi_shl_k a (get_uint64_t (wstart x)) else Some wi_top.
Definition wi_lshr (a x : witv) : option witv :=
  if is_bottom a then Some a
  else if is_singleton x then wi_lshr_k a (get_uint64_t (wstart x)) else Some wi_top.
Definition wi_ashr (a x : witv) : option witv :=
  if is_bottom a then Some a
  else if is_singleton x then wi_ashr_k a (get_uint64_t (wstart x)) else Some wi_top.

(* "1 << k" computed in type int and converted to uint64_t, as x86-64 code does it: the
   count is taken modulo 32 and the 32-bit result is sign-extended.  (For k >= 31 this is
   undefined behaviour in C++; it only affects when the widening jumps to top.) *)
Definition int_shl1_u64 (k : Z) : Z :=
  let r := Z.shiftl 1 (k mod 32) in
  if r =? 2 ^ 31 then two64 - 2 ^ 31 else r.

(* operator|| with growth_rate = 8 *)
Definition wi_widen (a x : witv) : option witv :=
  if is_bottom a then Some x
  else if is_bottom x then Some a
  else if is_top a || is_top x then Some wi_top
  else if wi_leq x a then Some a
  else
    let w := get_bitwidth (wstart x) in
    do max <- (if 3 <? w then Some (wmk (int_shl1_u64 (w - 3)) w)
               else if 4 <? w then Some (wmk (int_shl1_u64 (w - 4)) w)
               else if 1 <? w then Some (wmk (int_shl1_u64 (w - 1)) w)
               else None (* assert(w > 1) *));
    let s := wstart a in let e := wend a in
    if wge (wsub e s) max then Some wi_top
    else
      let join := wi_join a x in
      if wi_eq join (wi_mk s (wend x)) then
        let new_end := wadd (wsub (wmul e (wmk 8 w)) (wmul s (wmk 7 w))) (wmk 7 w) in
        Some (wi_join join (wi_mk s new_end))
      else if wi_eq join (wi_mk (wstart x) e) then
        let new_start := wsub (wsub (wmul s (wmk 8 w)) (wmul e (wmk 7 w))) (wmk 7 w) in
        Some (wi_join join (wi_mk new_start e))
      else if wi_at x s && wi_at x e then
        let delta := wadd (wsub (wmul e (wmk 8 w)) (wmul s (wmk 8 w))) (wmk 7 w) in
        (* repaired: was x | [x.start, x.start + delta] *)
        Some (wi_join join (wi_mk (wstart x) (wadd (wstart x) delta)))
      else Some wi_top.

(* lower_half_line / upper_half_line *)
Definition wi_lower_half_line (i : witv) (is_signed : bool) : witv :=
  if is_top i || is_bottom i then i
  else
    let b := get_bitwidth (wstart i) in
    if wi_at i (if is_signed then get_signed_max b else get_unsigned_max b) then wi_top
    else wi_mk (if is_signed then get_signed_min b else get_unsigned_min b) (wend i).
Definition wi_upper_half_line (i : witv) (is_signed : bool) : witv :=
  if is_top i || is_bottom i then i
  else
    let b := get_bitwidth (wstart i) in
    if wi_at i (if is_signed then get_signed_min b else get_unsigned_min b) then wi_top
    else wi_mk (wstart i) (if is_signed then get_signed_max b else get_unsigned_max b).

(* to_interval: bottom / top / [signed start, signed end] *)
Inductive itv_view : Type := IVBot | IVTop | IVRange (l u : Z).
Definition wi_to_interval (i : witv) : option itv_view :=
  if is_bottom i then Some IVBot
  else if is_top i then Some IVTop
  else do c <- cross_signed_limit i;
       if c then Some IVTop
       else Some (IVRange (get_signed_bignum (wstart i)) (get_signed_bignum (wend i))).

(* linear_interval_solver_impl::trim_interval (lib/wrapped_interval.cpp) *)
Definition wi_trim_interval (i j : witv) : witv :=
  if is_bottom i then i
  else if is_top i then i
  else if negb (is_singleton j) then i
  else
    let k := wstart j in
    if weq (wstart i) k then
      if is_singleton i then wi_bottom else wi_mk (wpreinc k) (wend i)
    else if weq (wend i) k then
      if is_singleton i then wi_bottom else wi_mk (wstart i) (wpredec k)
    else i.
