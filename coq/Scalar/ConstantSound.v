(* ConstantSound.v — concretisation of the constant (flat) domain and soundness of every
   operation of Constant.v. *)
From Coq Require Import ZArith Lia Bool.
From CrabV Require Import Scalar.Constant.
Local Open Scope Z_scope.

Definition ctgamma (c : cst) (x : Z) : Prop :=
  match c with CBot => False | CTop => True | CVal n => x = n end.

Lemma ctgamma_bot x : ~ ctgamma CBot x.
Proof. simpl; auto. Qed.
Lemma ctgamma_top x : ctgamma CTop x.
Proof. simpl; auto. Qed.
Lemma ctgamma_const n x : ctgamma (CVal n) x <-> x = n.
Proof. simpl; tauto. Qed.

Lemma ct_is_bot_spec c : ct_is_bot c = true <-> (forall x, ~ ctgamma c x).
Proof.
  destruct c; simpl; split; intros H; auto; try discriminate.
  - exfalso. apply (H 0). auto.
  - exfalso. apply (H n). auto.
Qed.
Lemma ct_is_top_spec c : ct_is_top c = true <-> (forall x, ctgamma c x).
Proof.
  destruct c; simpl; split; intros H; auto; try discriminate.
  - destruct (H 0).
  - pose proof (H n). pose proof (H (n + 1)). lia.
Qed.

Lemma ct_leq_sound a b : ct_leq a b = true -> forall x, ctgamma a x -> ctgamma b x.
Proof.
  destruct a, b; simpl; intros H x; try discriminate; auto; try contradiction.
  apply Z.eqb_eq in H. lia.
Qed.

Lemma ct_leq_complete a b : (forall x, ctgamma a x -> ctgamma b x) -> ct_leq a b = true.
Proof.
  destruct a, b; simpl; intros H; auto.
  - destruct (H 0 I).
  - pose proof (H n I). pose proof (H (n + 1) I). lia.
  - destruct (H n eq_refl).
  - apply Z.eqb_eq. apply (H n). auto.
Qed.

Lemma ct_leq_refl a : ct_leq a a = true.
Proof. apply ct_leq_complete; auto. Qed.

Lemma ct_eq_spec a b : ct_eq a b = true <-> a = b.
Proof.
  destruct a, b; simpl; split; intros H; try discriminate; auto.
  - apply Z.eqb_eq in H. congruence.
  - inversion H. apply Z.eqb_refl.
Qed.

Lemma ct_join_sound a b x : ctgamma a x \/ ctgamma b x -> ctgamma (ct_join a b) x.
Proof.
  unfold ct_join. destruct a, b; simpl; intros [H|H]; auto; try contradiction;
    destruct (Z.eqb_spec n n0); simpl; auto; lia.
Qed.

Lemma ct_join_least a b c :
  ct_leq a c = true -> ct_leq b c = true -> ct_leq (ct_join a b) c = true.
Proof.
  unfold ct_join, ct_leq. destruct a, b, c; simpl; intros H1 H2; try discriminate; auto;
    destruct (Z.eqb_spec n n0); simpl; auto; apply Z.eqb_eq in H1, H2; lia.
Qed.

Lemma ct_meet_exact a b x : ctgamma (ct_meet a b) x <-> (ctgamma a x /\ ctgamma b x).
Proof.
  unfold ct_meet. destruct a, b; simpl; try tauto.
  destruct (Z.eqb_spec n n0); simpl; lia.
Qed.

Lemma ct_widen_sound a b x : ctgamma a x \/ ctgamma b x -> ctgamma (ct_widen a b) x.
Proof. apply ct_join_sound. Qed.
Lemma ct_narrow_sound a b x : ctgamma a x -> ctgamma b x -> ctgamma (ct_narrow a b) x.
Proof. intros. apply ct_meet_exact; auto. Qed.

Lemma ct_lift_sound f a b x y : ctgamma a x -> ctgamma b y -> ctgamma (ct_lift f a b) (f x y).
Proof. destruct a, b; simpl; intros; auto; try contradiction. congruence. Qed.

Lemma ct_add_sound a b x y : ctgamma a x -> ctgamma b y -> ctgamma (ct_add a b) (x + y).
Proof. apply ct_lift_sound. Qed.
Lemma ct_sub_sound a b x y : ctgamma a x -> ctgamma b y -> ctgamma (ct_sub a b) (x - y).
Proof. apply ct_lift_sound. Qed.
Lemma ct_mul_sound a b x y : ctgamma a x -> ctgamma b y -> ctgamma (ct_mul a b) (x * y).
Proof. apply ct_lift_sound. Qed.

Lemma ct_div_zero_spec b y : ct_div_zero b = true -> ctgamma b y -> y = 0.
Proof. destruct b as [| |[| |]]; simpl; intros; try discriminate; auto. Qed.

Lemma ct_sdiv_sound a b x y :
  ctgamma a x -> ctgamma b y -> y <> 0 -> ctgamma (ct_sdiv a b) (Z.quot x y).
Proof.
  intros Ha Hb Hy. unfold ct_sdiv. destruct (ct_div_zero b) eqn:E.
  - elim Hy. eapply ct_div_zero_spec; eauto.
  - apply ct_lift_sound; auto.
Qed.

Lemma ct_srem_sound a b x y :
  ctgamma a x -> ctgamma b y -> y <> 0 -> ctgamma (ct_srem a b) (Z.rem x y).
Proof.
  intros Ha Hb Hy. unfold ct_srem. destruct (ct_div_zero b) eqn:E.
  - elim Hy. eapply ct_div_zero_spec; eauto.
  - apply ct_lift_sound; auto.
Qed.

Lemma ct_udiv_sound a b x y (r : Z) :
  ctgamma a x -> ctgamma b y -> y <> 0 -> ctgamma (ct_udiv a b) r.
Proof.
  intros Ha Hb Hy. unfold ct_udiv. destruct (ct_div_zero b) eqn:E; simpl; auto.
  elim Hy. eapply ct_div_zero_spec; eauto.
Qed.

Lemma ct_urem_sound a b x y (r : Z) :
  ctgamma a x -> ctgamma b y -> y <> 0 -> ctgamma (ct_urem a b) r.
Proof.
  intros Ha Hb Hy. unfold ct_urem. destruct (ct_div_zero b) eqn:E; simpl; auto.
  elim Hy. eapply ct_div_zero_spec; eauto.
Qed.

Lemma ct_and_sound a b x y : ctgamma a x -> ctgamma b y -> ctgamma (ct_and a b) (Z.land x y).
Proof. apply ct_lift_sound. Qed.
Lemma ct_or_sound a b x y : ctgamma a x -> ctgamma b y -> ctgamma (ct_or a b) (Z.lor x y).
Proof. apply ct_lift_sound. Qed.
Lemma ct_xor_sound a b x y : ctgamma a x -> ctgamma b y -> ctgamma (ct_xor a b) (Z.lxor x y).
Proof. apply ct_lift_sound. Qed.

Lemma shiftr_safe_eq x k : 0 <= k -> shiftr_safe x k = Z.shiftr x k.
Proof.
  intros Hk. unfold shiftr_safe.
  destruct (Z.ltb_spec (Z.log2 (Z.abs x) + 1) k) as [H|H]; auto.
  rewrite Z.shiftr_div_pow2; auto.
  assert (B : Z.abs x < 2 ^ k).
  { destruct (Z.eq_dec x 0) as [->|N]. simpl. apply Z.pow_pos_nonneg; lia.
    pose proof (Z.log2_spec (Z.abs x) ltac:(lia)) as [_ L].
    eapply Z.lt_le_trans; [exact L|]. apply Z.pow_le_mono_r; lia. }
  destruct (Z.ltb_spec x 0).
  - apply Z.div_unique with (r := x + 2 ^ k); lia.
  - symmetry. apply Z.div_small. lia.
Qed.

Lemma ct_shl_sound a b x k :
  ctgamma a x -> ctgamma b k -> 0 <= k -> ctgamma (ct_shl a b) (Z.shiftl x k).
Proof.
  destruct a, b; simpl; intros; auto; try contradiction. subst.
  destruct (Z.leb_spec 0 n0); simpl; auto. rewrite Z.shiftl_mul_pow2; auto.
Qed.

Lemma ct_ashr_sound a b x k :
  ctgamma a x -> ctgamma b k -> 0 <= k -> ctgamma (ct_ashr a b) (Z.shiftr x k).
Proof.
  destruct a, b; simpl; intros; auto; try contradiction. subst.
  destruct (Z.leb_spec 0 n0); simpl; auto. rewrite shiftr_safe_eq; auto.
Qed.

Lemma ct_lshr_sound a b x k :
  ctgamma a x -> ctgamma b k -> 0 <= k ->
  forall r, (0 <= x -> r = Z.shiftr x k) -> ctgamma (ct_lshr a b) r.
Proof.
  destruct a, b; simpl; intros Ha Hb Hk r Hr; auto; try contradiction. subst.
  destruct (Z.leb_spec 0 n); simpl; auto.
  destruct (Z.leb_spec 0 n0); simpl; auto. rewrite shiftr_safe_eq; auto.
Qed.

Example ct_sdiv_example : ctgamma (ct_sdiv (CVal (-7)) (CVal 2)) (-3) /\ ct_sdiv CTop (CVal 0) = CBot.
Proof. split; reflexivity. Qed.
