(* ItvCongruenceSound.v — the reduced product interval x congruence: the reduction keeps
   exactly the common elements, every operation is sound. *)
From Coq Require Import ZArith Lia Bool Znumtheory.
From CrabV Require Import Base.ZInf Scalar.Itv Scalar.ItvSound Scalar.Congruence
  Scalar.CongruenceSound Scalar.ItvCongruence.
Local Open Scope Z_scope.

Definition icgamma (p : ic) (x : Z) : Prop := gamma (ifst p) x /\ cgamma (isnd p) x.

Lemma icgamma_bot x : ~ icgamma ic_bot x.
Proof. intros [H _]. apply (gamma_bot _ H). Qed.
Lemma icgamma_top x : icgamma ic_top x.
Proof. split. apply gamma_top. apply cgamma_top. Qed.
Lemma icgamma_const n x : icgamma (ic_const n) x <-> x = n.
Proof.
  unfold icgamma, ic_const; simpl. rewrite gamma_iconst, cgamma_const. tauto.
Qed.

Lemma ic_is_bot_sound p x : ic_is_bot p = true -> ~ icgamma p x.
Proof.
  unfold ic_is_bot. intros H [G1 G2]. apply orb_true_iff in H. destruct H as [H|H].
  - apply (is_bot_gamma_empty _ _ H G1).
  - apply (cgamma_is_bot _ _ H G2).
Qed.

Lemma ic_is_top_sound p x : wf (ifst p) -> ic_is_top p = true -> icgamma p x.
Proof.
  unfold ic_is_top. intros W H. apply andb_true_iff in H. destruct H as [H1 H2]. split.
  - unfold is_top in H1. unfold gamma. destruct W as [W|(W1 & W2 & _)].
    + rewrite W in H1. discriminate.
    + destruct (lb (ifst p)), (ub (ifst p)); simpl in *; try discriminate; auto; congruence.
  - apply cgamma_is_top; auto.
Qed.

(* mod(a,b) is the mathematical modulo for a positive b *)
Lemma ic_mod_eq a b : 0 < b -> ic_mod a b = a mod b.
Proof.
  intros Hb. unfold ic_mod.
  pose proof (Z.quot_rem' a b) as Q.
  pose proof (Z.rem_bound_abs a b ltac:(lia)) as B.
  destruct (Z.ltb_spec (Z.rem a b) 0).
  - apply Z.mod_unique_pos with (q := Z.quot a b - 1); lia.
  - apply Z.mod_unique_pos with (q := Z.quot a b); lia.
Qed.

Lemma ic_abs_eq x : ic_abs x = Z.abs x.
Proof. unfold ic_abs. destruct (Z.ltb_spec x 0); lia. Qed.

Lemma mod_congr a m n : 0 < a -> (a | m - n) -> m mod a = n mod a.
Proof.
  intros Ha [k Hk]. replace m with (n + k * a) by lia. apply Z.mod_add. lia.
Qed.

Lemma mod_divide_sub a m : 0 < a -> (a | m - m mod a).
Proof.
  intros Ha. exists (m / a). pose proof (Z.div_mod m a ltac:(lia)). lia.
Qed.

Section RL.
  Variables (c : cg).
  Hypothesis Hc : ca c <> 0.
  Let a := Z.abs (ca c).

  Lemma R_eq l : ic_R c l = l + (cb c - l) mod a.
  Proof. unfold ic_R. rewrite ic_abs_eq, ic_mod_eq; auto. lia. Qed.
  Lemma L_eq u : ic_L c u = u - (u - cb c) mod a.
  Proof. unfold ic_L. rewrite ic_abs_eq, ic_mod_eq; auto. lia. Qed.

  Lemma R_ge l : l <= ic_R c l.
  Proof. rewrite R_eq. pose proof (Z.mod_pos_bound (cb c - l) a ltac:(lia)). lia. Qed.
  Lemma L_le u : ic_L c u <= u.
  Proof. rewrite L_eq. pose proof (Z.mod_pos_bound (u - cb c) a ltac:(lia)). lia. Qed.

  Lemma R_in l : (ca c | ic_R c l - cb c).
  Proof.
    rewrite R_eq. apply Z.divide_abs_l. fold a.
    replace (l + (cb c - l) mod a - cb c) with (- ((cb c - l) - (cb c - l) mod a)) by ring.
    apply Z.divide_opp_r. apply mod_divide_sub. lia.
  Qed.
  Lemma L_in u : (ca c | ic_L c u - cb c).
  Proof.
    rewrite L_eq. apply Z.divide_abs_l. fold a.
    replace (u - (u - cb c) mod a - cb c) with ((u - cb c) - (u - cb c) mod a) by ring.
    apply mod_divide_sub. lia.
  Qed.

  (* R(c,l) is the least element of c above l, L(c,u) the greatest one below u *)
  Lemma R_least l x : l <= x -> (ca c | x - cb c) -> ic_R c l <= x.
  Proof.
    intros Hl Hx. rewrite R_eq.
    assert (E : (cb c - l) mod a = (x - l) mod a).
    { apply mod_congr. lia. apply Z.divide_abs_l.
      replace (cb c - l - (x - l)) with (- (x - cb c)) by ring. apply Z.divide_opp_r; auto. }
    rewrite E. pose proof (Z.mod_le (x - l) a ltac:(lia) ltac:(lia)). lia.
  Qed.
  Lemma L_greatest u x : x <= u -> (ca c | x - cb c) -> x <= ic_L c u.
  Proof.
    intros Hu Hx. rewrite L_eq.
    assert (E : (u - cb c) mod a = (u - x) mod a).
    { apply mod_congr. lia. apply Z.divide_abs_l.
      replace (u - cb c - (u - x)) with (x - cb c) by ring. auto. }
    rewrite E. pose proof (Z.mod_le (u - x) a ltac:(lia) ltac:(lia)). lia.
  Qed.
End RL.

(* reduce() keeps every common element ... *)
Lemma ic_reduce_sound i c x : gamma i x -> cgamma c x -> icgamma (ic_reduce i c) x.
Proof.
  intros Gi Gc. unfold ic_reduce.
  rewrite (gamma_not_bot _ _ Gi). pose proof Gc as [Bc Dc]. unfold cg_is_bot. rewrite Bc. simpl.
  destruct (cg_is_top c) eqn:T.
  { destruct (isingleton i) as [n|] eqn:S.
    - split; simpl; auto. apply cgamma_const. apply (isingleton_spec _ _ S); auto.
    - split; auto. }
  destruct (Z.eqb_spec (ca c) 0) as [E|E].
  { rewrite E in Dc. apply div0_eq in Dc. assert (x = cb c) by lia. subst x.
    rewrite (ileq_complete (iconst (cb c)) i).
    - split; simpl; auto. apply gamma_iconst; auto.
    - apply wf_iconst.
    - intros y Hy. apply gamma_iconst in Hy. subst. auto. }
  destruct Gi as [G1 G2].
  destruct (lb i) as [|l|] eqn:EL, (ub i) as [|u|] eqn:EU; simpl in G1, G2; try discriminate;
    bsimp.
  - split; simpl; [|split; auto]. apply gamma_imk; simpl; split; auto.
    apply Z.leb_le. apply L_greatest; auto.
  - split; simpl; [|split; auto]. unfold gamma; rewrite EL, EU; auto.
  - pose proof (R_least c E l x G1 Dc). pose proof (L_greatest c E u x G2 Dc).
    destruct (Z.ltb_spec (ic_L c u) (ic_R c l)); [lia|].
    destruct (Z.eqb_spec (ic_R c l) (ic_L c u)) as [E2|E2].
    + assert (x = ic_R c l) by lia. subst x.
      split; simpl. apply gamma_iconst; auto. apply cgamma_const; auto.
    + split; simpl; [|split; auto]. apply gamma_imk; simpl; split; apply Z.leb_le; auto.
  - split; simpl; [|split; auto]. apply gamma_imk; simpl; split; auto.
    apply Z.leb_le. apply R_least; auto.
Qed.

(* ... and adds none *)
Lemma ic_reduce_below i c x : icgamma (ic_reduce i c) x -> gamma i x /\ cgamma c x.
Proof.
  destruct (is_bot i || cg_is_bot c) eqn:B.
  { assert (E : ic_reduce i c = ic_bot) by (unfold ic_reduce; rewrite B; reflexivity).
    rewrite E. intros H. elim (icgamma_bot _ H). }
  unfold ic_reduce. rewrite B. cbv zeta.
  apply orb_false_iff in B. destruct B as [Bi Bc]. unfold cg_is_bot in Bc.
  destruct (cg_is_top c) eqn:T.
  { destruct (isingleton i) as [n|] eqn:S; intros [G1 G2]; simpl in *; split; auto;
      apply cgamma_is_top; auto. }
  destruct (Z.eqb_spec (ca c) 0) as [E|E].
  { destruct (ileq (iconst (cb c)) i) eqn:LE.
    - intros [G1 G2]; simpl in *. split; auto. apply (ileq_sound _ _ LE); auto.
    - intros H. elim (icgamma_bot _ H). }
  assert (Hin : forall v, (ca c | v - cb c) -> cgamma c v) by (intros; split; auto).
  assert (NB : ble (lb i) (ub i) = true) by (apply is_bot_false_ble; auto).
  destruct (lb i) as [|l|] eqn:EL, (ub i) as [|u|] eqn:EU; try (simpl in NB; discriminate NB).
  - intros [G1 G2]; simpl in *. split; auto.
  - intros [G1 G2]; simpl in *. split; auto. apply gamma_imk_elim in G1. destruct G1 as [_ G1].
    bsimp. unfold gamma. rewrite EL, EU; simpl. split; auto. apply Z.leb_le.
    pose proof (L_le c E u). lia.
  - intros [G1 G2]; simpl in *. split; auto.
  - pose proof (R_ge c E l). pose proof (L_le c E u).
    destruct (Z.ltb_spec (ic_L c u) (ic_R c l)). intros H'; elim (icgamma_bot _ H').
    destruct (Z.eqb_spec (ic_R c l) (ic_L c u)) as [E2|E2].
    + intros [G1 G2]; simpl in *. apply gamma_iconst in G1. subst x. split.
      * unfold gamma. rewrite EL, EU; simpl. split; apply Z.leb_le; lia.
      * apply Hin. apply R_in; auto.
    + intros [G1 G2]; simpl in *. split; auto. apply gamma_imk_elim in G1. destruct G1 as [G1 G3].
      bsimp. unfold gamma. rewrite EL, EU; simpl. split; apply Z.leb_le; lia.
  - intros [G1 G2]; simpl in *. split; auto. apply gamma_imk_elim in G1. destruct G1 as [G1 _].
    bsimp. unfold gamma. rewrite EL, EU; simpl. split; auto. apply Z.leb_le.
    pose proof (R_ge c E l). lia.
  - intros [G1 G2]; simpl in *. split; auto.
Qed.

Lemma ic_reduce_exact i c x : icgamma (ic_reduce i c) x <-> (gamma i x /\ cgamma c x).
Proof. split. apply ic_reduce_below. intros [H1 H2]. apply ic_reduce_sound; auto. Qed.

Lemma ic_of_itv_exact i x : icgamma (ic_of_itv i) x <-> gamma i x.
Proof. unfold ic_of_itv. rewrite ic_reduce_exact. pose proof (cgamma_top x). tauto. Qed.
Lemma ic_of_cg_exact c x : icgamma (ic_of_cg c) x <-> cgamma c x.
Proof. unfold ic_of_cg. rewrite ic_reduce_exact. pose proof (gamma_top x). tauto. Qed.

(* the congruence component keeps its representation invariant *)
Lemma ic_reduce_cwf i c : cwf c -> cwf (isnd (ic_reduce i c)).
Proof.
  intros W. unfold ic_reduce.
  destruct (is_bot i || cg_is_bot c); cbv zeta.
  - simpl. apply cwf_bot.
  - destruct (cg_is_top c). destruct (isingleton i); simpl; auto using cwf_const.
    destruct (ca c =? 0). destruct (ileq _ _); simpl; auto using cwf_bot.
    destruct (lb i), (ub i); simpl; auto.
    destruct (_ <? _); simpl; auto using cwf_bot.
    destruct (_ =? _); simpl; auto using cwf_const.
Qed.

(* ------------------------------------------------------------------ operations *)

Lemma ic_lift2_sound f g (op : Z -> Z -> Z) (P : Z -> Z -> Prop) p q x y :
  (forall a b, gamma a x -> gamma b y -> P x y -> gamma (f a b) (op x y)) ->
  (forall a b, cgamma a x -> cgamma b y -> P x y -> cgamma (g a b) (op x y)) ->
  icgamma p x -> icgamma q y -> P x y -> icgamma (ic_lift f g p q) (op x y).
Proof.
  intros F G [P1 P2] [Q1 Q2] HP. unfold ic_lift. apply ic_reduce_sound; auto.
Qed.

Lemma ic_add_sound p q x y : icgamma p x -> icgamma q y -> icgamma (ic_add p q) (x + y).
Proof.
  intros. apply (ic_lift2_sound iadd cg_add Z.add (fun _ _ => True)); auto; intros.
  apply iadd_sound; auto. apply cg_add_sound; auto.
Qed.
Lemma ic_sub_sound p q x y : icgamma p x -> icgamma q y -> icgamma (ic_sub p q) (x - y).
Proof.
  intros. apply (ic_lift2_sound isub cg_sub Z.sub (fun _ _ => True)); auto; intros.
  apply isub_sound; auto. apply cg_sub_sound; auto.
Qed.
Lemma ic_mul_sound p q x y : icgamma p x -> icgamma q y -> icgamma (ic_mul p q) (x * y).
Proof.
  intros. apply (ic_lift2_sound imul cg_mul Z.mul (fun _ _ => True)); auto; intros.
  apply imul_sound; auto. apply cg_mul_sound; auto.
Qed.
Lemma ic_div_sound p q x y :
  icgamma p x -> icgamma q y -> y <> 0 -> icgamma (ic_div p q) (Z.quot x y).
Proof.
  intros. apply (ic_lift2_sound idiv cg_div Z.quot (fun _ y => y <> 0)); auto; intros.
  apply idiv_sound; auto. apply cg_div_sound; auto.
Qed.
Lemma ic_srem_sound p q x y :
  icgamma p x -> icgamma q y -> y <> 0 -> icgamma (ic_srem p q) (Z.rem x y).
Proof.
  intros. apply (ic_lift2_sound isrem cg_rem Z.rem (fun _ y => y <> 0)); auto; intros.
  apply isrem_sound; auto. apply cg_rem_sound; auto.
Qed.
Lemma ic_udiv_sound p q x y (r : Z) : icgamma p x -> icgamma q y -> icgamma (ic_udiv p q) r.
Proof.
  intros [P1 P2] [Q1 Q2]. unfold ic_udiv, ic_lift. apply ic_reduce_sound.
  eapply iudiv_sound; eauto. apply cg_udiv_sound.
Qed.
Lemma ic_urem_sound p q x x' y :
  icgamma p x -> icgamma q y -> 0 < y -> 0 <= x' -> (x' = x \/ x < 0) ->
  icgamma (ic_urem p q) (Z.rem x' y).
Proof.
  intros [P1 P2] [Q1 Q2] H1 H2 H3. unfold ic_urem, ic_lift. apply ic_reduce_sound.
  eapply iurem_sound; eauto. apply cg_urem_sound.
Qed.
Lemma ic_and_sound p q x y : icgamma p x -> icgamma q y -> icgamma (ic_and p q) (Z.land x y).
Proof.
  intros. apply (ic_lift2_sound iand cg_and Z.land (fun _ _ => True)); auto; intros.
  apply iand_sound; auto. apply cg_and_sound; auto.
Qed.
Lemma ic_or_sound p q x y : icgamma p x -> icgamma q y -> icgamma (ic_or p q) (Z.lor x y).
Proof.
  intros. apply (ic_lift2_sound ior cg_or Z.lor (fun _ _ => True)); auto; intros.
  apply ior_sound; auto. apply cg_or_sound; auto.
Qed.
Lemma ic_xor_sound p q x y : icgamma p x -> icgamma q y -> icgamma (ic_xor p q) (Z.lxor x y).
Proof.
  intros. apply (ic_lift2_sound ixor cg_xor Z.lxor (fun _ _ => True)); auto; intros.
  apply ixor_sound; auto. apply cg_xor_sound; auto.
Qed.
Lemma ic_shl_sound p q x k :
  cwf (isnd q) -> icgamma p x -> icgamma q k -> 0 <= k -> icgamma (ic_shl p q) (Z.shiftl x k).
Proof.
  intros W [P1 P2] [Q1 Q2] Hk. unfold ic_shl, ic_lift. apply ic_reduce_sound.
  apply ishl_sound; auto. apply cg_shl_sound; auto.
Qed.
Lemma ic_ashr_sound p q x k :
  icgamma p x -> icgamma q k -> 0 <= k -> icgamma (ic_ashr p q) (Z.shiftr x k).
Proof.
  intros [P1 P2] [Q1 Q2] Hk. unfold ic_ashr, ic_lift. apply ic_reduce_sound.
  apply iashr_sound; auto. apply cg_ashr_sound; auto.
Qed.
Lemma ic_lshr_sound p q x k :
  icgamma p x -> icgamma q k -> 0 <= k ->
  forall r, (0 <= x -> r = Z.shiftr x k) -> icgamma (ic_lshr p q) r.
Proof.
  intros [P1 P2] [Q1 Q2] Hk r Hr. unfold ic_lshr, ic_lift. apply ic_reduce_sound.
  eapply ilshr_sound; eauto. eapply cg_lshr_sound; eauto.
Qed.
Lemma ic_cast_sound p (r : Z) : icgamma (ic_cast p) r.
Proof. apply icgamma_top. Qed.

Lemma ic_join_sound p q x : icgamma p x \/ icgamma q x -> icgamma (ic_join p q) x.
Proof.
  intros [[H1 H2]|[H1 H2]]; unfold ic_join, ic_lift; apply ic_reduce_sound.
  apply ijoin_sound_l; auto. apply cg_join_sound_l; auto.
  apply ijoin_sound_r; auto. apply cg_join_sound_r; auto.
Qed.
Lemma ic_meet_sound p q x : icgamma p x -> icgamma q x -> icgamma (ic_meet p q) x.
Proof.
  intros [H1 H2] [H3 H4]. unfold ic_meet, ic_lift. apply ic_reduce_sound.
  apply imeet_exact; auto. apply cg_meet_sound; auto.
Qed.

(* non-vacuity: [1,10] with 4Z+3 reduces to [3,7] *)
Example ic_reduce_example :
  ic_reduce (imk (Fin 1) (Fin 10)) (cg_mk 4 3) = mkIC (imk (Fin 3) (Fin 7)) (cg_mk 4 3)
  /\ icgamma (ic_reduce (imk (Fin 1) (Fin 10)) (cg_mk 4 3)) 7.
Proof.
  split. vm_compute. reflexivity.
  apply ic_reduce_sound. apply gamma_imk. split; reflexivity.
  apply cgamma_mk. exists 1. reflexivity.
Qed.
