(* SmallRangeSound.v — concretisation of small_range and soundness of SmallRange.v.
   A small_range abstracts a *set of variables* (the variables satisfying some property)
   by its cardinality and, when the set has at most one element, by that element:
   gamma : sr -> (Z -> Prop) -> Prop, the concrete value being the set of indexes. *)
From Coq Require Import ZArith Lia Bool.
From CrabV Require Import Scalar.SmallRange.
Local Open Scope Z_scope.

Definition vset := Z -> Prop.

Definition rgamma (x : sr) (S : vset) : Prop :=
  match x with
  | RBot => False
  | RZero => forall i, ~ S i
  | ROne v => forall i, S i <-> i = v
  | RZeroOrOne v => forall i, S i -> i = v
  | RZeroOrMore => True
  | ROneOrMore => exists i, S i
  end.

Definition vempty : vset := fun _ => False.
Definition vadd (S : vset) (v : Z) : vset := fun i => S i \/ i = v.
Definition vsingle (v : Z) : vset := fun i => i = v.

Lemma rgamma_zero : rgamma RZero vempty.
Proof. intros i H; exact H. Qed.
Lemma rgamma_top S : rgamma RZeroOrMore S.
Proof. exact I. Qed.
Lemma rgamma_bot S : ~ rgamma RBot S.
Proof. auto. Qed.

(* increment(v): the variable v joins the set *)
Lemma sr_incr_sound x S v : rgamma x S -> rgamma (sr_incr x v) (vadd S v).
Proof.
  unfold vadd. destruct x; simpl; intros H; auto.
  - intros i. split. intros [A|A]; auto. elim (H i A). auto.
  - destruct (Z.eqb_spec v0 v) as [E|E]; simpl.
    + intros i. rewrite H. subst. tauto.
    + exists v. auto.
  - exists v. auto.
  - exists v. auto.
  - exists v. auto.
Qed.

Lemma sr_eq_spec x y : sr_eq x y = true <-> x = y.
Proof.
  destruct x, y; simpl; split; intros H; try discriminate; auto;
    try (apply Z.eqb_eq in H; congruence); inversion H; apply Z.eqb_refl.
Qed.

Lemma sr_leq_sound x y : sr_leq x y = true -> forall S, rgamma x S -> rgamma y S.
Proof.
  unfold sr_leq; destruct x, y; simpl; intros H S G; try discriminate; auto; try contradiction.
  - intros i A. elim (G i A).
  - destruct (Z.eqb_spec v v0) as [E|E]; simpl in H; [subst; auto | discriminate H].
  - destruct (Z.eqb_spec v v0) as [E|E]; simpl in H; [|discriminate H].
    subst. intros i A. apply G; auto.
  - exists v. apply G; auto.
  - destruct (Z.eqb_spec v v0) as [E|E]; simpl in H; [subst; auto | discriminate H].
Qed.

Lemma sr_leq_refl x : sr_leq x x = true.
Proof. unfold sr_leq. replace (sr_eq x x) with true; auto. symmetry. apply sr_eq_spec; auto. Qed.

Lemma sr_leq_bot_l x : sr_leq RBot x = true.
Proof. destruct x; reflexivity. Qed.
Lemma sr_leq_top_r x : sr_leq x RZeroOrMore = true.
Proof. destruct x; reflexivity. Qed.

Ltac sr_eqb :=
  match goal with |- context [?a =? ?b] => destruct (Z.eqb_spec a b); subst; cbn end.
Ltac sr_wit :=
  match goal with
  | G : forall i, _ <-> i = ?w |- exists _, _ => exists w; apply G; reflexivity
  end.
(* normalise the facts about the concrete set, then use them on its known members *)
Ltac sr_norm :=
  repeat match goal with
  | G : exists i, _ |- _ => destruct G as [? ?]
  | G : forall i, ?S i <-> i = ?v |- _ =>
      let H := fresh "M" in assert (H : S v) by (apply G; reflexivity);
      let H' := fresh "U" in
      assert (H' : forall i, S i -> i = v) by (intros ? ?; apply G; assumption);
      clear G
  end.
Ltac sr_use :=
  repeat match goal with
  | G : forall i, ~ ?S i, A : ?S ?j |- _ => elim (G j A)
  | G : forall i, ?S i -> i = ?v, A : ?S ?j |- _ =>
      lazymatch goal with | _ : j = v |- _ => fail | _ => pose proof (G j A) end
  end.
Ltac sr_fin :=
  sr_norm; sr_use;
  first [ lia
        | intros ? ?; sr_use; lia
        | intros ?; split;
          [ intros ?; sr_use; lia | intros ->; sr_use; try assumption; subst; assumption ] ].

Lemma sr_join_sound x y S : rgamma x S \/ rgamma y S -> rgamma (sr_join x y) S.
Proof.
  destruct x, y; cbn; intros [G|G]; auto; try contradiction; try sr_eqb; auto; try congruence;
    try (intros i A; elim (G i A); fail); try (intros i A; apply G; auto; fail);
    try sr_wit.
Qed.

Lemma sr_meet_sound x y S : rgamma x S -> rgamma y S -> rgamma (sr_meet x y) S.
Proof.
  destruct x, y; cbn; intros G1 G2; auto; try contradiction; try sr_eqb; auto; try congruence;
    sr_fin.
Qed.

(* the meet is below both operands: with [sr_meet_sound], gamma (x & y) = gamma x /\ gamma y *)
Lemma sr_meet_below x y S : rgamma (sr_meet x y) S -> rgamma x S /\ rgamma y S.
Proof.
  destruct x, y; cbn; auto; try tauto; try sr_eqb; cbn; auto; try tauto; intros G; split;
    auto; try contradiction;
    try (intros i A; elim (G i A); fail); try (intros i A; apply G; auto; fail);
    try sr_wit.
Qed.

Lemma sr_widen_sound x y S : rgamma x S \/ rgamma y S -> rgamma (sr_widen x y) S.
Proof. apply sr_join_sound. Qed.
Lemma sr_narrow_sound x y S : rgamma x S -> rgamma y S -> rgamma (sr_narrow x y) S.
Proof. apply sr_meet_sound. Qed.

Lemma sr_is_zero_sound x S : sr_is_zero x = true -> rgamma x S -> forall i, ~ S i.
Proof. destruct x; simpl; intros; try discriminate; auto. Qed.
Lemma sr_is_one_sound x S : sr_is_one x = true -> rgamma x S -> exists v, forall i, S i <-> i = v.
Proof. destruct x; simpl; intros; try discriminate. exists v; auto. Qed.

(* non-vacuity: adding 3 then 4 to the empty set *)
Example sr_incr_example :
  sr_incr (sr_incr RZero 3) 4 = ROneOrMore /\ rgamma (sr_incr (sr_incr RZero 3) 4) (vadd (vadd vempty 3) 4).
Proof. split. reflexivity. apply sr_incr_sound, sr_incr_sound, rgamma_zero. Qed.
