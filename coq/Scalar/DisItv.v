(* DisItv.v — mirror model of crab::domains::dis_interval<z_number>
   (include/crab/domains/dis_interval.hpp, dis_interval_impl.hpp, lib/dis_interval.cpp),
   following the tree with fixes/scalars2-7..9 applied (normalize() with a leading top
   interval, operator<= with top operands, UDiv through interval::UDiv).

   C++ state: m_state in {BOT, FINITE, TOP} and, if FINITE, a vector of intervals which the
   constructor normalises: sorted, pairwise disjoint and non-consecutive.  The vector is a
   Coq list; loops over indexes become structural recursions.  widening_thresholds is not
   modelled (the interval widening with thresholds is parametric, see Itv.iwiden_thr).
   No proofs here. *)
From Coq Require Import ZArith Bool List.
From CrabV Require Import Base.ZInf Scalar.Itv.
Import ListNotations.
Local Open Scope Z_scope.

Inductive di : Type := DBot | DTop | DFin (l : list itv).

Definition di_is_bot (d : di) : bool := match d with DBot => true | _ => false end.
Definition di_is_top (d : di) : bool := match d with DTop => true | _ => false end.

(* are_consecutive / overlap / IsOnTheLeft *)
Definition are_consecutive (i1 i2 : itv) : bool :=
  (ble (lb i1) (lb i2) && ble (ub i1) (ub i2) && beqb (badd (ub i1) (Fin 1)) (lb i2)) ||
  (ble (lb i2) (lb i1) && ble (ub i2) (ub i1) && beqb (badd (ub i2) (Fin 1)) (lb i1)).
Definition overlap (i1 i2 : itv) : bool := negb (is_bot (imeet i1 i2)).
Definition is_on_left (i1 i2 : itv) : bool :=
  ble (ub i1) (lb i2) && negb (beqb (ub i1) (lb i2)).

(* std::sort by strictly smaller lower bound; the result of normalize() does not depend on
   the order of intervals with equal lower bounds, here: insertion sort *)
Definition lb_lt (a b : itv) : bool := ble (lb a) (lb b) && negb (beqb (lb a) (lb b)).
Fixpoint insert_lb (x : itv) (l : list itv) : list itv :=
  match l with
  | [] => [x]
  | y :: r => if lb_lt y x then y :: insert_lb x r else x :: l
  end.
Fixpoint sort_lb (l : list itv) : list itv :=
  match l with [] => [] | x :: r => insert_lb x (sort_lb r) end.

(* the inner "while (refined && res.size() > 0)" loop of normalize() and operator|;
   [res] is the result vector in reverse order (its back is the head of the list).
   Returns (res, intv, prev, skipped). *)
Fixpoint merge_back (res : list itv) (intv : itv) (prev : itv) : list itv * itv * itv * bool :=
  match res with
  | [] => ([], intv, prev, false)
  | p :: r =>
    if overlap p intv || are_consecutive p intv then merge_back r (ijoin p intv) p
    else if ileq intv p then (res, intv, p, true)
    else (res, intv, p, false)
  end.

(* the main loop of normalize(); None = a top interval was met (the result is top) *)
Fixpoint norm_loop (l : list itv) (res : list itv) (prev : itv) (bottoms : nat)
  : option (list itv * nat) :=
  match l with
  | [] => Some (rev res, bottoms)
  | intv :: tl =>
    if is_bot intv then norm_loop tl res prev (S bottoms)
    else if is_top intv then None
    else if ieq prev intv then norm_loop tl res prev bottoms
    else
      let '(res1, intv1, prev1, skipped) :=
        if is_top prev then (res, intv, prev, false) else merge_back res intv prev in
      if skipped then norm_loop tl res1 prev1 bottoms
      else if is_top intv1 then None
      else norm_loop tl (intv1 :: res1) intv1 bottoms
  end.

(* normalize(l, is_bottom): the list and the flag; an empty list with a false flag is top *)
Definition normalize (l : list itv) : list itv * bool :=
  match l with
  | [] | [_] => (l, false)
  | _ =>
    match norm_loop (sort_lb l) [] itop O with
    | None => ([], false)
    | Some (res, bottoms) => (res, Nat.eqb bottoms (length l))
    end
  end.

(* approx(list): the hull of a normalised list *)
Definition approx_list (l : list itv) : itv :=
  match l with
  | [] => itop                (* CRAB_ERROR("list should not be empty") *)
  | [x] => x
  | x :: _ => ijoin x (last l x)
  end.

Definition max_num_disjunctions : nat := 50.

(* dis_interval(list_intervals_t l, bool Normalize = true) *)
Definition di_of_list (l : list itv) : di :=
  let '(res, isbot) := normalize l in
  if isbot then DBot
  else match res with
       | [] => DTop
       | _ => if Nat.leb max_num_disjunctions (length res) then DFin [approx_list res]
              else DFin res
       end.

(* dis_interval(interval_t i) *)
Definition di_of_itv (i : itv) : di :=
  if is_top i then DTop else if is_bot i then DBot else DFin [i].

Definition di_approx (d : di) : itv :=
  match d with DBot => ibot | DTop => itop | DFin l => approx_list l end.

Definition di_singleton (d : di) : option Z := isingleton (di_approx d).

Fixpoint list_eq (l1 l2 : list itv) : bool :=
  match l1, l2 with
  | [], [] => true
  | a :: r1, b :: r2 => ieq a b && list_eq r1 r2
  | _, _ => false
  end.

Definition di_eq (a b : di) : bool :=
  match a, b with
  | DBot, DBot | DTop, DTop => true
  | DFin l1, DFin l2 => list_eq l1 l2
  | _, _ => false
  end.

(* operator<= : for every interval of the left list, scan the right list from where the
   previous scan stopped *)
Fixpoint leq_skip (a : itv) (l2 : list itv) : list itv :=
  match l2 with
  | [] => []
  | b :: r => if ileq a b then l2 else leq_skip a r
  end.
Fixpoint leq_loop (l1 l2 : list itv) : bool :=
  match l1 with
  | [] => true
  | a :: r => match leq_skip a l2 with [] => false | l2' => leq_loop r l2' end
  end.
Definition di_leq (a b : di) : bool :=
  match a, b with
  | DBot, _ => true
  | _, DBot => false
  | _, DTop => true
  | DTop, _ => false
  | DFin l1, DFin l2 => leq_loop l1 l2
  end.

(* operator| : the two-index loop; None = top.  Returns the reversed result and the
   unconsumed rests of both lists. *)
Fixpoint join_loop (l1 : list itv) : list itv -> list itv -> option (list itv * list itv * list itv) :=
  fix inner (l2 : list itv) (res : list itv) {struct l2} :=
    match l1, l2 with
    | [], _ | _, [] => Some (res, l1, l2)
    | a :: r1, b :: r2 =>
      if is_top a || is_top b then None
      else if is_bot a then join_loop r1 l2 res
      else if is_bot b then inner r2 res
      else if ieq a b then join_loop r1 r2 (a :: res)
      else if ileq a b then join_loop r1 r2 (b :: res)
      else if ileq b a then join_loop r1 r2 (a :: res)
      else if overlap a b || are_consecutive a b then join_loop r1 r2 (ijoin a b :: res)
      else if is_on_left a b then join_loop r1 l2 (a :: res)
      else inner r2 (b :: res)
    end.

(* "consume the rest of the left/right operand" *)
Fixpoint join_rest (rest : list itv) (res : list itv) : list itv :=
  match rest with
  | [] => res
  | intv :: tl =>
    let '(res1, intv1, _, skipped) := merge_back res intv intv in
    if skipped then join_rest tl res1 else join_rest tl (intv1 :: res1)
  end.

Definition di_join (a b : di) : di :=
  match a, b with
  | DBot, _ => b
  | _, DBot => a
  | DTop, _ => a
  | _, DTop => b
  | DFin l1, DFin l2 =>
    match join_loop l1 l2 [] with
    | None => DTop
    | Some (res, rest1, rest2) =>
      let res := rev (join_rest rest2 (join_rest rest1 res)) in
      match res with
      | [] => DBot
      | [x] => if is_top x then DTop else di_of_list res
      | _ => di_of_list res
      end
    end
  end.

(* operator& : all pairwise non-empty meets *)
Definition pairwise (f : itv -> itv -> itv) (l1 l2 : list itv) : list itv :=
  flat_map (fun a => map (fun b => f a b) l2) l1.

Definition di_meet (a b : di) : di :=
  match a, b with
  | DBot, _ | _, DBot => DBot
  | DTop, _ => b
  | _, DTop => a
  | DFin l1, DFin l2 =>
    match filter (fun i => negb (is_bot i)) (pairwise imeet l1 l2) with
    | [] => DBot
    | res => di_of_list res
    end
  end.

Definition di_narrow := di_meet.

Definition middle (l : list itv) : list itv := removelast (tl l).

(* widening(o, BasicWidenOp) *)
Definition di_widen (a b : di) : di :=
  match a, b with
  | DBot, _ => b
  | _, DBot => a
  | DTop, _ => a
  | _, DTop => b
  | DFin l1, DFin l2 =>
    match l1, l2 with
    | [x], [y] => di_of_itv (iwiden x y)
    | [x], _ => di_of_itv (iwiden x (approx_list l2))
    | _, [y] => di_of_itv (iwiden (approx_list l1) y)
    | x :: _, y :: _ =>
      di_of_list (iwiden x y :: middle l1 ++ middle l2 ++ [iwiden (last l1 x) (last l2 y)])
    | _, _ => DTop          (* empty lists do not occur in the FINITE state *)
    end
  end.

(* the common tail of apply_bin_op / apply_unary_op: drop bottoms, top wins *)
Fixpoint collect (l : list itv) (acc : list itv) : option (list itv) :=
  match l with
  | [] => Some (rev acc)
  | i :: r => if is_bot i then collect r acc else if is_top i then None else collect r (i :: acc)
  end.
Definition di_collect (l : list itv) : di :=
  match collect l [] with
  | None => DTop
  | Some [] => DBot
  | Some res => di_of_list res
  end.

Definition di_binop (op : itv -> itv -> itv) (shortcut_top : bool) (x y : di) : di :=
  match x, y with
  | DBot, _ | _, DBot => DBot
  | DTop, DTop => DTop
  | DFin l1, DFin l2 => di_collect (pairwise op l1 l2)
  | DFin l1, DTop => if shortcut_top then DTop else di_collect (map (fun a => op a itop) l1)
  | DTop, DFin l2 => if shortcut_top then DTop else di_collect (map (fun b => op itop b) l2)
  end.

Definition di_unop (op : itv -> itv) (x : di) : di :=
  match x with
  | DBot => DBot
  | DTop => DTop
  | DFin l => di_collect (map op l)
  end.

Definition di_add := di_binop iadd true.
Definition di_sub := di_binop isub true.
Definition di_mul := di_binop imul true.
Definition di_div := di_binop idiv false.
Definition di_udiv := di_binop iudiv false.
Definition di_srem := di_binop isrem false.
Definition di_urem := di_binop iurem false.
Definition di_and := di_binop iand false.
Definition di_or := di_binop ior false.
Definition di_xor := di_binop ixor false.
Definition di_shl := di_binop ishl false.
Definition di_lshr := di_binop ilshr false.
Definition di_ashr := di_binop iashr false.
Definition di_neg := di_unop ineg.
Definition di_lower_half := di_unop ilower_half.
Definition di_upper_half := di_unop iupper_half.

(* linear_interval_solver_impl::trim_interval (lib/dis_interval.cpp) *)
Definition di_trim (x y : di) : di :=
  if di_is_bot x then x
  else match di_singleton y with
  | None => x
  | Some c =>
    match x with
    | DFin l =>
      fold_left (fun res i =>
        if negb (ileq (iconst c) i) then di_join res (di_of_itv i)
        else if beqb (lb i) (Fin c) then di_join res (di_of_itv (imk (Fin (c + 1)) (ub i)))
        else if beqb (ub i) (Fin c) then di_join res (di_of_itv (imk (lb i) (Fin (c - 1))))
        else di_join (di_join res (di_of_itv (imk (lb i) (Fin (c - 1)))))
                     (di_of_itv (imk (Fin (c + 1)) (ub i)))) l DBot
    | _ =>
      di_join (di_join DBot (di_of_itv (ilower_half (iconst (c - 1)))))
              (di_of_itv (iupper_half (iconst (c + 1))))
    end
  end.
