(* Sign.v — mirror model of crab::domains::sign<z_number>
   (include/crab/domains/sign.hpp, sign_impl.hpp, lib/sign.cpp), following the tree with
   fixes/scalars2-5 applied (signed division may return 0).  No proofs here. *)
From Coq Require Import ZArith Bool.
From CrabV Require Import Base.ZInf Scalar.Itv.
Local Open Scope Z_scope.

(* enum class sign_interval *)
Inductive sign : Type := SBot | SLtz | SGtz | SEqz | SNez | SGez | SLez | STop.

Definition sg_bot := SBot.
Definition sg_top := STop.

(* sign(Number c) *)
Definition sg_const (c : Z) : sign :=
  if c =? 0 then SEqz else if c <? 0 then SLtz else SGtz.

Definition sg_is_bot (s : sign) : bool := match s with SBot => true | _ => false end.
Definition sg_is_top (s : sign) : bool := match s with STop => true | _ => false end.
Definition sg_is_eqz (s : sign) : bool := match s with SEqz => true | _ => false end.
Definition sg_is_nez (s : sign) : bool := match s with SNez => true | _ => false end.

Definition sg_from_itv (i : itv) : sign :=
  if is_bot i then SBot
  else if is_top i then STop
  else if ileq i (imk (Fin 0) (Fin 0)) then SEqz
  else if ileq i (imk MInf (Fin (-1))) then SLtz
  else if ileq i (imk MInf (Fin 0)) then SLez
  else if ileq i (imk (Fin 1) PInf) then SGtz
  else if ileq i (imk (Fin 0) PInf) then SGez
  else STop.

Definition sg_to_itv (s : sign) : itv :=
  match s with
  | SBot => ibot
  | STop => itop
  | SEqz => iconst 0
  | SLtz => imk MInf (Fin (-1))
  | SGtz => imk (Fin 1) PInf
  | SLez => imk MInf (Fin 0)
  | SGez => imk (Fin 0) PInf
  | SNez => itop
  end.

Definition sg_eq (a b : sign) : bool :=
  match a, b with
  | SBot, SBot | SLtz, SLtz | SGtz, SGtz | SEqz, SEqz | SNez, SNez | SGez, SGez
  | SLez, SLez | STop, STop => true
  | _, _ => false
  end.

Definition sg_leq (a b : sign) : bool :=
  if sg_is_bot a || sg_is_top b then true
  else if sg_is_bot b || sg_is_top a then false
  else match a with
       | SLtz => match b with SLtz | SLez | SNez => true | _ => false end
       | SGtz => match b with SGtz | SGez | SNez => true | _ => false end
       | SEqz => match b with SEqz | SLez | SGez => true | _ => false end
       | _ => sg_eq a b
       end.

Definition sg_join (a b : sign) : sign :=
  if sg_is_bot a || sg_is_top b then b
  else if sg_is_top a || sg_is_bot b then a
  else match a, b with
       | SLtz, SLtz => a
       | SLtz, (SGtz | SNez) => SNez
       | SLtz, (SEqz | SLez) => SLez
       | SLtz, _ => STop
       | SGtz, SGtz => a
       | SGtz, (SLtz | SNez) => SNez
       | SGtz, (SEqz | SGez) => SGez
       | SGtz, _ => STop
       | SEqz, (SLtz | SLez) => SLez
       | SEqz, (SGtz | SGez) => SGez
       | SEqz, SEqz => a
       | SEqz, _ => STop
       | SLez, (SLtz | SEqz | SLez) => a
       | SLez, _ => STop
       | SNez, (SLtz | SGtz | SNez) => a
       | SNez, _ => STop
       | SGez, (SEqz | SGtz | SGez) => a
       | SGez, _ => STop
       | _, _ => STop     (* unreachable: a is neither bottom nor top here *)
       end.

Definition sg_meet (a b : sign) : sign :=
  if sg_is_bot a || sg_is_top b then a
  else if sg_is_top a || sg_is_bot b then b
  else match a, b with
       | SLtz, SLtz => a
       | SLtz, (SGtz | SEqz | SGez) => SBot
       | SLtz, _ => SLtz
       | SGtz, SGtz => a
       | SGtz, (SLtz | SEqz | SLez) => SBot
       | SGtz, _ => SGtz
       | SEqz, (SLtz | SGtz | SNez) => SBot
       | SEqz, _ => a
       | SLez, (SLtz | SEqz | SLez) => b
       | SLez, SNez => SLtz
       | SLez, SGtz => SBot
       | SLez, _ => SEqz
       | SGez, (SEqz | SGtz | SGez) => b
       | SGez, SLtz => SBot
       | SGez, SLez => SEqz
       | SGez, _ => SGtz
       | SNez, (SLtz | SGtz | SNez) => b
       | SNez, SLez => SLtz
       | SNez, SGez => SGtz
       | SNez, _ => SBot
       | _, _ => SBot     (* unreachable *)
       end.

Definition sg_add (a b : sign) : sign :=
  if sg_is_bot a || sg_is_bot b then SBot
  else if sg_is_top a || sg_is_top b then STop
  else match a with
       | SLtz | SLez => match b with SLtz | SEqz | SLez => a | _ => STop end
       | SGtz | SGez => match b with SGtz | SEqz | SGez => a | _ => STop end
       | SEqz => b
       | _ => STop
       end.

Definition sg_sub (a b : sign) : sign :=
  if sg_is_bot a || sg_is_bot b then SBot
  else if sg_is_top a || sg_is_top b then STop
  else match b with
       | SGtz => sg_add a SLtz
       | SGez => sg_add a SLez
       | SEqz => a
       | SLtz => sg_add a SGtz
       | SLez => sg_add a SGez
       | _ => STop
       end.

Definition sg_mul (a b : sign) : sign :=
  if sg_is_bot a || sg_is_bot b then SBot
  else if sg_is_eqz a || sg_is_eqz b then SEqz
  else if sg_is_top a || sg_is_top b then STop
  else if sg_is_nez a || sg_is_nez b then STop
  else match a with
       | SLtz => match b with SLtz => SGtz | SLez => SGez | SGtz => SLtz | _ => SLez end
       | SGtz => b
       | SLez => match b with SLtz | SLez => SGez | _ => SLez end
       | _ (* SGez *) => match b with SGtz | SGez => SGez | _ => SLez end
       end.

(* operator/ : "signed division is like multiplication", joined with zero because the
   quotient truncates (fixes/scalars2-5) *)
Definition sg_div (a b : sign) : sign :=
  if sg_is_bot a || sg_is_bot b then SBot
  else if sg_is_eqz b then SBot
  else if sg_is_eqz a then a
  else if sg_is_top a || sg_is_top b then STop
  else if sg_is_nez a || sg_is_nez b then STop
  else sg_join (sg_mul a b) SEqz.

(* defaultOp: UDiv, SRem, URem *)
Definition sg_default (a b : sign) : sign :=
  if sg_is_bot a || sg_is_bot b then SBot else STop.

Definition sg_and (a b : sign) : sign :=
  if sg_is_bot a || sg_is_bot b then SBot
  else if sg_is_eqz a || sg_is_eqz b then SEqz else STop.

Definition sg_or (a b : sign) : sign :=
  if sg_is_bot a || sg_is_bot b then SBot
  else if sg_is_eqz a then b else if sg_is_eqz b then a else STop.

Definition sg_xor := sg_or.

(* shiftOp: Shl, LShr, AShr *)
Definition sg_shift (a b : sign) : sign :=
  if sg_is_bot a || sg_is_bot b then SBot
  else if sg_is_eqz a || sg_is_eqz b then a else STop.
