(* ItvTight.v — well-formedness is preserved by every operator, and + - unary- * join meet
   return the smallest interval containing all concrete results (property C08, second
   sentence). *)
From Coq Require Import ZArith Lia Bool List.
From CrabV Require Import Base.ZInf Scalar.Itv Scalar.ItvSound.
Local Open Scope Z_scope.

(* [bwit S p]: the bound p is attained by the set S (finite case) or S is unbounded in
   that direction (infinite case). *)
Definition bwit (S : Z -> Prop) (p : bound) : Prop :=
  match p with
  | Fin v => S v
  | MInf => forall M, exists z, S z /\ z < M
  | PInf => forall M, exists z, S z /\ M < z
  end.

Lemma bwit_mono (S T : Z -> Prop) p : (forall z, S z -> T z) -> bwit S p -> bwit T p.
Proof.
  intros H. destruct p; simpl; auto; intros W M; destruct (W M) as (z & Sz & Hz); eauto.
Qed.

Lemma tight_from_wit (S : Z -> Prop) r i :
  (exists z, S z) -> bwit S (lb r) -> bwit S (ub r) ->
  (forall z, S z -> gamma i z) -> ileq r i = true.
Proof.
  intros [z0 S0] WL WU H. unfold ileq. destruct (is_bot r) eqn:ER; auto.
  rewrite (gamma_not_bot _ _ (H _ S0)).
  apply andb_true_iff. split.
  - destruct (lb r) as [| v |]; simpl in WL.
    + destruct (lb i) as [| l |] eqn:EL; auto.
      * destruct (WL l) as (z & Sz & Hz). destruct (H _ Sz) as [G _]. rewrite EL in G.
        simpl in G. bsimp. lia.
      * destruct (H _ S0) as [G _]. rewrite EL in G. simpl in G. discriminate.
    + destruct (H _ WL) as [G _]. exact G.
    + destruct (lb i); auto.
  - destruct (ub r) as [| v |]; simpl in WU.
    + destruct (ub i); auto.
    + destruct (H _ WU) as [_ G]. exact G.
    + destruct (ub i) as [| u |] eqn:EU; auto.
      * destruct (H _ S0) as [_ G]. rewrite EU in G. simpl in G. discriminate.
      * destruct (WU u) as (z & Sz & Hz). destruct (H _ Sz) as [_ G]. rewrite EU in G.
        simpl in G. bsimp. lia.
Qed.

Lemma wf_bwit a : wf a -> is_bot a = false ->
  bwit (gamma a) (lb a) /\ bwit (gamma a) (ub a).
Proof.
  intros W B. destruct (wf_nonbot _ W B) as (H1 & H2 & H3).
  destruct (wf_inhabited _ W B) as [x0 [G1 G2]].
  unfold gamma. split.
  - destruct (lb a) as [| l |] eqn:EL; simpl; try congruence.
    + intros M. exists (Z.min x0 M - 1). repeat split; try lia.
      eapply ble_trans; [|exact G2]. simpl. apply Z.leb_le. lia.
    + split; auto. apply Z.leb_refl.
  - destruct (ub a) as [| u |] eqn:EU; simpl; try congruence.
    + split; auto. apply Z.leb_refl.
    + intros M. exists (Z.max x0 M + 1). repeat split; try lia.
      eapply ble_trans; [exact G1|]. simpl. apply Z.leb_le. lia.
Qed.

Lemma bwit_bmin S p q : bwit S p -> bwit S q -> bwit S (bmin p q).
Proof. intros. destruct (bmin_cases p q) as [->| ->]; auto. Qed.
Lemma bwit_bmax S p q : bwit S p -> bwit S q -> bwit S (bmax p q).
Proof. intros. destruct (bmax_cases p q) as [->| ->]; auto. Qed.

Section Binary.
  Variables A B : Z -> Prop.
  Hypothesis neA : exists x, A x.
  Hypothesis neB : exists y, B y.

  Lemma bwit_add p q : badd_err p q = false -> bwit A p -> bwit B q ->
    bwit (fun z => exists x y, A x /\ B y /\ z = x + y) (badd p q).
  Proof.
    destruct neA as [x0 Ax0], neB as [y0 By0].
    destruct p as [| a |], q as [| b |]; simpl; try discriminate; intros _ WA WB.
    - intros M. destruct (WA (M - y0)) as (x & Ax & Hx). exists (x + y0). split; [eauto|lia].
    - intros M. destruct (WA (M - b)) as (x & Ax & Hx). exists (x + b). split; [eauto|lia].
    - intros M. destruct (WB (M - a)) as (y & Byy & Hy). exists (a + y). split; [eauto|lia].
    - eauto.
    - intros M. destruct (WB (M - a)) as (y & Byy & Hy). exists (a + y). split; [eauto|lia].
    - intros M. destruct (WA (M - b)) as (x & Ax & Hx). exists (x + b). split; [eauto|lia].
    - intros M. destruct (WA (M - y0)) as (x & Ax & Hx). exists (x + y0). split; [eauto|lia].
  Qed.

  Lemma bwit_sub p q : bsub_err p q = false -> bwit A p -> bwit B q ->
    bwit (fun z => exists x y, A x /\ B y /\ z = x - y) (bsub p q).
  Proof.
    destruct neA as [x0 Ax0], neB as [y0 By0]. unfold bsub, bsub_err.
    destruct p as [| a |], q as [| b |]; simpl; try discriminate; intros _ WA WB.
    - intros M. destruct (WA (M + b)) as (x & Ax & Hx). exists (x - b). split; [eauto|lia].
    - intros M. destruct (WA (M + y0)) as (x & Ax & Hx). exists (x - y0). split; [eauto|lia].
    - intros M. destruct (WB (a - M)) as (y & Byy & Hy). exists (a - y). split; [eauto|lia].
    - exists a, b. repeat split; auto.
    - intros M. destruct (WB (a - M)) as (y & Byy & Hy). exists (a - y). split; [eauto|lia].
    - intros M. destruct (WA (M + y0)) as (x & Ax & Hx). exists (x - y0). split; [eauto|lia].
    - intros M. destruct (WA (M + b)) as (x & Ax & Hx). exists (x - b). split; [eauto|lia].
  Qed.

  Lemma bwit_mul p q : bwit A p -> bwit B q ->
    bwit (fun z => exists x y, A x /\ B y /\ z = x * y) (bmul p q).
  Proof.
    destruct neA as [x0 Ax0], neB as [y0 By0].
    intros WA WB.
    destruct p as [| a |], q as [| b |];
      try (destruct a as [| a | a]); try (destruct b as [| b | b]); simpl in *;
      try (exists x0, 0; repeat split; auto; lia);
      try (exists 0, y0; repeat split; auto; lia);
      try (eexists _, _; repeat split; eauto; fail);
      intros M.
    (* -oo * -oo *)
    - destruct (WA (- Z.abs M - 1)) as (x & Ax & Hx), (WB (- Z.abs M - 1)) as (y & Byy & Hy).
      exists (x * y); split; [eauto|nia].
    (* -oo * pos, -oo * neg *)
    - destruct (WA (- Z.abs M - 1)) as (x & Ax & Hx). exists (x * Z.pos b); split; [eauto|nia].
    - destruct (WA (- Z.abs M - 1)) as (x & Ax & Hx). exists (x * Z.neg b); split; [eauto|nia].
    (* -oo * +oo *)
    - destruct (WA (- Z.abs M - 1)) as (x & Ax & Hx), (WB (Z.abs M + 1)) as (y & Byy & Hy).
      exists (x * y); split; [eauto|nia].
    (* pos * -oo, neg * -oo *)
    - destruct (WB (- Z.abs M - 1)) as (y & Byy & Hy). exists (Z.pos a * y); split; [eauto|nia].
    - destruct (WB (- Z.abs M - 1)) as (y & Byy & Hy). exists (Z.neg a * y); split; [eauto|nia].
    (* pos * +oo, neg * +oo *)
    - destruct (WB (Z.abs M + 1)) as (y & Byy & Hy). exists (Z.pos a * y); split; [eauto|nia].
    - destruct (WB (Z.abs M + 1)) as (y & Byy & Hy). exists (Z.neg a * y); split; [eauto|nia].
    (* +oo * -oo *)
    - destruct (WA (Z.abs M + 1)) as (x & Ax & Hx), (WB (- Z.abs M - 1)) as (y & Byy & Hy).
      exists (x * y); split; [eauto|nia].
    (* +oo * pos, +oo * neg *)
    - destruct (WA (Z.abs M + 1)) as (x & Ax & Hx). exists (x * Z.pos b); split; [eauto|nia].
    - destruct (WA (Z.abs M + 1)) as (x & Ax & Hx). exists (x * Z.neg b); split; [eauto|nia].
    (* +oo * +oo *)
    - destruct (WA (Z.abs M + 1)) as (x & Ax & Hx), (WB (Z.abs M + 1)) as (y & Byy & Hy).
      exists (x * y); split; [eauto|nia].
  Qed.
End Binary.

Lemma bwit_neg_l (A : Z -> Prop) p : bwit A p -> bwit (fun z => exists x, A x /\ z = - x) (bneg p).
Proof.
  destruct p as [| a |]; simpl; intros W.
  - intros M. destruct (W (- M)) as (x & Ax & Hx). exists (- x). split; [eauto|lia].
  - eauto.
  - intros M. destruct (W (- M)) as (x & Ax & Hx). exists (- x). split; [eauto|lia].
Qed.

(* ---------------- well-formedness preservation ---------------- *)

Lemma bmin_ne_PInf p q : p <> PInf -> q <> PInf -> bmin p q <> PInf.
Proof. intros. destruct (bmin_cases p q) as [->| ->]; auto. Qed.
Lemma bmax_ne_MInf p q : p <> MInf -> q <> MInf -> bmax p q <> MInf.
Proof. intros. destruct (bmax_cases p q) as [->| ->]; auto. Qed.
Lemma bmax_ne_PInf p q : p <> PInf -> q <> PInf -> bmax p q <> PInf.
Proof. intros. destruct (bmax_cases p q) as [->| ->]; auto. Qed.
Lemma bmin_ne_MInf p q : p <> MInf -> q <> MInf -> bmin p q <> MInf.
Proof. intros. destruct (bmin_cases p q) as [->| ->]; auto. Qed.

Ltac wf_nb a :=
  match goal with
  | W : wf a, E : is_bot a = false |- _ =>
      let H1 := fresh "Hl" in let H2 := fresh "Hu" in let H3 := fresh "Hle" in
      destruct (wf_nonbot _ W E) as (H1 & H2 & H3)
  end.

Lemma wf_ijoin a b : wf a -> wf b -> wf (ijoin a b).
Proof.
  intros Wa Wb. unfold ijoin. destruct (is_bot a) eqn:EA; auto. destruct (is_bot b) eqn:EB; auto.
  wf_nb a. wf_nb b. apply wf_imk; [apply bmin_ne_PInf|apply bmax_ne_MInf]; auto.
Qed.

Lemma wf_imeet a b : wf a -> wf b -> wf (imeet a b).
Proof.
  intros Wa Wb. unfold imeet. destruct (is_bot a) eqn:EA; [apply wf_bot|].
  destruct (is_bot b) eqn:EB; [apply wf_bot|]. cbn [orb].
  wf_nb a. wf_nb b. apply wf_imk; [apply bmax_ne_PInf|apply bmin_ne_MInf]; auto.
Qed.

Lemma wf_iadd a b : wf a -> wf b -> wf (iadd a b).
Proof.
  intros Wa Wb. unfold iadd. destruct (is_bot a) eqn:EA; [apply wf_bot|].
  destruct (is_bot b) eqn:EB; [apply wf_bot|]. cbn [orb].
  wf_nb a. wf_nb b. apply wf_imk.
  - destruct (lb a), (lb b); simpl; congruence.
  - destruct (ub a), (ub b); simpl; congruence.
Qed.

Lemma wf_isub a b : wf a -> wf b -> wf (isub a b).
Proof.
  intros Wa Wb. unfold isub. destruct (is_bot a) eqn:EA; [apply wf_bot|].
  destruct (is_bot b) eqn:EB; [apply wf_bot|]. cbn [orb].
  wf_nb a. wf_nb b. apply wf_imk.
  - destruct (lb a), (ub b); simpl; congruence.
  - destruct (ub a), (lb b); simpl; congruence.
Qed.

Lemma wf_ineg a : wf a -> wf (ineg a).
Proof.
  intros Wa. unfold ineg. destruct (is_bot a) eqn:EA; [apply wf_bot|].
  wf_nb a. apply wf_imk.
  - destruct (ub a); simpl; congruence.
  - destruct (lb a); simpl; congruence.
Qed.

(* the C++ never reaches its "-oo + +oo" CRAB_ERROR from well-formed operands *)
Lemma iadd_no_error a b : wf a -> wf b -> is_bot a = false -> is_bot b = false ->
  badd_err (lb a) (lb b) = false /\ badd_err (ub a) (ub b) = false.
Proof.
  intros Wa Wb EA EB. wf_nb a. wf_nb b.
  destruct (lb a), (lb b), (ub a), (ub b); simpl; auto; congruence.
Qed.

Lemma isub_no_error a b : wf a -> wf b -> is_bot a = false -> is_bot b = false ->
  bsub_err (lb a) (ub b) = false /\ bsub_err (ub a) (lb b) = false.
Proof.
  intros Wa Wb EA EB. wf_nb a. wf_nb b. unfold bsub_err.
  destruct (lb a), (lb b), (ub a), (ub b); simpl; auto; congruence.
Qed.

(* ---------------- tightness ---------------- *)

Theorem iadd_tight a b i : wf a -> wf b ->
  (forall x y, gamma a x -> gamma b y -> gamma i (x + y)) -> ileq (iadd a b) i = true.
Proof.
  intros Wa Wb H. unfold iadd. destruct (is_bot a) eqn:EA; auto. destruct (is_bot b) eqn:EB; auto.
  cbn [orb].
  destruct (wf_inhabited _ Wa EA) as [x0 Gx], (wf_inhabited _ Wb EB) as [y0 Gy].
  destruct (wf_bwit _ Wa EA) as [La Ua], (wf_bwit _ Wb EB) as [Lb Ub].
  destruct (iadd_no_error a b Wa Wb EA EB) as [E1 E2].
  set (S := fun z => exists x y, gamma a x /\ gamma b y /\ z = x + y).
  assert (WL : bwit S (badd (lb a) (lb b))) by (apply bwit_add; eauto).
  assert (WU : bwit S (badd (ub a) (ub b))) by (apply bwit_add; eauto).
  unfold imk. destruct (bgt _ _) eqn:EG; auto.
  apply (tight_from_wit S); simpl; auto.
  - exists (x0 + y0), x0, y0. auto.
  - intros z (x & y & Gx' & Gy' & ->). auto.
Qed.

Theorem isub_tight a b i : wf a -> wf b ->
  (forall x y, gamma a x -> gamma b y -> gamma i (x - y)) -> ileq (isub a b) i = true.
Proof.
  intros Wa Wb H. unfold isub. destruct (is_bot a) eqn:EA; auto. destruct (is_bot b) eqn:EB; auto.
  cbn [orb].
  destruct (wf_inhabited _ Wa EA) as [x0 Gx], (wf_inhabited _ Wb EB) as [y0 Gy].
  destruct (wf_bwit _ Wa EA) as [La Ua], (wf_bwit _ Wb EB) as [Lb Ub].
  destruct (isub_no_error a b Wa Wb EA EB) as [E1 E2].
  set (S := fun z => exists x y, gamma a x /\ gamma b y /\ z = x - y).
  assert (WL : bwit S (bsub (lb a) (ub b))) by (apply bwit_sub; eauto).
  assert (WU : bwit S (bsub (ub a) (lb b))) by (apply bwit_sub; eauto).
  unfold imk. destruct (bgt _ _) eqn:EG; auto.
  apply (tight_from_wit S); simpl; auto.
  - exists (x0 - y0), x0, y0. auto.
  - intros z (x & y & Gx' & Gy' & ->). auto.
Qed.

Theorem ineg_tight a i : wf a ->
  (forall x, gamma a x -> gamma i (- x)) -> ileq (ineg a) i = true.
Proof.
  intros Wa H. unfold ineg. destruct (is_bot a) eqn:EA; auto.
  destruct (wf_inhabited _ Wa EA) as [x0 Gx].
  destruct (wf_bwit _ Wa EA) as [La Ua].
  set (S := fun z => exists x, gamma a x /\ z = - x).
  unfold imk. destruct (bgt _ _) eqn:EG; auto.
  apply (tight_from_wit S); simpl.
  - exists (- x0), x0. auto.
  - apply bwit_neg_l; auto.
  - apply bwit_neg_l; auto.
  - intros z (x & Gx' & ->). auto.
Qed.

Theorem imul_tight a b i : wf a -> wf b ->
  (forall x y, gamma a x -> gamma b y -> gamma i (x * y)) -> ileq (imul a b) i = true.
Proof.
  intros Wa Wb H. unfold imul. destruct (is_bot a) eqn:EA; auto. destruct (is_bot b) eqn:EB; auto.
  cbn [orb].
  destruct (wf_inhabited _ Wa EA) as [x0 Gx], (wf_inhabited _ Wb EB) as [y0 Gy].
  destruct (wf_bwit _ Wa EA) as [La Ua], (wf_bwit _ Wb EB) as [Lb Ub].
  set (S := fun z => exists x y, gamma a x /\ gamma b y /\ z = x * y).
  assert (C1 : bwit S (bmul (lb a) (lb b))) by (apply bwit_mul; eauto).
  assert (C2 : bwit S (bmul (lb a) (ub b))) by (apply bwit_mul; eauto).
  assert (C3 : bwit S (bmul (ub a) (lb b))) by (apply bwit_mul; eauto).
  assert (C4 : bwit S (bmul (ub a) (ub b))) by (apply bwit_mul; eauto).
  cbv zeta. unfold imk. destruct (bgt _ _) eqn:EG; auto.
  apply (tight_from_wit S); simpl.
  - exists (x0 * y0), x0, y0. auto.
  - unfold bmin4. repeat apply bwit_bmin; auto.
  - unfold bmax4. repeat apply bwit_bmax; auto.
  - intros z (x & y & Gx' & Gy' & ->). auto.
Qed.

Theorem ijoin_tight a b i : wf a -> wf b ->
  (forall x, gamma a x \/ gamma b x -> gamma i x) -> ileq (ijoin a b) i = true.
Proof.
  intros Wa Wb H. unfold ijoin.
  destruct (is_bot a) eqn:EA.
  { apply ileq_complete; auto. }
  destruct (is_bot b) eqn:EB.
  { apply ileq_complete; auto. }
  destruct (wf_inhabited _ Wa EA) as [x0 Gx].
  destruct (wf_bwit _ Wa EA) as [La Ua], (wf_bwit _ Wb EB) as [Lb Ub].
  set (S := fun z => gamma a z \/ gamma b z).
  unfold imk. destruct (bgt _ _) eqn:EG; auto.
  apply (tight_from_wit S); simpl.
  - exists x0. left; auto.
  - apply bwit_bmin; [apply (bwit_mono (gamma a))|apply (bwit_mono (gamma b))]; auto; unfold S; auto.
  - apply bwit_bmax; [apply (bwit_mono (gamma a))|apply (bwit_mono (gamma b))]; auto; unfold S; auto.
  - auto.
Qed.

Theorem imeet_tight a b i : wf a -> wf b ->
  (forall x, gamma a x -> gamma b x -> gamma i x) -> ileq (imeet a b) i = true.
Proof.
  intros Wa Wb H. apply ileq_complete.
  - apply wf_imeet; auto.
  - intros x G. apply imeet_exact in G. destruct G; auto.
Qed.

(* non-vacuity: a zero-crossing and a half-infinite operand *)
Example tight_example :
  wf (mkI (Fin (-2)) (Fin 3)) /\ wf (mkI MInf (Fin 4)) /\
  imul (mkI (Fin (-2)) (Fin 3)) (mkI MInf (Fin 4)) = mkI MInf PInf /\
  imul (mkI (Fin 2) (Fin 3)) (mkI MInf (Fin 4)) = mkI MInf (Fin 12).
Proof.
  repeat split; try (right; simpl; repeat split; congruence).
Qed.
