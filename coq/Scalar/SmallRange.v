(* SmallRange.v — mirror model of crab::domains::small_range
   (include/crab/domains/small_range.hpp, lib/small_range.cpp): an abstract counter of a
   set of variables {0, 1(V), [0,1](V), [1,+oo], [0,+oo]}.  Variable indexes (index_t) are
   modelled by Z.  Follows the tree with fixes/scalars2-6 applied (operator<= with a bottom
   right operand).  No proofs here. *)
From Coq Require Import ZArith Bool.
Local Open Scope Z_scope.

Inductive sr : Type :=
| RBot | RZero | ROne (v : Z) | RZeroOrOne (v : Z) | RZeroOrMore | ROneOrMore.

Definition sr_is_bot (x : sr) : bool := match x with RBot => true | _ => false end.
Definition sr_is_top (x : sr) : bool := match x with RZeroOrMore => true | _ => false end.
Definition sr_is_zero (x : sr) : bool := match x with RZero => true | _ => false end.
Definition sr_is_one (x : sr) : bool := match x with ROne _ => true | _ => false end.

Definition sr_eq (x y : sr) : bool :=
  match x, y with
  | RBot, RBot | RZero, RZero | RZeroOrMore, RZeroOrMore | ROneOrMore, ROneOrMore => true
  | ROne a, ROne b | RZeroOrOne a, RZeroOrOne b => a =? b
  | _, _ => false
  end.

(* increment(v) *)
Definition sr_incr (x : sr) (v : Z) : sr :=
  match x with
  | RBot => RBot
  | RZero => ROne v
  | ROne w => if w =? v then x else ROneOrMore
  | _ => ROneOrMore
  end.

Definition sr_leq (x y : sr) : bool :=
  if sr_eq x y then true
  else if sr_is_bot x || sr_is_top y then true
  else if sr_is_bot y then false      (* fixes/scalars2-6 *)
  else match x with
       | RZero => match y with ROne _ | ROneOrMore => false | _ => true end
       | ROne a => match y with
                   | RZeroOrOne b => a =? b
                   | RZeroOrMore | ROneOrMore => true
                   | _ => false
                   end
       | RZeroOrOne _ | ROneOrMore => sr_is_top y
       | _ => false
       end.

Definition join_zero_with (o : sr) : sr :=
  match o with
  | RZero => o
  | ROne v => RZeroOrOne v
  | RZeroOrOne _ => o
  | _ => RZeroOrMore
  end.

Definition join_one_with (v : Z) (o : sr) : sr :=
  match o with
  | RZero => RZeroOrOne v
  | ROne w => if v =? w then ROne v else ROneOrMore
  | RZeroOrOne w => if v =? w then o else RZeroOrMore
  | _ => o
  end.

Definition join_zero_or_one_with (v : Z) (o : sr) : sr :=
  match o with
  | RZero => RZeroOrOne v
  | ROne w | RZeroOrOne w => if v =? w then RZeroOrOne v else RZeroOrMore
  | _ => RZeroOrMore
  end.

Definition join_one_or_more_with (o : sr) : sr :=
  match o with
  | ROne _ | ROneOrMore => ROneOrMore
  | _ => RZeroOrMore
  end.

Definition sr_join (x y : sr) : sr :=
  if sr_is_bot x || sr_is_top y then y
  else if sr_is_bot y || sr_is_top x then x
  else match x, y with
       | RZero, _ => join_zero_with y
       | _, RZero => join_zero_with x
       | ROne v, _ => join_one_with v y
       | _, ROne v => join_one_with v x
       | RZeroOrOne v, _ => join_zero_or_one_with v y
       | _, RZeroOrOne v => join_zero_or_one_with v x
       | ROneOrMore, _ => join_one_or_more_with y
       | _, ROneOrMore => join_one_or_more_with x
       | _, _ => RZeroOrMore
       end.

Definition meet_zero_with (o : sr) : sr :=
  match o with
  | ROne _ | ROneOrMore => RBot
  | _ => RZero
  end.

Definition meet_one_with (v : Z) (o : sr) : sr :=
  match o with
  | RZero => RBot
  | ROne w | RZeroOrOne w => if v =? w then ROne v else RBot
  | _ => ROne v
  end.

Definition meet_zero_or_one_with (v : Z) (o : sr) : sr :=
  match o with
  | RZero => o
  | ROne w => if v =? w then o else RBot
  | RZeroOrOne w => if v =? w then o else RZero
  | ROneOrMore => ROne v
  | _ => RZeroOrOne v
  end.

Definition meet_one_or_more_with (o : sr) : sr :=
  match o with
  | RZero => RBot
  | ROne _ => o
  | RZeroOrOne v => ROne v
  | _ => ROneOrMore
  end.

Definition sr_meet (x y : sr) : sr :=
  if sr_is_bot x || sr_is_top y then x
  else if sr_is_bot y || sr_is_top x then y
  else match x, y with
       | RZero, _ => meet_zero_with y
       | _, RZero => meet_zero_with x
       | ROne v, _ => meet_one_with v y
       | _, ROne v => meet_one_with v x
       | RZeroOrOne v, _ => meet_zero_or_one_with v y
       | _, RZeroOrOne v => meet_zero_or_one_with v x
       | ROneOrMore, _ => meet_one_or_more_with y
       | _, ROneOrMore => meet_one_or_more_with x
       | _, _ => RBot   (* CRAB_ERROR: unreachable, top cases handled above *)
       end.

Definition sr_widen := sr_join.
Definition sr_narrow := sr_meet.
