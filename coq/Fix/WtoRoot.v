(* Fix/WtoRoot.v — the weak topological ordering computed by the model of wto.hpp begins
   with the node it was built from (as a vertex or as the head of the first cycle): the
   frame of the root is the bottom of the visit stack and is the last one to be popped.
   Uses the invariants of Fix/WtoSound.v.  Consequence: the entry condition [entry_ok] of
   the fixpoint engine theorems holds for the CFG entry. *)
From Coq Require Import List Arith Bool Lia.
From CrabV Require Import Fix.Wto Fix.WtoCheck Fix.WtoSound Fix.Engine Fix.EngineBelow Fix.EngineRel.
Import ListNotations.

Definition chead (c : comp) : nat := match c with Vertex n => n | Cycle h _ => h end.

Lemma frames_nil : forall g d ln up vs, Frames g d ln up vs [] -> vs = [].
Proof.
  intros g d ln up vs H. destruct vs as [|f vs]; [reflexivity|].
  cbn [Frames] in H. destruct H as [T [L' [E _]]]. destruct T; discriminate.
Qed.
Lemma frames_fin : forall g d ln vs up L f, Frames g d ln up vs L -> In f vs ->
  exists k, d (fnode f) = DN k.
Proof.
  intros g d ln. induction vs as [|f0 vs IH]; intros up L f H Hin; [destruct Hin|].
  cbn [Frames] in H. destruct H as [T [L' [_ [HF [_ HR]]]]].
  destruct Hin as [<-|Hin].
  - destruct (FrameOK_node_in _ _ _ _ _ _ _ HF) as [k [pre [Hk _]]]. exists k. exact Hk.
  - exact (IH _ _ f HR Hin).
Qed.
Lemma prop_min_has : forall m vs r, (exists f, In f vs /\ fnode f = r) ->
  exists f, In f (prop_min m vs) /\ fnode f = r.
Proof.
  intros m vs r [f [Hin Hf]]. destruct vs as [|p vs]; [destruct Hin|].
  cbn [prop_min]. destruct (m <? fmin p).
  - destruct Hin as [<-|Hin].
    + exists (mkframe (fnode p) (fcur p) m). split; [left; reflexivity|exact Hf].
    + exists f. split; [right; exact Hin|exact Hf].
  - exists f. split; [exact Hin|exact Hf].
Qed.

Section Root.
  Variable g : graph.
  Variable e : nat.
  Variable d0 : nat -> dfnv.
  Variable B : list nat.
  Variable Reg : nat -> Prop.
  Variable r k0 : nat.

  (* the frame of the root is the bottom of the visit stack *)
  Lemma root_bottom : forall L new fr vs' ln s k,
    Inv g e d0 B Reg r k0 L new (fr :: vs') ln s -> fnode fr = r -> dfn s r = DN k -> vs' = [].
  Proof.
    intros L new fr vs' ln s k I Hr Hk.
    assert (Hk0 : k = S k0).
    { destruct (inv_root I) as [H|H]; rewrite H in Hk; inversion Hk. reflexivity. }
    subst k.
    pose proof (inv_frames I) as HF. cbn [Frames] in HF.
    destruct HF as [T [L' [EL [_ [_ HFs]]]]]. rewrite Hr in EL.
    destruct L' as [|y L'].
    - exact (frames_nil _ _ _ _ _ HFs).
    - exfalso. pose proof (inv_sorted I) as HS. rewrite EL in HS.
      apply LSorted_app in HS. destruct HS as [_ [HS _]]. cbn [LSorted] in HS.
      destruct HS as [[kr [H1 [_ H3]]] _]. rewrite Hk in H1. inversion H1. subst kr.
      destruct (H3 y) as [ky [E1 E2]]; [left; reflexivity|].
      assert (Hy : In y L).
      { rewrite EL. apply in_or_app. right. right. left. reflexivity. }
      pose proof (inv_gt I y ky Hy E1). lia.
  Qed.

  Lemma root_first : forall P0 f L new vs ln s s' p',
    Inv g e d0 B Reg r k0 L new vs ln s ->
    (exists fr, In fr vs /\ fnode fr = r) ->
    loop f g vs ln s (new ++ P0) = Some (s', p') ->
    exists c q, p' = c :: q /\ chead c = r.
  Proof.
    intros P0. induction f as [|f IH]; intros L new vs ln s s' p' I HR Hrun; [discriminate|].
    cbn [loop] in Hrun. destruct vs as [|fr vs'].
    { destruct HR as [x [[] _]]. }
    assert (REST : fnode fr <> r -> exists x, In x vs' /\ fnode x = r).
    { intros Hne. destruct HR as [x [[<-|Hin] Hx]]; [contradiction|]. exists x. split; assumption. }
    destruct (fcur fr) as [|child rest] eqn:Hc.
    - pose proof (inv_frames I) as HF. cbn [Frames] in HF.
      destruct HF as [T [L' [EL [HFr [HTr HFs]]]]].
      destruct (FrameOK_node_in _ _ _ _ _ _ _ HFr) as [kn [pre [Hdn _]]].
      rewrite Hdn in Hrun. cbn [nat_eq_dfn] in Hrun.
      destruct (fmin fr =? kn) eqn:Eq.
      + apply Nat.eqb_eq in Eq. destruct (mem (fnode fr) ln) eqn:Em.
        * destruct (pop_until (fnode fr) (upd (dfn s) (fnode fr) DInf) (stk s)) as [[d2 stk2]|] eqn:Ep; [|discriminate].
          match type of Hrun with
          | match ?c with _ => _ end = _ => destruct c as [[s3 body]|] eqn:Ecomp; [|discriminate]
          end.
          destruct (step_pop_cycle g e d0 B Reg r k0 f L new fr vs' ln s kn d2 stk2 s3 body
                      (loop_spec g e f) I Hc Hdn Eq Ep Ecomp) as [L2 [I2 _]].
          destruct (Nat.eq_dec (fnode fr) r) as [Hr|Hne].
          -- rewrite Hr in Hdn.
             pose proof (root_bottom L new fr vs' ln s kn I Hr Hdn) as Hv. subst vs'.
             cbn [prop_min] in Hrun. destruct f as [|f']; [discriminate|]. cbn [loop] in Hrun.
             inversion Hrun as [[E1 E2]]. exists (Cycle (fnode fr) body), (new ++ P0).
             split; [reflexivity|exact Hr].
          -- apply (IH L2 ([Cycle (fnode fr) body] ++ new) _ ln s3 s' p' I2).
             ++ apply prop_min_has, REST, Hne.
             ++ exact Hrun.
        * destruct (stk s) as [|x stk2] eqn:Es; [discriminate|].
          destruct (step_pop_vertex g e d0 B Reg r k0 L new fr vs' ln s kn x stk2 I Hc Hdn Eq Em Es)
            as [L2 [I2 _]].
          destruct (Nat.eq_dec (fnode fr) r) as [Hr|Hne].
          -- rewrite Hr in Hdn.
             pose proof (root_bottom L new fr vs' ln s kn I Hr Hdn) as Hv. subst vs'.
             cbn [prop_min] in Hrun. destruct f as [|f']; [discriminate|]. cbn [loop] in Hrun.
             inversion Hrun as [[E1 E2]]. exists (Vertex (fnode fr)), (new ++ P0).
             split; [reflexivity|exact Hr].
          -- apply (IH L2 ([Vertex (fnode fr)] ++ new) _ ln _ s' p' I2).
             ++ apply prop_min_has, REST, Hne.
             ++ exact Hrun.
      + apply Nat.eqb_neq in Eq.
        pose proof (step_pop_stay g e d0 B Reg r k0 L new fr vs' ln s kn I Hc Hdn Eq) as I2.
        destruct (Nat.eq_dec (fnode fr) r) as [Hr|Hne].
        * exfalso. rewrite Hr in Hdn.
          pose proof (root_bottom L new fr vs' ln s kn I Hr Hdn) as Hv. subst vs'.
          cbn [prop_min] in I2. pose proof (inv_frames I2) as HF2. cbn [Frames] in HF2.
          rewrite EL in HF2. destruct T; discriminate HF2.
        * apply (IH L new _ ln s s' p' I2); [apply prop_min_has, REST, Hne|exact Hrun].
    - assert (KEEP : forall m new_frames,
                 exists x, In x (new_frames ++ mkframe (fnode fr) rest m :: vs') /\ fnode x = r).
      { intros m nf. destruct HR as [x [[<-|Hin] Hx]].
        - exists (mkframe (fnode fr) rest m). split; [apply in_or_app; right; left; reflexivity|exact Hx].
        - exists x. split; [apply in_or_app; right; right; exact Hin|exact Hx]. }
      destruct (is_zero (dfn s child)) eqn:Ez.
      + apply is_zero_true in Ez.
        pose proof (step_discover g e d0 B Reg r k0 L new fr vs' ln s child rest I Hc Ez) as I2.
        apply (IH _ _ _ _ _ s' p' I2); [|exact Hrun].
        exact (KEEP (fmin fr) [new_frame g child (discover child s)]).
      + apply is_zero_false in Ez. destruct (dfn_le_nat (dfn s child) (fmin fr)) eqn:El.
        * destruct (dfn s child) as [k|] eqn:Ek; [|discriminate].
          cbn [dfn_le_nat] in El. apply Nat.leb_le in El.
          assert (Hk0 : k <> 0) by (intros ->; apply Ez; reflexivity).
          pose proof (step_scan_lower g e d0 B Reg r k0 L new fr vs' ln s child rest k I Hc Ek Hk0 El) as I2.
          apply (IH _ _ _ _ _ s' p' I2); [|exact Hrun]. exact (KEEP k []).
        * pose proof (step_scan_skip g e d0 B Reg r k0 L new fr vs' ln s child rest I Hc Ez El) as I2.
          apply (IH _ _ _ _ _ s' p' I2); [|exact Hrun]. exact (KEEP (fmin fr) []).
  Qed.
End Root.

Theorem build_fuel_starts_with : forall f g e w, build_fuel f g e = Some w -> starts_with e w.
Proof.
  intros f g e w Hb. unfold build_fuel in Hb.
  destruct (loop f g [new_frame g e (discover e st0)] [] (discover e st0) []) as [[s' w']|] eqn:Hrun; [|discriminate].
  inversion Hb; subst w'. clear Hb.
  assert (I0 : Inv g e (dfn st0) (stk st0) (fun _ => True) e (num st0) [e] []
                   [new_frame g e (discover e st0)] [] (discover e st0)).
  { apply Inv_init; auto.
    - intros y Hy. exfalso. apply Hy. reflexivity.
    - constructor. }
  destruct (root_first g e _ _ _ e _ [] f _ [] _ _ _ s' w I0) as [c [q [E H]]].
  - exists (new_frame g e (discover e st0)). split; [left; reflexivity|reflexivity].
  - exact Hrun.
  - exists c, q. split; [exact E|]. destruct c as [n|h body]; cbn [chead] in H; subst.
    + left. reflexivity.
    + right. exists body. reflexivity.
Qed.

Theorem build_starts_with : forall g e w, build g e = Some w -> starts_with e w.
Proof. intros g e w. apply build_fuel_starts_with. Qed.

(* the analysis may start at the node the ordering was built from *)
Theorem build_entry_ok : forall g e w, build g e = Some w ->
  hd_error (flat w) = Some e /\ In e (flat w) /\ entry_ok e w = true.
Proof.
  intros g e w H. pose proof (build_starts_with g e w H) as SW.
  pose proof (wf_nodup _ _ _ _ _ (build_WF g e w H)) as ND.
  split; [apply starts_with_hd, SW|]. split; [apply starts_with_in, SW|].
  apply starts_with_entry_ok; assumption.
Qed.
