(* EngineBelow.v — with join as widening and meet as narrowing, every value the engine ever
   writes into its tables stays below any solution of the flow equations (no state is
   invented): the "<=" half of property C06 for the engine model, for all CFGs, WTOs,
   parameters and fuel.  Generic in a preorder [le] on abstract values. *)
From Coq Require Import List Bool Arith.
From CrabV Require Import Fix.Wto Fix.Engine.
Import ListNotations.

Section Below.
  Variable A : Type.
  Variable OP : aops A.
  Variable le : A -> A -> Prop.
  Hypothesis le_refl : forall a, le a a.
  Hypothesis le_trans : forall a b c, le a b -> le b c -> le a c.
  Hypothesis bot_le : forall a, le (o_bot A OP) a.
  Hypothesis join_lub : forall a b c, le a c -> le b c -> le (o_join A OP a b) c.
  Hypothesis meet_l : forall a b, le (o_meet A OP a b) a.
  Hypothesis meet_mono : forall a a' b, le a a' -> le (o_meet A OP a b) (o_meet A OP a' b).
  Hypothesis widen_is_join : forall n a b, o_widen A OP n a b = o_join A OP a b.
  Hypothesis narrow_is_meet : forall a b, o_narrow A OP a b = o_meet A OP a b.

  Variable analyze : nat -> A -> A.
  Hypothesis analyze_mono : forall n a b, le a b -> le (analyze n a) (analyze n b).
  Variable preds : nat -> list nat.
  Variable nest : nat -> list nat.
  Variable entry : nat.
  Variable delay descending : nat.
  Variable use_asm : bool.
  Variable asm : nat -> option A.
  Variable fuel : nat.
  Variable init : A.

  (* a solution of the equations *)
  Variables Lpre Lpost : nat -> A.
  Hypothesis sol_post : forall n, le (analyze n (Lpre n)) (Lpost n).
  Hypothesis sol_pre : forall n p, In p (preds n) ->
    le (strengthen A OP use_asm asm n (Lpost p)) (Lpre n).
  Hypothesis sol_init : le (strengthen A OP use_asm asm entry init) (Lpre entry).
  (* the table entry of the start block holds the raw initial value until it is visited *)
  Hypothesis init_below : le init (Lpre entry).
  (* strengthening commutes with joins up to the order (true for set-like meets) *)
  Hypothesis strengthen_join : forall n a b c,
    le (strengthen A OP use_asm asm n a) c -> le (strengthen A OP use_asm asm n b) c ->
    le (strengthen A OP use_asm asm n (o_join A OP a b)) c.
  Hypothesis strengthen_bot : forall n c, le (strengthen A OP use_asm asm n (o_bot A OP)) c.

  Definition Below (st : est A) : Prop :=
    (forall n, le (e_post A st n) (Lpost n)) /\
    (forall n, le (e_pre A st n) (Lpre n)).

  Lemma strengthen_le n a : le (strengthen A OP use_asm asm n a) a.
  Proof. unfold strengthen. destruct use_asm; auto. destruct (asm n); auto. Qed.

  Lemma strengthen_mono n a b : le a b -> le (strengthen A OP use_asm asm n a) (strengthen A OP use_asm asm n b).
  Proof. intros H. unfold strengthen. destruct use_asm; auto. destruct (asm n); auto. Qed.

  Lemma join_posts_from_below post n : (forall p, le (post p) (Lpost p)) -> forall ps acc,
    (forall p, In p ps -> In p (preds n)) ->
    le (strengthen A OP use_asm asm n acc) (Lpre n) ->
    le (strengthen A OP use_asm asm n (join_posts_from A OP post ps acc)) (Lpre n).
  Proof.
    intros P. unfold join_posts_from.
    induction ps as [|p r IH]; simpl; intros acc I H; auto.
    apply IH; [intros q J; apply I; right; auto|].
    apply strengthen_join; auto.
    eapply le_trans; [apply strengthen_mono; apply P|]. apply sol_pre. apply I. left; auto.
  Qed.

  Lemma join_posts_below post n : (forall p, le (post p) (Lpost p)) -> forall ps,
    (forall p, In p ps -> In p (preds n)) ->
    le (strengthen A OP use_asm asm n (join_posts A OP post ps)) (Lpre n).
  Proof.
    intros P ps I. unfold join_posts. apply join_posts_from_below; auto.
  Qed.

  Lemma tset_le (t : nat -> A) (L : nat -> A) n v :
    (forall m, le (t m) (L m)) -> le v (L n) -> forall m, le (tset A t n v m) (L m).
  Proof. intros H Hv m. unfold tset. destruct (Nat.eqb_spec m n); subst; auto. Qed.

  Lemma visit_vertex_below n st : Below st ->
    Below (visit_vertex A OP analyze preds entry use_asm asm init n st).
  Proof.
    intros (P & Q). unfold visit_vertex.
    destruct (if e_skip A st && Nat.eqb n entry then false else e_skip A st).
    - split; auto.
    - assert (X : le (strengthen A OP use_asm asm n
                        (join_posts_from A OP (e_post A st) (preds n)
                           (if Nat.eqb n entry then init else o_bot A OP))) (Lpre n)).
      { apply join_posts_from_below; auto.
        destruct (Nat.eqb_spec n entry) as [->|NE]; [apply sol_init|apply strengthen_bot]. }
      split; cbn [e_pre e_post e_skip].
      + apply tset_le; auto. eapply le_trans; [apply analyze_mono; exact X|apply sol_post].
      + apply tset_le; auto.
  Qed.

  Definition opt_below (r : option (est A)) : Prop :=
    match r with Some st => Below st | None => True end.

  Lemma head_inflow_below h entry_pre st :
    Below st ->
    (forall ip, entry_pre = Some ip -> le (strengthen A OP use_asm asm h ip) (Lpre h)) ->
    le (head_inflow A OP preds use_asm asm h entry_pre st) (Lpre h).
  Proof.
    intros (P & Q) EP. unfold head_inflow.
    destruct entry_pre as [ip|].
    - apply strengthen_join; auto. apply join_posts_below; auto.
    - apply join_posts_below; auto.
  Qed.

  Section CycleBelow.
    Variable vbody : est A -> option (est A).
    Hypothesis vbody_below : forall st, Below st ->
      match vbody st with Some st' => Below st' | None => True end.
    Variable h : nat.
    Variable entry_pre : option A.
    Hypothesis entry_pre_below : forall ip, entry_pre = Some ip ->
      le (strengthen A OP use_asm asm h ip) (Lpre h).

    Lemma set_head_below st pre : Below st -> le pre (Lpre h) ->
      Below (mkE A (tset A (e_pre A st) h pre) (tset A (e_post A st) h (analyze h pre)) (e_skip A st)).
    Proof.
      intros (P & Q) L. split; cbn [e_pre e_post e_skip].
      - apply tset_le; auto. eapply le_trans; [apply analyze_mono; exact L|apply sol_post].
      - apply tset_le; auto.
    Qed.

    Lemma inc_loop_below : forall f i pre st,
      Below st -> le pre (Lpre h) ->
      match inc_loop A OP analyze preds delay use_asm asm vbody h entry_pre f i pre st with
      | Some (pre', st') => Below st' /\ le pre' (Lpre h)
      | None => True
      end.
    Proof.
      induction f as [|f IH]; intros i pre st B L; cbn [inc_loop]; auto.
      pose proof (set_head_below st pre B L) as B1.
      specialize (vbody_below _ B1).
      destruct (vbody _) as [st2|]; auto. rename vbody_below into B2.
      pose proof (head_inflow_below h entry_pre st2 B2 entry_pre_below) as NP.
      destruct (o_leq A OP _ pre).
      - destruct B2 as (P & Q). repeat split; cbn [e_pre e_post e_skip]; auto.
        apply tset_le; auto.
      - apply IH; auto. unfold extrapolate. destruct (i <=? delay); [|rewrite widen_is_join]; apply join_lub; auto.
    Qed.

    Lemma dec_loop_below : forall f i pre st,
      Below st -> le pre (Lpre h) ->
      match dec_loop A OP analyze preds descending use_asm asm vbody h entry_pre f i pre st with
      | Some st' => Below st'
      | None => True
      end.
    Proof.
      induction f as [|f IH]; intros i pre st B L; cbn [dec_loop]; auto.
      assert (B1 : Below (mkE A (e_pre A st) (tset A (e_post A st) h (analyze h pre)) (e_skip A st))).
      { destruct B as (P & Q). split; cbn [e_pre e_post e_skip]; auto.
        apply tset_le; auto. eapply le_trans; [apply analyze_mono; exact L|apply sol_post]. }
      specialize (vbody_below _ B1).
      destruct (vbody _) as [st2|]; auto. rename vbody_below into B2.
      destruct (o_leq A OP pre _); auto.
      destruct (descending <? i); auto.
      assert (LR : le (refine A OP i pre (head_inflow A OP preds use_asm asm h entry_pre st2)) (Lpre h)).
      { unfold refine. destruct (Nat.eqb i 1); [|rewrite narrow_is_meet]; eapply le_trans; [apply meet_l|exact L|apply meet_l|exact L]. }
      apply IH; [|exact LR].
      destruct B2 as (P & Q). split; cbn [e_pre e_post e_skip]; auto.
      apply tset_le; auto.
    Qed.
  End CycleBelow.

  (* the analysis starts at a loop head or outside the loops: since the initial value now
     flows into the entry block wherever it is, this condition is no longer needed by the
     theorems; the definitions are kept for the executable tests that mention them *)
  Definition head_ok (c : comp) (h : nat) : bool := negb (comp_member entry c) || Nat.eqb h entry.
  Fixpoint entry_ok_c (c : comp) : bool :=
    match c with
    | Vertex _ => true
    | Cycle h body =>
      head_ok c h &&
      (fix all (l : list comp) : bool := match l with [] => true | c' :: r => entry_ok_c c' && all r end) body
    end.
  Fixpoint entry_ok (w : list comp) : bool :=
    match w with [] => true | c :: r => entry_ok_c c && entry_ok r end.

  Lemma filtered_join_below h post : (forall p, le (post p) (Lpost p)) -> forall ps acc,
    (forall p, In p ps -> In p (preds h)) ->
    le (strengthen A OP use_asm asm h acc) (Lpre h) ->
    le (strengthen A OP use_asm asm h
          (fold_left (fun acc p => if deeper (nest p) (nest h) then acc else o_join A OP acc (post p)) ps acc))
       (Lpre h).
  Proof.
    intros P. induction ps as [|p r IH]; simpl; intros acc I H; auto.
    apply IH; [intros q J; apply I; right; auto|].
    destruct (deeper _ _); auto.
    apply strengthen_join; auto.
    eapply le_trans; [apply strengthen_mono; apply P|]. apply sol_pre. apply I. left; auto.
  Qed.

  Definition visit_ok (c : comp) : Prop :=
    forall st, Below st ->
      match visit A OP analyze preds nest entry delay descending use_asm asm init fuel c st with
      | Some st' => Below st'
      | None => True
      end.

  Lemma visit_below : forall c, visit_ok c.
  Proof.
    fix IHc 1. intros c. destruct c as [n|h body].
    - intros st B. cbn [visit]. apply visit_vertex_below; auto.
    - intros st B. cbn [visit].
      set (vb := fix vb (l : list comp) (s : est A) {struct l} : option (est A) :=
                   match l with
                   | [] => Some s
                   | c' :: r => match visit A OP analyze preds nest entry delay descending use_asm asm init fuel c' s with
                                | Some s' => vb r s' | None => None end
                   end).
      assert (VB : forall l s, Below s ->
                   match vb l s with Some s' => Below s' | None => True end).
      { induction l as [|c' r IHl]; intros s Bs; cbn.
        - auto.
        - pose proof (IHc c' s Bs) as V.
          destruct (visit A OP analyze preds nest entry delay descending use_asm asm init fuel c' s) as [s'|]; [|exact I].
          apply IHl. exact V. }
      destruct (e_skip A st && negb (e_skip A st && comp_member entry (Cycle h body))); [exact B|].
      destruct B as (P & Q).
      set (st0 := mkE A (e_pre A st) (e_post A st) false).
      assert (B0 : Below st0) by (split; auto).
      assert (EPB : forall ip, (if Nat.eqb h entry then Some init else None) = Some ip ->
                    le (strengthen A OP use_asm asm h ip) (Lpre h)).
      { intros ip E. destruct (Nat.eqb_spec h entry) as [->|NE]; [|discriminate].
        inversion E; subst. apply sol_init. }
      assert (L0 : le (strengthen A OP use_asm asm h
                         (if Nat.eqb h entry then init
                          else fold_left (fun acc p => if deeper (nest p) (nest h) then acc else o_join A OP acc (e_post A st0 p))
                                         (preds h) (o_bot A OP))) (Lpre h)).
      { destruct (Nat.eqb_spec h entry) as [->|NE]; [apply sol_init|].
        apply filtered_join_below; auto. }
      pose proof (inc_loop_below (vb body) (VB body) h _ EPB fuel 1 _ st0 B0 L0) as IL.
      cbn [e_pre e_post e_skip] in *.
      destruct (inc_loop _ _ _ _ _ _ _ _ _ _ _ _ _ _) as [[pre' st']|]; auto.
      destruct IL as (B1 & L1).
      destruct (Nat.eqb descending 0); [exact B1|].
      exact (dec_loop_below (vb body) (VB body) h _ fuel 1 pre' st' B1 L1).
  Qed.

  Lemma visit_all_below : forall w st, Below st ->
    match visit_all A OP analyze preds nest entry delay descending use_asm asm init fuel w st with
    | Some st' => Below st' | None => True end.
  Proof.
    induction w as [|c r IH]; intros st B; cbn [visit_all]; auto.
    pose proof (visit_below c st B) as V.
    destruct (visit _ _ _ _ _ _ _ _ _ _ _ _ _ _) as [st'|]; [|exact I].
    apply IH. exact V.
  Qed.

  (* every table entry of the engine's result is below the solution *)
  Theorem run_below w :
    match run A OP analyze preds nest entry delay descending use_asm asm init fuel w with
    | Some e => (forall n, le (e_pre A e n) (Lpre n)) /\ (forall n, le (e_post A e n) (Lpost n))
    | None => True
    end.
  Proof.
    unfold run.
    set (st0 := mkE A (tset A (fun _ => o_bot A OP) entry init) (fun _ => o_bot A OP) true).
    assert (B0 : Below st0).
    { unfold st0. split; cbn [e_pre e_post e_skip]; auto.
      intros n. unfold tset. destruct (Nat.eqb_spec n entry); subst; auto. }
    pose proof (visit_all_below w st0 B0) as V.
    destruct (visit_all _ _ _ _ _ _ _ _ _ _ _ _ _ _) as [e|]; auto.
    destruct V as (P & Q). split; auto.
  Qed.
End Below.
