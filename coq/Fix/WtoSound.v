(* Fix/WtoSound.v — Bourdoncle's algorithm as implemented iteratively in wto.hpp (model
   Fix/Wto.v) produces a well-formed weak topological ordering: invariants of the
   iterative state (visit stack with cursors, dfn table, vertex stack, loop_nodes),
   for all graphs, entries and successor orders.  The only hypothesis is that the fuel of
   the model was not exhausted ([build g e = Some w]); Fix/WtoTotal.v shows that this never
   happens. *)
From Coq Require Import List Arith Bool Lia.
From CrabV Require Import Fix.Wto Fix.WtoCheck.
Import ListNotations.

Ltac lsimp := repeat first [rewrite <- app_assoc | progress cbn [app]]; try reflexivity.

(* ------------------------------------------------------------------ order facts *)
Definition lok (w : wto) (u v : nat) : Prop := before (flat w) u v \/ encl w v u.

Lemma before_app_l : forall a b u v, before a u v -> before (a ++ b) u v.
Proof.
  intros a b u v [l1 [l2 [l3 H]]]. exists l1, l2, (l3 ++ b). rewrite H. lsimp.
Qed.
Lemma before_app_r : forall a b u v, before b u v -> before (a ++ b) u v.
Proof.
  intros a b u v [l1 [l2 [l3 H]]]. exists (a ++ l1), l2, l3. rewrite H. lsimp.
Qed.
Lemma before_cross : forall a b u v, In u a -> In v b -> before (a ++ b) u v.
Proof.
  intros a b u v Hu Hv. apply in_split in Hu. destruct Hu as [a1 [a2 ->]].
  apply in_split in Hv. destruct Hv as [b1 [b2 ->]].
  exists a1, (a2 ++ b1), b2. lsimp.
Qed.
Lemma encl_app_l : forall a b h u, encl a h u -> encl (a ++ b) h u.
Proof. intros a b h u [c [H1 H2]]. exists c. split; [apply in_or_app; left; exact H1|exact H2]. Qed.
Lemma encl_app_r : forall a b h u, encl b h u -> encl (a ++ b) h u.
Proof. intros a b h u [c [H1 H2]]. exists c. split; [apply in_or_app; right; exact H1|exact H2]. Qed.
Lemma lok_app_l : forall a b u v, lok a u v -> lok (a ++ b) u v.
Proof.
  intros a b u v [H|H]; [left; rewrite flat_app; apply before_app_l, H|right; apply encl_app_l, H].
Qed.
Lemma lok_app_r : forall a b u v, lok b u v -> lok (a ++ b) u v.
Proof.
  intros a b u v [H|H]; [left; rewrite flat_app; apply before_app_r, H|right; apply encl_app_r, H].
Qed.
Lemma lok_cross : forall a b u v, In u (flat a) -> In v (flat b) -> lok (a ++ b) u v.
Proof. intros a b u v Hu Hv. left. rewrite flat_app. apply before_cross; assumption. Qed.
Lemma flat_single : forall c, flat [c] = cnodes c.
Proof. intros c. cbn [flat]. apply app_nil_r. Qed.
Lemma lok_cycle_body : forall h body u v, lok body u v -> lok [Cycle h body] u v.
Proof.
  intros h body u v [H|[c [H1 H2]]].
  - left. rewrite flat_single, cnodes_cycle. destruct H as [l1 [l2 [l3 H]]].
    exists (h :: l1), l2, l3. rewrite H. reflexivity.
  - right. exists (Cycle h body). split; [left; reflexivity|]. apply encl_deep with c; assumption.
Qed.
Lemma lok_cycle_head : forall h body u, In u (h :: flat body) -> lok [Cycle h body] u h.
Proof.
  intros h body u H. right. exists (Cycle h body). split; [left; reflexivity|].
  apply encl_here. rewrite cnodes_cycle. exact H.
Qed.
Lemma lok_head_body : forall h body v, In v (flat body) -> lok [Cycle h body] h v.
Proof.
  intros h body v H. left. rewrite flat_single, cnodes_cycle.
  apply in_split in H. destruct H as [l2 [l3 ->]]. exists [], l2, l3. reflexivity.
Qed.

(* ------------------------------------------------------------------ dfn table facts *)
Lemma upd_same : forall d n v, upd d n v n = v.
Proof. intros. unfold upd. rewrite Nat.eqb_refl. reflexivity. Qed.
Lemma upd_other : forall d n v x, x <> n -> upd d n v x = d x.
Proof. intros d n v x H. unfold upd. apply Nat.eqb_neq in H. rewrite H. reflexivity. Qed.
Lemma dfnv_eq_dec : forall a b : dfnv, {a = b} + {a <> b}.
Proof. decide equality. apply Nat.eq_dec. Qed.
Lemma is_zero_true : forall d, is_zero d = true <-> d = DN 0.
Proof. intros [[|k]|]; cbn; split; congruence. Qed.
Lemma is_zero_false : forall d, is_zero d = false <-> d <> DN 0.
Proof. intros d. rewrite <- is_zero_true. destruct (is_zero d); split; congruence. Qed.

(* the vertex stack segment of one call: depth-first numbers strictly decreasing from the top *)
Fixpoint LSorted (d : nat -> dfnv) (L : list nat) : Prop :=
  match L with
  | [] => True
  | x :: L' => (exists k, d x = DN k /\ 0 < k /\ forall y, In y L' -> exists k', d y = DN k' /\ k' < k)
               /\ LSorted d L'
  end.
Lemma LSorted_fin : forall d L x, LSorted d L -> In x L -> exists k, d x = DN k /\ 0 < k.
Proof.
  induction L as [|y L IH]; intros x H Hx; [destruct Hx|].
  destruct H as [[k [H1 [H2 _]]] H3]. destruct Hx as [<-|Hx]; [exists k; auto|apply IH; assumption].
Qed.
Lemma LSorted_app : forall d A C, LSorted d (A ++ C) ->
  LSorted d A /\ LSorted d C /\
  forall a c, In a A -> In c C -> exists ka kc, d a = DN ka /\ d c = DN kc /\ kc < ka.
Proof.
  induction A as [|x A IH]; intros C H; cbn [app] in *.
  - split; [exact I|]. split; [exact H|]. intros a c [].
  - destruct H as [[k [H1 [H2 H3]]] H4]. destruct (IH C H4) as [IA [IC IX]].
    split; [|split; [exact IC|]].
    + split; [|exact IA]. exists k. split; [exact H1|]. split; [exact H2|].
      intros y Hy. apply H3, in_or_app. left. exact Hy.
    + intros a c [<-|Ha] Hc.
      * destruct (H3 c) as [k' [E1 E2]]; [apply in_or_app; right; exact Hc|]. exists k, k'. auto.
      * apply IX; assumption.
Qed.
Lemma LSorted_ext : forall d d' L, (forall x, In x L -> d' x = d x) -> LSorted d L -> LSorted d' L.
Proof.
  induction L as [|x L IH]; intros He H; [exact I|].
  destruct H as [[k [H1 [H2 H3]]] H4]. split.
  - exists k. split; [rewrite He; [exact H1|left; reflexivity]|]. split; [exact H2|].
    intros y Hy. destruct (H3 y Hy) as [k' [E1 E2]]. exists k'. split; [rewrite He; [exact E1|right; exact Hy]|exact E2].
  - apply IH; [intros y Hy; apply He; right; exact Hy|exact H4].
Qed.
Lemma LSorted_NoDup : forall d L, LSorted d L -> NoDup L.
Proof.
  induction L as [|x L IH]; intros H; [constructor|].
  destruct H as [[k [H1 [H2 H3]]] H4]. constructor; [|apply IH, H4].
  intros Hx. destruct (H3 x Hx) as [k' [E1 E2]]. rewrite H1 in E1. inversion E1. lia.
Qed.
(* two elements of a sorted stack with the same number are the same element *)
Lemma LSorted_inj : forall d L x y k, LSorted d L -> In x L -> In y L -> d x = DN k -> d y = DN k -> x = y.
Proof.
  induction L as [|z L IH]; intros x y k H Hx Hy Ex Ey; [destruct Hx|].
  destruct H as [[kz [H1 [H2 H3]]] H4].
  destruct Hx as [<-|Hx]; destruct Hy as [<-|Hy]; [reflexivity| | |apply IH with k; assumption].
  - destruct (H3 y Hy) as [k' [E1 E2]]. rewrite Ey in E1. rewrite Ex in H1. inversion E1; inversion H1. lia.
  - destruct (H3 x Hx) as [k' [E1 E2]]. rewrite Ex in E1. rewrite Ey in H1. inversion E1; inversion H1. lia.
Qed.

(* pop_until on a stack  T ++ v :: rest  with v not in T *)
Fixpoint reset_all (d : nat -> dfnv) (T : list nat) : nat -> dfnv :=
  match T with [] => d | x :: T' => reset_all (upd d x (DN 0)) T' end.
Lemma pop_until_app : forall v T d rest, ~ In v T ->
  pop_until v d (T ++ v :: rest) = Some (reset_all d T, rest).
Proof.
  induction T as [|x T IH]; intros d rest H; cbn [app pop_until reset_all].
  - rewrite Nat.eqb_refl. reflexivity.
  - destruct (x =? v) eqn:E; [apply Nat.eqb_eq in E; subst; exfalso; apply H; left; reflexivity|].
    apply IH. intros Hv. apply H. right. exact Hv.
Qed.
Lemma reset_all_spec : forall T d x, reset_all d T x = if mem x T then DN 0 else d x.
Proof.
  induction T as [|y T IH]; intros d x; [reflexivity|]. cbn [reset_all]. rewrite IH.
  unfold mem. cbn [existsb]. fold (mem x T). unfold upd.
  destruct (x =? y); destruct (mem x T); reflexivity.
Qed.
Lemma reset_all_in : forall T d x, In x T -> reset_all d T x = DN 0.
Proof. intros T d x H. rewrite reset_all_spec. apply mem_In in H. rewrite H. reflexivity. Qed.
Lemma reset_all_out : forall T d x, ~ In x T -> reset_all d T x = d x.
Proof. intros T d x H. rewrite reset_all_spec. apply mem_false in H. rewrite H. reflexivity. Qed.

(* ================================================================== invariant of one call
   of wto::visit.  Ghost context of the call: d0 = dfn table at the call, B = vertex stack
   at the call, P0 = partition at the call, r = the vertex the call was made on, k0 = _num
   at the call, Reg = the region the call may touch (closed under successors up to nodes
   that are already done, and containing no node with a finite number). *)
Section Call.
Variable g : graph.
Variable e : nat.

(* status of a scanned successor y of a node of the stack segment Li whose owner frame has
   minimum m; [up] is the node of the frame above (the tree child being explored) *)
Definition SOK (d : nat -> dfnv) (up : option nat) (Li : list nat) (m : nat) (y : nat) : Prop :=
  d y = DInf \/ (In y Li /\ exists k, d y = DN k /\ m <= k) \/ up = Some y.

Definition FrameOK (d : nat -> dfnv) (ln : list nat) (up : option nat)
           (f : frame) (T L' : list nat) : Prop :=
  exists k pre,
    d (fnode f) = DN k /\ fmin f <= k /\
    (fmin f = k \/ exists w, In w (T ++ fnode f :: L') /\ In w ln /\ d w = DN (fmin f)) /\
    succs g (fnode f) = pre ++ fcur f /\
    (forall y, In y pre -> SOK d up (T ++ fnode f :: L') (fmin f) y) /\
    (In (fnode f) pre -> In (fnode f) ln \/ fmin f < k) /\
    (forall x, In x T ->
       (forall y, In y (succs g x) -> SOK d up (T ++ fnode f :: L') (fmin f) y) /\
       exists w kw kx, In w (T ++ fnode f :: L') /\ In w ln /\ d w = DN kw /\ d x = DN kx /\
                       fmin f <= kw /\ kw < kx).

(* depth-first tree facts of a frame: the completed nodes T above its node n were reached
   from n through nodes of T, and the node of the frame above is a successor of n *)
Inductive tpath (S : list nat) : nat -> nat -> Prop :=
| tp_refl : forall x, tpath S x x
| tp_step : forall x y z, tpath S x y -> In z (succs g y) -> In z S -> tpath S x z.
Lemma tpath_incl : forall S S' x y, incl S S' -> tpath S x y -> tpath S' x y.
Proof.
  intros S S' x y Hi H. induction H; [constructor|]. apply tp_step with y; auto.
Qed.
Lemma tpath_trans : forall S x y z, tpath S x y -> tpath S y z -> tpath S x z.
Proof.
  intros S x y z H1 H2. induction H2; [exact H1|]. apply tp_step with y; auto.
Qed.
Definition FrameTree (up : option nat) (f : frame) (T : list nat) : Prop :=
  (forall x, In x T -> tpath (T ++ [fnode f]) (fnode f) x) /\
  (forall u, up = Some u -> In u (succs g (fnode f))).

Fixpoint Frames (d : nat -> dfnv) (ln : list nat) (up : option nat)
         (vs : list frame) (L : list nat) : Prop :=
  match vs with
  | [] => L = []
  | f :: vs' => exists T L', L = T ++ fnode f :: L' /\ FrameOK d ln up f T L' /\
                             FrameTree up f T /\
                             Frames d ln (Some (fnode f)) vs' L'
  end.

Lemma SOK_stable : forall d d' up Li m y,
  (forall x, In x Li -> d' x = d x) -> (forall x, d x = DInf -> d' x = DInf) ->
  SOK d up Li m y -> SOK d' up Li m y.
Proof.
  intros d d' up Li m y He Hd [H|[[H1 [k [H2 H3]]]|H]].
  - left. apply Hd, H.
  - right. left. split; [exact H1|]. exists k. split; [rewrite He; assumption|exact H3].
  - right. right. exact H.
Qed.

Lemma FrameOK_stable : forall d d' ln ln' up f T L',
  (forall x, In x (T ++ fnode f :: L') -> d' x = d x) -> (forall x, d x = DInf -> d' x = DInf) ->
  incl ln ln' -> FrameOK d ln up f T L' -> FrameOK d' ln' up f T L'.
Proof.
  intros d d' ln ln' up f T L' He Hd Hl [k [pre [H1 [H2 [H3 [H4 [H5 [H6 H7]]]]]]]].
  assert (Hn : In (fnode f) (T ++ fnode f :: L')) by (apply in_or_app; right; left; reflexivity).
  exists k, pre. split; [rewrite He; assumption|]. split; [exact H2|]. split.
  { destruct H3 as [H3|[w [W1 [W2 W3]]]]; [left; exact H3|right].
    exists w. split; [exact W1|]. split; [apply Hl, W2|rewrite He; assumption]. }
  split; [exact H4|]. split.
  { intros y Hy. apply SOK_stable with d; auto. }
  split.
  { intros Hin. destruct (H6 Hin) as [H|H]; [left; apply Hl, H|right; exact H]. }
  intros x Hx. destruct (H7 x Hx) as [S1 [w [kw [kx [W1 [W2 [W3 [W4 [W5 W6]]]]]]]]]. split.
  { intros y Hy. apply SOK_stable with d; auto. }
  exists w, kw, kx. split; [exact W1|]. split; [apply Hl, W2|].
  split; [rewrite He; assumption|]. split; [|split; assumption].
  rewrite He; [exact W4|]. apply in_or_app. left. exact Hx.
Qed.

Lemma Frames_stable : forall d d' ln ln' vs up L,
  (forall x, In x L -> d' x = d x) -> (forall x, d x = DInf -> d' x = DInf) ->
  incl ln ln' -> Frames d ln up vs L -> Frames d' ln' up vs L.
Proof.
  induction vs as [|f vs IH]; intros up L He Hd Hl H; cbn [Frames] in *; [exact H|].
  destruct H as [T [L' [-> [H1 [HT H2]]]]]. exists T, L'. split; [reflexivity|]. split; [|split; [exact HT|]].
  - apply FrameOK_stable with d ln; auto.
  - apply IH; auto. intros x Hx. apply He. apply in_or_app. right. right. exact Hx.
Qed.

Variable d0 : nat -> dfnv.
Variable B : list nat.
Variable P0 : wto.
Variable Reg : nat -> Prop.
Variable r : nat.
Variable k0 : nat.

Record Inv (L : list nat) (new : wto) (vs : list frame) (ln : list nat) (s : st) : Prop := {
  inv_stk : stk s = L ++ B;
  inv_frames : Frames (dfn s) ln None vs L;
  inv_sorted : LSorted (dfn s) L;
  inv_num : forall x k, In x L -> dfn s x = DN k -> k <= num s;
  inv_gt : forall x k, In x L -> dfn s x = DN k -> k0 < k;
  inv_root : dfn s r = DN (S k0) \/ dfn s r = DInf;
  inv_regr : Reg r;
  inv_closed : forall x y, Reg x -> In y (succs g x) -> Reg y \/ d0 y = DInf;
  inv_wd : forall x, Reg x -> d0 x = DN 0 \/ d0 x = DInf;
  inv_done0 : forall x, d0 x = DInf -> dfn s x = DInf;
  inv_nreg : forall x, dfn s x <> d0 x -> Reg x;
  inv_Lreg : forall x, In x L -> Reg x;
  inv_finL : forall x k, Reg x -> dfn s x = DN k -> 0 < k -> In x L;
  inv_new : forall x, In x (flat new) <-> (dfn s x = DInf /\ d0 x <> DInf);
  inv_nodup : NoDup (flat new);
  inv_edges : forall u v, In u (flat new) -> In v (succs g u) ->
                          dfn s v = DInf /\ (d0 v = DInf \/ lok new u v);
  inv_reach : forall x, dfn s x <> DN 0 -> reachable g e x;
  inv_k0 : k0 <= num s
}.


Lemma SOK_up : forall d up up' Li m y, (up = None \/ up = up') -> SOK d up Li m y -> SOK d up' Li m y.
Proof.
  intros d up up' Li m y Hu [H|[H|H]]; [left; exact H|right; left; exact H|].
  destruct Hu as [->| ->]; [discriminate|right; right; exact H].
Qed.

(* advancing the cursor of a frame past a successor c that is accounted for *)
Lemma FrameOK_advance : forall d ln up up' f T L' c rest,
  FrameOK d ln up f T L' -> fcur f = c :: rest -> (up = None \/ up = up') ->
  SOK d up' (T ++ fnode f :: L') (fmin f) c ->
  (c = fnode f -> In c ln \/ forall k, d c = DN k -> fmin f < k) ->
  FrameOK d ln up' (mkframe (fnode f) rest (fmin f)) T L'.
Proof.
  intros d ln up up' f T L' c rest [k [pre [H1 [H2 [H3 [H4 [H5 [H6 H7]]]]]]]] Hc Hu Hs Hself.
  exists k, (pre ++ [c]). cbn [fnode fcur fmin].
  split; [exact H1|]. split; [exact H2|]. split; [exact H3|].
  split; [rewrite H4, Hc; lsimp|]. split.
  { intros y Hy. apply in_app_or in Hy. destruct Hy as [Hy|[<-|[]]]; [|exact Hs].
    apply SOK_up with up; auto. }
  split.
  { intros Hin. apply in_app_or in Hin. destruct Hin as [Hin|[Hin|[]]]; [apply H6, Hin|].
    destruct (Hself Hin) as [H|H]; [left; rewrite <- Hin; exact H|right; apply H; rewrite Hin; exact H1]. }
  intros x Hx. destruct (H7 x Hx) as [S1 W]. split; [|exact W].
  intros y Hy. apply SOK_up with up; auto.
Qed.

Lemma FrameOK_node_in : forall d ln up f T L', FrameOK d ln up f T L' ->
  exists k pre, d (fnode f) = DN k /\ succs g (fnode f) = pre ++ fcur f.
Proof. intros d ln up f T L' [k [pre [H1 [_ [_ [H4 _]]]]]]. exists k, pre. auto. Qed.

Lemma step_discover : forall L new fr vs' ln s child rest,
  Inv L new (fr :: vs') ln s -> fcur fr = child :: rest -> dfn s child = DN 0 ->
  Inv (child :: L) new
      (new_frame g child (discover child s) :: mkframe (fnode fr) rest (fmin fr) :: vs') ln
      (discover child s).
Proof.
  intros L new fr vs' ln s child rest I Hc Hw.
  pose proof (inv_frames _ _ _ _ _ I) as HF. cbn [Frames] in HF.
  destruct HF as [T [L' [EL [HFr [HTr HFs]]]]].
  destruct (FrameOK_node_in _ _ _ _ _ _ HFr) as [kn [pre [Hdn Hsucc]]].
  assert (HnL : In (fnode fr) L) by (rewrite EL; apply in_or_app; right; left; reflexivity).
  assert (Hchild_succ : In child (succs g (fnode fr))).
  { rewrite Hsucc, Hc. apply in_or_app. right. left. reflexivity. }
  assert (Hkn : 0 < kn).
  { destruct (LSorted_fin _ _ _ (inv_sorted _ _ _ _ _ I) HnL) as [k [E1 E2]]. rewrite Hdn in E1. inversion E1. lia. }
  assert (Hcn : child <> fnode fr).
  { intros E. rewrite E, Hdn in Hw. inversion Hw. lia. }
  assert (HnotL : ~ In child L).
  { intros Hin. destruct (LSorted_fin _ _ _ (inv_sorted _ _ _ _ _ I) Hin) as [k [E1 E2]].
    rewrite Hw in E1. inversion E1. lia. }
  assert (Hd1 : forall x, x <> child -> dfn (discover child s) x = dfn s x).
  { intros x Hx. cbn [discover dfn]. apply upd_other, Hx. }
  assert (Hd1c : dfn (discover child s) child = DN (S (num s))).
  { cbn [discover dfn]. apply upd_same. }
  assert (HdL : forall x, In x L -> dfn (discover child s) x = dfn s x).
  { intros x Hx. apply Hd1. intros ->. contradiction. }
  assert (HdInf : forall x, dfn s x = DInf -> dfn (discover child s) x = DInf).
  { intros x Hx. rewrite Hd1; [exact Hx|]. intros ->. rewrite Hw in Hx. discriminate. }
  assert (HRegc : Reg child).
  { destruct (inv_closed _ _ _ _ _ I (fnode fr) child) as [H|H]; auto.
    - apply (inv_Lreg _ _ _ _ _ I), HnL.
    - apply (inv_done0 _ _ _ _ _ I) in H. rewrite Hw in H. discriminate. }
  constructor.
  - cbn [discover stk]. rewrite (inv_stk _ _ _ _ _ I). reflexivity.
  - cbn [Frames]. exists [], L. split; [reflexivity|]. split; [|split; [split; [intros x []|intros u Hu; discriminate]|]].
    + exists (S (num s)), []. cbn [new_frame fnode fmin fcur discover num app].
      split; [exact Hd1c|]. split; [lia|]. split; [left; reflexivity|]. split; [reflexivity|].
      split; [intros y []|]. split; [intros []|intros x []].
    + exists T, L'. cbn [fnode]. split; [exact EL|]. split; [|split].
      * apply FrameOK_advance with (up := None) (f := fr) (c := child); auto.
        { apply FrameOK_stable with (dfn s) ln; auto.
          - intros x Hx. apply HdL. rewrite EL. exact Hx.
          - apply incl_refl. }
        { right. right. reflexivity. }
        { intros E. contradiction. }
      * destruct HTr as [HT1 HT2]. split; [exact HT1|]. intros u Hu. inversion Hu. subst u. exact Hchild_succ.
      * apply Frames_stable with (dfn s) ln; auto; [|apply incl_refl].
        intros x Hx. apply HdL. rewrite EL. apply in_or_app. right. right. exact Hx.
  - cbn [LSorted]. split.
    + exists (S (num s)). split; [exact Hd1c|]. split; [lia|].
      intros y Hy. destruct (LSorted_fin _ _ _ (inv_sorted _ _ _ _ _ I) Hy) as [k [E1 E2]].
      exists k. split; [rewrite HdL; assumption|].
      pose proof (inv_num _ _ _ _ _ I y k Hy E1). lia.
    + apply LSorted_ext with (dfn s); [exact HdL|apply (inv_sorted _ _ _ _ _ I)].
  - intros x k [<-|Hx] Hk.
    + rewrite Hd1c in Hk. inversion Hk. cbn [discover num]. lia.
    + rewrite HdL in Hk by exact Hx. pose proof (inv_num _ _ _ _ _ I x k Hx Hk). cbn [discover num]. lia.
  - intros x k [<-|Hx] Hk.
    + rewrite Hd1c in Hk. inversion Hk. pose proof (inv_k0 _ _ _ _ _ I). lia.
    + rewrite HdL in Hk by exact Hx. apply (inv_gt _ _ _ _ _ I x k Hx Hk).
  - assert (Hrc : r <> child).
    { intros E. destruct (inv_root _ _ _ _ _ I) as [H'|H']; rewrite E, Hw in H'; discriminate. }
    rewrite Hd1 by assumption. apply (inv_root _ _ _ _ _ I).
  - apply (inv_regr _ _ _ _ _ I).
  - apply (inv_closed _ _ _ _ _ I).
  - apply (inv_wd _ _ _ _ _ I).
  - intros x Hx. apply HdInf, (inv_done0 _ _ _ _ _ I), Hx.
  - intros x Hx. destruct (Nat.eq_dec x child) as [->|Hne]; [exact HRegc|].
    rewrite Hd1 in Hx by exact Hne. apply (inv_nreg _ _ _ _ _ I), Hx.
  - intros x [<-|Hx]; [exact HRegc|apply (inv_Lreg _ _ _ _ _ I), Hx].
  - intros x k HR Hk Hpos. destruct (Nat.eq_dec x child) as [->|Hne]; [left; reflexivity|].
    right. rewrite Hd1 in Hk by exact Hne. apply (inv_finL _ _ _ _ _ I x k); assumption.
  - intros x. rewrite (inv_new _ _ _ _ _ I x). destruct (Nat.eq_dec x child) as [->|Hne].
    + rewrite Hw, Hd1c. split; intros [H _]; discriminate.
    + rewrite Hd1 by exact Hne. reflexivity.
  - apply (inv_nodup _ _ _ _ _ I).
  - intros u v Hu Hv. destruct (inv_edges _ _ _ _ _ I u v Hu Hv) as [H1 H2]. split; [apply HdInf, H1|exact H2].
  - intros x Hx. destruct (Nat.eq_dec x child) as [->|Hne].
    + apply reach_step with (fnode fr); [|exact Hchild_succ].
      apply (inv_reach _ _ _ _ _ I). rewrite Hdn. intros E. inversion E. lia.
    + rewrite Hd1 in Hx by exact Hne. apply (inv_reach _ _ _ _ _ I), Hx.
  - cbn [discover num]. pose proof (inv_k0 _ _ _ _ _ I). lia.
Qed.

Lemma SOK_weaken : forall d up Li m m' y, m' <= m -> SOK d up Li m y -> SOK d up Li m' y.
Proof.
  intros d up Li m m' y Hm [H|[[H1 [k [H2 H3]]]|H]]; [left; exact H| |right; right; exact H].
  right. left. split; [exact H1|]. exists k. split; [exact H2|lia].
Qed.

Lemma Inv_frames_change : forall L new vs ln vs' ln' s,
  Inv L new vs ln s -> Frames (dfn s) ln' None vs' L -> Inv L new vs' ln' s.
Proof. intros L new vs ln vs' ln' s I HF. destruct I. constructor; assumption. Qed.

(* a scanned successor with a finite number belongs to the stack segment of the call *)
Lemma finite_succ_in_L : forall L new vs ln s x y k,
  Inv L new vs ln s -> In x L -> In y (succs g x) -> dfn s y = DN k -> 0 < k -> In y L.
Proof.
  intros L new vs ln s x y k I Hx Hy Hk Hpos.
  apply (inv_finL _ _ _ _ _ I y k); auto.
  destruct (inv_closed _ _ _ _ _ I x y) as [H|H]; auto.
  - apply (inv_Lreg _ _ _ _ _ I), Hx.
  - apply (inv_done0 _ _ _ _ _ I) in H. rewrite Hk in H. discriminate.
Qed.

Lemma step_scan_skip : forall L new fr vs' ln s child rest,
  Inv L new (fr :: vs') ln s -> fcur fr = child :: rest -> dfn s child <> DN 0 ->
  dfn_le_nat (dfn s child) (fmin fr) = false ->
  Inv L new (mkframe (fnode fr) rest (fmin fr) :: vs') ln s.
Proof.
  intros L new fr vs' ln s child rest I Hc Hnw Hle.
  pose proof (inv_frames _ _ _ _ _ I) as HF. cbn [Frames] in HF.
  destruct HF as [T [L' [EL [HFr [HTr HFs]]]]].
  destruct (FrameOK_node_in _ _ _ _ _ _ HFr) as [kn [pre [Hdn Hsucc]]].
  assert (HnL : In (fnode fr) L) by (rewrite EL; apply in_or_app; right; left; reflexivity).
  assert (Hchild_succ : In child (succs g (fnode fr))).
  { rewrite Hsucc, Hc. apply in_or_app. right. left. reflexivity. }
  apply Inv_frames_change with (fr :: vs') ln; [exact I|].
  cbn [Frames]. exists T, L'. cbn [fnode]. split; [exact EL|]. split; [|split; [exact HTr|exact HFs]].
  apply FrameOK_advance with (up := None) (f := fr) (c := child); auto.
  - destruct (dfn s child) as [k|] eqn:Ek; [|left; exact Ek].
    cbn [dfn_le_nat] in Hle. apply Nat.leb_gt in Hle.
    right. left. split.
    + rewrite <- EL. apply (finite_succ_in_L _ _ _ _ _ (fnode fr) child k I); auto. lia.
    + exists k. split; [exact Ek|lia].
  - intros E. right. intros k Hk. rewrite Hk in Hle. cbn [dfn_le_nat] in Hle. apply Nat.leb_gt in Hle. exact Hle.
Qed.

Lemma step_scan_lower : forall L new fr vs' ln s child rest k,
  Inv L new (fr :: vs') ln s -> fcur fr = child :: rest -> dfn s child = DN k -> k <> 0 ->
  k <= fmin fr ->
  Inv L new (mkframe (fnode fr) rest k :: vs') (child :: ln) s.
Proof.
  intros L new fr vs' ln s child rest k I Hc Hk Hk0 Hle.
  pose proof (inv_frames _ _ _ _ _ I) as HF. cbn [Frames] in HF.
  destruct HF as [T [L' [EL [HFr [HTr HFs]]]]].
  assert (HnL : In (fnode fr) L) by (rewrite EL; apply in_or_app; right; left; reflexivity).
  destruct HFr as [kn [pre [H1 [H2 [H3 [H4 [H5 [H6 H7]]]]]]]].
  assert (Hchild_succ : In child (succs g (fnode fr))).
  { rewrite H4, Hc. apply in_or_app. right. left. reflexivity. }
  assert (HcL : In child (T ++ fnode fr :: L')).
  { rewrite <- EL. apply (finite_succ_in_L _ _ _ _ _ (fnode fr) child k I); auto. lia. }
  apply Inv_frames_change with (fr :: vs') ln; [exact I|].
  cbn [Frames]. exists T, L'. cbn [fnode]. split; [exact EL|]. split; [|split; [exact HTr|]].
  - exists kn, (pre ++ [child]). cbn [fnode fmin fcur].
    split; [exact H1|]. split; [lia|]. split.
    { right. exists child. split; [exact HcL|]. split; [left; reflexivity|exact Hk]. }
    split; [rewrite H4, Hc; lsimp|]. split.
    { intros y Hy. apply in_app_or in Hy. destruct Hy as [Hy|[<-|[]]].
      - apply SOK_weaken with (fmin fr); auto.
      - right. left. split; [exact HcL|]. exists k. split; [exact Hk|lia]. }
    split.
    { intros Hin. apply in_app_or in Hin. destruct Hin as [Hin|[Hin|[]]].
      - destruct (H6 Hin) as [H|H]; [left; right; exact H|right; lia].
      - left. left. exact Hin. }
    intros x Hx. destruct (H7 x Hx) as [S1 [w [kw [kx [W1 [W2 [W3 [W4 [W5 W6]]]]]]]]]. split.
    { intros y Hy. apply SOK_weaken with (fmin fr); auto. }
    exists w, kw, kx. split; [exact W1|]. split; [right; exact W2|]. split; [exact W3|].
    split; [exact W4|]. split; [lia|exact W6].
  - apply Frames_stable with (dfn s) ln; auto. intros x Hx. right. exact Hx.
Qed.

Lemma SOK_lift : forall d n Ls Lbig m m' kn y,
  SOK d (Some n) Ls m y -> incl Ls Lbig -> In n Lbig -> d n = DN kn -> m' <= m -> m' <= kn ->
  SOK d None Lbig m' y.
Proof.
  intros d n Ls Lbig m m' kn y [H|[[H1 [k [H2 H3]]]|H]] Hi Hn Hd Hm Hk.
  - left. exact H.
  - right. left. split; [apply Hi, H1|]. exists k. split; [exact H2|lia].
  - inversion H; subst. right. left. split; [exact Hn|]. exists kn. split; [exact Hd|lia].
Qed.

Lemma SOK_incl : forall d up Ls Lbig m y, incl Ls Lbig -> SOK d up Ls m y -> SOK d up Lbig m y.
Proof.
  intros d up Ls Lbig m y Hi [H|[[H1 H2]|H]]; [left; exact H|right; left; split; [apply Hi, H1|exact H2]|right; right; exact H].
Qed.

(* the frame on top is exhausted: facts about it *)
Lemma top_exhausted : forall d ln up f T L', FrameOK d ln up f T L' -> fcur f = [] ->
  exists k, d (fnode f) = DN k /\ fmin f <= k /\
    (fmin f = k \/ exists w, In w (T ++ fnode f :: L') /\ In w ln /\ d w = DN (fmin f)) /\
    (forall y, In y (succs g (fnode f)) -> SOK d up (T ++ fnode f :: L') (fmin f) y) /\
    (In (fnode f) (succs g (fnode f)) -> In (fnode f) ln \/ fmin f < k) /\
    (forall x, In x T ->
       (forall y, In y (succs g x) -> SOK d up (T ++ fnode f :: L') (fmin f) y) /\
       exists w kw kx, In w (T ++ fnode f :: L') /\ In w ln /\ d w = DN kw /\ d x = DN kx /\
                       fmin f <= kw /\ kw < kx).
Proof.
  intros d ln up f T L' [k [pre [H1 [H2 [H3 [H4 [H5 [H6 H7]]]]]]]] Hc.
  rewrite Hc, app_nil_r in H4. subst pre. exists k. auto 10.
Qed.

Lemma step_pop_stay : forall L new fr vs' ln s k,
  Inv L new (fr :: vs') ln s -> fcur fr = [] -> dfn s (fnode fr) = DN k -> fmin fr <> k ->
  Inv L new (prop_min (fmin fr) vs') ln s.
Proof.
  intros L new fr vs' ln s k I Hc Hk Hne.
  pose proof (inv_frames _ _ _ _ _ I) as HF. cbn [Frames] in HF.
  destruct HF as [T [L' [EL [HFr [HTr HFs]]]]].
  destruct (top_exhausted _ _ _ _ _ _ HFr Hc) as [kn [H1 [H2 [H3 [H5 [H6 H7]]]]]].
  rewrite Hk in H1. inversion H1. subst kn. clear H1.
  pose proof (inv_sorted _ _ _ _ _ I) as HS.
  destruct vs' as [|p vs''].
  - (* the root frame cannot stay *)
    exfalso. cbn [Frames] in HFs. subst L'. destruct H3 as [H3|[w [W1 [W2 W3]]]]; [contradiction|].
    apply in_app_or in W1. destruct W1 as [W1|[W1|[]]].
    + rewrite EL in HS. destruct (LSorted_app _ _ _ HS) as [_ [_ HX]].
      destruct (HX w (fnode fr) W1) as [ka [kc [E1 [E2 E3]]]]; [left; reflexivity|].
      rewrite W3 in E1. rewrite Hk in E2. inversion E1. inversion E2. lia.
    + subst w. rewrite Hk in W3. inversion W3. lia.
  - destruct p as [np cp mp]. cbn [Frames fnode] in HFs.
    destruct HFs as [T' [L'' [EL' [HFp [[HTp1 HTp2] HFs']]]]]. destruct HTr as [HTr1 _].
    destruct HFp as [kp [prep [P1 [P2 [P3 [P4 [P5 [P6 P7]]]]]]]]. cbn [fnode fmin fcur] in *.
    set (m' := if fmin fr <? mp then fmin fr else mp).
    assert (Hm1 : m' <= mp) by (unfold m'; destruct (fmin fr <? mp) eqn:E; [apply Nat.ltb_lt in E; lia|lia]).
    assert (Hm2 : m' <= fmin fr) by (unfold m'; destruct (fmin fr <? mp) eqn:E; [lia|apply Nat.ltb_ge in E; lia]).
    assert (EQ : (T ++ fnode fr :: T') ++ np :: L'' = L) by (rewrite EL, EL'; lsimp).
    assert (HnL : In (fnode fr) L) by (rewrite EL; apply in_or_app; right; left; reflexivity).
    assert (Hinc : incl (T' ++ np :: L'') L).
    { rewrite <- EL'. rewrite EL. intros x Hx. apply in_or_app. right. right. exact Hx. }
    assert (HFnew : FrameOK (dfn s) ln None (mkframe np cp m') (T ++ fnode fr :: T') L'').
    { exists kp, prep. cbn [fnode fmin fcur]. rewrite EQ.
      split; [exact P1|]. split; [lia|]. split.
      { unfold m'. destruct (fmin fr <? mp) eqn:E.
        - right. destruct H3 as [H3|[w [W1 [W2 W3]]]]; [contradiction|].
          exists w. rewrite EL. auto.
        - destruct P3 as [P3|[w [W1 [W2 W3]]]]; [left; exact P3|right].
          exists w. split; [apply Hinc, W1|auto]. }
      split; [exact P4|]. split.
      { intros y Hy. apply SOK_lift with (fnode fr) (T' ++ np :: L'') mp k; auto. lia. }
      split.
      { intros Hin. destruct (P6 Hin) as [H|H]; [left; exact H|right; lia]. }
      intros x Hx. apply in_app_or in Hx. destruct Hx as [Hx|[<-|Hx]].
      - destruct (H7 x Hx) as [S1 [w [kw [kx [W1 [W2 [W3 [W4 [W5 W6]]]]]]]]]. split.
        + intros y Hy. rewrite EL. apply SOK_weaken with (fmin fr); auto.
        + exists w, kw, kx. rewrite EL. split; [exact W1|]. split; [exact W2|]. split; [exact W3|].
          split; [exact W4|]. split; [lia|exact W6].
      - split.
        + intros y Hy. rewrite EL. apply SOK_weaken with (fmin fr); auto.
        + destruct H3 as [H3|[w [W1 [W2 W3]]]]; [contradiction|].
          exists w, (fmin fr), k. rewrite EL. split; [exact W1|]. split; [exact W2|]. split; [exact W3|].
          split; [exact Hk|]. split; lia.
      - destruct (P7 x Hx) as [S1 [w [kw [kx [W1 [W2 [W3 [W4 [W5 W6]]]]]]]]]. split.
        + intros y Hy. apply SOK_lift with (fnode fr) (T' ++ np :: L'') mp k; auto. lia.
        + exists w, kw, kx. split; [apply Hinc, W1|]. split; [exact W2|]. split; [exact W3|].
          split; [exact W4|]. split; [lia|exact W6]. }
    apply Inv_frames_change with (fr :: mkframe np cp mp :: vs'') ln; [exact I|].
    cbn [prop_min fmin fnode fcur]. fold m'.
    assert (HFr' : Frames (dfn s) ln None (mkframe np cp m' :: vs'') L).
    { cbn [Frames fnode]. exists (T ++ fnode fr :: T'), L''. split; [symmetry; exact EQ|]. split; [exact HFnew|].
      split; [|exact HFs']. split; [|intros u Hu; discriminate].
      assert (Hedge : tpath ((T ++ fnode fr :: T') ++ [np]) np (fnode fr)).
      { apply tp_step with np; [constructor|apply HTp2; reflexivity|].
        apply in_or_app. left. apply in_or_app. right. left. reflexivity. }
      intros x Hx. apply in_app_or in Hx. destruct Hx as [Hx|[<-|Hx]].
      - apply tpath_trans with (fnode fr); [exact Hedge|].
        apply tpath_incl with (T ++ [fnode fr]); [|apply HTr1, Hx].
        intros z Hz. apply in_app_or in Hz. apply in_or_app. left. apply in_or_app.
        destruct Hz as [Hz|[<-|[]]]; [left; exact Hz|right; left; reflexivity].
      - exact Hedge.
      - apply tpath_incl with (T' ++ [np]); [|apply HTp1, Hx].
        intros z Hz. apply in_app_or in Hz. apply in_or_app.
        destruct Hz as [Hz|Hz]; [left; apply in_or_app; right; right; exact Hz|right; exact Hz]. }
    unfold m' in HFr'. destruct (fmin fr <? mp); exact HFr'.
Qed.

Lemma LSorted_mid : forall d A x C, LSorted d (A ++ x :: C) ->
  exists kx, d x = DN kx /\ 0 < kx /\
    (forall a, In a A -> exists ka, d a = DN ka /\ kx < ka) /\
    (forall c, In c C -> exists kc, d c = DN kc /\ kc < kx).
Proof.
  intros d A x C H. destruct (LSorted_app _ _ _ H) as [_ [HC HX]].
  destruct HC as [[kx [E1 [E2 E3]]] _]. exists kx. split; [exact E1|]. split; [exact E2|]. split.
  - intros a Ha. destruct (HX a x Ha) as [ka [kc [F1 [F2 F3]]]]; [left; reflexivity|].
    rewrite E1 in F2. inversion F2. subst. exists ka. auto.
  - exact E3.
Qed.

Lemma FrameOK_mono_SOK : forall d ln up up' f T L',
  (forall y, SOK d up (T ++ fnode f :: L') (fmin f) y -> SOK d up' (T ++ fnode f :: L') (fmin f) y) ->
  FrameOK d ln up f T L' -> FrameOK d ln up' f T L'.
Proof.
  intros d ln up up' f T L' Hm [k [pre [H1 [H2 [H3 [H4 [H5 [H6 H7]]]]]]]].
  exists k, pre. split; [exact H1|]. split; [exact H2|]. split; [exact H3|]. split; [exact H4|].
  split; [intros y Hy; apply Hm, H5, Hy|]. split; [exact H6|].
  intros x Hx. destruct (H7 x Hx) as [S1 W]. split; [intros y Hy; apply Hm, S1, Hy|exact W].
Qed.

(* the frame below a completed (done) frame becomes the top frame *)
Lemma Frames_below_done : forall d ln v vs L, Frames d ln (Some v) vs L -> d v = DInf ->
  Frames d ln None vs L.
Proof.
  intros d ln v vs L H Hv. destruct vs as [|p vs]; [exact H|]. cbn [Frames] in *.
  destruct H as [T [L' [EL [HF [[HT1 HT2] HFs]]]]]. exists T, L'. split; [exact EL|].
  split; [|split; [split; [exact HT1|intros u Hu; discriminate]|exact HFs]].
  apply FrameOK_mono_SOK with (Some v); [|exact HF].
  intros y [H|[H|H]]; [left; exact H|right; left; exact H|]. inversion H; subst. left. exact Hv.
Qed.

(* a head that is not in loop_nodes has nothing above it on the stack *)
Lemma head_not_loop : forall d ln up f T L' k,
  LSorted d (T ++ fnode f :: L') -> FrameOK d ln up f T L' -> fcur f = [] ->
  d (fnode f) = DN k -> fmin f = k -> ~ In (fnode f) ln -> T = [].
Proof.
  intros d ln up f T L' k HS HF Hc Hk Hm Hln.
  destruct (top_exhausted _ _ _ _ _ _ HF Hc) as [kn [H1 [H2 [H3 [H5 [H6 H7]]]]]].
  destruct T as [|t T0]; [reflexivity|]. exfalso.
  destruct (@exists_last _ (t :: T0)) as [T1 [x Ex]]; [discriminate|]. rewrite Ex in *.
  destruct (H7 x) as [_ [w [kw [kx [W1 [W2 [W3 [W4 [W5 W6]]]]]]]]]; [apply in_or_app; right; left; reflexivity|].
  assert (EQ : (T1 ++ [x]) ++ fnode f :: L' = T1 ++ x :: fnode f :: L') by lsimp.
  rewrite EQ in *.
  destruct (LSorted_mid _ _ _ _ HS) as [kx' [E1 [E2 [E3 E4]]]].
  rewrite W4 in E1. inversion E1. subst kx'.
  apply in_app_or in W1. destruct W1 as [W1|[W1|[W1|W1]]].
  - destruct (E3 w W1) as [ka [F1 F2]]. rewrite W3 in F1. inversion F1. lia.
  - subst w. rewrite W4 in W3. inversion W3. lia.
  - subst w. contradiction.
  - destruct (E4 (fnode f)) as [kc [F1 F2]]; [left; reflexivity|].
    destruct (LSorted_app _ _ _ HS) as [_ [HS2 _]]. destruct HS2 as [_ HS3].
    destruct HS3 as [[kf [G1 [G2 G3]]] _]. destruct (G3 w W1) as [kw' [G4 G5]].
    rewrite W3 in G4. inversion G4. rewrite Hk in G1. inversion G1. lia.
Qed.

Lemma prop_min_id : forall d ln v vs L' m,
  Frames d ln (Some v) vs L' ->
  (forall c, In c L' -> exists kc, d c = DN kc /\ kc < m) ->
  prop_min m vs = vs.
Proof.
  intros d ln v vs L' m HF Hlt. destruct vs as [|p vs]; [reflexivity|]. cbn [prop_min].
  cbn [Frames] in HF. destruct HF as [T [L'' [EL [[kp [pre [P1 [P2 _]]]] _]]]].
  destruct (Hlt (fnode p)) as [kc [E1 E2]]; [rewrite EL; apply in_or_app; right; left; reflexivity|].
  rewrite P1 in E1. inversion E1. subst kc.
  destruct (m <? fmin p) eqn:E; [apply Nat.ltb_lt in E; lia|reflexivity].
Qed.

Lemma step_pop_vertex : forall L new fr vs' ln s k x stk2,
  Inv L new (fr :: vs') ln s -> fcur fr = [] -> dfn s (fnode fr) = DN k -> fmin fr = k ->
  mem (fnode fr) ln = false -> stk s = x :: stk2 ->
  exists L', Inv L' ([Vertex (fnode fr)] ++ new) (prop_min (fmin fr) vs') ln
                 (mkst (upd (dfn s) (fnode fr) DInf) (num s) stk2) /\
             (forall y, In y L -> In y L' \/ upd (dfn s) (fnode fr) DInf y = DInf) /\
             (forall y, dfn s y = DInf -> upd (dfn s) (fnode fr) DInf y = DInf).
Proof.
  intros L new fr vs' ln s k x stk2 I Hc Hk Hm Hmem Hstk.
  pose proof (inv_frames _ _ _ _ _ I) as HF. cbn [Frames] in HF.
  destruct HF as [T [L' [EL [HFr [HTr HFs]]]]].
  pose proof (inv_sorted _ _ _ _ _ I) as HS.
  apply mem_false in Hmem.
  assert (HT : T = []).
  { apply head_not_loop with (dfn s) ln None fr L' k; auto. rewrite <- EL. exact HS. }
  subst T. cbn [app] in *.
  destruct (top_exhausted _ _ _ _ _ _ HFr Hc) as [kn [H1 [H2 [H3 [H5 [H6 _]]]]]].
  rewrite Hk in H1. inversion H1. subst kn. clear H1. cbn [app] in *.
  set (v := fnode fr) in *.
  rewrite EL in HS. destruct (LSorted_mid _ [] _ _ HS) as [kx [E1 [E2 [_ E4]]]].
  rewrite Hk in E1. inversion E1. subst kx. clear E1.
  assert (HvL' : ~ In v L').
  { intros Hin. destruct (E4 v Hin) as [kc [F1 F2]]. rewrite Hk in F1. inversion F1. lia. }
  set (d1 := upd (dfn s) v DInf).
  assert (Hd1 : forall y, y <> v -> d1 y = dfn s y) by (intros y Hy; apply upd_other, Hy).
  assert (Hd1v : d1 v = DInf) by apply upd_same.
  assert (HdL : forall y, In y L' -> d1 y = dfn s y).
  { intros y Hy. apply Hd1. intros ->. contradiction. }
  assert (HdInf : forall y, dfn s y = DInf -> d1 y = DInf).
  { intros y Hy. destruct (Nat.eq_dec y v) as [->|Hne]; [exact Hd1v|rewrite Hd1; assumption]. }
  assert (Hsucc : forall y, In y (succs g v) -> dfn s y = DInf).
  { intros y Hy. destruct (H5 y Hy) as [H|[[Y1 [ky [Y2 Y3]]]|H]]; [exact H| |discriminate].
    exfalso. destruct Y1 as [<-|Y1].
    - destruct (H6 Hy) as [H|H]; [contradiction|lia].
    - destruct (E4 y Y1) as [kc [F1 F2]]. rewrite Y2 in F1. inversion F1. lia. }
  assert (Hd0v : d0 v <> DInf).
  { intros H. apply (inv_done0 _ _ _ _ _ I) in H. rewrite Hk in H. discriminate. }
  assert (HvL : In v L) by (rewrite EL; left; reflexivity).
  exists L'.
  rewrite (prop_min_id (dfn s) ln v vs' L' (fmin fr) HFs) by (rewrite Hm; exact E4).
  split; [|split; [intros y Hy; rewrite EL in Hy; destruct Hy as [<-|Hy]; [right; exact Hd1v|left; exact Hy]|exact HdInf]].
  constructor; cbn [dfn num stk]; fold d1.
  - rewrite (inv_stk _ _ _ _ _ I), EL in Hstk. cbn [app] in Hstk. inversion Hstk. reflexivity.
  - apply Frames_below_done with v; [|exact Hd1v].
    apply Frames_stable with (dfn s) ln; auto. apply incl_refl.
  - apply LSorted_ext with (dfn s); [exact HdL|]. destruct HS as [_ HS]. exact HS.
  - intros y ky Hy Hky. rewrite HdL in Hky by exact Hy.
    apply (inv_num _ _ _ _ _ I y ky); [rewrite EL; right; exact Hy|exact Hky].
  - intros y ky Hy Hky. rewrite HdL in Hky by exact Hy.
    apply (inv_gt _ _ _ _ _ I y ky); [rewrite EL; right; exact Hy|exact Hky].
  - destruct (Nat.eq_dec r v) as [->|Hne]; [right; exact Hd1v|].
    rewrite Hd1 by exact Hne. apply (inv_root _ _ _ _ _ I).
  - apply (inv_regr _ _ _ _ _ I).
  - apply (inv_closed _ _ _ _ _ I).
  - apply (inv_wd _ _ _ _ _ I).
  - intros y Hy. apply HdInf, (inv_done0 _ _ _ _ _ I), Hy.
  - intros y Hy. destruct (Nat.eq_dec y v) as [->|Hne]; [apply (inv_Lreg _ _ _ _ _ I), HvL|].
    rewrite Hd1 in Hy by exact Hne. apply (inv_nreg _ _ _ _ _ I), Hy.
  - intros y Hy. apply (inv_Lreg _ _ _ _ _ I). rewrite EL. right. exact Hy.
  - intros y ky HR Hky Hpos. destruct (Nat.eq_dec y v) as [->|Hne]; [rewrite Hd1v in Hky; discriminate|].
    rewrite Hd1 in Hky by exact Hne. pose proof (inv_finL _ _ _ _ _ I y ky HR Hky Hpos) as Hin.
    rewrite EL in Hin. destruct Hin as [Hin|Hin]; [congruence|exact Hin].
  - intros y. cbn [flat cnodes app In].
    destruct (Nat.eq_dec y v) as [->|Hne].
    + split; [intros _; split; assumption|intros _; left; reflexivity].
    + rewrite Hd1 by exact Hne. rewrite <- (inv_new _ _ _ _ _ I y). split; [intros [H|H]; [congruence|exact H]|intros H; right; exact H].
  - cbn [flat cnodes app]. constructor; [|apply (inv_nodup _ _ _ _ _ I)].
    intros Hin. apply (inv_new _ _ _ _ _ I) in Hin. destruct Hin as [Hin _]. rewrite Hk in Hin. discriminate.
  - intros u y Hu Hy. cbn [flat cnodes app In] in Hu.
    destruct Hu as [<-|Hu].
    + pose proof (Hsucc y Hy) as Hyd. split; [apply HdInf, Hyd|].
      destruct (dfnv_eq_dec (d0 y) DInf) as [H0|H0]; [left; exact H0|right].
      apply (lok_cross [Vertex v] new); [left; reflexivity|].
      apply (inv_new _ _ _ _ _ I). split; assumption.
    + destruct (inv_edges _ _ _ _ _ I u y Hu Hy) as [G1 G2]. split; [apply HdInf, G1|].
      destruct G2 as [G2|G2]; [left; exact G2|right; apply (lok_app_r [Vertex v] new), G2].
  - intros y Hy. destruct (Nat.eq_dec y v) as [->|Hne].
    + apply (inv_reach _ _ _ _ _ I). rewrite Hk. intros E. inversion E. lia.
    + rewrite Hd1 in Hy by exact Hne. apply (inv_reach _ _ _ _ _ I), Hy.
  - apply (inv_k0 _ _ _ _ _ I).
Qed.
End Call.

Arguments inv_stk {g e d0 B Reg r k0 L new vs ln s} _.
Arguments inv_frames {g e d0 B Reg r k0 L new vs ln s} _.
Arguments inv_sorted {g e d0 B Reg r k0 L new vs ln s} _.
Arguments inv_num {g e d0 B Reg r k0 L new vs ln s} _.
Arguments inv_gt {g e d0 B Reg r k0 L new vs ln s} _.
Arguments inv_root {g e d0 B Reg r k0 L new vs ln s} _.
Arguments inv_regr {g e d0 B Reg r k0 L new vs ln s} _.
Arguments inv_closed {g e d0 B Reg r k0 L new vs ln s} _.
Arguments inv_wd {g e d0 B Reg r k0 L new vs ln s} _.
Arguments inv_done0 {g e d0 B Reg r k0 L new vs ln s} _.
Arguments inv_nreg {g e d0 B Reg r k0 L new vs ln s} _.
Arguments inv_Lreg {g e d0 B Reg r k0 L new vs ln s} _.
Arguments inv_finL {g e d0 B Reg r k0 L new vs ln s} _.
Arguments inv_new {g e d0 B Reg r k0 L new vs ln s} _.
Arguments inv_nodup {g e d0 B Reg r k0 L new vs ln s} _.
Arguments inv_edges {g e d0 B Reg r k0 L new vs ln s} _.
Arguments inv_reach {g e d0 B Reg r k0 L new vs ln s} _.
Arguments inv_k0 {g e d0 B Reg r k0 L new vs ln s} _.

(* ================================================================== a call of wto::visit *)
Definition visit_call (f : nat) (g : graph) : nat -> st -> wto -> option (st * wto) :=
  fun x s p => let s1 := discover x s in loop f g [new_frame g x s1] [] s1 p.

Lemma Inv_init : forall g e (Reg : nat -> Prop) s x,
  Reg x ->
  (forall a b, Reg a -> In b (succs g a) -> Reg b \/ dfn s b = DInf) ->
  (forall a, Reg a -> dfn s a = DN 0 \/ dfn s a = DInf) ->
  dfn s x = DN 0 ->
  (forall y, dfn s y <> DN 0 -> reachable g e y) -> reachable g e x ->
  Inv g e (dfn s) (stk s) Reg x (num s) [x] [] [new_frame g x (discover x s)] [] (discover x s).
Proof.
  intros g e Reg s x HR Hcl Hwd Hw Hre Hrx.
  assert (Hd1 : forall y, y <> x -> dfn (discover x s) y = dfn s y).
  { intros y Hy. cbn [discover dfn]. apply upd_other, Hy. }
  assert (Hd1x : dfn (discover x s) x = DN (S (num s))).
  { cbn [discover dfn]. apply upd_same. }
  constructor.
  - reflexivity.
  - cbn [Frames]. exists [], []. split; [reflexivity|]. split; [|split; [split; [intros z []|intros u Hu; discriminate]|reflexivity]].
    exists (S (num s)), []. cbn [new_frame fnode fmin fcur discover num app].
    split; [exact Hd1x|]. split; [lia|]. split; [left; reflexivity|]. split; [reflexivity|].
    split; [intros y []|]. split; [intros []|intros y []].
  - cbn [LSorted]. split; [|exact I]. exists (S (num s)). split; [exact Hd1x|]. split; [lia|intros y []].
  - intros y k [<-|[]] Hk. rewrite Hd1x in Hk. inversion Hk. cbn [discover num]. lia.
  - intros y k [<-|[]] Hk. rewrite Hd1x in Hk. inversion Hk. lia.
  - left. exact Hd1x.
  - exact HR.
  - exact Hcl.
  - exact Hwd.
  - intros y Hy. rewrite Hd1; [exact Hy|]. intros ->. rewrite Hw in Hy. discriminate.
  - intros y Hy. destruct (Nat.eq_dec y x) as [->|Hne]; [exact HR|]. rewrite Hd1 in Hy by exact Hne. congruence.
  - intros y [<-|[]]. exact HR.
  - intros y k HRy Hk Hpos. destruct (Nat.eq_dec y x) as [->|Hne]; [left; reflexivity|].
    rewrite Hd1 in Hk by exact Hne. destruct (Hwd y HRy) as [H|H]; rewrite H in Hk; inversion Hk; lia.
  - intros y. cbn [flat In]. split; [intros []|]. intros [H1 H2].
    destruct (Nat.eq_dec y x) as [->|Hne]; [rewrite Hd1x in H1; discriminate|].
    rewrite Hd1 in H1 by exact Hne. contradiction.
  - constructor.
  - intros u v [].
  - intros y Hy. destruct (Nat.eq_dec y x) as [->|Hne]; [exact Hrx|].
    rewrite Hd1 in Hy by exact Hne. apply Hre, Hy.
  - cbn [discover num]. lia.
Qed.

Definition LoopSpec (g : graph) (e : nat) (f : nat) : Prop :=
  forall d0 B P0 Reg r k0 L new vs ln s s' p',
    Inv g e d0 B Reg r k0 L new vs ln s ->
    loop f g vs ln s (new ++ P0) = Some (s', p') ->
    exists new' ln', Inv g e d0 B Reg r k0 [] new' [] ln' s' /\ p' = new' ++ P0.

Lemma nodup_app_intro : forall (a b : list nat), NoDup a -> NoDup b ->
  (forall x, In x a -> ~ In x b) -> NoDup (a ++ b).
Proof.
  induction a as [|x a IH]; intros b Ha Hb Hd; [exact Hb|]. cbn [app].
  inversion Ha; subst. constructor.
  - intros Hin. apply in_app_or in Hin. destruct Hin as [Hin|Hin]; [contradiction|].
    apply (Hd x); [left; reflexivity|exact Hin].
  - apply IH; auto. intros y Hy. apply Hd. right. exact Hy.
Qed.

(* invariant of the loop of wto::component over the successors of the head: dc, stkc, numc
   = state when component starts (head done, popped elements T reset to 0) *)
Record CInv (g : graph) (e : nat) (dc : nat -> dfnv) (stkc : list nat) (numc : nat)
       (T : list nat) (s : st) (p : wto) : Prop := {
  c_stk : stk s = stkc;
  c_done : forall x, dc x = DInf -> dfn s x = DInf;
  c_out : forall x, dfn s x <> dc x -> In x T;
  c_T : forall x, In x T -> dc x = DN 0 /\ (dfn s x = DN 0 \/ dfn s x = DInf);
  c_closed : forall x y, In x T -> In y (succs g x) -> In y T \/ dc y = DInf;
  c_p : forall x, In x (flat p) <-> (dfn s x = DInf /\ dc x <> DInf);
  c_nodup : NoDup (flat p);
  c_edges : forall u v, In u (flat p) -> In v (succs g u) ->
                        dfn s v = DInf /\ (dc v = DInf \/ lok p u v);
  c_reach : forall x, dfn s x <> DN 0 -> reachable g e x;
  c_num : numc <= num s
}.

(* one call of visit made by component: precondition and effect *)
Lemma comp_pre : forall g e dc stkc numc T s p x,
  CInv g e dc stkc numc T s p -> In x T -> dfn s x = DN 0 -> reachable g e x ->
  Inv g e (dfn s) (stk s) (fun z => In z T) x (num s) [x] []
      [new_frame g x (discover x s)] [] (discover x s).
Proof.
  intros g e dc stkc numc T s p x C HxT Ez Hrx. apply Inv_init; auto.
  - intros a b Ha Hb. destruct (c_closed _ _ _ _ _ _ _ _ C a b Ha Hb) as [H|H]; [left; exact H|].
    right. apply (c_done _ _ _ _ _ _ _ _ C), H.
  - intros a Ha. apply (c_T _ _ _ _ _ _ _ _ C a Ha).
  - apply (c_reach _ _ _ _ _ _ _ _ C).
Qed.

Lemma comp_step : forall g e dc stkc numc T s p x new' ln' s2,
  CInv g e dc stkc numc T s p -> In x T ->
  Inv g e (dfn s) (stk s) (fun z => In z T) x (num s) [] new' [] ln' s2 ->
  CInv g e dc stkc numc T s2 (new' ++ p) /\ dfn s2 x = DInf /\
  (forall y, dfn s y = DInf -> dfn s2 y = DInf).
Proof.
  intros g e dc stkc numc T s p x new' ln' s2 C HxT I1.
  assert (Hx2 : dfn s2 x = DInf).
  { destruct (inv_root I1) as [H|H]; [|exact H]. exfalso.
    pose proof (inv_finL I1 x (S (num s)) HxT H) as H0. cbn in H0. apply H0. lia. }
  assert (Hmono : forall y, dfn s y = DInf -> dfn s2 y = DInf) by (apply (inv_done0 I1)).
  split; [|split; [exact Hx2|exact Hmono]].
  constructor.
  - rewrite (inv_stk I1). cbn [app]. apply (c_stk _ _ _ _ _ _ _ _ C).
  - intros y Hy. apply Hmono, (c_done _ _ _ _ _ _ _ _ C), Hy.
  - intros y Hy. destruct (dfnv_eq_dec (dfn s2 y) (dfn s y)) as [E|E].
    + apply (c_out _ _ _ _ _ _ _ _ C). congruence.
    + apply (inv_nreg I1 y E).
  - intros y Hy. destruct (c_T _ _ _ _ _ _ _ _ C y Hy) as [H1 H2]. split; [exact H1|].
    destruct (dfn s2 y) as [[|k]|] eqn:E; [left; reflexivity| |right; reflexivity].
    exfalso. pose proof (inv_finL I1 y (S k) Hy E) as H. cbn in H. apply H. lia.
  - apply (c_closed _ _ _ _ _ _ _ _ C).
  - intros y. rewrite flat_app, in_app_iff, (inv_new I1 y), (c_p _ _ _ _ _ _ _ _ C y). split.
    + intros [[H1 H2]|[H1 H2]].
      * split; [exact H1|]. intros H. apply H2, (c_done _ _ _ _ _ _ _ _ C), H.
      * split; [apply Hmono, H1|exact H2].
    + intros [H1 H2]. destruct (dfnv_eq_dec (dfn s y) DInf) as [E|E]; [right; auto|left; auto].
  - rewrite flat_app. apply nodup_app_intro; [apply (inv_nodup I1)|apply (c_nodup _ _ _ _ _ _ _ _ C)|].
    intros y H1 H2. apply (inv_new I1) in H1. apply (c_p _ _ _ _ _ _ _ _ C) in H2.
    destruct H1 as [_ H1]. destruct H2 as [H2 _]. contradiction.
  - intros u v Hu Hv. rewrite flat_app in Hu. apply in_app_or in Hu. destruct Hu as [Hu|Hu].
    + destruct (inv_edges I1 u v Hu Hv) as [G1 G2]. split; [exact G1|].
      destruct G2 as [G2|G2]; [|right; apply lok_app_l, G2].
      destruct (dfnv_eq_dec (dc v) DInf) as [E|E]; [left; exact E|right].
      apply lok_cross; [exact Hu|]. apply (c_p _ _ _ _ _ _ _ _ C). auto.
    + destruct (c_edges _ _ _ _ _ _ _ _ C u v Hu Hv) as [G1 G2]. split; [apply Hmono, G1|].
      destruct G2 as [G2|G2]; [left; exact G2|right; apply lok_app_r, G2].
  - apply (inv_reach I1).
  - pose proof (inv_k0 I1). pose proof (c_num _ _ _ _ _ _ _ _ C). lia.
Qed.

Lemma comp_white_in_T : forall g e dc stkc numc T s p x,
  CInv g e dc stkc numc T s p -> (In x T \/ dc x = DInf) -> dfn s x = DN 0 -> In x T.
Proof.
  intros g e dc stkc numc T s p x C [H|H] Ez; [exact H|].
  apply (c_done _ _ _ _ _ _ _ _ C) in H. rewrite Ez in H. discriminate.
Qed.

Lemma comp_spec : forall g e f dc stkc numc T, LoopSpec g e f ->
  forall l s p s3 body,
    CInv g e dc stkc numc T s p ->
    (forall y, In y l -> reachable g e y) ->
    (forall y, In y l -> In y T \/ dc y = DInf) ->
    comp_succs (visit_call f g) l s p = Some (s3, body) ->
    CInv g e dc stkc numc T s3 body /\
    (forall y, In y l -> dfn s3 y = DInf) /\
    (forall y, dfn s y = DInf -> dfn s3 y = DInf).
Proof.
  intros g e f dc stkc numc T HLS.
  induction l as [|x l IH]; intros s p s3 body C Hre HlT Hrun; cbn [comp_succs] in Hrun.
  - inversion Hrun; subst. split; [exact C|]. split; [intros y []|auto].
  - destruct (is_zero (dfn s x)) eqn:Ez.
    + apply is_zero_true in Ez.
      destruct (visit_call f g x s p) as [[s2 p2]|] eqn:Ev; [|discriminate].
      unfold visit_call in Ev.
      assert (HxT : In x T) by (apply (comp_white_in_T _ _ _ _ _ _ _ _ _ C); [apply HlT; left; reflexivity|exact Ez]).
      assert (I0 := comp_pre _ _ _ _ _ _ _ _ _ C HxT Ez (Hre x (or_introl eq_refl))).
      destruct (HLS _ _ p _ _ _ _ [] _ _ _ _ _ I0 Ev) as [new' [ln' [I1 Ep]]]. cbn [app] in Ep. subst p2.
      destruct (comp_step _ _ _ _ _ _ _ _ _ _ _ _ C HxT I1) as [C2 [Hx2 Hmono]].
      destruct (IH s2 _ s3 body C2) as [C3 [HA HB]]; auto.
      { intros y Hy. apply Hre. right. exact Hy. }
      { intros y Hy. apply HlT. right. exact Hy. }
      split; [exact C3|]. split.
      * intros y [<-|Hy]; [apply HB, Hx2|apply HA, Hy].
      * intros y Hy. apply HB, Hmono, Hy.
    + apply is_zero_false in Ez.
      destruct (IH s p s3 body C) as [C3 [HA HB]]; auto.
      { intros y Hy. apply Hre. right. exact Hy. }
      { intros y Hy. apply HlT. right. exact Hy. }
      split; [exact C3|]. split; [|exact HB].
      intros y [<-|Hy]; [|apply HA, Hy]. apply HB.
      destruct (HlT x) as [H|H]; [left; reflexivity| |apply (c_done _ _ _ _ _ _ _ _ C), H].
      destruct (c_T _ _ _ _ _ _ _ _ C x H) as [_ [H1|H1]]; [contradiction|exact H1].
Qed.

Lemma cycle_setup : forall g e d0 B Reg r k0 L new fr vs' ln s k,
  Inv g e d0 B Reg r k0 L new (fr :: vs') ln s -> fcur fr = [] ->
  dfn s (fnode fr) = DN k -> fmin fr = k ->
  exists T L', L = T ++ fnode fr :: L' /\ NoDup (T ++ [fnode fr]) /\
    pop_until (fnode fr) (upd (dfn s) (fnode fr) DInf) (stk s) =
      Some (reset_all (upd (dfn s) (fnode fr) DInf) T, L' ++ B) /\
    CInv g e (reset_all (upd (dfn s) (fnode fr) DInf) T) (L' ++ B) (num s) T
         (mkst (reset_all (upd (dfn s) (fnode fr) DInf) T) (num s) (L' ++ B)) [] /\
    (forall y, In y (succs g (fnode fr)) -> reachable g e y) /\
    (forall y, In y (succs g (fnode fr)) ->
               In y T \/ reset_all (upd (dfn s) (fnode fr) DInf) T y = DInf).
Proof.
  intros g e d0 B Reg r k0 L new fr vs' ln s k I Hc Hk Hm.
  pose proof (inv_frames I) as HF. cbn [Frames] in HF.
  destruct HF as [T [L' [EL [HFr [HTr HFs]]]]].
  pose proof (inv_sorted I) as HS.
  destruct (top_exhausted _ _ _ _ _ _ _ HFr Hc) as [kn [H1 [H2 [H3 [H5 [H6 H7]]]]]].
  rewrite Hk in H1. inversion H1. subst kn. clear H1.
  set (v := fnode fr) in *.
  rewrite EL in HS. destruct (LSorted_mid _ _ _ _ HS) as [kx [E1 [E2 [E3 E4]]]].
  rewrite Hk in E1. inversion E1. subst kx. clear E1.
  pose proof (LSorted_NoDup _ _ HS) as HND.
  assert (HvT : ~ In v T).
  { intros Hin. destruct (E3 v Hin) as [ka [F1 F2]]. rewrite Hk in F1. inversion F1. lia. }
  assert (HvL' : ~ In v L').
  { intros Hin. destruct (E4 v Hin) as [kc [F1 F2]]. rewrite Hk in F1. inversion F1. lia. }
  assert (HTL' : forall z, In z T -> ~ In z L').
  { intros z Hz Hz'. destruct (E3 z Hz) as [ka [F1 F2]]. destruct (E4 z Hz') as [kc [G1 G2]].
    rewrite F1 in G1. inversion G1. lia. }
  set (d1 := upd (dfn s) v DInf) in *.
  assert (Hpop : pop_until v d1 (stk s) = Some (reset_all d1 T, L' ++ B)).
  { rewrite (inv_stk I), EL. rewrite <- app_assoc. cbn [app]. apply pop_until_app, HvT. }
  set (d2 := reset_all d1 T) in *.
  assert (Hd2T : forall z, In z T -> d2 z = DN 0) by (intros z Hz; apply reset_all_in, Hz).
  assert (Hd2v : d2 v = DInf).
  { unfold d2. rewrite reset_all_out by exact HvT. apply upd_same. }
  assert (Hd2o : forall z, ~ In z T -> z <> v -> d2 z = dfn s z).
  { intros z Hz Hne. unfold d2. rewrite reset_all_out by exact Hz. apply upd_other, Hne. }
  assert (Hfin : forall z, In z T -> dfn s z <> DInf).
  { intros z Hz. destruct (E3 z Hz) as [ka [F1 _]]. rewrite F1. discriminate. }
  assert (Hd2inf : forall z, dfn s z = DInf -> d2 z = DInf).
  { intros z Hz. destruct (Nat.eq_dec z v) as [->|Hne]; [exact Hd2v|].
    rewrite Hd2o; auto. intros Hin. apply (Hfin z Hin Hz). }
  assert (Hd2inf' : forall z, d2 z = DInf -> z = v \/ (dfn s z = DInf /\ ~ In z T)).
  { intros z Hz. destruct (Nat.eq_dec z v) as [->|Hne]; [left; reflexivity|right].
    destruct (in_dec Nat.eq_dec z T) as [Hin|Hin]; [rewrite Hd2T in Hz by exact Hin; discriminate|].
    rewrite Hd2o in Hz by auto. auto. }
  assert (HvL : In v L) by (rewrite EL; apply in_or_app; right; left; reflexivity).
  assert (Hvreach : reachable g e v).
  { apply (inv_reach I). rewrite Hk. intros E. inversion E. lia. }
  (* status of the successors of T and of v *)
  assert (HsuccT : forall x y, In x (T ++ [v]) -> In y (succs g x) -> In y T \/ d2 y = DInf).
  { intros x y Hx Hy.
    assert (HS0 : SOK (dfn s) None (T ++ v :: L') (fmin fr) y).
    { apply in_app_or in Hx. destruct Hx as [Hx|[<-|[]]]; [apply (H7 x Hx), Hy|apply H5, Hy]. }
    destruct HS0 as [H|[[Y1 [ky [Y2 Y3]]]|H]]; [right; apply Hd2inf, H| |discriminate].
    apply in_app_or in Y1. destruct Y1 as [Y1|[<-|Y1]]; [left; exact Y1|right; exact Hd2v|].
    exfalso. destruct (E4 y Y1) as [kc [F1 F2]]. rewrite Y2 in F1. inversion F1. lia. }
  assert (C0 : CInv g e d2 (L' ++ B) (num s) T (mkst d2 (num s) (L' ++ B)) []).
  { constructor; cbn [dfn num stk].
    - reflexivity.
    - auto.
    - intros z Hz. contradiction.
    - intros z Hz. split; [apply Hd2T, Hz|left; apply Hd2T, Hz].
    - intros x y Hx Hy. apply HsuccT with x; [apply in_or_app; left; exact Hx|exact Hy].
    - intros z. cbn [flat In]. split; [intros []|intros [A1 A2]; contradiction].
    - constructor.
    - intros u w [].
    - intros z Hz. destruct (Nat.eq_dec z v) as [->|Hne]; [exact Hvreach|].
      destruct (in_dec Nat.eq_dec z T) as [Hin|Hin]; [rewrite Hd2T in Hz by exact Hin; contradiction|].
      rewrite Hd2o in Hz by auto. apply (inv_reach I), Hz.
    - lia. }
  assert (Hre' : forall y, In y (succs g v) -> reachable g e y).
  { intros y Hy. apply reach_step with v; assumption. }
  assert (HlT' : forall y, In y (succs g v) -> In y T \/ d2 y = DInf).
  { intros y Hy. apply HsuccT with v; [apply in_or_app; right; left; reflexivity|exact Hy]. }
  exists T, L'. split; [exact EL|]. split.
  { apply nodup_app_intro; [|constructor; [intros []|constructor]|].
    - destruct (LSorted_app _ _ _ HS) as [HA _]. apply LSorted_NoDup with (dfn s), HA.
    - intros z Hz [<-|[]]. contradiction. }
  split; [exact Hpop|]. split; [exact C0|]. split; [exact Hre'|exact HlT'].
Qed.

Lemma step_pop_cycle : forall g e d0 B Reg r k0 f L new fr vs' ln s k d2 stk2 s3 body,
  LoopSpec g e f ->
  Inv g e d0 B Reg r k0 L new (fr :: vs') ln s -> fcur fr = [] ->
  dfn s (fnode fr) = DN k -> fmin fr = k ->
  pop_until (fnode fr) (upd (dfn s) (fnode fr) DInf) (stk s) = Some (d2, stk2) ->
  comp_succs (visit_call f g) (succs g (fnode fr)) (mkst d2 (num s) stk2) [] = Some (s3, body) ->
  exists L', Inv g e d0 B Reg r k0 L' ([Cycle (fnode fr) body] ++ new) (prop_min (fmin fr) vs') ln s3 /\
             (forall y, In y L -> In y L' \/ dfn s3 y = DInf) /\
             (forall y, dfn s y = DInf -> dfn s3 y = DInf) /\ num s <= num s3.
Proof.
  intros g e d0 B Reg r k0 f L new fr vs' ln s k d2 stk2 s3 body HLS I Hc Hk Hm Hpop Hcomp.
  pose proof (inv_frames I) as HF. cbn [Frames] in HF.
  destruct HF as [T [L' [EL [HFr [HTr HFs]]]]].
  pose proof (inv_sorted I) as HS.
  destruct (top_exhausted _ _ _ _ _ _ _ HFr Hc) as [kn [H1 [H2 [H3 [H5 [H6 H7]]]]]].
  rewrite Hk in H1. inversion H1. subst kn. clear H1.
  set (v := fnode fr) in *.
  rewrite EL in HS. destruct (LSorted_mid _ _ _ _ HS) as [kx [E1 [E2 [E3 E4]]]].
  rewrite Hk in E1. inversion E1. subst kx. clear E1.
  pose proof (LSorted_NoDup _ _ HS) as HND.
  assert (HvT : ~ In v T).
  { intros Hin. destruct (E3 v Hin) as [ka [F1 F2]]. rewrite Hk in F1. inversion F1. lia. }
  assert (HvL' : ~ In v L').
  { intros Hin. destruct (E4 v Hin) as [kc [F1 F2]]. rewrite Hk in F1. inversion F1. lia. }
  assert (HTL' : forall z, In z T -> ~ In z L').
  { intros z Hz Hz'. destruct (E3 z Hz) as [ka [F1 F2]]. destruct (E4 z Hz') as [kc [G1 G2]].
    rewrite F1 in G1. inversion G1. lia. }
  set (d1 := upd (dfn s) v DInf) in *.
  rewrite (inv_stk I), EL in Hpop. rewrite <- app_assoc in Hpop. cbn [app] in Hpop.
  rewrite pop_until_app in Hpop by exact HvT. inversion Hpop. subst d2 stk2. clear Hpop.
  set (d2 := reset_all d1 T) in *.
  assert (Hd2T : forall z, In z T -> d2 z = DN 0) by (intros z Hz; apply reset_all_in, Hz).
  assert (Hd2v : d2 v = DInf).
  { unfold d2. rewrite reset_all_out by exact HvT. apply upd_same. }
  assert (Hd2o : forall z, ~ In z T -> z <> v -> d2 z = dfn s z).
  { intros z Hz Hne. unfold d2. rewrite reset_all_out by exact Hz. apply upd_other, Hne. }
  assert (Hfin : forall z, In z T -> dfn s z <> DInf).
  { intros z Hz. destruct (E3 z Hz) as [ka [F1 _]]. rewrite F1. discriminate. }
  assert (Hd2inf : forall z, dfn s z = DInf -> d2 z = DInf).
  { intros z Hz. destruct (Nat.eq_dec z v) as [->|Hne]; [exact Hd2v|].
    rewrite Hd2o; auto. intros Hin. apply (Hfin z Hin Hz). }
  assert (Hd2inf' : forall z, d2 z = DInf -> z = v \/ (dfn s z = DInf /\ ~ In z T)).
  { intros z Hz. destruct (Nat.eq_dec z v) as [->|Hne]; [left; reflexivity|right].
    destruct (in_dec Nat.eq_dec z T) as [Hin|Hin]; [rewrite Hd2T in Hz by exact Hin; discriminate|].
    rewrite Hd2o in Hz by auto. auto. }
  assert (HvL : In v L) by (rewrite EL; apply in_or_app; right; left; reflexivity).
  assert (Hvreach : reachable g e v).
  { apply (inv_reach I). rewrite Hk. intros E. inversion E. lia. }
  (* status of the successors of T and of v *)
  assert (HsuccT : forall x y, In x (T ++ [v]) -> In y (succs g x) -> In y T \/ d2 y = DInf).
  { intros x y Hx Hy.
    assert (HS0 : SOK (dfn s) None (T ++ v :: L') (fmin fr) y).
    { apply in_app_or in Hx. destruct Hx as [Hx|[<-|[]]]; [apply (H7 x Hx), Hy|apply H5, Hy]. }
    destruct HS0 as [H|[[Y1 [ky [Y2 Y3]]]|H]]; [right; apply Hd2inf, H| |discriminate].
    apply in_app_or in Y1. destruct Y1 as [Y1|[<-|Y1]]; [left; exact Y1|right; exact Hd2v|].
    exfalso. destruct (E4 y Y1) as [kc [F1 F2]]. rewrite Y2 in F1. inversion F1. lia. }
  assert (C0 : CInv g e d2 (L' ++ B) (num s) T (mkst d2 (num s) (L' ++ B)) []).
  { constructor; cbn [dfn num stk].
    - reflexivity.
    - auto.
    - intros z Hz. contradiction.
    - intros z Hz. split; [apply Hd2T, Hz|left; apply Hd2T, Hz].
    - intros x y Hx Hy. apply HsuccT with x; [apply in_or_app; left; exact Hx|exact Hy].
    - intros z. cbn [flat In]. split; [intros []|intros [A1 A2]; contradiction].
    - constructor.
    - intros u w [].
    - intros z Hz. destruct (Nat.eq_dec z v) as [->|Hne]; [exact Hvreach|].
      destruct (in_dec Nat.eq_dec z T) as [Hin|Hin]; [rewrite Hd2T in Hz by exact Hin; contradiction|].
      rewrite Hd2o in Hz by auto. apply (inv_reach I), Hz.
    - lia. }
  assert (Hre' : forall y, In y (succs g v) -> reachable g e y).
  { intros y Hy. apply reach_step with v; assumption. }
  assert (HlT' : forall y, In y (succs g v) -> In y T \/ d2 y = DInf).
  { intros y Hy. apply HsuccT with v; [apply in_or_app; right; left; reflexivity|exact Hy]. }
  destruct (comp_spec g e f d2 (L' ++ B) (num s) T HLS _ _ _ _ _ C0 Hre' HlT' Hcomp) as [C3 [Hsv Hmono3]].
  set (d3 := dfn s3) in *.
  assert (Hd3v : d3 v = DInf) by (apply (c_done _ _ _ _ _ _ _ _ C3), Hd2v).
  assert (Hd3o : forall z, ~ In z T -> z <> v -> d3 z = dfn s z).
  { intros z Hz Hne. rewrite <- Hd2o by auto.
    destruct (dfnv_eq_dec (d3 z) (d2 z)) as [E|E]; [exact E|].
    exfalso. apply Hz, (c_out _ _ _ _ _ _ _ _ C3), E. }
  assert (Hd3inf : forall z, dfn s z = DInf -> d3 z = DInf).
  { intros z Hz. apply (c_done _ _ _ _ _ _ _ _ C3), Hd2inf, Hz. }
  assert (Hd3L' : forall z, In z L' -> d3 z = dfn s z).
  { intros z Hz. apply Hd3o; [intros Hin; apply (HTL' z Hin Hz)|intros ->; contradiction]. }
  assert (Hd0v : d0 v <> DInf).
  { intros H. apply (inv_done0 I) in H. rewrite Hk in H. discriminate. }
  assert (HTdone : forall a x, tpath g (T ++ [v]) a x -> a = v -> x = v \/ (In x T /\ d3 x = DInf)).
  { intros a x Hp. induction Hp as [x|x y z Hp IHp Hz HzS]; intros Ea; [left; exact Ea|].
    apply in_app_or in HzS. destruct HzS as [HzT|[<-|[]]]; [right|left; reflexivity].
    split; [exact HzT|]. destruct (IHp Ea) as [->|[HyT Hyd]]; [apply Hsv, Hz|].
    assert (Hyb : In y (flat body)).
    { apply (c_p _ _ _ _ _ _ _ _ C3). split; [exact Hyd|]. rewrite Hd2T by exact HyT. discriminate. }
    apply (c_edges _ _ _ _ _ _ _ _ C3 y z Hyb Hz). }
  exists L'.
  rewrite (prop_min_id g (dfn s) ln v vs' L' (fmin fr) HFs) by (rewrite Hm; exact E4).
  split; [|split; [|split; [exact Hd3inf|apply (c_num _ _ _ _ _ _ _ _ C3)]]].
  2:{ intros y Hy. rewrite EL in Hy. apply in_app_or in Hy. destruct Hy as [Hy|[<-|Hy]]; [|right; exact Hd3v|left; exact Hy].
      right. destruct HTr as [HTr1 _]. destruct (HTdone v y (HTr1 y Hy) eq_refl) as [->|[_ H]]; [exact Hd3v|exact H]. }
  constructor; fold d3.
  - apply (c_stk _ _ _ _ _ _ _ _ C3).
  - apply Frames_below_done with v; [|exact Hd3v].
    apply Frames_stable with (dfn s) ln; auto. apply incl_refl.
  - apply LSorted_ext with (dfn s); [exact Hd3L'|]. destruct (LSorted_app _ _ _ HS) as [_ [[_ HS2] _]]. exact HS2.
  - intros y ky Hy Hky. rewrite Hd3L' in Hky by exact Hy.
    pose proof (inv_num I y ky) as Hn. pose proof (c_num _ _ _ _ _ _ _ _ C3).
    assert (ky <= num s); [|lia]. apply Hn; [rewrite EL; apply in_or_app; right; right; exact Hy|exact Hky].
  - intros y ky Hy Hky. rewrite Hd3L' in Hky by exact Hy.
    apply (inv_gt I y ky); [rewrite EL; apply in_or_app; right; right; exact Hy|exact Hky].
  - destruct (Nat.eq_dec r v) as [->|Hne]; [right; exact Hd3v|].
    assert (HrT : ~ In r T).
    { intros Hin. destruct (H7 r Hin) as [_ [w [kw [kx [W1 [W2 [W3 [W4 [W5 W6]]]]]]]]].
      rewrite <- EL in W1. pose proof (inv_gt I w kw W1 W3) as Hgt.
      destruct (inv_root I) as [Hr|Hr]; rewrite Hr in W4; inversion W4. lia. }
    rewrite Hd3o by auto. apply (inv_root I).
  - apply (inv_regr I).
  - apply (inv_closed I).
  - apply (inv_wd I).
  - intros y Hy. apply Hd3inf, (inv_done0 I), Hy.
  - intros y Hy. destruct (Nat.eq_dec y v) as [->|Hne]; [apply (inv_Lreg I), HvL|].
    destruct (in_dec Nat.eq_dec y T) as [Hin|Hin].
    + apply (inv_Lreg I). rewrite EL. apply in_or_app. left. exact Hin.
    + rewrite Hd3o in Hy by auto. apply (inv_nreg I), Hy.
  - intros y Hy. apply (inv_Lreg I). rewrite EL. apply in_or_app. right. right. exact Hy.
  - intros y ky HR Hky Hpos. destruct (Nat.eq_dec y v) as [->|Hne]; [rewrite Hd3v in Hky; discriminate|].
    destruct (in_dec Nat.eq_dec y T) as [Hin|Hin].
    + exfalso. destruct (c_T _ _ _ _ _ _ _ _ C3 y Hin) as [_ [H|H]]; fold d3 in H; rewrite H in Hky; inversion Hky; lia.
    + rewrite Hd3o in Hky by auto. pose proof (inv_finL I y ky HR Hky Hpos) as Hin'.
      rewrite EL in Hin'. apply in_app_or in Hin'. destruct Hin' as [Hin'|[Hin'|Hin']]; [contradiction|congruence|exact Hin'].
  - intros y. rewrite flat_app, flat_single, cnodes_cycle. cbn [app In]. rewrite in_app_iff.
    rewrite (c_p _ _ _ _ _ _ _ _ C3 y), (inv_new I y). fold d3. split.
    + intros [<-|[[A1 A2]|[A1 A2]]].
      * auto.
      * split; [exact A1|]. intros H. apply A2, Hd2inf, (inv_done0 I), H.
      * split; [apply Hd3inf, A1|exact A2].
    + intros [A1 A2]. destruct (dfnv_eq_dec (d2 y) DInf) as [E|E]; [|right; left; auto].
      destruct (Hd2inf' y E) as [->|[G1 G2]]; [left; reflexivity|right; right; auto].
  - rewrite flat_app, flat_single, cnodes_cycle. cbn [app]. constructor.
    + intros Hin. apply in_app_or in Hin. destruct Hin as [Hin|Hin].
      * apply (c_p _ _ _ _ _ _ _ _ C3) in Hin. destruct Hin as [_ Hin]. contradiction.
      * apply (inv_new I) in Hin. destruct Hin as [Hin _]. rewrite Hk in Hin. discriminate.
    + apply nodup_app_intro; [apply (c_nodup _ _ _ _ _ _ _ _ C3)|apply (inv_nodup I)|].
      intros y A1 A2. apply (c_p _ _ _ _ _ _ _ _ C3) in A1. apply (inv_new I) in A2.
      destruct A1 as [_ A1]. destruct A2 as [A2 _]. apply A1, Hd2inf, A2.
  - intros u y Hu Hy. rewrite flat_app, flat_single, cnodes_cycle in Hu. cbn [app In] in Hu.
    assert (Hcross : forall a, In a (v :: flat body) -> dfn s y = DInf ->
                               d0 y = DInf \/ lok ([Cycle v body] ++ new) a y).
    { intros a Ha Hyd. destruct (dfnv_eq_dec (d0 y) DInf) as [H0|H0]; [left; exact H0|right].
      apply lok_cross; [rewrite flat_single, cnodes_cycle; exact Ha|]. apply (inv_new I). auto. }
    destruct Hu as [<-|Hu]; [|apply in_app_or in Hu; destruct Hu as [Hu|Hu]].
    + split; [apply Hsv, Hy|].
      destruct (H5 y Hy) as [H|[[Y1 [ky [Y2 Y3]]]|H]]; [apply Hcross; [left; reflexivity|exact H]| |discriminate].
      right. apply lok_app_l. apply in_app_or in Y1. destruct Y1 as [Y1|[<-|Y1]].
      * apply lok_head_body. apply (c_p _ _ _ _ _ _ _ _ C3). split; [apply Hsv, Hy|].
        rewrite Hd2T by exact Y1. discriminate.
      * apply lok_cycle_head. left. reflexivity.
      * exfalso. destruct (E4 y Y1) as [kc [F1 F2]]. rewrite Y2 in F1. inversion F1. lia.
    + destruct (c_edges _ _ _ _ _ _ _ _ C3 u y Hu Hy) as [G1 G2]. split; [exact G1|].
      destruct G2 as [G2|G2]; [|right; apply lok_app_l, lok_cycle_body, G2].
      destruct (Hd2inf' y G2) as [->|[G3 G4]].
      * right. apply lok_app_l, lok_cycle_head. right. exact Hu.
      * apply Hcross; [right; exact Hu|exact G3].
    + destruct (inv_edges I u y Hu Hy) as [G1 G2]. split; [apply Hd3inf, G1|].
      destruct G2 as [G2|G2]; [left; exact G2|right; apply lok_app_r, G2].
  - apply (c_reach _ _ _ _ _ _ _ _ C3).
  - pose proof (inv_k0 I). pose proof (c_num _ _ _ _ _ _ _ _ C3). lia.
Qed.

Theorem loop_spec : forall g e f, LoopSpec g e f.
Proof.
  intros g e. induction f as [|f IH]; intros d0 B P0 Reg r k0 L new vs ln s s' p' I Hrun.
  - discriminate.
  - cbn [loop] in Hrun. destruct vs as [|fr vs'].
    + inversion Hrun; subst. pose proof (inv_frames I) as HF. cbn [Frames] in HF. subst L.
      exists new, ln. split; [exact I|reflexivity].
    + destruct (fcur fr) as [|child rest] eqn:Hc.
      * pose proof (inv_frames I) as HF. cbn [Frames] in HF.
        destruct HF as [T [L' [EL [HFr [HTr HFs]]]]].
        destruct (FrameOK_node_in _ _ _ _ _ _ _ HFr) as [kn [pre [Hdn _]]].
        rewrite Hdn in Hrun. cbn [nat_eq_dfn] in Hrun.
        destruct (fmin fr =? kn) eqn:Eq.
        -- apply Nat.eqb_eq in Eq. destruct (mem (fnode fr) ln) eqn:Em.
           ++ destruct (pop_until (fnode fr) (upd (dfn s) (fnode fr) DInf) (stk s)) as [[d2 stk2]|] eqn:Ep; [|discriminate].
              match type of Hrun with
              | match ?c with _ => _ end = _ => destruct c as [[s3 body]|] eqn:Ecomp; [|discriminate]
              end.
              destruct (step_pop_cycle g e d0 B Reg r k0 f L new fr vs' ln s kn d2 stk2 s3 body IH I Hc Hdn Eq Ep Ecomp)
                as [L2 [I2 _]].
              apply (IH d0 B P0 Reg r k0 L2 _ _ _ _ s' p' I2). exact Hrun.
           ++ destruct (stk s) as [|x stk2] eqn:Es; [discriminate|].
              destruct (step_pop_vertex g e d0 B Reg r k0 L new fr vs' ln s kn x stk2 I Hc Hdn Eq Em Es)
                as [L2 [I2 _]].
              apply (IH d0 B P0 Reg r k0 L2 _ _ _ _ s' p' I2). exact Hrun.
        -- apply Nat.eqb_neq in Eq.
           pose proof (step_pop_stay g e d0 B Reg r k0 L new fr vs' ln s kn I Hc Hdn Eq) as I2.
           apply (IH d0 B P0 Reg r k0 L _ _ _ _ s' p' I2). exact Hrun.
      * destruct (is_zero (dfn s child)) eqn:Ez.
        -- apply is_zero_true in Ez.
           pose proof (step_discover g e d0 B Reg r k0 L new fr vs' ln s child rest I Hc Ez) as I2.
           apply (IH d0 B P0 Reg r k0 _ _ _ _ _ s' p' I2). exact Hrun.
        -- apply is_zero_false in Ez. destruct (dfn_le_nat (dfn s child) (fmin fr)) eqn:El.
           ++ destruct (dfn s child) as [k|] eqn:Ek; [|discriminate].
              cbn [dfn_le_nat] in El. apply Nat.leb_le in El.
              assert (Hk0 : k <> 0) by (intros ->; apply Ez; reflexivity).
              pose proof (step_scan_lower g e d0 B Reg r k0 L new fr vs' ln s child rest k I Hc Ek Hk0 El) as I2.
              apply (IH d0 B P0 Reg r k0 _ _ _ _ _ s' p' I2). exact Hrun.
           ++ pose proof (step_scan_skip g e d0 B Reg r k0 L new fr vs' ln s child rest I Hc Ez El) as I2.
              apply (IH d0 B P0 Reg r k0 _ _ _ _ _ s' p' I2). exact Hrun.
Qed.

(* ================================================================== completeness of the
   reachability computation of the checker *)
Lemma add_len : forall x r, length r <= length (add x r).
Proof. intros x r. unfold add. destruct (mem x r); [lia|rewrite app_length; cbn; lia]. Qed.
Lemma add_all_len : forall xs r, length r <= length (add_all xs r).
Proof.
  unfold add_all. induction xs as [|x xs IH]; intros r; cbn [fold_left]; [lia|].
  pose proof (IH (add x r)). pose proof (add_len x r). lia.
Qed.
Lemma add_all_same : forall xs r, length (add_all xs r) = length r ->
  add_all xs r = r /\ forall x, In x xs -> In x r.
Proof.
  unfold add_all. induction xs as [|x xs IH]; intros r H; cbn [fold_left] in *; [split; [reflexivity|intros x []]|].
  pose proof (add_all_len xs (add x r)) as H1. unfold add_all in H1. pose proof (add_len x r) as H2.
  assert (E : add x r = r).
  { unfold add in *. destruct (mem x r) eqn:Em; [reflexivity|]. rewrite app_length in *. cbn in *. lia. }
  rewrite E in *. destruct (IH r H) as [A1 A2]. split; [exact A1|].
  intros y [Ey|Hy]; [subst y|apply A2, Hy]. unfold add in E. destruct (mem x r) eqn:Em; [apply mem_In, Em|].
  exfalso. apply (f_equal (@length nat)) in E. rewrite app_length in E. cbn in E. lia.
Qed.
Lemma add_nodup : forall x r, NoDup r -> NoDup (add x r).
Proof.
  intros x r H. unfold add. destruct (mem x r) eqn:Em; [exact H|]. apply mem_false in Em.
  apply nodup_app_intro; [exact H|constructor; [intros []|constructor]|].
  intros y Hy [<-|[]]. contradiction.
Qed.
Lemma add_all_nodup : forall xs r, NoDup r -> NoDup (add_all xs r).
Proof.
  unfold add_all. induction xs as [|x xs IH]; intros r H; cbn [fold_left]; [exact H|].
  apply IH, add_nodup, H.
Qed.
Lemma reach_n_incl : forall g n r, incl r (reach_n g n r).
Proof.
  induction n as [|n IH]; intros r x Hx; cbn [reach_n]; [exact Hx|].
  apply IH. apply step_in. left. exact Hx.
Qed.
Lemma reach_n_closed : forall g e fl, (forall x, reachable g e x -> In x fl) ->
  forall n r, NoDup r -> (forall x, In x r -> reachable g e x) -> length fl <= length r + n ->
  forall u v, In u (reach_n g n r) -> In v (succs g u) -> In v (reach_n g n r).
Proof.
  intros g e fl Hfl. induction n as [|n IH]; intros r Hnd Hr Hlen u v Hu Hv; cbn [reach_n] in *.
  - assert (Hinc : incl fl r).
    { apply NoDup_length_incl; [exact Hnd|lia|]. intros x Hx. apply Hfl, Hr, Hx. }
    apply Hinc, Hfl. apply reach_step with u; [apply Hr, Hu|exact Hv].
  - assert (Hr' : forall x, In x (step g r) -> reachable g e x).
    { intros x Hx. apply step_in in Hx. destruct Hx as [Hx|[a [Ha Hx]]]; [apply Hr, Hx|].
      apply reach_step with a; [apply Hr, Ha|exact Hx]. }
    pose proof (add_all_len (flat_map (succs g) r) r) as Hl. fold (step g r) in Hl.
    destruct (Nat.eq_dec (length (step g r)) (length r)) as [E|E].
    + destruct (add_all_same _ _ E) as [A1 A2]. fold (step g r) in A1.
      assert (Hfix : forall m, reach_n g m r = r).
      { induction m as [|m IHm]; [reflexivity|]. cbn [reach_n]. rewrite A1. exact IHm. }
      rewrite A1, Hfix in *. apply A2. apply in_flat_map. exists u. auto.
    + apply (IH (step g r)) with u; auto; [apply add_all_nodup, Hnd|lia].
Qed.
Lemma reach_n_complete : forall g e fl, NoDup fl -> (forall x, reachable g e x -> In x fl) ->
  forall x, reachable g e x -> In x (reach_n g (length fl) [e]).
Proof.
  intros g e fl Hnd Hfl. apply closed_reach.
  - apply reach_n_incl. left. reflexivity.
  - apply (reach_n_closed g e fl Hfl); [constructor; [intros []|constructor]| |cbn; lia].
    intros x [<-|[]]. constructor.
Qed.

(* ================================================================== the nesting builder *)
Lemma nlookup_app : forall t k v n,
  nlookup (t ++ [(k, v)]) n =
  match nlookup t n with Some x => Some x | None => if k =? n then Some v else None end.
Proof.
  induction t as [|[k' v'] t IH]; intros k v n; cbn [app nlookup]; [reflexivity|].
  destruct (k' =? n); [reflexivity|apply IH].
Qed.
Lemma ninsert_lookup : forall k v t n,
  nlookup (ninsert k v t) n =
  match nlookup t n with Some x => Some x | None => if k =? n then Some v else None end.
Proof.
  intros k v t n. unfold ninsert. destruct (nlookup t k) as [x|] eqn:E.
  - destruct (nlookup t n) eqn:En; [reflexivity|]. destruct (k =? n) eqn:Ek; [|reflexivity].
    apply Nat.eqb_eq in Ek. subst. congruence.
  - apply nlookup_app.
Qed.
Definition pre_nest (nest : list nat) (o : option (list nat)) : option (list nat) :=
  match o with Some r => Some (nest ++ r) | None => None end.
Lemma nb_comp_cycle : forall h body nest t,
  nb_comp (Cycle h body) nest t = nb_list body (nest ++ [h]) (ninsert h nest t).
Proof.
  intros h body nest t. cbn [nb_comp]. generalize (ninsert h nest t).
  induction body as [|c body IH]; intros t'; [reflexivity|]. cbn [nb_list]. apply IH.
Qed.
Lemma nb_comp_lookup : forall c nest t n,
  nlookup (nb_comp c nest t) n =
  match nlookup t n with Some v => Some v | None => pre_nest nest (heads_c c n) end.
Proof.
  induction c as [m|h b IH] using comp_ind'; intros nest t n.
  - cbn [nb_comp heads_c]. rewrite ninsert_lookup. destruct (nlookup t n); [reflexivity|].
    destruct (m =? n); cbn [pre_nest]; [rewrite app_nil_r|]; reflexivity.
  - rewrite nb_comp_cycle, heads_c_cycle.
    assert (HL : forall l, Forall (fun c => forall nest t n,
                   nlookup (nb_comp c nest t) n =
                   match nlookup t n with Some v => Some v | None => pre_nest nest (heads_c c n) end) l ->
               forall nest t n, nlookup (nb_list l nest t) n =
                   match nlookup t n with Some v => Some v | None => pre_nest nest (heads_l l n) end).
    { induction l as [|c l IHl]; intros HF nest' t' n'; cbn [nb_list heads_l].
      - destruct (nlookup t' n'); reflexivity.
      - inversion HF as [|? ? Hc Hl]; subst. rewrite IHl by exact Hl. rewrite Hc.
        destruct (nlookup t' n'); [reflexivity|]. destruct (heads_c c n'); reflexivity. }
    rewrite (HL b IH). rewrite ninsert_lookup. destruct (nlookup t n); [reflexivity|].
    destruct (h =? n); cbn [pre_nest]; [rewrite app_nil_r; reflexivity|].
    destruct (heads_l b n); cbn [pre_nest]; [|reflexivity]. rewrite <- app_assoc. reflexivity.
Qed.
Lemma nb_list_lookup : forall l nest t n,
  nlookup (nb_list l nest t) n =
  match nlookup t n with Some v => Some v | None => pre_nest nest (heads_l l n) end.
Proof.
  induction l as [|c l IH]; intros nest t n; cbn [nb_list heads_l].
  - destruct (nlookup t n); reflexivity.
  - rewrite IH, nb_comp_lookup. destruct (nlookup t n); [reflexivity|]. destruct (heads_c c n); reflexivity.
Qed.
(* the nesting reported by the model is the list of strictly enclosing heads *)
Theorem nesting_heads : forall w n, nesting w n = heads_l w n.
Proof.
  intros w n. unfold nesting, build_nesting. rewrite nb_list_lookup. cbn [nlookup].
  destruct (heads_l w n); reflexivity.
Qed.

(* ================================================================== main theorem *)
Theorem build_fuel_ok : forall f g e w, build_fuel f g e = Some w -> wto_ok g e w = true.
Proof.
  intros f g e w Hb. unfold build_fuel in Hb.
  destruct (loop f g [new_frame g e (discover e st0)] [] (discover e st0) []) as [[s' w']|] eqn:Hrun; [|discriminate].
  inversion Hb; subst w'. clear Hb.
  assert (I0 : Inv g e (dfn st0) (stk st0) (fun _ => True) e (num st0) [e] []
                   [new_frame g e (discover e st0)] [] (discover e st0)).
  { apply Inv_init; auto.
    - intros y Hy. exfalso. apply Hy. reflexivity.
    - constructor. }
  destruct (loop_spec g e f _ _ [] _ _ _ _ [] _ _ _ _ _ I0 Hrun) as [new' [ln' [I1 Ep]]].
  rewrite app_nil_r in Ep. subst new'.
  assert (Hin : forall x, In x (flat w) <-> dfn s' x = DInf).
  { intros x. rewrite (inv_new I1 x). cbn [st0 dfn]. split; [intros [H _]; exact H|intros H; split; [exact H|discriminate]]. }
  assert (He : In e (flat w)).
  { apply Hin. destruct (inv_root I1) as [H|H]; [|exact H]. exfalso.
    pose proof (inv_finL I1 e (S (num st0)) Logic.I H) as H1. cbn in H1. apply H1. lia. }
  assert (Hedges : forall u v, In u (flat w) -> In v (succs g u) -> In v (flat w) /\ lok w u v).
  { intros u v Hu Hv. destruct (inv_edges I1 u v Hu Hv) as [G1 [G2|G2]]; [discriminate|].
    split; [apply Hin, G1|exact G2]. }
  assert (Hreach : forall x, In x (flat w) -> reachable g e x).
  { intros x Hx. apply (inv_reach I1). apply Hin in Hx. rewrite Hx. discriminate. }
  assert (Hall : forall x, reachable g e x -> In x (flat w)).
  { apply closed_reach; [exact He|]. intros u v Hu Hv. apply (Hedges u v Hu Hv). }
  unfold wto_ok, check. apply andb_true_iff. split.
  - unfold struct_ok. repeat (apply andb_true_iff; split).
    + apply nodupb_NoDup, (inv_nodup I1).
    + apply mem_In, He.
    + apply closedb_spec. intros u v Hu Hv. apply (Hedges u v Hu Hv).
    + apply subset_incl. intros x Hx. apply (reach_n_complete g e (flat w)); auto. apply (inv_nodup I1).
    + apply edges_ok_spec. intros u v Hu Hv. apply (Hedges u v Hu Hv).
  - unfold nesting_ok. apply forallb_forall. intros n _. rewrite nesting_heads.
    destruct (heads_l w n); [apply list_eqb_eq; reflexivity|reflexivity].
Qed.

Theorem build_ok : forall g e w, build g e = Some w -> wto_ok g e w = true.
Proof. intros g e w. apply build_fuel_ok. Qed.

Theorem build_WF : forall g e w, build g e = Some w ->
  WF g e w (nesting w) (seq 0 (length g) ++ flat w).
Proof. intros g e w H. apply wto_ok_sound, build_ok, H. Qed.

(* ================================================================== non-vacuity *)
(* examples: the hypotheses of the theorems are satisfied by non-trivial values *)
Example ex_nested :
  build [[1]; [2]; [3]; [4; 1]; [5; 2]; [0]] 0 =
  Some [Cycle 0 [Cycle 1 [Cycle 2 [Vertex 3; Vertex 4]]; Vertex 5]].
Proof. vm_compute. reflexivity. Qed.
Example ex_irreducible :
  build [[1; 2]; [2]; [1; 3]; []] 0 = Some [Vertex 0; Cycle 1 [Vertex 2]; Vertex 3].
Proof. vm_compute. reflexivity. Qed.
(* the example of Bourdoncle's paper, nodes renamed 0..7:  1 2 (3 4 (5 6) 7) 8 *)
Example ex_bourdoncle :
  build [[1]; [2; 7]; [3]; [4; 6]; [5]; [4; 6]; [2; 7]; []] 0 =
  Some [Vertex 0; Vertex 1; Cycle 2 [Vertex 3; Cycle 4 [Vertex 5]; Vertex 6]; Vertex 7]
  /\ (forall w, build [[1]; [2; 7]; [3]; [4; 6]; [5]; [4; 6]; [2; 7]; []] 0 = Some w ->
       map (nesting w) (seq 0 8) =
       [Some []; Some []; Some []; Some [2]; Some [2]; Some [2; 4]; Some [2]; Some []]).
Proof. split; [vm_compute; reflexivity|]. intros w H. vm_compute in H. inversion H. subst. vm_compute. reflexivity. Qed.
Example ex_WF_nontrivial :
  WF [[1]; [2]; [3]; [4; 1]; [5; 2]; [0]] 0
     [Cycle 0 [Cycle 1 [Cycle 2 [Vertex 3; Vertex 4]]; Vertex 5]]
     (nesting [Cycle 0 [Cycle 1 [Cycle 2 [Vertex 3; Vertex 4]]; Vertex 5]])
     (seq 0 6 ++ [0; 1; 2; 3; 4; 5]).
Proof. apply (build_WF [[1]; [2]; [3]; [4; 1]; [5; 2]; [0]] 0). exact ex_nested. Qed.
(* the checker rejects orderings that violate the property (it is not the constant true) *)
Example ex_checker_rejects :
  wto_ok [[1]; [2]; [1]] 0 [Vertex 0; Vertex 1; Vertex 2] = false /\
  wto_ok [[1]; [2]; [1]] 0 [Vertex 0; Cycle 2 [Vertex 1]] = true /\
  wto_ok [[1]; [2]; [1]] 0 [Vertex 0; Cycle 1 [Vertex 2]] = true /\
  wto_ok [[1]; [2]; [1]] 0 [Vertex 0; Cycle 1 []] = false /\
  wto_ok [[1]; []; [1]] 0 [Vertex 0; Vertex 1; Vertex 2] = false.
Proof. vm_compute. auto. Qed.
