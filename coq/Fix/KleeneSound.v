(* KleeneSound.v — a stable Kleene iterate is exactly the reachable states. *)
From Coq Require Import List Bool Arith NArith Lia.
From CrabV Require Import Fix.Kleene.
Import ListNotations.

Section Reach.
  Variable F : flow.

  Definition asm_ok (n : nat) (s : N) : Prop :=
    match f_asm F n with Some a => smem s a = true | None => True end.

  (* states with which some execution arrives at / leaves block n *)
  Inductive ReachPre : nat -> N -> Prop :=
  | RP_init s : smem s (f_init F) = true -> asm_ok (f_entry F) s -> ReachPre (f_entry F) s
  | RP_edge n p s : In p (f_preds F n) -> ReachPost p s -> asm_ok n s -> ReachPre n s
  with ReachPost : nat -> N -> Prop :=
  | RPost n s t : ReachPre n s -> In (s, t) (f_rel F n) -> ReachPost n t.

  Scheme ReachPre_ind_mut := Induction for ReachPre Sort Prop
    with ReachPost_ind_mut := Induction for ReachPost Sort Prop.
  Combined Scheme Reach_mutind from ReachPre_ind_mut, ReachPost_ind_mut.

  Definition sound_tabs (t : tabs) : Prop :=
    (forall n s, smem s (fst t n) = true -> ReachPre n s) /\
    (forall n s, smem s (snd t n) = true -> ReachPost n s).

  Lemma smem_join s a b : smem s (sjoin a b) = smem s a || smem s b.
  Proof. unfold smem, sjoin. apply N.lor_spec. Qed.
  Lemma smem_meet s a b : smem s (smeet a b) = smem s a && smem s b.
  Proof. unfold smem, smeet. apply N.land_spec. Qed.
  Lemma smem_zero s : smem s 0%N = false.
  Proof. apply N.bits_0. Qed.

  Lemma image_spec r a t :
    smem t (image r a) = true <-> exists s, smem s a = true /\ In (s, t) r.
  Proof.
    unfold image.
    assert (G : forall acc, smem t (fold_left (fun acc p => if smem (fst p) a then N.setbit acc (snd p) else acc) r acc) = true
                <-> (smem t acc = true \/ exists s, smem s a = true /\ In (s, t) r)).
    { induction r as [|[s0 t0] r IH]; simpl; intros acc.
      - split; [auto|intros [H|(s & _ & [])]; auto].
      - rewrite IH. destruct (smem s0 a) eqn:E.
        + unfold smem at 1. rewrite N.setbit_eqb.
          destruct (N.eqb_spec t0 t) as [->|NE]; simpl.
          * split; [intros _; right; exists s0; auto|auto].
          * split.
            -- intros [H|(s & Hs & I)]; [left; exact H|right; exists s; auto].
            -- intros [H|(s & Hs & [X|I])]; [left; exact H| |right; exists s; auto].
               inversion X; subst. congruence.
        + split.
          * intros [H|(s & Hs & I)]; [auto|right; exists s; auto].
          * intros [H|(s & Hs & [X|I])]; [auto| |right; exists s; auto].
            inversion X; subst. congruence. }
    rewrite G. rewrite smem_zero. split; [intros [H|H]; [discriminate|auto]|auto].
  Qed.

  Lemma fold_join_spec (post : nat -> sset) (ps : list nat) s : forall acc,
    smem s (fold_left (fun acc p => sjoin acc (post p)) ps acc) = true <->
    (smem s acc = true \/ exists p, In p ps /\ smem s (post p) = true).
  Proof.
    induction ps as [|p r IH]; simpl; intros acc.
    - split; [auto|intros [H|(p & [] & _)]; auto].
    - rewrite IH, smem_join, orb_true_iff. split.
      + intros [[H|H]|(q & I & H)]; eauto.
      + intros [H|(q & [<-|I] & H)]; eauto.
  Qed.

  Lemma inflow_spec post n s :
    smem s (inflow F post n) = true <->
    ((n = f_entry F /\ smem s (f_init F) = true) \/ exists p, In p (f_preds F n) /\ smem s (post p) = true)
    /\ asm_ok n s.
  Proof.
    unfold inflow, strengthenF, asm_ok.
    assert (B : smem s (sjoin (if Nat.eqb n (f_entry F) then f_init F else 0%N)
                     (fold_left (fun acc p => sjoin acc (post p)) (f_preds F n) 0%N)) = true <->
                ((n = f_entry F /\ smem s (f_init F) = true) \/ exists p, In p (f_preds F n) /\ smem s (post p) = true)).
    { rewrite smem_join, orb_true_iff, fold_join_spec, smem_zero.
      destruct (Nat.eqb_spec n (f_entry F)).
      - split; [intros [H|[H|H]]; [auto|discriminate|auto]|intros [[_ H]|H]; auto].
      - rewrite smem_zero. split; [intros [H|[H|H]]; [discriminate|discriminate|auto]|intros [[E _]|H]; [congruence|auto]]. }
    destruct (f_asm F n) as [a|].
    - rewrite smem_meet, andb_true_iff, B. tauto.
    - rewrite B. tauto.
  Qed.

  Lemma round_step_sound t n : sound_tabs t ->
    sound_tabs ((fun m => if Nat.eqb m n then inflow F (snd t) n else fst t m),
                (fun m => if Nat.eqb m n then image (f_rel F n) (inflow F (snd t) n) else snd t m)).
  Proof.
    intros [SP SQ].
    assert (PRE : forall s, smem s (inflow F (snd t) n) = true -> ReachPre n s).
    { intros s H. apply inflow_spec in H. destruct H as [[[-> I]|(p & I & H)] A].
      - apply RP_init; auto.
      - eapply RP_edge; eauto. }
    split; simpl; intros m s H.
    - destruct (Nat.eqb_spec m n); [subst; auto|auto].
    - destruct (Nat.eqb_spec m n); [subst|auto].
      apply image_spec in H. destruct H as (s0 & H0 & I). eapply RPost; eauto.
  Qed.

  Lemma round_sound t : sound_tabs t -> sound_tabs (round F t).
  Proof.
    unfold round. generalize (seq 0 (f_blocks F)). intros l. revert t.
    induction l as [|n r IH]; simpl; intros t S; auto.
    apply IH. apply round_step_sound; auto.
  Qed.

  Lemma iterate_sound k : forall t, sound_tabs t -> sound_tabs (iterate F k t).
  Proof. induction k as [|k IH]; simpl; intros t S; auto. apply IH. apply round_sound; auto. Qed.

  (* completeness of a stable table: it satisfies the equations, hence contains Reach *)
  Definition solves (t : tabs) : Prop :=
    forall n, n < f_blocks F ->
      fst t n = inflow F (snd t) n /\ snd t n = image (f_rel F n) (fst t n).

  Definition in_range : Prop :=
    f_entry F < f_blocks F /\
    (forall n p, In p (f_preds F n) -> p < f_blocks F) /\
    (forall n, f_blocks F <= n -> f_preds F n = [] /\ f_rel F n = []).

  Lemma reach_in_solution t : solves t -> in_range ->
    (forall n s, ReachPre n s -> n < f_blocks F -> smem s (fst t n) = true) /\
    (forall n s, ReachPost n s -> n < f_blocks F -> smem s (snd t n) = true).
  Proof.
    intros SOL (RE & RP & RO).
    apply (Reach_mutind
             (fun n s _ => n < f_blocks F -> smem s (fst t n) = true)
             (fun n s _ => n < f_blocks F -> smem s (snd t n) = true)).
    - intros s I A L. destruct (SOL _ L) as [E _]. rewrite E. apply inflow_spec. split; auto.
    - intros n p s I RPp IH A L. destruct (SOL _ L) as [E _]. rewrite E. apply inflow_spec.
      split; auto. right. exists p. split; auto. apply IH. eapply RP; eauto.
    - intros n s t0 RPn IH I L. destruct (SOL _ L) as [_ E]. rewrite E. apply image_spec.
      exists s. split; auto.
  Qed.

  Lemma solvesb_solves t : solvesb F t = true -> solves t.
  Proof.
    unfold solvesb, solves. intros H n L. rewrite forallb_forall in H.
    specialize (H n). rewrite in_seq in H. specialize (H ltac:(lia)).
    apply andb_true_iff in H. destruct H as [H1 H2]. apply N.eqb_eq in H1, H2. auto.
  Qed.

  Lemma sound_zero : sound_tabs ((fun _ => 0%N), (fun _ => 0%N)).
  Proof. split; intros n s H; cbn [fst snd] in H; rewrite smem_zero in H; discriminate. Qed.

  (* the validated least fixpoint is exactly the set of reaching states *)
  Theorem lfp_is_reach rounds t : in_range -> lfp F rounds = Some t ->
    (forall n s, n < f_blocks F -> (smem s (fst t n) = true <-> ReachPre n s)) /\
    (forall n s, n < f_blocks F -> (smem s (snd t n) = true <-> ReachPost n s)).
  Proof.
    intros R H. unfold lfp in H.
    destruct (solvesb F _) eqn:E; inversion H; subst. clear H.
    pose proof (iterate_sound rounds _ sound_zero) as [S1 S2].
    destruct (reach_in_solution _ (solvesb_solves _ E) R) as [C1 C2].
    split; intros n s L; split; auto.
  Qed.
End Reach.
