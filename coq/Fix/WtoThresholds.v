(* WtoThresholds.v — mirror of crab::wto_thresholds (fixpoint/thresholds.hpp): the widening
   thresholds that interleaved_fwd_fixpoint_iterator::initialize_thresholds collects, one set
   per cycle of the weak topological ordering, when max_thresholds > 0.

   * extract_bounds: an `assume` whose constraint is  c*x + k' <= 0  or  c*x + k' < 0  with exactly
     one term gives, with k = -k' and the truncating division of z_number,
       c > 0: the upper bound  k/c  (k/c - 1 if strict);  c < 0: the lower bound  k/c  (k/c + 1).
     Nothing else gives a bound (asserts, selects, equalities, disequalities, several terms).
   * get_thresholds(block, T): scans the statements in order, collecting lower bounds and upper
     bounds in two vectors; then adds  lb - 1  for every lower bound, then  ub + 1  for every
     upper bound (thresholds::add: Fix/Thresholds.v, with its size limit and its merging of
     consecutive values).
   * visit(cycle): a fresh set {-oo, 0, +oo} of capacity max_thresholds; the head's block, then the
     blocks of the head's predecessors other than the head itself, in prev_blocks order (also
     the sources of the back edges, and predecessors outside the ordering); the set is stored
     for the head; then the nested components are visited with the head on top of the stack.
   * visit(vertex): nothing outside cycles; otherwise the block's constants are added to the set
     of the innermost enclosing head only.  A nested cycle contributes nothing to the outer one.
   * extrapolate(head, ...) looks the head up in the map: [wto_thr]. *)
From Coq Require Import ZArith NArith List Bool Arith Lia.
From CrabV Require Import Base.ZInf Ir.Syntax Dom.ItvDomain Ir.Cfg Fix.Wto Fix.Thresholds Fix.ThresholdsSound.
Import ListNotations.

Inductive bkind := BLower | BUpper.

Definition extract_bounds (c : lincst) : option (bkind * Z) :=
  let strict := match lc_kind c with STRICT => true | _ => false end in
  match lc_kind c with
  | INEQ | STRICT =>
    match le_terms (lc_exp c) with
    | [(coeff, _)] =>
      let k := (- le_cst (lc_exp c))%Z in
      if (0 <? coeff)%Z then Some (BUpper, if strict then (Z.quot k coeff - 1)%Z else Z.quot k coeff)
      else if (coeff <? 0)%Z then Some (BLower, if strict then (Z.quot k coeff + 1)%Z else Z.quot k coeff)
      else None
    | _ => None
    end
  | _ => None
  end.

(* lb_bounds, ub_bounds of get_thresholds, in statement order *)
Fixpoint block_bounds (b : block) : list Z * list Z :=
  match b with
  | [] => ([], [])
  | s :: r =>
    let '(lbs, ubs) := block_bounds r in
    match s with
    | SAssume c =>
      match extract_bounds c with
      | Some (BLower, n) => (n :: lbs, ubs)
      | Some (BUpper, n) => (lbs, n :: ubs)
      | None => (lbs, ubs)
      end
    | _ => (lbs, ubs)
    end
  end.

Definition add_all (size : N) (t : thr) (vs : list Z) : thr :=
  fold_left (fun t v => thr_add size t (Fin v)) vs t.

Definition get_thresholds (size : N) (b : block) (t : thr) : thr :=
  let '(lbs, ubs) := block_bounds b in
  add_all size (add_all size t (map (fun n => (n - 1)%Z) lbs)) (map (fun n => (n + 1)%Z) ubs).

(* std::unordered_map<label, thresholds>: insert does not overwrite *)
Definition tmap := list (nat * thr).
Fixpoint tm_find (m : tmap) (h : nat) : option thr :=
  match m with
  | [] => None
  | (k, t) :: r => if Nat.eqb k h then Some t else tm_find r h
  end.
Fixpoint tm_update (m : tmap) (h : nat) (f : thr -> thr) : tmap :=
  match m with
  | [] => []
  | (k, t) :: r => if Nat.eqb k h then (k, f t) :: r else (k, t) :: tm_update r h f
  end.
Definition tm_insert (m : tmap) (h : nat) (t : thr) : tmap :=
  match tm_find m h with Some _ => m | None => m ++ [(h, t)] end.

Section Visit.
  Variable size : N.                       (* max_thresholds *)
  Variable blk : nat -> block.             (* m_cfg.get_node *)
  Variable preds : nat -> list nat.        (* prev_blocks, in the C++ order *)

  Definition head_thresholds (h : nat) : thr :=
    fold_left (fun t q => if Nat.eqb q h then t else get_thresholds size (blk q) t) (preds h)
              (get_thresholds size (blk h) thr_init).

  (* cur = top of m_stack *)
  Fixpoint wt_visit (c : comp) (cur : option nat) (m : tmap) {struct c} : tmap :=
    match c with
    | Vertex n =>
      match cur with
      | None => m
      | Some h => tm_update m h (get_thresholds size (blk n))
      end
    | Cycle h body =>
      (fix vb (l : list comp) (m : tmap) : tmap :=
         match l with
         | [] => m
         | c' :: r => vb r (wt_visit c' (Some h) m)
         end) body (tm_insert m h (head_thresholds h))
    end.

  Fixpoint wt_visit_all (w : list comp) (cur : option nat) (m : tmap) : tmap :=
    match w with
    | [] => m
    | c :: r => wt_visit_all r cur (wt_visit c cur m)
    end.

  (* m_wto.accept(&wto_thresholds); get_thresholds_map() *)
  Definition wto_thr_map (w : wto) : tmap := wt_visit_all w None [].
End Visit.

(* the set that extrapolate uses at a head (CRAB_ERROR if absent: never for a head of w) *)
Definition tm_get (m : tmap) (h : nat) : thr :=
  match tm_find m h with Some t => t | None => thr_init end.
Definition wto_thr (size : N) (blk : nat -> block) (preds : nat -> list nat) (w : wto) (h : nat) : thr :=
  tm_get (wto_thr_map size blk preds w) h.

(* ------------------------------------------------------------------ every collected set has the
   shape  -oo :: finite... ++ [+oo]  (what the termination of widening with thresholds needs) *)
Definition tm_wf (m : tmap) : Prop := Forall (fun kt => wf_thr (snd kt)) m.

Lemma add_all_wf size vs : forall t, wf_thr t -> wf_thr (add_all size t vs).
Proof.
  unfold add_all. induction vs as [|v r IH]; cbn [fold_left]; intros t W; [exact W|].
  apply IH. apply thr_add_wf; [exact W|reflexivity].
Qed.

Lemma get_thresholds_wf size b t : wf_thr t -> wf_thr (get_thresholds size b t).
Proof.
  intros W. unfold get_thresholds. destruct (block_bounds b) as [lbs ubs].
  apply add_all_wf, add_all_wf, W.
Qed.

Lemma head_thresholds_wf size blk preds h : wf_thr (head_thresholds size blk preds h).
Proof.
  unfold head_thresholds.
  assert (G : forall l t, wf_thr t ->
            wf_thr (fold_left (fun t q => if Nat.eqb q h then t else get_thresholds size (blk q) t) l t)).
  { induction l as [|q r IH]; cbn [fold_left]; intros t W; [exact W|].
    apply IH. destruct (Nat.eqb q h); [exact W|apply get_thresholds_wf, W]. }
  apply G. apply get_thresholds_wf. exact wf_thr_init.
Qed.

Lemma tm_wf_nil : tm_wf [].
Proof. constructor. Qed.

Lemma tm_wf_find m h t : tm_wf m -> tm_find m h = Some t -> wf_thr t.
Proof.
  induction 1 as [|[k t0] r W _ IH]; cbn [tm_find]; [discriminate|].
  destruct (Nat.eqb k h); [|exact IH]. intros E; inversion E; subst. exact W.
Qed.

Lemma tm_insert_wf m h t : tm_wf m -> wf_thr t -> tm_wf (tm_insert m h t).
Proof.
  intros M W. unfold tm_insert. destruct (tm_find m h); [exact M|].
  apply Forall_app. split; [exact M|]. constructor; [exact W|constructor].
Qed.

Lemma tm_update_wf m h f : tm_wf m -> (forall t, wf_thr t -> wf_thr (f t)) -> tm_wf (tm_update m h f).
Proof.
  intros M F. induction M as [|[k t] r W M IH]; cbn [tm_update]; [constructor|].
  destruct (Nat.eqb k h); constructor; auto. apply F. exact W.
Qed.

Section VisitWf.
  Variable size : N.
  Variable blk : nat -> block.
  Variable preds : nat -> list nat.

  Lemma wt_visit_wf : forall c cur m, tm_wf m -> tm_wf (wt_visit size blk preds c cur m).
  Proof.
    fix IH 1. intros [n|h body] cur m M; cbn [wt_visit].
    - destruct cur as [h|]; [|exact M]. apply tm_update_wf; [exact M|].
      intros t. apply get_thresholds_wf.
    - assert (M0 : tm_wf (tm_insert m h (head_thresholds size blk preds h)))
        by (apply tm_insert_wf; [exact M|apply head_thresholds_wf]).
      revert M0. generalize (tm_insert m h (head_thresholds size blk preds h)).
      induction body as [|c' r IHb]; intros m0 M0; [exact M0|].
      apply IHb. apply IH. exact M0.
  Qed.

  Lemma wt_visit_all_wf w : forall cur m, tm_wf m -> tm_wf (wt_visit_all size blk preds w cur m).
  Proof.
    induction w as [|c r IH]; cbn [wt_visit_all]; intros cur m M; [exact M|].
    apply IH. apply wt_visit_wf. exact M.
  Qed.

  (* no hypothesis on the program, the ordering or the size limit *)
  Theorem wto_thr_wf w h : wf_thr (wto_thr size blk preds w h).
  Proof.
    unfold wto_thr, tm_get.
    destruct (tm_find _ h) as [t|] eqn:F; [|exact wf_thr_init].
    apply (tm_wf_find _ _ _ (wt_visit_all_wf w None [] tm_wf_nil) F).
  Qed.
End VisitWf.

(* ------------------------------------------------------------------ example:
     b0: i := 0    b1 (head)    b2: assume i <= 9; i := i + 1    b3: assume i >= 10
   the cycle of b1 collects 10 (= 9 + 1, from b2, a predecessor of the head and a member of the
   cycle); b3 is outside the cycle *)
Example wto_thr_example :
  let i := 0%N in
  let blk := fun n => nth n [ [SAssign i (mkLE [] 0)];
                             [];
                             [SAssume (mkLC INEQ (mkLE [(1%Z, i)] (-9))); SArith OpAdd i i (OCst 1)];
                             [SAssume (mkLC INEQ (mkLE [((-1)%Z, i)] 10))] ] [] in
  let preds := fun n => match n with 1 => [0; 2] | 2 => [1] | 3 => [1] | _ => [] end in
  let w := [Vertex 0; Cycle 1 [Vertex 2]; Vertex 3] in
  wto_thr 10 blk preds w 1 = [MInf; Fin 0; Fin 10; PInf] /\
  wto_thr 3 blk preds w 1 = [MInf; Fin 0; PInf] /\
  wto_thr 10 blk preds w 3 = thr_init.
Proof. cbv zeta. split; [|split]; vm_compute; reflexivity. Qed.
