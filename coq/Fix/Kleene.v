(* Kleene.v — specification for property C06: over a finite concrete state space, the
   least solution of the flow equations, computed by round-robin iteration, and the proof
   that a stable iterate is exactly the set of states that reach each block. *)
From Coq Require Import List Bool Arith NArith Lia.
Import ListNotations.

(* a flow problem: blocks 0..n-1, states 0..S-1 as bits of an N *)
Record flow := mkF {
  f_blocks : nat;
  f_preds : nat -> list nat;
  f_rel : nat -> list (N * N);        (* transition relation of each block *)
  f_entry : nat;
  f_init : N;
  f_asm : nat -> option N }.

Definition sset := N.
Definition smem (s : N) (a : sset) : bool := N.testbit a s.
Definition sjoin (a b : sset) : sset := N.lor a b.
Definition smeet (a b : sset) : sset := N.land a b.
Definition sleq (a b : sset) : bool := N.eqb (N.land a b) a.

Definition image (r : list (N * N)) (a : sset) : sset :=
  fold_left (fun acc p => if smem (fst p) a then N.setbit acc (snd p) else acc) r 0%N.

Definition strengthenF (F : flow) (n : nat) (v : sset) : sset :=
  match f_asm F n with Some a => smeet v a | None => v end.

Definition tabs := ((nat -> sset) * (nat -> sset))%type.      (* pre, post *)

Definition inflow (F : flow) (post : nat -> sset) (n : nat) : sset :=
  strengthenF F n
    (sjoin (if Nat.eqb n (f_entry F) then f_init F else 0%N)
           (fold_left (fun acc p => sjoin acc (post p)) (f_preds F n) 0%N)).

Definition round (F : flow) (t : tabs) : tabs :=
  fold_left (fun (t : tabs) n =>
               let pre := inflow F (snd t) n in
               ((fun m => if Nat.eqb m n then pre else fst t m),
                (fun m => if Nat.eqb m n then image (f_rel F n) pre else snd t m)))
            (seq 0 (f_blocks F)) t.

Fixpoint iterate (F : flow) (k : nat) (t : tabs) : tabs :=
  match k with O => t | S k' => iterate F k' (round F t) end.

(* t satisfies the flow equations on every block *)
Definition solvesb (F : flow) (t : tabs) : bool :=
  forallb (fun n => N.eqb (fst t n) (inflow F (snd t) n) &&
                    N.eqb (snd t n) (image (f_rel F n) (fst t n))) (seq 0 (f_blocks F)).

(* the least fixpoint, validated: None if the iteration bound was not enough *)
Definition lfp (F : flow) (rounds : nat) : option tabs :=
  let t := iterate F rounds ((fun _ => 0%N), (fun _ => 0%N)) in
  if solvesb F t then Some t else None.
