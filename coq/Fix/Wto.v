(* Fix/Wto.v — mirror model of include/crab/fixpoint/wto.hpp (ikos::wto<G>), the iterative
   version of Bourdoncle's algorithm (RECURSIVE_WTO undefined).

   Graph: successor lists in the order in which out_edges enumerates them (for a crab CFG
   this is the order in which the edges were added: basic_block::m_next is a std::vector
   filled by insert_adjacent).  Node i has successors [nth i g []]; a node that is not an
   index of [g] has no successors.

   No proofs in this file. *)
From Coq Require Import List Arith Bool.
Import ListNotations.

(* ------------------------------------------------------------------ graphs *)
Definition graph := list (list nat).
Definition succs (g : graph) (v : nat) : list nat := nth v g [].

(* ------------------------------------------------------------------ WTOs *)
Inductive comp : Type :=
| Vertex (n : nat)
| Cycle (h : nat) (body : list comp).
Definition wto := list comp.

(* ------------------------------------------------------------------ dfn table
   wto::dfn_t = bound<z_number>: 0 = not visited, k>0 = depth-first number, +oo = done. *)
Inductive dfnv : Type := DN (n : nat) | DInf.
Definition is_zero (d : dfnv) : bool := match d with DN 0 => true | _ => false end.
(* child_dfn <= m  with m finite *)
Definition dfn_le_nat (d : dfnv) (m : nat) : bool := match d with DN k => k <=? m | DInf => false end.
(* m == dfn *)
Definition nat_eq_dfn (m : nat) (d : dfnv) : bool := match d with DN k => m =? k | DInf => false end.

Definition upd (d : nat -> dfnv) (n : nat) (v : dfnv) : nat -> dfnv :=
  fun x => if x =? n then v else d x.

Record st : Type := mkst {
  dfn : nat -> dfnv;     (* _dfn_table, get_dfn returns 0 for absent keys *)
  num : nat;             (* _num *)
  stk : list nat         (* _stack, top first *)
}.
Definition st0 : st := mkst (fun _ => DN 0) 0 [].

(* visit_stack_elem: node, remaining successors (the pair of iterators), _min *)
Record frame : Type := mkframe { fnode : nat; fcur : list nat; fmin : nat }.

(* push(v); _num += 1; set_dfn(v, _num) *)
Definition discover (v : nat) (s : st) : st :=
  mkst (upd (dfn s) v (DN (S (num s)))) (S (num s)) (v :: stk s).
Definition new_frame (g : graph) (v : nat) (s : st) : frame := mkframe v (succs g v) (num s).

Definition mem (x : nat) (l : list nat) : bool := existsb (Nat.eqb x) l.

(* element = pop(); while (!(element == v)) { set_dfn(element,0); element = pop(); }
   None = pop() on an empty stack (CRAB_ERROR) *)
Fixpoint pop_until (v : nat) (d : nat -> dfnv) (l : list nat) : option ((nat -> dfnv) * list nat) :=
  match l with
  | [] => None
  | x :: l' => if x =? v then Some (d, l') else pop_until v (upd d x (DN 0)) l'
  end.

(* propagate min from child to parent: if (!empty && back()._min > m) back()._min = m *)
Definition prop_min (m : nat) (vs : list frame) : list frame :=
  match vs with
  | [] => []
  | p :: vs' => if m <? fmin p then mkframe (fnode p) (fcur p) m :: vs' else vs
  end.

(* wto::component(g, v) given wto::visit: for every successor with dfn 0 call visit on the
   partition of the new component, in successor order. *)
Fixpoint comp_succs (visit : nat -> st -> wto -> option (st * wto))
         (l : list nat) (s : st) (p : wto) {struct l} : option (st * wto) :=
  match l with
  | [] => Some (s, p)
  | x :: l' =>
    if is_zero (dfn s x) then
      match visit x s p with
      | Some (s2, p2) => comp_succs visit l' s2 p2
      | None => None
      end
    else comp_succs visit l' s p
  end.

(* The body of wto::visit (the while loop over visit_stack); [f] is fuel: one unit per loop
   iteration, and a nested visit (called from component) starts with the fuel that is left.
   A call of wto::visit(g, x, p) in state s is
     let s1 := discover x s in loop f g [new_frame g x s1] [] s1 p. *)
Fixpoint loop (f : nat) (g : graph) (vs : list frame) (ln : list nat) (s : st) (part : wto)
  {struct f} : option (st * wto) :=
  match f with
  | 0 => None
  | S f' =>
    match vs with
    | [] => Some (s, part)
    | fr :: vs' =>
      match fcur fr with
      | child :: rest =>
        let fr1 := mkframe (fnode fr) rest (fmin fr) in
        let cd := dfn s child in
        if is_zero cd then
          let s1 := discover child s in
          loop f' g (new_frame g child s1 :: fr1 :: vs') ln s1 part
        else if dfn_le_nat cd (fmin fr) then
          match cd with
          | DN k => loop f' g (mkframe (fnode fr) rest k :: vs') (child :: ln) s part
          | DInf => None (* unreachable *)
          end
        else loop f' g (fr1 :: vs') ln s part
      | [] =>
        let v := fnode fr in
        let m := fmin fr in
        let is_loop := mem v ln in
        let vs1 := prop_min m vs' in
        if nat_eq_dfn m (dfn s v) then
          let d1 := upd (dfn s) v DInf in
          if is_loop then
            match pop_until v d1 (stk s) with
            | None => None
            | Some (d2, stk2) =>
              match comp_succs
                      (fun x s p => let s1 := discover x s in loop f' g [new_frame g x s1] [] s1 p)
                      (succs g v) (mkst d2 (num s) stk2) [] with
              | Some (s3, body) => loop f' g vs1 ln s3 (Cycle v body :: part)
              | None => None
              end
            end
          else
            match stk s with
            | [] => None
            | _ :: stk2 => loop f' g vs1 ln (mkst d1 (num s) stk2) (Vertex v :: part)
            end
        else loop f' g vs1 ln s part
      end
    end
  end.

Definition fuel_for (g : graph) : nat :=
  let n := length g in
  let e := length (concat g) in
  (n + 2) * (2 * n + e + 3).

(* wto(G g, entry): visit(g, entry, _wto_components) *)
Definition build_fuel (f : nat) (g : graph) (e : nat) : option wto :=
  let s1 := discover e st0 in
  match loop f g [new_frame g e s1] [] s1 [] with
  | Some (_, w) => Some w
  | None => None
  end.
Definition build (g : graph) (e : nat) : option wto := build_fuel (fuel_for g) g e.

(* ------------------------------------------------------------------ nesting_builder
   _nesting_table->insert(make_pair(n, nesting)) does not overwrite an existing entry. *)
Definition ntable := list (nat * list nat).
Fixpoint nlookup (t : ntable) (n : nat) : option (list nat) :=
  match t with
  | [] => None
  | (k, v) :: t' => if k =? n then Some v else nlookup t' n
  end.
Definition ninsert (n : nat) (v : list nat) (t : ntable) : ntable :=
  match nlookup t n with Some _ => t | None => t ++ [(n, v)] end.

Fixpoint nb_comp (c : comp) (nest : list nat) (t : ntable) {struct c} : ntable :=
  match c with
  | Vertex n => ninsert n nest t
  | Cycle h body =>
    (fix go (l : list comp) (t : ntable) {struct l} : ntable :=
       match l with
       | [] => t
       | c' :: l' => go l' (nb_comp c' (nest ++ [h]) t)
       end) body (ninsert h nest t)
  end.
Fixpoint nb_list (l : list comp) (nest : list nat) (t : ntable) : ntable :=
  match l with
  | [] => t
  | c :: l' => nb_list l' nest (nb_comp c nest t)
  end.
(* build_nesting(): every top-level component is visited with the empty nesting *)
Definition build_nesting (w : wto) : ntable := nb_list w [] [].
(* wto::nesting(n) *)
Definition nesting (w : wto) (n : nat) : option (list nat) := nlookup (build_nesting w) n.
