(* Thresholds.v — mirror of crab::thresholds<Number> (fixpoint/thresholds.hpp):
   a sorted vector of bounds, initially {-oo, 0, +oo}. *)
From Coq Require Import ZArith NArith List Bool Lia.
From CrabV Require Import Base.ZInf.
Import ListNotations.
Local Open Scope Z_scope.

Definition thr := list bound.
Definition thr_init : thr := [MInf; Fin 0; PInf].

Fixpoint thr_mem (v : bound) (t : thr) : bool :=
  match t with [] => false | h :: r => beqb h v || thr_mem v r end.

(* std::upper_bound: split into the prefix of elements <= v and the rest *)
Fixpoint split_le (v : bound) (t : thr) : thr * thr :=
  match t with
  | [] => ([], [])
  | h :: r => if ble h v then let '(a, b) := split_le v r in (h :: a, b) else ([], t)
  end.
(* std::lower_bound: prefix of elements < v *)
Fixpoint split_lt (v : bound) (t : thr) : thr * thr :=
  match t with
  | [] => ([], [])
  | h :: r => if blt h v then let '(a, b) := split_lt v r in (h :: a, b) else ([], t)
  end.

Definition replace_last (l : thr) (v : bound) : thr :=
  match rev l with [] => [] | _ :: r => rev r ++ [v] end.

Definition thr_add (size : N) (t : thr) (v : bound) : thr :=
  if negb (N.of_nat (length t) <? size)%N then t
  else if thr_mem v t then t
  else
    let '(le, gt) := split_le v t in
    if bgt v (Fin 0) then
      match rev le with
      | prev :: (_ :: _) =>            (* prev is not the first element of the vector *)
        if beqb (badd prev (Fin 1)) v then replace_last le v ++ gt else le ++ v :: gt
      | _ => le ++ v :: gt
      end
    else if blt v (Fin 0) then
      match gt with
      | u :: r => if beqb (bsub u (Fin 1)) v then le ++ v :: r else le ++ v :: gt
      | [] => le ++ [v]
      end
    else le ++ v :: gt.

Definition thr_next (t : thr) (v : bound) : bound :=
  match v with
  | PInf => PInf
  | _ => match snd (split_le v t) with
         | u :: _ => u
         | [] => last t PInf
         end
  end.

Definition thr_prev (t : thr) (v : bound) : bound :=
  match v with
  | MInf => MInf
  | _ => match rev (fst (split_lt v t)) with
         | p :: _ => p
         | [] => hd MInf t
         end
  end.
