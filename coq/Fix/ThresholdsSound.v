(* ThresholdsSound.v — get_prev(v) <= v <= get_next(v) for every threshold set built by
   add() from the initial {-oo, 0, +oo}. *)
From Coq Require Import ZArith NArith List Bool Lia.
From CrabV Require Import Base.ZInf Fix.Thresholds.
Import ListNotations.
Local Open Scope Z_scope.

(* shape invariant: first element -oo, last element +oo *)
Definition wf_thr (t : thr) : Prop := exists mid, t = MInf :: mid ++ [PInf].

Lemma wf_thr_init : wf_thr thr_init.
Proof. exists [Fin 0]. reflexivity. Qed.

Lemma split_le_app v t : fst (split_le v t) ++ snd (split_le v t) = t.
Proof.
  induction t as [|h r IH]; simpl; auto.
  destruct (ble h v); simpl; auto. destruct (split_le v r); simpl in *. f_equal. auto.
Qed.

Lemma split_le_snd_head v t u r : snd (split_le v t) = u :: r -> ble u v = false.
Proof.
  induction t as [|h t' IH]; simpl; try discriminate.
  destruct (ble h v) eqn:E.
  - destruct (split_le v t'); simpl in *. auto.
  - simpl. intros H; inversion H; subst; auto.
Qed.

Lemma split_le_snd_nil v t : snd (split_le v t) = [] -> forall x, In x t -> ble x v = true.
Proof.
  induction t as [|h t' IH]; simpl; [tauto|].
  destruct (ble h v) eqn:E.
  - destruct (split_le v t') eqn:S; simpl in *. intros H x [<-|I]; auto.
  - simpl. discriminate.
Qed.

Lemma thr_next_ge t v : wf_thr t -> ble v (thr_next t v) = true.
Proof.
  intros [mid ->]. unfold thr_next. destruct v as [| z |]; [| |reflexivity].
  - destruct (snd (split_le MInf (MInf :: mid ++ [PInf]))); reflexivity.
  - destruct (snd (split_le (Fin z) (MInf :: mid ++ [PInf]))) as [|u r] eqn:S.
    + exfalso. pose proof (split_le_snd_nil _ _ S PInf) as X.
      assert (I : In PInf (MInf :: mid ++ [PInf])) by (right; apply in_or_app; right; left; auto).
      specialize (X I). simpl in X. discriminate.
    + apply split_le_snd_head in S. apply ble_false_flip; auto.
Qed.

Lemma split_lt_fst_lt v t x : In x (fst (split_lt v t)) -> blt x v = true.
Proof.
  induction t as [|h t' IH]; simpl; [tauto|].
  destruct (blt h v) eqn:E.
  - destruct (split_lt v t'); simpl in *. intros [<-|I]; auto.
  - simpl. tauto.
Qed.

Lemma thr_prev_le t v : wf_thr t -> ble (thr_prev t v) v = true.
Proof.
  intros [mid ->]. unfold thr_prev. destruct v as [| z |]; [reflexivity| |].
  - destruct (rev (fst (split_lt (Fin z) (MInf :: mid ++ [PInf])))) as [|p r] eqn:R; [reflexivity|].
    assert (I : In p (fst (split_lt (Fin z) (MInf :: mid ++ [PInf])))).
    { apply in_rev. rewrite R. left; auto. }
    apply split_lt_fst_lt in I. unfold blt, bge in I. apply negb_true_iff in I.
    apply ble_false_flip; auto.
  - destruct (rev (fst (split_lt PInf (MInf :: mid ++ [PInf])))) as [|p r]; [reflexivity|].
    destruct p; reflexivity.
Qed.

(* add preserves the shape *)
Lemma split_le_head_minf v mid :
  exists le', fst (split_le v (MInf :: mid ++ [PInf])) = MInf :: le'.
Proof. simpl. destruct (split_le v (mid ++ [PInf])); simpl. eauto. Qed.

Lemma last_app_PInf (l : thr) : l <> [] -> (exists l', l = l' ++ [PInf]) -> last l MInf = PInf.
Proof. intros _ [l' ->]. apply last_last. Qed.

Lemma thr_add_wf size t v : wf_thr t -> b_is_finite v = true -> wf_thr (thr_add size t v).
Proof.
  intros W F. unfold thr_add.
  destruct (negb _); auto. destruct (thr_mem v t); auto.
  destruct W as [mid ->].
  destruct (split_le v (MInf :: mid ++ [PInf])) as [le gt] eqn:S.
  pose proof (split_le_app v (MInf :: mid ++ [PInf])) as APP. rewrite S in APP. simpl fst in APP. simpl snd in APP.
  destruct (split_le_head_minf v mid) as [le' HL]. rewrite S in HL. simpl in HL. subst le.
  (* gt is non-empty and ends with +oo *)
  assert (GT : exists g', gt = g' ++ [PInf]).
  { assert (NE : gt <> []).
    { intros ->. pose proof (split_le_snd_nil v (MInf :: mid ++ [PInf])) as X. rewrite S in X.
      assert (I : In PInf (MInf :: mid ++ [PInf])) by (right; apply in_or_app; right; left; auto).
      specialize (X eq_refl PInf I). destruct v; simpl in *; discriminate. }
    destruct (exists_last NE) as (g' & a & ->).
    rewrite app_comm_cons, app_assoc in APP.
    apply app_inj_tail in APP. destruct APP as [_ ->]. eauto. }
  destruct GT as [g' ->].
  assert (R1 : wf_thr ((MInf :: le') ++ v :: g' ++ [PInf])).
  { exists (le' ++ v :: g'). simpl. f_equal. rewrite <- app_assoc. reflexivity. }
  destruct (bgt v (Fin 0)).
  - destruct (rev (MInf :: le')) as [|prev [|p2 pr]] eqn:RV; auto.
    destruct (beqb (badd prev (Fin 1)) v); auto.
    (* replace the last element of le (which is not its first) by v *)
    unfold replace_last. rewrite RV.
    assert (E : MInf :: le' = rev (p2 :: pr) ++ [prev]).
    { rewrite <- (rev_involutive (MInf :: le')), RV. reflexivity. }
    destruct (rev (p2 :: pr)) as [|q qs] eqn:RQ.
    { exfalso. apply (f_equal (@length _)) in RQ. rewrite rev_length in RQ. simpl in RQ. lia. }
    simpl in E. inversion E; subst.
    exists (qs ++ v :: g'). simpl. f_equal. rewrite <- !app_assoc. reflexivity.
  - destruct (blt v (Fin 0)); auto.
    destruct (g' ++ [PInf]) as [|u r] eqn:GE; [destruct g'; discriminate|].
    destruct (beqb (bsub u (Fin 1)) v) eqn:BE; [|exact R1].
    (* u is replaced by v; u is finite, hence not the final +oo *)
    destruct g' as [|g0 gr].
    + simpl in GE. inversion GE; subst. apply beqb_eq in BE. destruct v; simpl in *; discriminate.
    + simpl in GE. inversion GE; subst.
      exists (le' ++ v :: gr). simpl. f_equal. rewrite <- app_assoc. reflexivity.
Qed.
