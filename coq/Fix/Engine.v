(* Engine.v — mirror of ikos::interleaved_fwd_fixpoint_iterator / wto_iterator
   (fixpoint/interleaved_fixpoint_iterator.hpp), generic in the abstract value type and in
   the block transformer: visit(vertex), visit(cycle) with the skip logic for an analysis
   entry in the middle of the WTO (the initial value flows into the entry block together
   with its predecessors' posts, also when that block lies inside a loop), predecessor
   joins filtered by WTO nesting, increasing
   iterations with extrapolation after widening_delay, post-fixpoint replacement,
   decreasing iterations with meet-then-narrowing, assumption maps.  Loops take fuel;
   None = out of fuel. *)
From Coq Require Import List Bool Arith.
From CrabV Require Import Fix.Wto.
Import ListNotations.

Section Engine.
  Variable A : Type.
  Record aops : Type := mkOps {
    o_bot : A; o_top : A;
    o_join : A -> A -> A; o_meet : A -> A -> A;
    o_widen : nat -> A -> A -> A;        (* node (for per-cycle thresholds), before, after *)
    o_narrow : A -> A -> A;
    o_leq : A -> A -> bool }.
  Variable OP : aops.
  Variable analyze : nat -> A -> A.          (* transformer of a basic block *)
  Variable preds : nat -> list nat.          (* prev_nodes, in the C++ order *)
  Variable nest : nat -> list nat.           (* wto.nesting(n) *)
  Variable entry : nat.                      (* block where the analysis starts *)
  Variable delay descending : nat.           (* fixpoint parameters *)
  Variable use_asm : bool.                   (* assumption map given and non-empty *)
  Variable asm : nat -> option A.
  Variable init : A.                         (* initial value: flows into the entry block *)

  Record est : Type := mkE { e_pre : nat -> A; e_post : nat -> A; e_skip : bool }.

  Definition tset (t : nat -> A) (n : nat) (v : A) : nat -> A :=
    fun m => if Nat.eqb m n then v else t m.

  Definition strengthen (n : nat) (inv : A) : A :=
    if use_asm then match asm n with Some a => o_meet OP inv a | None => inv end else inv.

  Definition join_posts_from (post : nat -> A) (ps : list nat) (a0 : A) : A :=
    fold_left (fun acc p => o_join OP acc (post p)) ps a0.
  Definition join_posts (post : nat -> A) (ps : list nat) : A :=
    join_posts_from post ps (o_bot OP).

  Definition visit_vertex (n : nat) (st : est) : est :=
    let skip := if e_skip st && Nat.eqb n entry then false else e_skip st in
    if skip then mkE (e_pre st) (e_post st) skip
    else
      (* the initial value flows into the entry block together with its predecessors' posts *)
      let pre :=
        strengthen n (join_posts_from (e_post st) (preds n)
                                      (if Nat.eqb n entry then init else o_bot OP)) in
      mkE (tset (e_pre st) n pre) (tset (e_post st) n (analyze n pre)) skip.

  (* member_component_visitor *)
  Fixpoint comp_member (x : nat) (c : comp) : bool :=
    match c with
    | Vertex n => Nat.eqb n x
    | Cycle h body =>
      Nat.eqb h x || (fix ex (l : list comp) : bool :=
                        match l with [] => false | c' :: r => comp_member x c' || ex r end) body
    end.

  (* wto_nesting::operator> : the right operand is a strict prefix of the left one *)
  Fixpoint strict_prefix (b a : list nat) : bool :=
    match b, a with
    | [], [] => false
    | [], _ :: _ => true
    | x :: b', y :: a' => Nat.eqb x y && strict_prefix b' a'
    | _ :: _, [] => false
    end.
  Definition deeper (a b : list nat) : bool := strict_prefix b a.

  Definition extrapolate (h i : nat) (before after : A) : A :=
    if i <=? delay then o_join OP before after else o_widen OP h before after.
  Definition refine (i : nat) (before after : A) : A :=
    if Nat.eqb i 1 then o_meet OP before after else o_narrow OP before after.

  (* value flowing into the head: predecessors' posts, the initial value when the analysis
     starts at this head, then the assumption *)
  Definition head_inflow (h : nat) (entry_pre : option A) (st : est) : A :=
    let v := join_posts (e_post st) (preds h) in
    let v := match entry_pre with Some ip => o_join OP v ip | None => v end in
    strengthen h v.

  Section Cycle.
    Variable vbody : est -> option est.      (* visit of the nested components *)
    Variable h : nat.
    Variable entry_pre : option A.

    Fixpoint inc_loop (fuel : nat) (i : nat) (pre : A) (st : est) : option (A * est) :=
      match fuel with
      | O => None
      | S f =>
        let st1 := mkE (tset (e_pre st) h pre) (tset (e_post st) h (analyze h pre)) (e_skip st) in
        match vbody st1 with
        | None => None
        | Some st2 =>
          let new_pre := head_inflow h entry_pre st2 in
          if o_leq OP new_pre pre
          then Some (new_pre, mkE (tset (e_pre st2) h new_pre) (e_post st2) (e_skip st2))
          else inc_loop f (S i) (extrapolate h i pre new_pre) st2
        end
      end.

    Fixpoint dec_loop (fuel : nat) (i : nat) (pre : A) (st : est) : option est :=
      match fuel with
      | O => None
      | S f =>
        let st1 := mkE (e_pre st) (tset (e_post st) h (analyze h pre)) (e_skip st) in
        match vbody st1 with
        | None => None
        | Some st2 =>
          let new_pre := head_inflow h entry_pre st2 in
          if o_leq OP pre new_pre then Some st2
          else if descending <? i then Some st2
          else
            let pre' := refine i pre new_pre in
            dec_loop f (S i) pre' (mkE (tset (e_pre st2) h pre') (e_post st2) (e_skip st2))
        end
      end.
  End Cycle.

  Variable fuel : nat.

  Fixpoint visit (c : comp) (st : est) {struct c} : option est :=
    match c with
    | Vertex n => Some (visit_vertex n st)
    | Cycle h body =>
      let vbody := (fix vb (l : list comp) (s : est) : option est :=
                      match l with
                      | [] => Some s
                      | c' :: r => match visit c' s with None => None | Some s' => vb r s' end
                      end) body in
      let entry_in := e_skip st && comp_member entry c in
      if e_skip st && negb entry_in then Some st
      else
        let st := mkE (e_pre st) (e_post st) false in
        let entry_is_head := Nat.eqb h entry in
        let entry_pre := if entry_is_head then Some init else None in
        let pre0 :=
          if entry_is_head then init
          else fold_left (fun acc p => if deeper (nest p) (nest h) then acc
                                       else o_join OP acc (e_post st p)) (preds h) (o_bot OP) in
        let pre0 := strengthen h pre0 in
        match inc_loop vbody h entry_pre fuel 1 pre0 st with
        | None => None
        | Some (pre, st') =>
          if Nat.eqb descending 0 then Some st'
          else dec_loop vbody h entry_pre fuel 1 pre st'
        end
    end.

  Fixpoint visit_all (w : list comp) (st : est) : option est :=
    match w with
    | [] => Some st
    | c :: r => match visit c st with None => None | Some st' => visit_all r st' end
    end.

  (* run(entry, init, assumptions): all tables bottom, pre(entry) = init, skip = true *)
  Definition run (w : list comp) : option est :=
    visit_all w (mkE (tset (fun _ => o_bot OP) entry init) (fun _ => o_bot OP) true).
End Engine.
