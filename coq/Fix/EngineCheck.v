(* EngineCheck.v — a verified checker for invariant tables (any abstract domain, any
   CFG): if the tables are inductive (each block's post is above the transformer of its
   pre, each pre is above the strengthened join of the predecessors' posts and, at the
   analysis entry, of the initial value) then they over-approximate every concrete
   execution.  Used (i) to validate the engine model's result (run_checked) and (ii) on
   the invariants exported by the C++ analyzer itself. *)
From Coq Require Import List Bool Arith.
From CrabV Require Import Fix.Engine.
Import ListNotations.

Section Check.
  Variable A : Type.
  Variable State : Type.
  Variable gamma : A -> State -> Prop.
  Variable OP : aops A.
  Hypothesis join_l : forall a b s, gamma a s -> gamma (o_join A OP a b) s.
  Hypothesis join_r : forall a b s, gamma b s -> gamma (o_join A OP a b) s.
  Hypothesis meet_s : forall a b s, gamma a s -> gamma b s -> gamma (o_meet A OP a b) s.
  Hypothesis leq_s : forall a b s, o_leq A OP a b = true -> gamma a s -> gamma b s.

  Variable analyze : nat -> A -> A.
  Variable bstep : nat -> State -> State -> Prop.       (* concrete semantics of a block *)
  Hypothesis analyze_s : forall n a s s', gamma a s -> bstep n s s' -> gamma (analyze n a) s'.

  Variable preds : nat -> list nat.
  Variable entry : nat.
  Variable use_asm : bool.
  Variable asm : nat -> option A.
  Variable Init : State -> Prop.
  Variable init : A.
  Hypothesis init_s : forall s, Init s -> gamma init s.

  Definition asm_holds (n : nat) (s : State) : Prop :=
    if use_asm then match asm n with Some a => gamma a s | None => True end else True.

  (* collecting semantics *)
  Inductive RPre : nat -> State -> Prop :=
  | RP_init s : Init s -> asm_holds entry s -> RPre entry s
  | RP_edge n p s : In p (preds n) -> RPost p s -> asm_holds n s -> RPre n s
  with RPost : nat -> State -> Prop :=
  | RPo n s s' : RPre n s -> bstep n s s' -> RPost n s'.

  Scheme RPre_mut := Induction for RPre Sort Prop
    with RPost_mut := Induction for RPost Sort Prop.
  Combined Scheme R_mutind from RPre_mut, RPost_mut.

  Variable nodes : list nat.                 (* all blocks of the CFG *)
  Hypothesis nodes_closed : In entry nodes /\ forall n p, In p (preds n) -> In n nodes.
  Variables pre post : nat -> A.

  Definition inflow_chk (n : nat) : A :=
    let v := join_posts A OP post (preds n) in
    let v := if Nat.eqb n entry then o_join A OP v init else v in
    strengthen A OP use_asm asm n v.

  Definition inductive_ok : bool :=
    forallb (fun n => o_leq A OP (analyze n (pre n)) (post n) && o_leq A OP (inflow_chk n) (pre n)) nodes.

  Lemma join_posts_sound p ps s : In p ps -> gamma (post p) s -> gamma (join_posts A OP post ps) s.
  Proof.
    unfold join_posts. intros I G.
    assert (H : forall l acc, (gamma acc s \/ In p l) ->
                  gamma (fold_left (fun acc q => o_join A OP acc (post q)) l acc) s).
    { induction l as [|q r IH]; simpl; intros acc X.
      - destruct X as [X|[]]; auto.
      - apply IH. destruct X as [X|[<-|X]].
        + left. apply join_l; auto.
        + left. apply join_r; auto.
        + right; auto. }
    apply H. right; auto.
  Qed.

  Lemma strengthen_sound n v s : gamma v s -> asm_holds n s ->
    gamma (strengthen A OP use_asm asm n v) s.
  Proof.
    unfold strengthen, asm_holds. destruct use_asm; auto. destruct (asm n); auto.
  Qed.

  Theorem inductive_sound : inductive_ok = true ->
    (forall n s, RPre n s -> In n nodes /\ gamma (pre n) s) /\
    (forall n s, RPost n s -> In n nodes /\ gamma (post n) s).
  Proof.
    intros OK. unfold inductive_ok in OK. rewrite forallb_forall in OK.
    destruct nodes_closed as [NE NC].
    apply (R_mutind (fun n s _ => In n nodes /\ gamma (pre n) s)
                    (fun n s _ => In n nodes /\ gamma (post n) s)).
    - intros s I AH. split; auto. specialize (OK _ NE). apply andb_true_iff in OK.
      destruct OK as [_ L]. eapply leq_s; [exact L|].
      unfold inflow_chk. rewrite Nat.eqb_refl. apply strengthen_sound; auto.
    - intros n p s I R [IP G] AH.
      assert (INn : In n nodes) by (eapply NC; eauto).
      split; auto. specialize (OK _ INn). apply andb_true_iff in OK. destruct OK as [_ L].
      eapply leq_s; [exact L|]. unfold inflow_chk. apply strengthen_sound; auto.
      destruct (Nat.eqb n entry); [apply join_l|]; eapply join_posts_sound; eauto.
    - intros n s s' R [INn G] B. split; auto. specialize (OK _ INn). apply andb_true_iff in OK.
      destruct OK as [L _]. eapply leq_s; [exact L|]. eapply analyze_s; eauto.
  Qed.
End Check.
