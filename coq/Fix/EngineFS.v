(* EngineFS.v — the engine model instantiated with finite sets of states (join as widening,
   meet as narrowing) and exact-image transformers: the setting of property C06. *)
From Coq Require Import List Bool Arith NArith.
From CrabV Require Import Fix.Wto Fix.Engine Fix.EngineBelow Fix.EngineCheck Fix.Kleene.
Import ListNotations.

Definition fs_ops (S : N) : aops N :=
  mkOps N 0%N (N.ones S) sjoin smeet (fun _ => sjoin) smeet sleq.

Definition nest_of (w : wto) (n : nat) : list nat :=
  match nesting w n with Some l => l | None => [] end.

Definition fs_engine (S : N) (F : flow) (w : wto) (delay desc : nat) (use_asm : bool) (fuel : nat)
  : option (est N) :=
  run N (fs_ops S) (fun n a => image (f_rel F n) a) (f_preds F) (nest_of w) (f_entry F)
      delay desc use_asm (f_asm F) (f_init F) fuel w.

(* the side condition of theorem fs_engine_exact, as an executable test (the start block may
   be anywhere in w, so nothing is required of w any more; the parameter is kept for the driver) *)
Definition fs_certified (S : N) (F : flow) (w : wto) (use_asm : bool) (e : est N) : bool :=
  inductive_ok N (fs_ops S) (fun n a => image (f_rel F n) a) (f_preds F) (f_entry F) use_asm (f_asm F)
               (f_init F) (seq 0 (f_blocks F)) (e_pre N e) (e_post N e).
