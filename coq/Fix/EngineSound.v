(* EngineSound.v — the fixpoint engine model (Fix/Engine.v, mirror of crab's
   interleaved_fwd_fixpoint_iterator) is SOUND: for every CFG, every weak topological
   ordering with distinct nodes whose edges respect the ordering, every fuel, widening
   delay, number of descending iterations and assumption map, the tables of a terminated
   run contain the collecting semantics RPre / RPost of Fix/EngineCheck.v.  The analysis may
   start at ANY block of the ordering, also strictly inside loops: the initial value flows
   into the entry block together with its predecessors' posts.

   No checker is involved and nothing is assumed about widening, the order test being
   sound is all that is used of the increasing phase: only its LAST pass matters.  The
   proof is by structural induction on the components (Bekic): visiting a component makes
   its table entries contain the collecting semantics RELATIVE to the component
   (Fix/EngineRel.v), where the external inputs are the post entries, at the time of the
   visit, of the nodes outside the component. *)
From Coq Require Import List Bool Arith Lia.
From CrabV Require Import Fix.Wto Fix.WtoCheck Fix.WtoSound Fix.Engine Fix.EngineBelow Fix.EngineCheck
     Fix.EngineRel.
Import ListNotations.

Section Sound.
  Variable A : Type.
  Variable State : Type.
  Variable gamma : A -> State -> Prop.
  Variable OP : aops A.
  Hypothesis join_l : forall a b s, gamma a s -> gamma (o_join A OP a b) s.
  Hypothesis join_r : forall a b s, gamma b s -> gamma (o_join A OP a b) s.
  Hypothesis meet_s : forall a b s, gamma a s -> gamma b s -> gamma (o_meet A OP a b) s.
  Hypothesis narrow_s : forall a b s, gamma a s -> gamma b s -> gamma (o_narrow A OP a b) s.
  Hypothesis leq_s : forall a b s, o_leq A OP a b = true -> gamma a s -> gamma b s.

  Variable analyze : nat -> A -> A.
  Variable bstep : nat -> State -> State -> Prop.
  Hypothesis analyze_s : forall n a s s', gamma a s -> bstep n s s' -> gamma (analyze n a) s'.

  Variable preds : nat -> list nat.
  Variable nest : nat -> list nat.
  Variable entry : nat.
  Variable delay descending : nat.
  Variable use_asm : bool.
  Variable asm : nat -> option A.
  Variable Init : State -> Prop.
  Variable init : A.
  Hypothesis init_s : forall s, Init s -> gamma init s.
  Variable fuel : nat.

  Notation pre := (e_pre A).
  Notation post := (e_post A).
  Notation skip := (e_skip A).
  Notation tset := (tset A).
  Notation strengthen := (strengthen A OP use_asm asm).
  Notation join_posts := (join_posts A OP).
  Notation head_inflow := (head_inflow A OP preds use_asm asm).
  Notation visit_vertex := (visit_vertex A OP analyze preds entry use_asm asm init).
  Notation join_posts_from := (join_posts_from A OP).
  Notation inc_loop := (inc_loop A OP analyze preds delay use_asm asm).
  Notation dec_loop := (dec_loop A OP analyze preds descending use_asm asm).
  Notation visit := (visit A OP analyze preds nest entry delay descending use_asm asm init fuel).
  Notation visit_all := (visit_all A OP analyze preds nest entry delay descending use_asm asm init fuel).
  Notation asm_holds := (asm_holds A State gamma use_asm asm).
  Notation RRpre := (RRpre A State gamma bstep preds entry use_asm asm Init).
  Notation RRpost := (RRpost A State gamma bstep preds entry use_asm asm Init).
  Notation RPre := (RPre A State gamma bstep preds entry use_asm asm Init).
  Notation RPost := (RPost A State gamma bstep preds entry use_asm asm Init).
  Notation eok := (eok preds).

  (* ---------------------------------------------------------------- specifications *)
  (* external inputs read off a table *)
  Definition Ext_of (st : est A) : nat -> State -> Prop := fun p s => gamma (post st p) s.
  Definition EFalse : nat -> State -> Prop := fun _ _ => False.

  Definition SoundOn (C : list nat) (E : nat -> State -> Prop) (st : est A) : Prop :=
    (forall n s, RRpre C E n s -> gamma (pre st n) s) /\
    (forall n s, RRpost C E n s -> gamma (post st n) s).
  Definition Frame (C : list nat) (st st' : est A) : Prop :=
    forall m, ~ In m C -> pre st' m = pre st m /\ post st' m = post st m.
  (* visiting the nodes C (not skipping) *)
  Definition VSpec (C : list nat) (v : est A -> option (est A)) : Prop :=
    forall st st', skip st = false -> v st = Some st' ->
      skip st' = false /\ Frame C st st' /\ SoundOn C (Ext_of st) st'.

  Lemma tset_same (t : nat -> A) n v : tset t n v n = v.
  Proof. unfold Engine.tset. rewrite Nat.eqb_refl. reflexivity. Qed.
  Lemma tset_other (t : nat -> A) n v m : m <> n -> tset t n v m = t m.
  Proof. intros H. unfold Engine.tset. apply Nat.eqb_neq in H. rewrite H. reflexivity. Qed.

  Lemma Frame_refl C st : Frame C st st.
  Proof. intros m _. split; reflexivity. Qed.
  Lemma Frame_trans C st1 st2 st3 : Frame C st1 st2 -> Frame C st2 st3 -> Frame C st1 st3.
  Proof.
    intros F1 F2 m N. destruct (F1 m N) as [a b]. destruct (F2 m N) as [c d].
    split; congruence.
  Qed.
  Lemma Frame_incl C C' st st' : (forall x, In x C -> In x C') -> Frame C st st' -> Frame C' st st'.
  Proof. intros S F m N. apply F. intros X. apply N, S, X. Qed.

  Lemma SoundOn_mono C (E E' : nat -> State -> Prop) st :
    (forall p s, ~ In p C -> E' p s -> E p s) -> SoundOn C E st -> SoundOn C E' st.
  Proof.
    intros H [S1 S2].
    destruct (RR_mono A State gamma bstep preds entry use_asm asm Init C E' E) as [M1 M2].
    - intros m p s _ _ N X. apply H; assumption.
    - split; intros n s R; [apply S1, M1, R|apply S2, M2, R].
  Qed.

  Lemma refine_s i a b s : gamma a s -> gamma b s -> gamma (refine A OP i a b) s.
  Proof. intros Ga Gb. unfold refine. destruct (Nat.eqb i 1); [apply meet_s|apply narrow_s]; assumption. Qed.

  Lemma head_inflow_s h ep st s : asm_holds h s ->
    ((exists p, In p (preds h) /\ gamma (post st p) s) \/ (exists ip, ep = Some ip /\ gamma ip s)) ->
    gamma (head_inflow h ep st) s.
  Proof.
    intros AH H. unfold Engine.head_inflow.
    apply (strengthen_sound A State gamma OP meet_s); [|exact AH].
    destruct H as [[p [I G]]|[ip [-> G]]].
    - pose proof (join_posts_sound A State gamma OP join_l join_r (post st) p (preds h) s I G) as J.
      destruct ep; [apply join_l|]; exact J.
    - apply join_r. exact G.
  Qed.

  Lemma join_posts_from_s (post0 : nat -> A) ps a0 s :
    (gamma a0 s \/ exists p, In p ps /\ gamma (post0 p) s) ->
    gamma (join_posts_from post0 ps a0) s.
  Proof.
    unfold Engine.join_posts_from. revert a0.
    induction ps as [|q r IH]; cbn [fold_left]; intros a0 H.
    - destruct H as [H|[p [[] _]]]. exact H.
    - apply IH. destruct H as [H|[p [[<-|I] G]]].
      + left. apply join_l. exact H.
      + left. apply join_r. exact G.
      + right. exists p. split; assumption.
  Qed.

  (* ---------------------------------------------------------------- vertex *)
  Lemma vertex_spec n : ~ In n (preds n) ->
    VSpec [n] (fun st => Some (visit_vertex n st)).
  Proof.
    intros NS st st' SK V. inversion V as [V']. clear V V'.
    unfold Engine.visit_vertex. rewrite SK. cbn [andb].
    cbn [e_pre e_post e_skip].
    set (v := strengthen n (join_posts_from (post st) (preds n) (if Nat.eqb n entry then init else o_bot A OP))).
    assert (PRE : forall s, RRpre [n] (Ext_of st) n s -> gamma v s).
    { intros s R. inversion R as [s0 I1 I2 I3 E1 E2|n0 p s0 I1 I2 I3 I4 I5 E1 E2|n0 p s0 I1 I2 I3 I4 I5 E1 E2]; subst.
      - unfold v. apply (strengthen_sound A State gamma OP meet_s); [|exact I3].
        apply join_posts_from_s. left. rewrite Nat.eqb_refl. apply init_s, I2.
      - unfold v. apply (strengthen_sound A State gamma OP meet_s); [|exact I5].
        apply join_posts_from_s. right. exists p. split; [exact I2|exact I4].
      - exfalso. destruct I3 as [<-|[]]. exact (NS I2). }
    split; [reflexivity|]. split.
    - intros m N. assert (m <> n) by (intros ->; apply N; left; reflexivity).
      cbn [e_pre e_post]. rewrite !tset_other by assumption. split; reflexivity.
    - split.
      + intros m s R. pose proof (RRpre_in _ _ _ _ _ _ _ _ _ _ _ _ _ R) as [<-|[]].
        cbn [e_pre]. rewrite tset_same. apply PRE, R.
      + intros m s R. inversion R as [n0 s0 s1 R0 B E1 E2]; subst.
        pose proof (RRpre_in _ _ _ _ _ _ _ _ _ _ _ _ _ R0) as [<-|[]].
        cbn [e_post]. rewrite tset_same. eapply analyze_s; [apply PRE, R0|exact B].
  Qed.

  (* ---------------------------------------------------------------- sequence *)
  Lemma seq_spec C1 C2 v1 v2 : VSpec C1 v1 -> VSpec C2 v2 ->
    (forall x, In x C1 -> In x C2 -> False) ->
    (forall p n, In p C2 -> In n C1 -> ~ In p (preds n)) ->
    VSpec (C1 ++ C2) (fun st => match v1 st with None => None | Some s => v2 s end).
  Proof.
    intros V1 V2 DJ NB st st' SK V.
    destruct (v1 st) as [s1|] eqn:E1; [|discriminate].
    destruct (V1 st s1 SK E1) as [K1 [F1 [P1 Q1]]].
    destruct (V2 s1 st' K1 V) as [K2 [F2 [P2 Q2]]].
    split; [exact K2|]. split.
    - intros m N. destruct (F1 m) as [a b]; [intros X; apply N, in_or_app; left; exact X|].
      destruct (F2 m) as [c d]; [intros X; apply N, in_or_app; right; exact X|].
      split; congruence.
    - (* semantics relative to C1 ++ C2, restricted to C1 *)
      destruct (RR_decomp A State gamma bstep preds entry use_asm asm Init
                  (C1 ++ C2) C1 (Ext_of st) (Ext_of st)) as [D1 D2].
      { intros x X. apply in_or_app. left. exact X. }
      { intros m p s Im Ip Ic Nc _. exfalso. apply in_app_or in Ic. destruct Ic as [Ic|Ic]; [contradiction|].
        exact (NB p m Ic Im Ip). }
      { intros m p s _ _ _ X. exact X. }
      (* ... and to C2, whose external inputs are the posts after the visit of C1 *)
      destruct (RR_decomp A State gamma bstep preds entry use_asm asm Init
                  (C1 ++ C2) C2 (Ext_of st) (Ext_of s1)) as [D3 D4].
      { intros x X. apply in_or_app. right. exact X. }
      { intros m p s Im Ip Ic Nc R. apply in_app_or in Ic. destruct Ic as [Ic|Ic]; [|contradiction].
        unfold Ext_of. apply Q1. apply D2; assumption. }
      { intros m p s _ _ Nc X. unfold Ext_of in *. destruct (F1 p) as [_ b].
        - intros Y. apply Nc, in_or_app. left. exact Y.
        - rewrite b. exact X. }
      split; intros n s R.
      + pose proof (RRpre_in _ _ _ _ _ _ _ _ _ _ _ _ _ R) as I. apply in_app_or in I. destruct I as [I|I].
        * destruct (F2 n) as [a _]; [intros Y; exact (DJ n I Y)|]. rewrite a. apply P1, D1; assumption.
        * apply P2, D3; assumption.
      + pose proof (RRpost_in _ _ _ _ _ _ _ _ _ _ _ _ _ R) as I. apply in_app_or in I. destruct I as [I|I].
        * destruct (F2 n) as [_ b]; [intros Y; exact (DJ n I Y)|]. rewrite b. apply Q1, D2; assumption.
        * apply Q2, D4; assumption.
  Qed.

  (* ---------------------------------------------------------------- cycle *)
  Section CycleSound.
    Variable vbody : est A -> option (est A).
    Variable B : list nat.                  (* nodes of the nested components *)
    Variable h : nat.
    Variable entry_pre : option A.
    Hypothesis VB : VSpec B vbody.
    Hypothesis HB : ~ In h B.
    Hypothesis EP : match entry_pre with
                    | Some ip => forall s, Init s -> gamma ip s
                    | None => h <> entry
                    end.
    Let C := h :: B.

    Lemma inflow_covers st (E : nat -> State -> Prop) :
      (forall p s, ~ In p C -> E p s -> gamma (post st p) s) ->
      (forall p s, RRpost C E p s -> gamma (post st p) s) ->
      forall s, RRpre C E h s -> gamma (head_inflow h entry_pre st) s.
    Proof.
      intros HE HP s R.
      inversion R as [s0 I1 I2 I3 E1 E2|n0 p s0 I1 I2 I3 I4 I5 E1 E2|n0 p s0 I1 I2 I3 I4 I5 E1 E2]; subst.
      - apply head_inflow_s; [exact I3|]. right. destruct entry_pre as [ip|].
        + exists ip. split; [reflexivity|apply EP, I2].
        + exfalso. apply EP. reflexivity.
      - apply head_inflow_s; [exact I5|]. left. exists p. split; [exact I2|apply HE; assumption].
      - apply head_inflow_s; [exact I5|]. left. exists p. split; [exact I2|apply HP; assumption].
    Qed.

    (* the last pass of the increasing iteration *)
    Lemma inc_exit st pre_old st2 :
      skip st = false ->
      vbody (mkE A (tset (pre st) h pre_old) (tset (post st) h (analyze h pre_old)) (skip st)) = Some st2 ->
      o_leq A OP (head_inflow h entry_pre st2) pre_old = true ->
      let st' := mkE A (tset (pre st2) h (head_inflow h entry_pre st2)) (post st2) (skip st2) in
      skip st' = false /\ Frame C st st' /\ SoundOn C (Ext_of st) st'.
    Proof.
      intros SK V LE st'.
      set (st1 := mkE A (tset (pre st) h pre_old) (tset (post st) h (analyze h pre_old)) (skip st)) in *.
      set (new_pre := head_inflow h entry_pre st2) in *.
      destruct (VB st1 st2 SK V) as [K2 [F2 [P2 Q2]]].
      assert (PH : post st2 h = analyze h pre_old).
      { destruct (F2 h HB) as [_ b]. rewrite b. unfold st1. cbn [e_post]. apply tset_same. }
      assert (FO : forall m, ~ In m C -> pre st2 m = pre st m /\ post st2 m = post st m).
      { intros m N. assert (m <> h) by (intros ->; apply N; left; reflexivity).
        destruct (F2 m) as [a b]; [intros X; apply N; right; exact X|].
        rewrite a, b. unfold st1. cbn [e_pre e_post]. rewrite !tset_other by assumption. split; reflexivity. }
      assert (G : (forall n s, RRpre C (Ext_of st) n s ->
                     (n = h -> gamma new_pre s) /\ (In n B -> RRpre B (Ext_of st1) n s)) /\
                  (forall n s, RRpost C (Ext_of st) n s ->
                     (n = h -> gamma (analyze h pre_old) s) /\ (In n B -> RRpost B (Ext_of st1) n s))).
      { apply (RR_mutind A State gamma bstep preds entry use_asm asm Init C (Ext_of st)
                 (fun n s => (n = h -> gamma new_pre s) /\ (In n B -> RRpre B (Ext_of st1) n s))
                 (fun n s => (n = h -> gamma (analyze h pre_old) s) /\ (In n B -> RRpost B (Ext_of st1) n s))).
        - (* the initial states *)
          intros s I1 I2 I3. split.
          + intros EH. unfold new_pre. apply head_inflow_s; [rewrite <- EH; exact I3|].
            right. destruct entry_pre as [ip|].
            * exists ip. split; [reflexivity|apply EP, I2].
            * exfalso. apply EP. symmetry. exact EH.
          + intros X. apply RR_init; assumption.
        - (* an edge from outside the cycle *)
          intros n p s I1 I2 I3 I4 I5. split.
          + intros ->. unfold new_pre. apply head_inflow_s; [exact I5|]. left. exists p.
            split; [exact I2|]. destruct (FO p I3) as [_ b]. rewrite b. exact I4.
          + intros X. apply RR_out with p; auto.
            * intros Y. apply I3. right. exact Y.
            * assert (p <> h) by (intros ->; apply I3; left; reflexivity).
              unfold Ext_of, st1. cbn [e_post]. rewrite tset_other by assumption. exact I4.
        - (* an edge inside the cycle *)
          intros n p s I1 I2 I3 _ [Q1' Q2'] I5. split.
          + intros ->. unfold new_pre. apply head_inflow_s; [exact I5|]. left. exists p.
            split; [exact I2|]. destruct I3 as [<-|I3].
            * rewrite PH. apply Q1'. reflexivity.
            * apply Q2, Q2', I3.
          + intros X. destruct I3 as [<-|I3].
            * apply RR_out with h; auto. unfold Ext_of, st1. cbn [e_post]. rewrite tset_same.
              apply Q1'. reflexivity.
            * apply RR_in with p; auto.
        - (* the block *)
          intros n s s' _ [P1' P2'] BS. split.
          + intros ->. eapply analyze_s; [|exact BS]. eapply leq_s; [exact LE|]. apply P1'. reflexivity.
          + intros X. apply RR_step with s; auto. }
      destruct G as [G1 G2].
      split; [exact K2|]. split.
      - intros m N. assert (m <> h) by (intros ->; apply N; left; reflexivity).
        unfold st'. cbn [e_pre e_post]. rewrite tset_other by assumption. apply FO, N.
      - split; intros n s R.
        + destruct (G1 n s R) as [X1 X2]. unfold st'. cbn [e_pre].
          pose proof (RRpre_in _ _ _ _ _ _ _ _ _ _ _ _ _ R) as [<-|I].
          * rewrite tset_same. apply X1. reflexivity.
          * assert (n <> h) by (intros ->; contradiction).
            rewrite tset_other by assumption. apply P2, X2, I.
        + destruct (G2 n s R) as [X1 X2]. unfold st'. cbn [e_post].
          pose proof (RRpost_in _ _ _ _ _ _ _ _ _ _ _ _ _ R) as [<-|I].
          * rewrite PH. apply X1. reflexivity.
          * apply Q2, X2, I.
    Qed.

    Lemma inc_loop_spec : forall f i p0 st p' st',
      skip st = false -> inc_loop vbody h entry_pre f i p0 st = Some (p', st') ->
      skip st' = false /\ Frame C st st' /\ SoundOn C (Ext_of st) st' /\
      (forall s, RRpre C (Ext_of st) h s -> gamma p' s).
    Proof.
      induction f as [|f IH]; intros i p0 st p' st' SK H; [discriminate|].
      cbn [Engine.inc_loop] in H.
      destruct (vbody _) as [st2|] eqn:V; [|discriminate].
      destruct (o_leq A OP (head_inflow h entry_pre st2) p0) eqn:LE.
      - inversion H; subst p' st'. clear H.
        destruct (inc_exit st p0 st2 SK V LE) as [K [F S]].
        split; [exact K|]. split; [exact F|]. split; [exact S|].
        intros s R. destruct S as [S1 _]. specialize (S1 h s R). cbn [e_pre] in S1.
        rewrite tset_same in S1. exact S1.
      - destruct (VB (mkE A (tset (pre st) h p0) (tset (post st) h (analyze h p0)) (skip st)) st2 SK V)
          as [K2 [F2 _]].
        destruct (IH _ _ _ _ _ K2 H) as [K [F [S HP]]].
        assert (F02 : Frame C st st2).
        { intros m N. assert (m <> h) by (intros ->; apply N; left; reflexivity).
          destruct (F2 m) as [a b]; [intros X; apply N; right; exact X|].
          rewrite a, b. cbn [e_pre e_post]. rewrite !tset_other by assumption. split; reflexivity. }
        assert (EE : forall p s, ~ In p C -> Ext_of st p s -> Ext_of st2 p s).
        { intros p s N X. unfold Ext_of in *. destruct (F02 p N) as [_ b]. rewrite b. exact X. }
        split; [exact K|]. split; [exact (Frame_trans C st st2 st' F02 F)|].
        pose proof (SoundOn_mono C (Ext_of st2) (Ext_of st) st' EE S) as S'.
        split; [exact S'|].
        intros s R. apply HP.
        destruct (RR_mono A State gamma bstep preds entry use_asm asm Init C (Ext_of st) (Ext_of st2)) as [M1 _].
        + intros m p s0 _ _ N X. apply EE; assumption.
        + apply M1, R.
    Qed.

    (* one pass of the decreasing iteration keeps the tables sound *)
    Lemma dec_pass (E : nat -> State -> Prop) st p0 st2 :
      skip st = false -> SoundOn C E st ->
      (forall p s, ~ In p C -> E p s -> gamma (post st p) s) ->
      (forall s, RRpre C E h s -> gamma p0 s) ->
      vbody (mkE A (pre st) (tset (post st) h (analyze h p0)) (skip st)) = Some st2 ->
      skip st2 = false /\ Frame C st st2 /\ SoundOn C E st2 /\
      (forall s, RRpre C E h s -> gamma (head_inflow h entry_pre st2) s).
    Proof.
      intros SK [S1 S2] HE HP V.
      set (st1 := mkE A (pre st) (tset (post st) h (analyze h p0)) (skip st)) in *.
      destruct (VB st1 st2 SK V) as [K2 [F2 [P2 Q2]]].
      assert (POSTH : forall s, RRpost C E h s -> gamma (analyze h p0) s).
      { intros s R. inversion R as [n0 s0 s1 R0 BS E1 E2]; subst. eapply analyze_s; [apply HP, R0|exact BS]. }
      assert (F02 : Frame C st st2).
      { intros m N. assert (m <> h) by (intros ->; apply N; left; reflexivity).
        destruct (F2 m) as [a b]; [intros X; apply N; right; exact X|].
        rewrite a, b. unfold st1. cbn [e_pre e_post]. rewrite tset_other by assumption. split; reflexivity. }
      destruct (RR_decomp A State gamma bstep preds entry use_asm asm Init C B E (Ext_of st1)) as [D1 D2].
      { intros x X. right. exact X. }
      { intros m p s Im Ip Ic Nc R. destruct Ic as [<-|Ic]; [|contradiction].
        unfold Ext_of, st1. cbn [e_post]. rewrite tset_same. apply POSTH, R. }
      { intros m p s _ _ Nc X. assert (p <> h) by (intros ->; apply Nc; left; reflexivity).
        unfold Ext_of, st1. cbn [e_post]. rewrite tset_other by assumption. apply HE; assumption. }
      assert (SND : SoundOn C E st2).
      { split; intros n s R.
        - pose proof (RRpre_in _ _ _ _ _ _ _ _ _ _ _ _ _ R) as [<-|I].
          + destruct (F2 h HB) as [a _]. rewrite a. unfold st1. cbn [e_pre]. apply S1, R.
          + apply P2, D1; assumption.
        - pose proof (RRpost_in _ _ _ _ _ _ _ _ _ _ _ _ _ R) as [<-|I].
          + destruct (F2 h HB) as [_ b]. rewrite b. unfold st1. cbn [e_post]. rewrite tset_same.
            apply POSTH, R.
          + apply Q2, D2; assumption. }
      split; [exact K2|]. split; [exact F02|]. split; [exact SND|].
      apply inflow_covers.
      - intros p s N X. destruct (F02 p N) as [_ b]. rewrite b. apply HE; assumption.
      - destruct SND as [_ X]. exact X.
    Qed.

    Lemma dec_loop_spec (E : nat -> State -> Prop) : forall f i p0 st st',
      skip st = false -> SoundOn C E st ->
      (forall p s, ~ In p C -> E p s -> gamma (post st p) s) ->
      (forall s, RRpre C E h s -> gamma p0 s) ->
      dec_loop vbody h entry_pre f i p0 st = Some st' ->
      skip st' = false /\ Frame C st st' /\ SoundOn C E st'.
    Proof.
      induction f as [|f IH]; intros i p0 st st' SK SO HE HP H; [discriminate|].
      cbn [Engine.dec_loop] in H.
      destruct (vbody _) as [st2|] eqn:V; [|discriminate].
      destruct (dec_pass E st p0 st2 SK SO HE HP V) as [K2 [F2 [S2 NP]]].
      destruct (o_leq A OP p0 (head_inflow h entry_pre st2)).
      { inversion H; subst st'. split; [exact K2|]. split; [exact F2|exact S2]. }
      destruct (descending <? i).
      { inversion H; subst st'. split; [exact K2|]. split; [exact F2|exact S2]. }
      set (p1 := refine A OP i p0 (head_inflow h entry_pre st2)) in *.
      set (st3 := mkE A (tset (pre st2) h p1) (post st2) (skip st2)) in *.
      assert (HP1 : forall s, RRpre C E h s -> gamma p1 s).
      { intros s R. unfold p1. apply refine_s; [apply HP, R|apply NP, R]. }
      assert (S3 : SoundOn C E st3).
      { destruct S2 as [X1 X2]. split; intros n s R; unfold st3; cbn [e_pre e_post].
        - destruct (Nat.eq_dec n h) as [->|NE].
          + rewrite tset_same. apply HP1, R.
          + rewrite tset_other by assumption. apply X1, R.
        - apply X2, R. }
      assert (HE3 : forall p s, ~ In p C -> E p s -> gamma (post st3 p) s).
      { intros p s N X. unfold st3. cbn [e_post]. destruct (F2 p N) as [_ b]. rewrite b. apply HE; assumption. }
      destruct (IH (S i) p1 st3 st' K2 S3 HE3 HP1 H) as [K [F S']].
      split; [exact K|]. split; [|exact S'].
      apply (Frame_trans C st st2 st' F2). intros m N.
      assert (m <> h) by (intros ->; apply N; left; reflexivity).
      destruct (F m N) as [a b]. rewrite a, b. unfold st3. cbn [e_pre e_post].
      rewrite tset_other by assumption. split; reflexivity.
    Qed.

    (* increasing iterations, then decreasing iterations *)
    Definition cyc_core (pre0 : A) (st0 : est A) : option (est A) :=
      match inc_loop vbody h entry_pre fuel 1 pre0 st0 with
      | None => None
      | Some (p, st') =>
        if Nat.eqb descending 0 then Some st'
        else dec_loop vbody h entry_pre fuel 1 p st'
      end.

    Lemma cyc_core_spec pre0 st0 st' : skip st0 = false -> cyc_core pre0 st0 = Some st' ->
      skip st' = false /\ Frame C st0 st' /\ SoundOn C (Ext_of st0) st'.
    Proof.
      intros SK H. unfold cyc_core in H.
      destruct (inc_loop vbody h entry_pre fuel 1 pre0 st0) as [[p st1]|] eqn:IL; [|discriminate].
      destruct (inc_loop_spec fuel 1 pre0 st0 p st1 SK IL) as [K1 [F1 [S1 HP]]].
      destruct (Nat.eqb descending 0).
      - inversion H; subst st'. split; [exact K1|]. split; [exact F1|exact S1].
      - assert (HE : forall q s, ~ In q C -> Ext_of st0 q s -> gamma (post st1 q) s).
        { intros q s N X. destruct (F1 q N) as [_ b]. rewrite b. exact X. }
        destruct (dec_loop_spec (Ext_of st0) fuel 1 p st1 st' K1 S1 HE HP H) as [K [F S]].
        split; [exact K|]. split; [exact (Frame_trans C st0 st1 st' F1 F)|exact S].
    Qed.
  End CycleSound.

  Lemma visit_cycle_eq h body st :
    visit (Cycle h body) st =
      let entry_in := skip st && comp_member entry (Cycle h body) in
      if skip st && negb entry_in then Some st
      else
        let st0 := mkE A (pre st) (post st) false in
        let entry_pre := if Nat.eqb h entry then Some init else None in
        let pre0 :=
          if Nat.eqb h entry then init
          else fold_left (fun acc p => if deeper (nest p) (nest h) then acc
                                       else o_join A OP acc (post st0 p)) (preds h) (o_bot A OP) in
        cyc_core (visit_all body) h entry_pre (strengthen h pre0) st0.
  Proof. reflexivity. Qed.

  (* ---------------------------------------------------------------- components *)
  Definition comp_ok (c : comp) : Prop :=
    NoDup (cnodes c) -> eok [c] -> VSpec (cnodes c) (visit c).

  Lemma list_spec : forall l, Forall comp_ok l ->
    NoDup (flat l) -> eok l -> VSpec (flat l) (visit_all l).
  Proof.
    induction l as [|c r IH]; intros FA ND EO.
    - intros st st' SK V. cbn in V. inversion V; subst st'.
      split; [exact SK|]. split; [apply Frame_refl|].
      split; intros n s R; exfalso;
        [exact (RRpre_in _ _ _ _ _ _ _ _ _ _ _ _ _ R)|exact (RRpost_in _ _ _ _ _ _ _ _ _ _ _ _ _ R)].
    - inversion FA as [|? ? OKc FAr]; subst.
      destruct (eok_cons preds c r ND EO) as [E1 [E2 E3]].
      cbn [flat] in ND |- *.
      assert (V1 : VSpec (cnodes c) (visit c)).
      { apply OKc; [exact (nodup_app_left _ _ ND)|exact E1]. }
      assert (V2 : VSpec (flat r) (visit_all r)).
      { apply IH; [exact FAr|exact (nodup_app_r _ _ ND)|exact E2]. }
      exact (seq_spec (cnodes c) (flat r) (visit c) (visit_all r) V1 V2
               (fun x X Y => nodup_app_disj _ _ x ND X Y) E3).
  Qed.

  Lemma comp_spec : forall c, comp_ok c.
  Proof.
    induction c as [n|h body IH] using comp_ind'; intros ND EO.
    - cbn [cnodes] in *.
      apply (vertex_spec n). exact (eok_vertex preds n EO).
    - rewrite cnodes_cycle in *. inversion ND as [|? ? HB ND']; subst.
      assert (VB : VSpec (flat body) (visit_all body)).
      { apply list_spec; [exact IH|exact ND'|exact (eok_cycle preds h body ND EO)]. }
      intros st st' SK V. rewrite visit_cycle_eq in V. rewrite SK in V. cbn [andb] in V. cbv zeta in V.
      set (st0 := mkE A (pre st) (post st) false) in V.
      assert (EP : match (if Nat.eqb h entry then Some init else None) with
                   | Some ip => forall s, Init s -> gamma ip s
                   | None => h <> entry
                   end).
      { destruct (Nat.eqb_spec h entry) as [E|NE]; [exact init_s|exact NE]. }
      destruct (cyc_core_spec (visit_all body) (flat body) h _ VB HB EP _ st0 st' eq_refl V)
        as [K [F S]].
      split; [exact K|]. split; [exact F|exact S].
  Qed.

  (* ---------------------------------------------------------------- the component of the entry *)
  (* the (outermost) component that contains the entry is un-skipped *)
  Lemma visit_unskip c st : In entry (cnodes c) -> skip st = true ->
    visit c st = visit c (mkE A (pre st) (post st) false).
  Proof.
    intros IE SK. destruct c as [n|h body].
    - destruct IE as [->|[]]. cbn [Engine.visit]. unfold Engine.visit_vertex.
      rewrite SK, Nat.eqb_refl. reflexivity.
    - rewrite !visit_cycle_eq. rewrite SK.
      rewrite (proj2 (comp_member_In entry (Cycle h body)) IE). reflexivity.
  Qed.

  (* ---------------------------------------------------------------- components before the entry *)
  Lemma skip_comp c st st' : skip st = true -> ~ In entry (cnodes c) -> visit c st = Some st' ->
    skip st' = true /\ pre st' = pre st /\ post st' = post st.
  Proof.
    intros SK NE V. destruct c as [n|h body].
    - cbn in V. inversion V; subst st'. clear V. unfold Engine.visit_vertex.
      assert (n <> entry) by (intros ->; apply NE; left; reflexivity).
      apply Nat.eqb_neq in H. rewrite SK, H. cbn. auto.
    - rewrite visit_cycle_eq in V. rewrite SK in V.
      assert (M : comp_member entry (Cycle h body) = false).
      { destruct (comp_member entry (Cycle h body)) eqn:X; [|reflexivity].
        exfalso. apply NE. apply comp_member_In. exact X. }
      rewrite M in V. cbn in V. inversion V; subst st'. auto.
  Qed.
  Lemma skip_list : forall l st st', skip st = true -> ~ In entry (flat l) -> visit_all l st = Some st' ->
    skip st' = true /\ pre st' = pre st /\ post st' = post st.
  Proof.
    induction l as [|c r IH]; intros st st' SK NE V.
    - cbn in V. inversion V; subst. auto.
    - cbn [Engine.visit_all] in V. cbn [flat] in NE.
      destruct (visit c st) as [s1|] eqn:V1; [|discriminate].
      destruct (skip_comp c st s1 SK) as [K1 [a1 b1]]; [intros X; apply NE, in_or_app; left; exact X|exact V1|].
      destruct (IH s1 st' K1) as [K [a b]]; [intros X; apply NE, in_or_app; right; exact X|exact V|].
      split; [exact K|]. split; congruence.
  Qed.
  Lemma visit_all_app : forall a b st,
    visit_all (a ++ b) st = match visit_all a st with None => None | Some s => visit_all b s end.
  Proof.
    induction a as [|c a IH]; intros b st; [reflexivity|].
    cbn [app Engine.visit_all]. destruct (visit c st) as [s1|]; [apply IH|reflexivity].
  Qed.

  (* ---------------------------------------------------------------- main theorem *)
  Section Main.
    Variable w : list comp.
    (* the nodes of the ordering are distinct *)
    Hypothesis w_nodup : NoDup (flat w).
    (* the ordering is closed under successors, and every edge leaving one of its nodes goes
       forward or back to the head of a component that contains its source *)
    Hypothesis w_edges : forall n p, In p (preds n) -> In p (flat w) -> In n (flat w) /\ lok w p n.
    (* the analysis starts at a node of the ordering: anywhere *)
    Hypothesis w_entry : In entry (flat w).

    Theorem engine_sound : forall e,
      run A OP analyze preds nest entry delay descending use_asm asm init fuel w = Some e ->
      (forall n s, RPre n s -> gamma (pre e n) s) /\ (forall n s, RPost n s -> gamma (post e n) s).
    Proof.
      intros e RUN.
      assert (EO : eok w).
      { intros p n Hp Hn He. apply (w_edges n p He Hp). }
      destruct (entry_split_any entry w w_entry) as [w1 [c [w2 [EW [N1 EC]]]]].
      (* structure of the ordering *)
      pose proof w_nodup as ND. rewrite EW in ND.
      pose proof EO as EO'. rewrite EW in EO'.
      destruct (eok_app preds w1 (c :: w2) ND EO') as [_ [EO2 NB1]].
      pose proof ND as ND2. rewrite flat_app in ND2.
      pose proof (nodup_app_r _ _ ND2) as ND3.
      destruct (eok_cons preds c w2 ND3 EO2) as [EOc [EOw2 NB2]].
      cbn [flat] in ND3.
      (* the run *)
      unfold run in RUN. rewrite EW, visit_all_app in RUN.
      set (st0 := mkE A (tset (fun _ => o_bot A OP) entry init) (fun _ => o_bot A OP) true) in *.
      destruct (visit_all w1 st0) as [sa|] eqn:VA; [|discriminate].
      destruct (skip_list w1 st0 sa eq_refl N1 VA) as [Ka [Pa Qa]].
      cbn [Engine.visit_all] in RUN.
      destruct (visit c sa) as [s1|] eqn:VC; [|discriminate].
      rewrite (visit_unskip c sa EC Ka) in VC.
      set (sa0 := mkE A (pre sa) (post sa) false) in VC.
      destruct (comp_spec c (nodup_app_left _ _ ND3) EOc sa0 s1 eq_refl VC) as [K1 [F1 [P1 Q1]]].
      assert (V2 : VSpec (flat w2) (visit_all w2)).
      { apply list_spec; [|exact (nodup_app_r _ _ ND3)|exact EOw2].
        apply Forall_forall. intros c' _. apply comp_spec. }
      destruct (V2 s1 e K1 RUN) as [K2 [F2 [P2 Q2]]].
      (* the semantics relative to the whole ordering *)
      set (C := flat w).
      assert (CE : forall x, In x C <-> In x (flat w1) \/ In x (cnodes c) \/ In x (flat w2)).
      { intros x. unfold C. rewrite EW, flat_app. cbn [flat]. rewrite !in_app_iff. tauto. }
      destruct (R_global_rel A State gamma bstep preds entry use_asm asm Init C EFalse w_entry) as [GL1 GL2].
      { intros n p He Hp. apply (w_edges n p He Hp). }
      (* nothing reaches the components before the entry *)
      assert (UNR : (forall n s, RRpre C EFalse n s -> ~ In n (flat w1)) /\
                    (forall n s, RRpost C EFalse n s -> ~ In n (flat w1))).
      { apply (RR_mutind A State gamma bstep preds entry use_asm asm Init C EFalse
                 (fun n s => ~ In n (flat w1)) (fun n s => ~ In n (flat w1))).
        - intros s _ _ _. exact N1.
        - intros n p s _ _ _ [].
        - intros n p s I1 I2 I3 _ Q I5 X. apply CE in I3. destruct I3 as [I3|I3]; [contradiction|].
          apply (NB1 p n); [|exact X|exact I2]. cbn [flat]. apply in_or_app. tauto.
        - intros n s s' _ P _. exact P. }
      destruct UNR as [U1 U2].
      (* restriction to the component of the entry *)
      destruct (RR_decomp A State gamma bstep preds entry use_asm asm Init C (cnodes c) EFalse (Ext_of sa0)) as [D1 D2].
      { intros x X. apply CE. tauto. }
      { intros m p s Im Ip Ic Nc R. exfalso. apply CE in Ic. destruct Ic as [Ic|[Ic|Ic]].
        - exact (U2 p s R Ic).
        - contradiction.
        - exact (NB2 p m Ic Im Ip). }
      { intros m p s _ _ _ []. }
      (* restriction to the components after the entry *)
      destruct (RR_decomp A State gamma bstep preds entry use_asm asm Init C (flat w2) EFalse (Ext_of s1)) as [D3 D4].
      { intros x X. apply CE. tauto. }
      { intros m p s Im Ip Ic Nc R. apply CE in Ic. destruct Ic as [Ic|[Ic|Ic]].
        - exfalso. exact (U2 p s R Ic).
        - unfold Ext_of. apply Q1. apply D2; assumption.
        - contradiction. }
      { intros m p s _ _ _ []. }
      assert (DJ : forall x, In x (cnodes c) -> In x (flat w2) -> False).
      { intros x X Y. exact (nodup_app_disj _ _ x ND3 X Y). }
      split; intros n s R.
      - apply GL1 in R. pose proof (RRpre_in _ _ _ _ _ _ _ _ _ _ _ _ _ R) as I.
        apply CE in I. destruct I as [I|[I|I]].
        + exfalso. exact (U1 n s R I).
        + destruct (F2 n) as [a _]; [intros Y; exact (DJ n I Y)|]. rewrite a. apply P1, D1; assumption.
        + apply P2, D3; assumption.
      - apply GL2 in R. pose proof (RRpost_in _ _ _ _ _ _ _ _ _ _ _ _ _ R) as I.
        apply CE in I. destruct I as [I|[I|I]].
        + exfalso. exact (U2 n s R I).
        + destruct (F2 n) as [_ b]; [intros Y; exact (DJ n I Y)|]. rewrite b. apply Q1, D2; assumption.
        + apply Q2, D4; assumption.
    Qed.
  End Main.

  (* crab's run(init): the analysis starts at the first node of the ordering *)
  Corollary engine_sound_first w :
    NoDup (flat w) ->
    (forall n p, In p (preds n) -> In p (flat w) -> In n (flat w) /\ lok w p n) ->
    hd_error (flat w) = Some entry ->
    forall e, run A OP analyze preds nest entry delay descending use_asm asm init fuel w = Some e ->
    (forall n s, RPre n s -> gamma (pre e n) s) /\ (forall n s, RPost n s -> gamma (post e n) s).
  Proof.
    intros ND ED HD. apply starts_with_hd in HD.
    apply engine_sound; auto. apply starts_with_in, HD.
  Qed.

  (* orderings that satisfy property C07 (Fix/WtoCheck.v) for a graph whose successor lists
     contain the CFG edges: in particular the ordering computed by the model of wto.hpp *)
  Lemma WF_edges g e0 w nst dom : WF g e0 w nst dom ->
    (forall n p, In p (preds n) -> In p (flat w) -> In n (succs g p)) ->
    forall n p, In p (preds n) -> In p (flat w) -> In n (flat w) /\ lok w p n.
  Proof.
    intros W SUC n p He Hp.
    pose proof (proj1 (wf_reach _ _ _ _ _ W p) Hp) as RP.
    pose proof (SUC n p He Hp) as HS. split.
    - apply (wf_reach _ _ _ _ _ W). apply reach_step with p; assumption.
    - exact (wf_edge _ _ _ _ _ W p n RP HS).
  Qed.

  Corollary engine_sound_WF g e0 nst dom w :
    WF g e0 w nst dom ->
    (forall n p, In p (preds n) -> In p (flat w) -> In n (succs g p)) ->
    In entry (flat w) ->
    forall e, run A OP analyze preds nest entry delay descending use_asm asm init fuel w = Some e ->
    (forall n s, RPre n s -> gamma (pre e n) s) /\ (forall n s, RPost n s -> gamma (post e n) s).
  Proof.
    intros W SUC IE. apply engine_sound; auto.
    - exact (wf_nodup _ _ _ _ _ W).
    - exact (WF_edges g e0 w nst dom W SUC).
  Qed.
End Sound.
