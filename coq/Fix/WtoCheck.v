(* Fix/WtoCheck.v — the property C07 as a Prop ([WF]) and an executable checker
   ([check], [wto_ok], [nesting_ok]) with its soundness proof, for all graphs. *)
From Coq Require Import List Arith Bool Lia.
From CrabV Require Import Fix.Wto.
Import ListNotations.

(* ------------------------------------------------------------------ induction on comp *)
Section CompInd.
  Variable P : comp -> Prop.
  Hypothesis HV : forall n, P (Vertex n).
  Hypothesis HC : forall h b, Forall P b -> P (Cycle h b).
  Fixpoint comp_ind' (c : comp) : P c :=
    match c with
    | Vertex n => HV n
    | Cycle h b =>
      HC h b ((fix go (l : list comp) : Forall P l :=
                 match l with
                 | [] => Forall_nil P
                 | c' :: l' => Forall_cons c' (comp_ind' c') (go l')
                 end) b)
    end.
End CompInd.

(* ------------------------------------------------------------------ nodes of a WTO *)
Fixpoint cnodes (c : comp) : list nat :=
  match c with
  | Vertex n => [n]
  | Cycle h b => h :: (fix go (l : list comp) : list nat :=
                         match l with [] => [] | c' :: l' => cnodes c' ++ go l' end) b
  end.
Fixpoint flat (w : list comp) : list nat :=
  match w with [] => [] | c :: w' => cnodes c ++ flat w' end.
Lemma cnodes_cycle : forall h b, cnodes (Cycle h b) = h :: flat b.
Proof.
  reflexivity.
Qed.
Lemma flat_app : forall a b, flat (a ++ b) = flat a ++ flat b.
Proof. induction a as [|c a IH]; intros b; cbn [flat app]; [reflexivity|]. rewrite IH, app_assoc. reflexivity. Qed.
Lemma in_flat : forall w x, In x (flat w) <-> exists c, In c w /\ In x (cnodes c).
Proof.
  induction w as [|c w IH]; intros x; cbn [flat].
  - split; [intros []|intros [c [[] _]]].
  - rewrite in_app_iff, IH. split.
    + intros [H|[c' [H1 H2]]]; [exists c; split; [left; reflexivity|exact H]|exists c'; split; [right; exact H1|exact H2]].
    + intros [c' [[->|H1] H2]]; [left; exact H2|right; exists c'; split; assumption].
Qed.

(* ------------------------------------------------------------------ the property *)
Inductive reachable (g : graph) (e : nat) : nat -> Prop :=
| reach_refl : reachable g e e
| reach_step : forall u v, reachable g e u -> In v (succs g u) -> reachable g e v.

(* u occurs strictly before v *)
Definition before (l : list nat) (u v : nat) : Prop :=
  exists l1 l2 l3, l = l1 ++ u :: l2 ++ v :: l3.

(* [encl_c c h u]: inside c there is a component with head h that contains u *)
Inductive encl_c : comp -> nat -> nat -> Prop :=
| encl_here : forall h b u, In u (cnodes (Cycle h b)) -> encl_c (Cycle h b) h u
| encl_deep : forall h' b c h u, In c b -> encl_c c h u -> encl_c (Cycle h' b) h u.
Definition encl (w : wto) (h u : nat) : Prop := exists c, In c w /\ encl_c c h u.

(* [nest_c c n hs]: n occurs in c and hs are the heads of the components of c that strictly
   enclose this occurrence, outermost first *)
Inductive nest_c : comp -> nat -> list nat -> Prop :=
| nest_vertex : forall n, nest_c (Vertex n) n []
| nest_head : forall h b, nest_c (Cycle h b) h []
| nest_body : forall h b c n hs, In c b -> nest_c c n hs -> nest_c (Cycle h b) n (h :: hs).
Definition nest_w (w : wto) (n : nat) (hs : list nat) : Prop := exists c, In c w /\ nest_c c n hs.

(* Property C07 for graph g, entry e, ordering w, reported nesting nst, on the nodes dom.
   Proper nesting of the components is built into the type [comp]. *)
Record WF (g : graph) (e : nat) (w : wto) (nst : nat -> option (list nat)) (dom : list nat) : Prop := {
  wf_nodup : NoDup (flat w);
  wf_reach : forall x, In x (flat w) <-> reachable g e x;
  wf_edge : forall u v, reachable g e u -> In v (succs g u) -> before (flat w) u v \/ encl w v u;
  wf_nest_in : forall n, In n dom -> In n (flat w) -> exists hs, nst n = Some hs /\ nest_w w n hs;
  wf_nest_out : forall n, In n dom -> ~ In n (flat w) -> nst n = None
}.

(* ------------------------------------------------------------------ executable tests *)
Lemma mem_In : forall x l, mem x l = true <-> In x l.
Proof.
  intros x l. unfold mem. rewrite existsb_exists. split.
  - intros [y [H1 H2]]. apply Nat.eqb_eq in H2. subst. exact H1.
  - intros H. exists x. split; [exact H|apply Nat.eqb_refl].
Qed.
Lemma mem_false : forall x l, mem x l = false <-> ~ In x l.
Proof. intros x l. rewrite <- mem_In. destruct (mem x l); split; congruence. Qed.

Fixpoint nodupb (l : list nat) : bool :=
  match l with [] => true | x :: l' => negb (mem x l') && nodupb l' end.
Lemma nodupb_NoDup : forall l, nodupb l = true <-> NoDup l.
Proof.
  induction l as [|x l IH]; cbn [nodupb].
  - split; [constructor|reflexivity].
  - rewrite andb_true_iff, negb_true_iff, mem_false, IH. split.
    + intros [H1 H2]. constructor; assumption.
    + intros H. inversion H; subst. split; assumption.
Qed.

(* reachability: [rounds] rounds of adding the successors of the current set *)
Definition add (x : nat) (r : list nat) : list nat := if mem x r then r else r ++ [x].
Definition add_all (xs r : list nat) : list nat := fold_left (fun r x => add x r) xs r.
Definition step (g : graph) (r : list nat) : list nat := add_all (flat_map (succs g) r) r.
Fixpoint reach_n (g : graph) (n : nat) (r : list nat) : list nat :=
  match n with 0 => r | S n' => reach_n g n' (step g r) end.

Definition subset (a b : list nat) : bool := forallb (fun x => mem x b) a.
Lemma subset_incl : forall a b, subset a b = true <-> incl a b.
Proof.
  intros a b. unfold subset, incl. rewrite forallb_forall. split; intros H x Hx.
  - apply mem_In, H, Hx.
  - apply mem_In, H, Hx.
Qed.
Definition closedb (g : graph) (r : list nat) : bool :=
  forallb (fun u => subset (succs g u) r) r.

Fixpoint beforeb (l : list nat) (u v : nat) : bool :=
  match l with
  | [] => false
  | x :: l' => ((x =? u) && mem v l') || beforeb l' u v
  end.

Fixpoint enclb_c (c : comp) (h u : nat) : bool :=
  match c with
  | Vertex _ => false
  | Cycle h' b =>
    ((h' =? h) && mem u (cnodes c)) ||
    (fix ex (l : list comp) : bool :=
       match l with [] => false | c' :: l' => enclb_c c' h u || ex l' end) b
  end.
Definition enclb (w : wto) (h u : nat) : bool := existsb (fun c => enclb_c c h u) w.

Definition edges_ok (g : graph) (w : wto) : bool :=
  let fl := flat w in
  forallb (fun u => forallb (fun v => beforeb fl u v || enclb w v u) (succs g u)) fl.

(* heads of the components strictly enclosing the first (pre-order) occurrence of n *)
Fixpoint heads_c (c : comp) (n : nat) : option (list nat) :=
  match c with
  | Vertex m => if m =? n then Some [] else None
  | Cycle h b =>
    if h =? n then Some [] else
    match (fix go (l : list comp) : option (list nat) :=
             match l with
             | [] => None
             | c' :: l' => match heads_c c' n with Some r => Some r | None => go l' end
             end) b with
    | Some r => Some (h :: r)
    | None => None
    end
  end.
Fixpoint heads_l (l : list comp) (n : nat) : option (list nat) :=
  match l with
  | [] => None
  | c :: l' => match heads_c c n with Some r => Some r | None => heads_l l' n end
  end.
Lemma heads_c_cycle : forall h b n,
  heads_c (Cycle h b) n =
  if h =? n then Some [] else match heads_l b n with Some r => Some (h :: r) | None => None end.
Proof.
  intros h b n. cbn [heads_c]. destruct (h =? n); [reflexivity|].
  assert (E : (fix go (l : list comp) : option (list nat) :=
             match l with
             | [] => None
             | c' :: l' => match heads_c c' n with Some r => Some r | None => go l' end
             end) b = heads_l b n).
  { induction b as [|c b IH]; [reflexivity|]. cbn [heads_l]. rewrite <- IH. reflexivity. }
  rewrite E. reflexivity.
Qed.

Fixpoint list_eqb (a b : list nat) : bool :=
  match a, b with
  | [], [] => true
  | x :: a', y :: b' => (x =? y) && list_eqb a' b'
  | _, _ => false
  end.
Lemma list_eqb_eq : forall a b, list_eqb a b = true <-> a = b.
Proof.
  induction a as [|x a IH]; destruct b as [|y b]; cbn [list_eqb]; try (split; congruence).
  rewrite andb_true_iff, Nat.eqb_eq, IH. split; [intros [-> ->]; reflexivity|intros H; inversion H; auto].
Qed.

Definition nesting_ok (w : wto) (nst : nat -> option (list nat)) (dom : list nat) : bool :=
  forallb (fun n =>
             match heads_l w n, nst n with
             | Some a, Some b => list_eqb a b
             | None, None => true
             | _, _ => false
             end) dom.

Definition struct_ok (g : graph) (e : nat) (w : wto) : bool :=
  let fl := flat w in
  nodupb fl && mem e fl && closedb g fl && subset fl (reach_n g (length fl) [e]) && edges_ok g w.

Definition check (g : graph) (e : nat) (w : wto) (nst : nat -> option (list nat)) (dom : list nat) : bool :=
  struct_ok g e w && nesting_ok w nst dom.

(* the checker applied to the model's own nesting table, on the nodes of g and of w *)
Definition wto_ok (g : graph) (e : nat) (w : wto) : bool :=
  check g e w (nesting w) (seq 0 (length g) ++ flat w).

(* ------------------------------------------------------------------ soundness: reach *)
Lemma add_in : forall x r y, In y (add x r) <-> y = x \/ In y r.
Proof.
  intros x r y. unfold add. destruct (mem x r) eqn:E.
  - apply mem_In in E. split; [auto|intros [->|H]; assumption].
  - rewrite in_app_iff. cbn [In]. split; [intros [H|[H|[]]]; auto|intros [H|H]; auto].
Qed.
Lemma add_all_in : forall xs r y, In y (add_all xs r) <-> In y xs \/ In y r.
Proof.
  unfold add_all. induction xs as [|x xs IH]; intros r y; cbn [fold_left].
  - split; [auto|intros [[]|H]; exact H].
  - rewrite IH, add_in. cbn [In]. split; [intros [H|[H|H]]; auto|intros [[H|H]|H]; auto].
Qed.
Lemma step_in : forall g r y, In y (step g r) <-> In y r \/ exists u, In u r /\ In y (succs g u).
Proof.
  intros g r y. unfold step. rewrite add_all_in, in_flat_map. split; intros [H|H]; auto.
Qed.
Lemma reach_n_sound : forall g e n r, (forall x, In x r -> reachable g e x) ->
  forall x, In x (reach_n g n r) -> reachable g e x.
Proof.
  intros g e. induction n as [|n IH]; intros r Hr x Hx; cbn [reach_n] in Hx; [apply Hr, Hx|].
  apply IH with (r := step g r); [|exact Hx].
  intros y Hy. apply step_in in Hy. destruct Hy as [Hy|[u [Hu Hy]]]; [apply Hr, Hy|].
  apply reach_step with u; [apply Hr, Hu|exact Hy].
Qed.
Lemma closedb_spec : forall g r, closedb g r = true <->
  forall u v, In u r -> In v (succs g u) -> In v r.
Proof.
  intros g r. unfold closedb. rewrite forallb_forall. split.
  - intros H u v Hu Hv. apply H in Hu. apply subset_incl in Hu. apply Hu, Hv.
  - intros H u Hu. apply subset_incl. intros v Hv. apply H with u; assumption.
Qed.
Lemma closed_reach : forall g e r, In e r -> (forall u v, In u r -> In v (succs g u) -> In v r) ->
  forall x, reachable g e x -> In x r.
Proof. intros g e r He Hc x Hx. induction Hx; [exact He|apply Hc with u; assumption]. Qed.

(* ------------------------------------------------------------------ soundness: order *)
Lemma beforeb_before : forall l u v, beforeb l u v = true <-> before l u v.
Proof.
  induction l as [|x l IH]; intros u v; cbn [beforeb].
  - split; [discriminate|]. intros [l1 [l2 [l3 H]]]. destruct l1; discriminate.
  - rewrite orb_true_iff, andb_true_iff, Nat.eqb_eq, mem_In, IH. split.
    + intros [[-> H]|[l1 [l2 [l3 H]]]].
      * apply in_split in H. destruct H as [l2 [l3 ->]]. exists [], l2, l3. reflexivity.
      * exists (x :: l1), l2, l3. rewrite H. reflexivity.
    + intros [l1 [l2 [l3 H]]]. destruct l1 as [|y l1]; cbn [app] in H; inversion H; subst.
      * left. split; [reflexivity|]. apply in_or_app. right. left. reflexivity.
      * right. exists l1, l2, l3. reflexivity.
Qed.

Lemma enclb_c_cycle : forall h' b h u,
  enclb_c (Cycle h' b) h u =
  ((h' =? h) && mem u (cnodes (Cycle h' b))) || existsb (fun c => enclb_c c h u) b.
Proof.
  intros h' b h u. reflexivity.
Qed.
Lemma enclb_c_spec : forall c h u, enclb_c c h u = true <-> encl_c c h u.
Proof.
  induction c as [n|h' b IH] using comp_ind'; intros h u.
  - cbn [enclb_c]. split; [discriminate|intros H; inversion H].
  - rewrite enclb_c_cycle, orb_true_iff, andb_true_iff, Nat.eqb_eq, mem_In, existsb_exists. split.
    + intros [[-> H]|[c [Hc H]]]; [apply encl_here, H|].
      apply encl_deep with c; [exact Hc|]. rewrite Forall_forall in IH. apply IH; assumption.
    + intros H. inversion H; subst; [left; split; [reflexivity|assumption]|].
      right. exists c. split; [assumption|]. rewrite Forall_forall in IH. apply IH; assumption.
Qed.
Lemma enclb_spec : forall w h u, enclb w h u = true <-> encl w h u.
Proof.
  intros w h u. unfold enclb, encl. rewrite existsb_exists.
  split; intros [c [H1 H2]]; exists c; (split; [exact H1|apply enclb_c_spec, H2]).
Qed.
Lemma edges_ok_spec : forall g w, edges_ok g w = true <->
  forall u v, In u (flat w) -> In v (succs g u) -> before (flat w) u v \/ encl w v u.
Proof.
  intros g w. unfold edges_ok. rewrite forallb_forall. split.
  - intros H u v Hu Hv. apply H in Hu. rewrite forallb_forall in Hu. apply Hu in Hv.
    apply orb_true_iff in Hv. destruct Hv as [Hv|Hv]; [left; apply beforeb_before, Hv|right; apply enclb_spec, Hv].
  - intros H u Hu. apply forallb_forall. intros v Hv. apply orb_true_iff.
    destruct (H u v Hu Hv) as [H1|H1]; [left; apply beforeb_before, H1|right; apply enclb_spec, H1].
Qed.

(* ------------------------------------------------------------------ soundness: nesting *)
Lemma heads_sound : forall c n hs, heads_c c n = Some hs -> nest_c c n hs.
Proof.
  induction c as [m|h b IH] using comp_ind'; intros n hs H.
  - cbn [heads_c] in H. destruct (m =? n) eqn:E; [|discriminate].
    apply Nat.eqb_eq in E. inversion H; subst. constructor.
  - rewrite heads_c_cycle in H. destruct (h =? n) eqn:E.
    + apply Nat.eqb_eq in E. inversion H; subst. constructor.
    + destruct (heads_l b n) as [r|] eqn:Er; [|discriminate]. inversion H; subst. clear H.
      revert r Er. induction b as [|c b IHb]; intros r Er; cbn [heads_l] in Er; [discriminate|].
      inversion IH as [|? ? Hc Hb]; subst.
      destruct (heads_c c n) as [r'|] eqn:Ec.
      * inversion Er; subst. apply nest_body with c; [left; reflexivity|apply Hc, Ec].
      * specialize (IHb Hb r Er). inversion IHb as [| |? ? c0 ? ? Hin Hn]; subst.
        apply nest_body with c0; [right; assumption|assumption].
Qed.
Lemma heads_l_sound : forall w n hs, heads_l w n = Some hs -> nest_w w n hs.
Proof.
  induction w as [|c w IH]; intros n hs H; cbn [heads_l] in H; [discriminate|].
  destruct (heads_c c n) as [r|] eqn:Ec.
  - inversion H; subst. exists c. split; [left; reflexivity|apply heads_sound, Ec].
  - destruct (IH n hs H) as [c' [H1 H2]]. exists c'. split; [right; exact H1|exact H2].
Qed.
Lemma heads_c_in : forall c n, In n (cnodes c) <-> heads_c c n <> None.
Proof.
  induction c as [m|h b IH] using comp_ind'; intros n.
  - cbn [cnodes heads_c In]. destruct (m =? n) eqn:E.
    + apply Nat.eqb_eq in E. intuition congruence.
    + apply Nat.eqb_neq in E. intuition congruence.
  - rewrite heads_c_cycle, cnodes_cycle. cbn [In]. destruct (h =? n) eqn:E.
    + apply Nat.eqb_eq in E. intuition congruence.
    + apply Nat.eqb_neq in E.
      assert (Hl : In n (flat b) <-> heads_l b n <> None).
      { clear E. induction b as [|c b IHb]; cbn [flat heads_l]; [split; [intros []|congruence]|].
        inversion IH as [|? ? Hc Hb]; subst. rewrite in_app_iff, (Hc n), (IHb Hb).
        destruct (heads_c c n); intuition congruence. }
      rewrite Hl. destruct (heads_l b n); intuition congruence.
Qed.
Lemma heads_l_in : forall w n, In n (flat w) <-> heads_l w n <> None.
Proof.
  induction w as [|c w IH]; intros n; cbn [flat heads_l]; [split; [intros []|congruence]|].
  rewrite in_app_iff, heads_c_in, IH. destruct (heads_c c n); intuition congruence.
Qed.

(* ------------------------------------------------------------------ main soundness *)
Theorem check_sound : forall g e w nst dom, check g e w nst dom = true -> WF g e w nst dom.
Proof.
  intros g e w nst dom H. unfold check in H.
  apply andb_true_iff in H. destruct H as [Hs Hnest]. unfold struct_ok in Hs.
  apply andb_true_iff in Hs. destruct Hs as [Hs Hed].
  apply andb_true_iff in Hs. destruct Hs as [Hs Hsub].
  apply andb_true_iff in Hs. destruct Hs as [Hs Hcl].
  apply andb_true_iff in Hs. destruct Hs as [Hnd Hmem].
  apply nodupb_NoDup in Hnd. apply mem_In in Hmem. rewrite closedb_spec in Hcl.
  apply subset_incl in Hsub. rewrite edges_ok_spec in Hed.
  assert (Hreach : forall x, In x (flat w) <-> reachable g e x).
  { intros x. split.
    - intros Hx. apply Hsub in Hx. revert Hx. apply reach_n_sound.
      intros y [<-|[]]. constructor.
    - apply closed_reach; assumption. }
  unfold nesting_ok in Hnest. rewrite forallb_forall in Hnest.
  constructor.
  - exact Hnd.
  - exact Hreach.
  - intros u v Hu Hv. apply Hed; [apply Hreach, Hu|exact Hv].
  - intros n Hn Hin. specialize (Hnest n Hn). apply heads_l_in in Hin.
    destruct (heads_l w n) as [a|] eqn:Ea; [|congruence].
    destruct (nst n) as [b|]; [|discriminate]. apply list_eqb_eq in Hnest. subst b.
    exists a. split; [reflexivity|apply heads_l_sound, Ea].
  - intros n Hn Hnin. specialize (Hnest n Hn).
    destruct (heads_l w n) as [a|] eqn:Ea.
    + exfalso. apply Hnin, heads_l_in. congruence.
    + destruct (nst n); [discriminate|reflexivity].
Qed.

Theorem wto_ok_sound : forall g e w, wto_ok g e w = true ->
  WF g e w (nesting w) (seq 0 (length g) ++ flat w).
Proof. intros g e w. apply check_sound. Qed.

(* the validated construction *)
Definition build_checked (g : graph) (e : nat) : option wto :=
  match build g e with
  | Some w => if wto_ok g e w then Some w else None
  | None => None
  end.
Theorem build_checked_sound : forall g e w, build_checked g e = Some w ->
  WF g e w (nesting w) (seq 0 (length g) ++ flat w).
Proof.
  intros g e w H. unfold build_checked in H. destruct (build g e) as [w'|]; [|discriminate].
  destruct (wto_ok g e w') eqn:E; [|discriminate]. inversion H; subst. apply wto_ok_sound, E.
Qed.
