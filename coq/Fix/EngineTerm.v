(* EngineTerm.v — termination of the interleaved fixpoint engine (Fix/Engine.v), generic in
   the abstract value type.

   (1) Fuel monotonicity: once a run has an answer, more fuel gives the same answer
       (inc_loop, dec_loop, visit, visit_all, run).
   (2) Termination: if the widening moves strictly down a well-founded relation R (one
       relation R h per cycle head h) whenever
       the inclusion test that guards it fails (hypothesis [progress]), then for every
       component, every weak topological order and every state there is a fuel for which
       the engine answers.  The hypothesis may be restricted to values satisfying a
       representation invariant [Inv] that all operators, the block transformer, the
       assumptions and the initial value preserve (the initial value is a parameter of the
   engine: hypothesis [Inv_init]).

   Argument.  Fuel is one number shared by all loops, so fuel monotonicity is used to
   combine the (existentially given) fuels of the finitely many body passes that a loop
   performs.  dec_loop runs at most descending+1 passes whatever the values; inc_loop runs
   at most delay+1 passes with join, and afterwards every pass that does not exit replaces
   pre by (pre widen new_pre) with new_pre </= pre: well-founded induction on R. *)
From Coq Require Import List Bool Arith Lia.
From CrabV Require Import Fix.Wto Fix.Engine.
Import ListNotations.

(* induction principle for the nested type comp *)
Section CompInd.
  Variable P : comp -> Prop.
  Hypothesis HV : forall n, P (Vertex n).
  Hypothesis HC : forall h body, Forall P body -> P (Cycle h body).
  Fixpoint comp_ind2 (c : comp) : P c :=
    match c with
    | Vertex n => HV n
    | Cycle h body =>
      HC h body ((fix go (l : list comp) : Forall P l :=
                    match l with
                    | [] => Forall_nil P
                    | c' :: r => Forall_cons c' (comp_ind2 c') (go r)
                    end) body)
    end.
End CompInd.

Section Term.
  Variable A : Type.
  Variable OP : aops A.
  Variable analyze : nat -> A -> A.
  Variable preds : nat -> list nat.
  Variable nest : nat -> list nat.
  Variable entry : nat.
  Variable delay descending : nat.
  Variable use_asm : bool.
  Variable asm : nat -> option A.
  Variable init : A.

  Notation vis := (visit A OP analyze preds nest entry delay descending use_asm asm init).
  Notation visl := (visit_all A OP analyze preds nest entry delay descending use_asm asm init).
  Notation incl := (inc_loop A OP analyze preds delay use_asm asm).
  Notation decl := (dec_loop A OP analyze preds descending use_asm asm).
  Notation erun := (run A OP analyze preds nest entry delay descending use_asm asm init).
  Notation sthen := (strengthen A OP use_asm asm).
  Notation hinflow := (head_inflow A OP preds use_asm asm).
  Notation est := (est A).

  (* ------------------------------------------------------------ unfolding of visit *)
  Definition cyc_entry_in (st : est) (c : comp) : bool := e_skip A st && comp_member entry c.
  Definition cyc_st0 (st : est) : est := mkE A (e_pre A st) (e_post A st) false.
  Definition cyc_epre (h : nat) : option A :=
    if Nat.eqb h entry then Some init else None.
  Definition cyc_pre0 (st : est) (h : nat) : A :=
    sthen h (if Nat.eqb h entry then init
             else fold_left (fun acc p => if deeper (nest p) (nest h) then acc
                                          else o_join A OP acc (e_post A st p)) (preds h) (o_bot A OP)).

  Lemma visit_cycle_eq fuel h body st :
    vis fuel (Cycle h body) st =
    if e_skip A st && negb (cyc_entry_in st (Cycle h body)) then Some st
    else match incl (visl fuel body) h (cyc_epre h) fuel 1
                    (cyc_pre0 st h) (cyc_st0 st) with
         | None => None
         | Some (pre, st') =>
           if Nat.eqb descending 0 then Some st'
           else decl (visl fuel body) h (cyc_epre h) fuel 1 pre st'
         end.
  Proof. reflexivity. Qed.

  Lemma visit_vertex_eq fuel n st :
    vis fuel (Vertex n) st = Some (visit_vertex A OP analyze preds entry use_asm asm init n st).
  Proof. reflexivity. Qed.

  (* ------------------------------------------------------------ (1) fuel monotonicity *)
  Section LoopMono.
    Variables vb vb' : est -> option est.
    Hypothesis vb_le : forall s r, vb s = Some r -> vb' s = Some r.
    Variable h : nat.
    Variable ep : option A.

    Lemma inc_loop_mono : forall f f' i pre st r,
      incl vb h ep f i pre st = Some r -> f <= f' -> incl vb' h ep f' i pre st = Some r.
    Proof.
      induction f as [|f IH]; intros f' i pre st r H L; [discriminate H|].
      destruct f' as [|f']; [lia|].
      cbn [inc_loop] in H |- *.
      destruct (vb _) as [st2|] eqn:E; [|discriminate H].
      rewrite (vb_le _ _ E).
      destruct (o_leq A OP _ pre); [exact H|].
      apply (IH f'); [exact H|lia].
    Qed.

    Lemma dec_loop_mono : forall f f' i pre st r,
      decl vb h ep f i pre st = Some r -> f <= f' -> decl vb' h ep f' i pre st = Some r.
    Proof.
      induction f as [|f IH]; intros f' i pre st r H L; [discriminate H|].
      destruct f' as [|f']; [lia|].
      cbn [dec_loop] in H |- *.
      destruct (vb _) as [st2|] eqn:E; [|discriminate H].
      rewrite (vb_le _ _ E).
      destruct (o_leq A OP pre _); [exact H|].
      destruct (descending <? i); [exact H|].
      apply (IH f'); [exact H|lia].
    Qed.
  End LoopMono.

  Definition mono_at (c : comp) : Prop :=
    forall f f' st r, vis f c st = Some r -> f <= f' -> vis f' c st = Some r.

  Lemma visit_all_mono_F body : Forall mono_at body ->
    forall f f' st r, visl f body st = Some r -> f <= f' -> visl f' body st = Some r.
  Proof.
    induction 1 as [|c l Hc Hl IH]; intros f f' st r H L; cbn [visit_all] in H |- *; [exact H|].
    destruct (vis f c st) as [s'|] eqn:E; [|discriminate H].
    rewrite (Hc _ _ _ _ E L). apply (IH f); assumption.
  Qed.

  Theorem visit_mono : forall c, mono_at c.
  Proof.
    apply comp_ind2.
    - intros n f f' st r H _. rewrite visit_vertex_eq in H |- *. exact H.
    - intros h body F f f' st r H L. rewrite visit_cycle_eq in H |- *.
      destruct (e_skip A st && negb _); [exact H|].
      assert (VB : forall s r0, visl f body s = Some r0 -> visl f' body s = Some r0).
      { intros s r0 E. exact (visit_all_mono_F body F f f' s r0 E L). }
      destruct (incl (visl f body) _ _ f _ _ _) as [[pre st']|] eqn:EI; [|discriminate H].
      rewrite (inc_loop_mono _ _ VB _ _ _ _ _ _ _ _ EI L).
      destruct (Nat.eqb descending 0); [exact H|].
      exact (dec_loop_mono _ _ VB _ _ _ _ _ _ _ _ H L).
  Qed.

  Theorem visit_all_mono w : forall f f' st r,
    visl f w st = Some r -> f <= f' -> visl f' w st = Some r.
  Proof.
    apply visit_all_mono_F. apply Forall_forall. intros c _. apply visit_mono.
  Qed.

  Theorem run_mono w f f' r :
    erun f w = Some r -> f <= f' -> erun f' w = Some r.
  Proof. unfold run. apply visit_all_mono. Qed.

  (* ------------------------------------------------------------ representation invariant *)
  Variable Inv : A -> Prop.
  Hypothesis Inv_bot : Inv (o_bot A OP).
  Hypothesis Inv_join : forall a b, Inv a -> Inv b -> Inv (o_join A OP a b).
  Hypothesis Inv_meet : forall a b, Inv a -> Inv b -> Inv (o_meet A OP a b).
  Hypothesis Inv_widen : forall n a b, Inv a -> Inv b -> Inv (o_widen A OP n a b).
  Hypothesis Inv_narrow : forall a b, Inv a -> Inv b -> Inv (o_narrow A OP a b).
  Hypothesis Inv_analyze : forall n a, Inv a -> Inv (analyze n a).
  Hypothesis Inv_asm : forall n a, use_asm = true -> asm n = Some a -> Inv a.
  Hypothesis Inv_init : Inv init.

  Definition SInv (st : est) : Prop :=
    (forall n, Inv (e_pre A st n)) /\ (forall n, Inv (e_post A st n)).

  Lemma tset_inv (t : nat -> A) n v : (forall m, Inv (t m)) -> Inv v -> forall m, Inv (tset A t n v m).
  Proof. intros T V m. unfold tset. destruct (Nat.eqb m n); auto. Qed.

  Lemma strengthen_inv n a : Inv a -> Inv (sthen n a).
  Proof.
    intros I. unfold strengthen. destruct use_asm eqn:U; [|exact I].
    destruct (asm n) as [x|] eqn:E; [|exact I]. apply Inv_meet; [exact I|]. exact (Inv_asm n x eq_refl E).
  Qed.

  Lemma join_posts_from_inv (post : nat -> A) ps a0 : (forall n, Inv (post n)) -> Inv a0 ->
    Inv (join_posts_from A OP post ps a0).
  Proof.
    intros P. unfold join_posts_from. revert a0.
    induction ps as [|p r IH]; intros acc I; cbn [fold_left]; [exact I|].
    apply IH. apply Inv_join; auto.
  Qed.

  Lemma join_posts_inv (post : nat -> A) ps : (forall n, Inv (post n)) -> Inv (join_posts A OP post ps).
  Proof. intros P. unfold join_posts. apply join_posts_from_inv; [exact P|exact Inv_bot]. Qed.

  Lemma filtered_join_inv (post : nat -> A) h ps : (forall n, Inv (post n)) ->
    Inv (fold_left (fun acc p => if deeper (nest p) (nest h) then acc else o_join A OP acc (post p))
                   ps (o_bot A OP)).
  Proof.
    intros P. generalize (o_bot A OP) Inv_bot.
    induction ps as [|p r IH]; intros acc I; cbn [fold_left]; [exact I|].
    apply IH. destruct (deeper _ _); [exact I|]. apply Inv_join; auto.
  Qed.

  Lemma head_inflow_inv h ep st : SInv st -> (forall ip, ep = Some ip -> Inv ip) -> Inv (hinflow h ep st).
  Proof.
    intros [P Q] E. unfold head_inflow. apply strengthen_inv.
    pose proof (join_posts_inv (e_post A st) (preds h) Q) as J.
    destruct ep as [ip|]; [|exact J]. apply Inv_join; [exact J|]. apply E. reflexivity.
  Qed.

  Lemma visit_vertex_inv n st : SInv st -> SInv (visit_vertex A OP analyze preds entry use_asm asm init n st).
  Proof.
    intros [P Q]. unfold visit_vertex.
    destruct (if e_skip A st && Nat.eqb n entry then false else e_skip A st); [split; assumption|].
    assert (I : Inv (sthen n (join_posts_from A OP (e_post A st) (preds n)
                                (if Nat.eqb n entry then init else o_bot A OP)))).
    { apply strengthen_inv, join_posts_from_inv; [exact Q|].
      destruct (Nat.eqb n entry); [exact Inv_init|exact Inv_bot]. }
    split; cbn [e_pre e_post]; apply tset_inv; auto.
  Qed.

  Lemma set_head_inv h pre st : SInv st -> Inv pre ->
    SInv (mkE A (tset A (e_pre A st) h pre) (tset A (e_post A st) h (analyze h pre)) (e_skip A st)).
  Proof. intros [P Q] I. split; cbn [e_pre e_post]; apply tset_inv; auto. Qed.

  Lemma set_post_inv h pre st : SInv st -> Inv pre ->
    SInv (mkE A (e_pre A st) (tset A (e_post A st) h (analyze h pre)) (e_skip A st)).
  Proof. intros [P Q] I. split; cbn [e_pre e_post]; [exact P|apply tset_inv; auto]. Qed.

  Lemma extrapolate_inv h i a b : Inv a -> Inv b -> Inv (extrapolate A OP delay h i a b).
  Proof. intros. unfold extrapolate. destruct (i <=? delay); auto. Qed.

  Lemma refine_inv i a b : Inv a -> Inv b -> Inv (refine A OP i a b).
  Proof. intros. unfold refine. destruct (Nat.eqb i 1); auto. Qed.

  Section LoopInv.
    Variable vb : est -> option est.
    Hypothesis vb_inv : forall s r, SInv s -> vb s = Some r -> SInv r.
    Variable h : nat.
    Variable ep : option A.
    Hypothesis ep_inv : forall ip, ep = Some ip -> Inv ip.

    Lemma inc_loop_inv : forall f i pre st pre' st',
      Inv pre -> SInv st -> incl vb h ep f i pre st = Some (pre', st') -> Inv pre' /\ SInv st'.
    Proof.
      induction f as [|f IH]; intros i pre st pre' st' I HS H; [discriminate H|].
      cbn [inc_loop] in H.
      destruct (vb _) as [st2|] eqn:E; [|discriminate H].
      pose proof (vb_inv _ _ (set_head_inv h pre st HS I) E) as S2.
      pose proof (head_inflow_inv h ep st2 S2 ep_inv) as NP.
      destruct (o_leq A OP _ pre).
      - inversion H; subst pre' st'. split; [exact NP|].
        destruct S2 as [P Q]. split; cbn [e_pre e_post]; [apply tset_inv; auto|exact Q].
      - apply (IH _ _ _ _ _ (extrapolate_inv h i _ _ I NP) S2 H).
    Qed.

    Lemma dec_loop_inv : forall f i pre st st',
      Inv pre -> SInv st -> decl vb h ep f i pre st = Some st' -> SInv st'.
    Proof.
      induction f as [|f IH]; intros i pre st st' I HS H; [discriminate H|].
      cbn [dec_loop] in H.
      destruct (vb _) as [st2|] eqn:E; [|discriminate H].
      pose proof (vb_inv _ _ (set_post_inv h pre st HS I) E) as S2.
      pose proof (head_inflow_inv h ep st2 S2 ep_inv) as NP.
      destruct (o_leq A OP pre _); [inversion H; subst; exact S2|].
      destruct (descending <? i); [inversion H; subst; exact S2|].
      pose proof (refine_inv i _ _ I NP) as RI.
      apply (IH _ _ _ _ RI) in H; [exact H|].
      destruct S2 as [P Q]. split; cbn [e_pre e_post]; [apply tset_inv; auto|exact Q].
    Qed.
  End LoopInv.

  Definition inv_at (c : comp) : Prop := forall f st r, SInv st -> vis f c st = Some r -> SInv r.

  Lemma visit_all_inv_F body : Forall inv_at body ->
    forall f st r, SInv st -> visl f body st = Some r -> SInv r.
  Proof.
    induction 1 as [|c l Hc Hl IH]; intros f st r HS H; cbn [visit_all] in H.
    - inversion H; subst; exact HS.
    - destruct (vis f c st) as [s'|] eqn:E; [|discriminate H].
      apply (IH f s'); [exact (Hc _ _ _ HS E)|exact H].
  Qed.

  Lemma cyc_st0_inv st : SInv st -> SInv (cyc_st0 st).
  Proof. intros [P Q]. split; assumption. Qed.
  Lemma cyc_epre_inv h : forall ip, cyc_epre h = Some ip -> Inv ip.
  Proof.
    intros ip. unfold cyc_epre. destruct (Nat.eqb h entry); [|discriminate].
    intros E; inversion E; subst. exact Inv_init.
  Qed.
  Lemma cyc_pre0_inv st h : SInv st -> Inv (cyc_pre0 st h).
  Proof.
    intros [P Q]. unfold cyc_pre0. apply strengthen_inv.
    destruct (Nat.eqb h entry); [exact Inv_init|]. apply filtered_join_inv. exact Q.
  Qed.

  Theorem visit_inv : forall c, inv_at c.
  Proof.
    apply comp_ind2.
    - intros n f st r HS H. rewrite visit_vertex_eq in H. inversion H; subst.
      apply visit_vertex_inv; exact HS.
    - intros h body F f st r HS H. rewrite visit_cycle_eq in H.
      destruct (e_skip A st && negb _); [inversion H; subst; exact HS|].
      assert (VB : forall s r0, SInv s -> visl f body s = Some r0 -> SInv r0).
      { intros s r0. apply visit_all_inv_F. exact F. }
      destruct (incl _ _ _ _ _ _ _) as [[pre st']|] eqn:EI; [|discriminate H].
      destruct (inc_loop_inv _ VB h _ (cyc_epre_inv h) _ _ _ _ _ _
                             (cyc_pre0_inv st h HS) (cyc_st0_inv st HS) EI) as [I' S'].
      destruct (Nat.eqb descending 0); [inversion H; subst; exact S'|].
      exact (dec_loop_inv _ VB h _ (cyc_epre_inv h) _ _ _ _ _ I' S' H).
  Qed.

  Theorem visit_all_inv w : forall f st r, SInv st -> visl f w st = Some r -> SInv r.
  Proof. apply visit_all_inv_F. apply Forall_forall. intros c _. apply visit_inv. Qed.

  Lemma run_state_inv :
    SInv (mkE A (tset A (fun _ => o_bot A OP) entry init) (fun _ => o_bot A OP) true).
  Proof. split; cbn [e_pre e_post]; [apply tset_inv; auto|auto]. Qed.

  Theorem run_inv w f r : erun f w = Some r -> SInv r.
  Proof. unfold run. apply visit_all_inv. apply run_state_inv. Qed.

  (* ------------------------------------------------------------ (2) termination *)
  Variable R : nat -> A -> A -> Prop.          (* one order per cycle head: thresholds are per cycle *)
  Hypothesis R_wf : forall n, well_founded (R n).
  Hypothesis progress : forall n a b, Inv a -> Inv b ->
    o_leq A OP b a = false -> R n (o_widen A OP n a b) a.

  Section LoopTerm.
    (* the visit of the loop body, as a function of the fuel *)
    Variable vbf : nat -> est -> option est.
    Hypothesis vbf_mono : forall f f' s r, vbf f s = Some r -> f <= f' -> vbf f' s = Some r.
    Hypothesis vbf_inv : forall f s r, SInv s -> vbf f s = Some r -> SInv r.
    Hypothesis vbf_total : forall s, SInv s -> exists f r, vbf f s = Some r.
    Variable h : nat.
    Variable ep : option A.
    Hypothesis ep_inv : forall ip, ep = Some ip -> Inv ip.

    (* one more pass in front of a terminating run *)
    Lemma inc_step i pre st : Inv pre -> SInv st ->
      (forall st2, SInv st2 -> o_leq A OP (hinflow h ep st2) pre = false ->
         exists f r, incl (vbf f) h ep f (S i) (extrapolate A OP delay h i pre (hinflow h ep st2)) st2 = Some r) ->
      exists f r, incl (vbf f) h ep f i pre st = Some r.
    Proof.
      intros I HS K.
      pose proof (set_head_inv h pre st HS I) as S1.
      destruct (vbf_total _ S1) as (f1 & st2 & E1).
      pose proof (vbf_inv _ _ _ S1 E1) as S2.
      destruct (o_leq A OP (hinflow h ep st2) pre) eqn:LE.
      - exists (S f1). eexists. cbn [inc_loop].
        rewrite (vbf_mono f1 (S f1) _ _ E1) by lia. rewrite LE. reflexivity.
      - destruct (K st2 S2 LE) as (f2 & r & E2).
        exists (S (Nat.max f1 f2)), r. cbn [inc_loop].
        rewrite (vbf_mono f1 (S (Nat.max f1 f2)) _ _ E1) by lia. rewrite LE.
        apply (inc_loop_mono (vbf f2) (vbf (S (Nat.max f1 f2)))) with (f := f2); [|exact E2|lia].
        intros s r0 E. apply (vbf_mono f2); [exact E|lia].
    Qed.

    (* after the delay: every pass that does not exit is a widening step *)
    Lemma inc_term_widen : forall pre, Acc (R h) pre -> forall i st,
      delay < i -> Inv pre -> SInv st -> exists f r, incl (vbf f) h ep f i pre st = Some r.
    Proof.
      induction 1 as [pre _ IH]. intros i st D I HS.
      apply inc_step; [exact I|exact HS|]. intros st2 S2 LE.
      pose proof (head_inflow_inv h ep st2 S2 ep_inv) as NP.
      assert (X : extrapolate A OP delay h i pre (hinflow h ep st2) = o_widen A OP h pre (hinflow h ep st2)).
      { unfold extrapolate. destruct (Nat.leb_spec i delay); [lia|reflexivity]. }
      rewrite X. apply IH; [apply progress; assumption|lia|apply Inv_widen; assumption|exact S2].
    Qed.

    Lemma inc_term : forall k i pre st,
      delay < i + k -> Inv pre -> SInv st -> exists f r, incl (vbf f) h ep f i pre st = Some r.
    Proof.
      induction k as [|k IH]; intros i pre st D I HS.
      - apply inc_term_widen; [apply R_wf|lia|exact I|exact HS].
      - apply inc_step; [exact I|exact HS|]. intros st2 S2 LE.
        apply IH; [lia| |exact S2].
        apply extrapolate_inv; [exact I|]. apply head_inflow_inv; assumption.
    Qed.

    (* at most descending+1 passes *)
    Lemma dec_term : forall k i pre st,
      descending < i + k -> Inv pre -> SInv st -> exists f r, decl (vbf f) h ep f i pre st = Some r.
    Proof.
      induction k as [|k IH]; intros i pre st D I HS;
        pose proof (set_post_inv h pre st HS I) as S1;
        destruct (vbf_total _ S1) as (f1 & st2 & E1);
        pose proof (vbf_inv _ _ _ S1 E1) as S2.
      - exists (S f1), st2. cbn [dec_loop].
        rewrite (vbf_mono f1 (S f1) _ _ E1) by lia.
        destruct (o_leq A OP pre _); [reflexivity|].
        destruct (Nat.ltb_spec descending i); [reflexivity|lia].
      - destruct (o_leq A OP pre (hinflow h ep st2)) eqn:LE.
        + exists (S f1), st2. cbn [dec_loop].
          rewrite (vbf_mono f1 (S f1) _ _ E1) by lia. rewrite LE. reflexivity.
        + destruct (descending <? i) eqn:DI.
          * exists (S f1), st2. cbn [dec_loop].
            rewrite (vbf_mono f1 (S f1) _ _ E1) by lia. rewrite LE, DI. reflexivity.
          * pose proof (head_inflow_inv h ep st2 S2 ep_inv) as NP.
            pose proof (refine_inv i _ _ I NP) as RI.
            set (pre' := refine A OP i pre (hinflow h ep st2)) in *.
            assert (S3 : SInv (mkE A (tset A (e_pre A st2) h pre') (e_post A st2) (e_skip A st2))).
            { destruct S2 as [P Q]. split; cbn [e_pre e_post]; [apply tset_inv; auto|exact Q]. }
            destruct (IH (S i) pre' _ ltac:(lia) RI S3) as (f2 & r & E2).
            exists (S (Nat.max f1 f2)), r. cbn [dec_loop].
            rewrite (vbf_mono f1 (S (Nat.max f1 f2)) _ _ E1) by lia. rewrite LE, DI.
            apply (dec_loop_mono (vbf f2) (vbf (S (Nat.max f1 f2)))) with (f := f2); [|exact E2|lia].
            intros s r0 E. apply (vbf_mono f2); [exact E|lia].
    Qed.
  End LoopTerm.

  Definition total_at (c : comp) : Prop := forall st, SInv st -> exists f r, vis f c st = Some r.

  Lemma visit_all_total_F body : Forall total_at body ->
    forall st, SInv st -> exists f r, visl f body st = Some r.
  Proof.
    induction 1 as [|c l Hc Hl IH]; intros st HS.
    - exists 0, st. reflexivity.
    - destruct (Hc st HS) as (f1 & s' & E1).
      destruct (IH s' (visit_inv c f1 st s' HS E1)) as (f2 & r & E2).
      exists (Nat.max f1 f2), r. cbn [visit_all].
      rewrite (visit_mono c f1 (Nat.max f1 f2) st s' E1) by lia.
      apply (visit_all_mono l f2); [exact E2|lia].
  Qed.

  Theorem visit_total : forall c, total_at c.
  Proof.
    apply comp_ind2.
    - intros n st _. exists 0. eexists. apply visit_vertex_eq.
    - intros h body F st HS.
      destruct (e_skip A st && negb (cyc_entry_in st (Cycle h body))) eqn:SK.
      { exists 0, st. rewrite visit_cycle_eq, SK. reflexivity. }
      set (vbf := fun f => visl f body).
      assert (M : forall f f' s r, vbf f s = Some r -> f <= f' -> vbf f' s = Some r).
      { intros f f' s r. apply visit_all_mono. }
      assert (V : forall f s r, SInv s -> vbf f s = Some r -> SInv r).
      { intros f s r. apply visit_all_inv. }
      assert (T : forall s, SInv s -> exists f r, vbf f s = Some r).
      { apply visit_all_total_F. exact F. }
      pose proof (cyc_epre_inv h) as EP.
      destruct (inc_term vbf M V T h _ EP (S delay) 1 _ _ ltac:(lia)
                         (cyc_pre0_inv st h HS) (cyc_st0_inv st HS))
        as (f1 & [pre st'] & E1).
      destruct (inc_loop_inv _ (V f1) h _ EP _ _ _ _ _ _
                             (cyc_pre0_inv st h HS) (cyc_st0_inv st HS) E1) as [I' S'].
      destruct (Nat.eqb descending 0) eqn:D0.
      + exists f1, st'. rewrite visit_cycle_eq, SK. unfold vbf in E1. rewrite E1, D0. reflexivity.
      + destruct (dec_term vbf M V T h _ EP (S descending) 1 pre st' ltac:(lia) I' S') as (f2 & r & E2).
        exists (Nat.max f1 f2), r. rewrite visit_cycle_eq, SK.
        rewrite (inc_loop_mono (vbf f1) (vbf (Nat.max f1 f2))
                   ltac:(intros s r0 E; apply (M f1); [exact E|lia]) _ _ f1 _ _ _ _ _ E1) by lia.
        rewrite D0.
        apply (dec_loop_mono (vbf f2) (vbf (Nat.max f1 f2))) with (f := f2); [|exact E2|lia].
        intros s r0 E. apply (M f2); [exact E|lia].
  Qed.

  Theorem visit_all_total w : forall st, SInv st -> exists f r, visl f w st = Some r.
  Proof. apply visit_all_total_F. apply Forall_forall. intros c _. apply visit_total. Qed.

  (* every run of the engine terminates *)
  Theorem run_total w : exists f r, erun f w = Some r.
  Proof. unfold run. apply visit_all_total. apply run_state_inv. Qed.

  Corollary visit_terminates c st : SInv st -> exists f, vis f c st <> None.
  Proof. intros HS. destruct (visit_total c st HS) as (f & r & E). exists f. rewrite E. discriminate. Qed.

  Corollary run_terminates w : exists f, erun f w <> None.
  Proof. destruct (run_total w) as (f & r & E). exists f. rewrite E. discriminate. Qed.
End Term.
