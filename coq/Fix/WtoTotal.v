(* Fix/WtoTotal.v — the fuel of the model (Fix/Wto.v, [fuel_for]) always suffices: for every
   graph whose successor lists mention only nodes of the graph and every entry node,
   [build g e] returns an ordering.  Together with Fix/WtoSound.v this makes the
   well-formedness theorem unconditional. *)
From Coq Require Import List Arith Bool Lia.
From CrabV Require Import Fix.Wto Fix.WtoCheck Fix.WtoSound.
Import ListNotations.

Lemma list_sum_app' : forall a b, list_sum (a ++ b) = list_sum a + list_sum b.
Proof. exact list_sum_app. Qed.

Lemma nodup_app_l : forall (a b : list nat), NoDup (a ++ b) -> NoDup a.
Proof.
  induction a as [|x a IH]; intros b H; [constructor|]. cbn [app] in H. inversion H; subst.
  constructor; [|apply IH with b; assumption]. intros Hx. apply H2, in_or_app. left. exact Hx.
Qed.

Section Total.
Variable g : graph.

Definition wt (x : nat) : nat := S (length (succs g x)).
Definition cost (l : list nat) : nat := list_sum (map wt l).
Definition fsum (vs : list frame) : nat := list_sum (map (fun f => S (length (fcur f))) vs).

Lemma cost_app : forall a b, cost (a ++ b) = cost a + cost b.
Proof. intros a b. unfold cost. rewrite map_app. apply list_sum_app'. Qed.
Lemma cost_cons : forall x l, cost (x :: l) = wt x + cost l.
Proof. reflexivity. Qed.
Lemma cost_incl : forall a b, NoDup a -> incl a b -> cost a <= cost b.
Proof.
  induction a as [|x a IH]; intros b Hnd Hinc; [unfold cost; cbn; lia|].
  inversion Hnd as [|? ? Hx Hnd']; subst.
  assert (Hxb : In x b) by (apply Hinc; left; reflexivity).
  apply in_split in Hxb. destruct Hxb as [b1 [b2 ->]].
  rewrite cost_cons, cost_app, cost_cons.
  assert (H : cost a <= cost (b1 ++ b2)).
  { apply IH; [exact Hnd'|]. intros y Hy.
    assert (Hyb : In y (b1 ++ x :: b2)) by (apply Hinc; right; exact Hy).
    apply in_app_or in Hyb. apply in_or_app. destruct Hyb as [H|[H|H]]; [left; exact H| |right; exact H].
    subst y. contradiction. }
  rewrite cost_app in H. lia.
Qed.
Lemma fsum_cons : forall f vs, fsum (f :: vs) = S (length (fcur f)) + fsum vs.
Proof. reflexivity. Qed.
Lemma fsum_prop_min : forall m vs, fsum (prop_min m vs) = fsum vs.
Proof.
  intros m [|p vs]; [reflexivity|]. cbn [prop_min]. destruct (m <? fmin p); reflexivity.
Qed.

(* extra invariant of a call used for termination: RL lists the region, Disc the nodes
   discovered by this call so far *)
Record TX (CG : nat) (Reg : nat -> Prop) (RL Disc L : list nat) (s : st) : Prop := {
  tx_nd : NoDup RL;
  tx_reg : forall x, Reg x -> In x RL;
  tx_cg : cost RL <= CG;
  tx_dnd : NoDup Disc;
  tx_dinc : incl Disc RL;
  tx_disc : forall x, In x Disc -> In x L \/ dfn s x = DInf
}.

Definition pot (vs : list frame) (RL Disc : list nat) : nat :=
  fsum vs + (cost RL - cost Disc) + 1.

Definition LoopTotal (e CG f : nat) : Prop :=
  forall d0 B P0 Reg r k0 L new vs ln s RL Disc,
    Inv g e d0 B Reg r k0 L new vs ln s -> TX CG Reg RL Disc L s ->
    pot vs RL Disc + (length RL - 1) * (CG + 2) <= f ->
    exists s' p', loop f g vs ln s (new ++ P0) = Some (s', p').

Lemma TX_same : forall CG Reg RL Disc L s, TX CG Reg RL Disc L s -> TX CG Reg RL Disc L s.
Proof. auto. Qed.

(* the loop of component terminates when the nested calls do *)
Lemma comp_total : forall e CG f dc stkc numc T,
  LoopTotal e CG f -> NoDup T -> cost T <= CG -> length T * (CG + 2) <= f ->
  forall l s p,
    CInv g e dc stkc numc T s p ->
    (forall y, In y l -> reachable g e y) ->
    (forall y, In y l -> In y T \/ dc y = DInf) ->
    exists s3 body, comp_succs (visit_call f g) l s p = Some (s3, body).
Proof.
  intros e CG f dc stkc numc T HLT HndT HcT Hfuel.
  pose proof (loop_spec g e f) as HLS.
  induction l as [|x l IH]; intros s p C Hre HlT; cbn [comp_succs].
  - exists s, p. reflexivity.
  - destruct (is_zero (dfn s x)) eqn:Ez.
    + apply is_zero_true in Ez.
      assert (HxT : In x T) by (apply (comp_white_in_T _ _ _ _ _ _ _ _ _ C); [apply HlT; left; reflexivity|exact Ez]).
      assert (I0 := comp_pre _ _ _ _ _ _ _ _ _ C HxT Ez (Hre x (or_introl eq_refl))).
      assert (TX0 : TX CG (fun z => In z T) T [x] [x] (discover x s)).
      { constructor.
        - exact HndT.
        - intros z Hz. exact Hz.
        - exact HcT.
        - constructor; [intros []|constructor].
        - intros z [<-|[]]. exact HxT.
        - intros z Hz. left. exact Hz. }
      assert (Hcx : cost [x] <= cost T).
      { apply cost_incl; [constructor; [intros []|constructor]|]. intros z [<-|[]]. exact HxT. }
      assert (Hlen : 1 <= length T) by (destruct T; [destruct HxT|cbn; lia]).
      destruct (HLT _ _ p _ _ _ _ [] _ _ _ _ _ I0 TX0) as [s2 [p2 Ev]].
      { unfold pot, fsum. cbn [map list_sum new_frame fcur]. rewrite cost_cons in Hcx.
        unfold cost at 1 in Hcx. cbn [map list_sum] in Hcx. unfold wt in *.
        rewrite cost_cons. unfold cost at 2. cbn [map list_sum]. unfold wt.
        unfold list_sum in *. cbn [fold_right] in *.
        destruct (length T) as [|t]; [lia|]. cbn [Nat.sub]. rewrite Nat.sub_0_r.
        assert (S t * (CG + 2) = (CG + 2) + t * (CG + 2)) by (cbn; lia). lia. }
      cbn [app] in Ev. unfold visit_call at 1. cbn zeta. rewrite Ev.
      destruct (HLS _ _ p _ _ _ _ [] _ _ _ _ _ I0 Ev) as [new' [ln' [I1 Ep]]]. cbn [app] in Ep. subst p2.
      destruct (comp_step _ _ _ _ _ _ _ _ _ _ _ _ C HxT I1) as [C2 _].
      apply (IH s2 _ C2).
      * intros y Hy. apply Hre. right. exact Hy.
      * intros y Hy. apply HlT. right. exact Hy.
    + apply (IH s p C).
      * intros y Hy. apply Hre. right. exact Hy.
      * intros y Hy. apply HlT. right. exact Hy.
Qed.

Lemma mul_mono_r : forall a b k, a <= b -> a * k <= b * k.
Proof. intros. apply Nat.mul_le_mono_r. assumption. Qed.

Theorem loop_total : forall e CG f, LoopTotal e CG f.
Proof.
  intros e CG. induction f as [|f IH]; intros d0 B P0 Reg r k0 L new vs ln s RL Disc I X Hf;
    remember ((length RL - 1) * (CG + 2)) as q eqn:Eqq.
  - unfold pot in Hf. lia.
  - cbn [loop]. destruct vs as [|fr vs'].
    + exists s, (new ++ P0). reflexivity.
    + assert (HcD : cost Disc <= cost RL) by (apply cost_incl; [apply (tx_dnd _ _ _ _ _ _ X)|apply (tx_dinc _ _ _ _ _ _ X)]).
      unfold pot in Hf. rewrite fsum_cons in Hf.
      destruct (fcur fr) as [|child rest] eqn:Hc.
      * (* the cursor of the top frame is exhausted *)
        pose proof (inv_frames I) as HF. cbn [Frames] in HF.
        destruct HF as [T [L' [EL [HFr [HTr HFs]]]]].
        destruct (FrameOK_node_in _ _ _ _ _ _ _ HFr) as [kn [pre [Hdn _]]].
        rewrite Hdn. cbn [nat_eq_dfn].
        destruct (fmin fr =? kn) eqn:Eq.
        -- apply Nat.eqb_eq in Eq. destruct (mem (fnode fr) ln) eqn:Em.
           ++ destruct (cycle_setup g e d0 B Reg r k0 L new fr vs' ln s kn I Hc Hdn Eq)
                as [T2 [L2 [EL2 [HndT [Hpop [C0 [Hre HlT]]]]]]].
              rewrite Hpop.
              assert (HTRL : incl (T2 ++ [fnode fr]) RL).
              { intros z Hz. apply (tx_reg _ _ _ _ _ _ X), (inv_Lreg I). rewrite EL2.
                apply in_app_or in Hz. apply in_or_app. destruct Hz as [Hz|[<-|[]]]; [left; exact Hz|right; left; reflexivity]. }
              assert (HlenT : length T2 + 1 <= length RL).
              { pose proof (NoDup_incl_length HndT HTRL) as Hl. rewrite app_length in Hl. cbn [length] in Hl. exact Hl. }
              assert (HndT2 : NoDup T2) by (apply nodup_app_l with [fnode fr]; exact HndT).
              assert (HcT : cost T2 <= CG).
              { pose proof (tx_cg _ _ _ _ _ _ X). assert (cost T2 <= cost RL); [|lia].
                apply cost_incl; [exact HndT2|]. intros z Hz. apply HTRL, in_or_app. left. exact Hz. }
              assert (Hfuel : length T2 * (CG + 2) <= f).
              { pose proof (mul_mono_r (length T2) (length RL - 1) (CG + 2)) as Hmm. rewrite <- Eqq in Hmm. lia. }
              destruct (comp_total e CG f _ _ _ T2 IH HndT2 HcT Hfuel _ _ _ C0 Hre HlT) as [s3 [body Ecomp]].
              pose proof Ecomp as Ecomp'. unfold visit_call in Ecomp'. rewrite Ecomp'.
              destruct (step_pop_cycle g e d0 B Reg r k0 f L new fr vs' ln s kn _ _ s3 body
                          (loop_spec g e f) I Hc Hdn Eq Hpop Ecomp) as [L3 [I3 [HL3 [Hmono _]]]].
              apply (IH d0 B P0 Reg r k0 L3 _ _ _ _ RL Disc I3).
              ** destruct X. constructor; auto. intros z Hz.
                 destruct (tx_disc0 z Hz) as [H|H]; [apply HL3, H|right; apply Hmono, H].
              ** rewrite <- Eqq. unfold pot. rewrite fsum_prop_min. cbn [length] in Hf. lia.
           ++ pose proof (inv_stk I) as Hstk. rewrite EL in Hstk.
              destruct (stk s) as [|x stk2] eqn:Es; [destruct T; discriminate|].
              destruct (step_pop_vertex g e d0 B Reg r k0 L new fr vs' ln s kn x stk2 I Hc Hdn Eq Em Es)
                as [L3 [I3 [HL3 Hmono]]].
              apply (IH d0 B P0 Reg r k0 L3 _ _ _ _ RL Disc I3).
              ** destruct X. constructor; auto. intros z Hz. cbn [dfn].
                 destruct (tx_disc0 z Hz) as [H|H]; [apply HL3, H|right; apply Hmono, H].
              ** rewrite <- Eqq. unfold pot. rewrite fsum_prop_min. cbn [length] in Hf. lia.
        -- apply Nat.eqb_neq in Eq.
           pose proof (step_pop_stay g e d0 B Reg r k0 L new fr vs' ln s kn I Hc Hdn Eq) as I2.
           apply (IH d0 B P0 Reg r k0 L _ _ _ _ RL Disc I2 X).
           rewrite <- Eqq. unfold pot. rewrite fsum_prop_min. cbn [length] in Hf. lia.
      * destruct (is_zero (dfn s child)) eqn:Ez.
        -- apply is_zero_true in Ez.
           pose proof (step_discover g e d0 B Reg r k0 L new fr vs' ln s child rest I Hc Ez) as I2.
           assert (HcL : ~ In child L).
           { intros Hin. destruct (LSorted_fin _ _ _ (inv_sorted I) Hin) as [k [E1 E2]].
             rewrite Ez in E1. inversion E1. lia. }
           assert (HcD2 : ~ In child Disc).
           { intros Hin. destruct (tx_disc _ _ _ _ _ _ X child Hin) as [H|H]; [contradiction|].
             rewrite Ez in H. discriminate. }
           assert (HcRL : In child RL).
           { apply (tx_reg _ _ _ _ _ _ X), (inv_Lreg I2). left. reflexivity. }
           assert (X2 : TX CG Reg RL (child :: Disc) (child :: L) (discover child s)).
           { destruct X. constructor; auto.
             - constructor; assumption.
             - intros z [<-|Hz]; [exact HcRL|apply tx_dinc0, Hz].
             - intros z [<-|Hz]; [left; left; reflexivity|].
               destruct (tx_disc0 z Hz) as [H|H]; [left; right; exact H|right].
               cbn [discover dfn]. rewrite upd_other; [exact H|]. intros ->. contradiction. }
           assert (HcD' : cost (child :: Disc) <= cost RL).
           { apply cost_incl; [apply (tx_dnd _ _ _ _ _ _ X2)|apply (tx_dinc _ _ _ _ _ _ X2)]. }
           apply (IH d0 B P0 Reg r k0 _ _ _ _ _ RL (child :: Disc) I2 X2).
           rewrite <- Eqq. unfold pot. rewrite !fsum_cons. cbn [new_frame fcur].
           rewrite cost_cons in *. unfold wt in *. cbn [length] in Hf. lia.
        -- apply is_zero_false in Ez. destruct (dfn_le_nat (dfn s child) (fmin fr)) eqn:El.
           ++ destruct (dfn s child) as [k|] eqn:Ek; [|discriminate].
              cbn [dfn_le_nat] in El. apply Nat.leb_le in El.
              assert (Hk0 : k <> 0) by (intros ->; apply Ez; reflexivity).
              pose proof (step_scan_lower g e d0 B Reg r k0 L new fr vs' ln s child rest k I Hc Ek Hk0 El) as I2.
              apply (IH d0 B P0 Reg r k0 _ _ _ _ _ RL Disc I2 X).
              rewrite <- Eqq. unfold pot. rewrite fsum_cons. cbn [fcur]. cbn [length] in Hf. lia.
           ++ pose proof (step_scan_skip g e d0 B Reg r k0 L new fr vs' ln s child rest I Hc Ez El) as I2.
              apply (IH d0 B P0 Reg r k0 _ _ _ _ _ RL Disc I2 X).
              rewrite <- Eqq. unfold pot. rewrite fsum_cons. cbn [fcur]. cbn [length] in Hf. lia.
Qed.
End Total.

(* ------------------------------------------------------------------ top level *)
Definition graph_wf (g : graph) : Prop := forall a b, In b (succs g a) -> b < length g.

Lemma cost_seq : forall g, cost g (seq 0 (length g)) = length (concat g) + length g.
Proof.
  unfold cost, wt, succs. induction g as [|a g IH]; [reflexivity|].
  cbn [length seq map concat]. rewrite <- seq_shift, map_map. cbn [nth].
  rewrite app_length. change (list_sum (S (length a) :: ?l)) with (S (length a) + list_sum l).
  rewrite IH. lia.
Qed.

Theorem build_total : forall g e, graph_wf g -> e < length g -> exists w, build g e = Some w.
Proof.
  intros g e Hwf He. unfold build, build_fuel.
  assert (I0 : Inv g e (dfn st0) (stk st0) (fun x => x < length g) e (num st0) [e] []
                   [new_frame g e (discover e st0)] [] (discover e st0)).
  { apply Inv_init; auto.
    - intros a b Ha Hb. left. apply (Hwf a b Hb).
    - intros y Hy. exfalso. apply Hy. reflexivity.
    - constructor. }
  set (RL := seq 0 (length g)).
  assert (HeRL : incl [e] RL) by (intros z [<-|[]]; apply in_seq; lia).
  assert (X0 : TX g (cost g RL) (fun x => x < length g) RL [e] [e] (discover e st0)).
  { constructor.
    - apply seq_NoDup.
    - intros x Hx. apply in_seq. lia.
    - lia.
    - constructor; [intros []|constructor].
    - exact HeRL.
    - intros x Hx. left. exact Hx. }
  destruct (loop_total g e (cost g RL) (fuel_for g) _ _ [] _ _ _ _ [] _ _ _ RL [e] I0 X0) as [s' [p' Hrun]].
  { assert (Hce : cost g [e] <= cost g RL) by (apply cost_incl; [constructor; [intros []|constructor]|exact HeRL]).
    unfold pot. rewrite fsum_cons. cbn [new_frame fcur]. unfold fsum. cbn [map list_sum].
    rewrite cost_cons in *. unfold cost at 1 in Hce. unfold cost at 2. cbn [map list_sum] in *. unfold wt in *.
    unfold RL in *. rewrite cost_seq in *. rewrite seq_length. unfold fuel_for.
    set (n := length g) in *. set (E := length (concat g)) in *. set (k := length (succs g e)) in *.
    assert (Hn : 1 <= n) by lia.
    assert (Hq : (n - 1) * (E + n + 2) + (E + n + 2) = n * (E + n + 2)).
    { destruct n as [|n']; [lia|]. cbn [Nat.sub]. rewrite Nat.sub_0_r. cbn [Nat.mul]. lia. }
    assert (Hr : n * (E + n + 2) <= (n + 2) * (2 * n + E + 3)) by nia.
    lia. }
  cbn [app] in Hrun. rewrite Hrun. exists p'. reflexivity.
Qed.

(* the well-formedness theorem without hypothesis on the fuel *)
Theorem build_total_WF : forall g e, graph_wf g -> e < length g ->
  exists w, build g e = Some w /\ wto_ok g e w = true /\
            WF g e w (nesting w) (seq 0 (length g) ++ flat w).
Proof.
  intros g e Hwf He. destruct (build_total g e Hwf He) as [w Hw]. exists w.
  split; [exact Hw|]. split; [apply build_ok, Hw|apply build_WF, Hw].
Qed.
