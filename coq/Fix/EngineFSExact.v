(* EngineFSExact.v — property C06 for the engine model over finite sets, WITHOUT a checker:
   when nothing is extrapolated (join as widening, meet as narrowing, exact images) every
   terminated run of the engine on a well-formed weak topological ordering returns exactly
   the least solution of the flow equations, i.e. exactly the states that reach each block.
   "⊆" is Fix/EngineBelow.v (no state is invented), "⊇" is Fix/EngineSound.v (no state is
   lost).  All CFGs, start blocks (also strictly inside loops), delays, descending counts, fuels, assumption maps. *)
From Coq Require Import List Bool Arith NArith Lia.
From CrabV Require Import Fix.Wto Fix.WtoCheck Fix.WtoSound Fix.WtoRoot Fix.Engine Fix.EngineBelow Fix.EngineCheck
     Fix.Kleene Fix.KleeneSound Fix.EngineFS Fix.EngineFSSound Fix.EngineRel Fix.EngineSound.
Import ListNotations.

Lemma smem_ext : forall a b, (forall s, smem s a = true <-> smem s b = true) -> a = b.
Proof.
  intros a b H. apply N.bits_inj. intros s. specialize (H s). unfold smem in H.
  destruct (N.testbit a s), (N.testbit b s); try reflexivity.
  - symmetry. apply H. reflexivity.
  - apply H. reflexivity.
Qed.

Section ExactW.
  Variable S : N.
  Variable F : flow.
  Variable w : wto.
  Variables delay desc fuel rounds : nat.
  Variable use_asm : bool.
  Variable t : tabs.
  Hypothesis range : in_range F.
  Hypothesis LFP : lfp F rounds = Some t.
  (* the assumption map is consulted iff it is given (as the harness does) *)
  Hypothesis asm_used : use_asm = false -> forall n, f_asm F n = None.
  (* the initial states satisfy the assumption of the start block *)
  Hypothesis init_below : sub (f_init F) (fst t (f_entry F)).
  (* w: distinct nodes, closed under successors, edges forward or back to an enclosing head *)
  Hypothesis w_nodup : NoDup (flat w).
  Hypothesis w_edges : forall n p, In p (f_preds F n) -> In p (flat w) -> In n (flat w) /\ lok w p n.
  (* the start block is in w (anywhere, also strictly inside cycles) *)
  Hypothesis w_entry : In (f_entry F) (flat w).

  Theorem fs_engine_is_reach e :
    fs_engine S F w delay desc use_asm fuel = Some e ->
    forall n s, n < f_blocks F ->
      (smem s (e_pre N e n) = true <-> ReachPre F n s) /\
      (smem s (e_post N e n) = true <-> ReachPost F n s).
  Proof.
    intros RUN n s L.
    pose proof LFP as LFP'. unfold lfp in LFP'.
    destruct (solvesb F _) eqn:SB; inversion LFP' as [ET]. clear LFP'.
    pose proof (solvesb_solves F _ SB) as SOL. rewrite ET in SOL.
    destruct (lfp_is_reach F rounds _ range LFP) as [LR1 LR2].
    assert (IB' : sub (f_init F) (Lpre F t (f_entry F))).
    { unfold Lpre. destruct range as (RE & _). destruct (Nat.ltb_spec (f_entry F) (f_blocks F)); [auto|lia]. }
    destruct (fs_engine_below S F w delay desc fuel use_asm t range SOL asm_used e IB' RUN n) as [B1 B2].
    unfold Lpre, Lpost in B1, B2. destruct (Nat.ltb_spec n (f_blocks F)); [|lia].
    unfold fs_engine in RUN.
    destruct (engine_sound N N fgamma (fs_ops S) (fjoin_l S) (fjoin_r S) (fmeet_s S) (fmeet_s S) (fleq_s S)
                (fun n a => image (f_rel F n) a) (fstep F) (fanalyze_s F)
                (f_preds F) (nest_of w) (f_entry F) delay desc use_asm (f_asm F) (finit F)
                (f_init F) (fun s H => H) fuel w w_nodup w_edges w_entry e RUN) as [C1 C2].
    destruct (reach_to_R F use_asm asm_used) as [T1 T2].
    split; split.
    - intros X. apply LR1; auto. apply (proj1 (sub_spec _ _) B1); auto.
    - intros R. apply (C1 n s). apply T1; auto.
    - intros X. apply LR2; auto. apply (proj1 (sub_spec _ _) B2); auto.
    - intros R. apply (C2 n s). apply T2; auto.
  Qed.

  (* the tables of the engine ARE the least solution *)
  Theorem fs_engine_is_lfp e :
    fs_engine S F w delay desc use_asm fuel = Some e ->
    forall n, n < f_blocks F -> e_pre N e n = fst t n /\ e_post N e n = snd t n.
  Proof.
    intros RUN n L.
    destruct (lfp_is_reach F rounds _ range LFP) as [LR1 LR2].
    split; apply smem_ext; intros s; destruct (fs_engine_is_reach e RUN n s L) as [E1 E2].
    - rewrite E1. symmetry. apply LR1, L.
    - rewrite E2. symmetry. apply LR2, L.
  Qed.
End ExactW.

(* the ordering computed by the model of wto.hpp (from any root e0, e.g. the CFG entry), for a
   graph whose successor lists contain the edges of the flow problem, and an analysis that
   starts at any block of that ordering: every side condition on the ordering is discharged
   by property C07 *)
Theorem fs_engine_build_is_lfp :
  forall S F g w delay desc fuel rounds use_asm t,
  in_range F -> lfp F rounds = Some t ->
  (use_asm = false -> forall n, f_asm F n = None) ->
  sub (f_init F) (fst t (f_entry F)) ->
  (forall n p, In p (f_preds F n) -> In n (succs g p)) ->
  forall e0, build g e0 = Some w -> In (f_entry F) (flat w) ->
  forall e, fs_engine S F w delay desc use_asm fuel = Some e ->
  forall n, n < f_blocks F ->
    e_pre N e n = fst t n /\ e_post N e n = snd t n /\
    (forall s, smem s (e_pre N e n) = true <-> ReachPre F n s) /\
    (forall s, smem s (e_post N e n) = true <-> ReachPost F n s).
Proof.
  intros S F g w delay desc fuel rounds use_asm t RG LFP AU IB SUC e0 BU IE e RUN n L.
  pose proof (build_WF _ _ _ BU) as W.
  assert (ED : forall n p, In p (f_preds F n) -> In p (flat w) -> In n (flat w) /\ lok w p n).
  { intros m p He Hp.
    pose proof (proj1 (wf_reach _ _ _ _ _ W p) Hp) as RP.
    pose proof (SUC m p He) as HS. split.
    - apply (wf_reach _ _ _ _ _ W). apply reach_step with p; assumption.
    - exact (wf_edge _ _ _ _ _ W p m RP HS). }
  destruct (fs_engine_is_lfp S F w delay desc fuel rounds use_asm t RG LFP AU IB
              (wf_nodup _ _ _ _ _ W) ED IE e RUN n L) as [E1 E2].
  split; [exact E1|]. split; [exact E2|].
  split; intros s;
    destruct (fs_engine_is_reach S F w delay desc fuel rounds use_asm t RG LFP AU IB
                (wf_nodup _ _ _ _ _ W) ED IE e RUN n s L) as [X1 X2]; assumption.
Qed.

(* non-vacuity: the loop  a <-> b (b: s -> s+1)  with exit c, started at its head with {0} *)
Example fs_engine_build_is_lfp_example :
  let F := mkF 3 (fun n => match n with 0 => [1] | 1 => [0] | 2 => [0] | _ => [] end)
               (fun n => match n with
                         | 0 | 2 => [(0,0);(1,1);(2,2);(3,3)]%N
                         | 1 => [(0,1);(1,2);(2,3)]%N | _ => [] end)
               0 1%N (fun _ => None) in
  let g := [[1;2];[0];[]] in
  let w := [Cycle 0 [Vertex 1]; Vertex 2] in
  in_range F /\ (forall n p, In p (f_preds F n) -> In n (succs g p)) /\
  build g (f_entry F) = Some w /\
  exists t e, lfp F 14 = Some t /\ sub (f_init F) (fst t (f_entry F)) /\
    fs_engine 4 F w 2 1 false 60 = Some e /\
    e_pre N e 2 = 15%N /\ forall s, smem s 15%N = true <-> ReachPre F 2 s.
Proof.
  cbv zeta.
  set (F := mkF 3 (fun n => match n with 0 => [1] | 1 => [0] | 2 => [0] | _ => [] end)
               (fun n => match n with
                         | 0 | 2 => [(0,0);(1,1);(2,2);(3,3)]%N
                         | 1 => [(0,1);(1,2);(2,3)]%N | _ => [] end)
               0 1%N (fun _ => None)).
  assert (RG : in_range F).
  { split; [cbn; lia|]. split.
    - intros n p. cbn. destruct n as [|[|[|n]]]; cbn; intros H; try lia; destruct H as [<-|[]]; lia.
    - intros n H. cbn in H. destruct n as [|[|[|n]]]; try lia. cbn. auto. }
  assert (SUC : forall n p, In p (f_preds F n) -> In n (succs [[1;2];[0];[]] p)).
  { intros n p. cbn. destruct n as [|[|[|n]]]; cbn; intros H; try contradiction;
      destruct H as [<-|[]]; cbn; auto. }
  assert (BU : build [[1;2];[0];[]] (f_entry F) = Some [Cycle 0 [Vertex 1]; Vertex 2]).
  { vm_compute; reflexivity. }
  assert (LF : exists t, lfp F 14 = Some t /\ sub (f_init F) (fst t (f_entry F))).
  { eexists. split; vm_compute; reflexivity. }
  assert (RUN : exists e, fs_engine 4 F [Cycle 0 [Vertex 1]; Vertex 2] 2 1 false 60 = Some e /\ e_pre N e 2 = 15%N).
  { eexists. split; vm_compute; reflexivity. }
  destruct LF as [t [LF IB]]. destruct RUN as [e [RUN E2]].
  split; [exact RG|]. split; [exact SUC|]. split; [exact BU|].
  exists t, e. split; [exact LF|]. split; [exact IB|]. split; [exact RUN|]. split; [exact E2|].
  intros s. rewrite <- E2.
  destruct (fs_engine_build_is_lfp 4 F [[1;2];[0];[]] _ 2 1 60 14 false t RG LF (fun _ _ => eq_refl) IB
              SUC _ BU (or_introl eq_refl) e RUN 2) as [_ [_ [X _]]]; [cbn; lia|].
  exact (X s).
Qed.

(* the analysis may start strictly inside a cycle: at the body vertex 1 of (0 1) the initial
   value is joined with what comes back around the loop, and the result is exactly the set
   of reaching states (the engine model before the repair of the C++ kept pre(1) = init and
   lost the states 1, 2, 3) *)
Example entry_inside_cycle_exact_example :
  let F := mkF 2 (fun n => match n with 0 => [1] | 1 => [0] | _ => [] end)
               (fun n => match n with
                         | 0 => [(0,0);(1,1);(2,2);(3,3)]%N
                         | 1 => [(0,1);(1,2);(2,3)]%N | _ => [] end)
               1 1%N (fun _ => None) in
  let w := [Cycle 0 [Vertex 1]] in
  build [[1];[0]] 0 = Some w /\ entry_ok (f_entry F) w = false /\
  exists e, fs_engine 4 F w 2 1 false 60 = Some e /\
            e_pre N e 1 = 15%N /\ e_post N e 1 = 14%N /\ e_pre N e 0 = 14%N /\ e_post N e 0 = 14%N /\
            (forall n s, n < 2 -> (smem s (e_pre N e n) = true <-> ReachPre F n s) /\
                                  (smem s (e_post N e n) = true <-> ReachPost F n s)).
Proof.
  cbv zeta.
  set (F := mkF 2 (fun n => match n with 0 => [1] | 1 => [0] | _ => [] end)
               (fun n => match n with
                         | 0 => [(0,0);(1,1);(2,2);(3,3)]%N
                         | 1 => [(0,1);(1,2);(2,3)]%N | _ => [] end)
               1 1%N (fun _ => None)).
  assert (RG : in_range F).
  { split; [cbn; lia|]. split.
    - intros n p. cbn. destruct n as [|[|n]]; cbn; intros X; try contradiction; destruct X as [<-|[]]; lia.
    - intros n X. cbn in X. destruct n as [|[|n]]; try lia. cbn. auto. }
  assert (SUC : forall n p, In p (f_preds F n) -> In n (succs [[1];[0]] p)).
  { intros n p. cbn. destruct n as [|[|n]]; cbn; intros H; try contradiction;
      destruct H as [<-|[]]; cbn; auto. }
  assert (BU : build [[1];[0]] 0 = Some [Cycle 0 [Vertex 1]]) by (vm_compute; reflexivity).
  assert (LF : exists t, lfp F 14 = Some t /\ sub (f_init F) (fst t (f_entry F))).
  { eexists. split; vm_compute; reflexivity. }
  assert (RUN : exists e, fs_engine 4 F [Cycle 0 [Vertex 1]] 2 1 false 60 = Some e /\
            e_pre N e 1 = 15%N /\ e_post N e 1 = 14%N /\ e_pre N e 0 = 14%N /\ e_post N e 0 = 14%N).
  { eexists. split; [vm_compute; reflexivity|]. split; [vm_compute; reflexivity|].
    split; [vm_compute; reflexivity|]. split; vm_compute; reflexivity. }
  destruct LF as [t [LF IB]]. destruct RUN as [e [RUN [E1 [E2 [E3 E4]]]]].
  split; [exact BU|]. split; [vm_compute; reflexivity|].
  exists e. split; [exact RUN|]. split; [exact E1|]. split; [exact E2|]. split; [exact E3|]. split; [exact E4|].
  intros n s L.
  destruct (fs_engine_build_is_lfp 4 F [[1];[0]] _ 2 1 60 14 false t RG LF (fun _ _ => eq_refl) IB
              SUC 0 BU (or_intror (or_introl eq_refl)) e RUN n L) as [_ [_ [X Y]]].
  split; [exact (X s)|exact (Y s)].
Qed.

(* the claim "the tables of every run equal the least solution" needs the hypothesis that the
   start block occurs in the ordering: without it the claim is false (nothing is visited) *)
Theorem engine_statement_needs_wto_hypotheses :
  ~ (forall S F w delay desc use_asm fuel rounds e t,
       in_range F ->
       fs_engine S F w delay desc use_asm fuel = Some e -> lfp F rounds = Some t ->
       forall n, n < f_blocks F -> e_pre N e n = fst t n /\ e_post N e n = snd t n).
Proof.
  intros H.
  set (F := mkF 2 (fun n => match n with 0 => [1] | 1 => [0] | _ => [] end)
               (fun n => match n with
                         | 0 => [(0,0);(1,1);(2,2);(3,3)]%N
                         | 1 => [(0,1);(1,2);(2,3)]%N | _ => [] end)
               1 1%N (fun _ => None)).
  assert (RG : in_range F).
  { split; [cbn; lia|]. split.
    - intros n p. cbn. destruct n as [|[|n]]; cbn; intros X; try contradiction; destruct X as [<-|[]]; lia.
    - intros n X. cbn in X. destruct n as [|[|n]]; try lia. cbn. auto. }
  assert (RUN : exists e, fs_engine 4 F [] 2 1 false 60 = Some e /\ e_pre N e 1 = 1%N).
  { eexists. split; vm_compute; reflexivity. }
  assert (LF : exists t, lfp F 14 = Some t /\ fst t 1 = 15%N).
  { eexists. split; vm_compute; reflexivity. }
  destruct RUN as [e [RUN E1]]. destruct LF as [t [LF E2]].
  destruct (H 4%N F [] 2 1 false 60 14 e t RG RUN LF 1) as [X _]; [cbn; lia|].
  rewrite E1, E2 in X. discriminate.
Qed.
