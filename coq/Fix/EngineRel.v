(* EngineRel.v — tools for the soundness proof of the fixpoint engine (Fix/EngineSound.v):
   (1) order facts about weak topological orderings with distinct nodes: an ordering
       condition [lok] on a list of components restricts to its sub-lists and to the body
       of a cycle, and forbids edges from a later sibling to an earlier one;
   (2) the collecting semantics RELATIVE to a node set C: what reaches the nodes of C when
       the states leaving the nodes outside C are given by [Ext];
   (3) decomposition (Bekic): the semantics relative to C, restricted to C' ⊆ C, is
       included in the semantics relative to C' whose external inputs are the relative
       posts of C \ C';
   (4) the global collecting semantics of Fix/EngineCheck.v is included in the semantics
       relative to any successor-closed node set containing the entry, whatever [Ext]. *)
From Coq Require Import List Bool Arith Lia.
From CrabV Require Import Fix.Wto Fix.WtoCheck Fix.WtoSound Fix.Engine Fix.EngineBelow Fix.EngineCheck.
Import ListNotations.

(* ------------------------------------------------------------------ lists *)
Lemma nodup_app_disj : forall (a b : list nat) x, NoDup (a ++ b) -> In x a -> In x b -> False.
Proof.
  induction a as [|y a IH]; intros b x ND Ha Hb; [destruct Ha|].
  cbn [app] in ND. inversion ND as [|? ? Hn ND']; subst.
  destruct Ha as [->|Ha].
  - apply Hn. apply in_or_app. right. exact Hb.
  - exact (IH b x ND' Ha Hb).
Qed.
Lemma nodup_app_r : forall (a b : list nat), NoDup (a ++ b) -> NoDup b.
Proof.
  induction a as [|y a IH]; intros b ND; [exact ND|].
  cbn [app] in ND. inversion ND; subst. apply IH. assumption.
Qed.
Lemma nodup_app_left : forall (a b : list nat), NoDup (a ++ b) -> NoDup a.
Proof.
  induction a as [|y a IH]; intros b ND; [constructor|].
  cbn [app] in ND. inversion ND as [|? ? Hn ND']; subst. constructor.
  - intros H. apply Hn. apply in_or_app. left. exact H.
  - apply (IH b). exact ND'.
Qed.

Lemma before_in : forall l u v, before l u v -> In u l /\ In v l.
Proof.
  intros l u v [l1 [l2 [l3 ->]]]. split.
  - apply in_or_app. right. left. reflexivity.
  - apply in_or_app. right. right. apply in_or_app. right. left. reflexivity.
Qed.
Lemma before_cons : forall a l u v, before l u v -> before (a :: l) u v.
Proof. intros a l u v [l1 [l2 [l3 ->]]]. exists (a :: l1), l2, l3. reflexivity. Qed.
Lemma before_app_cases : forall x y u v, before (x ++ y) u v ->
  before x u v \/ (In u x /\ In v y) \/ before y u v.
Proof.
  induction x as [|a x IH]; intros y u v H.
  - right. right. exact H.
  - destruct H as [l1 [l2 [l3 E]]]. destruct l1 as [|b l1]; cbn [app] in E; inversion E as [[E1 E2]]; subst.
    + assert (Hv : In v (x ++ y)).
      { rewrite E2. apply in_or_app. right. left. reflexivity. }
      apply in_app_or in Hv. destruct Hv as [Hv|Hv].
      * left. apply in_split in Hv. destruct Hv as [m1 [m2 ->]]. exists [], m1, m2. reflexivity.
      * right. left. split; [left; reflexivity|exact Hv].
    + destruct (IH y u v) as [H|[[H1 H2]|H]].
      * exists l1, l2, l3. exact E2.
      * left. apply before_cons, H.
      * right. left. split; [right; exact H1|exact H2].
      * right. right. exact H.
Qed.

(* ------------------------------------------------------------------ components *)
Lemma encl_c_in : forall c h u, encl_c c h u -> In h (cnodes c) /\ In u (cnodes c).
Proof.
  intros c h u H. induction H as [h b u Hu|h' b c h u Hc _ [IH1 IH2]].
  - split; [rewrite cnodes_cycle; left; reflexivity|exact Hu].
  - rewrite cnodes_cycle. split; right; apply in_flat; exists c; split; assumption.
Qed.
Lemma encl_in : forall w h u, encl w h u -> In h (flat w) /\ In u (flat w).
Proof.
  intros w h u [c [Hc H]]. apply encl_c_in in H. destruct H as [H1 H2].
  split; apply in_flat; exists c; split; assumption.
Qed.
Lemma encl_app_cases : forall a b h u, encl (a ++ b) h u -> encl a h u \/ encl b h u.
Proof.
  intros a b h u [c [Hc H]]. apply in_app_or in Hc.
  destruct Hc as [Hc|Hc]; [left|right]; exists c; split; assumption.
Qed.

Lemma comp_member_cycle : forall x h body,
  comp_member x (Cycle h body) = Nat.eqb h x || existsb (comp_member x) body.
Proof. reflexivity. Qed.
Lemma comp_member_In : forall x c, comp_member x c = true <-> In x (cnodes c).
Proof.
  intros x c. induction c as [n|h b IH] using comp_ind'.
  - cbn [comp_member cnodes In]. rewrite Nat.eqb_eq. tauto.
  - rewrite comp_member_cycle, cnodes_cycle, orb_true_iff, Nat.eqb_eq, existsb_exists.
    cbn [In]. rewrite in_flat. rewrite Forall_forall in IH. split.
    + intros [H|[c [Hc H]]]; [left; exact H|right; exists c; split; [exact Hc|apply IH; assumption]].
    + intros [H|[c [Hc H]]]; [left; exact H|right; exists c; split; [exact Hc|apply IH; assumption]].
Qed.

(* ------------------------------------------------------------------ entry_ok *)
Lemma entry_ok_c_cycle : forall e h body,
  entry_ok_c e (Cycle h body) = head_ok e (Cycle h body) h && forallb (entry_ok_c e) body.
Proof. reflexivity. Qed.
Lemma entry_ok_forallb : forall e w, entry_ok e w = forallb (entry_ok_c e) w.
Proof.
  intros e. induction w as [|c r IH]; [reflexivity|]. cbn [entry_ok forallb]. rewrite IH. reflexivity.
Qed.
Lemma entry_ok_c_notin : forall e c, ~ In e (cnodes c) -> entry_ok_c e c = true.
Proof.
  intros e c. induction c as [n|h body IH] using comp_ind'; intros N; [reflexivity|].
  rewrite entry_ok_c_cycle. apply andb_true_iff. split.
  - unfold head_ok. destruct (comp_member e (Cycle h body)) eqn:M; [|reflexivity].
    exfalso. apply N. apply comp_member_In. exact M.
  - apply forallb_forall. intros c Hc. rewrite Forall_forall in IH. apply (IH c Hc).
    intros X. apply N. rewrite cnodes_cycle. right. apply in_flat. exists c. split; assumption.
Qed.
Lemma entry_ok_list_notin : forall e l, ~ In e (flat l) -> entry_ok e l = true.
Proof.
  intros e l N. rewrite entry_ok_forallb. apply forallb_forall. intros c Hc.
  apply entry_ok_c_notin. intros X. apply N. apply in_flat. exists c. split; assumption.
Qed.
(* an ordering that begins with the entry (as a vertex or as the head of a cycle) *)
Definition starts_with (e : nat) (w : list comp) : Prop :=
  exists c r, w = c :: r /\ (c = Vertex e \/ exists body, c = Cycle e body).
Lemma starts_with_hd : forall e w, hd_error (flat w) = Some e <-> starts_with e w.
Proof.
  intros e w. split.
  - intros H. destruct w as [|c r]; [discriminate|]. exists c, r. split; [reflexivity|].
    destruct c as [n|h body].
    + cbn in H. inversion H. left. reflexivity.
    + cbn [flat] in H. rewrite cnodes_cycle in H. cbn in H. inversion H. right. exists body. reflexivity.
  - intros [c [r [-> [->|[body ->]]]]]; reflexivity.
Qed.
Lemma starts_with_in : forall e w, starts_with e w -> In e (flat w).
Proof.
  intros e w H. apply starts_with_hd in H. destruct (flat w) as [|x l]; [discriminate|].
  inversion H. left. reflexivity.
Qed.
Lemma starts_with_entry_ok : forall e w, NoDup (flat w) -> starts_with e w -> entry_ok e w = true.
Proof.
  intros e w ND [c [r [-> SH]]]. cbn [entry_ok flat] in *. apply andb_true_iff. split.
  - destruct SH as [->|[body ->]]; [reflexivity|].
    rewrite entry_ok_c_cycle. apply andb_true_iff. split.
    + unfold head_ok. rewrite Nat.eqb_refl. apply orb_true_r.
    + rewrite <- entry_ok_forallb. apply entry_ok_list_notin.
      rewrite cnodes_cycle in ND. apply nodup_app_left in ND. inversion ND. assumption.
  - apply entry_ok_list_notin. intros X.
    apply (nodup_app_disj _ _ e ND); [|exact X].
    destruct SH as [->|[body ->]]; [left; reflexivity|rewrite cnodes_cycle; left; reflexivity].
Qed.

(* ------------------------------------------------------------------ restriction of lok *)
Section Order.
  Variable preds : nat -> list nat.

  (* every edge between two nodes of the list respects the ordering *)
  Definition eok (l : list comp) : Prop :=
    forall p n, In p (flat l) -> In n (flat l) -> In p (preds n) -> lok l p n.

  Lemma lok_app_back : forall a b p n, NoDup (flat (a ++ b)) ->
    In p (flat b) -> In n (flat a) -> lok (a ++ b) p n -> False.
  Proof.
    intros a b p n ND Hp Hn L. rewrite flat_app in ND. destruct L as [L|L].
    - rewrite flat_app in L. apply before_app_cases in L. destruct L as [L|[[L _]|L]].
      + apply before_in in L. destruct L as [L _]. exact (nodup_app_disj _ _ _ ND L Hp).
      + exact (nodup_app_disj _ _ _ ND L Hp).
      + apply before_in in L. destruct L as [_ L]. exact (nodup_app_disj _ _ _ ND Hn L).
    - apply encl_app_cases in L. destruct L as [L|L]; apply encl_in in L; destruct L as [L1 L2].
      + exact (nodup_app_disj _ _ _ ND L2 Hp).
      + exact (nodup_app_disj _ _ _ ND Hn L1).
  Qed.
  Lemma lok_app_left : forall a b p n, NoDup (flat (a ++ b)) ->
    In p (flat a) -> In n (flat a) -> lok (a ++ b) p n -> lok a p n.
  Proof.
    intros a b p n ND Hp Hn L. rewrite flat_app in ND. destruct L as [L|L].
    - left. rewrite flat_app in L. apply before_app_cases in L. destruct L as [L|[[_ L]|L]].
      + exact L.
      + exfalso. exact (nodup_app_disj _ _ _ ND Hn L).
      + exfalso. apply before_in in L. destruct L as [L _]. exact (nodup_app_disj _ _ _ ND Hp L).
    - right. apply encl_app_cases in L. destruct L as [L|L]; [exact L|].
      exfalso. apply encl_in in L. destruct L as [L _]. exact (nodup_app_disj _ _ _ ND Hn L).
  Qed.
  Lemma lok_app_right : forall a b p n, NoDup (flat (a ++ b)) ->
    In p (flat b) -> In n (flat b) -> lok (a ++ b) p n -> lok b p n.
  Proof.
    intros a b p n ND Hp Hn L. rewrite flat_app in ND. destruct L as [L|L].
    - left. rewrite flat_app in L. apply before_app_cases in L. destruct L as [L|[[L _]|L]].
      + exfalso. apply before_in in L. destruct L as [L _]. exact (nodup_app_disj _ _ _ ND L Hp).
      + exfalso. exact (nodup_app_disj _ _ _ ND L Hp).
      + exact L.
    - right. apply encl_app_cases in L. destruct L as [L|L]; [|exact L].
      exfalso. apply encl_in in L. destruct L as [L _]. exact (nodup_app_disj _ _ _ ND L Hn).
  Qed.

  Lemma eok_app : forall a b, NoDup (flat (a ++ b)) -> eok (a ++ b) ->
    eok a /\ eok b /\ (forall p n, In p (flat b) -> In n (flat a) -> ~ In p (preds n)).
  Proof.
    intros a b ND E. split; [|split].
    - intros p n Hp Hn He. apply (lok_app_left a b p n ND Hp Hn).
      apply E; [rewrite flat_app; apply in_or_app; left; exact Hp
               |rewrite flat_app; apply in_or_app; left; exact Hn|exact He].
    - intros p n Hp Hn He. apply (lok_app_right a b p n ND Hp Hn).
      apply E; [rewrite flat_app; apply in_or_app; right; exact Hp
               |rewrite flat_app; apply in_or_app; right; exact Hn|exact He].
    - intros p n Hp Hn He. apply (lok_app_back a b p n ND Hp Hn).
      apply E; [rewrite flat_app; apply in_or_app; right; exact Hp
               |rewrite flat_app; apply in_or_app; left; exact Hn|exact He].
  Qed.
  Lemma eok_cons : forall c r, NoDup (flat (c :: r)) -> eok (c :: r) ->
    eok [c] /\ eok r /\ (forall p n, In p (flat r) -> In n (cnodes c) -> ~ In p (preds n)).
  Proof.
    intros c r ND E. destruct (eok_app [c] r ND E) as [E1 [E2 E3]].
    split; [exact E1|split; [exact E2|]]. intros p n Hp Hn. apply E3; [exact Hp|].
    rewrite flat_single. exact Hn.
  Qed.

  Lemma eok_cycle : forall h body, NoDup (h :: flat body) -> eok [Cycle h body] -> eok body.
  Proof.
    intros h body ND E p n Hp Hn He.
    inversion ND as [|? ? Hh ND']; subst.
    assert (L : lok [Cycle h body] p n).
    { apply E; [rewrite flat_single, cnodes_cycle; right; exact Hp
               |rewrite flat_single, cnodes_cycle; right; exact Hn|exact He]. }
    destruct L as [L|L].
    - left. rewrite flat_single, cnodes_cycle in L. change (h :: flat body) with ([h] ++ flat body) in L.
      apply before_app_cases in L. destruct L as [L|[[L _]|L]].
      + exfalso. apply before_in in L. destruct L as [[<-|[]] _]. exact (Hh Hp).
      + exfalso. destruct L as [<-|[]]. exact (Hh Hp).
      + exact L.
    - right. destruct L as [c [[<-|[]] L]]. inversion L; subst.
      + exfalso. exact (Hh Hn).
      + exists c. split; assumption.
  Qed.
  Lemma eok_vertex : forall n, eok [Vertex n] -> ~ In n (preds n).
  Proof.
    intros n E He.
    assert (L : lok [Vertex n] n n).
    { apply E; [left; reflexivity|left; reflexivity|exact He]. }
    destruct L as [L|L].
    - destruct L as [l1 [l2 [l3 L]]]. cbn in L.
      destruct l1 as [|a l1]; cbn [app] in L; inversion L as [[L1 L2]].
      + destruct l2; discriminate.
      + destruct l1; discriminate.
    - destruct L as [c [[<-|[]] L]]. inversion L.
  Qed.

  (* the analysis entry occurs at top level: as a vertex or as the head of a cycle *)
  Lemma entry_split : forall entry w, entry_ok entry w = true -> In entry (flat w) ->
    exists w1 c w2, w = w1 ++ c :: w2 /\ ~ In entry (flat w1) /\
                    (c = Vertex entry \/ exists body, c = Cycle entry body).
  Proof.
    intros entry. induction w as [|c r IH]; intros OK Hin; [destruct Hin|].
    cbn [entry_ok] in OK. apply andb_true_iff in OK. destruct OK as [O1 O2].
    destruct (in_dec Nat.eq_dec entry (cnodes c)) as [Hc|Hc].
    - exists [], c, r. split; [reflexivity|]. split; [intros []|].
      destruct c as [n|h body].
      + left. destruct Hc as [->|[]]. reflexivity.
      + right. exists body. cbn [entry_ok_c] in O1. apply andb_true_iff in O1. destruct O1 as [O1 _].
        unfold head_ok in O1. apply (proj2 (comp_member_In entry (Cycle h body))) in Hc.
        rewrite Hc in O1. cbn [negb orb] in O1. apply Nat.eqb_eq in O1. subst h. reflexivity.
    - cbn [flat] in Hin. apply in_app_or in Hin. destruct Hin as [Hin|Hin]; [contradiction|].
      destruct (IH O2 Hin) as [w1 [c' [w2 [E [N1 N2]]]]].
      exists (c :: w1), c', w2. split; [rewrite E; reflexivity|]. split; [|exact N2].
      cbn [flat]. intros H. apply in_app_or in H. destruct H as [H|H]; contradiction.
  Qed.

  (* the first top-level component that contains a given node *)
  Lemma entry_split_any : forall entry w, In entry (flat w) ->
    exists w1 c w2, w = w1 ++ c :: w2 /\ ~ In entry (flat w1) /\ In entry (cnodes c).
  Proof.
    intros entry. induction w as [|c r IH]; intros Hin; [destruct Hin|].
    destruct (in_dec Nat.eq_dec entry (cnodes c)) as [Hc|Hc].
    - exists [], c, r. split; [reflexivity|]. split; [intros []|exact Hc].
    - cbn [flat] in Hin. apply in_app_or in Hin. destruct Hin as [Hin|Hin]; [contradiction|].
      destruct (IH Hin) as [w1 [c' [w2 [E [N1 N2]]]]].
      exists (c :: w1), c', w2. split; [rewrite E; reflexivity|]. split; [|exact N2].
      cbn [flat]. intros H. apply in_app_or in H. destruct H as [H|H]; contradiction.
  Qed.
End Order.

(* ------------------------------------------------------------------ relative semantics *)
Section Rel.
  Variable A : Type.
  Variable State : Type.
  Variable gamma : A -> State -> Prop.
  Variable bstep : nat -> State -> State -> Prop.
  Variable preds : nat -> list nat.
  Variable entry : nat.
  Variable use_asm : bool.
  Variable asm : nat -> option A.
  Variable Init : State -> Prop.

  Notation asm_holds := (asm_holds A State gamma use_asm asm).
  Notation RPre := (RPre A State gamma bstep preds entry use_asm asm Init).
  Notation RPost := (RPost A State gamma bstep preds entry use_asm asm Init).

  (* states entering / leaving the nodes of C, given the states [Ext p] leaving each node p
     outside C *)
  Inductive RRpre (C : list nat) (Ext : nat -> State -> Prop) : nat -> State -> Prop :=
  | RR_init s : In entry C -> Init s -> asm_holds entry s -> RRpre C Ext entry s
  | RR_out n p s : In n C -> In p (preds n) -> ~ In p C -> Ext p s -> asm_holds n s -> RRpre C Ext n s
  | RR_in n p s : In n C -> In p (preds n) -> In p C -> RRpost C Ext p s -> asm_holds n s -> RRpre C Ext n s
  with RRpost (C : list nat) (Ext : nat -> State -> Prop) : nat -> State -> Prop :=
  | RR_step n s s' : RRpre C Ext n s -> bstep n s s' -> RRpost C Ext n s'.

  Scheme RRpre_min := Minimality for RRpre Sort Prop
    with RRpost_min := Minimality for RRpost Sort Prop.
  Combined Scheme RR_mutind from RRpre_min, RRpost_min.

  Lemma RRpre_in C Ext n s : RRpre C Ext n s -> In n C.
  Proof. intros H. destruct H; assumption. Qed.
  Lemma RRpost_in C Ext n s : RRpost C Ext n s -> In n C.
  Proof. intros H. destruct H as [n s s' H _]. exact (RRpre_in _ _ _ _ H). Qed.

  (* decomposition *)
  Lemma RR_decomp C C' (E E' : nat -> State -> Prop) :
    (forall x, In x C' -> In x C) ->
    (forall m p s, In m C' -> In p (preds m) -> In p C -> ~ In p C' -> RRpost C E p s -> E' p s) ->
    (forall m p s, In m C' -> In p (preds m) -> ~ In p C -> E p s -> E' p s) ->
    (forall n s, RRpre C E n s -> In n C' -> RRpre C' E' n s) /\
    (forall n s, RRpost C E n s -> In n C' -> RRpost C' E' n s).
  Proof.
    intros SUB H2 H3.
    assert (G : (forall n s, RRpre C E n s -> RRpre C E n s /\ (In n C' -> RRpre C' E' n s)) /\
                (forall n s, RRpost C E n s -> RRpost C E n s /\ (In n C' -> RRpost C' E' n s))).
    { apply (RR_mutind C E (fun n s => RRpre C E n s /\ (In n C' -> RRpre C' E' n s))
                           (fun n s => RRpost C E n s /\ (In n C' -> RRpost C' E' n s))).
      - intros s I1 I2 I3. split; [apply RR_init; assumption|].
        intros I4. apply RR_init; assumption.
      - intros n p s I1 I2 I3 I4 I5. split; [eapply RR_out; eauto|].
        intros I6. refine (RR_out C' E' n p s I6 I2 _ _ I5).
        + intros X. apply I3. apply SUB. exact X.
        + apply (H3 n p s); assumption.
      - intros n p s I1 I2 I3 _ [Q1 Q2] I5. split; [eapply RR_in; eauto|].
        intros I6. destruct (in_dec Nat.eq_dec p C') as [D|D].
        + exact (RR_in C' E' n p s I6 I2 D (Q2 D) I5).
        + refine (RR_out C' E' n p s I6 I2 D _ I5). apply (H2 n p s); assumption.
      - intros n s s' _ [P1 P2] B. split; [eapply RR_step; eauto|].
        intros I. apply RR_step with s; auto. }
    destruct G as [G1 G2]. split; intros n s R; [apply (G1 n s R)|apply (G2 n s R)].
  Qed.

  (* monotonicity in the external inputs *)
  Lemma RR_mono C (E E' : nat -> State -> Prop) :
    (forall m p s, In m C -> In p (preds m) -> ~ In p C -> E p s -> E' p s) ->
    (forall n s, RRpre C E n s -> RRpre C E' n s) /\ (forall n s, RRpost C E n s -> RRpost C E' n s).
  Proof.
    intros H.
    destruct (RR_decomp C C E E' (fun x I => I)) as [G1 G2].
    - intros m p s _ _ I N. contradiction.
    - exact H.
    - split; intros n s R; [apply G1|apply G2]; auto;
        [exact (RRpre_in _ _ _ _ R)|exact (RRpost_in _ _ _ _ R)].
  Qed.

  (* the global semantics is the semantics relative to a closed node set *)
  Lemma R_global_rel C (E : nat -> State -> Prop) :
    In entry C -> (forall n p, In p (preds n) -> In p C -> In n C) ->
    (forall n s, RPre n s -> RRpre C E n s) /\ (forall n s, RPost n s -> RRpost C E n s).
  Proof.
    intros IE CL.
    apply (R_mutind A State gamma bstep preds entry use_asm asm Init
             (fun n s _ => RRpre C E n s) (fun n s _ => RRpost C E n s)).
    - intros s I AH. apply RR_init; assumption.
    - intros n p s I _ R AH. pose proof (RRpost_in _ _ _ _ R) as IP.
      apply RR_in with p; auto. apply (CL n p); assumption.
    - intros n s s' _ R B. apply RR_step with s; assumption.
  Qed.
End Rel.
