(* EngineFSSound.v — property C06 for the engine model over finite sets: every table entry
   of the engine's result is included in the least solution (proved for all CFGs, WTOs, start blocks,
   parameters and fuel), and it equals the least
   solution — i.e. exactly the reaching states — whenever the verified inductiveness check
   accepts it. *)
From Coq Require Import List Bool Arith NArith Lia.
From CrabV Require Import Fix.Wto Fix.Engine Fix.EngineBelow Fix.EngineCheck Fix.Kleene Fix.KleeneSound
     Fix.EngineFS.
Import ListNotations.

Definition sub (a b : N) : Prop := sleq a b = true.

Lemma sub_spec a b : sub a b <-> forall s, smem s a = true -> smem s b = true.
Proof.
  unfold sub, sleq, smem. rewrite N.eqb_eq. split.
  - intros H s Hs. rewrite <- H in Hs. rewrite N.land_spec in Hs. apply andb_true_iff in Hs. tauto.
  - intros H. apply N.bits_inj. intros s. rewrite N.land_spec.
    destruct (N.testbit a s) eqn:E; auto. rewrite (H s E). reflexivity.
Qed.

Lemma sub_refl a : sub a a. Proof. apply sub_spec; auto. Qed.
Lemma sub_trans a b c : sub a b -> sub b c -> sub a c.
Proof. rewrite !sub_spec. auto. Qed.
Lemma sub_zero a : sub 0%N a.
Proof. apply sub_spec. intros s H. unfold smem in H. rewrite N.bits_0 in H. discriminate. Qed.
Lemma sub_join a b c : sub a c -> sub b c -> sub (sjoin a b) c.
Proof.
  rewrite !sub_spec. intros H1 H2 s H. unfold smem, sjoin in *. rewrite N.lor_spec in H.
  apply orb_true_iff in H. destruct H; auto.
Qed.
Lemma sub_meet_l a b : sub (smeet a b) a.
Proof. apply sub_spec. intros s H. unfold smem, smeet in *. rewrite N.land_spec in H. apply andb_true_iff in H. tauto. Qed.
Lemma sub_meet_mono a a' b : sub a a' -> sub (smeet a b) (smeet a' b).
Proof.
  rewrite !sub_spec. intros H s X. unfold smem, smeet in *. rewrite N.land_spec in *.
  apply andb_true_iff in X. destruct X as [X1 X2]. rewrite (H s X1), X2. reflexivity.
Qed.
Lemma image_mono r a b : sub a b -> sub (image r a) (image r b).
Proof.
  rewrite !sub_spec. intros H t X. apply image_spec in X. destruct X as (s & Hs & I).
  apply image_spec. exists s. split; auto.
Qed.

Section FS.
  Variable S : N.
  Variable F : flow.
  Variable w : wto.
  Variables delay desc fuel : nat.
  Variable use_asm : bool.
  Variable t : tabs.
  Hypothesis range : in_range F.
  Hypothesis sol : solves F t.
  (* the assumption map is consulted iff it is given (as the harness does) *)
  Hypothesis asm_used : use_asm = false -> forall n, f_asm F n = None.

  Definition Lpre (n : nat) : N := if n <? f_blocks F then fst t n else 0%N.
  Definition Lpost (n : nat) : N := if n <? f_blocks F then snd t n else 0%N.

  Lemma strengthen_eq n v :
    strengthen N (fs_ops S) use_asm (f_asm F) n v = strengthenF F n v.
  Proof.
    unfold strengthen, strengthenF. destruct use_asm eqn:U; auto.
    rewrite (asm_used eq_refl n). reflexivity.
  Qed.

  Lemma strengthen_sub_spec n v c :
    sub (strengthenF F n v) c <->
    forall s, smem s v = true -> (match f_asm F n with Some a => smem s a = true | None => True end) -> smem s c = true.
  Proof.
    unfold strengthenF. destruct (f_asm F n) as [a|]; rewrite sub_spec.
    - split; intros H s; [intros X Y; apply H|intros X; apply H];
        unfold smem, smeet in *; rewrite N.land_spec in *.
      + rewrite X, Y; auto.
      + apply andb_true_iff in X; tauto.
      + apply andb_true_iff in X; tauto.
    - split; auto.
  Qed.

  Theorem fs_engine_below e :
    sub (f_init F) (Lpre (f_entry F)) ->
    fs_engine S F w delay desc use_asm fuel = Some e ->
    forall n, sub (e_pre N e n) (Lpre n) /\ sub (e_post N e n) (Lpost n).
  Proof.
    intros IB RUN.
    destruct range as (RE & RP & RO).
    pose proof (run_below N (fs_ops S) sub sub_trans sub_zero sub_join sub_meet_l sub_meet_mono
                  (fun _ _ _ => eq_refl) (fun _ _ => eq_refl)
                  (fun n a => image (f_rel F n) a) (fun n a b H => image_mono (f_rel F n) a b H)
                  (f_preds F) (nest_of w) (f_entry F) delay desc use_asm (f_asm F) fuel (f_init F)
                  Lpre Lpost) as RB.
    assert (H1 : forall n, sub (image (f_rel F n) (Lpre n)) (Lpost n)).
    { intros n. unfold Lpre, Lpost. destruct (Nat.ltb_spec n (f_blocks F)) as [L|G].
      - destruct (sol n L) as [_ E]. rewrite E. apply sub_refl.
      - destruct (RO n G) as [_ R0]. rewrite R0. apply sub_zero. }
    assert (H2 : forall n p, In p (f_preds F n) ->
                 sub (strengthen N (fs_ops S) use_asm (f_asm F) n (Lpost p)) (Lpre n)).
    { intros n p I. rewrite strengthen_eq. unfold Lpre, Lpost.
      destruct (Nat.ltb_spec n (f_blocks F)) as [L|G].
      - assert (PL : p < f_blocks F) by (eapply RP; eauto).
        destruct (Nat.ltb_spec p (f_blocks F)); [|lia].
        destruct (sol n L) as [E _]. rewrite E. apply strengthen_sub_spec. intros s X Y.
        apply inflow_spec. split; auto. right. exists p. split; auto.
      - destruct (RO n G) as [R0 _]. rewrite R0 in I. destruct I. }
    assert (H3 : sub (strengthen N (fs_ops S) use_asm (f_asm F) (f_entry F) (f_init F)) (Lpre (f_entry F))).
    { rewrite strengthen_eq. unfold Lpre. destruct (Nat.ltb_spec (f_entry F) (f_blocks F)); [|lia].
      destruct (sol _ RE) as [E _]. rewrite E. apply strengthen_sub_spec. intros s X Y.
      apply inflow_spec. split; auto. }
    assert (H4 : forall n a b c, sub (strengthen N (fs_ops S) use_asm (f_asm F) n a) c ->
                 sub (strengthen N (fs_ops S) use_asm (f_asm F) n b) c ->
                 sub (strengthen N (fs_ops S) use_asm (f_asm F) n (o_join N (fs_ops S) a b)) c).
    { intros n a b c. rewrite !strengthen_eq, !strengthen_sub_spec. intros X Y s Z.
      cbn in Z. unfold smem, sjoin in Z. rewrite N.lor_spec in Z. apply orb_true_iff in Z.
      destruct Z; [apply X|apply Y]; auto. }
    assert (H5 : forall n c, sub (strengthen N (fs_ops S) use_asm (f_asm F) n (o_bot N (fs_ops S))) c).
    { intros n c. rewrite strengthen_eq, strengthen_sub_spec. intros s Z.
      change (smem s 0%N = true) in Z. unfold smem in Z. rewrite N.bits_0 in Z. discriminate. }
    specialize (RB H1 H2 H3 IB H4 H5 w).
    unfold fs_engine in RUN. rewrite RUN in RB. destruct RB as [P Q]. intros n. split; auto.
  Qed.
End FS.

(* equality with the least solution (= reachability) when the verified checker accepts *)
Definition fgamma (a : N) (s : N) : Prop := smem s a = true.

Lemma fjoin_l S a b s : fgamma a s -> fgamma (o_join N (fs_ops S) a b) s.
Proof. unfold fgamma, smem. cbn. unfold sjoin. rewrite N.lor_spec. intros ->. reflexivity. Qed.
Lemma fjoin_r S a b s : fgamma b s -> fgamma (o_join N (fs_ops S) a b) s.
Proof. unfold fgamma, smem. cbn. unfold sjoin. rewrite N.lor_spec. intros ->. apply orb_true_r. Qed.
Lemma fmeet_s S a b s : fgamma a s -> fgamma b s -> fgamma (o_meet N (fs_ops S) a b) s.
Proof. unfold fgamma, smem. cbn. unfold smeet. rewrite N.land_spec. intros -> ->. reflexivity. Qed.
Lemma fleq_s S a b s : o_leq N (fs_ops S) a b = true -> fgamma a s -> fgamma b s.
Proof. cbn. intros L G. exact (proj1 (sub_spec a b) L s G). Qed.

Section Exact.
  Variable S : N.
  Variable F : flow.
  Variable w : wto.
  Variables delay desc fuel rounds : nat.
  Variable use_asm : bool.
  Variable t : tabs.
  Hypothesis range : in_range F.
  Hypothesis LFP : lfp F rounds = Some t.
  Hypothesis asm_used : use_asm = false -> forall n, f_asm F n = None.

  Definition fstep (n : nat) (s s' : N) : Prop := In (s, s') (f_rel F n).
  Definition finit (s : N) : Prop := smem s (f_init F) = true.

  Lemma fanalyze_s n a s s' : fgamma a s -> fstep n s s' -> fgamma (image (f_rel F n) a) s'.
  Proof. unfold fgamma, fstep. intros G B. apply image_spec. exists s. split; auto. Qed.

  Lemma reach_to_R :
    (forall n s, ReachPre F n s ->
       EngineCheck.RPre N N fgamma fstep (f_preds F) (f_entry F) use_asm (f_asm F) finit n s) /\
    (forall n s, ReachPost F n s ->
       EngineCheck.RPost N N fgamma fstep (f_preds F) (f_entry F) use_asm (f_asm F) finit n s).
  Proof.
    assert (AH : forall n s, asm_ok F n s -> asm_holds N N fgamma use_asm (f_asm F) n s).
    { intros n s H. unfold asm_ok, asm_holds, fgamma in *. destruct use_asm; auto. }
    apply (Reach_mutind F
             (fun n s _ => EngineCheck.RPre N N fgamma fstep (f_preds F) (f_entry F) use_asm (f_asm F) finit n s)
             (fun n s _ => EngineCheck.RPost N N fgamma fstep (f_preds F) (f_entry F) use_asm (f_asm F) finit n s)).
    - intros s I A. apply EngineCheck.RP_init; auto.
    - intros n p s I R IH A. eapply EngineCheck.RP_edge; eauto.
    - intros n s t0 R IH I. eapply EngineCheck.RPo; eauto.
  Qed.

  Theorem fs_engine_exact e :
    sub (f_init F) (fst t (f_entry F)) ->
    fs_engine S F w delay desc use_asm fuel = Some e ->
    inductive_ok N (fs_ops S) (fun n a => image (f_rel F n) a) (f_preds F) (f_entry F) use_asm (f_asm F)
                 (f_init F) (seq 0 (f_blocks F)) (e_pre N e) (e_post N e) = true ->
    forall n s, n < f_blocks F ->
      (smem s (e_pre N e n) = true <-> ReachPre F n s) /\
      (smem s (e_post N e n) = true <-> ReachPost F n s).
  Proof.
    intros IB RUN IND n s L.
    pose proof LFP as LFP'. unfold lfp in LFP'.
    destruct (solvesb F _) eqn:SB; inversion LFP' as [ET]. clear LFP'.
    pose proof (solvesb_solves F _ SB) as SOL. rewrite ET in SOL.
    destruct (lfp_is_reach F rounds _ range LFP) as [LR1 LR2].
    assert (IB' : sub (f_init F) (Lpre F t (f_entry F))).
    { unfold Lpre. destruct range as (RE & _). destruct (Nat.ltb_spec (f_entry F) (f_blocks F)); [auto|lia]. }
    destruct (fs_engine_below S F w delay desc fuel use_asm t range SOL asm_used e IB' RUN n) as [B1 B2].
    unfold Lpre, Lpost in B1, B2. destruct (Nat.ltb_spec n (f_blocks F)); [|lia].
    destruct range as (RE & RP & RO).
    assert (NC : In (f_entry F) (seq 0 (f_blocks F)) /\
                 forall n0 p, In p (f_preds F n0) -> In n0 (seq 0 (f_blocks F))).
    { split; [apply in_seq; lia|]. intros n0 p I. apply in_seq.
      destruct (Nat.lt_ge_cases n0 (f_blocks F)) as [Hlt|Hge]; [lia|].
      destruct (RO n0 Hge) as [R0 _]. rewrite R0 in I. destruct I. }
    destruct (inductive_sound N N fgamma (fs_ops S) (fjoin_l S) (fjoin_r S) (fmeet_s S) (fleq_s S)
                (fun n a => image (f_rel F n) a) fstep fanalyze_s
                (f_preds F) (f_entry F) use_asm (f_asm F) finit (f_init F)
                (fun s H => H) (seq 0 (f_blocks F)) NC (e_pre N e) (e_post N e) IND) as [C1 C2].
    destruct reach_to_R as [T1 T2].
    split; split.
    - intros X. apply LR1; auto. apply (proj1 (sub_spec _ _) B1); auto.
    - intros R. apply (C1 n s). apply T1; auto.
    - intros X. apply LR2; auto. apply (proj1 (sub_spec _ _) B2); auto.
    - intros R. apply (C2 n s). apply T2; auto.
  Qed.
End Exact.
