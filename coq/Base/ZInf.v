(* ZInf.v — model of ikos::bound<z_number> (include/crab/domains/interval_impl.hpp).

   C++ representation: (_is_infinite, _n) with _n = +1 / -1 for +oo / -oo.
   Model: three constructors.  Every function below mirrors the C++ member of the
   same name decision by decision; the two CRAB_ERROR cases (-oo + +oo and division
   by a zero bound) are made explicit by [badd_err] / [bdiv_err] and the functions
   return a junk value there (never reached from well-formed intervals: proved in
   Itv.v / ItvSound.v). *)
From Coq Require Import ZArith Lia Bool.
Local Open Scope Z_scope.

Inductive bound : Type := MInf | Fin (z : Z) | PInf.

Definition b_is_finite (x : bound) : bool :=
  match x with Fin _ => true | _ => false end.

(* bound::operator<= *)
Definition ble (x y : bound) : bool :=
  match x, y with
  | MInf, _ => true
  | Fin _, MInf => false
  | Fin a, Fin b => a <=? b
  | Fin _, PInf => true
  | PInf, PInf => true
  | PInf, _ => false
  end.

Arguments ble !x !y /.

(* bound::operator>= *)
Definition bge (x y : bound) : bool := ble y x.
(* operator< is !operator>= ; operator> is !operator<= *)
Definition blt (x y : bound) : bool := negb (bge x y).
Definition bgt (x y : bound) : bool := negb (ble x y).

Definition beqb (x y : bound) : bool :=
  match x, y with
  | MInf, MInf => true
  | PInf, PInf => true
  | Fin a, Fin b => a =? b
  | _, _ => false
  end.

(* bound::min(x,y) = (x <= y) ? x : y ;  max(x,y) = (x <= y) ? y : x *)
Definition bmin (x y : bound) : bound := if ble x y then x else y.
Definition bmax (x y : bound) : bound := if ble x y then y else x.
Definition bmin4 (x y z t : bound) := bmin x (bmin y (bmin z t)).
Definition bmax4 (x y z t : bound) := bmax x (bmax y (bmax z t)).

Definition bneg (x : bound) : bound :=
  match x with MInf => PInf | PInf => MInf | Fin a => Fin (- a) end.

(* the C++ aborts on -oo + +oo *)
Definition badd_err (x y : bound) : bool :=
  match x, y with
  | MInf, PInf | PInf, MInf => true
  | _, _ => false
  end.

Definition badd (x y : bound) : bound :=
  match x, y with
  | Fin a, Fin b => Fin (a + b)
  | Fin _, _ => y
  | _, Fin _ => x
  | _, _ => x            (* same infinity (or the error case) *)
  end.

Definition bsub (x y : bound) : bound := badd x (bneg y).
Definition bsub_err (x y : bound) : bool := badd_err x (bneg y).

(* sign of the C++ field _n *)
Definition bsgn (x : bound) : Z :=
  match x with MInf => -1 | PInf => 1 | Fin a => a end.

Definition binf_of_sign (s : Z) : bound := if 0 <? s then PInf else MInf.

(* bound::operator*: if (x._n == 0) return x; else if (_n == 0) return *this;
   else bound(_is_infinite || x._is_infinite, _n * x._n) *)
Definition bmul (x y : bound) : bound :=
  match x, y with
  | _, Fin 0 => Fin 0
  | Fin 0, _ => Fin 0
  | Fin a, Fin b => Fin (a * b)
  | _, _ => binf_of_sign (bsgn x * bsgn y)
  end.

Definition bdiv_err (x y : bound) : bool :=
  match y with Fin 0 => true | _ => false end.

(* bound::operator/ ; z_number::operator/ is truncating (mpz_tdiv_q) = Z.quot *)
Definition bdiv (x y : bound) : bound :=
  match x, y with
  | _, Fin 0 => Fin 0                                   (* CRAB_ERROR *)
  | Fin a, Fin b => Fin (Z.quot a b)
  | Fin a, _ => Fin 0                                   (* finite / infinite *)
  | _, Fin b => if 0 <? b then x else bneg x
  | _, _ => binf_of_sign (bsgn x * bsgn y)
  end.

(* ---------------------------------------------------------------- *)
(* Order-theoretic facts used everywhere.                            *)

Definition ble_z_l (l : bound) (x : Z) : Prop := ble l (Fin x) = true.
Definition ble_z_r (x : Z) (u : bound) : Prop := ble (Fin x) u = true.

Lemma ble_refl x : ble x x = true.
Proof. destruct x; simpl; auto; apply Z.leb_refl. Qed.

Lemma ble_trans x y z : ble x y = true -> ble y z = true -> ble x z = true.
Proof.
  destruct x, y, z; simpl; intros; try discriminate; auto.
  apply Z.leb_le. apply Z.leb_le in H, H0. lia.
Qed.

Lemma ble_total x y : ble x y = true \/ ble y x = true.
Proof.
  destruct x, y; simpl; auto.
  destruct (Z.leb_spec z z0); auto. right. apply Z.leb_le. lia.
Qed.

Lemma ble_antisym x y : ble x y = true -> ble y x = true -> x = y.
Proof.
  destruct x, y; simpl; intros; try discriminate; auto.
  apply Z.leb_le in H, H0. f_equal. lia.
Qed.

Lemma ble_false_flip x y : ble x y = false -> ble y x = true.
Proof. destruct (ble_total x y); congruence. Qed.

Lemma beqb_eq x y : beqb x y = true <-> x = y.
Proof.
  destruct x, y; simpl; split; intros; try discriminate; auto.
  - apply Z.eqb_eq in H. congruence.
  - inversion H. apply Z.eqb_refl.
Qed.

Lemma bmin_le_l x y : ble (bmin x y) x = true.
Proof. unfold bmin. destruct (ble x y) eqn:E. apply ble_refl. apply ble_false_flip; auto. Qed.
Lemma bmin_le_r x y : ble (bmin x y) y = true.
Proof. unfold bmin. destruct (ble x y) eqn:E; auto. apply ble_refl. Qed.
Lemma bmax_ge_l x y : ble x (bmax x y) = true.
Proof. unfold bmax. destruct (ble x y) eqn:E; auto. apply ble_refl. Qed.
Lemma bmax_ge_r x y : ble y (bmax x y) = true.
Proof. unfold bmax. destruct (ble x y) eqn:E. apply ble_refl. apply ble_false_flip; auto. Qed.

Lemma bmin_glb x y z : ble z x = true -> ble z y = true -> ble z (bmin x y) = true.
Proof. unfold bmin. destruct (ble x y); auto. Qed.
Lemma bmax_lub x y z : ble x z = true -> ble y z = true -> ble (bmax x y) z = true.
Proof. unfold bmax. destruct (ble x y); auto. Qed.

Lemma bmin_cases x y : bmin x y = x \/ bmin x y = y.
Proof. unfold bmin. destruct (ble x y); auto. Qed.
Lemma bmax_cases x y : bmax x y = x \/ bmax x y = y.
Proof. unfold bmax. destruct (ble x y); auto. Qed.

Lemma bneg_involutive x : bneg (bneg x) = x.
Proof. destruct x; simpl; auto. f_equal. lia. Qed.

Lemma ble_bneg x y : ble (bneg x) (bneg y) = ble y x.
Proof.
  destruct x, y; simpl; auto.
  destruct (Z.leb_spec (-z) (-z0)), (Z.leb_spec z0 z); auto; lia.
Qed.

Lemma ble_PInf_r x : ble x PInf = false -> False.
Proof. destruct x; simpl; discriminate. Qed.

Ltac bsimp :=
  repeat match goal with
  | H : ble (Fin _) (Fin _) = _ |- _ => simpl in H
  | H : ble PInf (Fin _) = _ |- _ => simpl in H
  | H : ble PInf MInf = _ |- _ => simpl in H
  | H : ble (Fin _) MInf = _ |- _ => simpl in H
  | H : ble MInf _ = false |- _ => simpl in H
  | H : ble _ PInf = false |- _ => destruct (ble_PInf_r _ H)
  | H : (_ <=? _) = true |- _ => apply Z.leb_le in H
  | H : (_ <=? _) = false |- _ => apply Z.leb_gt in H
  | H : (_ <? _) = true |- _ => apply Z.ltb_lt in H
  | H : (_ <? _) = false |- _ => apply Z.ltb_ge in H
  | H : (_ =? _) = true |- _ => apply Z.eqb_eq in H
  | H : (_ =? _) = false |- _ => apply Z.eqb_neq in H
  | H : false = true |- _ => discriminate H
  | H : true = false |- _ => discriminate H
  end.
