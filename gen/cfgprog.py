"""Textual CFG programs (format: harness/cfgtext.hpp), generator and concrete interpreter
used as the property-level oracle of C01 / C02 / C11."""
import random, re, zlib
from domhist import fmt_exp, fmt_cst, gen_exp, gen_cst, ev, holds, tdiv, trem, parse_itv, in_itv


# ------------------------------------------------------------------ generation

def rand_stmt(rng, nv, small=True, allow=("assign", "arith", "bit", "assume", "havoc", "select"), bwd_safe=False, more_select=False):
    k = rng.choices(["assign", "arith", "bit", "assume", "havoc", "select"], [8, 8, 1, 3, 1, 4 if more_select else 1])[0]
    if k not in allow or (bwd_safe and k == "select"):
        k = "assign"
    if k == "assign":
        x = rng.randrange(nv)
        e = gen_exp(rng, nv, small=True)
        if bwd_safe:
            e = ([(c, v) for (c, v) in e[0] if v != x], e[1])
        return "assign %d %s" % (x, fmt_exp(e))
    if k == "arith":
        op = rng.choice(["add", "add", "sub", "mul", "sdiv", "srem"])
        x, y = rng.randrange(nv), rng.randrange(nv)
        if rng.random() < 0.4:
            zv = rng.randrange(nv)
            if bwd_safe and op in ("add", "sub") and x in (y, zv):
                return "arith %s %d %d k %d" % (op, x, y, rng.choice([1, 2, 3, -1]))
            z = "v %d" % zv
        else:
            z = "k %d" % rng.choice([1, 1, 2, 3, -1, -2, 5, 0, 7])
        return "arith %s %d %d %s" % (op, x, y, z)
    if k == "bit":
        op = rng.choice(["and", "or", "xor", "shl", "ashr"])
        z = "k %d" % rng.choice([0, 1, 2, 3, 7])
        return "bit %s %d %d %s" % (op, rng.randrange(nv), rng.randrange(nv), z)
    if k == "assume":
        return "assume %s" % fmt_cst(gen_cst(rng, nv, small=True, maxterms=2))
    if k == "havoc":
        return "havoc %d" % rng.randrange(nv)
    return "select %d %s %s %s" % (rng.randrange(nv), fmt_cst(gen_cst(rng, nv, small=True, maxterms=2)),
                                   fmt_exp(gen_exp(rng, nv, small=True)), fmt_exp(gen_exp(rng, nv, small=True)))


def gen_program(rng, opts=None):
    """structured programs: a skeleton of sequences, diamonds and counting loops (possibly nested), plus random
    extra edges (irreducible shapes) and unreachable blocks"""
    opts = opts or {}
    nv = rng.randint(2, 4)
    blocks = [[]]
    edges = []
    nassert = [0]

    def new_block():
        blocks.append([])
        return len(blocks) - 1

    def maybe_assert(b):
        if opts.get("asserts") and rng.random() < 0.35:
            nassert[0] += 1
            c = gen_cst(rng, nv, kinds=("le", "le", "eq", "ne", "lt"), small=True, maxterms=2)
            blocks[b].append("assert %s %d" % (fmt_cst(c), nassert[0]))

    def fill(b, n=None):
        for _ in range(rng.randint(0, 3) if n is None else n):
            blocks[b].append(rand_stmt(rng, nv, bwd_safe=opts.get("bwd_safe", False), more_select=opts.get("more_select", False)))
        maybe_assert(b)

    def build(cur, depth):
        """extends the program from block cur; returns the block where control continues"""
        for _ in range(rng.randint(1, 3)):
            if len(blocks) > opts.get("maxblocks", 12):
                break
            shape = rng.choices(["seq", "diamond", "loop", "diseq"], [3, 2, 3 if depth < 2 else 0, 1])[0]
            if shape == "diseq" and nv >= 2:
                # a disequality between two variables whose excluded line touches a corner of their box
                # (disequality lowering through entailment): a is lo or hi by a free choice, b a constant
                a, bb = rng.sample(range(nv), 2)
                lo = rng.randint(-4, 4); hi = lo + rng.randint(1, 4); c = rng.randint(-3, 3)
                t, f, j, g = new_block(), new_block(), new_block(), new_block()
                blocks[t].append("assign %d E 0 %d" % (a, lo)); blocks[f].append("assign %d E 0 %d" % (a, hi))
                blocks[j].append("assign %d E 0 %d" % (bb, c))
                sg = rng.choice([1, -1])
                k = rng.choice([1, -1]) * (rng.choice([hi, lo]) - c)
                x1, x2 = sorted([a, bb]); s1 = sg if x1 == a else -sg
                blocks[g].append("assume C ne E 2 %d %d %d %d %d" % (s1, x1, -s1, x2, k))
                edges.extend([(cur, t), (cur, f), (t, j), (f, j), (j, g)]); cur = g
            elif shape == "seq" or shape == "diseq":
                n = new_block(); edges.append((cur, n)); fill(n); cur = n
            elif shape == "diamond":
                t, f, j = new_block(), new_block(), new_block()
                c = gen_cst(rng, nv, kinds=("le", "lt", "eq"), small=True, maxterms=2)
                blocks[t].append("assume %s" % fmt_cst(c))
                neg = negate(c)
                blocks[f].append("assume %s" % fmt_cst(neg))
                fill(t); fill(f)
                edges.extend([(cur, t), (cur, f), (t, j), (f, j)]); cur = j
            else:
                x = rng.randrange(nv)
                lo, hi = rng.choice([(0, 10), (0, 3), (1, 100), (-5, 5), (0, 1)])
                step = rng.choice([1, 1, 2, 3])
                up = rng.random() < 0.8
                blocks[cur].append("assign %d E 0 %d" % (x, lo if up else hi))
                h, body, ex = new_block(), new_block(), new_block()
                edges.append((cur, h))
                if up:
                    blocks[body].append("assume C le E 1 1 %d %d" % (x, -(hi - 1)))       # x <= hi-1
                    blocks[ex].append("assume C le E 1 -1 %d %d" % (x, hi))               # x >= hi
                else:
                    blocks[body].append("assume C le E 1 -1 %d %d" % (x, lo + 1))         # x >= lo+1
                    blocks[ex].append("assume C le E 1 1 %d %d" % (x, -lo))               # x <= lo
                    step = -step
                edges.extend([(h, body), (h, ex)])
                inner = build(body, depth + 1) if rng.random() < 0.4 else body
                fill(inner, rng.randint(0, 2))
                blocks[inner].append("arith add %d %d k %d" % (x, x, step))
                edges.append((inner, h))
                fill(ex, rng.randint(0, 1))
                cur = ex
        return cur

    fill(0)
    last = build(0, 0)
    nb = len(blocks)
    # extra edges: irreducible entries into loops, self loops; unreachable blocks feeding the graph
    for _ in range(rng.choice([0, 0, 0, 1, 2])):
        a, b = rng.randrange(nb), rng.randrange(nb)
        if (a, b) not in edges:
            edges.append((a, b))
    if rng.random() < 0.15:
        u = new_block(); fill(u); edges.append((u, rng.randrange(nb)))
    if opts.get("entry_loop") and (0, 0) not in edges and rng.random() < 0.5:
        edges.append((last, 0))
    nb = len(blocks)
    header = "cfg %d %d %d" % (nb, nv, last)
    return header, blocks, edges, nassert[0]


def negate(c):
    kind, (terms, k) = c
    if kind == "le":      # e <= 0  ->  -e + 1 <= 0
        return ("le", ([(-a, v) for a, v in terms], -k + 1))
    if kind == "lt":      # e < 0 -> -e <= 0
        return ("le", ([(-a, v) for a, v in terms], -k))
    if kind == "eq":
        return ("ne", (terms, k))
    return ("eq", (terms, k))


def fmt_program(header, blocks, edges, opts=(), extra=()):
    parts = [header + "".join(" %s=%s" % kv for kv in opts)]
    for i, b in enumerate(blocks):
        parts.append("B %d %s" % (i, " ; ".join(b)))
    parts.append("E " + " ".join("%d %d" % e for e in edges))
    parts.extend(extra)
    return " | ".join(parts)


CORPUS = [
    # analysis started at a block inside a loop / at the head of a nested loop (fixed defect, engine-4)
    "cfg 4 1 3 delay=1 desc=1 entry=2 | B 0 assign 0 E 0 5 | B 1 | B 2 arith add 0 0 k 1 | B 3 | E 0 1 1 2 2 1 1 3 | I C eq E 1 1 0 0",
    "cfg 5 1 4 delay=1 desc=1 entry=2 | B 0 assign 0 E 0 5 | B 1 | B 2 arith add 0 0 k 1 | B 3 | B 4 | E 0 1 1 2 2 3 3 2 3 1 1 4 | I C eq E 1 1 0 0",
    # analysis entry is a loop head (fixed defect)
    "cfg 3 1 2 delay=2 desc=1 | B 0 | B 1 arith add 0 0 k 1 | B 2 | E 0 1 1 0 0 2 | I C eq E 1 1 0 0",
    "cfg 3 1 2 delay=1 desc=0 | B 0 | B 1 arith add 0 0 k 1 | B 2 | E 0 1 1 0 0 2 | I C eq E 1 1 0 0",
    # division of negative numbers (fixed defect)
    "cfg 2 3 1 | B 0 assume C le E 1 -1 0 -7 ; assume C le E 1 1 0 5 ; assume C le E 1 -1 1 2 ; assume C le E 1 1 1 -3 ; arith sdiv 2 0 v 1 | B 1 | E 0 1",
    # unreachable block feeding a loop head (fixed abort)
    "cfg 4 1 3 | B 0 assign 0 E 0 0 | B 1 assign 0 E 0 7 | B 2 arith add 0 0 k 1 | B 3 | E 0 2 2 2 1 2 2 3",
]


def gen(seed, tier, n=None, opts=None, params=True):
    rng = random.Random(seed)
    lines = list(CORPUS) if (opts or {}).get("corpus", True) else []
    n = n or (400 if tier == "quick" else 12000)
    for _ in range(n):
        o = dict(opts or {})
        o["entry_loop"] = rng.random() < 0.2
        header, blocks, edges, na = gen_program(rng, o)
        po = []
        if params:
            po = [("delay", rng.choice([0, 1, 2, 2, 3])), ("desc", rng.choice([0, 1, 1, 2, 3]))]
        for kv in (opts or {}).get("fixed_opts", []):
            po.append(kv)
        if na:
            po.append(("nasserts", na))
        if params and o.get("alt_entry", True) and rng.random() < 0.25:
            # alternative entry block: any block reachable from the CFG entry (= in the WTO),
            # also inside loops and loop heads
            succ = {}
            for a, b in edges:
                succ.setdefault(a, []).append(b)
            reach = {0}; work = [0]
            while work:
                v = work.pop()
                for x in succ.get(v, []):
                    if x not in reach:
                        reach.add(x); work.append(x)
            po.append(("entry", rng.choice(sorted(reach))))
        extra = []
        if rng.random() < 0.3:
            nv = int(header.split()[2])
            v = rng.randrange(nv)
            extra.append("I C le E 1 -1 %d %d C le E 1 1 %d %d" % (v, rng.randint(-3, 3), v, -rng.randint(3, 9)))
        lines.append(fmt_program(header, blocks, edges, po, extra))
    return lines


# ------------------------------------------------------------------ concrete interpreter

class Tok:
    def __init__(self, t): self.t, self.p = t, 0
    def more(self): return self.p < len(self.t)
    def next(self): self.p += 1; return self.t[self.p - 1]
    def nexti(self): return int(self.next())


def p_exp(k):
    k.next(); n = k.nexti(); ts = []
    for _ in range(n):
        c = k.nexti(); v = k.nexti(); ts.append((c, v))
    return ts, k.nexti()


def p_cst(k):
    k.next(); kind = k.next()
    return kind, p_exp(k)


def parse(line):
    secs = [s.split() for s in line.split(" | ")]
    h = secs[0]
    nb, nv, ex = int(h[1]), int(h[2]), int(h[3])
    opts = dict(o.split("=") for o in h[4:] if "=" in o)
    blocks = [[] for _ in range(nb)]; edges = []; init = []; asm = {}
    for s in secs[1:]:
        if not s: continue
        if s[0] == "B":
            cur = []; stmts = []
            for t in s[2:] + [";"]:
                if t == ";":
                    if cur: stmts.append(cur)
                    cur = []
                else:
                    cur.append(t)
            blocks[int(s[1])] = [parse_stmt(x) for x in stmts]
        elif s[0] == "E":
            v = list(map(int, s[1:])); edges = list(zip(v[0::2], v[1::2]))
        elif s[0] == "I":
            k = Tok(s[1:])
            while k.more(): init.append(p_cst(k))
        elif s[0] == "A":
            k = Tok(s[2:]); cs = []
            while k.more(): cs.append(p_cst(k))
            asm[int(s[1])] = cs
    return dict(nb=nb, nv=nv, exit=ex, opts=opts, blocks=blocks, edges=edges, init=init, asm=asm)


def parse_stmt(t):
    k = Tok(t); op = k.next()
    if op == "assign":
        return ("assign", k.nexti(), p_exp(k))
    if op in ("arith", "bit"):
        f = k.next(); x = k.nexti(); y = k.nexti(); kind = k.next(); z = k.nexti()
        return (op, f, x, y, kind, z)
    if op == "assume":
        return ("assume", p_cst(k))
    if op == "assert":
        c = p_cst(k); return ("assert", c, k.nexti())
    if op == "havoc":
        return ("havoc", k.nexti())
    if op == "select":
        x = k.nexti(); c = p_cst(k); e1 = p_exp(k); e2 = p_exp(k)
        return ("select", x, c, e1, e2)
    return ("unreachable",)


POOL = [0, 1, -1, 2, 3, 5, -5, 7, 10, -10, 100, -100]


def exec_stmt(st, s, rng):
    """returns ('ok', store) | ('blocked',) | ('fail', id, store)"""
    s = list(s)
    k = st[0]
    if k == "assign":
        s[st[1]] = ev(st[2], s); return ("ok", s)
    if k in ("arith", "bit"):
        _, f, x, y, kind, z = st
        a = s[y]; b = s[z] if kind == "v" else z
        v = None
        if f == "add": v = a + b
        elif f == "sub": v = a - b
        elif f == "mul": v = a * b if (a.bit_length() + b.bit_length() <= 4096) else None      # else: the run stops (sample dropped)
        elif f == "sdiv": v = tdiv(a, b) if b != 0 else None
        elif f == "srem": v = trem(a, b) if b != 0 else None
        elif f == "udiv": v = a // b if (a >= 0 and b > 0) else None
        elif f == "urem": v = a % b if (a >= 0 and b > 0) else None
        elif f == "and": v = a & b
        elif f == "or": v = a | b
        elif f == "xor": v = a ^ b
        elif f == "shl": v = a << b if 0 <= b <= 64 else None
        elif f == "ashr": v = a >> b if 0 <= b <= 10 ** 4 else None
        elif f == "lshr": v = a >> b if (0 <= b <= 10 ** 4 and a >= 0) else None
        if v is None: return ("blocked",)
        s[x] = v; return ("ok", s)
    if k == "assume":
        return ("ok", s) if holds(st[1], s) else ("blocked",)
    if k == "assert":
        return ("ok", s) if holds(st[1], s) else ("fail", st[2], s)
    if k == "havoc":
        s[st[1]] = rng.choice(POOL); return ("ok", s)
    if k == "select":
        s[st[1]] = ev(st[3], s) if holds(st[2], s) else ev(st[4], s); return ("ok", s)
    return ("blocked",)


def run_concrete(P, rng, nruns=60, maxsteps=120, on_pre=None, on_post=None, on_assert=None):
    """random executions from the entry block; callbacks receive (block, store)"""
    entry = int(P["opts"].get("entry", 0))
    succ = {}
    for a, b in P["edges"]:
        succ.setdefault(a, [])
        if b not in succ[a]:
            succ[a].append(b)
    for _ in range(nruns):
        s = [rng.choice(POOL) for _ in range(P["nv"])]
        # bias the start towards the initial constraints
        for c in P["init"]:
            if c[0] == "eq" and len(c[1][0]) == 1 and abs(c[1][0][0][0]) == 1:
                s[c[1][0][0][1]] = -c[1][1] * c[1][0][0][0]
        for _try in range(20):
            if all(holds(c, s) for c in P["init"]):
                break
            s = [rng.randint(-10, 10) for _ in range(P["nv"])]
        if not all(holds(c, s) for c in P["init"]):
            continue
        b = entry
        for step in range(maxsteps):
            if b in P["asm"] and not all(holds(c, s) for c in P["asm"][b]):
                break
            w = on_pre(b, s) if on_pre else None
            if w: return w
            blocked = False
            for st in P["blocks"][b]:
                if st[0] == "assert" and on_assert:
                    w = on_assert(b, st, s, holds(st[1], s))
                    if w: return w
                r = exec_stmt(st, s, rng)
                if r[0] != "ok":
                    blocked = True; break
                s = r[1]
            if blocked:
                break
            w = on_post(b, s) if on_post else None
            if w: return w
            nxt = succ.get(b, [])
            if not nxt:
                break
            b = rng.choice(nxt)
    return None


def parse_tables(ans, nb):
    parts = [p.strip() for p in ans.split(" ; ")]
    tabs = []
    for p in parts[:nb]:
        m = re.match(r"^pre=(.*) post=(.*)$", p)
        if not m:
            return None
        tabs.append((parse_state(m.group(1)), parse_state(m.group(2))))
    return tabs


def parse_state(a):
    a = a.strip()
    if a == "_|_":
        return "bot"
    return [parse_itv(x) for x in a.split("|")]


def oracle(line, ans, rng=None):
    """C01: every concrete (block, store) visited by an execution must be inside the
    implementation's invariants"""
    if ans in ("ABORT", "MISSING") or ans.startswith("HARNESS"):
        return "%s: the analysis aborted" % line
    P = parse(line)
    tabs = parse_tables(ans, P["nb"])
    if tabs is None:
        return None
    r0 = random.Random(zlib.crc32(line.encode()))

    def inside(st, s):
        if st == "bot":
            return False
        return all(in_itv(st[v], s[v]) for v in range(min(len(st), len(s))) if st[v] is not None)

    def on_pre(b, s):
        if not inside(tabs[b][0], s):
            return "%s: an execution enters b%d with store %s, outside the reported invariant %s" % (line, b, s, tabs[b][0])

    def on_post(b, s):
        if not inside(tabs[b][1], s):
            return "%s: an execution leaves b%d with store %s, outside the reported invariant %s" % (line, b, s, tabs[b][1])
    return run_concrete(P, r0, on_pre=on_pre, on_post=on_post)


def nontrivial(line, ans):
    """rule: the program has a loop and at least two blocks whose entry invariant is neither
    bottom nor top"""
    P = parse(line)
    tabs = parse_tables(ans, P["nb"])
    if not tabs:
        return False
    good = 0
    for pre, post in tabs:
        if pre != "bot" and any(i not in ((None, None), None) for i in pre):
            good += 1
    return good >= 2 and any(a >= b for a, b in P["edges"])


# ------------------------------------------------------------------ backward oracle (C11)

def parse_bwd_tables(ans, nb):
    parts = [p.strip() for p in ans.split(" ; ")]
    tabs = []
    for p in parts[:nb]:
        m = re.match(r"^finv=(.*) pre=(.*)$", p)
        if not m:
            return None
        tabs.append((parse_state(m.group(1)), parse_state(m.group(2))))
    return tabs


def oracle_bwd(line, ans, rng=None):
    """C11: every state on a concrete execution that goes on to violate an assertion (error mode) /
    to finish the exit block in a final state (good mode) must be inside the precondition of its block"""
    if ans in ("ABORT", "MISSING") or ans.startswith("HARNESS"):
        return "%s: the analysis aborted" % line
    P = parse(line)
    tabs = parse_bwd_tables(ans, P["nb"])
    if tabs is None:
        return None
    good = P["opts"].get("mode", "error") == "good"
    finals = []
    for sct in line.split(" | "):
        t = sct.split()
        if t and t[0] == "G":
            k = Tok(t[1:])
            while k.more(): finals.append(p_cst(k))
    r0 = random.Random(zlib.crc32(line.encode()))
    succ = {}
    for a, b in P["edges"]:
        succ.setdefault(a, [])
        if b not in succ[a]: succ[a].append(b)

    def inside(st, s):
        if st == "bot": return False
        return all(in_itv(st[v], s[v]) for v in range(min(len(st), len(s))) if st[v] is not None)

    for _ in range(150):
        s = [r0.choice(POOL) for _ in range(P["nv"])]
        b = 0; trace = []; outcome = None
        for step in range(100):
            trace.append((b, list(s)))
            blocked = False
            for st in P["blocks"][b]:
                r = exec_stmt(st, s, r0)
                if r[0] == "fail":
                    outcome = "fail"; break
                if r[0] != "ok":
                    blocked = True; break
                s = r[1]
            if outcome or blocked: break
            if b == P["exit"]:
                if good and all(holds(c, s) for c in finals): outcome = "good"
                break
            nxt = succ.get(b, [])
            if not nxt: break
            b = r0.choice(nxt)
        if (outcome == "fail" and not good) or (outcome == "good" and good):
            for (bb, ss) in trace:
                if not inside(tabs[bb][1], ss):
                    return ("%s: an execution visiting b%d with store %s %s, but the reported necessary precondition of b%d is %s"
                            % (line, bb, ss, "goes on to violate an assertion" if not good else "reaches the exit in a final state", bb, tabs[bb][1]))
    return None


def nontrivial_bwd(line, ans):
    """rule: at least one block has a precondition that is neither bottom nor top"""
    P = parse(line)
    tabs = parse_bwd_tables(ans, P["nb"])
    if not tabs: return False
    return any(pre != "bot" and any(i not in ((None, None), None) for i in pre) for _, pre in tabs)


# ------------------------------------------------------------------ verdict oracle (C02)

def parse_verdicts(ans):
    if "checks=" not in ans:
        return None
    body = ans.split("checks=")[1].strip()
    out = {}
    i = 1
    for part in body.replace("-", "-,").split(","):
        part = part.strip()
        if part == "":
            continue
        out[i] = part
        i += 1
    return out


def oracle_verdicts(line, ans, rng=None):
    """C02: no execution reaches a 'safe' assertion with a false condition, none reaches an
    'unreachable' one"""
    if ans in ("ABORT", "MISSING") or ans.startswith("HARNESS"):
        return "%s: the analysis aborted" % line
    P = parse(line)
    V = parse_verdicts(ans)
    if not V:
        return None
    r0 = random.Random(zlib.crc32(line.encode()) ^ 0x5bd1)

    def on_assert(b, st, s, ok):
        v = V.get(st[2], "")
        if "U" in v:
            return "%s: assertion %d (in b%d) was classified unreachable but an execution reaches it with store %s" % (line, st[2], b, s)
        if "S" in v and not ok:
            return "%s: assertion %d (in b%d) was classified safe but an execution reaches it with store %s, where it is false" % (line, st[2], b, s)
    return run_concrete(P, r0, nruns=120, on_assert=on_assert)


def nontrivial_verdicts(line, ans):
    """rule: at least one assertion is classified safe or unreachable and one is a warning, or the program has a loop"""
    V = parse_verdicts(ans)
    if not V:
        return False
    letters = "".join(V.values())
    return ("S" in letters or "U" in letters) and len(V) >= 1


# ------------------------------------------------------------------ additions for the all-domains streams (checks/fwddoms.py)

def add_assumptions(line, rng, prob=0.5):
    """appends `A <blk> <C> ...` sections (assumption map of the analyzer's general run(entry, init, assumptions)): with
    probability `prob`, one or two blocks get an interval or a two-variable constraint as assumption.  The concrete
    meaning (run_concrete) is: an execution that enters the block in a state violating its assumption stops there."""
    if rng.random() >= prob:
        return line
    P = parse(line)
    nb, nv = P["nb"], P["nv"]
    extra = []
    for b in rng.sample(range(nb), min(nb, rng.choice([1, 1, 2]))):
        cs = []
        for _ in range(rng.choice([1, 1, 2])):
            v = rng.randrange(nv)
            r = rng.random()
            if r < 0.4:
                cs.append(("le", ([(1, v)], -rng.choice([0, 1, 3, 5, 10, 50]))))          # v <= k
            elif r < 0.7:
                cs.append(("le", ([(-1, v)], rng.choice([0, 1, -1, 3, -5, 10]))))         # v >= -k
            elif r < 0.9 and nv >= 2:
                w = rng.choice([x for x in range(nv) if x != v])
                a, b2 = sorted([v, w])
                cs.append(("le", ([(1, a), (-1, b2)], rng.choice([0, 1, -1, 2, -3]))))    # a - b <= k
            else:
                cs.append(gen_cst(rng, nv, kinds=("le", "eq", "ne", "lt"), small=True, maxterms=2))
        extra.append("A %d %s" % (b, " ".join(fmt_cst(c) for c in cs)))
    return line + " | " + " | ".join(extra)


def loop_heads(P):
    """targets of the retreating edges of the generator's block numbering (a >= b)"""
    return sorted(set(b for a, b in P["edges"] if a >= b))


def nontrivial_loop(line, ans):
    """rule: the program has a loop head whose reported entry invariant is neither bottom nor top"""
    P = parse(line)
    tabs = parse_tables(ans, P["nb"])
    if not tabs:
        return False
    for h in loop_heads(P):
        pre = tabs[h][0]
        if pre != "bot" and any(i not in ((None, None), None) for i in pre):
            return True
    return False


# ------------------------------------------------------------------ additions for the thresholds / liveness stream of C01
# (mirror: coq/Fix/WtoThresholds.v, coq/Ana/FwdItvLive.v)

THR_VALUES = [0, 1, 3, 4, 5, 6, 10, 50]


def gen_thr_program(rng):
    """loops whose invariants depend on the widening thresholds: `while (nondet) { if (guards) updates ... }` with
    several guarded branches per loop (assumes with one variable, coefficients 1 -1 2 -2 3 -3, <= and <, bounds taken
    from a small pool so that consecutive values k, k+1 meet; also two-variable and eq / ne guards that give no
    threshold), guards in the head block and in its predecessors, nested loops, temporaries that are dead at the end of
    their block."""
    nv = rng.randint(2, 4)
    blocks = [[]]
    edges = []
    base = rng.choice([0, 3, 9, 10, 20, 99, -4, -10])
    pool = [base, base + 1, base - 1, base + 2, base + 7, -base, -base - 1, 2 * base + 1, 0, 1, -1]

    def new_block():
        blocks.append([])
        return len(blocks) - 1

    def guard():
        r = rng.random()
        if r < 0.75:
            c = rng.choice([1, 1, 1, -1, -1, 2, -2, 3, -3])
            return (rng.choice(["le", "le", "lt"]), ([(c, rng.randrange(nv))], -rng.choice(pool) * rng.choice([1, 1, abs(c)]) + rng.choice([0, 0, 1])))
        if r < 0.9 and nv >= 2:
            a, b = sorted(rng.sample(range(nv), 2))
            return (rng.choice(["le", "lt"]), ([(1, a), (-1, b)], rng.choice([0, 1, -1, 5])))
        return (rng.choice(["eq", "ne"]), ([(1, rng.randrange(nv))], -rng.choice(pool)))

    def update(b):
        x = rng.randrange(nv)
        r = rng.random()
        if r < 0.6:
            blocks[b].append("arith add %d %d k %d" % (x, x, rng.choice([1, 1, 2, 3, -1, -1, -2, 5])))
        elif r < 0.75 and nv >= 2:
            y = rng.randrange(nv)
            blocks[b].append("arith add %d %d v %d" % (x, x, y))
        elif r < 0.9:
            # a temporary: defined and used in the block, typically dead at its end
            t = rng.randrange(nv)
            blocks[b].append("arith %s %d %d k %d" % (rng.choice(["add", "mul", "sub"]), t, x, rng.choice([1, 2, 3])))
            blocks[b].append("arith add %d %d v %d" % (x, x, t))
        else:
            blocks[b].append(rand_stmt(rng, nv))

    def loop(cur, depth):
        for v in rng.sample(range(nv), rng.randint(1, nv)):
            if rng.random() < 0.7:
                blocks[cur].append("assign %d E 0 %d" % (v, rng.choice([0, 0, 0, 1, -1, 2, rng.choice(pool)])))
        if rng.random() < 0.3:
            blocks[cur].append("assume %s" % fmt_cst(guard()))      # a guard in a predecessor of the head
        h = new_block()
        edges.append((cur, h))
        if rng.random() < 0.25:
            blocks[h].append("assume %s" % fmt_cst(guard()))        # a guard in the head itself
        for _ in range(rng.choice([1, 2, 2, 3])):
            b = new_block()
            edges.append((h, b))
            shape = rng.choices(["count", "skip", "random"], [6, 1, 3])[0]
            if shape == "count":
                # a guarded counter: the guard's constant (+-1) is the threshold that stops the widening
                v = rng.randrange(nv); up = rng.random() < 0.7
                c = rng.choice([1, 1, 1, 2, 3]) * (1 if up else -1)
                kind = rng.choice(["le", "le", "lt"])
                K = abs(rng.choice(pool)) + rng.choice([0, 0, 1, 5]) if up else -abs(rng.choice(pool))
                blocks[b].append("assume %s" % fmt_cst((kind, ([(c, v)], -K * c))))      # v <= K  /  v >= K
                if rng.random() < 0.3:
                    blocks[b].append("assume %s" % fmt_cst(guard()))
                blocks[b].append("arith add %d %d k %d" % (v, v, rng.choice([1, 1, 2, 3]) * (1 if up else -1)))
                if rng.random() < 0.3:
                    update(b)
            elif shape == "random":
                for _ in range(rng.choice([0, 1, 1, 1, 2])):
                    blocks[b].append("assume %s" % fmt_cst(guard()))
                for _ in range(rng.choice([0, 1, 1, 2])):
                    update(b)
            last = b
            if depth < 2 and len(blocks) < 11 and rng.random() < 0.3:
                last = loop(b, depth + 1)
                for _ in range(rng.choice([0, 1])):
                    update(last)
                if rng.random() < 0.5:
                    blocks[last].append("assume %s" % fmt_cst(guard()))
            elif rng.random() < 0.25:
                n = new_block(); edges.append((b, n)); update(n); last = n
            edges.append((last, h))
        ex = new_block()
        edges.append((h, ex))
        if rng.random() < 0.5:
            blocks[ex].append("assume %s" % fmt_cst(guard()))
        return ex

    cur = 0
    for _ in range(rng.choice([1, 1, 2])):
        if len(blocks) > 10:
            break
        cur = loop(cur, 0)
        for _ in range(rng.choice([0, 1, 2])):
            blocks[cur].append(rand_stmt(rng, nv))
    nb = len(blocks)
    if rng.random() < 0.2:
        a, b = rng.randrange(nb), rng.randrange(nb)
        if (a, b) not in edges:
            edges.append((a, b))
    return "cfg %d %d %d" % (nb, nv, cur), blocks, edges


def gen_thrlive(seed, tier, n=None):
    """C01, configurations thr=<max_thresholds> and live=0|1 of intra_fwd_analyzer, varied independently:
    half of the programs come from gen_program (the generator of the plain stream), half from gen_thr_program;
    widening delay 0-3 (mostly small: thresholds act after the delay), descending iterations 0-2, optional
    alternative entry block and initial constraints.  selfcheck=0: the model driver does not run the table checker on
    the model's own tables (they are sound by theorem; after a descending phase over nested loops they need not be
    inductive, neither the model's nor the implementation's)."""
    rng = random.Random(seed)
    n = n or (300 if tier == "quick" else 8000)
    lines = [
        # thresholds make the head invariant [0,10] instead of [0,+oo] (coq: C01_thresholds_example)
        "cfg 5 1 4 delay=1 desc=1 thr=10 live=0 | B 0 assign 0 E 0 0 | B 1 | B 2 assume C le E 1 1 0 -9 ; arith add 0 0 k 1 | B 3 | B 4 | E 0 1 1 2 2 1 1 3 3 1 1 4",
        "cfg 5 1 4 delay=1 desc=1 thr=3 live=0 | B 0 assign 0 E 0 0 | B 1 | B 2 assume C le E 1 1 0 -9 ; arith add 0 0 k 1 | B 3 | B 4 | E 0 1 1 2 2 1 1 3 3 1 1 4",
        # x dead at the end of b0 (coq: C01_liveness_pruning_example)
        "cfg 2 2 1 thr=0 live=1 | B 0 assign 0 E 0 5 ; arith add 1 0 k 1 | B 1 arith add 1 1 k 1 | E 0 1",
        # consecutive thresholds are merged (9+1 replaces nothing, 10+1 replaces 10), negative side, strict, coefficient 2, capacity 4
        "cfg 5 2 4 delay=0 desc=0 thr=50 live=1 | B 0 assign 0 E 0 0 ; assign 1 E 0 0 | B 1 | B 2 assume C le E 1 1 0 -9 ; assume C lt E 1 2 0 -21 ; arith add 0 0 k 1 | B 3 assume C le E 1 -1 1 -5 ; assume C lt E 1 -3 1 -20 ; arith add 1 1 k -1 | B 4 | E 0 1 1 2 2 1 1 3 3 1 1 4",
        "cfg 5 2 4 delay=0 desc=0 thr=4 live=0 | B 0 assign 0 E 0 0 ; assign 1 E 0 0 | B 1 | B 2 assume C le E 1 1 0 -9 ; assume C lt E 1 2 0 -21 ; arith add 0 0 k 1 | B 3 assume C le E 1 -1 1 -5 ; assume C lt E 1 -3 1 -20 ; arith add 1 1 k -1 | B 4 | E 0 1 1 2 2 1 1 3 3 1 1 4",
        # nested cycles: the constants of the inner cycle are not thresholds of the outer one
        "cfg 7 2 6 delay=0 desc=0 thr=10 live=0 | B 0 assign 0 E 0 0 ; assign 1 E 0 0 | B 1 | B 2 assume C le E 1 1 0 -19 ; arith add 0 0 k 1 | B 3 | B 4 assume C le E 1 1 1 -6 ; arith add 1 1 k 1 ; arith add 0 0 k 1 | B 5 | B 6 | E 0 1 1 2 2 3 3 4 4 3 3 5 5 1 1 6",
    ]
    for i in range(n):
        if i % 2 == 0:
            o = {"entry_loop": rng.random() < 0.2}
            header, blocks, edges, _na = gen_program(rng, o)
        else:
            header, blocks, edges = gen_thr_program(rng)
        po = [("delay", rng.choice([0, 0, 1, 1, 2, 3])), ("desc", rng.choice([0, 0, 1, 1, 2])),
              ("thr", rng.choice(THR_VALUES)), ("live", rng.choice([0, 1])), ("selfcheck", 0)]
        if rng.random() < 0.2:
            succ = {}
            for a, b in edges:
                succ.setdefault(a, []).append(b)
            reach = {0}; work = [0]
            while work:
                v = work.pop()
                for x in succ.get(v, []):
                    if x not in reach:
                        reach.add(x); work.append(x)
            po.append(("entry", rng.choice(sorted(reach))))
        extra = []
        if rng.random() < 0.25:
            nv = int(header.split()[2])
            v = rng.randrange(nv)
            extra.append("I C le E 1 -1 %d %d C le E 1 1 %d %d" % (v, rng.randint(-3, 3), v, -rng.randint(3, 9)))
        lines.append(fmt_program(header, blocks, edges, po, extra))
    return lines


def thrlive_key(line):
    """coverage key: which of the two options is active"""
    o = dict(x.split("=") for x in line.split(" | ")[0].split()[4:] if "=" in x)
    t = int(o.get("thr", "0"))
    return "thr=%s live=%s" % ("0" if t == 0 else ("1-3" if t <= 3 else ">3"), o.get("live", "0"))


# ---- boolean statements of harness/cfgtext.hpp (bassign, bcopy, bnot, bbin, bselect, bassume, bnassume, bassert, bhavoc,
# bzext) for the domains that interpret them (flat_boolean_numerical_domain): generator, interpreter and the two oracles.
# The store of an execution is the list of the nv integer variables followed by the booleans b0, b1, ... as 0 / 1.

BOOL_OPS = ("bassign", "bcopy", "bnot", "bbin", "bselect", "bassume", "bnassume", "bassert", "bhavoc", "bzext")


def rand_bstmt(rng, nv, nbool):
    B = lambda: rng.randrange(nbool)
    k = rng.choices(["bassign", "bcopy", "bnot", "bbin", "bselect", "bassume", "bnassume", "bhavoc", "bzext"],
                    [9, 2, 3, 5, 2, 4, 3, 1, 2])[0]
    if k == "bassign":
        c = gen_cst(rng, nv, small=True, maxterms=2)
        if rng.random() < 0.08:
            c = (rng.choice(["eq", "le"]), ([], rng.choice([0, 0, 1, -1])))          # b := true / false
        return "bassign %d %s" % (B(), fmt_cst(c))
    if k in ("bcopy", "bnot"):
        return "%s %d %d" % (k, B(), B())
    if k == "bbin":
        return "bbin %s %d %d %d" % (rng.choice(["and", "or", "xor"]), B(), B(), B())
    if k == "bselect":
        return "bselect %d %d %d %d" % (B(), B(), B(), B())
    if k == "bzext":
        return "bzext %d %d" % (rng.randrange(nv), B())
    return "%s %d" % (k, B())


def add_bool_stmts(line, rng, asserts=False):
    """inserts boolean statements at random places of the blocks of a program of gen(); with asserts=True also
    `bassert` statements (ids after the numerical assertions; the header option nasserts is updated)"""
    secs = line.split(" | ")
    head = secs[0].split()
    nv = int(head[2])
    nbool = rng.randint(1, 3)
    na = 0
    for t in head:
        if t.startswith("nasserts="):
            na = int(t.split("=")[1])
    for i, s in enumerate(secs):
        t = s.split()
        if not t or t[0] != "B":
            continue
        stmts = [x.strip() for x in " ".join(t[2:]).split(" ; ") if x.strip()]
        for _ in range(rng.choice([0, 1, 1, 2, 3])):
            # keep the loop counter update (last statement) and the guards (first statement) where they are, mostly
            stmts.insert(rng.randint(0, len(stmts)), rand_bstmt(rng, nv, nbool))
        if rng.random() < 0.5:
            # b := constraint ... assume(b) / assume(not b) / through a negated copy / through a conjunction: the constraint
            # (or its negation) is recovered at the assume unless a variable of it changed in between
            b = rng.randrange(nbool)
            p = rng.randint(0, len(stmts))
            stmts.insert(p, "bassign %d %s" % (b, fmt_cst(gen_cst(rng, nv, small=True, maxterms=2))))
            q = rng.randint(p + 1, len(stmts))
            use = rng.choice(["a", "a", "n", "not", "and"])
            b2 = rng.randrange(nbool)
            if use == "a": u = ["bassume %d" % b]
            elif use == "n": u = ["bnassume %d" % b]
            elif use == "not": u = ["bnot %d %d" % (b2, b), rng.choice(["bassume %d", "bnassume %d"]) % b2]
            else: u = ["bbin and %d %d %d" % (b2, b, rng.randrange(nbool)), "bassume %d" % b2]
            stmts[q:q] = u
            if asserts and rng.random() < 0.4:
                na += 1
                stmts.insert(rng.randint(q + len(u), len(stmts)), "assert %s %d" % (fmt_cst(gen_cst(rng, nv, kinds=("le", "le", "eq", "ne", "lt"), small=True, maxterms=2)), na))
        if asserts and rng.random() < 0.3:
            na += 1
            stmts.insert(rng.randint(0, len(stmts)), "bassert %d %d" % (rng.randrange(nbool), na))
        secs[i] = "B %s %s" % (t[1], " ; ".join(stmts))
    if asserts:
        head = [t for t in head if not t.startswith("nasserts=")] + ["nasserts=%d" % na]
    secs[0] = " ".join(head)
    return " | ".join(secs)


def parse_stmt_ext(t):
    op = t[0]
    if op not in BOOL_OPS:
        return parse_stmt(t)
    k = Tok(t[1:])
    if op == "bassign":
        b = k.nexti(); return ("bassign", b, p_cst(k))
    if op == "bbin":
        f = k.next(); return ("bbin", f, k.nexti(), k.nexti(), k.nexti())
    if op == "bzext":
        x = k.nexti(); return ("bzext", x, k.nexti())
    return tuple([op] + [int(x) for x in t[1:]])


def parse_ext(line):
    """parse() + boolean statements; P['nbool'] = number of boolean variables"""
    P = parse(line)
    nbool = 0
    for s in line.split(" | ")[1:]:
        t = s.split()
        if not t or t[0] != "B":
            continue
        cur = []; stmts = []
        for x in t[2:] + [";"]:
            if x == ";":
                if cur: stmts.append(cur)
                cur = []
            else:
                cur.append(x)
        ps = [parse_stmt_ext(x) for x in stmts]
        P["blocks"][int(t[1])] = ps
        for st in ps:
            if st[0] in BOOL_OPS:
                bs = {"bassign": st[1:2], "bbin": st[2:5], "bzext": st[2:3], "bassert": st[1:2]}.get(st[0], st[1:])
                nbool = max([nbool] + [b + 1 for b in bs])
    P["nbool"] = nbool
    return P


def exec_stmt_ext(st, s, rng, nv):
    k = st[0]
    if k not in BOOL_OPS:
        return exec_stmt(st, s, rng)
    s = list(s)
    B = lambda i: nv + i
    if k == "bassign":
        s[B(st[1])] = 1 if holds(st[2], s) else 0
    elif k == "bcopy":
        s[B(st[1])] = s[B(st[2])]
    elif k == "bnot":
        s[B(st[1])] = 1 - s[B(st[2])]
    elif k == "bbin":
        a, b = s[B(st[3])], s[B(st[4])]
        s[B(st[2])] = {"and": a & b, "or": a | b, "xor": a ^ b}[st[1]]
    elif k == "bselect":
        s[B(st[1])] = s[B(st[3])] if s[B(st[2])] else s[B(st[4])]
    elif k == "bassume":
        if not s[B(st[1])]: return ("blocked",)
    elif k == "bnassume":
        if s[B(st[1])]: return ("blocked",)
    elif k == "bassert":
        if not s[B(st[1])]: return ("fail", st[2], s)
    elif k == "bhavoc":
        s[B(st[1])] = rng.choice([0, 1])
    elif k == "bzext":
        s[st[1]] = s[B(st[2])]
    return ("ok", s)


def run_concrete_ext(P, rng, nruns=60, maxsteps=120, on_pre=None, on_post=None, on_assert=None):
    """run_concrete for programs with boolean statements (P from parse_ext): the booleans start with arbitrary values;
    on_assert receives (block, statement, store, holds?) for `assert` and `bassert`"""
    entry = int(P["opts"].get("entry", 0))
    nv, nbool = P["nv"], P.get("nbool", 0)
    succ = {}
    for a, b in P["edges"]:
        succ.setdefault(a, [])
        if b not in succ[a]:
            succ[a].append(b)
    for _ in range(nruns):
        s = [rng.choice(POOL) for _ in range(nv)]
        for c in P["init"]:
            if c[0] == "eq" and len(c[1][0]) == 1 and abs(c[1][0][0][0]) == 1:
                s[c[1][0][0][1]] = -c[1][1] * c[1][0][0][0]
        for _try in range(20):
            if all(holds(c, s) for c in P["init"]):
                break
            s = [rng.randint(-10, 10) for _ in range(nv)]
        if not all(holds(c, s) for c in P["init"]):
            continue
        s = s + [rng.choice([0, 1]) for _ in range(nbool)]
        b = entry
        for step in range(maxsteps):
            if b in P["asm"] and not all(holds(c, s) for c in P["asm"][b]):
                break
            w = on_pre(b, s) if on_pre else None
            if w: return w
            blocked = False
            for st in P["blocks"][b]:
                if st[0] in ("assert", "bassert") and on_assert:
                    w = on_assert(b, st, s, holds(st[1], s) if st[0] == "assert" else bool(s[nv + st[1]]))
                    if w: return w
                r = exec_stmt_ext(st, s, rng, nv)
                if r[0] != "ok":
                    blocked = True; break
                s = r[1]
            if blocked:
                break
            w = on_post(b, s) if on_post else None
            if w: return w
            nxt = succ.get(b, [])
            if not nxt:
                break
            b = rng.choice(nxt)
    return None


def oracle_ext(line, ans, rng=None):
    """oracle() for programs with boolean statements: the integer part of every visited store must be inside the
    reported invariant (the tables only list the integer variables)"""
    if ans in ("ABORT", "MISSING") or ans.startswith("HARNESS"):
        return "%s: the analysis aborted" % line
    P = parse_ext(line)
    tabs = parse_tables(ans, P["nb"])
    if tabs is None:
        return None
    nv = P["nv"]
    r0 = random.Random(zlib.crc32(line.encode()))

    def inside(st, s):
        if st == "bot":
            return False
        return all(in_itv(st[v], s[v]) for v in range(min(len(st), nv)) if st[v] is not None)

    def show(s):
        return "%s booleans %s" % (s[:nv], s[nv:])

    def on_pre(b, s):
        if not inside(tabs[b][0], s):
            return "%s: an execution enters b%d with store %s, outside the reported invariant %s" % (line, b, show(s), tabs[b][0])

    def on_post(b, s):
        if not inside(tabs[b][1], s):
            return "%s: an execution leaves b%d with store %s, outside the reported invariant %s" % (line, b, show(s), tabs[b][1])
    return run_concrete_ext(P, r0, on_pre=on_pre, on_post=on_post)


def oracle_verdicts_ext(line, ans, rng=None):
    """oracle_verdicts() for programs with boolean statements and `bassert`"""
    if ans in ("ABORT", "MISSING") or ans.startswith("HARNESS"):
        return "%s: the analysis aborted" % line
    P = parse_ext(line)
    V = parse_verdicts(ans)
    if not V:
        return None
    nv = P["nv"]
    r0 = random.Random(zlib.crc32(line.encode()) ^ 0x5bd1)

    def on_assert(b, st, s, ok):
        v = V.get(st[2], "")
        if "U" in v:
            return "%s: assertion %d (in b%d) was classified unreachable but an execution reaches it with store %s booleans %s" % (line, st[2], b, s[:nv], s[nv:])
        if "S" in v and not ok:
            return "%s: assertion %d (in b%d) was classified safe but an execution reaches it with store %s booleans %s, where it is false" % (line, st[2], b, s[:nv], s[nv:])
    return run_concrete_ext(P, r0, nruns=120, on_assert=on_assert)
