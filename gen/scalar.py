"""Case generator and property-level oracle for the scalar (interval) family.
Case line:  itv <op> <A> [<B>]   A,B ::= bot | lb:ub ; bounds -oo | +oo | decimal."""
import random, re

BIN_OPS = ["add", "sub", "mul", "div", "srem", "urem", "udiv", "and", "or", "xor", "shl",
           "ashr", "lshr", "join", "meet", "widen", "narrow", "trim", "leq", "eq"]
UN_OPS = ["neg", "lower", "upper", "isbot", "istop", "singleton"]
NINF, PINF = "-oo", "+oo"


def fmt(i):
    return "bot" if i is None else "%s:%s" % (i[0], i[1])


def boundary_pool():
    vals = [-(2 ** 70), -(2 ** 63), -129, -8, -7, -5, -3, -2, -1, 0, 1, 2, 3, 5, 7, 8, 63, 64, 128,
            129, 2 ** 31, 2 ** 63, 2 ** 70]
    pool = [None, (NINF, PINF)]
    for v in [-7, -5, -2, -1, 0, 1, 2, 3, 8, 64, 128, 129, -129, 2 ** 63, -(2 ** 63)]:
        pool.append((v, v))
    for (l, u) in [(-7, -5), (-3, -2), (2, 3), (5, 7), (-1, 1), (-5, 3), (0, 1), (-1, 0), (0, 7),
                   (1, 8), (-8, -1), (-8, 0), (0, 0), (10, 20), (-20, -10), (3, 2 ** 31),
                   (-(2 ** 63), 2 ** 63), (2 ** 63, 2 ** 70), (-(2 ** 70), -(2 ** 63)), (1, 129),
                   (0, 128)]:
        pool.append((l, u))
    for v in [-5, -1, 0, 1, 2, 7]:
        pool.append((NINF, v))
        pool.append((v, PINF))
    return pool


def rand_itv(rng):
    k = rng.random()
    if k < 0.04:
        return None
    if k < 0.08:
        return (NINF, PINF)
    mag = rng.choice([4, 4, 10, 10, 40, 200, 2 ** 20, 2 ** 40, 2 ** 64, 2 ** 72])
    a = rng.randint(-mag, mag)
    if k < 0.25:
        return (a, a)
    b = a + rng.choice([0, 1, 2, 3, 5, 17, mag // 2 + 1, mag])
    if k < 0.35:
        return (NINF, b)
    if k < 0.45:
        return (a, PINF)
    return (a, b)


def gen(seed, tier):
    rng = random.Random(seed)
    lines = []
    corpus = ["itv div -7:-5 2:3", "itv div -7:-5 -3:-2", "itv div 10:10 2:+oo", "itv div 10:20 -oo:-2",
              "itv ashr -5:-5 1:1", "itv ashr -7:-3 1:1", "itv ashr -oo:-3 2:2", "itv div -20:-10 2:+oo",
              "itv div 1:+oo 1:+oo", "itv div -oo:+oo 0:0", "itv div 0:0 -3:5", "itv div 5:9 0:1"]
    lines += corpus
    pool = boundary_pool()
    # boundary stream: every operator on every ordered pair of the pool (quick: a seeded
    # subset of the pairs; thorough: all of them)
    pairs = [(a, b) for a in pool for b in pool]
    if tier == "quick":
        rng.shuffle(pairs)
        pairs = pairs[:700]
    for (a, b) in pairs:
        for op in BIN_OPS:
            lines.append("itv %s %s %s" % (op, fmt(a), fmt(b)))
    for a in pool:
        for op in UN_OPS:
            lines.append("itv %s %s" % (op, fmt(a)))
        for n in [-6, -5, 0, 1, 3, 2 ** 63]:
            lines.append("itv mem %s %d" % (fmt(a), n))
    nrand = 6000 if tier == "quick" else 120000
    shifts = [(k, k) for k in (0, 1, 2, 3, 7, 31, 63, 64, 65, 127, 128, 129, 200, -1)]
    for _ in range(nrand):
        op = rng.choice(BIN_OPS + ["div", "div", "srem", "mul", "ashr", "lshr", "shl"])
        a = rand_itv(rng)
        b = rng.choice(shifts) if (op in ("shl", "ashr", "lshr") and rng.random() < 0.8) else rand_itv(rng)
        lines.append("itv %s %s %s" % (op, fmt(a), fmt(b)))
    for _ in range(nrand // 10):
        lines.append("itv %s %s" % (rng.choice(UN_OPS), fmt(rand_itv(rng))))
    return lines


# ------------------------------------------------------------------ oracle

def parse_case_itv(s):
    if s == "bot":
        return None
    l, u = s.split(":")
    l = None if l == NINF else int(l)
    u = None if u == PINF else int(u)
    if l is not None and u is not None and l > u:
        return None
    return (l, u)   # None bound = infinite on that side


def parse_answer_itv(s):
    s = s.strip()
    if s == "_|_":
        return "bot"
    m = re.match(r"^\[(\S+), (\S+)\]$", s)
    if not m:
        return "?"
    l = None if m.group(1) == NINF else (int(m.group(1)) if m.group(1) != PINF else "pinf")
    u = None if m.group(2) == PINF else (int(m.group(2)) if m.group(2) != NINF else "ninf")
    return (l, u)


def member(ans, z):
    if ans == "bot" or ans == "?":
        return False
    l, u = ans
    if l == "pinf" or u == "ninf":
        return False
    return (l is None or l <= z) and (u is None or z <= u)


def samples(i, rng, n=7):
    if i is None:
        return []
    l, u = i
    out = set()
    if l is not None and u is not None:
        if u - l <= 2 * n:
            return list(range(l, u + 1))
        out |= {l, l + 1, u - 1, u}
        for c in (0, 1, -1):
            if l <= c <= u:
                out.add(c)
        while len(out) < n + 4:
            out.add(rng.randint(l, u))
    elif l is None and u is None:
        out |= {0, 1, -1, 2, -2, 7, -7, 1000, -1000, 2 ** 64 + 3, -(2 ** 64) - 3}
    elif l is None:
        out |= {u, u - 1, u - 2, u - 7, u - 1000, u - 2 ** 65}
        for c in (0, 1, -1):
            if c <= u:
                out.add(c)
    else:
        out |= {l, l + 1, l + 2, l + 7, l + 1000, l + 2 ** 65}
        for c in (0, 1, -1):
            if c >= l:
                out.add(c)
    return sorted(out)


def tdiv(x, y):
    q = abs(x) // abs(y)
    return q if (x >= 0) == (y >= 0) else -q


def trem(x, y):
    return x - y * tdiv(x, y)


def ext_mul(a, b):  # extended product with 0 * inf = 0; a,b in int or +-inf floats
    if a == 0 or b == 0:
        return 0
    inf = float("inf")
    if a in (inf, -inf) or b in (inf, -inf):
        return inf if (a > 0) == (b > 0) else -inf
    return a * b


def tight_expected(op, a, b):
    """smallest interval containing op(x,y); bounds as int / +-inf; None = bottom"""
    inf = float("inf")
    def lo(i): return -inf if i[0] is None else i[0]
    def hi(i): return inf if i[1] is None else i[1]
    if op != "join" and (a is None or (op != "neg" and b is None)):
        return None
    if op == "neg":
        return (-hi(a), -lo(a))
    if op == "join":
        if a is None:
            return None if b is None else (lo(b), hi(b))
        if b is None:
            return (lo(a), hi(a))
        return (min(lo(a), lo(b)), max(hi(a), hi(b)))
    if op == "meet":
        l, u = max(lo(a), lo(b)), min(hi(a), hi(b))
        return None if l > u else (l, u)
    if op == "add":
        return (lo(a) + lo(b), hi(a) + hi(b))
    if op == "sub":
        return (lo(a) - hi(b), hi(a) - lo(b))
    if op == "mul":
        cs = [ext_mul(p, q) for p in (lo(a), hi(a)) for q in (lo(b), hi(b))]
        return (min(cs), max(cs))
    return "skip"


def oracle(line, ans, rng=None):
    """Property C08 on the implementation's answer: returns None if no concrete
    counterexample was found, else a text describing the failing input."""
    rng = rng or random.Random(1)
    t = line.split()
    op = t[1]
    a = parse_case_itv(t[2])
    if op == "mem":
        z = int(t[3])
        exp = a is not None and (a[0] is None or a[0] <= z) and (a[1] is None or z <= a[1])
        return None if ans == ("true" if exp else "false") else \
            "%s: membership of %d answered %s" % (line, z, ans)
    if len(t) == 3:
        if op == "neg":
            r = parse_answer_itv(ans)
            for x in samples(a, rng):
                if not member(r, -x):
                    return "%s = %s but -(%d) = %d is not in it" % (line, ans, x, -x)
            exp = tight_expected("neg", a, None)
            return check_tight(line, ans, r, exp)
        if op in ("lower", "upper"):
            r = parse_answer_itv(ans)
            for x in samples(a, rng):
                for d in (0, 1, 1000):
                    z = x - d if op == "lower" else x + d
                    if not member(r, z):
                        return "%s = %s misses %d" % (line, ans, z)
            return None
        if op == "isbot":
            return None if ans == ("true" if a is None else "false") else "%s answered %s" % (line, ans)
        if op == "istop":
            return None if ans == ("true" if a == (None, None) else "false") else "%s answered %s" % (line, ans)
        if op == "singleton":
            exp = str(a[0]) if (a is not None and a[0] is not None and a[0] == a[1]) else "none"
            return None if ans == exp else "%s answered %s" % (line, ans)
        return None
    b = parse_case_itv(t[3])
    if op in ("leq", "eq"):
        if ans == "true":
            for x in samples(a, rng):
                if not in_itv(b, x):
                    return "%s answered true but %d is in the left operand only" % (line, x)
            if op == "eq":
                for x in samples(b, rng):
                    if not in_itv(a, x):
                        return "%s answered true but %d is in the right operand only" % (line, x)
        else:
            if op == "leq" and (a is None or b == (None, None) or a == b):
                return "%s answered false (bottom on the left / top on the right / equal operands)" % line
            if op == "eq" and a == b:
                return "%s answered false on equal operands" % line
        return None
    r = parse_answer_itv(ans)
    if r == "?":
        return "%s: unparsable answer %r" % (line, ans)
    xs, ys = samples(a, rng), samples(b, rng)
    if op in ("join", "widen"):
        for x in xs + ys:
            if not member(r, x):
                return "%s = %s but %d is in an operand" % (line, ans, x)
    elif op in ("meet", "narrow"):
        for x in xs + ys:
            if in_itv(a, x) and in_itv(b, x) and not member(r, x):
                return "%s = %s but %d is in both operands" % (line, ans, x)
    elif op == "trim":
        if b is not None and b[0] is not None and b[0] == b[1]:
            for x in xs:
                if x != b[0] and not member(r, x):
                    return "%s = %s but %d (different from %d) is in the left operand" % (line, ans, x, b[0])
    elif op == "udiv":
        pass
    else:
        for x in xs:
            for y in ys:
                vals = []
                if op == "add": vals = [x + y]
                elif op == "sub": vals = [x - y]
                elif op == "mul": vals = [x * y]
                elif op == "div":
                    if y != 0: vals = [tdiv(x, y)]
                elif op == "srem":
                    if y != 0: vals = [trem(x, y)]
                elif op == "urem":
                    if y > 0:
                        if x >= 0: vals = [x % y]
                        else: vals = [(x % (2 ** w)) % y for w in (8, 16, 32, 64, 128) if y < 2 ** w]
                elif op == "and": vals = [x & y]
                elif op == "or": vals = [x | y]
                elif op == "xor": vals = [x ^ y]
                elif op == "shl":
                    if 0 <= y <= 300: vals = [x << y]
                elif op == "ashr":
                    if 0 <= y <= 10 ** 6: vals = [x >> y]
                elif op == "lshr":
                    if 0 <= y <= 10 ** 6 and x >= 0: vals = [x >> y]
                for v in vals:
                    if not member(r, v):
                        return "%s = %s but %s(%d, %d) = %d is not in it" % (line, ans, op, x, y, v)
    if op in ("add", "sub", "mul", "join", "meet"):
        exp = tight_expected(op, a, b)
        return check_tight(line, ans, r, exp)
    return None


def in_itv(i, x):
    return i is not None and (i[0] is None or i[0] <= x) and (i[1] is None or x <= i[1])


def check_tight(line, ans, r, exp):
    if exp == "skip":
        return None
    inf = float("inf")
    if exp is None:
        return None if r == "bot" else "%s = %s but the smallest sound interval is bottom" % (line, ans)
    if r == "bot":
        return None  # unsoundness of a bottom answer is reported by the membership test
    l = -inf if r[0] is None else r[0]
    u = inf if r[1] is None else r[1]
    if l == "pinf" or u == "ninf":
        return "%s = %s is ill-formed" % (line, ans)
    if l < exp[0] or u > exp[1]:
        return "%s = %s is not the smallest interval: [%s, %s] is sound" % (line, ans, exp[0], exp[1])
    return None


def nontrivial(line, ans):
    """rule: the operands are both non-bottom and the answer is neither bottom nor top"""
    t = line.split()
    if "bot" in t[2:]:
        return False
    return ans not in ("_|_", "[-oo, +oo]")
