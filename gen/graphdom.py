"""Generator and property-level oracle for property C12 (intervals / zones / octagons are exact
on their constraint language).  Case format: harness/domhist.hpp, optionally prefixed by
"P <bits>" (closure-related crab_domain_params, see harness/graphdom.cpp).

Generator: histories built only from in-language constraints, joins, meets, forgets, copies,
normalize() calls and in-language assignments.  A small reference closure (Floyd-Warshall on
python ints, written independently of the Coq model) is used ONLY to aim queries: after a step
the generator asks entails(e <= k) at the tightest k (expected true) and at k-1 (expected
false) for differences / sums of pairs of variables.

Oracle: does not use any closure algorithm.  It rebuilds, for every register, the conjunction
of in-language constraints that the property says the value must be equivalent to (assume =
conjunction, meet = union of conjunctions, forget = existential variable, join = all
in-language constraints valid on both operands, decided by search) and decides every question
by exhaustive backtracking search over integer points of a box [-B,B]^n whose radius B exceeds
the sum of the absolute values of all constants involved (small-model property of difference
and octagonal constraints), then compares every answer of the implementation and prints a
concrete witness (a store, or the exhausted box) on a difference."""
import random, re, zlib, itertools

INF = None
KS = [0, 0, 1, -1, 1, -1, 2, -2, 3, 5, -5, 7, 10, -10, 100, -100, 2 ** 20, -(2 ** 20), 2 ** 40, -(2 ** 40)]
KS_SMALL = [0, 0, 1, -1, 1, 2, -2, 3, -3, 4]


# ------------------------------------------------------------------ reference closure (aiming queries only)
class Ref:
    """exact value of a register: None (bottom) or a closed matrix.  lang: 'interval'|'zone'|'oct'."""

    def __init__(self, lang, nv):
        self.lang, self.nv = lang, nv
        self.n = 2 * nv if lang == "oct" else nv + 1

    def top(self):
        n = self.n
        return [[0 if i == j else INF for j in range(n)] for i in range(n)]

    # literal -> node;  zones: node 0 = zero, v+1;  oct: 2v = +v, 2v+1 = -v
    def edges_leq(self, terms, k):
        """edges (a, b, w) meaning val b - val a <= w for  sum terms + k <= 0"""
        if self.lang == "oct":
            lit = lambda c, v: 2 * v if c == 1 else 2 * v + 1
            if len(terms) == 1:
                (c, v), = terms
                p = lit(c, v)
                return [(p ^ 1, p, -2 * k)]
            (c, x), (d, y) = terms
            p, q = lit(c, x), lit(d, y)
            return [(q ^ 1, p, -k), (p ^ 1, q, -k)]
        pos = [v + 1 for c, v in terms if c == 1]
        neg = [v + 1 for c, v in terms if c == -1]
        p = pos[0] if pos else 0
        q = neg[0] if neg else 0
        return [(q, p, -k)]

    def edges(self, cst):
        kind, (terms, k) = cst
        if kind == "le":
            return self.edges_leq(terms, k)
        if kind == "lt":
            return self.edges_leq(terms, k + 1)
        return self.edges_leq(terms, k) + self.edges_leq([(-c, v) for c, v in terms], -k)

    def close(self, m):
        if m is None:
            return None
        n = self.n
        m = [r[:] for r in m]
        while True:
            for k in range(n):
                mk = m[k]
                for i in range(n):
                    a = m[i][k]
                    if a is INF:
                        continue
                    mi = m[i]
                    for j in range(n):
                        b = mk[j]
                        if b is not INF and (mi[j] is INF or a + b < mi[j]):
                            mi[j] = a + b
            if any(m[i][i] < 0 for i in range(n)):
                return None
            if self.lang != "oct":
                return m
            changed = False
            for i in range(n):
                w = m[i][i ^ 1]
                if w is not INF and w % 2:
                    m[i][i ^ 1] = w - 1
                    changed = True
            for i in range(n):
                a, b = m[i][i ^ 1], m[i ^ 1][i]
                if a is not INF and b is not INF and a + b < 0:
                    return None
            for i in range(n):
                for j in range(n):
                    a, b = m[i][i ^ 1], m[j ^ 1][j]
                    if a is not INF and b is not INF:
                        w = (a + b) // 2
                        if m[i][j] is INF or w < m[i][j]:
                            m[i][j] = w
                            changed = True
            if not changed:
                return m

    def add(self, m, csts):
        if m is None:
            return None
        m = [r[:] for r in m]
        for c in csts:
            for a, b, w in self.edges(c):
                if m[a][b] is INF or w < m[a][b]:
                    m[a][b] = w
        return self.close(m)

    def join(self, a, b):
        if a is None:
            return b
        if b is None:
            return a
        n = self.n
        return [[INF if (a[i][j] is INF or b[i][j] is INF) else max(a[i][j], b[i][j]) for j in range(n)] for i in range(n)]

    def meet(self, a, b):
        if a is None or b is None:
            return None
        n = self.n
        m = [[b[i][j] if a[i][j] is INF else a[i][j] if b[i][j] is INF else min(a[i][j], b[i][j]) for j in range(n)] for i in range(n)]
        return self.close(m)

    def nodes_of(self, v):
        return [2 * v, 2 * v + 1] if self.lang == "oct" else [v + 1]

    def forget(self, m, vs):
        if m is None:
            return None
        m = [r[:] for r in m]
        for v in vs:
            for p in self.nodes_of(v):
                for i in range(self.n):
                    if i != p:
                        m[i][p] = INF
                        m[p][i] = INF
        return m

    def assign(self, m, x, e):
        terms, k = e
        if m is None:
            return None
        if terms and terms[0][1] == x:          # x := x + k  (coefficient 1)
            m = [r[:] for r in m]
            if self.lang == "oct":
                d = {2 * x: k, 2 * x + 1: -k}
            else:
                d = {x + 1: k}
            for i in range(self.n):
                for j in range(self.n):
                    if m[i][j] is not INF:
                        m[i][j] += d.get(j, 0) - d.get(i, 0)
            return m
        m = self.forget(m, [x])
        if not terms:
            return self.add(m, [("eq", ([(1, x)], -k))])
        (c, y), = terms
        ts = sorted([(1, x), (-c, y)], key=lambda t: t[1])
        return self.add(m, [("eq", (ts, -k))])

    def tight(self, m, terms):
        """tightest k with  sum terms <= k  (None = unbounded)"""
        (a, b, w), = [e for e in self.edges_leq(terms, 0)][:1]
        v = m[a][b]
        if v is INF:
            return None
        return v // 2 if (self.lang == "oct" and len(terms) == 1) else v

    def leq(self, a, b):
        if a is None:
            return True
        if b is None:
            return False
        n = self.n
        return all(b[i][j] is INF or (a[i][j] is not INF and a[i][j] <= b[i][j]) for i in range(n) for j in range(n))


def fmt_exp(e):
    terms, k = e
    return "E %d %s%d" % (len(terms), "".join("%d %d " % (c, v) for c, v in terms), k)


def fmt_cst(c):
    return "C %s %s" % (c[0], fmt_exp(c[1]))


def lang_cst(rng, lang, nv, ks):
    kind = rng.choice(["le", "le", "le", "le", "eq", "lt"])
    k = rng.choice(ks)
    x = rng.randrange(nv)
    shape = rng.random()
    if lang == "interval" or shape < 0.3 or nv < 2:
        return (kind, ([(rng.choice([1, -1]), x)], k))
    y = rng.choice([v for v in range(nv) if v != x])
    a, b = min(x, y), max(x, y)
    if lang == "zone" or shape < 0.6:
        s = rng.choice([1, -1])
        return (kind, ([(s, a), (-s, b)], k))
    s = rng.choice([1, -1])
    return (kind, ([(s, a), (s, b)], k))


def shapes(lang, nv):
    out = []
    for x in range(nv):
        for y in range(x + 1, nv):
            out.append([(1, x), (-1, y)])
            out.append([(-1, x), (1, y)])
            if lang == "oct":
                out.append([(1, x), (1, y)])
                out.append([(-1, x), (-1, y)])
    return out


def gen_history(rng, lang, opts):
    nregs = rng.randint(2, 4)
    nv = rng.randint(opts.get("minvars", 2), opts.get("maxvars", 5))
    ks = opts.get("ks", KS)
    ref = Ref(lang, nv)
    regs = [ref.top() for _ in range(nregs)]
    ops = []
    nops = rng.randint(opts.get("minops", 4), opts.get("maxops", 24))
    allowed = opts.get("ops", ["assume"] * 9 + ["join"] * 3 + ["meet"] * 3 + ["forget"] * 2 + ["copy"] * 2 +
                       ["normalize", "q_leq", "q_leq", "top", "bounds", "bounds"] + (["assign"] * 2 if opts.get("assign", True) else []))
    qprob = opts.get("qprob", 0.6)
    big = 2 ** 41

    def queries(r):
        m = regs[r]
        if m is None or lang == "interval":
            return
        sh = shapes(lang, nv)
        rng.shuffle(sh)
        for terms in sh[:opts.get("maxq", 4)]:
            k = ref.tight(m, terms)
            if k is None:
                ops.append("q_entails %d %s" % (r, fmt_cst(("le", (terms, -big)))))
            else:
                ops.append("q_entails %d %s" % (r, fmt_cst(("le", (terms, -k)))))
                ops.append("q_entails %d %s" % (r, fmt_cst(("le", (terms, -(k - 1))))))

    for _ in range(nops):
        r = rng.randrange(nregs)
        pick = rng.choice(allowed)
        if pick in ("assume", "assume1"):
            n = 1 if pick == "assume1" else rng.choice([1, 1, 1, 2, 2, 3])
            cs = [lang_cst(rng, lang, nv, ks) for _ in range(n)]
            ops.append("assume %d %d %s" % (r, n, " ".join(map(fmt_cst, cs))))
            regs[r] = ref.add(regs[r], cs)
        elif pick == "bounds":
            v = rng.randrange(nv)
            lo = rng.choice(ks[:12]); hi = lo + rng.choice([0, 1, 2, 5] if ks is KS_SMALL else [0, 1, 2, 5, 10, 100])
            cs = [("le", ([(-1, v)], lo)), ("le", ([(1, v)], -hi))]
            ops.append("assume %d 2 %s" % (r, " ".join(map(fmt_cst, cs))))
            regs[r] = ref.add(regs[r], cs)
        elif pick == "assign":
            x = rng.randrange(nv)
            y = rng.randrange(nv)
            k = rng.choice(ks[:14])
            form = rng.random()
            if form < 0.3:
                e = ([], k)
            elif lang == "interval":
                continue
            elif lang == "oct" and form < 0.5 and y != x:
                e = ([(-1, y)], k)
            else:
                e = ([(1, y)], k)
            ops.append("assign %d %d %s" % (r, x, fmt_exp(e)))
            regs[r] = ref.assign(regs[r], x, e)
        elif pick in ("join", "meet"):
            s, t = rng.randrange(nregs), rng.randrange(nregs)
            ops.append("%s %d %d %d" % (pick, r, s, t))
            regs[r] = ref.join(regs[s], regs[t]) if pick == "join" else ref.meet(regs[s], regs[t])
        elif pick == "forget":
            n = rng.randint(1, max(1, nv - 1))
            vs = rng.sample(range(nv), n)
            ops.append("forget %d %d %s" % (r, n, " ".join(map(str, vs))))
            regs[r] = ref.forget(regs[r], vs)
        elif pick == "copy":
            s = rng.randrange(nregs)
            ops.append("copy %d %d" % (r, s))
            regs[r] = regs[s]
        elif pick == "top":
            ops.append("top %d" % r)
            regs[r] = ref.top()
        elif pick == "bot":
            ops.append("bot %d" % r)
            regs[r] = None
        elif pick == "normalize":
            ops.append("%s %d" % (rng.choice(["normalize", "minimize"]), r))
        elif pick == "q_leq":
            ops.append("q_leq %d %d" % (rng.randrange(nregs), rng.randrange(nregs)))
            continue
        if rng.random() < qprob:
            queries(r)
    line = "hist %d %d ; %s" % (nregs, nv, " ; ".join(ops))
    if opts.get("params"):
        line = "P %s %s" % ("".join(rng.choice("01") for _ in range(4)), line)
    return line


def gen_chain(rng, lang, opts):
    """boundary shape: the relations of a path (or cycle) over all variables, added one by one in
    random order together with a few bounds, then every pair of variables is queried: each
    bound needs the transitive step through edges that were added before AND after it"""
    nv = rng.randint(3, min(5, max(3, opts.get("maxvars", 5))))
    ref = Ref(lang, nv)
    m = ref.top()
    perm = list(range(nv)); rng.shuffle(perm)
    cs = []
    for i in range(nv - 1 + rng.randint(0, 1)):
        x, y = perm[i % nv], perm[(i + 1) % nv]
        k = rng.choice([0, 1, -1, 2, 3, -3, 5, 10])
        if i >= nv - 1:
            k = abs(k) + 12          # closing edge: keep the cycle non-negative most of the time
        if lang == "oct" and rng.random() < 0.4:
            sx, sy = rng.choice([1, -1]), rng.choice([1, -1])
        else:
            sx, sy = 1, -1
        ts = sorted([(sx, x), (sy, y)], key=lambda t: t[1])
        cs.append((rng.choice(["le", "le", "le", "eq", "lt"]), (ts, k)))
    for _ in range(rng.randint(0, 2)):
        v = rng.randrange(nv)
        cs.append(("le", ([(rng.choice([1, -1]), v)], rng.choice([0, -5, 5, -20]))))
    rng.shuffle(cs)
    ops = []
    for c in cs:
        ops.append("assume 0 1 %s" % fmt_cst(c))
        m = ref.add(m, [c])
    if m is not None:
        sh = shapes(lang, nv)
        rng.shuffle(sh)
        for terms in sh[:12]:
            k = ref.tight(m, terms)
            if k is None:
                ops.append("q_entails 0 %s" % fmt_cst(("le", (terms, -(2 ** 41)))))
            else:
                ops.append("q_entails 0 %s" % fmt_cst(("le", (terms, -k))))
                ops.append("q_entails 0 %s" % fmt_cst(("le", (terms, -(k - 1)))))
    if "forget" in opts.get("ops", ["forget"]):
        v = rng.randrange(nv)
        ops.append("forget 0 1 %d" % v)
    line = "hist 2 %d ; %s" % (nv, " ; ".join(ops))
    if opts.get("params"):
        line = "P %s %s" % ("".join(rng.choice("01") for _ in range(4)), line)
    return line


def gen_joinbox(rng, lang, opts):
    """boundary shape: two values given by bounds (boxes, points) and/or one relation each are
    joined; the join must keep every relation that each side implies, be it through an explicit
    edge or only through its bounds; then the result is queried on every pair and met again"""
    nv = rng.randint(2, min(3, max(2, opts.get("maxvars", 5))))
    ref = Ref(lang, nv)
    regs = [ref.top(), ref.top(), ref.top()]
    ops = []
    for r in (0, 1):
        cs = []
        for v in range(nv):
            u = rng.random()
            if u < 0.85:
                # both bounds, or a half-open interval (only a lower / only an upper bound)
                lo = rng.choice([0, 1, -1, 2, 5, -5, 10]); hi = lo + rng.choice([0, 0, 1, 2, 5])
                if u < 0.55 or u >= 0.70:
                    cs.append(("le", ([(-1, v)], lo)))
                if u < 0.70:
                    cs.append(("le", ([(1, v)], -hi)))
        if rng.random() < 0.6:
            x, y = rng.sample(range(nv), 2)
            sx, sy = (rng.choice([1, -1]), rng.choice([1, -1])) if (lang == "oct" and rng.random() < 0.5) else (1, -1)
            ts = sorted([(sx, x), (sy, y)], key=lambda t: t[1])
            cs.append((rng.choice(["le", "eq"]), (ts, rng.choice([0, 1, -1, 2, -3, 5]))))
        rng.shuffle(cs)
        for i in range(0, len(cs), 2):
            part = cs[i:i + 2]
            ops.append("assume %d %d %s" % (r, len(part), " ".join(map(fmt_cst, part))))
            regs[r] = ref.add(regs[r], part)
    a, b = rng.sample([0, 1], 2)
    ops.append("join 2 %d %d" % (a, b))
    regs[2] = ref.join(regs[a], regs[b])
    if regs[2] is not None:
        sh = shapes(lang, nv)
        rng.shuffle(sh)
        for terms in sh[:8]:
            k = ref.tight(regs[2], terms)
            if k is None:
                ops.append("q_entails 2 %s" % fmt_cst(("le", (terms, -(2 ** 41)))))
            else:
                ops.append("q_entails 2 %s" % fmt_cst(("le", (terms, -k))))
                ops.append("q_entails 2 %s" % fmt_cst(("le", (terms, -(k - 1)))))
    ops.append("q_leq 0 2"); ops.append("q_leq 2 %d" % rng.choice([0, 1]))
    if "meet" in opts.get("ops", ["meet"]):
        ops.append("meet 2 2 %d" % rng.choice([0, 1]))
    line = "hist 3 %d ; %s" % (nv, " ; ".join(ops))
    if opts.get("params"):
        line = "P %s %s" % ("".join(rng.choice("01") for _ in range(4)), line)
    return line


# hand-picked cases (always first)
CORPUS = {
    "zone": [
        # bounds propagate through a chain of differences, in both orders
        "hist 2 3 ; assume 0 1 C le E 2 1 0 -1 1 -3 ; assume 0 1 C le E 1 1 1 -10 ; q_entails 0 C le E 1 1 0 -13 ; q_entails 0 C le E 1 1 0 -12 ; assume 0 1 C le E 2 1 1 -1 2 0 ; q_entails 0 C le E 2 1 0 -1 2 -3 ; q_entails 0 C le E 2 1 0 -1 2 -2 ; forget 0 1 1 ; q_entails 0 C le E 2 1 0 -1 2 -3 ; q_entails 0 C le E 2 1 0 -1 2 -2",
        "hist 2 3 ; assume 0 1 C le E 1 1 1 -10 ; assume 0 1 C le E 2 1 0 -1 1 -3 ; q_entails 0 C le E 1 1 0 -13 ; q_entails 0 C le E 1 1 0 -12",
        # negative cycle of length 3
        "hist 2 3 ; assume 0 1 C le E 2 1 0 -1 1 0 ; assume 0 1 C le E 2 1 1 -1 2 0 ; assume 0 1 C lt E 2 -1 0 1 2 0",
        # difference implied by bounds only
        "hist 2 2 ; assume 0 2 C le E 1 1 0 -5 C le E 1 -1 1 2 ; q_entails 0 C le E 2 1 0 -1 1 -3 ; q_entails 0 C le E 2 1 0 -1 1 -2",
        # join keeps the relation that both sides imply through their bounds
        "hist 3 2 ; assume 0 2 C eq E 1 1 0 0 C eq E 1 1 1 0 ; assume 1 2 C eq E 1 1 0 -5 C eq E 1 1 1 -5 ; join 2 0 1 ; q_entails 2 C eq E 2 1 0 -1 1 0 ; q_entails 2 C le E 2 1 0 -1 1 1",
        # meet of two relational values that is empty
        "hist 3 2 ; assume 0 1 C le E 2 1 0 -1 1 1 ; assume 1 1 C le E 2 -1 0 1 1 0 ; meet 2 0 1 ; q_leq 2 0 ; q_leq 0 2",
        # forget keeps what the closure had derived
        "hist 2 3 ; assume 0 2 C le E 2 1 0 -1 1 0 C le E 2 1 1 -1 2 0 ; forget 0 1 1 ; q_entails 0 C le E 2 1 0 -1 2 0 ; q_entails 0 C le E 2 1 0 -1 2 1",
        "hist 2 2 ; assume 0 1 C eq E 2 1 0 -1 1 0 ; assume 0 2 C le E 1 -1 0 0 C le E 1 1 0 -7 ; forget 0 1 0",
        # inclusion over different variable sets
        "hist 3 3 ; assume 0 1 C le E 1 1 0 -1 ; assume 1 1 C le E 1 1 0 -5 ; assume 1 1 C le E 2 1 1 -1 2 0 ; forget 1 2 1 2 ; q_leq 0 1 ; q_leq 1 0 ; join 2 0 1 ; q_leq 0 2 ; q_leq 1 2",
    ],
    "oct": [
        "hist 2 2 ; assume 0 1 C le E 2 1 0 1 1 -3 ; assume 0 1 C le E 2 1 0 -1 1 -1 ; q_entails 0 C le E 1 1 0 -2 ; q_entails 0 C le E 1 1 0 -1",
        # integer tightening: x + y <= 1 and x - y <= 0 give 2x <= 1, i.e. x <= 0
        "hist 2 2 ; assume 0 2 C le E 2 1 0 1 1 -1 C le E 2 1 0 -1 1 0 ; q_entails 0 C le E 1 1 0 0",
        # rational but not integer solution: x + y = 1, x - y = 0
        "hist 2 2 ; assume 0 2 C eq E 2 1 0 1 1 -1 C eq E 2 1 0 -1 1 0",
        "hist 2 3 ; assume 0 2 C le E 2 1 0 1 1 -3 C le E 2 -1 1 1 2 0 ; q_entails 0 C le E 2 1 0 1 2 -3 ; q_entails 0 C le E 2 1 0 1 2 -2 ; forget 0 1 1 ; q_entails 0 C le E 2 1 0 1 2 -3",
        "hist 3 2 ; assume 0 2 C eq E 1 1 0 0 C eq E 1 1 1 0 ; assume 1 2 C eq E 1 1 0 -5 C eq E 1 1 1 5 ; join 2 0 1 ; q_entails 2 C eq E 2 1 0 1 1 0",
    ],
    "interval": [
        "hist 2 2 ; assume 0 2 C le E 1 1 0 -5 C lt E 1 -1 0 5 ; assume 0 1 C lt E 1 1 0 -5",
        "hist 3 2 ; assume 0 1 C eq E 1 1 0 -3 ; assume 1 1 C le E 1 -1 0 7 ; join 2 0 1 ; q_entails 2 C le E 1 -1 0 3 ; q_entails 2 C le E 1 -1 0 4 ; meet 2 0 1",
    ],
}
DEFECTS = [
    # inclusion when the right operand knows a variable without constraints (fixed: graphdom-4)
    "hist 2 2 ; assume 1 1 C le E 1 1 0 0 ; copy 0 1 ; assign 1 1 E 1 1 1 -10 ; q_leq 0 1 ; q_leq 1 0",
    # meet: the bounds of one operand travel along the relations of the other (fixed: graphdom-1, graphdom-3)
    "P 0001 hist 3 2 ; assume 1 2 C le E 1 -1 0 0 C le E 1 1 0 -5 ; assume 0 1 C eq E 2 -1 0 1 1 2 ; meet 2 0 1 ; meet 2 1 0",
    "P 1111 hist 3 2 ; assume 1 2 C le E 1 -1 0 0 C le E 1 1 0 -5 ; assume 0 1 C eq E 2 -1 0 1 1 2 ; meet 2 0 1 ; meet 2 1 0",
    "hist 3 2 ; assume 1 2 C le E 1 -1 0 0 C le E 1 1 0 -5 ; assume 0 1 C eq E 2 -1 0 1 1 2 ; meet 2 0 1 ; meet 2 1 0",
    # a cycle of positive weight must not leave a self loop behind (fixed: graphdom-5)
    "P 1100 hist 2 4 ; assume 0 1 C le E 2 -1 1 1 2 -5 ; assume 0 2 C le E 2 -1 0 1 1 -5 C le E 2 1 0 -1 2 2 ; copy 1 0 ; forget 1 3 2 3 0",
    "hist 3 4 ; assume 2 1 C le E 2 -1 1 1 2 1 ; assume 1 1 C lt E 2 -1 1 1 2 -20 ; assume 1 1 C lt E 2 1 1 -1 3 -5 ; assume 1 2 C le E 1 -1 2 2 C le E 2 -1 2 1 3 3 ; meet 0 1 2",
]
DEFECTS.append(
    # incremental closure around a new edge must relax ALL improved (source, destination) pairs: five vertices,
    # the first destination already tight (a seeded change made the loop stop there)
    "P 1110 hist 2 6 ; assume 0 1 C le E 2 1 0 -1 1 -7 ; assume 0 1 C le E 2 -1 1 1 2 -5 ; assume 0 1 C le E 2 1 2 -1 3 -4 ; "
    "assume 0 1 C le E 2 1 3 -1 4 -6 ; assume 0 1 C le E 2 -1 4 1 5 0 ; assume 0 1 C le E 2 -1 0 1 4 -1 ; assume 0 1 C le E 1 1 1 -3 ; q_at 0")
CORPUS["zone"] = CORPUS["zone"] + DEFECTS
CORPUS["oct"] = CORPUS["oct"] + [
    # integer tightening of weights above 2^24 (fixed: graphdom-2)
    "hist 2 2 ; assume 0 2 C le E 2 1 0 -1 1 -5 C le E 2 -1 0 1 1 -100 ; assume 0 1 C le E 2 -1 0 -1 1 268435457",
    "hist 2 2 ; assume 0 2 C le E 2 1 0 -1 1 -5 C le E 2 -1 0 1 1 -100 ; assume 0 1 C le E 2 -1 0 -1 1 1099511627776",
    "hist 2 2 ; assume 0 2 C le E 2 1 0 1 1 1 C eq E 2 1 0 -1 1 -1099511627776",
    # tightening must keep the potential function valid: a later infeasible constraint was missed (fixed: graphdom-6)
    "hist 3 2 ; assume 0 1 C lt E 2 -1 0 1 1 1 ; assume 1 1 C eq E 2 1 0 1 1 -1 ; assume 1 1 C le E 2 -1 0 1 1 0 ; join 2 1 0 ; q_entails 2 C le E 2 -1 0 1 1 1 ; join 2 0 1 ; q_entails 2 C le E 2 -1 0 1 1 1",
    "P 1000 hist 3 2 ; assign 1 1 E 1 1 0 1 ; assume 0 2 C eq E 2 -1 0 -1 1 -1 C le E 2 1 0 -1 1 0 ; join 0 0 1 ; q_entails 0 C le E 2 1 0 -1 1 1",
]
for _k in ("zone", "oct"):
    CORPUS[_k] = CORPUS[_k] + CORPUS["interval"]
CORPUS["oct"] = CORPUS["oct"] + CORPUS["zone"]


def gen(seed, tier, lang, n=None, opts=None):
    rng = random.Random(seed * 31 + zlib.crc32(lang.encode()) % 1000)
    opts = dict(opts or {})
    n = n if n is not None else (400 if tier == "quick" else 20000)
    lines = list(CORPUS[lang]) if opts.get("corpus", True) else []
    if opts.get("ops"):
        # keep the corpus histories that only use the operations of this stream
        names = set(opts["ops"]) | {"q_entails", "q_leq", "q_at"}
        if "bounds" in names or "assume1" in names:
            names.add("assume")
        def ops_of(l):
            t = l.split()
            if t[0] == "P":
                t = t[2:]
            return set(o.split()[0] for o in " ".join(t).split(" ; ")[1:])
        lines = [l for l in lines if ops_of(l) <= names]
        if opts.get("corpus_must"):
            lines = [l for l in lines if opts["corpus_must"] in ops_of(l)]
    # boundary: histories aimed at the case splits (empty / one-point values, chains that need
    # the transitive step, ties between a relation and the bounds)
    nb = n // 4 if opts.get("boundary", True) else 0
    for i in range(nb):
        o = dict(opts)
        if i % 3 == 0 and lang != "interval" and "assume" in opts.get("ops", ["assume"]):
            lines.append(gen_chain(rng, lang, o))
            continue
        if i % 3 == 1 and lang != "interval" and "join" in opts.get("ops", ["join"]):
            lines.append(gen_joinbox(rng, lang, o))
            continue
        o.update(ks=KS_SMALL, maxvars=min(3, opts.get("maxvars", 5)), minops=4, maxops=14, maxq=6, qprob=0.9)
        lines.append(gen_history(rng, lang, o))
    for _ in range(n - nb):
        lines.append(gen_history(rng, lang, opts))
    return lines


# ------------------------------------------------------------------ oracle (exhaustive search, no closure)
def p_exp(t):
    n = int(t[1])
    terms = [(int(t[2 + 2 * i]), int(t[3 + 2 * i])) for i in range(n)]
    return (terms, int(t[2 + 2 * n])), t[3 + 2 * n:]


def p_cst(t):
    kind = t[1]
    e, rest = p_exp(t[2:])
    return (kind, e), rest


def leqs(c):
    """constraint -> list of (terms, k) meaning sum terms + k <= 0"""
    kind, (terms, k) = c
    if kind == "le":
        return [(terms, k)]
    if kind == "lt":
        return [(terms, k + 1)]
    return [(terms, k), ([(-a, v) for a, v in terms], -k)]


BUDGET = [0]
ENUM_RADIUS = 400


def search(cons, nvars, B):
    """integer point of [-B,B]^nvars satisfying every (terms,k) in cons (sum + k <= 0, at most
    two unit terms), by backtracking: variables are fixed in index order and every constraint
    between a fixed and a free variable narrows the range of the free one (forward checking,
    no transitive reasoning); None if the box is exhausted"""
    lo0 = [-B] * nvars; hi0 = [B] * nvars
    links = [[] for _ in range(nvars)]        # links[i] = (a, b, j, k): a*xi + b*xj + k <= 0, j > i
    for terms, k in cons:
        d = {}
        for a, v in terms:
            d[v] = d.get(v, 0) + a
        ts = [(a, v) for v, a in sorted(d.items()) if a != 0]
        if not ts:
            if k > 0:
                return None
        elif len(ts) == 1:
            (a, v), = ts
            if a > 0:
                hi0[v] = min(hi0[v], (-k) // a)
            else:
                lo0[v] = max(lo0[v], -((-k) // (-a)))
        elif len(ts) == 2 and abs(ts[0][0]) == 1 and abs(ts[1][0]) == 1:
            (a, i), (b, j) = ts
            links[i].append((a, b, j, k))
        else:
            raise OverflowError
    s = [0] * nvars

    def go(i, lo, hi):
        if i == nvars:
            return True
        if not links[i]:
            # the value of xi restricts no later variable: one value decides
            s[i] = lo[i]
            return go(i + 1, lo, hi)
        for x in range(lo[i], hi[i] + 1):
            BUDGET[0] -= 1
            if BUDGET[0] < 0:
                raise OverflowError
            s[i] = x
            lo2, hi2 = lo, hi
            ok = True
            if links[i]:
                lo2 = list(lo); hi2 = list(hi)
                for a, b, j, k in links[i]:
                    if b == 1:          # xj <= -k - a*x
                        hi2[j] = min(hi2[j], -k - a * x)
                    else:               # xj >= k + a*x
                        lo2[j] = max(lo2[j], k + a * x)
                    if lo2[j] > hi2[j]:
                        ok = False
                        break
            if ok and go(i + 1, lo2, hi2):
                return True
        return False
    if any(lo0[v] > hi0[v] for v in range(nvars)):
        return None
    return list(s) if go(0, lo0, hi0) else None


def holds_all(cons, s):
    return all(sum(a * s[v] for a, v in terms) + k <= 0 for terms, k in cons)


def guess_point(lang, cons, nvars):
    """candidate point for constants too large to enumerate: built with the reference closure
    by fixing one variable after the other; the caller re-checks it by plain evaluation, so
    nothing here is trusted"""
    ref = Ref("oct" if lang == "oct" else "zone", nvars)
    def norm(terms, k):
        # merge repeated variables (x := x + k leaves x - x' forms only; be defensive)
        d = {}
        for a, v in terms:
            d[v] = d.get(v, 0) + a
        ts = [(a, v) for v, a in sorted(d.items()) if a != 0]
        return ts, k
    cs = []
    for terms, k in cons:
        ts, k = norm(terms, k)
        if not ts:
            if k > 0:
                return None
            continue
        if any(abs(a) != 1 for a, _ in ts) or len(ts) > 2:
            return None
        if lang != "oct" and len(ts) == 2 and ts[0][0] == ts[1][0]:
            return None
        cs.append(("le", (ts, k)))
    m = ref.add(ref.top(), cs)
    s = [0] * nvars
    for v in range(nvars):
        if m is None:
            return None
        ub = ref.tight(m, [(1, v)]); lb = ref.tight(m, [(-1, v)])
        x = ub if ub is not None else (-lb if lb is not None else 0)
        s[v] = x
        m = ref.add(m, [("eq", ([(1, v)], -x))])
    return s if m is not None else None


class Conj:
    """a conjunction of constraints (terms, k): sum + k <= 0 over the nv program variables
    and nex existential variables (indices nv ...)"""

    def __init__(self, cons=(), nex=0):
        self.cons, self.nex = list(cons), nex

    def with_cons(self, cs):
        return Conj(self.cons + list(cs), self.nex)

    def hide(self, nv, x):
        """the current value of x becomes an existential variable"""
        old = nv + self.nex
        return Conj([([(a, old if v == x else v) for a, v in terms], k) for terms, k in self.cons], self.nex + 1), old

    def meet(self, other, nv):
        sh = [([(a, v if v < nv else v + self.nex) for a, v in terms], k) for terms, k in other.cons]
        return Conj(self.cons + sh, self.nex + other.nex)


def radius(cons):
    return 2 + sum(abs(k) for _, k in cons)


def point(lang, C, nv, extra=()):
    """(point or None, complete?) for the conjunction C plus extra constraints"""
    cons = C.cons + list(extra)
    n = nv + C.nex
    B = radius(cons)
    if B <= ENUM_RADIUS:
        return search(cons, n, B), True
    s = guess_point(lang, cons, n)
    if s is not None and holds_all(cons, s):
        return s, False
    return None, False


def neg_leq(terms, k):
    """negation over the integers of  sum terms + k <= 0"""
    return ([(-a, v) for a, v in terms], -k + 1)


def entails(lang, C, nv, terms, k):
    """(True, radius) if exhaustively no point of C violates sum + k <= 0; (False, point) if a
    point violates it; (None, None) if undecided"""
    w, complete = point(lang, C, nv, [neg_leq(terms, k)])
    if w is not None:
        return False, w
    if complete:
        return True, radius(C.cons + [neg_leq(terms, k)])
    return None, None


def tight(lang, C, nv, terms):
    """('fin', k) tightest k with sum terms <= k on the non-empty C, ('inf', None) if unbounded,
    ('?', None) if undecided"""
    R = radius(C.cons)
    if R > ENUM_RADIUS // 2:
        return "?", None
    r, _ = entails(lang, C, nv, terms, -R)
    if r is None:
        return "?", None
    if not r:
        return "inf", None
    lo, hi = -R - 1, R
    while hi - lo > 1:
        mid = (lo + hi) // 2
        r, _ = entails(lang, C, nv, terms, -mid)
        if r is None:
            return "?", None
        if r:
            hi = mid
        else:
            lo = mid
    return "fin", hi


def lang_shapes(lang, nv):
    out = [[(1, v)] for v in range(nv)] + [[(-1, v)] for v in range(nv)]
    if lang != "interval":
        out += shapes(lang, nv)
    return out


class Reg:
    """exact: Conj | 'bot' | None (unknown): what the property says the value is equivalent to.
    under: list of Conj, each describing only stores that must be in the value."""

    def __init__(self, exact, under):
        self.exact, self.under = exact, under


MAXDISJ = 6


def oracle_for(lang):
    def oracle(line, ans, rng=None):
        BUDGET[0] = 1500000
        try:
            return _oracle(lang, line, ans)
        except OverflowError:
            return None
    return oracle


def _oracle(lang, line, ans):
    if ans in ("ABORT", "MISSING") or ans.startswith("HARNESS-ERROR"):
        return None
    toks = line.split()
    if toks[0] == "P":
        toks = toks[2:]
    ops = [o.split() for o in " ".join(toks).split(" ; ")]
    nregs, nv = int(ops[0][1]), int(ops[0][2])
    answers = ans.split(" ; ")
    regs = [Reg(Conj(), [Conj()]) for _ in range(nregs)]
    ai = 0

    def show(s):
        return "{" + ", ".join("v%d=%d" % (i, s[i]) for i in range(nv)) + "}"

    def member(R):
        """a store that must be in the value, or None"""
        for C in R.under:
            w, _ = point(lang, C, nv)
            if w is not None:
                return w
        return None

    def empty(R):
        """True if the value must be empty, False if it has a store, None if undecided"""
        if R.exact == "bot":
            return True
        if member(R) is not None:
            return False
        if R.exact is None:
            return None
        w, complete = point(lang, R.exact, nv)
        if w is not None:
            return False
        return True if complete else None

    def violating(R, terms, k):
        """a store that must be in the value and violates sum + k <= 0"""
        for C in R.under:
            w, _ = point(lang, C, nv, [neg_leq(terms, k)])
            if w is not None:
                return w
        return None

    for idx, o in enumerate(ops[1:], 1):
        if not o:
            continue
        if ai >= len(answers):
            return None
        a = answers[ai]; ai += 1
        where = "step %d (%s) of: %s" % (idx, " ".join(o), line)
        op = o[0]
        if op == "q_leq":
            S, T = regs[int(o[1])], regs[int(o[2])]
            eS = empty(S)
            if a == "false" and eS is True:
                return "%s: inclusion answered false but the left operand has no integer point (box of radius > sum of constants exhausted)" % where
            if a == "true" and eS is False and empty(T) is True:
                return "%s: inclusion answered true, the right operand is empty, but store %s is in the left operand" % (where, show(member(S)))
            if eS is not False or S.exact in (None, "bot") or T.exact in (None, "bot") or empty(T) is not False:
                continue
            verdict = True
            for terms in lang_shapes(lang, nv):
                kind, kt = tight(lang, T.exact, nv, terms)
                if kind == "?":
                    verdict = None
                    break
                if kind == "inf":
                    continue
                r, w = entails(lang, S.exact, nv, terms, -kt)
                if r is None:
                    verdict = None
                    break
                if not r:
                    verdict = False
                    if a == "true":
                        return "%s: inclusion answered true but store %s of the left operand violates %s <= %d, which holds on the right operand" % (where, show(w), terms, kt)
                    break
            if verdict is True and a == "false":
                return "%s: inclusion answered false but every in-language bound of the right operand holds on every integer point of the left operand (exhaustive search)" % where
            continue
        if op == "q_entails":
            R = regs[int(o[1])]; c, _ = p_cst(o[2:])
            if a == "true":
                for terms, k in leqs(c):
                    w = violating(R, terms, k)
                    if w is not None:
                        return "%s: entails answered true but store %s satisfies every constraint of the history and violates the queried one" % (where, show(w))
            elif R.exact == "bot":
                return "%s: entails answered false on a value that must be bottom" % where
            elif R.exact is not None:
                e = empty(R)
                if e is True:
                    return "%s: entails answered false but the value has no integer point" % where
                if e is False:
                    rs = [entails(lang, R.exact, nv, terms, k) for terms, k in leqs(c)]
                    if all(r is True for r, _ in rs):
                        return ("%s: entails answered false but no integer point of the box of radius %d (> sum of all constants) "
                                "satisfies the constraints of the history and violates the query" % (where, max(w for _, w in rs)))
            continue
        r = int(o[1])
        R = regs[r]
        if op in ("q_at", "normalize", "minimize"):
            pass
        elif op == "top":
            R = Reg(Conj(), [Conj()])
        elif op == "bot":
            R = Reg("bot", [])
        elif op == "copy":
            R = regs[int(o[2])]
        elif op == "assume":
            n = int(o[2]); rest = o[3:]; cs = []
            for _ in range(n):
                c, rest = p_cst(rest)
                cs += leqs(c)
            R = Reg(R.exact.with_cons(cs) if isinstance(R.exact, Conj) else R.exact, [C.with_cons(cs) for C in R.under])
        elif op == "assign":
            x = int(o[2]); (terms, k), _ = p_exp(o[3:])

            def asg(C):
                C2, old = C.hide(nv, x)
                et = [(a, old if v == x else v) for a, v in terms]
                return C2.with_cons([([(1, x)] + [(-a, v) for a, v in et], -k), ([(-1, x)] + et, k)])
            R = Reg(asg(R.exact) if isinstance(R.exact, Conj) else R.exact, [asg(C) for C in R.under])
        elif op == "forget":
            n = int(o[2]); vs = [int(v) for v in o[3:3 + n]]

            def fg(C):
                for x in vs:
                    C, _ = C.hide(nv, x)
                return C
            R = Reg(fg(R.exact) if isinstance(R.exact, Conj) else R.exact, [fg(C) for C in R.under])
        elif op == "meet":
            S, T = regs[int(o[2])], regs[int(o[3])]
            if S.exact == "bot" or T.exact == "bot":
                ex = "bot"
            elif S.exact is None or T.exact is None:
                ex = None
            else:
                ex = S.exact.meet(T.exact, nv)
            R = Reg(ex, [A.meet(B, nv) for A in S.under for B in T.under][:MAXDISJ])
        elif op == "join":
            S, T = regs[int(o[2])], regs[int(o[3])]
            under = (S.under + T.under)[:MAXDISJ]
            eS, eT = empty(S), empty(T)
            if eS is True:
                ex = T.exact
            elif eT is True:
                ex = S.exact
            elif eS is None or eT is None or not isinstance(S.exact, Conj) or not isinstance(T.exact, Conj):
                ex = None
            else:
                cons = []
                for terms in lang_shapes(lang, nv):
                    k1, v1 = tight(lang, S.exact, nv, terms)
                    k2, v2 = tight(lang, T.exact, nv, terms)
                    if k1 == "?" or k2 == "?":
                        cons = None
                        break
                    if k1 == "fin" and k2 == "fin":
                        cons.append((terms, -max(v1, v2)))
                ex = Conj(cons) if cons is not None else None
            R = Reg(ex, under)
        else:
            return None          # operation outside the specification
        regs[r] = R
        # the printed state: bottom exactly when empty; at(v) = the tightest bounds
        if a == "_|_":
            w = member(R)
            if w is not None:
                return "%s: the value is bottom but store %s satisfies every constraint of the history" % (where, show(w))
            continue
        e = empty(R)
        if e is True:
            return ("%s: the value is not bottom (%s) but no integer point of the box of radius > sum of all constants "
                    "satisfies the constraints of the history" % (where, a))
        st = a[1:] if a.startswith("T") else a
        its = st.split("|")
        for v in range(nv):
            m = re.match(r"^\[(\S+), (\S+)\]$", its[v].strip())
            if not m:
                continue
            for sgn, txt, inf in ((1, m.group(2), "+oo"), (-1, m.group(1), "-oo")):
                bound = "upper" if sgn == 1 else "lower"
                if txt != inf:
                    w = violating(R, [(sgn, v)], -sgn * int(txt))
                    if w is not None:
                        return "%s: at(v%d) has %s bound %s but store %s satisfies every constraint of the history" % (where, v, bound, txt, show(w))
                if e is False and isinstance(R.exact, Conj):
                    kind, kt = tight(lang, R.exact, nv, [(sgn, v)])
                    if kind == "?":
                        continue
                    exp = inf if kind == "inf" else str(sgn * kt)
                    if exp != txt:
                        return ("%s: at(v%d) has %s bound %s but the tightest bound implied by the constraints of the history is %s "
                                "(exhaustive search over the integer points of a box of radius > sum of all constants)" % (where, v, bound, txt, exp))
        if e is False and isinstance(R.exact, Conj):
            kinds = [tight(lang, R.exact, nv, terms)[0] for terms in lang_shapes(lang, nv)]
            if a.startswith("T") and "fin" in kinds:
                return "%s: is_top() holds but the constraints of the history bound %s" % (where, lang_shapes(lang, nv)[kinds.index("fin")])
            if not a.startswith("T") and all(k == "inf" for k in kinds):
                return ("%s: is_top() does not hold but the constraints of the history imply no in-language constraint at all "
                        "(every difference/sum/variable is unbounded: exhaustive search)" % where)
    return None


def nontrivial(line, ans):
    """rule: at least 3 distinct printed states that are neither bottom nor top, and (when the
    history has entailment queries) both answers occur"""
    parts = ans.split(" ; ")
    good = set(p for p in parts if "[" in p and not p.startswith("T"))
    q = set(p for p in parts if p in ("true", "false"))
    return len(good) >= 3 and (len(q) == 2 or "q_entails" not in line)
