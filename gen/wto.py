"""Case generator and property-level oracle for the wto family (property C07).
Case line:  <kind> <N> <entry> <succ_0> ... <succ_{N-1}>
  kind cfg  : crab CFG b0..b{N-1}, edges of block i added in the order of succ_i, entry = b<entry>
       cfge : same CFG with entry b0 and wto(g, b<entry>) (explicit entry constructor)
       cg   : call graph of f0..f{N-1}; wto(cg, f<entry>) (successors enumerated by callee index)
  succ_i = comma separated targets or "-".
Answer:  W <components> N <i>:<nesting> ...   component = <n> | (<head> <components>)"""
import random, itertools

KINDS = ["cfg", "cfg", "cfge", "cg"]


def fmt(kind, n, e, g):
    return "%s %d %d %s" % (kind, n, e, " ".join(",".join(map(str, s)) if s else "-" for s in g))


def parse_line(line):
    t = line.split()
    n, e = int(t[1]), int(t[2])
    g = [([] if s == "-" else [int(x) for x in s.split(",")]) for s in t[3:3 + n]]
    return t[0], n, e, g


# ------------------------------------------------------------------ generators
def ordered_subsets(n):
    """all successor lists over {0..n-1} without repetition, in every order"""
    r = []
    for k in range(n + 1):
        for c in itertools.permutations(range(n), k):
            r.append(list(c))
    return r


def small_exhaustive(n):
    subs = ordered_subsets(n)
    for g in itertools.product(subs, repeat=n):
        for e in range(n):
            yield n, e, [list(s) for s in g]


def nest_chain(k):
    """0->1->...->k and k->j for every j: nesting depth k (stresses the fuel of the model)"""
    g = [[i + 1] for i in range(k)] + [list(range(k, -1, -1))]
    return k + 1, 0, g


def rand_graph(rng, n=None):
    n = n or rng.choice([1, 2, 3, 4, 5, 6, 7, 8, 9, 10, 12, 15, 20, 25, 30, 40])
    style = rng.random()
    g = [[] for _ in range(n)]
    if style < 0.35:            # uniform density
        p = rng.choice([0.03, 0.08, 0.15, 0.3, 0.6, 1.0]) * min(1.0, 6.0 / n + rng.random() * 0.3)
        for i in range(n):
            for j in range(n):
                if rng.random() < p:
                    g[i].append(j)
    elif style < 0.75:          # structured: a spine with forward jumps and back edges (loops, nested loops)
        for i in range(n - 1):
            if rng.random() < 0.9:
                g[i].append(i + 1)
        for _ in range(rng.randint(0, n)):
            a, b = rng.randrange(n), rng.randrange(n)
            if a > b or rng.random() < 0.3:
                g[a].append(b)     # back edge or self loop
            else:
                g[a].append(b)     # forward jump (irreducible entries into loops)
    else:                       # out-degree <= 2 like a real CFG
        for i in range(n):
            for _ in range(rng.choice([0, 1, 1, 2, 2, 2, 3])):
                g[i].append(rng.randrange(n))
    if rng.random() < 0.2:      # self loops
        for _ in range(rng.randint(1, 3)):
            i = rng.randrange(n)
            g[i].append(i)
    # remove duplicates (insert_adjacent ignores them), shuffle successor order
    g2 = []
    for s in g:
        s = list(dict.fromkeys(s))
        if rng.random() < 0.7:
            rng.shuffle(s)
        g2.append(s)
    e = 0 if rng.random() < 0.5 else rng.randrange(n)
    return n, e, g2


CORPUS = [
    ("cfg", 1, 0, [[]]),                                   # single node
    ("cfg", 1, 0, [[0]]),                                  # self loop on the entry
    ("cfg", 2, 0, [[1], [0]]),                             # two-node cycle
    ("cfg", 2, 1, [[1], [0]]),
    ("cfg", 2, 0, [[0, 1], [1, 0]]),
    ("cfg", 4, 0, [[1], [2], [3, 1], []]),                 # simple loop
    ("cfg", 6, 0, [[1], [2], [3], [4, 1], [5, 2], [0]]),   # nested
    ("cfg", 5, 0, [[1, 2], [3], [3], [4, 1], [2]]),        # diamond loops
    ("cfg", 4, 0, [[1, 2], [2], [1, 3], []]),              # irreducible: loop {1,2} entered at both
    ("cfg", 4, 0, [[2, 1], [2], [1, 3], []]),              # same, other successor order
    ("cfg", 5, 2, [[1], [2], [3], [1, 4], []]),            # entry inside a cycle, node 0 unreachable
    ("cfg", 6, 0, [[1], [2], [1], [4], [3], [5]]),         # unreachable cycle
    # Bourdoncle's example (nodes 1..8 renamed 0..7): 1 2 (3 4 (5 6) 7) 8
    ("cfg", 8, 0, [[1], [2, 7], [3], [4, 6], [5], [4, 6], [2, 7], []]),
    ("cfg", 8, 0, [[1], [7, 2], [3], [6, 4], [5], [6, 4], [7, 2], []]),
    ("cg", 4, 0, [[1], [2], [3, 1], []]),
    ("cg", 5, 0, [[2, 1], [3], [3], [4, 1], [2]]),
    ("cfge", 5, 3, [[1, 2], [3], [3], [4, 1], [2]]),
    ("cfg", 3, 0, [[1, 2], [2, 0], [0, 1]]),               # complete graph without self loops
    ("cfg", 3, 1, [[0, 1, 2], [0, 1, 2], [0, 1, 2]]),      # complete with self loops
]


def boundary(rng):
    out = []
    for k in (1, 2, 3, 5, 8, 13, 25, 39):
        n, e, g = nest_chain(k)
        for kind in ("cfg", "cg"):
            out.append((kind, n, e, g))
    for n in (2, 3, 4, 5, 6, 8):   # complete graphs, with and without self loops, every entry
        for selfl in (False, True):
            g = [[j for j in range(n) if selfl or j != i] for i in range(n)]
            for e in range(n):
                out.append(("cfg", n, e, g))
            g = [list(reversed(s)) for s in g]
            out.append(("cfg", n, 0, g))
    for n in (10, 40):             # chains, rings, ring + chords
        out.append(("cfg", n, 0, [[i + 1] if i + 1 < n else [] for i in range(n)]))
        out.append(("cfg", n, 0, [[(i + 1) % n] for i in range(n)]))
        out.append(("cfg", n, n // 2, [[(i + 1) % n] for i in range(n)]))
        out.append(("cfg", n, 0, [[(i + 1) % n, (i * 7 + 3) % n] for i in range(n)]))
        out.append(("cfg", n, 0, [[(i * 7 + 3) % n, (i + 1) % n] for i in range(n)]))
        out.append(("cg", n, 0, [[(i * 7 + 3) % n, (i + 1) % n] for i in range(n)]))
    # two loops sharing a head, loop with two exits, two sinks, self loops inside a loop
    out.append(("cfg", 4, 0, [[1, 2], [0], [0, 3], []]))
    out.append(("cfg", 5, 0, [[1], [2, 4], [3, 4], [1], []]))
    out.append(("cfg", 4, 0, [[1, 2, 3], [], [], []]))
    out.append(("cfg", 4, 0, [[1], [1, 2], [2, 3, 0], [3]]))
    # every permutation of the successor lists of one irreducible graph
    base = [[1, 2, 3], [2, 0], [1, 3], [1]]
    for p0 in itertools.permutations(base[0]):
        for p2 in itertools.permutations(base[2]):
            out.append(("cfg", 4, 0, [list(p0), base[1], list(p2), base[3]]))
    return out


def gen(seed, tier):
    rng = random.Random(seed)
    lines = [fmt(*c) for c in CORPUS]
    lines += [fmt(*c) for c in boundary(rng)]
    # small exhaustive: 1 and 2 nodes completely; 3 nodes completely in the thorough tier,
    # a seeded third of them in the quick tier
    for n in (1, 2):
        for (n_, e, g) in small_exhaustive(n):
            for kind in ("cfg", "cfge", "cg"):
                lines.append(fmt(kind, n_, e, g))
    for (n_, e, g) in small_exhaustive(3):
        if tier != "quick" or rng.random() < 0.33:
            lines.append(fmt("cfg", n_, e, g))
    nrand = 5000 if tier == "quick" else 150000
    for _ in range(nrand):
        n, e, g = rand_graph(rng)
        lines.append(fmt(rng.choice(KINDS), n, e, g))
    return lines


# ------------------------------------------------------------------ oracle
def parse_answer(ans):
    """-> (components, nesting dict) ; component = int | (head, [components])"""
    if not ans.startswith("W"):
        return None
    k = ans.rfind(" N")
    # the N marker is the last " N" followed by end or space-separated i:nest entries
    idx = ans.find(" N ")
    if idx < 0:
        idx = len(ans) - 2 if ans.endswith(" N") else -1
    if idx < 0:
        return None
    wtxt, ntxt = ans[1:idx], ans[idx + 2:]
    toks = wtxt.replace("(", " ( ").replace(")", " ) ").split()
    pos = [0]

    def comps():
        r = []
        while pos[0] < len(toks) and toks[pos[0]] != ")":
            if toks[pos[0]] == "(":
                pos[0] += 1
                h = int(toks[pos[0]]); pos[0] += 1
                b = comps()
                if pos[0] >= len(toks) or toks[pos[0]] != ")":
                    raise ValueError("unbalanced")
                pos[0] += 1
                r.append((h, b))
            else:
                r.append(int(toks[pos[0]])); pos[0] += 1
        return r
    w = comps()
    if pos[0] != len(toks):
        raise ValueError("unbalanced")
    nest = {}
    for t in ntxt.split():
        a, b = t.split(":")
        nest[int(a)] = None if b == "-" else ([int(x) for x in b[1:-1].split(",")] if len(b) > 2 else [])
    return w, nest


def walk(w, heads, order, encl):
    """order: list of nodes in sequence; encl[node] = list of (tuples of) enclosing heads per occurrence"""
    for c in w:
        if isinstance(c, tuple):
            h, b = c
            order.append(h); encl.setdefault(h, []).append((list(heads), True))
            walk(b, heads + [h], order, encl)
        else:
            order.append(c); encl.setdefault(c, []).append((list(heads), False))


def oracle(line, answer, rng):
    """None if the implementation's answer satisfies property C07 on this graph, else a text."""
    kind, n, e, g = parse_line(line)
    try:
        pa = parse_answer(answer)
    except Exception as ex:
        return "graph %s: answer is not a well-nested ordering (%s): %s" % (line, ex, answer)
    if pa is None:
        if answer == "ABORT":
            return "graph %s: wto construction aborted (CRAB_ERROR)" % line
        return None
    w, nest = pa
    order, encl = [], {}
    walk(w, [], order, encl)
    reach, todo = {e}, [e]
    while todo:
        u = todo.pop()
        for v in g[u]:
            if v not in reach:
                reach.add(v); todo.append(v)
    for x in sorted(reach):
        if order.count(x) != 1:
            return "graph %s: node %d reachable from entry %d occurs %d times in the ordering %s" % (
                line, x, e, order.count(x), answer)
    for x in order:
        if x not in reach:
            return "graph %s: node %d is in the ordering but not reachable from entry %d" % (line, x, e)
    pos = {x: i for i, x in enumerate(order)}
    for u in sorted(reach):
        for v in g[u]:
            if pos[u] < pos[v]:
                continue
            # v must be the head of a component containing u
            hs, is_head = encl[u][0]
            ok = (v in hs) or (u == v and is_head)
            if not ok:
                return "graph %s: edge %d->%d: %d does not precede %d and %d is not the head of a component containing %d in %s" % (
                    line, u, v, u, v, v, u, answer)
    for x in range(n):
        want = encl[x][0][0] if x in encl else None
        if nest.get(x, None) != want:
            return "graph %s: nesting(%d) reported %s, enclosing heads (outermost first) are %s in %s" % (
                line, x, nest.get(x), want, answer)
    return None


def nontrivial(line, answer):
    """the ordering contains at least one component (cycle) and at least 3 nodes"""
    return "(" in answer and len(answer.split(" N")[0].replace("(", " ").replace(")", " ").split()) >= 4
