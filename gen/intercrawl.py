"""C18, inter-procedural assertion crawler (crab::analyzer::inter_assertion_crawler): generator of multi-function
programs with call sites and an independent concrete oracle.  Oracle only (no Coq model).

Case format: harness/intertext.hpp (functions "main", "f1", ... over one pool v0..v(n-1); crab identifies variables
by name, so two functions that use the same pool index share a *name*, not a variable: every call runs the callee on
its own store).  Header options: cd=0|1 (control dependences), shape=<tag> (ignored by the harness: histogram key).
Answer (harness/intercrawl.cpp):  F0 b0:[id:{vars};...] b1:... # F1 ...

What the crawler reports (assertion_crawler.hpp, transfer_function::visit(callsite_t&)): at a block of function F it
lists F's own assertions reachable from the block *and* every assertion of the functions called (transitively) on
such a path - the callee's entry facts are merged into the caller's with the callee's formal inputs renamed to the
actual parameters.  For a fact that crosses a call backwards, a call result is replaced by the callee's summary
(formal output -> variables at the callee's entry it depends on), renamed to the actuals.

The oracle demands (property C18, second half), for every function F, block B, assertion A met on a random walk from
the entry of B (data only: assume / assert do not filter; calls are executed by the interpreter below on a fresh store
of the callee: formals := actuals, every other variable an arbitrary recorded value; the callee's path is a recorded
random walk entry -> exit; results copied to the call's lhs):
   (1) A is listed at B                                   (own assertions of F; also assertions inside callees, which
                                                           the crawler claims to propagate: reported as class `callee`)
   (2) every variable x of F that is not in A's set: replaying the *same* recorded path (same havoc values, same
       callee paths and callee locals) from a store that differs only in x gives the same value of A's condition.
Recursive call graphs are not generated: inter_assertion_crawler re-analyses the members of a recursive SCC with the
shared assertion table, and process_assertion() ignores an assertion that is already in the table, so from the second
iteration on a function's own assertions are missing from its facts (see checks/C18_inter.py, RECURSION).
"""
import random, re, zlib
from domhist import gen_exp, gen_cst, fmt_exp, fmt_cst
from transforms import parse_stmt, step_stmt, ev, POOL, split_stmts

# ------------------------------------------------------------------ symbolic programs (generator side)
# A function: dict(nl, ins, outs, blocks=[[stmt]], edges=[(a,b)], exit).  Variables are function-local numbers
# 0..nl-1; a naming policy maps (function, local) -> pool index, injectively inside each function.
# Statements: ("assign", x, exp) ("arith", op, x, y, "v"|"k", z) ("assume", cst) ("assert", cst, id) ("havoc", x)
#             ("select", x, cst, e1, e2) ("call", g, outs, ins)


def _mexp(e, m):
    return ([(c, m[v]) for c, v in e[0]], e[1])


def fmt_stmt(st, m):
    k = st[0]
    if k == "assign":
        return "assign %d %s" % (m[st[1]], fmt_exp(_mexp(st[2], m)))
    if k == "arith":
        _, op, x, y, kind, z = st
        return "arith %s %d %d %s %d" % (op, m[x], m[y], kind, m[z] if kind == "v" else z)
    if k == "assume":
        return "assume %s" % fmt_cst((st[1][0], _mexp(st[1][1], m)))
    if k == "assert":
        return "assert %s %d" % (fmt_cst((st[1][0], _mexp(st[1][1], m))), st[2])
    if k == "havoc":
        return "havoc %d" % m[st[1]]
    if k == "select":
        return "select %d %s %s %s" % (m[st[1]], fmt_cst((st[2][0], _mexp(st[2][1], m))), fmt_exp(_mexp(st[3], m)), fmt_exp(_mexp(st[4], m)))
    if k == "call":
        return ("call %d %d %s %d %s" % (st[1], len(st[2]), " ".join(str(m[v]) for v in st[2]), len(st[3]),
                                         " ".join(str(m[v]) for v in st[3]))).replace("  ", " ").strip()
    raise ValueError(k)


POLICIES = ("disjoint", "identity", "shared", "aligned")


def naming(rng, funcs, policy):
    """-> (nv, [map local -> pool index] per function)"""
    nls = [F["nl"] for F in funcs]
    if policy == "disjoint":
        maps, off = [], 0
        for n in nls:
            maps.append(list(range(off, off + n))); off += n
        return max(off, 1), maps
    if policy == "identity":
        return max(max(nls), 1), [list(range(n)) for n in nls]
    nv = max(max(nls), 1) + rng.choice([0, 0, 1, 2])
    if policy == "shared":
        return nv, [rng.sample(range(nv), n) for n in nls]
    # aligned: callees first; a caller's local bound to a formal of the callee takes the formal's name when it can
    maps = [None] * len(funcs)
    for f in range(len(funcs) - 1, -1, -1):
        F = funcs[f]
        m = {}
        used = set()
        for blk in F["blocks"]:
            for st in blk:
                if st[0] != "call" or maps[st[1]] is None:
                    continue
                G = funcs[st[1]]
                for l, fo in list(zip(st[2], G["outs"])) + list(zip(st[3], G["ins"])):
                    n = maps[st[1]][fo]
                    if l not in m and n not in used:
                        m[l] = n; used.add(n)
        free = [i for i in range(nv) if i not in used]
        rng.shuffle(free)
        for l in range(F["nl"]):
            if l not in m:
                m[l] = free.pop()
        maps[f] = [m[l] for l in range(F["nl"])]
    return nv, maps


def fmt_program(rng, funcs, policy, opts):
    nv, maps = naming(rng, funcs, policy)
    parts = ["inter %d %d %s" % (len(funcs), nv, " ".join("%s=%s" % kv for kv in opts))]
    for f, F in enumerate(funcs):
        m = maps[f]
        parts.append(" ".join(("F %d %d %d I %d %s O %d %s" % (f, len(F["blocks"]), F["exit"], len(F["ins"]), " ".join(str(m[v]) for v in F["ins"]),
                                                               len(F["outs"]), " ".join(str(m[v]) for v in F["outs"]))).split()))
    for f, F in enumerate(funcs):
        for b, blk in enumerate(F["blocks"]):
            parts.append(("B %d %d %s" % (f, b, " ; ".join(fmt_stmt(st, maps[f]) for st in blk))).strip())
        if F["edges"]:
            parts.append("E %d %s" % (f, " ".join("%d %d" % e for e in F["edges"])))
    return " | ".join(parts)


def V(x, c=1, k=0):
    return ([(c, x)], k)


def GE(x, k):       # x >= k
    return ("le", ([(-1, x)], k))


def LE(x, k):
    return ("le", ([(1, x)], -k))


# ------------------------------------------------------------------ the example of the brief, literally

def brief_chain():
    leaf = dict(nl=2, ins=[0], outs=[1], blocks=[[("assign", 1, V(0, 1, 1))]], edges=[], exit=0)
    mid = dict(nl=3, ins=[0], outs=[1], blocks=[[("call", 2, [2], [0]), ("assign", 1, V(2))]], edges=[], exit=0)
    top = dict(nl=2, ins=[], outs=[], blocks=[[("call", 1, [1], [0]), ("assert", GE(1, 1), 1)]], edges=[], exit=0)
    return [top, mid, leaf]


def brief_chain_blocks():
    """same, `top` with three blocks (noise / call / assertion) and a caller variable that survives the call"""
    leaf = dict(nl=2, ins=[0], outs=[1], blocks=[[("assign", 1, V(0, 1, 1))]], edges=[], exit=0)
    mid = dict(nl=3, ins=[0], outs=[1], blocks=[[("call", 2, [2], [0])], [("assign", 1, V(2))]], edges=[(0, 1)], exit=1)
    top = dict(nl=3, ins=[], outs=[], blocks=[[("arith", "add", 2, 2, "k", 1)], [("call", 1, [1], [0])],
                                              [("assert", GE(1, 1), 1), ("assert", ("le", ([(-1, 1), (-1, 2)], 0)), 2)]],
               edges=[(0, 1), (1, 2)], exit=2)
    return [top, mid, leaf]


# ------------------------------------------------------------------ scripted chains (parametrised)

def scripted(rng):
    """call chain main -> f1 -> ... -> f_depth with nin inputs / nout outputs at every level; at every level the
    arguments and the results may be permuted; every output of the leaf depends on a chosen subset of the inputs
    (possibly none); main has one more variable c that is not involved in the calls and asserts on every result (and
    on result + c); optional assertion inside the leaf / a middle function; optional second call site of f1 in main.
    -> (funcs, tag)"""
    depth = rng.choice([1, 2, 2, 2, 3])
    nin = rng.choice([1, 1, 2, 2])
    nout = rng.choice([1, 1, 2, 2])
    aid = [0]

    def new_id():
        aid[0] += 1
        return aid[0]
    perm_args = rng.random() < 0.5 and nin == 2
    perm_res = rng.random() < 0.5 and nout == 2
    funcs = [None] * (depth + 1)
    # leaf: locals = ins 0..nin-1, outs nin..nin+nout-1, one temp
    deps = []
    for k in range(nout):
        r = rng.random()
        if r < 0.2:
            deps.append([])                                  # an output that does not depend on any input
        elif r < 0.7 or nin == 1:
            deps.append([rng.randrange(nin)])                # (some input then flows to no output)
        else:
            deps.append(list(range(nin)))
    t = nin + nout
    lb = []
    if rng.random() < 0.35:
        lb.append(("assert", GE(rng.randrange(nin), rng.choice([0, -5])), new_id()))
    for k in range(nout):
        o = nin + k
        if rng.random() < 0.3 and deps[k]:
            lb.append(("arith", rng.choice(["add", "mul", "sub"]), t, deps[k][0], "k", rng.choice([1, 2, 3])))
            lb.append(("assign", o, ([(1, t)] + [(rng.choice([1, 2]), i) for i in deps[k][1:]], rng.choice([0, 1]))))
        else:
            lb.append(("assign", o, ([(rng.choice([1, 2, -1]), i) for i in deps[k]], rng.choice([1, 7, 0]))))
    leaf = dict(nl=t + 1, ins=list(range(nin)), outs=list(range(nin, nin + nout)), edges=[], exit=0, blocks=[lb])
    if rng.random() < 0.3:                                     # two-block leaf
        cut = rng.randint(0, len(lb))
        leaf["blocks"] = [lb[:cut], lb[cut:]]; leaf["edges"] = [(0, 1)]; leaf["exit"] = 1
    funcs[depth] = leaf
    # middle functions: locals = ins p, outs q, call results r
    for lvl in range(depth - 1, 0, -1):
        p = list(range(nin)); q = list(range(nin, nin + nout))
        same_names = rng.random() < 0.3                        # results written directly into the outputs
        r = q if same_names else list(range(nin + nout, nin + 2 * nout))
        args = list(reversed(p)) if (perm_args and rng.random() < 0.7) else p
        res = list(reversed(r)) if (perm_res and rng.random() < 0.7) else r
        blk = [("call", lvl + 1, res, args)]
        if rng.random() < 0.3:
            blk.append(("assert", LE(r[0], rng.choice([100, 5])), new_id()))
        if not same_names:
            blk += [("assign", q[k], V(r[k])) for k in range(nout)]
        F = dict(nl=nin + 2 * nout, ins=p, outs=q, edges=[], exit=0, blocks=[blk])
        if rng.random() < 0.3 and len(blk) > 1:
            F["blocks"] = [blk[:1], blk[1:]]; F["edges"] = [(0, 1)]; F["exit"] = 1
        funcs[lvl] = F
    # main: a.. (nin), x.. (nout), c, second results
    a = list(range(nin)); x = list(range(nin, nin + nout)); c = nin + nout
    nl = c + 1
    res_eq_arg = rng.random() < 0.15 and nout <= nin
    if res_eq_arg:
        x = a[:nout]
    args = list(reversed(a)) if (perm_args and rng.random() < 0.6) else a
    res = list(reversed(x)) if (perm_res and rng.random() < 0.6) else x
    pre = []
    if rng.random() < 0.4:
        pre.append(("arith", "add", c, c, "k", 1))
    call = [("call", 1, res, args)]
    post = []
    for k in range(nout):
        post.append(("assert", GE(x[k], rng.choice([1, 0, -3])), new_id()))
    if rng.random() < 0.7:
        post.append(("assert", ("le", ([(-1, x[0]), (-1, c)], 0)), new_id()))
    twice = rng.random() < 0.3
    if twice:                                                   # a second call site of the same callee, fed by the first
        y = list(range(nl, nl + nout)); nl += nout
        args2 = [x[0]] + a[1:nin]
        post.append(("call", 1, y, args2[:nin]))
        post.append(("assert", ("le", ([(-1, y[-1]), (1, c)], rng.choice([0, 3]))), new_id()))
    shape = rng.random()
    if shape < 0.4:
        blocks, edges, ex = [pre + call + post], [], 0
    elif shape < 0.8:
        blocks, edges, ex = [pre, call, post], [(0, 1), (1, 2)], 2
    else:                                                       # the call inside a loop
        blocks, edges, ex = [pre, call, post, []], [(0, 1), (1, 2), (2, 1), (2, 3)], 3
    funcs[0] = dict(nl=nl, ins=[], outs=[], blocks=blocks, edges=edges, exit=ex)
    tag = "chain%d-%din%dout%s%s%s%s" % (depth, nin, nout, "-permargs" if perm_args else "", "-permres" if perm_res else "",
                                        "-const" if any(not d for d in deps) else "", "-twice" if twice else "")
    return funcs, tag


# ------------------------------------------------------------------ random DAG programs

def _rand_base(rng, nl, noassign):
    """a random base statement over locals 0..nl-1 that does not assign a variable of `noassign`"""
    targets = [v for v in range(nl) if v not in noassign]
    for _ in range(20):
        k = rng.choices(["assign", "arith", "assume", "havoc", "select"], [9, 6, 2, 1, 2])[0]
        if k == "assume":
            return ("assume", gen_cst(rng, nl, small=True, maxterms=2))
        if not targets:
            continue
        x = rng.choice(targets)
        if k == "assign":
            return ("assign", x, gen_exp(rng, nl, small=True))
        if k == "arith":
            op = rng.choice(["add", "add", "sub", "mul", "sdiv", "srem"])
            if rng.random() < 0.5:
                return ("arith", op, x, rng.randrange(nl), "v", rng.randrange(nl))
            return ("arith", op, x, rng.randrange(nl), "k", rng.choice([1, 2, 3, -1, 5]))
        if k == "havoc":
            return ("havoc", x)
        return ("select", x, gen_cst(rng, nl, small=True, maxterms=2), gen_exp(rng, nl, small=True), gen_exp(rng, nl, small=True))
    return ("assume", ("le", ([], 0)))


def gen_random(rng, recursive=False):
    """recursive=True (exploration only, see gen_recursive): functions f >= 1 may call any function g >= 1"""
    nf = rng.choice([2, 2, 3, 3, 4])
    sigs = [(0, 0)] + [(rng.choice([0, 1, 1, 2, 2]), rng.choice([0, 1, 1, 1, 2, 2])) for _ in range(nf - 1)]
    # call graph: f may call g > f; a chain main -> f1 -> ... with probability 1/2, otherwise random DAG
    chain = rng.random() < 0.5
    aid = [0]
    funcs = []
    for f in range(nf):
        nin, nout = sigs[f]
        nl = max(nin + nout + rng.randint(1, 3), 2)
        ins = list(range(nin)); outs = list(range(nin, nin + nout))
        nb = rng.choice([1, 1, 2, 2, 3, 4])
        edges = [(b, b + 1) for b in range(nb - 1)]
        for _ in range(rng.choice([0, 0, 1, 2])):
            a, b = rng.randrange(nb), rng.randrange(nb)
            if a < b and (a, b) not in edges:
                edges.append((a, b))
        if nb >= 2 and rng.random() < 0.25:
            a = rng.randrange(1, nb); b = rng.randrange(a + 1)
            if (a, b) not in edges:
                edges.append((a, b))
        callees = [g for g in range(f + 1, nf)]
        if chain:
            callees = callees[:1]
        if recursive and f >= 1:
            callees = list(range(1, nf))
        blocks = []
        ncalls = 0
        for b in range(nb):
            blk = []
            for _ in range(rng.choice([0, 1, 1, 2, 2, 3])):
                r = rng.random()
                if callees and (r < 0.45 or (f == 0 and ncalls == 0 and b == nb - 1)):
                    g = rng.choice(callees)
                    gin, gout = sigs[g]
                    lhs_pool = [v for v in range(nl) if v not in ins]
                    if gout > len(lhs_pool):
                        continue
                    lhs = rng.sample(lhs_pool, gout)
                    blk.append(("call", g, lhs, [rng.randrange(nl) for _ in range(gin)]))
                    ncalls += 1
                    if lhs and rng.random() < 0.6:
                        aid[0] += 1
                        e = ([(rng.choice([1, -1]), lhs[0])] + ([(1, rng.randrange(nl))] if rng.random() < 0.4 else []), rng.choice([0, 1, -5]))
                        if len(e[0]) == 2 and e[0][0][1] == e[0][1][1]:
                            e = (e[0][:1], e[1])
                        blk.append(("assert", (rng.choice(["le", "lt", "ne", "eq"]), e), aid[0]))
                elif r < 0.6:
                    aid[0] += 1
                    blk.append(("assert", gen_cst(rng, nl, kinds=("le", "le", "eq", "ne", "lt"), small=True, maxterms=2), aid[0]))
                else:
                    blk.append(_rand_base(rng, nl, ins))
            blocks.append(blk)
        if callees and ncalls == 0 and (f == 0 or rng.random() < 0.7):       # main always calls something
            g = rng.choice(callees)
            gin, gout = sigs[g]
            lhs_pool = [v for v in range(nl) if v not in ins]
            if gout <= len(lhs_pool):
                lhs = rng.sample(lhs_pool, gout)
                blocks[-1].append(("call", g, lhs, [rng.randrange(nl) for _ in range(gin)]))
                if lhs:
                    aid[0] += 1
                    blocks[-1].append(("assert", GE(lhs[0], rng.choice([0, 1])), aid[0]))
        for o in outs:                                           # outputs: defined from some variables in the last block(s)
            if rng.random() < 0.85:
                src = rng.sample(range(nl), rng.choice([0, 1, 1, 1, 2]))
                blocks[rng.choice([nb - 1, nb - 1, rng.randrange(nb)])].append(
                    ("assign", o, ([(rng.choice([1, 2, -1]), v) for v in sorted(set(src) - {o})], rng.choice([0, 1, 5]))))
        funcs.append(dict(nl=nl, ins=ins, outs=outs, blocks=blocks, edges=edges, exit=nb - 1))
    if recursive:
        return funcs, "random-recursive-nf%d" % nf
    depth = _depth(funcs)
    return funcs, "random-nf%d-depth%d" % (nf, depth)


def _depth(funcs):
    d = {}

    def go(f):
        if f not in d:
            cs = {st[1] for blk in funcs[f]["blocks"] for st in blk if st[0] == "call"}
            d[f] = 1 + max([go(g) for g in cs]) if cs else 0
        return d[f]
    return go(0)


# input of the recorded finding "recursive call graphs" (known_findings.json), so that it is reported on every run
KNOWN_RECURSIVE = [
    "inter 2 3 cd=0 shape=recursive/known | F 0 1 0 I 0 O 0 | F 1 3 2 I 1 0 O 1 1 | B 0 0 call 1 1 1 1 0 ; assert C le E 1 -1 1 1 1 | "
    "B 1 0 arith sub 2 0 k 1 | B 1 1 call 1 1 1 1 2 | B 1 2 assert C le E 1 1 0 0 2 ; assign 1 E 1 1 0 0 | E 1 0 1 0 2 1 2",
]


def gen(seed, tier):
    rng = random.Random(seed * 131 + 1818)
    lines = []
    for mk, tag in ((brief_chain, "brief-chain2"), (brief_chain_blocks, "brief-chain2-blocks")):
        for pol in POLICIES:
            for cd in (0, 1):
                lines.append(fmt_program(rng, mk(), pol, [("cd", cd), ("shape", "%s/%s" % (tag, pol))]))
    lines += KNOWN_RECURSIVE
    n = 500 if tier == "quick" else 8000
    for i in range(n):
        if i % 2 == 0:
            funcs, tag = scripted(rng)
        else:
            funcs, tag = gen_random(rng)
        pol = POLICIES[(i // 2) % 4] if i % 10 < 8 else rng.choice(POLICIES)
        lines.append(fmt_program(rng, funcs, pol, [("cd", rng.choice([0, 0, 1])), ("shape", "%s/%s" % (tag, pol))]))
    return lines


def gen_recursive(seed, n):
    """programs whose call graph may have cycles: NOT part of the sweep (inter_assertion_crawler loses the own assertions of
    recursive functions, see the module docstring); python3 checks/C18_inter.py --recursive <n> explores them"""
    rng = random.Random(seed * 131 + 1819)
    lines = []
    for i in range(n):
        funcs, tag = gen_random(rng, recursive=True)
        pol = POLICIES[i % 4]
        lines.append(fmt_program(rng, funcs, pol, [("cd", rng.choice([0, 0, 1])), ("shape", "%s/%s" % (tag, pol))]))
    return lines


# ------------------------------------------------------------------ parsing (independent of the generator structures)

def parse(line):
    secs = [s.split() for s in line.split(" | ")]
    h = secs[0]
    P = dict(nf=int(h[1]), nv=int(h[2]), opts=dict(o.split("=", 1) for o in h[3:] if "=" in o), funcs={})
    for s in secs[1:]:
        if s and s[0] == "F":
            p = 4
            ni = int(s[p + 1]); ins = list(map(int, s[p + 2:p + 2 + ni])); p += 2 + ni
            no = int(s[p + 1]); outs = list(map(int, s[p + 2:p + 2 + no]))
            nb = int(s[2])
            P["funcs"][int(s[1])] = dict(nb=nb, exit=int(s[3]), ins=ins, outs=outs, blocks={b: [] for b in range(nb)}, succ={b: [] for b in range(nb)})
    for s in secs[1:]:
        if not s:
            continue
        if s[0] == "B":
            P["funcs"][int(s[1])]["blocks"][int(s[2])] += [parse_istmt(t) for t in split_stmts(s[3:])]
        elif s[0] == "E":
            v = list(map(int, s[2:]))
            succ = P["funcs"][int(s[1])]["succ"]
            for a, b in zip(v[0::2], v[1::2]):
                if b not in succ[a]:
                    succ[a].append(b)
    return P


def parse_istmt(t):
    if t[0] == "call":
        g = int(t[1]); no = int(t[2]); outs = list(map(int, t[3:3 + no]))
        ni = int(t[3 + no]); ins = list(map(int, t[4 + no:4 + no + ni]))
        return ("call", g, outs, ins)
    return parse_stmt(t)


def parse_answer(ans):
    """-> {f: {b: None (top) | {assertion id: set of variables}}} or None"""
    res = {}
    for part in ans.split(" # "):
        m = re.match(r"^F(\d+)((?: b\d+:(?:T|\[[^\]]*\]))*)\s*$", part.strip())
        if not m:
            return None
        tab = {}
        for mm in re.finditer(r"b(\d+):(T|\[[^\]]*\])", m.group(2)):
            if mm.group(2) == "T":
                tab[int(mm.group(1))] = None
                continue
            facts = {}
            body = mm.group(2)[1:-1]
            if body:
                for f in body.split(";"):
                    a, vs = f.split(":")
                    if vs == "T":
                        facts[int(a)] = None
                        continue
                    vs = vs.strip("{}")
                    facts[int(a)] = set(map(int, vs.split(","))) if vs else set()
            tab[int(mm.group(1))] = facts
        res[int(m.group(1))] = tab
    return res


def is_recursive(P):
    succ = {f: {st[1] for blk in F["blocks"].values() for st in blk if st[0] == "call"} for f, F in P["funcs"].items()}
    color = {}

    def dfs(u):
        color[u] = 1
        for v in succ[u]:
            if color.get(v) == 1 or (v not in color and dfs(v)):
                return True
        color[u] = 2
        return False
    return any(u not in color and dfs(u) for u in succ)


# ------------------------------------------------------------------ concrete inter-procedural interpreter (recorded paths)
# A recorded path is a flat list of operations over a stack of stores:
#   ("s", stmt, havoc value)              base statement in the top frame (data only)
#   ("call", g, actuals, init)            push the callee's store: init (recorded arbitrary values), formals := actuals
#   ("ret", lhs, formal outputs)          pop; lhs of the caller := formal outputs of the callee
#   ("a", stmt, function)                 an assertion is reached in the top frame (no effect)

MAXOPS = 160


class _Stop(Exception):
    pass


def _exec_op(op, stack, P):
    """apply one operation to the stack of stores; False if the execution cannot continue"""
    k = op[0]
    if k == "s":
        r = step_stmt(op[1], stack[-1], lambda x: op[2], data_only=True)
        if r[0] != "ok":
            return False
        stack[-1] = list(r[1])
        return True
    if k == "call":
        G = P["funcs"][op[1]]
        cs = list(op[3])
        for fo, ac in zip(G["ins"], op[2]):
            cs[fo] = stack[-1][ac]
        stack.append(cs)
        return True
    if k == "ret":
        callee = stack.pop()
        s2 = list(stack[-1])
        for o, fo in zip(op[1], op[2]):
            s2[o] = callee[fo]
        stack[-1] = s2
        return True
    return True


def _record_block(P, f, b, stack, ops, r0, depth):
    """execute the statements of block b of f on the stack, recording; raises _Stop when the walk cannot go on"""
    for st in P["funcs"][f]["blocks"][b]:
        if len(ops) >= MAXOPS:
            raise _Stop()
        if st[0] == "unreachable":
            raise _Stop()
        if st[0] == "assert":
            ops.append(("a", st, f))
            continue
        if st[0] == "call":
            if depth >= 6:
                raise _Stop()
            _, g, lhs, actuals = st
            G = P["funcs"][g]
            op = ("call", g, actuals, [r0.choice(POOL) for _ in range(P["nv"])])
            _exec_op(op, stack, P); ops.append(op)
            cur = 0
            for _n in range(14):
                _record_block(P, g, cur, stack, ops, r0, depth + 1)
                nxt = G["succ"][cur]
                if cur == G["exit"] and (not nxt or r0.random() < 0.7):
                    break
                if not nxt:
                    raise _Stop()                      # the callee never returns on this path
                cur = r0.choice(nxt)
            else:
                raise _Stop()
            op = ("ret", lhs, G["outs"])
            _exec_op(op, stack, P); ops.append(op)
            continue
        op = ("s", st, r0.choice(POOL) if st[0] == "havoc" else None)
        if not _exec_op(op, stack, P):
            raise _Stop()
        ops.append(op)


def record_walk(P, f, b, s0, r0, nblocks=6):
    """random walk from the entry of block b of function f; -> list of operations"""
    ops = []
    stack = [list(s0)]
    cur = b
    try:
        for _ in range(nblocks):
            _record_block(P, f, cur, stack, ops, r0, 0)
            nxt = P["funcs"][f]["succ"][cur]
            if not nxt:
                break
            cur = r0.choice(nxt)
    except _Stop:
        pass
    return ops


def replay(P, ops, s):
    """-> the stack of stores after ops (None if some statement cannot be executed)"""
    stack = [list(s)]
    for op in ops:
        if not _exec_op(op, stack, P):
            return None
    return stack


def show_ops(ops):
    out = []
    for op in ops:
        if op[0] == "s":
            out.append("%s%s" % (" ".join(map(str, _flat(op[1]))), "" if op[2] is None else "=%d" % op[2]))
        elif op[0] == "call":
            out.append("call f%d%s locals %s {" % (op[1], tuple(op[2]), op[3]))
        elif op[0] == "ret":
            out.append("} ret %s := %s" % (tuple(op[1]), tuple(op[2])))
    return " ; ".join(out)


def _flat(x):
    if isinstance(x, (tuple, list)):
        for y in x:
            for z in _flat(y):
                yield z
    else:
        yield x


def fname(f):
    return "main" if f == 0 else "f%d" % f


def oracle(line, ans, rng=None, walks=8):
    """None, or (class, text) with class in own-unlisted | own-var | callee-unlisted | callee-var | abort"""
    if ans in ("MISSING", "TIMEOUT") or ans.startswith("HARNESS-ERROR"):
        return None
    if ans == "ABORT":
        return ("abort", "inter_assertion_crawler aborted (CRAB_ERROR) on a well-formed program")
    P = parse(line)
    res = parse_answer(ans)
    if res is None or set(res) != set(P["funcs"]):
        return None
    r0 = random.Random(zlib.crc32(line.encode()))
    for f in sorted(P["funcs"]):
        F = P["funcs"][f]
        for b in sorted(F["blocks"]):
            facts = res[f].get(b)
            if facts is None:
                continue       # top: everything is listed
            for t in range(walks):
                s0 = [r0.choice(POOL) for _ in range(P["nv"])]
                ops = record_walk(P, f, b, s0, r0)
                depth = 0
                for pos, op in enumerate(ops):
                    if op[0] == "call":
                        depth += 1
                    elif op[0] == "ret":
                        depth -= 1
                    if op[0] != "a":
                        continue
                    a, af = op[1], op[2]
                    aid = a[2]
                    cls = "own" if depth == 0 else "callee"
                    where = ("assertion %d of %s" % (aid, fname(af))) + ("" if depth == 0 else " (reached through %d nested call%s)" % (depth, "s" if depth > 1 else ""))
                    if aid not in facts:
                        return (cls + "-unlisted", "%s is reachable from the entry of block b%d of %s but is not listed there (listed: %s); path: %s"
                                % (where, b, fname(f), sorted(facts), show_ops(ops[:pos])))
                    V = facts[aid]
                    if V is None:
                        continue
                    base = replay(P, ops[:pos], s0)
                    if base is None:
                        continue
                    va = ev(a[1][1], base[-1])
                    for x in range(P["nv"]):
                        if x in V:
                            continue
                        for nv_ in r0.sample([v for v in POOL if v != s0[x]], 2):
                            s2 = list(s0); s2[x] = nv_
                            oth = replay(P, ops[:pos], s2)
                            if oth is None:
                                continue
                            vb = ev(a[1][1], oth[-1])
                            if va != vb:
                                from transforms import holds
                                return (cls + "-var", "the value of v%d at the entry of block b%d of %s flows into the condition of %s but v%d is not in its set "
                                        "(listed: %s): entry store %s vs v%d:=%d, same path and same choices inside the callees: value of the condition's expression "
                                        "%d vs %d (condition %s vs %s); path: %s"
                                        % (x, b, fname(f), where, x, sorted(V), s0, x, nv_, va, vb, holds(a[1], base[-1]), holds(a[1], oth[-1]), show_ops(ops[:pos])))
    return None


# ------------------------------------------------------------------ non-triviality and shapes

def _uses(st):
    k = st[0]
    if k == "assign": return {v for _, v in st[2][0]}
    if k in ("arith", "bit"): return {st[3]} | ({st[5]} if st[4] == "v" else set())
    if k in ("assume", "assert"): return {v for _, v in st[1][1][0]}
    if k == "select": return {v for _, v in st[2][1][0]} | {v for _, v in st[3][0]} | {v for _, v in st[4][0]}
    if k == "call": return set(st[3])
    return set()


def _defs(st):
    k = st[0]
    if k in ("assign", "havoc", "select"): return {st[1]}
    if k in ("arith", "bit"): return {st[2]}
    if k == "call": return set(st[2])
    return set()


def nontrivial(line, ans):
    """some assertion A of a function F located after a call site c of F (later in c's block: A's condition sliced back to c
    uses a result of c; in a block reachable from c's block: A's condition mentions a result of c) has, at the entry of c's
    block, a non-empty reported set that contains an actual parameter of c (a variable that flows through the call)"""
    P = parse(line)
    res = parse_answer(ans)
    if res is None:
        return False
    for f, F in P["funcs"].items():
        reach = {}
        for b in F["blocks"]:
            seen, todo = set(), list(F["succ"][b])
            while todo:
                x = todo.pop()
                if x not in seen:
                    seen.add(x); todo += F["succ"][x]
            reach[b] = seen
        for b, blk in F["blocks"].items():
            facts = (res.get(f) or {}).get(b)
            if not facts:
                continue
            for i, c in enumerate(blk):
                if c[0] != "call" or not c[2] or not c[3]:
                    continue
                cand = []
                for j in range(i + 1, len(blk)):
                    if blk[j][0] == "assert":
                        W = _uses(blk[j])
                        for st in reversed(blk[i + 1:j]):
                            if W & _defs(st):
                                W = (W - _defs(st)) | _uses(st)
                        if W & set(c[2]):
                            cand.append(blk[j][2])
                for b2 in reach[b]:
                    for st in F["blocks"][b2]:
                        if st[0] == "assert" and _uses(st) & set(c[2]):
                            cand.append(st[2])
                for aid in cand:
                    S = facts.get(aid)
                    if S and S & set(c[3]):
                        return True
    return False


def key(line):
    m = re.search(r"\bshape=(\S+)", line.split(" | ")[0])
    return m.group(1) if m else "?"
