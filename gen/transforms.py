"""Generator and property-level oracles for C18 (liveness, assertion crawler) and C17 (dead-code
elimination, cfg::simplify, lower_safe_assertions).

Case format: harness/cfgtext.hpp + the F / L sections and the q= option of harness/transforms.cpp.
The oracles interpret the textual programs with an independent python interpreter over
mathematical integers (same semantic choices as coq/Ana/CfgSem.v):

  C18 / q=live  : perturb a variable that is reported not live (or dead) at the end of a block, re-run
                  with the same seeded choices, compare branches, assume / assertion outcomes, outputs.
  C18 / q=crawl : random walks from the entry of a block; every assertion met must be listed at the
                  block, and replaying the same path after perturbing a variable that is not listed
                  for that assertion must give the same value of its condition.
  C17           : the implementation's transformed CFG is parsed back; exit-reaching executions of
                  the original must have a counterpart in the transformed CFG with the same
                  conditions, assertion outcomes and outputs, and vice versa (unless a statement that
                  is absent from the transformed CFG fails in the original: the property's proviso);
                  well-formedness of the result (edge symmetry, entry / exit kept).
"""
import random, re, zlib
from domhist import gen_exp, gen_cst, fmt_exp, fmt_cst

POOL = [0, 1, -1, 2, 3, 5, -5, 7, 10, -10, 100]

# ------------------------------------------------------------------ generation


def rand_stmt(rng, nv):
    k = rng.choices(["assign", "arith", "bit", "assume", "havoc", "select"], [9, 8, 1, 3, 2, 2])[0]
    if k == "assign":
        return "assign %d %s" % (rng.randrange(nv), fmt_exp(gen_exp(rng, nv, small=True)))
    if k == "arith":
        op = rng.choice(["add", "add", "sub", "mul", "sdiv", "srem", "sdiv", "udiv", "urem"])
        z = ("v %d" % rng.randrange(nv)) if rng.random() < 0.5 else ("k %d" % rng.choice([1, 1, 2, 3, -1, -2, 5, 0, 7]))
        return "arith %s %d %d %s" % (op, rng.randrange(nv), rng.randrange(nv), z)
    if k == "bit":
        op = rng.choice(["and", "or", "xor", "shl", "ashr", "lshr"])
        z = ("k %d" % rng.choice([0, 1, 2, 3, 7])) if rng.random() < 0.8 else ("v %d" % rng.randrange(nv))
        return "bit %s %d %d %s" % (op, rng.randrange(nv), rng.randrange(nv), z)
    if k == "assume":
        return "assume %s" % fmt_cst(gen_cst(rng, nv, small=True, maxterms=2))
    if k == "havoc":
        return "havoc %d" % rng.randrange(nv)
    return "select %d %s %s %s" % (rng.randrange(nv), fmt_cst(gen_cst(rng, nv, small=True, maxterms=2)),
                                   fmt_exp(gen_exp(rng, nv, small=True)), fmt_exp(gen_exp(rng, nv, small=True)))


def gen_cfg(rng, big=False):
    """random CFG: a spine with forward edges, back edges (loops, self loops, 2-cycles), optionally blocks
    unreachable from the entry, blocks that do not reach the exit, several sinks, chains into the exit"""
    nb = rng.choice([1, 2, 2, 3, 3, 4, 4, 5, 5, 6, 7, 8] + ([10, 12] if big else []))
    nv = rng.randint(1, 5)
    edges = []

    def add(a, b):
        if (a, b) not in edges:
            edges.append((a, b))

    shape = rng.random()
    reach = nb if rng.random() < 0.8 else max(1, nb - rng.randint(1, 2))     # blocks reach.. are attached to the spine
    for b in range(1, reach):
        add(rng.randrange(b) if shape < 0.6 else b - 1, b)
    for _ in range(rng.choice([0, 0, 1, 1, 2, 3])):        # forward / cross edges
        a, b = rng.randrange(nb), rng.randrange(nb)
        if a != b:
            add(min(a, b), max(a, b))
    for _ in range(rng.choice([0, 0, 1, 1, 2])):           # back edges
        a = rng.randrange(nb); b = rng.randrange(a + 1)
        add(a, b)
    if rng.random() < 0.12:
        a = rng.randrange(nb); add(a, a)
    if rng.random() < 0.12 and nb >= 2:
        a, b = rng.sample(range(nb), 2); add(a, b); add(b, a)
    for b in range(reach, nb):                             # unreachable blocks, some feeding the graph
        if rng.random() < 0.7:
            add(b, rng.randrange(nb))
    rng.shuffle(edges) if rng.random() < 0.5 else None
    sinks = [b for b in range(nb) if not any(a == b for a, _ in edges)]
    r = rng.random()
    if r < 0.08:
        ex = -1
    elif r < 0.75 and sinks:
        ex = rng.choice(sinks)
    else:
        ex = rng.randrange(nb)
    nassert = 0
    blocks = []
    for b in range(nb):
        ss = [rand_stmt(rng, nv) for _ in range(rng.choice([0, 0, 1, 1, 2, 2, 3, 4]))]
        for _ in range(rng.choice([0, 0, 0, 1, 1, 2])):
            nassert += 1
            c = gen_cst(rng, nv, kinds=("le", "le", "eq", "ne", "lt"), small=True, maxterms=2)
            if rng.random() < 0.08:
                c = (c[0], ([], rng.choice([0, 1, -1])))    # constant condition
            ss.insert(rng.randint(0, len(ss)), "assert %s %d" % (fmt_cst(c), nassert))
        if rng.random() < 0.12:
            ss.insert(rng.randint(0, len(ss)), "unreachable")
        blocks.append(ss)
    extra = []
    if ex >= 0 and rng.random() < 0.6:
        vs = list(range(nv)); rng.shuffle(vs)
        nout = rng.randint(0, min(2, nv)) if rng.random() < 0.9 else 0
        nin = rng.randint(0, nv - nout)
        extra.append("F %d %s %d %s" % (nin, " ".join(map(str, vs[nout:nout + nin])), nout, " ".join(map(str, vs[:nout]))))
        extra[-1] = " ".join(extra[-1].split())
    return nb, nv, ex, blocks, edges, extra, nassert


def fmt_case(nb, nv, ex, blocks, edges, extra, opts):
    parts = ["cfg %d %d %d %s" % (nb, nv, ex, " ".join("%s=%s" % kv for kv in opts))]
    for i, b in enumerate(blocks):
        parts.append(("B %d %s" % (i, " ; ".join(b))).strip())
    parts.append(("E " + " ".join("%d %d" % e for e in edges)).strip())
    parts.extend(extra)
    return " | ".join(parts)


X5 = "assign 0 E 0 5"
CORPUS_C18 = [
    # unreachable at the end of a block that reads x (fixed: transforms-1)
    "cfg 3 1 2 q=live | B 0 assign 0 E 0 5 | B 1 assert C le E 1 1 0 0 1 ; unreachable | B 2 | E 0 1 0 2",
    "cfg 3 2 2 q=live | B 0 assign 0 E 0 5 | B 1 assign 1 E 1 1 0 0 ; unreachable ; assign 0 E 0 1 | B 2 assert C le E 1 1 1 0 1 | E 0 1 0 2 1 2",
    # outputs are live at the exit block, not at another sink / when the exit is in a cycle (fixed: transforms-2)
    "cfg 3 2 2 q=live | F 0 1 1 | B 0 assign 0 E 0 5 | B 1 assign 1 E 0 3 | B 2 assign 1 E 1 1 0 0 | E 0 1 0 2",
    "cfg 3 2 2 q=live | F 0 1 1 | B 0 assign 0 E 0 5 | B 1 assign 1 E 0 3 | B 2 assign 1 E 1 1 0 0 | E 0 2 0 1",
    "cfg 2 2 1 q=live | F 0 1 1 | B 0 assign 1 E 1 1 0 0 | B 1 assign 0 E 0 1 | E 0 1 1 0",
    "cfg 2 2 0 q=live | F 0 1 1 | B 0 assign 1 E 1 1 0 0 | B 1 assign 0 E 0 1 | E 0 1 1 0",
    "cfg 3 1 2 q=crawl | B 0 assign 0 E 0 5 | B 1 assert C le E 1 1 0 0 1 ; unreachable | B 2 | E 0 1 0 2",
    "cfg 1 2 0 q=crawl | B 0 assert C le E 1 1 0 0 1 ; assign 0 E 1 1 1 0 | E 0 0",
    "cfg 4 3 3 q=crawl cd=1 | B 0 havoc 0 | B 1 assume C le E 1 1 0 0 ; assign 1 E 0 1 | B 2 assume C le E 1 -1 0 1 ; assign 1 E 0 2 | B 3 assert C le E 1 1 1 -1 1 ; assert C eq E 0 0 2 | E 0 1 0 2 1 3 2 3",
    "cfg 4 3 3 q=crawl cd=0 | B 0 havoc 0 | B 1 assume C le E 1 1 0 0 ; assign 1 E 0 1 | B 2 assume C le E 1 -1 0 1 ; assign 1 E 0 2 | B 3 assert C le E 1 1 1 -1 1 ; assert C eq E 0 0 2 | E 0 1 0 2 1 3 2 3",
    "cfg 5 3 4 q=crawl cd=1 | B 0 havoc 0 | B 1 assume C le E 1 1 0 0 | B 2 assume C le E 1 -1 0 1 | B 3 assert C le E 1 1 1 -1 1 | B 4 | E 0 1 0 2 1 3 3 4 2 4",
]
CORPUS_C17 = [
    "cfg 3 1 2 q=dce | B 0 assign 0 E 0 5 | B 1 assert C le E 1 1 0 0 1 ; unreachable | B 2 | E 0 1 0 2",
    "cfg 4 2 3 q=dce | F 0 1 1 | B 0 assign 0 E 0 5 | B 1 assign 1 E 0 3 | B 2 | B 3 assign 1 E 1 1 0 0 | E 0 2 0 1 2 3",
    "cfg 4 2 3 q=pipe | F 0 1 1 | B 0 assign 0 E 0 5 | B 1 assign 1 E 0 3 | B 2 | B 3 assign 1 E 1 1 0 0 | E 0 2 0 1 2 3",
    # entry is the head of a loop (fixed abort: transforms-3)
    "cfg 1 1 -1 q=simp | B 0 assign 0 E 0 5 | E 0 0",
    "cfg 2 1 -1 q=simp | B 0 assign 0 E 0 5 | B 1 havoc 0 | E 0 1 1 0",
    "cfg 4 2 3 q=simp | B 0 assign 0 E 0 5 | B 1 havoc 0 | B 2 havoc 1 | B 3 | E 0 1 1 2 2 0 1 3",
    "cfg 1 1 0 q=simp | B 0 assign 0 E 0 5 | E 0 0",
    # nothing may be folded into the exit block (fixed: transforms-3)
    "cfg 3 2 0 q=simp | F 0 1 1 | B 0 assign 1 E 0 1 | B 1 assert C le E 1 1 0 0 1 ; assign 1 E 0 2 | B 2 | E 0 1 1 2",
    "cfg 4 4 1 q=simp | B 0 havoc 1 ; assume C lt E 1 3 0 10 | B 1 assert C lt E 2 1 0 -2 1 1 1 ; arith add 0 1 k -1 | B 2 assert C ne E 2 1 0 1 1 1 3 ; unreachable | B 3 | E 0 1 1 2 2 3",
    # chains into the exit, exit relabelled
    "cfg 4 2 3 q=simp | F 0 1 1 | B 0 assign 0 E 0 5 | B 1 assign 1 E 1 1 0 0 | B 2 arith add 1 1 k 1 | B 3 arith mul 1 1 k 2 | E 0 1 1 2 2 3",
    "cfg 5 2 3 q=simp | B 0 havoc 0 | B 1 assume C le E 1 1 0 0 | B 2 assume C le E 1 -1 0 1 | B 3 assert C le E 1 1 0 5 1 | B 4 assert C eq E 0 1 2 | E 0 1 0 2 1 3 2 3 2 4",
    "cfg 3 2 2 q=lower | B 0 havoc 0 ; assert C le E 1 1 0 0 1 | B 1 assert C le E 1 1 0 -1 2 | B 2 assert C eq E 0 0 3 | E 0 1 1 2 | L 1 3",
]


def gen(seed, tier, prop):
    """prop = 'C18' (q=live, crawl) or 'C17' (q=dce, simp, lower, pipe)"""
    rng = random.Random(seed * 31 + (18 if prop == "C18" else 17))
    lines = list(CORPUS_C18 if prop == "C18" else CORPUS_C17)
    n = (2000 if tier == "quick" else 30000)
    for i in range(n):
        nb, nv, ex, blocks, edges, extra, na = gen_cfg(rng, big=(i % 7 == 0))
        if prop == "C18":
            lines.append(fmt_case(nb, nv, ex, blocks, edges, extra, [("q", "live")]))
            lines.append(fmt_case(nb, nv, ex, blocks, edges, extra, [("q", "crawl"), ("cd", rng.choice([0, 1, 1]))]))
        else:
            ids = [a for a in range(1, na + 1) if rng.random() < 0.5]
            low = ["L " + " ".join(map(str, ids))] if ids else []
            q = ["dce", "simp", "pipe", "lower"][i % 4] if i % 5 else rng.choice(["dce", "simp"])
            lines.append(fmt_case(nb, nv, ex, blocks, edges, extra + (low if q in ("lower", "pipe") else []), [("q", q)]))
            if i % 3 == 0:
                q2 = "simp" if q != "simp" else "dce"
                lines.append(fmt_case(nb, nv, ex, blocks, edges, extra, [("q", q2)]))
    return lines


# ------------------------------------------------------------------ boolean sub-stream of C17 (oracle only)

def rand_bstmt(rng, nv, nb):
    """a boolean statement over the integer variables v0..v(nv-1) and the booleans b0..b(nb-1)"""
    B = lambda: rng.randrange(nb)
    k = rng.choices(["bassign", "bcopy", "bnot", "bbin", "bselect", "bassume", "bnassume", "bhavoc", "bzext"],
                    [9, 3, 3, 6, 3, 1, 0.5, 2, 3])[0]
    if k == "bassign":
        c = gen_cst(rng, nv, small=True, maxterms=2)
        if rng.random() < 0.08:
            c = (rng.choice(["eq", "le"]), ([], rng.choice([0, 0, 1, -1])))          # b := true / false
        return "bassign %d %s" % (B(), fmt_cst(c))
    if k in ("bcopy", "bnot"):
        return "%s %d %d" % (k, B(), B())
    if k == "bbin":
        return "bbin %s %d %d %d" % (rng.choice(["and", "or", "xor"]), B(), B(), B())
    if k == "bselect":
        return "bselect %d %d %d %d" % (B(), B(), B(), B())
    if k == "bzext":
        return "bzext %d %d" % (rng.randrange(nv), B())
    return "%s %d" % (k, B())


def likely_cst(rng, nv):
    """a constraint that most of the sampled stores satisfy (values of POOL), so that executions get past an assume of it"""
    x = rng.randrange(nv)
    return rng.choice(["C le E 1 -1 %d %d" % (x, rng.choice([-10, -5, -1, 0])), "C ne E 1 1 %d %d" % (x, rng.choice([0, -1, -7, 4])),
                       "C lt E 1 1 %d %d" % (x, rng.choice([-100, -10, -3])), "C le E 1 1 %d %d" % (x, rng.choice([-100, -10, -7])),
                       fmt_cst(gen_cst(rng, nv, kinds=("le", "ne", "lt", "eq"), small=True, maxterms=2))])


def true_bassert(rng, nv, fresh, aid):
    """a group of statements ending in a boolean assertion that holds whenever it is reached, on booleans
    b<fresh>, b<fresh+1>, b<fresh+2> that nothing else in the program writes.  -> (statements, booleans used)"""
    x = rng.randrange(nv)
    k1 = rng.choice([-10, -5, -1, 0, 1, 2]); k0 = k1 - rng.choice([0, 0, 1, 3])
    b, b2, b3 = fresh, fresh + 1, fresh + 2
    ge = lambda k: "C le E 1 -1 %d %d" % (x, k)              # x >= k
    r = rng.randrange(6)
    if r == 0:      # assume x >= k1 ; b := (x >= k0) ; assert b           (k0 <= k1)
        return ["assume " + ge(k1), "bassign %d %s" % (b, ge(k0)), "bassert %d %d" % (b, aid)], 1
    if r == 1:      # b := C ; assume b ; b2 := b ; assert b2
        c = likely_cst(rng, nv)
        return ["bassign %d %s" % (b, c), "bassume %d" % b, "bcopy %d %d" % (b2, b), "bassert %d %d" % (b2, aid)], 2
    if r == 2:      # b := C ; b2 := not b ; assume not b2 ; assert b
        c = likely_cst(rng, nv)
        return ["bassign %d %s" % (b, c), "bnot %d %d" % (b2, b), "bnassume %d" % b2, "bassert %d %d" % (b, aid)], 2
    if r == 3:      # b := C ; b2 := not b ; b3 := b or / xor b2 ; assert b3   (tautology)
        c = fmt_cst(gen_cst(rng, nv, small=True, maxterms=2))
        return ["bassign %d %s" % (b, c), "bnot %d %d" % (b2, b), "bbin %s %d %d %d" % (rng.choice(["or", "xor"]), b3, b, b2),
                "bassert %d %d" % (b3, aid)], 3
    if r == 4:      # b := true ; b2 := * ; b3 := b2 ? b : b ; assert b3
        return ["bassign %d C eq E 0 0" % b, "bhavoc %d" % b2, "bselect %d %d %d %d" % (b3, b2, b, b), "bassert %d %d" % (b3, aid)], 3
    # assume x >= k1 ; b := (x < k0) ; b2 := not b ; assert b2
    return ["assume " + ge(k1), "bassign %d C lt E 1 1 %d %d" % (b, x, -k0), "bnot %d %d" % (b2, b), "bassert %d %d" % (b2, aid)], 2


def gen_bool_cfg(rng, big=False):
    """the CFG shapes of gen_cfg with blocks that mix numerical and boolean statements.
    -> (nb, nv, ex, blocks, edges, extra, ids of all assertions, ids of the assertions that hold by construction)"""
    for _ in range(6):
        nblk, nv, ex, _blocks, edges, _extra, _na = gen_cfg(rng, big)
        seen, todo = {0}, [0]
        while todo:
            a = todo.pop()
            for (u, v) in edges:
                if u == a and v not in seen:
                    seen.add(v); todo.append(v)
        if ex in seen or rng.random() < 0.2:       # mostly CFGs whose exit block is reachable from the entry
            break
    nbool = rng.choice([1, 2, 2, 3, 3, 4])
    fresh = nbool + 1                       # b<nbool> = the guard (below); b<nbool+1>.. = booleans of true_bassert groups
    ids, sure = [], []
    blocks = []
    guard = rng.random() < 0.5              # entry block: g := C ; assume g  -- g is never written again
    for b in range(nblk):
        ss = []
        for _ in range(rng.choice([0, 1, 1, 2, 2, 3, 4, 5])):
            ss.append(rand_bstmt(rng, nv, nbool) if rng.random() < 0.6 else rand_stmt(rng, nv))
        for _ in range(rng.choice([0, 0, 0, 1, 1, 2]) if rng.random() < 0.6 else 0):   # assertions that may fail
            aid = len(ids) + 1; ids.append(aid)
            pos = rng.randint(0, len(ss))
            if rng.random() < 0.7:
                bb = rng.randrange(nbool)
                ss.insert(pos, "bassert %d %d" % (bb, aid))
                if rng.random() < 0.6:      # holds on most stores, not by construction
                    ss.insert(rng.randint(0, pos), "bassign %d %s" % (bb, likely_cst(rng, nv)))
            else:
                c = likely_cst(rng, nv) if rng.random() < 0.6 else fmt_cst(gen_cst(rng, nv, kinds=("le", "le", "eq", "ne", "lt"), small=True, maxterms=2))
                ss.insert(pos, "assert %s %d" % (c, aid))
        if rng.random() < 0.45:                                     # a group that ends in an assertion that holds
            aid = len(ids) + 1; ids.append(aid); sure.append(aid)
            grp, used = true_bassert(rng, nv, fresh, aid)
            if rng.random() < 0.5:
                fresh += used
            pos = rng.randint(0, len(ss))
            ss[pos:pos] = grp
        if guard and rng.random() < 0.4:                            # the guard holds wherever it is read
            aid = len(ids) + 1; ids.append(aid); sure.append(aid)
            ss.insert(rng.randint(0, len(ss)), "bassert %d %d" % (nbool, aid))
        if guard and rng.random() < 0.15:
            ss.insert(rng.randint(0, len(ss)), rng.choice(["bassume %d" % nbool, "bcopy %d %d" % (rng.randrange(nbool), nbool),
                                                          "bzext %d %d" % (rng.randrange(nv), nbool)]))
        if rng.random() < 0.04:
            ss.insert(rng.randint(0, len(ss)), "unreachable")
        blocks.append(ss)
    if guard:
        # mostly a condition that most of the sampled initial stores satisfy
        blocks[0][0:0] = ["bassign %d %s" % (nbool, likely_cst(rng, nv)), "bassume %d" % nbool]
    extra = []
    if ex >= 0 and rng.random() < 0.7:
        vs = [str(v) for v in range(nv)] + ["b%d" % i for i in range(nbool)] * 2
        rng.shuffle(vs)
        vs = sorted(set(vs), key=vs.index)
        nout = rng.randint(0, min(3, len(vs))) if rng.random() < 0.9 else 0
        nin = rng.randint(0, min(2, len(vs) - nout))
        extra.append(" ".join(("F %d %s %d %s" % (nin, " ".join(vs[nout:nout + nin]), nout, " ".join(vs[:nout]))).split()))
    return nblk, nv, ex, blocks, edges, extra, ids, sure


CORPUS_BOOL = [
    # an assertion that holds is lowered: assume x >= 1 ; b := (x >= 0) ; assert b
    "cfg 2 1 1 q=lower | F 0 1 0 | B 0 assume C le E 1 -1 0 1 ; bassign 0 C le E 1 -1 0 0 ; bassert 0 1 | B 1 arith add 0 0 k 1 | E 0 1 | L 1",
    "cfg 2 1 1 q=pipe | F 0 1 0 | B 0 assume C le E 1 -1 0 1 ; bassign 0 C le E 1 -1 0 0 ; bassert 0 1 | B 1 arith add 0 0 k 1 | E 0 1 | L 1",
    "cfg 2 1 1 q=lower | F 0 1 0 | B 0 assume C le E 1 -1 0 1 ; bassign 0 C le E 1 -1 0 0 ; bassert 0 1 | B 1 arith add 0 0 k 1 | E 0 1",
    # one of two assertions lowered; a numerical and a boolean assertion in the same block
    "cfg 3 2 2 q=lower | F 0 1 b1 | B 0 bassign 0 C le E 1 1 0 0 ; bassume 0 | B 1 bassert 0 1 ; bnot 1 0 ; assert C le E 1 1 0 0 2 | B 2 bnassume 1 ; bassert 0 3 | E 0 1 1 2 | L 1 2",
    "cfg 3 2 2 q=pipe | F 0 1 b1 | B 0 bassign 0 C le E 1 1 0 0 ; bassume 0 | B 1 bassert 0 1 ; bnot 1 0 ; assert C le E 1 1 0 0 2 | B 2 bnassume 1 ; bassert 0 3 | E 0 1 1 2 | L 3",
    # dead boolean assignments; a boolean that is live only through a later assume / assert / select / zext / output
    "cfg 2 2 1 q=dce | F 0 1 1 | B 0 bassign 0 C le E 1 1 0 0 ; bassign 0 C le E 1 1 0 -5 ; bnot 1 0 ; bbin and 2 0 1 | B 1 bzext 1 0 | E 0 1",
    "cfg 3 2 2 q=dce | B 0 bassign 0 C le E 1 1 0 0 ; bassign 1 C eq E 1 1 1 0 ; bhavoc 2 | B 1 bcopy 3 1 | B 2 bassume 0 | E 0 1 1 2",
    "cfg 3 2 2 q=dce | B 0 bassign 0 C le E 1 1 0 0 ; bassign 1 C eq E 1 1 1 0 ; bhavoc 2 | B 1 bselect 3 2 0 1 | B 2 bassert 3 1 | E 0 1 1 2",
    "cfg 3 2 2 q=dce | F 0 1 b3 | B 0 bassign 0 C le E 1 1 0 0 ; bassign 1 C eq E 1 1 1 0 ; bhavoc 2 | B 1 bselect 3 2 0 1 ; bbin xor 4 0 1 | B 2 bnassume 4 | E 0 1 0 2 1 2",
    "cfg 2 1 1 q=dce | F 0 1 0 | B 0 bassign 0 C le E 1 1 0 0 ; bnot 0 0 ; bnot 0 0 | B 1 bzext 0 0 | E 0 1 1 0",
    # chains that simplify merges
    "cfg 4 2 3 q=simp | F 0 1 b1 | B 0 bassign 0 C le E 1 1 0 0 | B 1 bnot 1 0 ; bnassume 1 | B 2 bbin or 1 0 1 ; bassert 1 1 | B 3 bselect 1 0 1 0 | E 0 1 1 2 2 3",
    "cfg 5 2 4 q=simp | F 0 1 b0 | B 0 bhavoc 0 | B 1 bassume 0 | B 2 bnassume 0 | B 3 bnot 0 0 | B 4 bzext 1 0 | E 0 1 0 2 1 3 3 4 2 4",
    "cfg 4 1 3 q=pipe | F 0 1 b1 | B 0 bassign 0 C le E 1 1 0 0 ; bhavoc 2 | B 1 bnot 1 0 ; bnassume 1 | B 2 bbin or 1 0 1 ; bassert 1 1 ; bcopy 2 1 | B 3 bselect 1 0 1 0 | E 0 1 1 2 2 3 | L 1",
]


def gen_bool(seed, tier):
    """programs that mix numerical and boolean statements for q = dce | simp | lower | pipe (judged by oracle_transform only)"""
    rng = random.Random(seed * 31 + 1717)
    lines = list(CORPUS_BOOL)
    n = 170 if tier == "quick" else 4200
    for i in range(n):
        nblk, nv, ex, blocks, edges, extra, ids, sure = gen_bool_cfg(rng, big=(i % 7 == 0))
        # L: as in the numerical stream any subset may be listed (an execution on which a listed assertion fails does not
        # reach the exit, before or after); the assertions that hold by construction are listed more often than not
        low = [a for a in ids if rng.random() < (0.7 if a in sure else 0.4)]
        low = ["L " + " ".join(map(str, low))] if low else []
        q = ["lower", "pipe", "dce", "simp"][i % 4] if i % 5 else rng.choice(["pipe", "lower"])
        lines.append(fmt_case(nblk, nv, ex, blocks, edges, extra + (low if q in ("lower", "pipe") else []), [("q", q)]))
        if i % 2 == 0:
            q2 = "dce" if q in ("lower", "simp") else "simp"
            lines.append(fmt_case(nblk, nv, ex, blocks, edges, extra, [("q", q2)]))
    return lines


# ------------------------------------------------------------------ array statements (oracle only)

def rand_astmt(rng, nv, na):
    """an array statement over a0..a(na-1); indices are small constants or a variable plus a small constant (element size 1),
    or multiples of 4 (element size 4)"""
    A = lambda: rng.randrange(na)
    def idx(sz):
        if sz == 1 and rng.random() < 0.4:
            return "E 1 1 %d %d" % (rng.randrange(nv), rng.choice([0, 0, 1, -1, 2]))
        return "E 0 %d" % (sz * rng.choice([0, 1, 2, 3, 4, 5, 7, 10]))
    def val():
        return rng.choice(["E 0 %d" % rng.choice([0, 1, 7, -3, 5]), "E 1 1 %d 0" % rng.randrange(nv), "E 1 1 %d 1" % rng.randrange(nv)])
    sz = rng.choice([1, 1, 1, 4])
    k = rng.choices(["ainit", "astore", "astorer", "aload", "aassign"], [1, 4, 5, 7, 1])[0]
    if k == "ainit":
        return "ainit %d %d %s %s %s" % (A(), sz, "E 0 0", "E 0 %d" % (sz * rng.choice([3, 5, 10, 12])), val())
    if k == "astore":
        return "astore %d %d %d %s %s" % (A(), sz, rng.choice([0, 1]), idx(sz), val())
    if k == "astorer":
        lo = rng.choice([0, 1, 2, 3]) * sz
        hi = rng.choice(["E 0 %d" % (lo + sz * rng.choice([0, 1, 2, 4, 7])), "E 0 %d" % (lo + sz * rng.choice([1, 3, 6])),
                         ("E 1 1 %d %d" % (rng.randrange(nv), rng.choice([0, 1, 3]))) if sz == 1 else "E 0 %d" % (lo + 8)])
        return "astorer %d %d E 0 %d %s %s" % (A(), sz, lo, hi, val())
    if k == "aload":
        return "aload %d %d %d %s" % (rng.randrange(nv), A(), sz, idx(sz))
    return "aassign %d %d" % (A(), A())


def gen_arr_cfg(rng, big=False):
    """the CFG shapes of gen_cfg with blocks that mix numerical and array statements; loaded values flow into
    assumptions, assertions and the function outputs"""
    nblk, nv, ex, _blocks, edges, _extra, _na = gen_cfg(rng, big)
    nv = max(nv, 2)
    na = rng.choice([1, 1, 2])
    ids = []
    blocks = []
    for b in range(nblk):
        ss = []
        for _ in range(rng.choice([0, 1, 2, 2, 3, 4, 5])):
            ss.append(rand_astmt(rng, nv, na) if rng.random() < 0.6 else rand_stmt(rng, nv))
            if ss[-1].startswith("aload") and rng.random() < 0.5:
                x = int(ss[-1].split()[1]); c = rng.choice([0, 1, 7, -3, 5])
                if rng.random() < 0.5:
                    ss.append("assume C %s E 1 1 %d %d" % (rng.choice(["eq", "ne", "le"]), x, -c))
                else:
                    aid = len(ids) + 1; ids.append(aid)
                    ss.append("assert C %s E 1 1 %d %d %d" % (rng.choice(["eq", "ne", "le"]), x, -c, aid))
        blocks.append(ss)
    # small known values for the variables used as indices / bounds
    blocks[0][0:0] = ["assign %d E 0 %d" % (v, rng.choice([0, 1, 2, 3, 5, 7])) for v in range(nv) if rng.random() < 0.6]
    extra = []
    if ex >= 0 and rng.random() < 0.8:
        vs = list(range(nv)); rng.shuffle(vs)
        nout = rng.randint(1, min(3, nv))
        extra.append("F 0 %d %s" % (nout, " ".join(map(str, vs[:nout]))))
    return nblk, nv, ex, blocks, edges, extra, ids


CORPUS_ARR = [
    # a range store in a block that simplify folds into its predecessor / that cfg::clone copies; the cell read lies inside the range only
    "cfg 4 3 3 q=simp | F 0 1 2 | B 0 assign 0 E 0 2 ; assign 1 E 0 6 | B 1 astorer 0 1 E 1 1 0 0 E 1 1 1 0 E 0 7 | B 2 aload 2 0 1 E 1 1 1 0 | B 3 arith add 2 2 k 1 | E 0 1 1 2 2 3",
    "cfg 4 3 3 q=clone | F 0 1 2 | B 0 assign 0 E 0 2 ; assign 1 E 0 6 | B 1 astorer 0 1 E 1 1 0 0 E 1 1 1 0 E 0 7 | B 2 aload 2 0 1 E 1 1 1 0 | B 3 arith add 2 2 k 1 | E 0 1 1 2 2 3",
    "cfg 4 3 3 q=pipe | F 0 1 2 | B 0 assign 0 E 0 2 ; assign 1 E 0 6 | B 1 astorer 0 1 E 1 1 0 0 E 1 1 1 0 E 0 7 | B 2 aload 2 0 1 E 1 1 1 0 | B 3 arith add 2 2 k 1 | E 0 1 1 2 2 3",
    # array_init then loads inside the initialised range; a store that is dead (overwritten array) and one that is not
    "cfg 3 2 2 q=dce | F 0 1 1 | B 0 ainit 0 1 E 0 0 E 0 10 E 0 5 ; astore 0 1 1 E 0 3 E 0 7 | B 1 aload 1 0 1 E 0 3 ; astore 1 1 0 E 0 0 E 0 1 | B 2 aload 0 0 1 E 0 4 | E 0 1 1 2",
    "cfg 3 2 2 q=simp | F 0 1 1 | B 0 ainit 0 4 E 0 0 E 0 40 E 1 1 0 0 ; astore 0 4 0 E 0 8 E 0 7 | B 1 aassign 1 0 ; aload 1 1 4 E 0 8 | B 2 aload 0 1 4 E 0 12 | E 0 1 1 2",
]


def gen_arr(seed, tier):
    """programs that mix numerical and array statements for q = dce | simp | clone | pipe | lower (judged by oracle_transform only)"""
    rng = random.Random(seed * 37 + 4242)
    lines = list(CORPUS_ARR)
    n = 150 if tier == "quick" else 4000
    for i in range(n):
        nblk, nv, ex, blocks, edges, extra, ids = gen_arr_cfg(rng, big=(i % 7 == 0))
        low = [a for a in ids if rng.random() < 0.4]
        low = ["L " + " ".join(map(str, low))] if low else []
        q = ["simp", "clone", "dce", "pipe", "lower"][i % 5]
        lines.append(fmt_case(nblk, nv, ex, blocks, edges, extra + (low if q in ("lower", "pipe") else []), [("q", q)]))
        if i % 2 == 0:
            q2 = "simp" if q != "simp" else "clone"
            lines.append(fmt_case(nblk, nv, ex, blocks, edges, extra, [("q", q2)]))
    return lines


ARR_KINDS = r"\b(ainit|astore|astorer|aload|aassign)\b"


def nontrivial_arr(line, ans):
    """the program has array statements and the transformation changed it (statement or block count); for q=clone: the
    program has a range store, an array_init or an array assignment"""
    if not re.search(ARR_KINDS, line) or not ans.startswith("entry="):
        return False
    if " q=clone" in line.split(" | ")[0]:
        return bool(re.search(r"\b(ainit|astorer|aassign)\b", line))
    nstm = lambda t: len(re.findall(r"\b(assign|arith|bit|assume|assert|havoc|select|unreachable)\b|" + ARR_KINDS, t))
    P = parse(line)
    return nstm(ans) != nstm(line) or ans.count(" | b") != len(P.blocks)


# ------------------------------------------------------------------ parsing

class Tok:
    def __init__(self, t): self.t, self.p = t, 0
    def more(self): return self.p < len(self.t)
    def next(self): self.p += 1; return self.t[self.p - 1]
    def nexti(self): return int(self.next())


def p_exp(k):
    k.next(); n = k.nexti(); ts = []
    for _ in range(n):
        c = k.nexti(); v = k.nexti(); ts.append((c, v))
    return ts, k.nexti()


def p_cst(k):
    k.next(); kind = k.next()
    return kind, p_exp(k)


def parse_stmt(t):
    k = Tok(t); op = k.next()
    if op == "assign":
        return ("assign", k.nexti(), p_exp(k))
    if op in ("arith", "bit"):
        f = k.next(); x = k.nexti(); y = k.nexti(); kind = k.next(); z = k.nexti()
        return (op, f, x, y, kind, z)
    if op == "assume":
        return ("assume", p_cst(k))
    if op == "assert":
        c = p_cst(k); return ("assert", c, k.nexti())
    if op == "havoc":
        return ("havoc", k.nexti())
    if op == "select":
        x = k.nexti(); c = p_cst(k); e1 = p_exp(k); e2 = p_exp(k)
        return ("select", x, c, e1, e2)
    if op == "unreachable":
        return ("unreachable",)
    # boolean statements: a boolean variable b<i> is the store index BV(i) = -1 - i (counted from the end of the store)
    if op == "bassign":
        x = BV(k.nexti()); return ("bassign", x, p_cst(k))
    if op in ("bcopy", "bnot"):
        return (op, BV(k.nexti()), BV(k.nexti()))
    if op == "bbin":
        f = k.next()
        if f not in ("and", "or", "xor"):
            raise ValueError(f)
        return ("bbin", f, BV(k.nexti()), BV(k.nexti()), BV(k.nexti()))
    if op == "bselect":
        return ("bselect", BV(k.nexti()), BV(k.nexti()), BV(k.nexti()), BV(k.nexti()))
    if op in ("bassume", "bnassume", "bhavoc"):
        return (op, BV(k.nexti()))
    if op == "bassert":
        x = BV(k.nexti()); return ("bassert", x, k.nexti())
    if op == "bzext":
        x = k.nexti(); return ("bzext", x, BV(k.nexti()))
    # array statements: the array variable a<i> is the store entry AV(i) = ("a", i), resolved by arr_index at run time
    if op == "ainit":
        a = AV(k.nexti()); sz = k.nexti(); return ("ainit", a, sz, p_exp(k), p_exp(k), p_exp(k))
    if op == "astore":
        a = AV(k.nexti()); sz = k.nexti(); strong = k.nexti(); return ("astore", a, sz, strong, p_exp(k), p_exp(k))
    if op == "astorer":
        a = AV(k.nexti()); sz = k.nexti(); return ("astorer", a, sz, p_exp(k), p_exp(k), p_exp(k))
    if op == "aload":
        x = k.nexti(); a = AV(k.nexti()); sz = k.nexti(); return ("aload", x, a, sz, p_exp(k))
    if op == "aassign":
        return ("aassign", AV(k.nexti()), AV(k.nexti()))
    raise ValueError(op)


ARR_BASE = 1000


def AV(i):
    """key of the array variable a<i>: arrays live in a dict stored as the store entry s[NV + i]; since parse_stmt does
    not know the number of integer variables, statements carry ARR_BASE + i and stores are built by mk_store"""
    if i < 0:
        raise ValueError("array variable number %d" % i)
    return ARR_BASE + i


def arrays_of(st):
    k = st[0]
    if k in ("ainit", "astore", "astorer"): return {st[1] - ARR_BASE}
    if k == "aload": return {st[2] - ARR_BASE}
    if k == "aassign": return {st[1] - ARR_BASE, st[2] - ARR_BASE}
    return set()


class Store(list):
    """integers first, booleans last (negative indices), arrays in .arr: {number: {None: default, index: value}}"""
    def __init__(self, it=(), arr=None):
        list.__init__(self, it)
        self.arr = dict(arr) if arr else {}
    def __repr__(self):
        return list.__repr__(self) + ((" arrays %r" % self.arr) if self.arr else "")
    __str__ = __repr__


def lcopy(s):
    return Store(s, getattr(s, "arr", None))


UNDEF = "undef"


def BV(i):
    """store index of the boolean variable b<i>: the booleans are the last entries of the store, b0 the very last"""
    if i < 0:
        raise ValueError("boolean variable number %d" % i)
    return -1 - i


def bools_of(st):
    """numbers of the boolean variables of a parsed statement"""
    k = st[0]
    if k in ("bassign", "bassume", "bnassume", "bhavoc", "bassert"): return {-1 - st[1]}
    if k in ("bcopy", "bnot"): return {-1 - st[1], -1 - st[2]}
    if k == "bbin": return {-1 - v for v in st[2:5]}
    if k == "bselect": return {-1 - v for v in st[1:5]}
    if k == "bzext": return {-1 - st[2]}
    return set()


def pvar(t):
    """variable of an F section: integer variable <i> or boolean variable b<i>"""
    return BV(int(t[1:])) if t.startswith("b") else int(t)


def split_stmts(toks):
    cur, out = [], []
    for t in toks + [";"]:
        if t == ";":
            if cur: out.append(cur)
            cur = []
        else:
            cur.append(t)
    return out


class Prog:
    """blocks: {label: [stmt]}, succ / pred: {label: [label]} (insertion order), entry, exit (None), outs"""
    pass


def parse(line):
    secs = [s.split() for s in line.split(" | ")]
    h = secs[0]
    P = Prog()
    nb, P.nv, ex = int(h[1]), int(h[2]), int(h[3])
    P.opts = dict(o.split("=") for o in h[4:] if "=" in o)
    P.blocks = {i: [] for i in range(nb)}
    P.text = {i: [] for i in range(nb)}
    P.succ = {i: [] for i in range(nb)}
    P.pred = {i: [] for i in range(nb)}
    P.entry, P.exit, P.outs, P.lower = 0, (ex if ex >= 0 else None), [], []
    fbools = set()
    for s in secs[1:]:
        if not s: continue
        if s[0] == "B":
            st = split_stmts(s[2:])
            P.blocks[int(s[1])] += [parse_stmt(x) for x in st]
            P.text[int(s[1])] += [" ".join(x) for x in st]
        elif s[0] == "E":
            v = list(map(int, s[1:]))
            for a, b in zip(v[0::2], v[1::2]):
                if b not in P.succ[a]: P.succ[a].append(b)
                if a not in P.pred[b]: P.pred[b].append(a)
        elif s[0] == "F":
            k = Tok(s[1:]); nin = k.nexti()
            ins = [pvar(k.next()) for _ in range(nin)]
            P.outs = [pvar(k.next()) for _ in range(k.nexti())]
            fbools = {-1 - v for v in ins + P.outs if v < 0}
        elif s[0] == "L":
            P.lower = list(map(int, s[1:]))
    bs = set(fbools)
    for b in P.blocks:
        for st in P.blocks[b]:
            bs |= bools_of(st)
    P.nb = max(bs) + 1 if bs else 0                  # number of boolean variables (extra 0/1 entries of the store)
    P.bool_asserts = {st[2] for b in P.blocks for st in P.blocks[b] if st[0] == "bassert"}
    ar = set()
    for b in P.blocks:
        for st in P.blocks[b]:
            ar |= arrays_of(st)
    P.na = max(ar) + 1 if ar else 0                  # number of array variables
    return P


def parse_cfg_answer(ans, nv, outs):
    """entry=<i> exit=<i|-> | b<i>: stmt ; stmt -> succs <- preds | ..."""
    secs = ans.split(" | ")
    m = re.match(r"^entry=(\d+) exit=(\d+|-)$", secs[0].strip())
    if not m:
        return None
    Q = Prog()
    Q.nv, Q.outs = nv, outs
    Q.entry = int(m.group(1)); Q.exit = None if m.group(2) == "-" else int(m.group(2))
    Q.blocks, Q.succ, Q.pred, Q.text = {}, {}, {}, {}
    for s in secs[1:]:
        m = re.match(r"^b(\d+):(.*) ->(.*) <-(.*)$", s)
        if not m:
            return None
        l = int(m.group(1))
        st = split_stmts(m.group(2).split())
        Q.blocks[l] = [parse_stmt(x) for x in st]
        Q.text[l] = [" ".join(x) for x in st]
        Q.succ[l] = [int(x) for x in m.group(3).strip().split(",") if x]
        Q.pred[l] = [int(x) for x in m.group(4).strip().split(",") if x]
    return Q


# ------------------------------------------------------------------ concrete semantics

def tdiv(x, y):
    q = abs(x) // abs(y)
    return q if (x >= 0) == (y >= 0) else -q


def ev(e, s):
    return sum(c * s[v] for c, v in e[0]) + e[1]


def holds(c, s):
    v = ev(c[1], s)
    return {"eq": v == 0, "ne": v != 0, "le": v <= 0, "lt": v < 0}[c[0]]


def binop(f, a, b):
    if f == "add": return a + b
    if f == "sub": return a - b
    if f == "mul": return a * b if (a.bit_length() + b.bit_length() <= 4096) else None      # else the run stops, as for a division by zero
    if f == "sdiv": return tdiv(a, b) if b != 0 else None
    if f == "srem": return a - b * tdiv(a, b) if b != 0 else None
    if f == "udiv": return a // b if (a >= 0 and b > 0) else None
    if f == "urem": return a % b if (a >= 0 and b > 0) else None
    if f == "and": return a & b
    if f == "or": return a | b
    if f == "xor": return a ^ b
    if f == "shl": return (a << b) if 0 <= b <= 4096 else None
    if f == "ashr": return (a >> b) if 0 <= b else None
    if f == "lshr": return (a >> b) if (0 <= b and a >= 0) else None
    raise ValueError(f)


def step_stmt(st, s, havoc, data_only=False):
    """-> ('ok', store, event|None) | ('stuck', why) | ('fail', id).  havoc: x -> value"""
    k = st[0]
    if k == "assign":
        s = lcopy(s); s[st[1]] = ev(st[2], s); return ("ok", s, None)
    if k in ("arith", "bit"):
        _, f, x, y, kind, z = st
        v = binop(f, s[y], s[z] if kind == "v" else z)
        if v is None or abs(v) > 10 ** 60:
            return ("stuck", "arith")
        s = lcopy(s); s[x] = v; return ("ok", s, None)
    if k == "assume":
        if data_only or holds(st[1], s): return ("ok", s, ("assume",))
        return ("stuck", "assume")
    if k == "assert":
        if data_only or holds(st[1], s): return ("ok", s, ("assert", st[2], True))
        return ("fail", st[2])
    if k == "havoc":
        s = lcopy(s); s[st[1]] = havoc(st[1]); return ("ok", s, None)
    if k == "select":
        s = lcopy(s); s[st[1]] = ev(st[3], s) if holds(st[2], s) else ev(st[4], s); return ("ok", s, None)
    if k == "bassign":
        s = lcopy(s); s[st[1]] = 1 if holds(st[2], s) else 0; return ("ok", s, None)
    if k == "bcopy":
        s = lcopy(s); s[st[1]] = s[st[2]]; return ("ok", s, None)
    if k == "bnot":
        s = lcopy(s); s[st[1]] = 1 - s[st[2]]; return ("ok", s, None)
    if k == "bbin":
        a, b = s[st[3]], s[st[4]]
        s = lcopy(s); s[st[2]] = {"and": a & b, "or": a | b, "xor": a ^ b}[st[1]]; return ("ok", s, None)
    if k == "bselect":
        s = lcopy(s); s[st[1]] = s[st[3]] if s[st[2]] else s[st[4]]; return ("ok", s, None)
    if k in ("bassume", "bnassume"):
        if data_only or s[st[1]] == (1 if k == "bassume" else 0): return ("ok", s, ("assume",))
        return ("stuck", "assume")
    if k == "bassert":
        if data_only or s[st[1]] == 1: return ("ok", s, ("assert", st[2], True))
        return ("fail", st[2])
    if k == "bhavoc":
        s = lcopy(s); s[st[1]] = havoc(st[1]) & 1; return ("ok", s, None)
    if k == "bzext":
        s = lcopy(s); s[st[1]] = s[st[2]]; return ("ok", s, None)
    if k == "ainit" or k == "astorer":
        _, a, sz, lb, ub, val = st
        l, u, v = ev(lb, s), ev(ub, s), ev(val, s)
        if sz <= 0 or (u - l) // sz > 4096:
            return ("stuck", "arith")
        s = lcopy(s)
        arr = {None: UNDEF} if k == "ainit" else dict(s.arr[a - ARR_BASE])
        for i in range(l, u + 1, sz):
            arr[i] = v
        s.arr[a - ARR_BASE] = arr
        return ("ok", s, None)
    if k == "astore":
        _, a, sz, strong, idx, val = st
        s = lcopy(s)
        arr = dict(s.arr[a - ARR_BASE]); arr[ev(idx, s)] = ev(val, s)
        s.arr[a - ARR_BASE] = arr
        return ("ok", s, None)
    if k == "aload":
        _, x, a, sz, idx = st
        arr = s.arr[a - ARR_BASE]
        v = arr.get(ev(idx, s), arr[None])
        if v == UNDEF:
            v = havoc(x)
        s = lcopy(s); s[x] = v; return ("ok", s, None)
    if k == "aassign":
        s = lcopy(s); s.arr[st[1] - ARR_BASE] = s.arr[st[2] - ARR_BASE]; return ("ok", s, None)
    return ("stuck", "unreachable")


def all_vars_of(st):
    k = st[0]
    if k == "assign": return {st[1]} | {v for _, v in st[2][0]}
    if k in ("arith", "bit"): return {st[2], st[3]} | ({st[5]} if st[4] == "v" else set())
    if k in ("assume", "assert"): return {v for _, v in st[1][1][0]}
    if k == "havoc": return {st[1]}
    if k == "select": return {st[1]} | {v for _, v in st[2][1][0]} | {v for _, v in st[3][0]} | {v for _, v in st[4][0]}
    return set()


# ------------------------------------------------------------------ C18: liveness

def run_from_end(P, b, s, seed, maxsteps=200):
    """execution from the end of block b; choices from Random(seed); returns (trace, status)"""
    rng = random.Random(seed)
    trace = []
    cur, rest = b, []
    for _ in range(maxsteps):
        if not rest:
            # end of block: finish at the exit (if chosen) or go on
            can_exit = (P.exit == cur)
            nxt = P.succ[cur]
            if can_exit and (not nxt or rng.random() < 0.4):
                trace.append(("exit", tuple(s[o] for o in P.outs)))
                return trace, "done"
            if not nxt:
                return trace, "end"
            cur = rng.choice(nxt)
            trace.append(("goto", cur))
            rest = list(P.blocks[cur])
            continue
        st, rest = rest[0], rest[1:]
        r = step_stmt(st, s, lambda x: rng.choice(POOL))
        if r[0] == "stuck":
            return trace, "stuck:" + r[1]
        if r[0] == "fail":
            trace.append(("assert", r[1], False)); return trace, "error"
        s = r[1]
        if r[2]: trace.append(r[2])
    return trace, "limit"


def parse_live(ans):
    res = {}
    for m in re.finditer(r"b(\d+):L\{([\d,]*)\}D\{([\d,]*)\}", ans):
        res[int(m.group(1))] = (set(map(int, m.group(2).split(","))) if m.group(2) else set(),
                                set(map(int, m.group(3).split(","))) if m.group(3) else set())
    return res


def oracle_live(line, ans, rng):
    P = parse(line)
    res = parse_live(ans)
    if len(res) != len(P.blocks):
        return None
    r0 = random.Random(zlib.crc32(line.encode()))
    for b in sorted(P.blocks):
        L, D = res[b]
        cands = [x for x in range(P.nv) if x not in L]
        bad = [x for x in D if x in L]
        if bad:
            return "block b%d: variable v%d is reported both live and dead at the end of the block" % (b, bad[0])
        for x in cands:
            for t in range(6):
                s = [r0.choice(POOL) for _ in range(P.nv)]
                s2 = list(s); s2[x] = r0.choice([v for v in POOL if v != s[x]])
                seed = r0.randrange(1 << 30)
                t1 = run_from_end(P, b, s, seed)
                t2 = run_from_end(P, b, s2, seed)
                if t1 != t2:
                    return ("v%d is reported %s at the end of b%d (live-out = %s), but changing it there changes the execution: "
                            "store %s vs v%d:=%d, choice seed %d: trace %s / %s  versus  %s / %s"
                            % (x, "dead" if x in D else "not live", b, sorted(L), s, x, s2[x], seed, t1[0], t1[1], t2[0], t2[1]))
    return None


# ------------------------------------------------------------------ C18: assertion crawler

def parse_crawl(ans):
    res = {}
    for m in re.finditer(r"b(\d+):(T|\[[^\]]*\])", ans):
        if m.group(2) == "T":
            res[int(m.group(1))] = None
            continue
        facts = {}
        body = m.group(2)[1:-1]
        if body:
            for f in body.split(";"):
                a, vs = f.split(":")
                vs = vs.strip("{}")
                facts[int(a)] = set(map(int, vs.split(","))) if vs else set()
        res[int(m.group(1))] = facts
    return res


def oracle_crawl(line, ans, rng):
    P = parse(line)
    res = parse_crawl(ans)
    if len(res) != len(P.blocks):
        return None
    r0 = random.Random(zlib.crc32(line.encode()))
    for b in sorted(P.blocks):
        facts = res[b]
        if facts is None:
            continue   # top: everything listed
        for t in range(8):
            # a random walk through the graph (data only: assume / assert do not filter)
            s0 = [r0.choice(POOL) for _ in range(P.nv)]
            path = []     # (stmt, havoc value or None)
            cur, s, ok = b, list(s0), True
            seen_asserts = []
            for _blk in range(6):
                for st in P.blocks[cur]:
                    if st[0] == "unreachable":
                        ok = False; break
                    hv = r0.choice(POOL) if st[0] == "havoc" else None
                    if st[0] == "assert":
                        seen_asserts.append((len(path), st))
                    r = step_stmt(st, s, lambda x: hv, data_only=True)
                    if r[0] != "ok":
                        ok = False; break
                    path.append((st, hv)); s = r[1]
                if not ok or not P.succ[cur]:
                    break
                cur = r0.choice(P.succ[cur])
            for pos, a in seen_asserts:
                aid = a[2]
                if aid not in facts:
                    return ("assertion %d is reachable from the entry of b%d (path of %d statements) but is not listed at b%d: %s"
                            % (aid, b, pos, b, sorted(facts)))
                V = facts[aid]
                for x in range(P.nv):
                    if x in V:
                        continue
                    s2 = list(s0); s2[x] = r0.choice([v for v in POOL if v != s0[x]])
                    sa, sb, good = list(s0), s2, True
                    for st, hv in path[:pos]:
                        ra = step_stmt(st, sa, lambda y: hv, data_only=True)
                        rb = step_stmt(st, sb, lambda y: hv, data_only=True)
                        if ra[0] != "ok" or rb[0] != "ok":
                            good = False; break
                        sa, sb = ra[1], rb[1]
                    if good and ev(a[1][1], sa) != ev(a[1][1], sb):
                        return ("the value of v%d at the entry of b%d flows into the condition of assertion %d but v%d is not listed "
                                "(listed: %s): entry store %s vs v%d:=%d, path %s: condition value %d vs %d"
                                % (x, b, aid, x, sorted(V), s0, x, s2[x], [p[0] for p in path[:pos]], ev(a[1][1], sa), ev(a[1][1], sb)))
    return None


# ------------------------------------------------------------------ C17: differential execution

STATS = None     # set to a dict by checks/C17.py to count what the sampled executions of oracle_transform exercised


def hv_fun(seed):
    def h(x, nev):
        return POOL[zlib.crc32(("%d/%d/%d" % (seed, x, nev)).encode()) % len(POOL)]
    return h


def run_leader(P, s, seed, maxsteps=300):
    """random execution from the entry; -> (status, observable trace, block sequence, final store, stuck stmt text)"""
    rng = random.Random(seed)
    h = hv_fun(seed)
    obs, seq = [], [P.entry]
    cur = P.entry
    for _ in range(maxsteps):
        for i, st in enumerate(P.blocks[cur]):
            r = step_stmt(st, s, lambda x: h(x, len(obs)))
            if r[0] == "stuck":
                return "stuck", obs, seq, s, P.text[cur][i]
            if r[0] == "fail":
                obs.append(("assert", r[1], False)); return "error", obs, seq, s, None
            s = r[1]
            if r[2]: obs.append(r[2])
        nxt = P.succ[cur]
        if P.exit == cur and (not nxt or rng.random() < 0.5):
            obs.append(("exit", tuple(s[o] for o in P.outs)))
            return "done", obs, seq, s, None
        if not nxt:
            return "end", obs, seq, s, None
        cur = rng.choice(nxt)
        seq.append(cur)
    return "limit", obs, seq, s, None


def find_route(Q, frm, target, present, want_exit=False):
    """route from block `frm` of Q to `target` through blocks that are not in `present` (merged-away blocks);
    returns the list of blocks after frm (ending in target), or None.  With want_exit: route to Q.exit."""
    stack = [(frm, [])]
    seen = set()
    while stack:
        b, route = stack.pop()
        for n in Q.succ.get(b, []):
            if (n == target and not want_exit) or (want_exit and n == Q.exit and n not in present):
                return route + [n]
            if n not in present and (n, len(route)) not in seen and len(route) < 12:
                seen.add((n, len(route)))
                stack.append((n, route + [n]))
    return None


def run_follower(Q, s, seed, seq, leader_labels, maxsteps=400):
    """execution of Q that follows the leader's block sequence `seq`: leader blocks that do not exist in Q are
    skipped (they were merged into their predecessor); blocks of Q that the leader does not have (merged away
    in the leader) are traversed on the way to the next leader block.  -> (status, obs, stuck text)"""
    h = hv_fun(seed)
    obs = []
    if seq[0] != Q.entry:
        return "noroute:entry", obs, None
    todo = [l for l in seq[1:] if l in Q.blocks]
    cur = Q.entry
    steps = 0
    pending = []          # blocks still to traverse before the next leader block
    while True:
        for i, st in enumerate(Q.blocks[cur]):
            steps += 1
            r = step_stmt(st, s, lambda x: h(x, len(obs)))
            if r[0] == "stuck":
                return "stuck", obs, Q.text[cur][i]
            if r[0] == "fail":
                obs.append(("assert", r[1], False)); return "error", obs, None
            s = r[1]
            if r[2]: obs.append(r[2])
        if steps > maxsteps * 8:
            return "limit", obs, None
        if pending:
            cur = pending.pop(0); continue
        if todo:
            t = todo[0]
            route = [t] if t in Q.succ[cur] else find_route(Q, cur, t, leader_labels)
            if route is None:
                return "noroute:b%d->b%d" % (cur, t), obs, None
            todo.pop(0)
            pending = route[1:]; cur = route[0]
            continue
        # the leader finished at its exit
        if Q.exit == cur:
            obs.append(("exit", tuple(s[o] for o in Q.outs)))
            return "done", obs, None
        route = find_route(Q, cur, None, leader_labels, want_exit=True) if Q.exit is not None else None
        if route is None:
            return "noroute:exit", obs, None
        pending = route[1:]; cur = route[0]


def lower_obs(obs, ids):
    return [("assume",) if (e[0] == "assert" and e[2] and e[1] in ids) else e for e in obs]


def wellformed(P, Q):
    if Q.entry != P.entry or Q.entry not in Q.blocks:
        return "the entry block is not kept"
    if (P.exit is None) != (Q.exit is None):
        return "exit block appeared / disappeared"
    if Q.exit is not None and Q.exit not in Q.blocks:
        return "the exit block b%d is not a block of the transformed CFG" % Q.exit
    for a in Q.blocks:
        for b in Q.succ[a]:
            if b not in Q.blocks: return "edge b%d -> b%d to a removed block" % (a, b)
            if a not in Q.pred[b]: return "edge b%d -> b%d is not recorded as a predecessor of b%d" % (a, b, b)
        for b in Q.pred[a]:
            if b not in Q.blocks: return "predecessor b%d of b%d is a removed block" % (b, a)
            if a not in Q.succ[b]: return "predecessor b%d of b%d has no edge to it" % (b, a)
    return None


def oracle_transform(line, ans, rng):
    P = parse(line)
    Q = parse_cfg_answer(ans, P.nv, P.outs)
    if Q is None:
        return None
    q = P.opts.get("q")
    w = wellformed(P, Q)
    if w:
        return "transformed CFG is not well formed: " + w
    lowered = set(P.lower) if q in ("lower", "pipe") else set()
    r0 = random.Random(zlib.crc32(line.encode()))
    def count(T, t):
        return sum(x == t for b in T.text for x in T.text[b])
    ndone = 0
    for t in range(24 if not (P.nb or P.na) else 160):
        if t >= 40 and (ndone >= 10 or (ndone == 0 and t >= 80)):
            break                   # (only with booleans) more samples when few executions reach the exit
        s0 = [r0.choice(POOL) for _ in range(P.nv)]
        if P.nb:
            s0 += [r0.choice([0, 1]) for _ in range(P.nb)]      # booleans: the last entries of the store (see BV)
        s0 = Store(s0, {i: {None: r0.choice(POOL)} for i in range(P.na)})     # arrays: every cell holds the same arbitrary value
        seed = r0.randrange(1 << 30)
        # original leads
        st, obs, seq, fin, _ = run_leader(P, lcopy(s0), seed)
        if STATS is not None:
            STATS["executions"] = STATS.get("executions", 0) + 1
            if st == "done":
                STATS["exit_reaching"] = STATS.get("exit_reaching", 0) + 1
                if ndone == 0:
                    STATS["programs_with_exit_reaching"] = STATS.get("programs_with_exit_reaching", 0) + 1
                for e in obs:
                    if e[0] == "assert" and e[1] in P.bool_asserts:
                        kk = "bool_assert_passed_lowered" if e[1] in lowered else "bool_assert_passed_kept"
                        STATS[kk] = STATS.get(kk, 0) + 1
        if st == "done":
            ndone += 1
            st2, obs2, stuck = run_follower(Q, lcopy(s0), seed, seq, set(P.blocks))
            want = lower_obs(obs, lowered)
            if st2 != "done" or obs2 != want:
                return ("an exit-reaching execution of the original has no counterpart in the transformed CFG: initial store %s, "
                        "blocks %s, observations %s; transformed: %s %s" % (s0, seq, want, st2, obs2))
        # transformed leads
        st, obs, seq, fin, _ = run_leader(Q, lcopy(s0), seed)
        if st == "done":
            st2, obs2, stuck = run_follower(P, lcopy(s0), seed, seq, set(Q.blocks))
            if st2 == "stuck" and stuck is not None and count(Q, stuck) < count(P, stuck):
                continue        # proviso: a removed statement fails in the original
            if st2 == "limit":
                continue
            if st2 != "done" or lower_obs(obs2, lowered) != obs:
                return ("the transformed CFG has an exit-reaching execution that the original does not have: initial store %s, "
                        "blocks %s, observations %s; original: %s %s" % (s0, seq, obs, st2, lower_obs(obs2, lowered)))
    return None


def oracle(line, ans, rng):
    if ans in ("ABORT", "MISSING") or ans.startswith("HARNESS-ERROR"):
        if ans == "ABORT":
            return "the implementation aborted (CRAB_ERROR) on a well-formed CFG"
        return None
    q = dict(o.split("=") for o in line.split(" | ")[0].split()[4:] if "=" in o).get("q")
    if q == "live":
        return oracle_live(line, ans, rng)
    if q == "crawl":
        return oracle_crawl(line, ans, rng)
    return oracle_transform(line, ans, rng)


def nontrivial(line, ans):
    q = dict(o.split("=") for o in line.split(" | ")[0].split()[4:] if "=" in o).get("q")
    if q == "live":
        res = parse_live(ans)
        return any(L for L, _ in res.values()) and any(D for _, D in res.values())
    if q == "crawl":
        res = parse_crawl(ans)
        return sum(1 for f in res.values() if f for v in f.values() if v) >= 2
    if q in ("dce", "pipe", "simp", "lower"):
        # the transformation changed something
        nstm = lambda t: len(re.findall(r"\b(assign|arith|bit|assume|assert|havoc|select|unreachable)\b", t))
        P = parse(line)
        return (nstm(ans) != nstm(line) or ans.count(" | b") != len(P.blocks)
                or len(re.findall(r"\bassert\b", ans)) != len(re.findall(r"\bassert\b", line)))
    return False


BOOL_KINDS = r"\b(bassign|bcopy|bnot|bbin|bselect|bassume|bnassume|bassert|bhavoc|bzext)\b"


def nontrivial_bool(line, ans):
    """the program has boolean statements and the transformation changed it (statement, assertion or block count)"""
    if not re.search(BOOL_KINDS, line) or not ans.startswith("entry="):
        return False
    nstm = lambda t: len(re.findall(r"\b(assign|arith|bit|assume|assert|havoc|select|unreachable)\b|" + BOOL_KINDS, t))
    nas = lambda t: len(re.findall(r"\bb?assert\b", t))
    P = parse(line)
    return nstm(ans) != nstm(line) or ans.count(" | b") != len(P.blocks) or nas(ans) != nas(line)


def key(line):
    return dict(o.split("=") for o in line.split(" | ")[0].split()[4:] if "=" in o).get("q", "?")
