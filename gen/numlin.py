"""Case generators and property-level oracles for the numlin family (property C20).

Case lines (one per case, blank-separated tokens):
  z <op> A B        op in add sub mul div rem and or xor shl shr cmp adda suba mula diva rema
  z <op> A          op in neg inc dec pinc pdec fill fits toi64 fromi64 fromu64
  z tostr BASE A | z parse BASE STRING | z toraw ORDER A | z fromraw ORDER w0,w1,..|-
  q mk N/D|N | q mk2 N D | q ofz N | q fromd M E          (double = M * 2^E)
  q <op> X Y        op in add sub mul div adda suba mula diva cmp shl     X,Y ::= N/D | N
  q <op> X          op in neg inc dec pinc pdec num den up lo str
  s <op> A B        op in add sub mul div adda suba cadd csub cmul cdiv cmp  (A,B int64)
  s neg A | s ofz N
  le <op> ...       E ::= [coef 'x' var {',' coef 'x' var}] ':' const      var in 1..8
  lc <op> KIND E .. KIND in EQ NE LE LT ;  lc mk REL E1 E2 (REL in le ge lt gt eq ne)
  ls <op> S ..      S ::= '-' | KIND '@' E {';' KIND '@' E}
Answers: decimal numbers, true/false, N/D, 'c*vI c*vJ | k', 'KIND: expr', systems joined by
' ; ' ({} when empty), ABORT when the C++ calls CRAB_ERROR / traps.
The oracles below use python ints and fractions.Fraction only (independent of the model)."""
import random
import re
from fractions import Fraction

I64MIN, I64MAX, U64MAX = -(2 ** 63), 2 ** 63 - 1, 2 ** 64 - 1

ZPOOL = [0, 1, -1, 2, -2, 3, -3, 5, 7, -7, 8, 10, -10, 255, 256, -256,
         2 ** 31 - 1, 2 ** 31, 2 ** 31 + 1, -(2 ** 31) - 1, -(2 ** 31), -(2 ** 31) + 1, 2 ** 32 - 1, 2 ** 32,
         2 ** 63 - 1, 2 ** 63, 2 ** 63 + 1, -(2 ** 63) - 1, -(2 ** 63), -(2 ** 63) + 1,
         2 ** 64 - 1, 2 ** 64, 2 ** 64 + 1, -(2 ** 64), -(2 ** 64) - 1, 2 ** 100, -(2 ** 100) + 1,
         10 ** 30 + 7, -(10 ** 30) - 7, 2 ** 127, 2 ** 128 + 5, -(2 ** 129) + 3, 3 * 2 ** 70, -5 * 2 ** 66]
SHIFTS = [0, 1, 2, 3, 7, 31, 32, 33, 63, 64, 65, 127, 128, 129, 200]
Z_BIN = ["add", "sub", "mul", "div", "rem", "and", "or", "xor", "cmp", "adda", "suba", "mula", "diva", "rema"]
Z_UN = ["neg", "inc", "dec", "pinc", "pdec", "fits", "toi64"]
DIGITS = "0123456789abcdefghijklmnopqrstuvwxyz"


def rand_z(rng):
    k = rng.random()
    if k < 0.25:
        return rng.choice(ZPOOL)
    if k < 0.45:
        return rng.choice(ZPOOL) + rng.randint(-3, 3)
    mag = rng.choice([4, 20, 1000, 2 ** 31, 2 ** 33, 2 ** 63, 2 ** 65, 2 ** 90, 2 ** 130, 2 ** 200])
    return rng.randint(-mag, mag)


def to_base(n, b):
    if n == 0:
        return "0"
    s, m = "", abs(n)
    while m:
        s = DIGITS[m % b] + s
        m //= b
    return ("-" if n < 0 else "") + s


# ---------------------------------------------------------------- stream: num (z and q)

def gen_num(seed, tier):
    rng = random.Random(seed * 31 + 1)
    L = []
    # corpus: hand-picked cases (division rounding, shifts of negatives, int64 edges, strings)
    L += ["z div -7 2", "z rem -7 2", "z div 7 -2", "z rem 7 -2", "z div -7 -2", "z rem -7 -2",
          "z div 5 0", "z rem 5 0", "z diva 5 0", "z rema -5 0", "z div 0 5", "z shr -5 1", "z shr -1 100",
          "z shr -8 3", "z shr 5 64", "z shl -3 65", "z shl 1 128", "z and -1 1180591620717411303424",
          "z or -256 255", "z xor -1 -1", "z and -4 6", "z fill 0", "z fill 1", "z fill 2", "z fill 3",
          "z fill 4", "z fill 255", "z fill 256", "z fill 18446744073709551616",
          "z toi64 -9223372036854775808", "z toi64 9223372036854775807", "z toi64 9223372036854775808",
          "z toi64 -9223372036854775809", "z fits 9223372036854775808", "z fits -9223372036854775808",
          "z fromi64 -9223372036854775808", "z fromi64 9223372036854775807", "z fromu64 18446744073709551615",
          "z fromu64 9223372036854775808", "z fromu64 0", "z parse 10 -0", "z parse 10 007", "z parse 10 12x",
          "z parse 10 -", "z parse 16 -ff", "z parse 16 FF", "z parse 2 102", "z parse 36 zz", "z tostr 2 -5",
          "z tostr 16 255", "z tostr 36 -1295", "z tostr 10 0", "z toraw 0 0", "z toraw 0 -1",
          "z toraw 0 18446744073709551616", "z toraw 1 18446744073709551617", "z fromraw 0 -",
          "z fromraw 0 0,1", "z fromraw 1 0,1", "z fromraw 0 18446744073709551615,18446744073709551615",
          "q mk 2/4", "q mk 6/-4", "q mk -6/4", "q mk 0/5", "q mk 0/-3", "q mk 5", "q mk -5", "q mk 1/0",
          "q mk2 1 -2", "q mk2 2 4", "q mk2 -7 2", "q mk2 0 -9", "q mk2 3 0", "q up 1/-2", "q lo 1/-2",
          "q up -7/2", "q lo -7/2", "q up 7/2", "q lo 7/2", "q up -6/4", "q lo 6/-4", "q up 6/3", "q lo -6/3",
          "q cmp 1/-2 0", "q cmp 2/4 1/2", "q num 6/-4", "q den 6/-4", "q str 6/-4", "q str 4/2", "q shl -6/4 1",
          "q shl 3/2 6/2", "q shl 3/2 1/2", "q div 1/2 0", "q diva 1/2 0/3", "q inc -6/4", "q dec 1/2",
          "q fromd 1 -1074", "q fromd 9007199254740991 971", "q fromd -3 -2", "q fromd 0 5", "q ofz -12"]
    # boundary stream for z: pool x pool x operators
    pairs = [(a, b) for a in ZPOOL for b in ZPOOL]
    if tier == "quick":
        rng.shuffle(pairs)
        pairs = pairs[:260]
    for a, b in pairs:
        for op in Z_BIN:
            if b == 0 and op in ("div", "rem", "diva", "rema") and rng.random() < 0.8:
                continue      # keep the number of CRAB_ERROR restarts small
            L.append("z %s %d %d" % (op, a, b))
    for a in ZPOOL:
        for k in SHIFTS:
            L.append("z shl %d %d" % (a, k))
            L.append("z shr %d %d" % (a, k))
        for op in Z_UN:
            if op == "toi64" and not (I64MIN <= a <= I64MAX) and rng.random() < 0.7:
                continue
            L.append("z %s %d" % (op, a))
        if a >= 0:
            L.append("z fill %d" % a)
        for b in (2, 10, 16, 36):
            L.append("z tostr %d %d" % (b, a))
            L.append("z parse %d %s" % (b, to_base(a, b)))
        L.append("z toraw %d %d" % (rng.randint(0, 1), a))
        if I64MIN <= a <= I64MAX:
            L.append("z fromi64 %d" % a)
        if 0 <= a <= U64MAX:
            L.append("z fromu64 %d" % a)
    # structured random z
    n = 3000 if tier == "quick" else 200000
    for _ in range(n):
        k = rng.random()
        a, b = rand_z(rng), rand_z(rng)
        if k < 0.55:
            op = rng.choice(Z_BIN)
            if b == 0 and op in ("div", "rem", "diva", "rema"):
                b = rng.choice([1, -1, 3])
            L.append("z %s %d %d" % (op, a, b))
        elif k < 0.70:
            L.append("z %s %d %d" % (rng.choice(["shl", "shr"]), a, rng.choice(SHIFTS + [rng.randint(0, 300)])))
        elif k < 0.80:
            op = rng.choice(Z_UN)
            if op == "toi64" and not (I64MIN <= a <= I64MAX):
                a = rng.randint(I64MIN, I64MAX)
            L.append("z %s %d" % (op, a))
        elif k < 0.84:
            L.append("z fill %d" % abs(a))
        elif k < 0.92:
            b = rng.choice([2, 3, 8, 10, 16, 27, 36])
            if rng.random() < 0.5:
                L.append("z tostr %d %d" % (b, a))
            else:
                s = to_base(a, b)
                if rng.random() < 0.3:
                    s = s.upper()
                if rng.random() < 0.15:
                    s = ("-00" + s[1:]) if s.startswith("-") else ("00" + s)
                L.append("z parse %d %s" % (b, s))
        elif k < 0.96:
            L.append("z toraw %d %d" % (rng.randint(0, 1), a))
        else:
            ws = [rng.choice([0, 1, U64MAX, 2 ** 63, rng.randint(0, U64MAX)]) for _ in range(rng.randint(0, 4))]
            L.append("z fromraw %d %s" % (rng.randint(0, 1), ",".join(map(str, ws)) or "-"))
    # q: boundary + random
    QP = [(0, 1), (1, 1), (-1, 1), (1, 2), (-1, 2), (3, 2), (-3, 2), (7, 2), (-7, 2), (1, 3), (-2, 3), (5, 1),
          (-5, 1), (2 ** 63, 1), (-(2 ** 63) - 1, 2), (2 ** 64 + 1, 2 ** 32), (1, 2 ** 70), (-(10 ** 20) - 3, 10 ** 10),
          (22, 7), (-22, 7)]
    NONCAN = [(2, 4), (-6, 4), (6, -4), (-6, -4), (0, 5), (0, -3), (4, 2), (-9, 3), (10, -5), (1, -2), (2 ** 65, 2 ** 33),
              (-7, -1)]

    def qs(p):
        return "%d/%d" % p if p[1] != 1 or True else str(p[0])

    def rand_q(rng):
        k = rng.random()
        if k < 0.3:
            return rng.choice(QP)
        if k < 0.42:
            return rng.choice(NONCAN)
        mag = rng.choice([5, 50, 2 ** 20, 2 ** 64, 2 ** 80])
        f = Fraction(rng.randint(-mag, mag), rng.randint(1, mag))
        p = (f.numerator, f.denominator)
        if rng.random() < 0.1:
            g = rng.choice([2, 3, -1, -2])
            p = (p[0] * g, p[1] * g)
        return p

    QBIN = ["add", "sub", "mul", "div", "adda", "suba", "mula", "diva", "cmp"]
    QUN = ["neg", "inc", "dec", "pinc", "pdec", "num", "den", "up", "lo", "str"]
    for p in QP + NONCAN:
        L.append("q mk %s" % qs(p))
        L.append("q mk2 %d %d" % p)
        for op in QUN:
            L.append("q %s %s" % (op, qs(p)))
    qpairs = [(a, b) for a in QP + NONCAN for b in QP + NONCAN]
    rng.shuffle(qpairs)
    for a, b in qpairs[:(150 if tier == "quick" else len(qpairs))]:
        for op in QBIN:
            if b[0] == 0 and op in ("div", "diva") and rng.random() < 0.8:
                continue
            L.append("q %s %s %s" % (op, qs(a), qs(b)))
    n = 1500 if tier == "quick" else 100000
    for _ in range(n):
        k = rng.random()
        a, b = rand_q(rng), rand_q(rng)
        if k < 0.5:
            op = rng.choice(QBIN)
            if b[0] == 0 and op in ("div", "diva"):
                b = (1, 3)
            L.append("q %s %s %s" % (op, qs(a), qs(b)))
        elif k < 0.8:
            L.append("q %s %s" % (rng.choice(QUN), qs(a)))
        elif k < 0.86:
            s = rng.choice(SHIFTS[:12])
            g = rng.choice([1, 1, 2, -3])
            L.append("q shl %s %d/%d" % (qs(a), s * g, g))
        elif k < 0.92:
            if rng.random() < 0.5:
                L.append("q mk %s" % (qs(a) if rng.random() < 0.7 else str(a[0])))
            else:
                L.append("q mk2 %d %d" % (a[0], a[1] * rng.choice([1, -1, 2, -3])))
        elif k < 0.97:
            L.append("q fromd %d %d" % (rng.randint(-(2 ** 53) + 1, 2 ** 53 - 1) if rng.random() < 0.6
                                        else rng.randint(-40, 40), rng.choice([0, 1, -1, -2, 10, -10, -52, -53, -200, 300, -1074, 971])))
        else:
            L.append("q ofz %d" % rand_z(rng))
    return L


# ---------------------------------------------------------------- stream: safeint

SPOOL = [0, 1, -1, 2, -2, 3, 7, -7, 2 ** 31 - 1, 2 ** 31, -(2 ** 31), 2 ** 32, -(2 ** 32), 3037000499, 3037000500,
         -3037000500, 2 ** 62 - 1, 2 ** 62, -(2 ** 62), -(2 ** 62) - 1, I64MAX - 1, I64MAX, I64MIN, I64MIN + 1,
         4611686018427387904, 6442450941, 1431655765]


def gen_safe(seed, tier):
    rng = random.Random(seed * 31 + 2)
    L = ["s add 9223372036854775807 1", "s add 9223372036854775807 0", "s sub -9223372036854775808 1",
         "s mul 3037000500 3037000500", "s mul 3037000499 3037000499", "s mul 4294967296 2147483648",
         "s mul -4294967296 2147483648", "s mul -9223372036854775808 -1", "s div -9223372036854775808 -1",
         "s div -9223372036854775808 1", "s div 7 -2", "s div -7 2", "s div 5 0", "s cdiv 5 0",
         "s neg -9223372036854775808", "s neg 9223372036854775807", "s ofz 9223372036854775808",
         "s ofz -9223372036854775808", "s adda 9223372036854775807 1", "s suba -9223372036854775808 1",
         "s cdiv -9223372036854775808 -1", "s cmul -9223372036854775808 -1", "s cmul 4294967296 4294967296"]
    CH = ["cadd", "csub", "cmul", "cdiv"]
    PU = ["add", "sub", "mul", "div", "adda", "suba"]

    def fits(op, a, b):
        r = {"add": a + b, "adda": a + b, "sub": a - b, "suba": a - b, "mul": a * b}.get(op)
        if r is None:
            r = tdiv(a, b) if b != 0 else None
        return r is not None and I64MIN <= r <= I64MAX

    # boundary: all pairs of the pool on the checked primitives (no aborts), a bounded number
    # of overflowing cases on the public operators
    pairs = [(a, b) for a in SPOOL for b in SPOOL]
    aborts = 0
    max_aborts = 60 if tier == "quick" else 400
    for a, b in pairs:
        for op in CH:
            if op == "cdiv" and b == 0:
                continue
            L.append("s %s %d %d" % (op, a, b))
        L.append("s cmp %d %d" % (a, b))
    rng.shuffle(pairs)
    for a, b in pairs:
        for op in PU:
            if op == "div" and b == 0:
                continue
            if not fits(op, a, b):
                if aborts >= max_aborts:
                    continue
                aborts += 1
            L.append("s %s %d %d" % (op, a, b))
    for a in SPOOL:
        L.append("s neg %d" % a)
    n = 2500 if tier == "quick" else 150000
    for _ in range(n):
        def rv():
            k = rng.random()
            if k < 0.3:
                return rng.choice(SPOOL)
            if k < 0.5:
                return max(I64MIN, min(I64MAX, rng.choice(SPOOL) + rng.randint(-3, 3)))
            mag = rng.choice([10, 2 ** 16, 2 ** 31, 2 ** 32, 2 ** 33, 2 ** 62, 2 ** 63 - 1])
            return rng.randint(-mag, mag)
        a, b = rv(), rv()
        k = rng.random()
        if k < 0.6:
            op = rng.choice(CH)
            if op == "cdiv" and b == 0:
                b = -1
            L.append("s %s %d %d" % (op, a, b))
        elif k < 0.93:
            op = rng.choice(PU)
            if op == "div" and b == 0:
                b = -1
            if not fits(op, a, b):
                if aborts >= max_aborts:
                    continue
                aborts += 1
            L.append("s %s %d %d" % (op, a, b))
        elif k < 0.97:
            z = rand_z(rng)
            if not (I64MIN <= z <= I64MAX):
                if aborts >= max_aborts:
                    continue
                aborts += 1
            L.append("s ofz %d" % z)
        else:
            L.append("s neg %d" % a)
    return L


# ---------------------------------------------------------------- stream: lin

NV = 8
VTYPES = {1: ("int", 32), 2: ("int", 32), 3: ("int", 32), 4: ("int", 32), 5: ("int", 64), 6: ("bool", 1),
          7: ("real", 0), 8: ("int", 32)}
KINDS = ["EQ", "NE", "LE", "LT"]
COEFS = [1, -1, 2, -2, 3, -3, 5, -7, 0, 1, -1, 2 ** 32, -(2 ** 63), 2 ** 64 + 1]


def fmt_expr(ts, c):
    return ",".join("%dx%d" % (k, v) for (k, v) in ts) + ":" + str(c)


def rand_expr(rng, maxt=5, zero=0.08, dup=0.12):
    nt = rng.choice([0, 1, 1, 2, 2, 3, 3, 4, maxt])
    ts = []
    for _ in range(nt):
        v = rng.randint(1, NV) if not (ts and rng.random() < dup) else rng.choice(ts)[1]
        k = 0 if rng.random() < zero else rng.choice(COEFS[:8] if rng.random() < 0.85 else COEFS)
        if ts and rng.random() < 0.06:
            k = -ts[-1][0]
            v = ts[-1][1]          # cancelling pair
        ts.append((k, v))
    c = rng.choice([0, 0, 1, -1, 2, -3, 5, 7, -10, 2 ** 63, -(2 ** 64) - 1] if rng.random() < 0.9 else [rand_z(rng)])
    return fmt_expr(ts, c)


def rand_map(rng):
    if rng.random() < 0.15:
        return "-"
    n = rng.randint(1, 4)
    if rng.random() < 0.6:       # injective on its domain
        src = rng.sample(range(1, NV + 1), n)
        dst = rng.sample(range(1, NV + 1), n)
    else:
        src = [rng.randint(1, NV) for _ in range(n)]
        dst = [rng.randint(1, NV) for _ in range(n)]
    return ",".join("%d>%d" % p for p in zip(src, dst))


def neg_expr_text(e):
    ts, c = parse_expr_text(e)
    return fmt_expr([(-k, v) for (k, v) in ts], -c)


def rand_sys(rng):
    n = rng.choice([0, 1, 2, 2, 3, 3, 4, 5, 6])
    cs = []
    for _ in range(n):
        k = rng.random()
        if cs and k < 0.25:                      # e <= 0 / -e <= 0 pair
            kd, e = rng.choice(cs)
            cs.append(("LE", neg_expr_text(e)))
        elif cs and k < 0.35:                    # duplicate
            cs.append(rng.choice(cs))
        elif k < 0.45:                           # constant constraint
            cs.append((rng.choice(KINDS), ":%d" % rng.choice([0, 1, -1, 5])))
        elif k < 0.55:                           # unary
            cs.append((rng.choice(["LE", "LE", "EQ", "LT"]), fmt_expr([(rng.choice([1, -1, 2, -3]), rng.randint(1, NV))], rng.choice([0, 1, -2, 5]))))
        else:
            cs.append((rng.choice(["LE", "LE", "LE", "EQ", "NE", "LT"]), rand_expr(rng, 3, 0.03, 0.05)))
    return ";".join("%s@%s" % c for c in cs) or "-"


def gen_lin(seed, tier):
    rng = random.Random(seed * 31 + 3)
    L = ["le term 0 1", "le term 5 2", "le term -1 8", "le var 3", "le build :0", "le build 0x1:0", "le build 0x1,1x2:0",
         "le build 1x2,0x1:3", "le build 3x1,-3x1:0", "le build 3x1,-2x4:7", "le build 1x4,1x2,1x3,1x1:0",
         "le build 2x1,3x1,-5x1:1", "le add 1x1:0 -1x1:0", "le sub 1x1,2x2:3 1x1,2x2:3", "le scale 1x1,2x2:3 0",
         "le scale 1x1,2x2:3 -1", "le neg :5", "le getvar 1x3:0", "le getvar 2x3:0", "le getvar 1x3:1",
         "le getvar 1x3,1x4:0", "le getvar 0x1,1x2:0", "le isconst 0x1:4", "le size 0x1,1x2:0", "le equal 0x1,1x2:0 1x2:0",
         "le equal :1 :1", "le equal :1 1x1:1", "le rename 1x1,2x2:0 1>2", "le rename 1x1,-1x2:5 1>2", "le rename 1x1,2x2:0 1>2,2>1",
         "le welltyped 1x1,1x5:0", "le welltyped 1x5,1x5:0", "le welltyped 1x6,1x7:0", "le welltyped :3", "le welltyped 1x1,1x8,1x2:0",
         "lc taut LE 0x1:0", "lc taut LE 0x1:-1", "lc contr LE 0x1:1", "lc taut EQ :0", "lc taut NE :3", "lc contr NE :0",
         "lc contr LT :0", "lc taut LT :-1", "lc taut LE 1x1:0", "lc negate LE 2x1:-3", "lc negate LT 1x2:0",
         "lc negate EQ 1x1,-1x2:0", "lc negate NE 1x1:5", "lc negate LE :0", "lc negate LE :1", "lc negate LT :0",
         "lc negate EQ :0", "lc negate NE :0", "lc negate LE 0x1:1", "lc negate LT 0x3:-1", "lc negneg LT 1x1:0",
         "lc s2ns LT 1x1,-1x2:0", "lc s2ns LT :0", "lc mk le 1x1:0 1x2:3", "lc mk gt 1x1:0 :5", "lc mk ne 1x1:0 1x1:0",
         "lc true", "lc false", "lc equal LE 1x1:0 LT 1x1:0", "lc equal LE 0x2,1x1:0 LE 1x1:0",
         "ls normalize LE@1x1,-1x2:0;LE@-1x1,1x2:0", "ls normalize LE@-1x1:5;LE@1x1:-5", "ls normalize LE@1x1:-5;LE@-1x1:5",
         "ls normalize LE@:1;LE@:-1", "ls normalize LE@:0", "ls normalize LE@1x1:0;LE@1x1:0;LE@-1x1:0",
         "ls normalize LE@1x1:0;EQ@1x1:0;LE@-1x1:0", "ls normalize LE@1x1:0;LE@1x3:0;LE@-1x1:0;LT@1x2:0",
         "ls normalize LE@0x1:0;LE@0x2:0", "ls normalize LE@1x1,1x2:0;LE@-1x1,-1x2:0;LE@1x1:0;LE@-1x1:0",
         "ls build -", "ls build LE@1x1:0;LE@1x1:0", "ls isfalse -", "ls isfalse LE@:1", "ls isfalse LE@1x1:0;NE@:0",
         "ls isfalse LE@0x1:1", "ls istrue -", "ls istrue EQ@:0", "ls plus LE@1x1:0 LE@1x1:0;LT@1x2:0", "ls addsys - LE@1x1:0"]
    # boundary: every constant / unary constraint shape x every operation
    for kd in KINDS:
        for c in (-2, -1, 0, 1, 2):
            for op in ("taut", "contr", "negate", "negneg", "const"):
                L.append("lc %s %s :%d" % (op, kd, c))
            for k in (1, -1, 2, -2, 0):
                for op in ("taut", "contr", "negate"):
                    L.append("lc %s %s %dx1:%d" % (op, kd, k, c))
    for k in COEFS:
        for v in (1, 8):
            L.append("le term %d %d" % (k, v))
            L.append("le scale 1x%d,2x3:1 %d" % (v, k))
    n = 1200 if tier == "quick" else 60000
    LE1 = ["build", "neg", "isconst", "const", "size", "vars", "getvar", "welltyped"]
    for _ in range(n):
        e1, e2 = rand_expr(rng), rand_expr(rng)
        k = rng.random()
        if k < 0.2:
            L.append("le %s %s" % (rng.choice(LE1), e1))
        elif k < 0.45:
            if rng.random() < 0.15:
                e2 = e1 if rng.random() < 0.5 else neg_expr_text(e1)
            L.append("le %s %s %s" % (rng.choice(["add", "sub", "add", "sub", "equal", "lex"]), e1, e2))
        elif k < 0.6:
            op = rng.choice(["scale", "addk", "subk"])
            L.append("le %s %s %d" % (op, e1, rng.choice([0, 1, -1, 2, -3, 7, 2 ** 64, rand_z(rng)])))
        elif k < 0.64:
            L.append("le ksub %d %s" % (rng.choice([0, 1, -5, 2 ** 70]), e1))
        elif k < 0.74:
            L.append("le %s %s %d" % (rng.choice(["addv", "subv", "coef"]), e1, rng.randint(1, NV)))
        elif k < 0.86:
            L.append("le rename %s %s" % (e1, rand_map(rng)))
        else:
            L.append("le term %d %d" % (rng.choice(COEFS), rng.randint(1, NV)))
    for _ in range(n):
        e1, e2 = rand_expr(rng, 4), rand_expr(rng, 3)
        kd = rng.choice(KINDS)
        k = rng.random()
        if k < 0.3:
            L.append("lc negate %s %s" % (kd, e1))
        elif k < 0.36:
            L.append("lc negneg %s %s" % (kd, e1))
        elif k < 0.52:
            if rng.random() < 0.5:
                e1 = fmt_expr([(0, rng.randint(1, NV))] * rng.randint(0, 2), rng.choice([-2, -1, 0, 1, 2]))
            L.append("lc %s %s %s" % (rng.choice(["taut", "contr"]), kd, e1))
        elif k < 0.6:
            L.append("lc s2ns LT %s" % e1)
        elif k < 0.75:
            L.append("lc mk %s %s %s" % (rng.choice(["le", "ge", "lt", "gt", "eq", "ne"]), e1, e2))
        elif k < 0.83:
            L.append("lc rename %s %s %s" % (kd, e1, rand_map(rng)))
        elif k < 0.9:
            if rng.random() < 0.3:
                e2 = e1
            L.append("lc %s %s %s %s %s" % (rng.choice(["equal", "lex"]), kd, e1, rng.choice(KINDS), e2))
        else:
            op = rng.choice(["const", "size", "coef", "welltyped"])
            L.append("lc %s %s %s%s" % (op, kd, e1, (" %d" % rng.randint(1, NV)) if op == "coef" else ""))
    for _ in range(n):
        s1 = rand_sys(rng)
        k = rng.random()
        if k < 0.6:
            L.append("ls normalize %s" % s1)
        elif k < 0.7:
            L.append("ls build %s" % s1)
        elif k < 0.8:
            L.append("ls %s %s" % (rng.choice(["isfalse", "istrue", "size"]), s1))
        else:
            L.append("ls %s %s %s" % (rng.choice(["plus", "addsys"]), s1, rand_sys(rng)))
    return L


# ================================================================== oracles

def tdiv(x, y):
    q = abs(x) // abs(y)
    return q if (x >= 0) == (y >= 0) else -q


def trem(x, y):
    return x - y * tdiv(x, y)


def cmp6(a, b):
    return " ".join("true" if x else "false" for x in (a < b, a <= b, a > b, a >= b, a == b, a != b))


def bad(line, ans, exp, why=""):
    return "%s answered %r, mathematically %s%s" % (line, ans, exp, (" (" + why + ")") if why else "")


def as_int(s):
    return int(s) if re.match(r"^-?\d+$", s or "") else None


def oracle_z(t, line, ans):
    op = t[1]
    if op in ("tostr", "parse", "toraw", "fromraw"):
        if op == "tostr":
            exp = to_base(int(t[3]), int(t[2]))
        elif op == "parse":
            b, s = int(t[2]), t[3]
            body = s[1:] if s.startswith("-") else s
            ok = len(body) > 0 and all(c.lower() in DIGITS[:b] for c in body)
            exp = str(int(s, b)) if ok else "ABORT"
        elif op == "toraw":
            a, m, ws = int(t[3]), abs(int(t[3])), []
            while m:
                ws.append(m % 2 ** 64)
                m //= 2 ** 64
            if t[2] == "1":
                ws.reverse()
            exp = ("+" if a >= 0 else "-") + "".join(" %d" % w for w in ws)
        else:
            ws = [] if t[3] == "-" else [int(w) for w in t[3].split(",")]
            if t[2] == "1":
                ws.reverse()
            exp = str(sum(w * 2 ** (64 * i) for i, w in enumerate(ws)))
        return None if ans == exp else bad(line, ans, exp)
    a = int(t[2])
    if len(t) == 4:
        b = int(t[3])
        if op in ("div", "rem", "diva", "rema"):
            if b == 0:
                return None if ans == "ABORT" else bad(line, ans, "an error (division by zero)")
            r = as_int(ans)
            exp = tdiv(a, b) if op.startswith("div") else trem(a, b)
            if r != exp:
                q, m = tdiv(a, b), trem(a, b)
                return bad(line, ans, str(exp), "a = b*q + r with q=%d r=%d, |r|<|b|, r has the sign of a" % (q, m))
            return None
        if op == "cmp":
            return None if ans == cmp6(a, b) else bad(line, ans, cmp6(a, b))
        if op in ("shl", "shr"):
            if b < 0:
                return None
            exp = a << b if op == "shl" else a >> b     # python >> is floor
        else:
            exp = {"add": a + b, "adda": a + b, "sub": a - b, "suba": a - b, "mul": a * b, "mula": a * b,
                   "and": a & b, "or": a | b, "xor": a ^ b}[op]
        return None if as_int(ans) == exp else bad(line, ans, str(exp))
    if op in ("neg", "inc", "dec"):
        exp = str({"neg": -a, "inc": a + 1, "dec": a - 1}[op])
    elif op in ("pinc", "pdec"):
        exp = "%d %d" % (a, a + 1 if op == "pinc" else a - 1)
    elif op == "fill":
        if a < 0:
            return None
        exp = 0
        while exp < a:
            exp = 2 * exp + 1
        if a > 0:
            assert exp == 2 ** a.bit_length() - 1
        exp = str(exp)
    elif op == "fits":
        exp = "true" if I64MIN <= a <= I64MAX else "false"
    elif op == "toi64":
        exp = str(a) if I64MIN <= a <= I64MAX else "ABORT"
    elif op == "fromi64":
        exp = str(a) if I64MIN <= a <= I64MAX else None
    elif op == "fromu64":
        exp = str(a) if 0 <= a <= U64MAX else None
    else:
        return None
    return None if exp is None or ans == exp else bad(line, ans, exp)


def parse_q(s):
    if "/" in s:
        n, d = s.split("/")
        n, d = int(n), int(d)
    else:
        n, d = int(s), 1
    return None if d == 0 else Fraction(n, d)


def fq(f):
    return "%d/%d" % (f.numerator, f.denominator)


def floor_q(f):
    return f.numerator // f.denominator


def oracle_q(t, line, ans):
    op = t[1]
    if op == "mk":
        f = parse_q(t[2])
        exp = "ABORT" if f is None else fq(f)
    elif op == "mk2":
        exp = "ABORT" if int(t[3]) == 0 else fq(Fraction(int(t[2]), int(t[3])))
    elif op == "ofz":
        exp = fq(Fraction(int(t[2])))
    elif op == "fromd":
        exp = fq(Fraction(int(t[2])) * Fraction(2) ** int(t[3]))
    else:
        a = parse_q(t[2])
        if a is None:
            return None if ans == "ABORT" else bad(line, ans, "an error (zero denominator)")
        if len(t) == 4:
            b = parse_q(t[3])
            if b is None:
                return None if ans == "ABORT" else bad(line, ans, "an error (zero denominator)")
            if op in ("div", "diva") and b == 0:
                exp = "ABORT"
            elif op == "cmp":
                exp = cmp6(a, b)
            elif op == "shl":
                if b.denominator != 1:
                    exp = "ABORT"
                elif b < 0:
                    return None
                else:
                    exp = fq(a * 2 ** b.numerator)
            else:
                exp = fq({"add": a + b, "adda": a + b, "sub": a - b, "suba": a - b, "mul": a * b, "mula": a * b,
                          "div": (a / b) if b != 0 else None, "diva": (a / b) if b != 0 else None}[op])
        else:
            if op == "neg": exp = fq(-a)
            elif op == "inc": exp = fq(a + 1)
            elif op == "dec": exp = fq(a - 1)
            elif op == "pinc": exp = fq(a) + " " + fq(a + 1)
            elif op == "pdec": exp = fq(a) + " " + fq(a - 1)
            elif op == "num": exp = str(a.numerator)
            elif op == "den": exp = str(a.denominator)
            elif op == "lo": exp = str(floor_q(a))
            elif op == "up": exp = str(-floor_q(-a))
            elif op == "str": exp = str(a.numerator) if a.denominator == 1 else fq(a)
            else:
                return None
    if ans == exp:
        return None
    why = ""
    if op in ("lo", "up"):
        why = "the value is %s; floor %d, ceiling %d" % (parse_q(t[2]), floor_q(parse_q(t[2])), -floor_q(-parse_q(t[2])))
    elif re.match(r"^-?\d+/-?\d+$", ans) and re.match(r"^-?\d+/-?\d+$", exp) and parse_q(ans) is not None \
            and parse_q(ans) == parse_q(exp):
        why = "right value, not in lowest terms with a positive denominator"
    return bad(line, ans, exp, why)


def oracle_s(t, line, ans):
    op = t[1]
    a = int(t[2])
    if op == "ofz":
        exp = str(a) if I64MIN <= a <= I64MAX else "ABORT"
        return None if ans == exp else bad(line, ans, exp)
    if op == "neg":
        exp = str(-a) if I64MIN <= -a <= I64MAX else "ABORT"
        return None if ans == exp else bad(line, ans, exp, "never wrap silently")
    b = int(t[3])
    if op == "cmp":
        return None if ans == cmp6(a, b) else bad(line, ans, cmp6(a, b))
    base = op[1:] if op[0] == "c" else op.rstrip("a") if op in ("adda", "suba") else op
    if base == "div" and b == 0:
        return None if ans == "ABORT" else bad(line, ans, "a trap (division by zero)")
    r = {"add": a + b, "sub": a - b, "mul": a * b}.get(base)
    if r is None:
        r = tdiv(a, b)
    fits = I64MIN <= r <= I64MAX
    if op[0] == "c":
        sp = ans.split()
        if len(sp) != 2:
            return bad(line, ans, "%d with flag %d" % (r, 0 if fits else 1))
        v, f = as_int(sp[0]), sp[1]
        if fits and (f != "0" or v != r):
            return bad(line, ans, "%d with the overflow flag clear" % r)
        if not fits and f != "1":
            return bad(line, ans, "the overflow flag set (the result %d is outside int64)" % r, "silent wrap")
        return None
    exp = str(r) if fits else "ABORT"
    return None if ans == exp else bad(line, ans, exp, "checked arithmetic must fail loudly when %d does not fit" % r)


# ---- linear expressions: independent representation = (dict var -> coef without zeros, const)

def parse_expr_text(s):
    ts, c = s.split(":")
    out = []
    for tm in ts.split(","):
        if tm:
            k, v = tm.split("x")
            out.append((int(k), int(v)))
    return out, int(c)


def sem_expr(s):
    ts, c = parse_expr_text(s)
    d = {}
    for k, v in ts:
        d[v] = d.get(v, 0) + k
    return ({v: k for v, k in d.items() if k != 0}, c)


def parse_ans_expr(a):
    """'c*vI c*vJ | k' -> (list of (var, coef) in printed order, const) or None"""
    m = re.match(r"^((?:-?\d+\*v\d+ )*)\| (-?\d+)$", a)
    if not m:
        return None
    ts = [(int(x.split("*v")[1]), int(x.split("*v")[0])) for x in m.group(1).split()]
    return ts, int(m.group(2))


def canon_problem(ts):
    for i, (v, k) in enumerate(ts):
        if k == 0:
            return "a zero coefficient is stored for v%d" % v
        if i and ts[i - 1][0] >= v:
            return "variables are not strictly increasing"
    return None


def ev(sem, val):
    d, c = sem
    return sum(k * val[v] for v, k in d.items()) + c


def differing_valuation(s1, s2):
    """a valuation on which two linear functions differ (they differ iff coefficients differ)"""
    val = {v: 0 for v in range(1, NV + 1)}
    if s1[1] != s2[1]:
        return val
    for v in range(1, NV + 1):
        if s1[0].get(v, 0) != s2[0].get(v, 0):
            val[v] = 1
            return val
    return None


def check_expr_answer(line, ans, exp_sem, what):
    p = parse_ans_expr(ans)
    if p is None:
        return "%s: unparsable answer %r" % (line, ans)
    ts, c = p
    cp = canon_problem(ts)
    got = ({v: k for v, k in ts}, c)
    got_sem = ({v: k for v, k in ts if k != 0}, c)
    val = differing_valuation(got_sem, exp_sem)
    if val is not None:
        return "%s = [%s] but %s: at the valuation %s the result evaluates to %d, expected %d" % (
            line, ans, what, {("v%d" % v): x for v, x in val.items() if x}, ev(got, val), ev(exp_sem, val))
    if cp:
        return "%s = [%s] is not in canonical form: %s" % (line, ans, cp)
    return None


def sem_add(a, b, sign=1):
    d = dict(a[0])
    for v, k in b[0].items():
        d[v] = d.get(v, 0) + sign * k
    return ({v: k for v, k in d.items() if k != 0}, a[1] + sign * b[1])


def sem_scale(a, n):
    return ({v: k * n for v, k in a[0].items() if k * n != 0}, a[1] * n)


def parse_map(s):
    m = {}
    if s != "-":
        for p in s.split(","):
            a, b = p.split(">")
            m.setdefault(int(a), int(b))
    return m


def sem_rename(a, m):
    d = {}
    for v, k in a[0].items():
        w = m.get(v, v)
        d[w] = d.get(w, 0) + k
    return ({v: k for v, k in d.items() if k != 0}, a[1])


def type_eq(t, o):
    return t == o if t[0] == "int" else t[0] == o[0]


def oracle_le(t, line, ans):
    op = t[1]
    if op == "term":
        return check_expr_answer(line, ans, sem_scale(({int(t[3]): 1}, 0), int(t[2])), "it must denote %s*v%s" % (t[2], t[3]))
    if op == "var":
        return check_expr_answer(line, ans, ({int(t[2]): 1}, 0), "it must denote v%s" % t[2])
    e = sem_expr(t[2]) if op != "ksub" else sem_expr(t[3])
    if op == "build": return check_expr_answer(line, ans, e, "it must denote the sum of its terms")
    if op == "add": return check_expr_answer(line, ans, sem_add(e, sem_expr(t[3])), "eval(e1+e2) = eval e1 + eval e2")
    if op == "sub": return check_expr_answer(line, ans, sem_add(e, sem_expr(t[3]), -1), "eval(e1-e2) = eval e1 - eval e2")
    if op == "scale": return check_expr_answer(line, ans, sem_scale(e, int(t[3])), "eval(e*k) = k * eval e")
    if op == "neg": return check_expr_answer(line, ans, sem_scale(e, -1), "eval(-e) = - eval e")
    if op == "addk": return check_expr_answer(line, ans, (e[0], e[1] + int(t[3])), "eval(e+k) = eval e + k")
    if op == "subk": return check_expr_answer(line, ans, (e[0], e[1] - int(t[3])), "eval(e-k) = eval e - k")
    if op == "ksub": return check_expr_answer(line, ans, sem_add(({}, int(t[2])), e, -1), "eval(k-e) = k - eval e")
    if op == "addv": return check_expr_answer(line, ans, sem_add(e, ({int(t[3]): 1}, 0)), "eval(e+x) = eval e + x")
    if op == "subv": return check_expr_answer(line, ans, sem_add(e, ({int(t[3]): 1}, 0), -1), "eval(e-x) = eval e - x")
    if op == "rename":
        return check_expr_answer(line, ans, sem_rename(e, parse_map(t[3])), "eval(rename m e) s = eval e (s o m)")
    if op == "coef": exp = str(e[0].get(int(t[3]), 0))
    elif op == "isconst": exp = "true" if not e[0] else "false"
    elif op == "const": exp = str(e[1])
    elif op == "size": exp = str(len(e[0]))
    elif op == "vars": exp = " ".join("v%d" % v for v in sorted(e[0]))
    elif op == "getvar":
        exp = ("v%d" % list(e[0])[0]) if (e[1] == 0 and len(e[0]) == 1 and list(e[0].values())[0] == 1) else "none"
    elif op == "equal": exp = "true" if e == sem_expr(t[3]) else "false"
    elif op == "welltyped":
        vs = sorted(e[0])
        exp = "true" if all(type_eq(VTYPES[v], VTYPES[vs[0]]) for v in vs[1:]) else "false"
    else:
        return None
    return None if ans == exp else bad(line, ans, exp, "the expression denotes %s + %d" % (e[0], e[1]))


# ---- constraints

def sat(kind, sem, val):
    x = ev(sem, val)
    return {"EQ": x == 0, "NE": x != 0, "LE": x <= 0, "LT": x < 0}[kind]


def valuations(rng, sems, n=24):
    """random valuations plus ones that put each expression at -1, 0, +1 when possible"""
    out = []
    for _ in range(n):
        m = rng.choice([1, 2, 3, 3, 10, 2 ** 40])
        out.append({v: rng.randint(-m, m) for v in range(1, NV + 1)})
    for sem in sems:
        for v, k in sem[0].items():
            val = {u: rng.randint(-3, 3) for u in range(1, NV + 1)}
            val[v] = 0
            rest = ev(sem, val)
            base = -rest // k
            for dlt in (-1, 0, 1):
                w = dict(val)
                w[v] = base + dlt
                out.append(w)
    return out


def parse_ans_cst(a):
    m = re.match(r"^(EQ|NE|LE|LT): (.*)$", a)
    if not m:
        return None
    p = parse_ans_expr(m.group(2))
    if p is None:
        return None
    ts, c = p
    return m.group(1), ({v: k for v, k in ts if k != 0}, c), ts


def show(val):
    return "{" + ", ".join("v%d=%d" % (v, x) for v, x in sorted(val.items()) if x) + "}"


def const_truth(kind, c):
    return {"EQ": c == 0, "NE": c != 0, "LE": c <= 0, "LT": c < 0}[kind]


def oracle_lc(t, line, ans, rng):
    op = t[1]
    if op in ("true", "false"):
        p = parse_ans_cst(ans)
        if p is None or p[1][0]:
            return "%s: %r is not a constant constraint" % (line, ans)
        ok = const_truth(p[0], p[1][1]) == (op == "true")
        return None if ok else "%s = [%s] has the wrong truth value" % (line, ans)
    if op == "mk":
        p = parse_ans_cst(ans)
        if p is None:
            return "%s: unparsable answer %r" % (line, ans)
        s1, s2 = sem_expr(t[3]), sem_expr(t[4])
        for val in valuations(rng, [sem_add(s1, s2, -1)]):
            a, b = ev(s1, val), ev(s2, val)
            want = {"le": a <= b, "ge": a >= b, "lt": a < b, "gt": a > b, "eq": a == b, "ne": a != b}[t[2]]
            if sat(p[0], p[1], val) != want:
                return "%s = [%s]: at %s e1=%d e2=%d but the constraint is %s" % (line, ans, show(val), a, b, not want)
        return canon_problem(p[2]) and "%s = [%s] not canonical" % (line, ans)
    kind, sem = t[2], sem_expr(t[3])
    if op in ("negate", "negneg", "s2ns", "rename"):
        if op == "s2ns" and kind != "LT":
            return None
        p = parse_ans_cst(ans)
        if p is None:
            return "%s: unparsable answer %r" % (line, ans)
        src = sem_rename(sem, parse_map(t[4])) if op == "rename" else sem
        for val in valuations(rng, [src, p[1]]):
            orig = sat(kind, src, val)
            want = (not orig) if op == "negate" else orig
            if sat(p[0], p[1], val) != want:
                return "%s = [%s]: at the valuation %s the original constraint is %s and the result is %s" % (
                    line, ans, show(val), orig, not want)
        cp = canon_problem(p[2])
        return ("%s = [%s] is not in canonical form: %s" % (line, ans, cp)) if cp else None
    if op in ("taut", "contr"):
        if not sem[0]:     # constant as a function: the test must be exact
            truth = const_truth(kind, sem[1])
            exp = "true" if (truth if op == "taut" else not truth) else "false"
            return None if ans == exp else bad(line, ans, exp, "the constraint is the constant statement %d %s 0" % (
                sem[1], {"EQ": "=", "NE": "!=", "LE": "<=", "LT": "<"}[kind]))
        if ans == "true":
            for val in valuations(rng, [sem]):
                if sat(kind, sem, val) != (op == "taut"):
                    return "%s answered true but the constraint is %s at %s" % (line, sat(kind, sem, val), show(val))
        return None
    if op == "const": exp = str(-sem[1])
    elif op == "size": exp = str(len(sem[0]))
    elif op == "coef": exp = str(sem[0].get(int(t[4]), 0))
    elif op == "equal": exp = "true" if (kind == t[4] and sem == sem_expr(t[5])) else "false"
    elif op == "welltyped":
        vs = sorted(sem[0])
        exp = "true" if all(type_eq(VTYPES[v], VTYPES[vs[0]]) for v in vs[1:]) else "false"
    else:
        return None
    return None if ans == exp else bad(line, ans, exp)


def parse_sys_text(s):
    if s == "-":
        return []
    return [(c.split("@")[0], sem_expr(c.split("@")[1])) for c in s.split(";")]


def parse_ans_sys(a):
    if a == "{}":
        return []
    out = []
    for c in a.split(" ; "):
        p = parse_ans_cst(c)
        if p is None:
            return None
        out.append(p)
    return out


def oracle_ls(t, line, ans, rng):
    op = t[1]
    s1 = parse_sys_text(t[2])
    if op in ("build", "normalize", "plus", "addsys"):
        src = s1 + (parse_sys_text(t[3]) if len(t) > 3 else [])
        res = parse_ans_sys(ans)
        if res is None:
            return "%s: unparsable answer %r" % (line, ans)
        vals = valuations(rng, [s for _, s in src], 16)
        # a joint solution of the equalities/pairs is rarely hit at random: also try to solve greedily
        for _ in range(6):
            val = {v: rng.randint(-2, 2) for v in range(1, NV + 1)}
            for kd, sem in src:
                if sem[0] and not sat(kd, sem, val):
                    v = rng.choice(sorted(sem[0]))
                    val[v] = 0
                    val[v] = (-ev(sem, val)) // sem[0][v]
            vals.append(val)
        for val in vals:
            a = all(sat(k, s, val) for k, s in src)
            b = all(sat(k, s, val) for k, s, _ in res)
            if a != b:
                return "%s = [%s]: the valuation %s %s the original system but %s the result" % (
                    line, ans, show(val), "satisfies" if a else "violates", "satisfies" if b else "violates")
        seen = set()
        for k, s, ts in res:
            key = (k, tuple(ts), s[1])
            if key in seen:
                return "%s = [%s] contains a syntactic duplicate" % (line, ans)
            seen.add(key)
            if canon_problem(ts):
                return "%s = [%s] contains a non-canonical expression" % (line, ans)
        return None
    if op == "isfalse":
        if ans == "true":
            for val in valuations(rng, [s for _, s in s1], 16):
                if all(sat(k, s, val) for k, s in s1):
                    return "%s answered true but %s satisfies the system" % (line, show(val))
        elif any((not s[0]) and not const_truth(k, s[1]) for k, s in s1):
            return bad(line, ans, "true", "it contains a contradictory constant constraint")
        return None
    if op == "istrue":
        if ans == "true":
            for val in valuations(rng, [s for _, s in s1], 8):
                if not all(sat(k, s, val) for k, s in s1):
                    return "%s answered true but %s violates the system" % (line, show(val))
        return None
    return None


def oracle(line, ans, rng=None):
    rng = rng or random.Random(1)
    t = line.split()
    if ans in ("MISSING",) or ans.startswith("HARNESS-ERROR"):
        return None
    if t[0] == "z": return oracle_z(t, line, ans)
    if t[0] == "q": return oracle_q(t, line, ans)
    if t[0] == "s": return oracle_s(t, line, ans)
    if t[0] == "le": return oracle_le(t, line, ans)
    if t[0] == "lc": return oracle_lc(t, line, ans, rng)
    if t[0] == "ls": return oracle_ls(t, line, ans, rng)
    return None


def nontrivial(line, ans):
    """rule: numbers - the answer is a value (not ABORT) and some operand has magnitude > 1;
    expressions / constraints - some input expression has at least two terms;
    systems - at least two constraints."""
    t = line.split()
    if ans == "ABORT":
        return False
    if t[0] in ("z", "s", "q"):
        nums = re.findall(r"-?\d+", " ".join(t[2:]))
        return any(abs(int(x)) > 1 for x in nums)
    if t[0] in ("le", "lc"):
        return any(tok.count("x") >= 2 for tok in t[2:])
    if t[0] == "ls":
        return any(tok.count("@") >= 2 for tok in t[2:])
    return False
