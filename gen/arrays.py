"""Array-history generator, cell-algebra unit stream and property-level oracle (C14).
Case formats: see harness/arrays.cpp.

Concrete semantics used by the oracle (the word-level assumption the domains document):
a store maps scalars to integers and arrays to total functions  byte offset -> value;
every array has one element size, an access at offset i is defined when i >= 0 and i is
a multiple of the element size (otherwise the execution has no successor state);
array_init writes val to the offsets lb, lb+sz, ... <= ub and leaves every other cell
undefined; a range store writes the offsets lb, lb+sz, ... <= ub; array_assign copies the
function.  The value of a cell that was never written is unknown: a state that reads one is
not followed further (cfg.hpp: cells outside the initialised range are "undefined").  An
array that the client marks `one-cell` (strong updates allowed) is only ever accessed at
its single offset."""
import random, re, zlib

POOL = [0, 0, 4, 8, 8, 12, 16, 24, 1, -1, 2, 3, 5, -5, 7, 10, 100, -100, 2 ** 31]
VALS = [0, 1, -1, 2, 5, 7, 9, 10, -10, 42, 100]
MAXS = 40


def E(terms, k):
    return "E %d %s%d" % (len(terms), "".join("%d %d " % (c, v) for c, v in terms), k)


def cst_bounds(v, lo, hi):
    return "C le E 1 -1 %d %d C le E 1 1 %d %d" % (v, lo, v, -hi)


class Cfg:
    """per-history layout: element size and class of every array, roles of the scalars"""
    def __init__(self, rng, opts):
        self.nregs = rng.randint(2, 3)
        self.na = rng.randint(1, 3)
        self.ns = rng.randint(3, 5)
        uni = rng.choice([1, 4, 4, 4, 8, 2])
        self.esz = [uni] * self.na      # one element size per program (the word-level assumption)
        # one-cell arrays (strong updates are legal on them), with their only offset
        self.one = [None] * self.na
        if opts.get("onecell", True):
            for a in range(self.na):
                if rng.random() < 0.25:
                    self.one[a] = self.esz[a] * rng.choice([0, 0, 1, 3])
        self.ncells = rng.choice([2, 3, 4, 6])


def gen_history(rng, opts=None):
    opts = opts or {}
    c = Cfg(rng, opts)
    ops = []
    meets = opts.get("meets", False)
    nops = rng.randint(opts.get("minops", 6), opts.get("maxops", 28))
    ns = c.ns

    def val_exp():
        x = rng.random()
        if x < 0.6:
            return E([], rng.choice(VALS))
        if x < 0.9:
            return E([(1, rng.randrange(ns))], rng.choice([0, 0, 1, -1]))
        return E([(rng.choice([1, -1, 2]), rng.randrange(ns))], rng.choice(VALS))

    mix = opts.get("mixsz", False)

    def sz_exp(r, a, load=False):
        # mixsz: stores use other element sizes too (a load must use the width of the scalars)
        if mix and not load and rng.random() < 0.3:
            return E([], rng.choice([1, 2, 4, 8]))
        return E([], c.esz[a])

    def idx_exp(r, a, allow_sym=True):
        """(prefix ops, expression): a constant offset or a symbolic one with known bounds"""
        s = c.esz[a]
        if c.one[a] is not None:
            if rng.random() < 0.3:
                v = rng.randrange(ns)
                return ["assign %d %d %s" % (r, v, E([], c.one[a]))], E([(1, v)], 0)
            return [], E([], c.one[a])
        x = rng.random()
        if x < 0.55 or not allow_sym:
            if mix and rng.random() < 0.3:
                return [], E([], s * rng.randrange(c.ncells) + rng.choice([1, 2, 3, s // 2]))
            return [], E([], s * rng.randrange(c.ncells))
        v = rng.randrange(ns)
        if x < 0.85:
            lo = rng.randrange(c.ncells); hi = lo + rng.randrange(c.ncells)
            w = rng.randrange(ns)
            pre = ["forget %d 1 %d" % (r, w), "assume %d 2 %s" % (r, cst_bounds(w, lo, hi)),
                   "arith %d mul %d %d k %d" % (r, v, w, s)]
            return pre, E([(1, v)], rng.choice([0, 0, 0, s]))
        if x < 0.93:
            return [], E([(1, v)], 0)            # whatever the register knows about v
        k = s * rng.randrange(c.ncells)
        return ["assign %d %d %s" % (r, v, E([], k))], E([(1, v)], 0)

    if rng.random() < 0.55:
        # start from initialised arrays (otherwise most loads return top)
        for a in range(c.na):
            if rng.random() < 0.8:
                s = c.esz[a]
                lo, hi = (0, s * (c.ncells + rng.randrange(3))) if c.one[a] is None else (c.one[a], c.one[a])
                ops.append("ainit 0 %d %s %s %s %s" % (a, E([], s), E([], lo), E([], hi), E([], rng.choice(VALS))))
        for r in range(1, c.nregs):
            if rng.random() < 0.7:
                ops.append("copy %d 0" % r)
    for _ in range(nops):
        r = rng.randrange(c.nregs)
        a = rng.randrange(c.na)
        pick = rng.choices(
            ["ainit", "aload", "astore", "arange", "acopy", "assign", "arith", "assume", "forget", "project",
             "join", "widen", "meet", "narrow", "copy", "top", "bot", "expand", "rename", "q_leq", "widenthr", "joinw"],
            [6, 14, 14, 6, 4, 4, 2, 3, 2, 1,
             6, 3, 2 if meets else 0, 1 if meets else 0, 5, 0.5, 0.3, 1, 1, 1, 1, 2])[0]
        if pick == "ainit":
            s = c.esz[a]
            lb = 0 if rng.random() < 0.7 else s * rng.randrange(c.ncells)
            ub = lb + s * rng.randrange(c.ncells + 2)
            ops.append("ainit %d %d %s %s %s %s" % (r, a, sz_exp(r, a), E([], lb), E([], ub), val_exp()))
        elif pick == "aload":
            pre, ix = idx_exp(r, a)
            ops += pre
            ops.append("aload %d %d %d %s %s" % (r, rng.randrange(ns), a, sz_exp(r, a, True), ix))
        elif pick == "astore":
            pre, ix = idx_exp(r, a)
            ops += pre
            strong = 1 if (c.one[a] is not None and rng.random() < 0.7) else 0
            ops.append("astore %d %d %s %s %s %d" % (r, a, sz_exp(r, a), ix, val_exp(), strong))
        elif pick == "arange":
            if c.one[a] is not None:
                continue
            s = c.esz[a]
            x = rng.random()
            lb = s * rng.randrange(c.ncells)
            n = rng.randrange(c.ncells + 2)
            if x < 0.6:
                ops.append("arange %d %d %s %s %s %s" % (r, a, sz_exp(r, a), E([], lb), E([], lb + s * n + rng.choice([0, 0, s - 1])), val_exp()))
            else:
                pre, ub = idx_exp(r, a)
                ops += pre
                lbe = E([], 0) if rng.random() < 0.7 else ub
                ops.append("arange %d %d %s %s %s %s" % (r, a, sz_exp(r, a), lbe, ub, val_exp()))
        elif pick == "acopy":
            b = rng.randrange(c.na)
            if c.esz[a] != c.esz[b] or c.one[a] != c.one[b]:
                continue
            ops.append("acopy %d %d %d" % (r, a, b))
        elif pick == "assign":
            ops.append("assign %d %d %s" % (r, rng.randrange(ns), val_exp()))
        elif pick == "arith":
            z = ("v %d" % rng.randrange(ns)) if rng.random() < 0.5 else ("k %d" % rng.choice([1, 2, 4, -1, 3]))
            ops.append("arith %d %s %d %d %s" % (r, rng.choice(["add", "sub", "mul"]), rng.randrange(ns), rng.randrange(ns), z))
        elif pick == "assume":
            v = rng.randrange(ns)
            lo = rng.choice([0, 0, 1, 4, -4]); hi = lo + rng.choice([0, 1, 4, 8, 12])
            ops.append("assume %d 2 %s" % (r, cst_bounds(v, lo, hi)))
        elif pick == "forget" and rng.random() < 0.3:
            ops.append("forget1 %d %d" % (r, rng.randrange(ns + c.na)))       # operator-=
        elif pick in ("forget", "project"):
            n = rng.randint(1, 2)
            vs = rng.sample(range(ns + c.na), n)
            if pick == "project":
                vs = sorted(set(range(ns + c.na)) - set(vs))
            ops.append("%s %d %d %s" % (pick, r, len(vs), " ".join(map(str, vs))))
        elif pick == "expand":
            if rng.random() < 0.5 and c.na >= 2:
                b = rng.randrange(c.na)
                if a == b or c.esz[a] != c.esz[b] or c.one[a] != c.one[b]:
                    continue
                ops.append("forget %d 1 %d" % (r, ns + b))
                ops.append("expand %d %d %d" % (r, ns + a, ns + b))
            else:
                x, y = rng.sample(range(ns), 2)
                ops.append("forget %d 1 %d" % (r, y))
                ops.append("expand %d %d %d" % (r, x, y))
        elif pick == "rename":
            if rng.random() < 0.5 and c.na >= 2:
                b = rng.randrange(c.na)
                if a == b or c.esz[a] != c.esz[b] or c.one[a] != c.one[b]:
                    continue
                ops.append("forget %d 1 %d" % (r, ns + b))
                ops.append("rename %d 1 %d %d" % (r, ns + a, ns + b))
            else:
                x, y = rng.sample(range(ns), 2)
                ops.append("forget %d 1 %d" % (r, y))
                ops.append("rename %d 1 %d %d" % (r, x, y))
        elif pick in ("join", "widen", "meet", "narrow", "joinw"):
            ops.append("%s %d %d %d" % (pick, r, rng.randrange(c.nregs), rng.randrange(c.nregs)))
        elif pick == "widenthr":
            n = rng.randint(0, 3)
            ops.append("widenthr %d %d %d %d %s" % (r, rng.randrange(c.nregs), rng.randrange(c.nregs), n,
                                                    " ".join(str(rng.choice([-10, 0, 5, 10, 100])) for _ in range(n))))
        elif pick == "copy":
            ops.append("copy %d %d" % (r, rng.randrange(c.nregs)))
        elif pick in ("top", "bot"):
            ops.append("%s %d" % (pick, r))
        elif pick == "q_leq":
            ops.append("q_leq %d %d" % (rng.randrange(c.nregs), rng.randrange(c.nregs)))
    meta = "w=%d esz=%s one=%s" % (8 * c.esz[0], ",".join(map(str, c.esz)), ",".join("-" if x is None else str(x) for x in c.one))
    return "%s %d %d %d %s ; %s" % (opts.get("head", "ahist"), c.nregs, c.ns, c.na, meta, " ; ".join(ops))


def gen_loop_history(rng, opts=None):
    """the shape of a loop analysed with widening: register 0 = loop head, 1 = body, 2 = exit;
    the body stores (and loads) at the induction variable i, which advances by the element size"""
    opts = opts or {}
    sz = rng.choice([1, 4, 4, 8, 2])
    na = rng.randint(1, 2)
    ns = 4                      # v0 = i, v1 = value, v2, v3 = loaded
    n = rng.randint(2, 6)       # cells
    ops = ["assign 0 0 %s" % E([], 0), "assign 0 1 %s" % E([], rng.choice(VALS))]
    for a in range(na):
        if rng.random() < 0.7:
            ops.append("ainit 0 %d %s %s %s %s" % (a, E([], sz), E([], 0), E([], sz * (n - 1 + rng.randrange(2))), E([], rng.choice(VALS))))
    iters = rng.randint(2, 4)
    for it in range(iters):
        ops.append("copy 1 0")
        ops.append("assume 1 1 C le E 1 1 0 %d" % (-(sz * (n - 1))))
        for _ in range(rng.randint(1, 3)):
            a = rng.randrange(na)
            x = rng.random()
            if x < 0.5:
                val = rng.choice([E([], rng.choice(VALS)), E([(1, 1)], 0), E([(1, 0)], 1)])
                ops.append("astore 1 %d %s %s %s 0" % (a, E([], sz), E([(1, 0)], 0), val))
            elif x < 0.8:
                ops.append("aload 1 %d %d %s %s" % (rng.choice([2, 3]), a, E([], sz), E([(1, 0)], 0)))
            elif x < 0.9:
                ops.append("astore 1 %d %s %s %s 0" % (a, E([], sz), E([], sz * rng.randrange(n)), E([], rng.choice(VALS))))
            else:
                ops.append("arith 1 add 1 1 k %d" % rng.choice([1, 2]))
        ops.append("arith 1 add 0 0 k %d" % sz)
        ops.append("%s 0 0 1" % ("join" if it == 0 else rng.choice(["widen", "widen", "join", "widenthr"])))
        if ops[-1].startswith("widenthr"):
            ops[-1] += " 2 %d %d" % (sz * n, sz * n + sz)
    ops.append("copy 2 0")
    ops.append("assume 2 1 C le E 1 -1 0 %d" % (sz * (n - 1)))
    for a in range(na):
        ix = E([], sz * rng.randrange(n)) if rng.random() < 0.6 else E([(1, 0)], -sz)
        ops.append("aload 2 %d %d %s %s" % (rng.choice([2, 3]), a, E([], sz), ix))
    meta = "w=%d esz=%s one=%s" % (8 * sz, ",".join([str(sz)] * na), ",".join(["-"] * na))
    return "%s 3 %d %d %s ; %s" % (opts.get("head", "ahist"), ns, na, meta, " ; ".join(ops))


# hand-picked cases: the defects found while building the model, then shapes aimed at the
# case splits (symbolic store -> smash / kill, cell limit reached, copy over old cells)
CORPUS = [
    # range store with a symbolic upper bound over an existing cell
    "ahist 1 3 1 w=32 esz=4 one=- ; astore 0 0 E 0 4 E 0 0 E 0 5 0 ; assume 0 2 C le E 1 -1 0 0 C le E 1 1 0 -8 ; arange 0 0 E 0 4 E 0 0 E 1 1 0 0 E 0 7 ; aload 0 1 0 E 0 4 E 0 0",
    # range store longer than max_array_size
    "ahist 1 3 1 w=32 esz=4 one=- ; astore 0 0 E 0 4 E 0 0 E 0 5 0 ; astore 0 0 E 0 4 E 0 12 E 0 5 0 ; arange 0 0 E 0 4 E 0 0 E 0 12 E 0 7 ; aload 0 1 0 E 0 4 E 0 12",
    # copy from an array whose contents are known on one joined branch only (fixes/arrays-2, arrays-4)
    "ahist 3 3 2 w=32 esz=4,4 one=-,- ; ainit 0 1 E 0 4 E 0 0 E 0 12 E 0 7 ; join 2 0 1 ; ainit 2 0 E 0 4 E 0 0 E 0 12 E 0 5 ; acopy 2 0 1 ; aload 2 1 0 E 0 4 E 0 0",
    "ahist 3 3 2 w=32 esz=4,4 one=-,- ; astore 0 1 E 0 4 E 0 0 E 0 9 0 ; join 2 0 1 ; astore 2 0 E 0 4 E 0 0 E 0 5 0 ; acopy 2 0 1 ; aload 2 1 0 E 0 4 E 0 0",
    "ahist 1 3 2 w=32 esz=4,4 one=-,- ; ainit 0 0 E 0 4 E 0 0 E 0 12 E 0 5 ; acopy 0 0 1 ; aload 0 1 0 E 0 4 E 0 0",
    "ahist 1 3 2 w=32 esz=4,4 one=-,- ; astore 0 0 E 0 4 E 0 0 E 0 5 0 ; astore 0 1 E 0 4 E 0 4 E 0 1 0 ; acopy 0 0 1 ; aload 0 1 0 E 0 4 E 0 0",
    # symbolic load over a part of the array that the state does not track (fixes/arrays-5)
    "ahist 3 3 1 w=32 esz=4 one=- ; astore 0 0 E 0 4 E 0 8 E 0 2 0 ; join 1 0 1 ; astore 1 0 E 0 4 E 0 12 E 0 1 0 ; aload 1 1 0 E 0 4 E 1 1 0 0",
    # a smashing store over an array that has a defined cell the state does not track: the
    # load from the smashed array misses it (known finding of array_adaptive, smashable settings;
    # Coq: C14_adaptive_smash_untracked_refuted)
    "ahist 2 3 1 w=32 esz=4 one=- ; astore 0 0 E 0 4 E 0 8 E 0 2 0 ; join 1 0 1 ; astore 1 0 E 0 4 E 0 0 E 0 5 0 ; assume 1 2 C le E 1 -1 0 0 C le E 1 1 0 -4 ; astore 1 0 E 0 4 E 1 1 0 0 E 0 7 0 ; aload 1 1 0 E 0 4 E 0 8",
    # the same finding through a symbolic store that can only kill cells (smash_at_nonzero_offset = 0 and the
    # first cell at offset 4): it writes A[8] or A[12], cells that the state does not track; the array is
    # smashed later and the load of A[8] misses the value 100 (Coq: the side condition store_keeps of
    # C14_adaptive_store_keeps_tracked)
    "ahist 2 4 1 w=32 esz=4 one=- ; astore 0 0 E 0 4 E 0 4 E 0 5 0 ; copy 1 0 ; assign 0 1 E 0 8 ; assign 1 1 E 0 12 ; join 0 0 1 ; astore 0 0 E 0 4 E 1 1 1 0 E 0 100 0 ; astore 0 0 E 0 4 E 0 0 E 0 1 0 ; copy 1 0 ; assign 0 3 E 0 0 ; assign 1 3 E 0 4 ; join 0 0 1 ; astore 0 0 E 0 4 E 1 1 3 0 E 0 9 0 ; aload 0 0 0 E 0 4 E 0 8",
    # array operations on a bottom value (fixes/arrays-3)
    "ahist 2 3 1 w=32 esz=4 one=- ; bot 0 ; astore 0 0 E 0 4 E 0 0 E 0 5 0 ; aload 0 1 0 E 0 4 E 0 0 ; arange 0 0 E 0 4 E 0 0 E 0 8 E 0 1 ; join 1 0 1",
    # symbolic store that cannot smash (array does not start at 0), store again, symbolic store again
    "ahist 1 3 1 w=32 esz=4 one=- ; astore 0 0 E 0 4 E 0 4 E 0 5 0 ; assume 0 2 C le E 1 -1 0 0 C le E 1 1 0 -8 ; astore 0 0 E 0 4 E 1 1 0 0 E 0 7 0 ; astore 0 0 E 0 4 E 0 4 E 0 9 0 ; astore 0 0 E 0 4 E 1 1 0 0 E 0 7 0 ; aload 0 1 0 E 0 4 E 0 4",
    # smashing: init, weak stores, load; strong store on a one-cell array
    "ahist 2 3 1 w=32 esz=4 one=- ; ainit 0 0 E 0 4 E 0 0 E 0 36 E 0 0 ; astore 0 0 E 0 4 E 0 8 E 0 5 0 ; aload 0 1 0 E 0 4 E 0 8 ; aload 0 2 0 E 0 4 E 0 0",
    "ahist 2 3 1 w=32 esz=4 one=0 ; ainit 0 0 E 0 4 E 0 0 E 0 0 E 0 1 ; astore 0 0 E 0 4 E 0 0 E 0 5 1 ; aload 0 1 0 E 0 4 E 0 0",
    # join of an initialised and an untouched array, then a weak store and a load
    "ahist 3 3 1 w=32 esz=4 one=- ; ainit 0 0 E 0 4 E 0 0 E 0 12 E 0 5 ; join 2 0 1 ; astore 2 0 E 0 4 E 0 0 E 0 7 0 ; aload 2 1 0 E 0 4 E 0 0 ; aload 0 2 0 E 0 4 E 0 4",
    # element size given by a variable that is a known constant; then by an unknown one (error)
    "ahist 1 3 1 w=32 esz=4 one=- ; assign 0 2 E 0 4 ; ainit 0 0 E 1 1 2 0 E 0 0 E 0 12 E 0 5 ; aload 0 1 0 E 1 1 2 0 E 0 4",
    "ahist 1 3 1 w=32 esz=4 one=- ; ainit 0 0 E 1 1 2 0 E 0 0 E 0 12 E 0 5",
    "ahist 1 3 1 w=32 esz=4 one=- ; ainit 0 0 E 0 0 E 0 0 E 0 12 E 0 5",
    # widening of array contents in a loop shape
    "ahist 3 3 1 w=32 esz=4 one=- ; ainit 0 0 E 0 4 E 0 0 E 0 36 E 0 0 ; copy 1 0 ; aload 1 1 0 E 0 4 E 0 4 ; arith 1 add 1 1 k 1 ; astore 1 0 E 0 4 E 0 4 E 1 1 1 0 0 ; widen 0 0 1 ; copy 1 0 ; aload 1 1 0 E 0 4 E 0 4 ; arith 1 add 1 1 k 1 ; astore 1 0 E 0 4 E 0 4 E 1 1 1 0 0 ; widen 0 0 1 ; aload 0 2 0 E 0 4 E 0 8",
    # forget / project / expand / rename of arrays
    "ahist 1 3 2 w=32 esz=4,4 one=-,- ; ainit 0 0 E 0 4 E 0 0 E 0 12 E 0 5 ; expand 0 3 4 ; aload 0 1 1 E 0 4 E 0 4 ; forget 0 1 3 ; rename 0 1 4 3 ; aload 0 0 0 E 0 4 E 0 0 ; project 0 2 0 1 ; aload 0 2 0 E 0 4 E 0 0",
]


def gen(seed, tier, n=None, opts=None):
    rng = random.Random(seed)
    n = n if n is not None else (500 if tier == "quick" else 20000)
    lines = list(CORPUS) if (opts or {}).get("corpus", True) else []
    for _ in range(n):
        lines.append(gen_loop_history(rng, opts) if rng.random() < 0.15 else gen_history(rng, opts))
    if opts and opts.get("head"):
        lines = [l.replace("ahist", opts["head"], 1) if l.startswith("ahist") else l for l in lines]
    return lines


# ------------------------------------------------------------------ oracle

class Tok:
    def __init__(self, toks):
        self.t, self.p = toks, 0

    def next(self):
        self.p += 1
        return self.t[self.p - 1]

    def nexti(self):
        return int(self.next())


def p_exp(k):
    k.next()
    n = k.nexti()
    terms = []
    for _ in range(n):
        c = k.nexti(); v = k.nexti()
        terms.append((c, v))
    return terms, k.nexti()


def p_cst(k):
    k.next()
    kind = k.next()
    return kind, p_exp(k)


def ev(e, s):
    return sum(c * s[v] for c, v in e[0]) + e[1]


def holds(c, s):
    v = ev(c[1], s)
    return {"eq": v == 0, "ne": v != 0, "le": v <= 0, "lt": v < 0}[c[0]]


def parse_itv(s):
    s = s.strip()
    if s == "_|_":
        return "bot"
    m = re.match(r"^\[(\S+), (\S+)\]$", s)
    if not m:
        return None
    l = None if m.group(1) == "-oo" else int(m.group(1))
    u = None if m.group(2) == "+oo" else int(m.group(2))
    return (l, u)


def in_itv(i, z):
    if i == "bot" or i is None:
        return False
    return (i[0] is None or i[0] <= z) and (i[1] is None or z <= i[1])


def parse_state(a):
    a = a.split(" # ")[0].strip()
    if a == "_|_":
        return "bot"
    if a.startswith("T"):
        a = a[1:]
    return [parse_itv(x) for x in a.split("|")]


# a concrete array: the sorted tuple of the (offset, value) pairs whose value is known; every
# other cell is unknown (reading it gives an arbitrary value: the state is not followed further)
def aget(arr, i):
    for o, v in arr:
        if o == i:
            return v
    return None


def aset(arr, i, v):
    d = dict(arr); d[i] = v
    return tuple(sorted(d.items()))


def header(line):
    h = line.split(" ; ", 1)[0].split()
    nregs, ns, na = int(h[1]), int(h[2]), int(h[3])
    esz, one = [None] * na, [None] * na
    for x in h[4:]:
        if x.startswith("esz="):
            esz = [int(y) for y in x[4:].split(",")]
        elif x.startswith("one="):
            one = [None if y == "-" else int(y) for y in x[4:].split(",")]
    return nregs, ns, na, esz, one


def oracle(line, ans, rng=None, meets_ok=True):
    """replays the history on sampled concrete states (scalars, arrays); every printed
    at(v) must contain the value of v in every state reached by the same operations, and
    a register with a reached state must not print bottom"""
    if ans in ("ABORT", "MISSING") or ans.startswith("HARNESS-ERROR") or ans.startswith("ABORT"):
        return None
    ops = [o.split() for o in line.split(" ; ")]
    nregs, ns, na, esz, one = header(line)
    answers = ans.split(" ; ")
    r0 = random.Random(zlib.crc32(line.encode()))
    def new_arr():
        return ()

    def rand_state():
        return (tuple(r0.choice(POOL) for _ in range(ns)), tuple(new_arr() for _ in range(na)))

    top_samples = [rand_state() for _ in range(MAXS)]
    regs = [list(top_samples) for _ in range(nregs)]
    ai = 0

    def trim(l):
        l = list(dict.fromkeys(l))
        if len(l) > MAXS:
            l = r0.sample(l, MAXS)
        return l

    def upd(t, x, v):
        l = list(t); l[x] = v
        return tuple(l)

    def okidx(a, i, sz):
        if i < 0 or sz != esz[a] or i % sz != 0:
            return False
        return True

    for idx, o in enumerate(ops[1:], 1):
        if not o:
            continue
        if ai >= len(answers):
            return None
        a_txt = answers[ai]; ai += 1
        k = Tok(o)
        op = k.next()
        where = "step %d (%s) of: %s" % (idx, " ".join(o), line)
        if op == "q_leq":
            continue
        r = k.nexti()
        if op != "q_at":
            S = regs[r]
            if op == "top":
                S = list(top_samples)
            elif op == "bot":
                S = []
            elif op == "copy":
                S = list(regs[k.nexti()])
            elif op == "assign":
                x = k.nexti(); e = p_exp(k)
                S = [(upd(s, x, ev(e, s)), m) for s, m in S]
            elif op == "arith":
                f = k.next(); x = k.nexti(); y = k.nexti(); kind = k.next(); zz = k.nexti()
                T = []
                for s, m in S:
                    a1 = s[y]; b1 = s[zz] if kind == "v" else zz
                    v = a1 + b1 if f == "add" else a1 - b1 if f == "sub" else (a1 * b1 if (a1.bit_length() + b1.bit_length() <= 4096) else None) if f == "mul" else None
                    if v is not None:
                        T.append((upd(s, x, v), m))
                S = T
            elif op == "assume":
                n = k.nexti(); cs = [p_cst(k) for _ in range(n)]
                S = [(s, m) for s, m in S if all(holds(c, s) for c in cs)]
            elif op in ("forget", "forget1"):
                n = k.nexti() if op == "forget" else 1
                vs = [k.nexti() for _ in range(n)]
                T = []
                for s, m in S:
                    for _ in range(2):
                        s2, m2 = s, m
                        for v in vs:
                            if v < ns:
                                s2 = upd(s2, v, r0.choice(POOL))
                            else:
                                m2 = upd(m2, v - ns, new_arr())
                        T.append((s2, m2))
                S = T
            elif op == "project":
                n = k.nexti(); vs = set(k.nexti() for _ in range(n))
                T = []
                for s, m in S:
                    for _ in range(2):
                        s2, m2 = s, m
                        for v in range(ns + na):
                            if v not in vs:
                                if v < ns:
                                    s2 = upd(s2, v, r0.choice(POOL))
                                else:
                                    m2 = upd(m2, v - ns, new_arr())
                        T.append((s2, m2))
                S = T
            elif op == "rename":
                n = k.nexti(); fr = [k.nexti() for _ in range(n)]; to = [k.nexti() for _ in range(n)]
                T = []
                for s, m in S:
                    for f1, t1 in zip(fr, to):
                        if f1 == t1:
                            continue
                        if f1 < ns:
                            s = upd(s, t1, s[f1]); s = upd(s, f1, r0.choice(POOL))
                        else:
                            m = upd(m, t1 - ns, m[f1 - ns]); m = upd(m, f1 - ns, new_arr())
                    T.append((s, m))
                S = T
            elif op == "expand":
                x = k.nexti(); nx = k.nexti()
                if x < ns:
                    S = [(upd(s, nx, s[x]), m) for s, m in S]
                else:
                    S = [(s, upd(m, nx - ns, m[x - ns])) for s, m in S]
            elif op == "ainit":
                a = k.nexti(); es = p_exp(k); lb = p_exp(k); ub = p_exp(k); v = p_exp(k)
                T = []
                for s, m in S:
                    l, u, sz = ev(lb, s), ev(ub, s), ev(es, s)
                    if sz != esz[a] or (l <= u and (not okidx(a, l, sz) or u - l > 64 * sz)):
                        continue
                    arr = ()
                    i = l
                    while i <= u:
                        arr = aset(arr, i, ev(v, s)); i += sz
                    T.append((s, upd(m, a, arr)))
                S = T
            elif op == "aload":
                x = k.nexti(); a = k.nexti(); es = p_exp(k); ix = p_exp(k)
                T = []
                for s, m in S:
                    i = ev(ix, s)
                    if not okidx(a, i, ev(es, s)) or (one[a] is not None and i != one[a]):
                        continue
                    if aget(m[a], i) is None:
                        continue
                    T.append((upd(s, x, aget(m[a], i)), m))
                S = T
            elif op == "astore":
                a = k.nexti(); es = p_exp(k); ix = p_exp(k); v = p_exp(k); strong = k.nexti()
                T = []
                for s, m in S:
                    i = ev(ix, s)
                    if not okidx(a, i, ev(es, s)):
                        continue
                    if strong and (one[a] is None or i != one[a]):
                        continue
                    T.append((s, upd(m, a, aset(m[a], i, ev(v, s)))))
                S = T
            elif op == "arange":
                a = k.nexti(); es = p_exp(k); lb = p_exp(k); ub = p_exp(k); v = p_exp(k)
                T = []
                for s, m in S:
                    l, u, sz = ev(lb, s), ev(ub, s), ev(es, s)
                    if not okidx(a, l, sz) or u - l > 64 * sz:
                        continue
                    arr = m[a]
                    i = l
                    while i <= u:
                        arr = aset(arr, i, ev(v, s)); i += sz
                    T.append((s, upd(m, a, arr)))
                S = T
            elif op == "acopy":
                l = k.nexti(); rr = k.nexti()
                S = [(s, upd(m, l, m[rr])) for s, m in S]
            elif op in ("join", "widen", "widenthr", "joinw"):
                s1, t1 = k.nexti(), k.nexti()
                S = regs[s1] + regs[t1]
            elif op in ("meet", "narrow", "meetw"):
                s1, t1 = k.nexti(), k.nexti()
                st = set(regs[t1])
                S = [s for s in regs[s1] if s in st]
            regs[r] = trim(S)
        st = parse_state(a_txt)
        if st == "bot":
            if regs[r]:
                return "%s: the value is bottom but state %s is reachable by the same concrete operations" % (where, show(regs[r][0]))
            continue
        for s, m in regs[r]:
            for v in range(min(ns, len(st))):
                if st[v] is not None and not in_itv(st[v], s[v]):
                    return "%s: at(v%d) = %s but the reachable state %s has v%d = %d" % (where, v, st[v], show((s, m)), v, s[v])
    return None


def show(st):
    s, m = st
    return "scalars=%s arrays=%s" % (list(s), [dict(a) for a in m])


def kind_of(w):
    if "the value is bottom" in w:
        return "bottom"
    m = re.search(r"step \d+ \((\w+)", w)
    return "at-after-" + (m.group(1) if m else "?")


def nontrivial(line, ans):
    """rule: at least one load returned a value that is neither bottom nor top"""
    ops = line.split(" ; ")[1:]
    answers = ans.split(" ; ")
    for o, a in zip([x for x in ops if x.strip()], answers):
        t = o.split()
        if t and t[0] == "aload":
            st = parse_state(a)
            if st != "bot" and int(t[2]) < len(st) and st[int(t[2])] not in (None, (None, None)):
                return True
    return False


# ------------------------------------------------------------------ cell-algebra unit stream

CELLS_CORPUS = [
    # overlap / symbolic overlap of single cells, removed cells
    "cells ; covl 0 4 0 0 4 ; covl 0 4 0 4 4 ; covl 0 4 0 3 4 ; covl 0 4 1 0 4 ; covl 4 4 0 0 5 ; covl 8 1 0 8 1",
    "cells ; csym 4 4 0 0 8 4 ; csym 4 4 0 8 12 4 ; csym 4 4 1 0 8 4 ; csym 0 16 0 4 4 4 ; csym 4 4 0 -oo +oo 4 ; csym 4 4 0 5 6 1",
    # the backward scan of get_overlap_cells stops at the first offset without overlap
    "cells ; mk 0 0 16 ; mk 0 4 4 ; ov 0 8 4 ; ov 0 4 4 ; ov 0 0 16 ; ov 0 2 4",
    "cells ; mk 0 0 4 ; mk 0 4 4 ; mk 0 8 4 ; ov 0 4 4 ; ov 0 2 4 ; ov 0 6 8 ; remove 0 4 4 ; ov 0 2 8 ; mk 0 4 4 ; all 0",
    # several sizes at one offset: the largest decides for the symbolic query
    "cells ; mk 0 4 1 ; mk 0 4 8 ; mk 0 4 4 ; sym 0 10 10 1 ; sym 0 5 5 1 ; remove 0 4 8 ; sym 0 10 10 1 ; sym 0 4 4 1",
    # join / meet / leq of offset maps
    "cells ; mk 0 0 4 ; mk 0 4 4 ; mk 1 4 4 ; mk 1 4 8 ; mk 1 8 4 ; leq 0 1 ; leq 1 0 ; join 0 0 1 ; leq 1 0 ; clear 1 ; mk 1 4 2 ; meet 0 0 1 ; leq 0 1",
    # can_be_smashed and the coverage test
    "cells ; smash 0 4 1 ; mk 0 4 4 ; mk 0 12 4 ; smash 0 4 1 ; smash 0 4 0 ; mk 0 0 4 ; smash 0 4 0 ; mk 0 6 4 ; smash 0 4 1 ; smash 0 2 1",
    "cells ; mk 0 4 4 ; mk 0 8 4 ; cover 0 4 8 4 ; cover 0 4 12 4 ; cover 0 0 8 4 ; cover 0 5 7 4 ; cover 0 -oo 8 4 ; cover 0 -4 8 4 ; cover 0 6 8 4",
    # decisions: constant index with/without room, symbolic index smash / kill, smashed arrays
    "cells ; mk 0 0 4 ; mk 0 4 4 ; dstore 0 1 1 64 64 0 0 4 4 4 ; dstore 0 1 1 64 64 0 0 8 8 4 ; dstore 0 1 1 64 64 0 0 0 4 4 ; dstore 0 0 0 64 64 0 0 0 4 4 ; dstore 0 1 1 1 2 0 0 8 8 4 ; dstore 0 1 1 2 2 0 0 8 8 4",
    "cells ; mk 0 4 4 ; mk 0 8 4 ; dstore 0 1 0 64 64 0 0 0 8 4 ; dstore 0 1 1 64 64 0 0 0 8 4 ; dstore 0 1 1 64 64 1 4 0 8 4 ; dstore 0 1 1 64 64 1 8 0 8 4 ; dstore 0 1 1 64 64 1 T 0 8 4",
    "cells ; mk 0 4 4 ; mk 0 8 4 ; dload 0 1 1 64 64 0 0 4 8 4 ; dload 0 1 1 64 64 0 0 0 8 4 ; dload 0 1 1 64 64 0 0 12 12 4 ; dload 0 1 1 64 64 0 0 6 6 4 ; dload 0 0 0 64 64 0 0 4 8 4 ; dload 0 1 1 64 64 1 4 4 8 4",
    # join of array states: one side smashed
    "cells ; mk 0 0 4 ; mk 0 4 4 ; asjoin 1 64 64 0 0 1 4 2 0 ; asjoin 1 64 64 0 0 1 4 1 0 ; asjoin 1 1 64 0 0 1 4 2 0 ; asjoin 1 64 64 0 0 1 T 2 0 ; asjoin 1 64 64 0 0 0 0 2 0 ; asjoin 1 64 64 1 4 1 8 0 0",
    "cells ; mk 0 4 4 ; mk 1 0 4 ; asjoin 0 64 64 0 0 1 4 1 0 ; asjoin 1 64 64 0 0 1 4 1 0 ; asjoin 1 64 64 1 4 0 0 0 1 ; asmeet 1 64 64 0 0 0 0 1 1 ; asmeet 1 64 64 1 4 1 4 0 0",
    "cells ; mk 0 4 4 ; asmeet 1 64 64 1 4 0 0 0 0",
]


def gen_cells_line(rng):
    uni = rng.random() < 0.6
    sz0 = rng.choice([1, 2, 4, 8])
    offs = [sz0 * i for i in range(8)] if uni else list(range(0, 24))
    szs = [sz0] if uni else [1, 2, 4, 8, 16]
    ops = []
    made = [[], []]
    dirty = [False, False]     # a cell of the map has been marked as removed

    def cellspec():
        return rng.choice(offs), rng.choice(szs)

    def ivl():
        x = rng.random()
        if x < 0.1:
            return "-oo", "+oo"
        lo = max(0, rng.choice(offs + [0, 0]) + rng.choice([0, 0, 0, 1, -1]) * (0 if uni else 1))
        hi = lo + rng.choice([0, 0, sz0, 2 * sz0, 3, 7, 16])
        if x < 0.15:
            return "-oo", str(hi)
        if x < 0.2:
            return str(lo), "+oo"
        return str(lo), str(hi)

    def prm():
        m = rng.choice([1, 2, 3, 4, 64])
        c = rng.choice([x for x in [1, 2, 3, 4, 64] if x <= m])
        return "%d %d %d %d" % (rng.randint(0, 1), rng.randint(0, 1), c, m)

    for _ in range(rng.randint(4, 18)):
        w = rng.randrange(2)
        pick = rng.choices(["mk", "remove", "erase", "ov", "sym", "covl", "csym", "join", "meet", "leq", "smash",
                            "cover", "dstore", "dload", "asjoin", "all", "ncells"],
                           [10, 3, 2, 6, 5, 2, 2, 2, 1.5, 2, 3, 3, 6, 5, 3, 1, 1])[0]
        if pick == "mk":
            o, z = cellspec(); made[w].append((o, z))
            ops.append("mk %d %d %d" % (w, o, z))
        elif pick in ("remove", "erase"):
            o, z = rng.choice(made[w]) if made[w] and rng.random() < 0.8 else cellspec()
            ops.append("%s %d %d %d" % (pick, w, o, z))
            if pick == "remove":
                dirty[w] = True
        elif pick == "ov":
            o, z = rng.choice(made[w]) if made[w] and rng.random() < 0.4 else cellspec()
            ops.append("ov %d %d %d" % (w, o, z))
        elif pick == "sym":
            lo, hi = ivl()
            ops.append("sym %d %s %s %d" % (w, lo, hi, rng.choice(szs)))
        elif pick == "covl":
            o, z = cellspec(); o2, z2 = cellspec()
            ops.append("covl %d %d %d %d %d" % (o, z, rng.randint(0, 1), o2, z2))
        elif pick == "csym":
            o, z = cellspec(); lo, hi = ivl()
            ops.append("csym %d %d %d %s %s %d" % (o, z, int(rng.random() < 0.2), lo, hi, rng.choice(szs)))
        elif pick in ("join", "meet"):
            # which removed flag survives when the two sides disagree depends on the sharing
            # optimisation of patricia merge: not modelled, not generated
            if dirty[0] or dirty[1]:
                continue
            ops.append("%s %d %d %d" % (pick, w, rng.randrange(2), rng.randrange(2)))
            made[w] = made[0] + made[1]
        elif pick == "leq":
            ops.append("leq %d %d" % (rng.randrange(2), rng.randrange(2)))
        elif pick == "smash":
            ops.append("smash %d %d %d" % (w, rng.choice(szs), rng.randint(0, 1)))
        elif pick == "cover":
            lo, hi = ivl()
            ops.append("cover %d %s %s %d" % (w, lo, hi, rng.choice(szs)))
        elif pick in ("dstore", "dload"):
            lo, hi = ivl()
            sm = int(rng.random() < 0.2)
            es = rng.choice([str(sz0), str(sz0), "T", "8"]) if sm else "0"
            ops.append("%s %d %s %d %s %s %s %d" % (pick, w, prm(), sm, es, lo, hi, rng.choice(szs)))
        elif pick == "asjoin":
            if dirty[0] or dirty[1]:
                continue
            sx, sy = rng.choice([(0, 1), (1, 0), (0, 0), (1, 1)])
            ex = rng.choice([str(sz0), "T", "8"]) if sx else "0"
            ey = rng.choice([str(sz0), "T", "8"]) if sy else "0"
            m = rng.choice([1, 2, 4, 64]); c = rng.choice([x for x in [1, 2, 4, 64] if x <= m])
            ops.append("asjoin %d %d %d %d %s %d %s %d %d" % (rng.randint(0, 1), c, m, sx, ex, sy, ey,
                                                             rng.choice([0, 1, 2, 99]), rng.choice([0, 1, 2, 99])))
        elif pick in ("all", "ncells"):
            ops.append("%s %d" % (pick, w))
    if rng.random() < 0.12 and not (dirty[0] or dirty[1]):
        # meet of array states (last: it stops with CRAB_ERROR when the element sizes are incompatible)
        sx, sy = rng.choice([(0, 1), (1, 0), (0, 0), (1, 1)])
        ex = rng.choice([str(sz0), "T", "8"]) if sx else "0"
        ey = rng.choice([str(sz0), "T", "8"]) if sy else "0"
        ops.append("asmeet %d %d %d %d %s %d %s %d %d" % (rng.randint(0, 1), 64, 64, sx, ex, sy, ey,
                                                         rng.choice([0, 1, 99]), rng.choice([0, 1, 99])))
    return "cells ; " + " ; ".join(ops)


def gen_cells(seed, tier, n=None):
    rng = random.Random(seed + 77)
    n = n if n is not None else (600 if tier == "quick" else 30000)
    return list(CELLS_CORPUS) + [gen_cells_line(rng) for _ in range(n)]


def cells_nontrivial(line, ans):
    """rule: some query of the line returned a non-empty cell set or a decision changed the shape"""
    return bool(re.search(r"\{\d", ans))


def full_init(line):
    """the same history with every array initialised in every register first (cells
    0 .. 15*sz, or the single cell of a one-cell array) and without `top`: every defined
    cell is then tracked by the adaptive domain unless it loses it itself"""
    ops = line.split(" ; ")
    nregs, ns, na, esz, one = header(line)
    pre = []
    for r in range(nregs):
        for a in range(na):
            lo, hi = (0, 15 * esz[a]) if one[a] is None else (one[a], one[a])
            pre.append("ainit %d %d %s %s %s %s" % (r, a, E([], esz[a]), E([], lo), E([], hi), E([], 0)))
    body = [o for o in ops[1:] if not o.startswith("top ")]
    return " ; ".join([ops[0]] + pre + body)


# ------------------------------------------------------------------ arrays of booleans (oracle only)
# History language "abhist" / "abshape" of harness/arrays.cpp (modes smash-bool, adapt-bool:S:N:C:M).
# Concrete semantics: as above with cells that hold booleans; every array has element size 1.
# The model driver (ocaml/arrays_drv.ml) does not know this language: these lines go to the
# C++ harness only.

BPOOL = [0, 1, 2, 3, 4, 5, 6, 7, 8, 9, 10, 11, 12, 0, 1, 2, 3, -1, 100]
BMAXS = 48
SZ1 = "E 0 1"


def bconst(v):
    return "E 0 %d" % (1 if v else 0)


def gen_bool_history(rng, opts=None):
    """header: abhist <nregs> <nints> <nbools> <narrays> one=<offset|->,..   (one-cell arrays take strong updates)"""
    opts = opts or {}
    nregs = rng.randint(2, 3)
    ni = rng.randint(2, 3)
    nb = rng.randint(2, 4)
    na = rng.randint(1, 2)
    ncells = rng.choice([2, 3, 4, 6, 10])
    one = [None] * na
    for a in range(na):
        if rng.random() < 0.25:
            one[a] = rng.choice([0, 0, 1, 3])
    ops = []

    def bval(r):
        """(prefix ops, value token): a constant, or a boolean variable (often one that holds a known value)"""
        x = rng.random()
        if x < 0.45:
            return [], bconst(rng.random() < 0.5)
        b = rng.randrange(nb)
        if x < 0.6:
            return ["bset %d %d %d" % (r, b, rng.randint(0, 1))], "B %d" % b
        if x < 0.8:
            # b := (v <= k) with v a known constant: b holds a known value
            v = rng.randrange(ni); c0 = rng.randrange(8); k = rng.randrange(8)
            return ["assign %d %d %s" % (r, v, E([], c0)),
                    "bassign %d %d C le %s" % (r, b, E([(1, v)], -k))], "B %d" % b
        if x < 0.86:
            b2 = rng.randrange(nb)
            return ["bcopy %d %d %d %d" % (r, b, b2, rng.randint(0, 1))], "B %d" % b
        if x < 0.94:
            # b := (v <= k) with v in a range around k: b is unknown and tied to v (assume_bool on a
            # variable loaded from the array then refines v)
            v = rng.randrange(ni); lo = rng.randrange(4); hi = lo + rng.randint(1, 6); k = rng.randint(lo, hi)
            return ["forget %d 1 %d" % (r, v), "assume %d 2 %s" % (r, cst_bounds(v, lo, hi)),
                    "bassign %d %d C le %s" % (r, b, E([(1, v)], -k))], "B %d" % b
        return [], "B %d" % b              # whatever the register knows about b

    def idx(r, a, wide=False):
        """(prefix ops, index expression)"""
        if one[a] is not None:
            if rng.random() < 0.3:
                v = rng.randrange(ni)
                return ["assign %d %d %s" % (r, v, E([], one[a]))], E([(1, v)], 0)
            return [], E([], one[a])
        x = rng.random()
        if x < 0.5:
            return [], E([], rng.randrange(ncells + (3 if wide else 0)))
        v = rng.randrange(ni)
        if x < 0.85:
            lo = rng.randrange(ncells); hi = lo + rng.randrange(ncells)
            if rng.random() < 0.4:
                lo, hi = 0, ncells - 1
            pre = ["forget %d 1 %d" % (r, v), "assume %d 2 %s" % (r, cst_bounds(v, lo, hi))]
            return pre, E([(1, v)], rng.choice([0, 0, 0, 1]))
        if x < 0.93:
            return [], E([(1, v)], 0)
        return ["assign %d %d %s" % (r, v, E([], rng.randrange(ncells)))], E([(1, v)], 0)

    def init(r, a, val=None):
        lo, hi = (0, ncells - 1 + rng.randrange(3)) if one[a] is None else (one[a], one[a])
        pre, v = ([], bconst(val)) if val is not None else bval(r)
        return pre + ["ainit %d %d %s %s %s %s" % (r, a, SZ1, E([], lo), E([], hi), v)]

    def load(r, a, wide=True, assume=0.5):
        pre, ix = idx(r, a, wide)
        x = rng.randrange(nb)
        o = pre + ["aload %d %d %d %s %s" % (r, x, a, SZ1, ix)]
        if rng.random() < assume:
            o.append("bassume %d %d %d" % (r, x, rng.randint(0, 1)))
        return o

    def store(r, a, val=None, strong=None):
        pre, ix = idx(r, a)
        pv, v = ([], bconst(val)) if val is not None else bval(r)
        if strong is None:
            strong = 1 if (one[a] is not None and rng.random() < 0.6) else 0
        return pre + pv + ["astore %d %d %s %s %s %d" % (r, a, SZ1, ix, v, strong)]

    # prologue aimed at one of the case splits of the boolean branches
    a = rng.randrange(na)
    shape = rng.choices(["none", "init", "weak-after-init", "strong-weak", "var", "range", "join", "cells"],
                        [1, 2, 3, 2, 2, 2, 3, 5])[0]
    if shape == "init":
        for a2 in range(na):
            if rng.random() < 0.8:
                ops += init(0, a2)
        for r in range(1, nregs):
            if rng.random() < 0.7:
                ops.append("copy %d 0" % r)
    elif shape == "weak-after-init":
        c0 = rng.random() < 0.5
        ops += init(0, a, c0)
        for _ in range(rng.randint(1, 2)):
            ops += store(0, a, (not c0) if rng.random() < 0.8 else None, 0)
        ops += load(0, a, False)
    elif shape == "strong-weak":
        c0 = rng.random() < 0.5
        if one[a] is None:
            one[a] = rng.choice([0, 0, 2])
        ops += store(0, a, c0 if rng.random() < 0.7 else None, 1)
        ops += store(0, a, (not c0) if rng.random() < 0.7 else None, 0)
        ops += load(0, a)
    elif shape == "var":
        if rng.random() < 0.6:
            ops += init(0, a)
        b = rng.randrange(nb); v = rng.randrange(ni); c0 = rng.randrange(6); k = rng.randrange(6)
        ops += ["assign 0 %d %s" % (v, E([], c0)), "bassign 0 %d C le %s" % (b, E([(1, v)], -k))]
        pre, ix = idx(0, a)
        if "%d " % v in " ".join(pre):
            pre = []; ix = E([], 0 if one[a] is None else one[a])
        ops += pre + ["astore 0 %d %s %s B %d %d" % (a, SZ1, ix, b, 1 if one[a] is not None and rng.random() < 0.5 else 0)]
        ops += load(0, a)
    elif shape == "range" and one[a] is None:
        if rng.random() < 0.6:
            ops += init(0, a)
        lb = rng.randrange(ncells); ub = lb + rng.randrange(ncells + 2)
        pre, v = bval(0)
        ops += pre + ["arange 0 %d %s %s %s %s" % (a, SZ1, E([], lb), E([], ub), v)]
        for _ in range(rng.randint(1, 3)):
            ops += load(0, a)
    elif shape == "join":
        c0 = rng.random() < 0.5
        ops += init(0, a, c0)
        ops += init(1, a, (not c0) if rng.random() < 0.7 else c0)
        for r in (0, 1):
            if rng.random() < 0.5:
                ops += store(r, a)
        t = rng.randrange(nregs)
        ops.append("%s %d 0 1" % (rng.choice(["join", "join", "joinw", "widen"]), t))
        ops += load(t, a)
    elif shape == "cells" and one[a] is None:
        # constant-index stores (the adaptive domain keeps one cell each, up to max_array_size), then a
        # store at a symbolic index (smash or kill), then loads
        if rng.random() < 0.35:
            ops += init(0, a)
        offs = list(range(ncells)) if rng.random() < 0.6 else [rng.randrange(ncells) for _ in range(rng.randint(1, 5))]
        vlast = None
        for o in offs[:6]:
            if rng.random() < 0.7:
                vlast = rng.random() < 0.5
                pv, v = [], bconst(vlast)
            else:
                pv, v = bval(0)
            ops += pv + ["astore 0 %d %s %s %s 0" % (a, SZ1, E([], o), v)]
        if rng.random() < 0.85:
            w = rng.randrange(ni); lo = rng.randrange(ncells); hi = lo + rng.randrange(ncells)
            # often the constant that the last cell holds: the summary is then not top
            pv, v = ([], bconst(vlast)) if (vlast is not None and rng.random() < 0.5) else bval(0)
            ops += ["forget 0 1 %d" % w, "assume 0 2 %s" % cst_bounds(w, lo, hi)] + pv
            ops.append("astore 0 %d %s %s %s 0" % (a, SZ1, E([(1, w)], 0), v))
        for _ in range(rng.randint(1, 3)):
            ops += load(0, a)

    for _ in range(rng.randint(opts.get("minops", 3), opts.get("maxops", 18))):
        r = rng.randrange(nregs)
        a = rng.randrange(na)
        pick = rng.choices(
            ["ainit", "aload", "astore", "arange", "acopy", "assign", "arith", "assume", "forget",
             "bset", "bassign", "bcopy", "bassume", "join", "widen", "copy", "top", "bot", "q_leq", "widenthr", "joinw"],
            [5, 14, 14, 5, 3, 3, 2, 3, 2,
             2, 3, 2, 5, 6, 3, 5, 0.5, 0.3, 0.5, 1, 2])[0]
        if pick == "ainit":
            ops += init(r, a)
        elif pick == "aload":
            ops += load(r, a)
        elif pick == "astore":
            ops += store(r, a)
        elif pick == "arange":
            if one[a] is not None:
                continue
            lb = rng.randrange(ncells)
            pv, v = bval(r)
            if rng.random() < 0.65:
                ops += pv + ["arange %d %d %s %s %s %s" % (r, a, SZ1, E([], lb), E([], lb + rng.randrange(ncells + 2)), v)]
            else:
                pre, ub = idx(r, a)
                lbe = E([], 0) if rng.random() < 0.7 else ub
                ops += pre + pv + ["arange %d %d %s %s %s %s" % (r, a, SZ1, lbe, ub, v)]
        elif pick == "acopy":
            b = rng.randrange(na)
            if one[a] != one[b]:
                continue
            ops.append("acopy %d %d %d" % (r, a, b))
        elif pick == "assign":
            ops.append("assign %d %d %s" % (r, rng.randrange(ni), E([], rng.randrange(ncells + 2))))
        elif pick == "arith":
            ops.append("arith %d %s %d %d k %d" % (r, rng.choice(["add", "sub"]), rng.randrange(ni), rng.randrange(ni), rng.choice([1, 1, 2])))
        elif pick == "assume":
            v = rng.randrange(ni)
            lo = rng.choice([0, 0, 1, 4]); hi = lo + rng.choice([0, 1, 4, 8])
            ops.append("assume %d 2 %s" % (r, cst_bounds(v, lo, hi)))
        elif pick == "forget":
            if rng.random() < 0.3:
                ops.append("forget1 %d %d" % (r, rng.randrange(ni + nb + na)))
            else:
                vs = rng.sample(range(ni + nb + na), rng.randint(1, 2))
                ops.append("forget %d %d %s" % (r, len(vs), " ".join(map(str, vs))))
        elif pick == "bset":
            ops.append("bset %d %d %d" % (r, rng.randrange(nb), rng.randint(0, 1)))
        elif pick == "bassign":
            v = rng.randrange(ni)
            kind = rng.choice(["le", "le", "lt", "eq", "ne"])
            ops.append("bassign %d %d C %s %s" % (r, rng.randrange(nb), kind, E([(rng.choice([1, 1, -1]), v)], rng.choice([0, -1, -3, -5, 3]))))
        elif pick == "bcopy":
            ops.append("bcopy %d %d %d %d" % (r, rng.randrange(nb), rng.randrange(nb), rng.randint(0, 1)))
        elif pick == "bassume":
            ops.append("bassume %d %d %d" % (r, rng.randrange(nb), rng.randint(0, 1)))
        elif pick in ("join", "widen", "joinw"):
            ops.append("%s %d %d %d" % (pick, r, rng.randrange(nregs), rng.randrange(nregs)))
        elif pick == "widenthr":
            n = rng.randint(0, 2)
            ops.append("widenthr %d %d %d %d %s" % (r, rng.randrange(nregs), rng.randrange(nregs), n,
                                                    " ".join(str(rng.choice([0, 5, 10])) for _ in range(n))))
        elif pick == "copy":
            ops.append("copy %d %d" % (r, rng.randrange(nregs)))
        elif pick in ("top", "bot"):
            ops.append("%s %d" % (pick, r))
        elif pick == "q_leq":
            ops.append("q_leq %d %d" % (rng.randrange(nregs), rng.randrange(nregs)))
    meta = "one=%s" % ",".join("-" if x is None else str(x) for x in one)
    return "%s %d %d %d %d %s ; %s" % (opts.get("head", "abhist"), nregs, ni, nb, na, meta, " ; ".join(ops))


def gen_bool_loop_history(rng, opts=None):
    """a loop analysed with widening (tests/domains/array_smashing.cc prog4b): register 0 = head, 1 = body,
    2 = exit; the body stores a constant / a variable at the induction variable v0"""
    opts = opts or {}
    na = rng.randint(1, 2)
    n = rng.randint(2, 6)
    ops = ["assign 0 0 %s" % E([], 0), "bset 0 0 %d" % rng.randint(0, 1), "bset 0 1 %d" % rng.randint(0, 1)]
    for a in range(na):
        if rng.random() < 0.75:
            v = bconst(rng.random() < 0.5) if rng.random() < 0.5 else "B %d" % rng.randint(0, 1)
            ops.append("ainit 0 %d %s %s %s %s" % (a, SZ1, E([], 0), E([], n - 1 + rng.randrange(2)), v))
    for it in range(rng.randint(2, 4)):
        ops.append("copy 1 0")
        ops.append("assume 1 1 C le E 1 1 0 %d" % (-(n - 1)))
        for _ in range(rng.randint(1, 3)):
            a = rng.randrange(na)
            x = rng.random()
            if x < 0.5:
                v = bconst(rng.random() < 0.5) if rng.random() < 0.5 else "B %d" % rng.randint(0, 1)
                ops.append("astore 1 %d %s %s %s 0" % (a, SZ1, E([(1, 0)], 0), v))
            elif x < 0.8:
                ops.append("aload 1 %d %d %s %s" % (rng.choice([2, 3]), a, SZ1, E([(1, 0)], 0)))
            elif x < 0.9:
                ops.append("astore 1 %d %s %s %s 0" % (a, SZ1, E([], rng.randrange(n)), bconst(rng.random() < 0.5)))
            else:
                ops.append("bassign 1 %d C le %s" % (rng.randint(0, 1), E([(1, 0)], -rng.randrange(n))))
        ops.append("arith 1 add 0 0 k 1")
        ops.append("%s 0 0 1" % ("join" if it == 0 else rng.choice(["widen", "widen", "join", "widenthr"])))
        if ops[-1].startswith("widenthr"):
            ops[-1] += " 2 %d %d" % (n, n + 1)
    ops.append("copy 2 0")
    ops.append("assume 2 1 C le E 1 -1 0 %d" % (n - 1))
    for a in range(na):
        ix = E([], rng.randrange(n)) if rng.random() < 0.6 else E([(1, 0)], -1)
        x = rng.choice([2, 3])
        ops.append("aload 2 %d %d %s %s" % (x, a, SZ1, ix))
        if rng.random() < 0.5:
            ops.append("bassume 2 %d %d" % (x, rng.randint(0, 1)))
    return "%s 3 2 4 %d one=%s ; %s" % (opts.get("head", "abhist"), na, ",".join(["-"] * na), " ; ".join(ops))


# hand-picked boolean-array histories, one per case split of the boolean branches
BOOL_CORPUS = [
    # init true on [0,9]; weak store of the constant false at i in [0,9]; the other cells still hold true
    "abhist 1 2 2 1 one=- ; ainit 0 0 E 0 1 E 0 0 E 0 9 E 0 1 ; assume 0 2 C le E 1 -1 0 0 C le E 1 1 0 -9 ; astore 0 0 E 0 1 E 1 1 0 0 E 0 0 0 ; assume 0 2 C le E 1 -1 1 0 C le E 1 1 1 -9 ; aload 0 0 0 E 0 1 E 1 1 1 0 ; bassume 0 0 0",
    # the same with init false / weak store true, and the negated assume
    "abhist 1 2 2 1 one=- ; ainit 0 0 E 0 1 E 0 0 E 0 9 E 0 0 ; assume 0 2 C le E 1 -1 0 0 C le E 1 1 0 -9 ; astore 0 0 E 0 1 E 1 1 0 0 E 0 1 0 ; assume 0 2 C le E 1 -1 1 0 C le E 1 1 1 -9 ; aload 0 0 0 E 0 1 E 1 1 1 0 ; bassume 0 0 1",
    # init by a variable, weak store of a variable holding the other value
    "abhist 1 2 3 1 one=- ; bset 0 0 1 ; bset 0 1 0 ; ainit 0 0 E 0 1 E 0 0 E 0 9 B 0 ; assume 0 2 C le E 1 -1 0 0 C le E 1 1 0 -9 ; astore 0 0 E 0 1 E 1 1 0 0 B 1 0 ; aload 0 2 0 E 0 1 E 0 3 ; bassume 0 2 0",
    # one-cell array: strong store, weak store of the other constant, load
    "abhist 1 2 2 1 one=0 ; astore 0 0 E 0 1 E 0 0 E 0 1 1 ; aload 0 0 0 E 0 1 E 0 0 ; astore 0 0 E 0 1 E 0 0 E 0 0 0 ; aload 0 1 0 E 0 1 E 0 0 ; bassume 0 1 0",
    # strong store of a variable that holds (v0 <= 3) with v0 = 2, then v0 changes
    "abhist 1 2 2 1 one=0 ; assign 0 0 E 0 2 ; bassign 0 0 C le E 1 1 0 -3 ; astore 0 0 E 0 1 E 0 0 B 0 1 ; assign 0 0 E 0 7 ; aload 0 1 0 E 0 1 E 0 0 ; bassume 0 1 0",
    # b0 := (v0 <= 3) with v0 in [0,9] is stored (weak) over cells that hold true; assuming the loaded value false says nothing on v0
    "abhist 1 2 2 1 one=- ; ainit 0 0 E 0 1 E 0 0 E 0 3 E 0 1 ; assume 0 2 C le E 1 -1 0 0 C le E 1 1 0 -9 ; bassign 0 0 C le E 1 1 0 -3 ; astore 0 0 E 0 1 E 0 1 B 0 0 ; aload 0 1 0 E 0 1 E 0 2 ; bassume 0 1 0 ; aload 0 1 0 E 0 1 E 0 1 ; bassume 0 1 1",
    # all cells hold b0 = (v0 <= 3): assuming a loaded cell refines v0; after v0 changes it does not
    "abhist 2 2 2 1 one=- ; assume 0 2 C le E 1 -1 0 0 C le E 1 1 0 -9 ; bassign 0 0 C le E 1 1 0 -3 ; ainit 0 0 E 0 1 E 0 0 E 0 3 B 0 ; copy 1 0 ; aload 0 1 0 E 0 1 E 0 2 ; bassume 0 1 0 ; arith 1 add 0 0 k 5 ; aload 1 1 0 E 0 1 E 0 2 ; bassume 1 1 0",
    # range store of a constant over a part of an initialised array; loads inside / outside
    "abhist 1 2 3 1 one=- ; ainit 0 0 E 0 1 E 0 0 E 0 9 E 0 1 ; arange 0 0 E 0 1 E 0 2 E 0 5 E 0 0 ; aload 0 0 0 E 0 1 E 0 3 ; aload 0 1 0 E 0 1 E 0 7 ; bassume 0 1 0 ; bassume 0 0 1",
    # join of registers whose arrays hold different constants
    "abhist 3 2 2 1 one=- ; ainit 0 0 E 0 1 E 0 0 E 0 3 E 0 1 ; ainit 1 0 E 0 1 E 0 0 E 0 3 E 0 0 ; join 2 0 1 ; aload 2 0 0 E 0 1 E 0 1 ; bassume 2 0 0",
    # constant-index stores, then a store at a symbolic index (adaptive: smash), loads of old cells
    "abhist 1 2 3 1 one=- ; astore 0 0 E 0 1 E 0 0 E 0 1 0 ; astore 0 0 E 0 1 E 0 1 E 0 1 0 ; astore 0 0 E 0 1 E 0 2 E 0 1 0 ; assume 0 2 C le E 1 -1 0 0 C le E 1 1 0 -2 ; astore 0 0 E 0 1 E 1 1 0 0 E 0 0 0 ; aload 0 0 0 E 0 1 E 0 1 ; bassume 0 0 0 ; aload 0 1 0 E 0 1 E 1 1 0 0 ; bassume 0 1 1",
    # cells with different contents, then a store at a symbolic index of the constant that the last cell holds
    # (adaptive: the smashed array must keep the value of the first cell)
    "abhist 1 2 3 1 one=- ; astore 0 0 E 0 1 E 0 0 E 0 1 0 ; astore 0 0 E 0 1 E 0 1 E 0 0 0 ; astore 0 0 E 0 1 E 0 2 E 0 0 0 ; assume 0 2 C le E 1 -1 0 0 C le E 1 1 0 -2 ; astore 0 0 E 0 1 E 1 1 0 0 E 0 0 0 ; aload 0 0 0 E 0 1 E 0 0 ; bassume 0 0 0",
    "abhist 1 2 3 1 one=- ; bset 0 2 1 ; astore 0 0 E 0 1 E 0 0 E 0 0 0 ; astore 0 0 E 0 1 E 0 1 B 2 0 ; assume 0 2 C le E 1 -1 0 0 C le E 1 1 0 -1 ; astore 0 0 E 0 1 E 1 1 0 0 B 2 0 ; aload 0 0 0 E 0 1 E 0 0 ; bassume 0 0 1",
    # symbolic load over cells with different contents (adaptive: temporary smashed array)
    "abhist 1 2 3 1 one=- ; astore 0 0 E 0 1 E 0 0 E 0 1 0 ; astore 0 0 E 0 1 E 0 1 E 0 0 0 ; assume 0 2 C le E 1 -1 0 0 C le E 1 1 0 -1 ; aload 0 0 0 E 0 1 E 1 1 0 0 ; bassume 0 0 1",
    # copy of an array, then a weak store into the copy
    "abhist 1 2 3 2 one=-,- ; ainit 0 0 E 0 1 E 0 0 E 0 3 E 0 1 ; acopy 0 1 0 ; astore 0 1 E 0 1 E 0 2 E 0 0 0 ; aload 0 0 1 E 0 1 E 0 1 ; aload 0 1 0 E 0 1 E 0 2 ; bassume 0 0 0",
    # the known finding of the adaptive domain with boolean cells: a cell that the state does not track
    "abhist 2 2 2 1 one=- ; astore 0 0 E 0 1 E 0 2 E 0 1 0 ; join 1 0 1 ; astore 1 0 E 0 1 E 0 0 E 0 0 0 ; assume 1 2 C le E 1 -1 0 0 C le E 1 1 0 -1 ; astore 1 0 E 0 1 E 1 1 0 0 E 0 0 0 ; aload 1 1 0 E 0 1 E 0 2",
]


def gen_bool(seed, tier, n=None, opts=None):
    rng = random.Random(seed)
    n = n if n is not None else (300 if tier == "quick" else 5000)
    lines = list(BOOL_CORPUS) if (opts or {}).get("corpus", True) else []
    for _ in range(n):
        lines.append(gen_bool_loop_history(rng, opts) if rng.random() < 0.12 else gen_bool_history(rng, opts))
    if opts and opts.get("head"):
        lines = [l.replace("abhist", opts["head"], 1) if l.startswith("abhist") else l for l in lines]
    return lines


def bool_header(line):
    h = line.split(" ; ", 1)[0].split()
    nregs, ni, nb, na = int(h[1]), int(h[2]), int(h[3]), int(h[4])
    one = [None] * na
    for x in h[5:]:
        if x.startswith("one="):
            one = [None if y == "-" else int(y) for y in x[4:].split(",")]
    return nregs, ni, nb, na, one


def p_bval(k):
    """value of a store: ('k', bool) or ('b', index)"""
    if k.t[k.p] == "B":
        k.next()
        return ("b", k.nexti())
    e = p_exp(k)
    return ("k", e[1] >= 1)


def parse_bool_state(a):
    a = a.split(" # ")[0].strip()
    if a == "_|_":
        return "bot"
    if a.startswith("T"):
        a = a[1:]
    its, _, bs = a.partition(" / ")
    return [parse_itv(x) for x in its.split("|")], [x.strip() for x in bs.split("|")] if bs.strip() else []


BNAME = {"t": "true", "f": "false", "T": "top", "B": "bottom"}
# how much the oracle saw: loads replayed, loads after which some concrete state was left to compare with,
# among those the loads whose abstract result was true or false (so that a wrong value is visible)
BSTATS = {"loads": 0, "loads_checked": 0, "loads_checked_definite": 0}


def oracle_bool(line, ans, rng=None):
    """replays the history on sampled concrete states (integers, booleans, arrays of booleans): every
    printed at(v) and every printed boolean value must admit the value of the variable in every state
    reached by the same operations; a register with a reached state must not be bottom.  The message
    ends with the concrete execution that reaches the state (one state per operation that it went through)"""
    if ans in ("ABORT", "MISSING") or ans.startswith("HARNESS-ERROR") or ans.startswith("ABORT"):
        return None
    ops = [o.split() for o in line.split(" ; ")]
    nregs, ni, nb, na, one = bool_header(line)
    answers = ans.split(" ; ")
    r0 = random.Random(zlib.crc32(line.encode()))

    def rand_state():
        return (tuple(r0.choice(BPOOL) for _ in range(ni)), tuple(r0.random() < 0.5 for _ in range(nb)),
                tuple(() for _ in range(na)))

    top_samples = list(dict.fromkeys(rand_state() for _ in range(BMAXS)))
    regs = [list(top_samples) for _ in range(nregs)]
    last = [0] * nregs          # the step that wrote the register last
    prov = {}                   # (step, state) -> (step, state) it came from
    ai = 0

    def upd(t, x, v):
        l = list(t); l[x] = v
        return tuple(l)

    def okidx(a, i, sz):
        return i >= 0 and sz == 1 and (one[a] is None or i == one[a])

    def val(v, b):
        return v[1] if v[0] == "k" else b[v[1]]

    def havoc(st, vs):
        s, b, m = st
        for v in vs:
            if v < ni:
                s = upd(s, v, r0.choice(BPOOL))
            elif v < ni + nb:
                b = upd(b, v - ni, r0.random() < 0.5)
            else:
                m = upd(m, v - ni - nb, ())
        return (s, b, m)

    def path_of(step, st):
        path = []
        key = (step, st)
        while key is not None:
            path.append(key)
            key = prov.get(key)
        path.reverse()
        return path

    def untracked(step, st, a, i, v):
        """adaptive modes (shapes are printed): the cell A[i] held v along the execution since some step after
        which the abstract value neither has a cell for it nor has smashed the array: the domain has lost the
        cell (join with a value that does not track it, forget, max_array_size, killed by a symbolic store)"""
        for stp, x in reversed(path_of(step, st)[:-1]):
            if aget(x[2][a], i) != v or stp == 0:
                break
            t = answers[stp - 1]
            if " # " not in t:
                continue
            mm = re.search(r"A%d=(\S+)" % a, t.split(" # ", 1)[1])
            if not mm or mm.group(1).startswith("S"):
                continue
            if ("%d:1" % i) not in mm.group(1).strip("{}").split(","):
                return " [untracked: A%d[%d] = %s is a defined cell that the value after step %d does not track: A%d=%s]" % (
                    a, i, "true" if v else "false", stp, a, mm.group(1))
        return ""

    def execution(step, st):
        path = path_of(step, st)
        return " -> ".join("[%s] %s" % ("start" if i == 0 else "%d: %s" % (i, " ".join(ops[i])), show_bool(x)) for i, x in path)

    for idx, o in enumerate(ops[1:], 1):
        if not o:
            continue
        if ai >= len(answers):
            return None
        a_txt = answers[ai]; ai += 1
        k = Tok(o)
        op = k.next()
        where = "step %d (%s) of: %s" % (idx, " ".join(o), line)
        if op == "q_leq":
            continue
        r = k.nexti()
        srcs = [r]              # registers the new states come from
        f = None                # successor states of one state
        if op == "top":
            srcs = []
        elif op == "bot":
            srcs = []
        elif op == "copy":
            srcs = [k.nexti()]
            f = lambda st: [st]
        elif op == "assign":
            x = k.nexti(); e = p_exp(k)
            f = lambda st: [(upd(st[0], x, ev(e, st[0])), st[1], st[2])]
        elif op == "arith":
            fn = k.next(); x = k.nexti(); y = k.nexti(); kind = k.next(); zz = k.nexti()

            def f(st):
                s = st[0]
                a1 = s[y]; b1 = s[zz] if kind == "v" else zz
                v = a1 + b1 if fn == "add" else a1 - b1 if fn == "sub" else (a1 * b1 if (a1.bit_length() + b1.bit_length() <= 4096) else None)
                return [] if v is None else [(upd(s, x, v), st[1], st[2])]
        elif op == "assume":
            n = k.nexti(); cs = [p_cst(k) for _ in range(n)]
            f = lambda st: [st] if all(holds(c, st[0]) for c in cs) else []
        elif op in ("forget", "forget1"):
            n = k.nexti() if op == "forget" else 1
            vs = [k.nexti() for _ in range(n)]
            f = lambda st: [havoc(st, vs) for _ in range(3)]
        elif op == "bset":
            x = k.nexti(); v = k.nexti() != 0
            f = lambda st: [(st[0], upd(st[1], x, v), st[2])]
        elif op == "bassign":
            x = k.nexti(); c = p_cst(k)
            f = lambda st: [(st[0], upd(st[1], x, holds(c, st[0])), st[2])]
        elif op == "bcopy":
            x = k.nexti(); y = k.nexti(); neg = k.nexti() != 0
            f = lambda st: [(st[0], upd(st[1], x, (not st[1][y]) if neg else st[1][y]), st[2])]
        elif op == "bassume":
            x = k.nexti(); neg = k.nexti() != 0
            f = lambda st: [st] if st[1][x] != neg else []
        elif op in ("ainit", "arange"):
            a = k.nexti(); es = p_exp(k); lb = p_exp(k); ub = p_exp(k); v = p_bval(k)

            def f(st):
                s, b, m = st
                l, u, sz = ev(lb, s), ev(ub, s), ev(es, s)
                if sz != 1 or u - l > 64 or (one[a] is not None and l < u):
                    return []
                if l <= u and not okidx(a, l, sz):
                    return []
                arr = () if op == "ainit" else m[a]
                for i in range(l, u + 1):
                    arr = aset(arr, i, val(v, b))
                return [(s, b, upd(m, a, arr))]
        elif op == "aload":
            x = k.nexti(); a = k.nexti(); es = p_exp(k); ix = p_exp(k)

            def f(st):
                s, b, m = st
                i = ev(ix, s)
                if not okidx(a, i, ev(es, s)) or aget(m[a], i) is None:
                    return []
                return [(s, upd(b, x, aget(m[a], i)), m)]
        elif op == "astore":
            a = k.nexti(); es = p_exp(k); ix = p_exp(k); v = p_bval(k); strong = k.nexti()

            def f(st):
                s, b, m = st
                i = ev(ix, s)
                if not okidx(a, i, ev(es, s)) or (strong and one[a] is None):
                    return []
                return [(s, b, upd(m, a, aset(m[a], i, val(v, b))))]
        elif op == "acopy":
            l = k.nexti(); rr = k.nexti()
            f = lambda st: [(st[0], st[1], upd(st[2], l, st[2][rr]))]
        elif op in ("join", "widen", "widenthr", "joinw"):
            srcs = [k.nexti(), k.nexti()]
            f = lambda st: [st]
        elif op in ("meet", "narrow"):
            s1, t1 = k.nexti(), k.nexti()
            other = set(regs[t1])
            srcs = [s1]
            f = lambda st: [st] if st in other else []
        else:
            return None
        new = {}
        if op == "top":
            for st in top_samples:
                new[st] = None
        for q in srcs:
            for st in regs[q]:
                for nst in f(st):
                    if nst not in new:
                        new[nst] = (last[q], st)
        S = list(new)
        if len(S) > BMAXS:
            S = r0.sample(S, BMAXS)
        for st in S:
            if new[st] is not None:
                prov[(idx, st)] = new[st]
        regs[r] = S
        last[r] = idx
        st = parse_bool_state(a_txt)
        if op == "aload":
            BSTATS["loads"] += 1
            if S:
                BSTATS["loads_checked"] += 1
                if st != "bot" and x < len(st[1]) and st[1][x] in ("t", "f"):
                    BSTATS["loads_checked_definite"] += 1
        if st == "bot":
            if regs[r]:
                return "%s: the value is bottom but state %s is reachable by the same concrete operations | concrete execution: %s" % (
                    where, show_bool(regs[r][0]), execution(idx, regs[r][0]))
            continue
        its, bs = st
        for cs in regs[r]:
            s, b, m = cs
            for v in range(min(ni, len(its))):
                if its[v] is not None and not in_itv(its[v], s[v]):
                    return "%s: at(v%d) = %s but the reachable state %s has v%d = %d | concrete execution: %s" % (
                        where, v, its[v], show_bool(cs), v, s[v], execution(idx, cs))
            for v in range(min(nb, len(bs))):
                if bs[v] == "T" or (bs[v] == "t" and b[v]) or (bs[v] == "f" and not b[v]):
                    continue
                note = untracked(idx, cs, a, ev(ix, s), b[v]) if (op == "aload" and v == x) else ""
                return "%s: at(b%d) = %s but the reachable state %s has b%d = %s%s | concrete execution: %s" % (
                    where, v, BNAME.get(bs[v], bs[v]), show_bool(cs), v, "true" if b[v] else "false", note, execution(idx, cs))
    return None


def show_bool(st):
    s, b, m = st
    return "ints=%s bools=%s arrays=%s" % (list(s), ["true" if x else "false" for x in b],
                                          [{o: ("true" if v else "false") for o, v in a} for a in m])


def nontrivial_bool(line, ans):
    """rule: at least one load returned true or false (neither top nor bottom)"""
    ops = [x for x in line.split(" ; ")[1:] if x.strip()]
    for o, a in zip(ops, ans.split(" ; ")):
        t = o.split()
        if t and t[0] == "aload":
            st = parse_bool_state(a)
            if st != "bot" and int(t[2]) < len(st[1]) and st[1][int(t[2])] in ("t", "f"):
                return True
    return False
