"""Case generator and property-level oracle for the patricia family (property C19).

One case = one line = one history over 4 registers (see harness/patricia.cpp):
    env|pset|ddom  op,arg,...  op,arg,...
The answer is the '#'-separated list of the results of the query operations.

The oracle is an independent reference: an environment is None (bottom) or a python dict
key -> interval holding only non-top values (a total map with default top); every
operation and every query is computed pointwise over the union of the bound keys.  Sets
are python sets (discrete_domain: the string "top" or a set)."""
import random, re

TOP = (None, None)          # None = infinite bound
BOT = "bot"
U64 = 2 ** 64

# ------------------------------------------------------------------ intervals (reference)

def i_is_top(a):
    return a != BOT and a[0] is None and a[1] is None


def i_norm(lo, hi):
    if lo is not None and hi is not None and lo > hi:
        return BOT
    return (lo, hi)


def lo_le(a, b):      # a <= b for lower bounds (None = -oo)
    return a is None or (b is not None and a <= b)


def hi_le(a, b):      # a <= b for upper bounds (None = +oo)
    return b is None or (a is not None and a <= b)


def i_leq(a, b):
    if a == BOT:
        return True
    if b == BOT:
        return False
    return lo_le(b[0], a[0]) and hi_le(a[1], b[1])


def i_join(a, b):
    if a == BOT:
        return b
    if b == BOT:
        return a
    return (a[0] if lo_le(a[0], b[0]) else b[0], b[1] if hi_le(a[1], b[1]) else a[1])


def i_meet(a, b):
    if a == BOT or b == BOT:
        return BOT
    return i_norm(b[0] if lo_le(a[0], b[0]) else a[0], a[1] if hi_le(a[1], b[1]) else b[1])


def i_widen(a, b):
    if a == BOT:
        return b
    if b == BOT:
        return a
    return (a[0] if lo_le(a[0], b[0]) else None, a[1] if hi_le(b[1], a[1]) else None)


def thr_prev(ts, v):
    if v is None:
        return None
    c = [t for t in ts if t < v]
    return max(c) if c else None


def thr_next(ts, v):
    if v is None:
        return None
    c = [t for t in ts if t > v]
    return min(c) if c else None


def i_widen_thr(a, b, ts):
    if a == BOT:
        return b
    if b == BOT:
        return a
    return (a[0] if lo_le(a[0], b[0]) else thr_prev(ts, b[0]),
            a[1] if hi_le(b[1], a[1]) else thr_next(ts, b[1]))


def i_narrow(a, b):
    if a == BOT or b == BOT:
        return BOT
    return i_norm(b[0] if a[0] is None else a[0], b[1] if a[1] is None else a[1])


def fmt_itv(i):
    if i == BOT:
        return "bot"
    return "%s:%s" % ("-oo" if i[0] is None else i[0], "+oo" if i[1] is None else i[1])


def show_itv(i):
    if i == BOT:
        return "_|_"
    return "[%s, %s]" % ("-oo" if i[0] is None else i[0], "+oo" if i[1] is None else i[1])


def parse_itv(s):
    if s == "bot":
        return BOT
    l, u = s.split(":")
    return i_norm(None if l == "-oo" else int(l), None if u == "+oo" else int(u))


def keys_of(s):
    return [] if s == "-" else [int(x) for x in s.split(";")]


def fmt_keys(ks):
    return ";".join(str(k) for k in ks) if ks else "-"


# ------------------------------------------------------------------ reference machines

class Unknown(Exception):
    """the property does not pin the result (precondition of rename violated)"""


def env_at(e, k):
    return BOT if e is None else e.get(k, TOP)


def env_pointwise(f, a, b):
    """pointwise combination of two non-bottom environments; None if some value is bottom"""
    r = {}
    for k in set(a) | set(b):
        v = f(a.get(k, TOP), b.get(k, TOP))
        if v == BOT:
            return None
        if not i_is_top(v):
            r[k] = v
    return r


def env_leq(a, b):
    if a is None:
        return True
    if b is None:
        return False
    return all(i_leq(a.get(k, TOP), b.get(k, TOP)) for k in set(a) | set(b))


def env_dump(e):
    if e is None:
        return "_|_"
    return "{" + ";".join("%d->%s" % (k, show_itv(e[k])) for k in sorted(e)) + "}"


def sb(b):
    return "true" if b else "false"


def env_step(R, a):
    """execute one op on the register file R (list of 4 envs); returns None or the
    expected query answer"""
    op = a[0]
    r = lambda s: int(s) & 3
    if op == "top":
        R[r(a[1])] = {}
    elif op == "bot":
        R[r(a[1])] = None
    elif op == "cp":
        e = R[r(a[2])]
        R[r(a[1])] = None if e is None else dict(e)
    elif op == "set":
        e = R[r(a[1])]
        if e is not None:
            v = parse_itv(a[3])
            if v == BOT:
                R[r(a[1])] = None
            elif i_is_top(v):
                e.pop(int(a[2]), None)
            else:
                e[int(a[2])] = v
    elif op == "joinkv":
        # weak update e[k] := e[k] | v ; the code is strict in v (a bottom value makes the
        # environment bottom), which the reference follows
        e = R[r(a[1])]
        if e is not None:
            v = parse_itv(a[3])
            k = int(a[2])
            if v == BOT:
                R[r(a[1])] = None
            else:
                nv = i_join(e.get(k, TOP), v)
                if i_is_top(nv):
                    e.pop(k, None)
                else:
                    e[k] = nv
    elif op == "forget":
        e = R[r(a[1])]
        if e is not None:
            e.pop(int(a[2]), None)
    elif op in ("join", "widen", "widenth"):
        x, y = R[r(a[2])], R[r(a[3])]
        if x is None:
            res = None if y is None else dict(y)
        elif y is None:
            res = dict(x)
        else:
            if op == "join":
                f = i_join
            elif op == "widen":
                f = i_widen
            else:
                ts = [int(t) for t in (a[4].split(";") if a[4] != "-" else [])]
                f = lambda p, q: i_widen_thr(p, q, ts)
            res = env_pointwise(f, x, y)
        R[r(a[1])] = res
    elif op in ("meet", "narrow"):
        x, y = R[r(a[2])], R[r(a[3])]
        if x is None or y is None:
            res = None
        else:
            res = env_pointwise(i_meet if op == "meet" else i_narrow, x, y)
        R[r(a[1])] = res
    elif op == "project":
        e = R[r(a[1])]
        if e is not None:
            ks = set(keys_of(a[2]))
            R[r(a[1])] = {k: v for k, v in e.items() if k in ks}
    elif op == "rename":
        e = R[r(a[1])]
        if e is not None and e:
            fr, to = keys_of(a[2]), keys_of(a[3])
            if len(fr) != len(to):
                raise Unknown()
            # identity pairs (k -> k) are "nothing to rename": they are dropped before the precondition
            pairs = [(f, t) for f, t in zip(fr, to) if f != t]
            idk = set(f for f, t in zip(fr, to) if f == t)
            fr, to = [f for f, _ in pairs], [t for _, t in pairs]
            if (len(set(fr)) != len(fr) or len(set(to)) != len(to) or set(fr) & set(to) or (set(fr) | set(to)) & idk
                    or any(t in e for t in to)):
                raise Unknown()
            ne = {k: v for k, v in e.items() if k not in fr}
            for f, t in zip(fr, to):
                if f in e:
                    ne[t] = e[f]
            R[r(a[1])] = ne
    elif op == "at":
        return show_itv(env_at(R[r(a[1])], int(a[2])))
    elif op == "dump":
        return env_dump(R[r(a[1])])
    elif op == "leq":
        return sb(env_leq(R[r(a[1])], R[r(a[2])]))
    elif op == "eq":
        return sb(env_leq(R[r(a[1])], R[r(a[2])]) and env_leq(R[r(a[2])], R[r(a[1])]))
    elif op == "istop":
        e = R[r(a[1])]
        return sb(e is not None and not e)
    elif op == "isbot":
        return sb(R[r(a[1])] is None)
    elif op == "size":
        e = R[r(a[1])]
        return "0" if e is None else ("undef" if not e else str(len(e)))
    else:
        raise ValueError(op)
    return None


def dump_set(s):
    return "{" + ";".join(str(k) for k in sorted(s)) + "}"


def pset_step(R, a):
    op = a[0]
    r = lambda s: int(s) & 3
    if op in ("empty", "clear"):
        R[r(a[1])] = set()
    elif op == "single":
        R[r(a[1])] = {int(a[2])}
    elif op == "cp":
        R[r(a[1])] = set(R[r(a[2])])
    elif op == "add":
        R[r(a[1])].add(int(a[2]))
    elif op == "del":
        R[r(a[1])].discard(int(a[2]))
    elif op == "union":
        R[r(a[1])] = R[r(a[2])] | R[r(a[3])]
    elif op == "inter":
        R[r(a[1])] = R[r(a[2])] & R[r(a[3])]
    elif op == "unionw":
        R[r(a[1])] = R[r(a[1])] | R[r(a[2])]
    elif op == "interw":
        R[r(a[1])] = R[r(a[1])] & R[r(a[2])]
    elif op == "mem":
        return sb(int(a[2]) in R[r(a[1])])
    elif op == "leq":
        return sb(R[r(a[1])] <= R[r(a[2])])
    elif op == "geq":
        return sb(R[r(a[1])] >= R[r(a[2])])
    elif op == "eq":
        return sb(R[r(a[1])] == R[r(a[2])])
    elif op == "size":
        return str(len(R[r(a[1])]))
    elif op == "isempty":
        return sb(not R[r(a[1])])
    elif op == "dump":
        return dump_set(R[r(a[1])])
    else:
        raise ValueError(op)
    return None


def ddom_step(R, a):
    """discrete_domain: "top" or a set.  top absorbs add/remove (it is not representable
    otherwise): this is the documented behaviour and the reference follows it."""
    op = a[0]
    r = lambda s: int(s) & 3
    T = "top"
    if op == "bot":
        R[r(a[1])] = set()
    elif op == "top":
        R[r(a[1])] = T
    elif op == "single":
        R[r(a[1])] = {int(a[2])}
    elif op == "cp":
        d = R[r(a[2])]
        R[r(a[1])] = T if d == T else set(d)
    elif op in ("add", "del", "addr", "delr"):
        d = R[r(a[1])]
        if d != T:
            ks = [int(a[2])] if op in ("add", "del") else keys_of(a[2])
            for k in ks:
                if op in ("add", "addr"):
                    d.add(k)
                else:
                    d.discard(k)
    elif op == "diff":
        x, y = R[r(a[2])], R[r(a[3])]
        if y != T:
            R[r(a[1])] = T if x == T else (x - y)
    elif op in ("join", "joinw"):
        x, y = (R[r(a[2])], R[r(a[3])]) if op == "join" else (R[r(a[1])], R[r(a[2])])
        R[r(a[1])] = T if (x == T or y == T) else (x | y)
    elif op == "meet":
        x, y = R[r(a[2])], R[r(a[3])]
        if x == T:
            res = T if y == T else set(y)
        elif y == T:
            res = set(x)
        else:
            res = x & y
        R[r(a[1])] = res
    elif op == "rename":
        d = R[r(a[1])]
        if d != T and d:
            fr, to = keys_of(a[2]), keys_of(a[3])
            if (len(fr) != len(to) or len(set(fr)) != len(fr) or len(set(to)) != len(to)
                    or set(fr) & set(to) or any(t in d for t in to)):
                raise Unknown()
            nd = {k for k in d if k not in fr}
            for f, t in zip(fr, to):
                if f in d:
                    nd.add(t)
            R[r(a[1])] = nd
    elif op == "contain":
        d = R[r(a[1])]
        return sb(d == T or int(a[2]) in d)
    elif op == "leq":
        x, y = R[r(a[1])], R[r(a[2])]
        return sb(y == T or (x != T and x <= y))
    elif op == "eq":
        x, y = R[r(a[1])], R[r(a[2])]
        return sb((x == T and y == T) or (x != T and y != T and x == y))
    elif op == "istop":
        return sb(R[r(a[1])] == T)
    elif op == "isbot":
        d = R[r(a[1])]
        return sb(d != T and not d)
    elif op == "size":
        d = R[r(a[1])]
        return "undef" if d == T else str(len(d))
    elif op == "dump":
        d = R[r(a[1])]
        return "{...}" if d == T else dump_set(d)
    else:
        raise ValueError(op)
    return None


MACHINES = {"env": (env_step, lambda: [{}, {}, {}, {}]),
            "pset": (pset_step, lambda: [set(), set(), set(), set()]),
            "ddom": (ddom_step, lambda: [set(), set(), set(), set()])}


def reference(line):
    """expected answers (list) of a case line, or the prefix up to an Unknown"""
    t = line.split()
    step, init = MACHINES[t[0]]
    R = init()
    outs = []
    for i, o in enumerate(t[1:]):
        try:
            x = step(R, o.split(","))
        except Unknown:
            return outs, i
        if x is not None:
            outs.append((i, o, x))
    return outs, None


def oracle(line, answer, rng):
    """None if every query answer of the implementation is the pointwise result."""
    if answer in ("ABORT", "MISSING") or answer.startswith("HARNESS-ERROR"):
        return None
    exp, _ = reference(line)
    got = answer.split("#") if answer != "" else []
    t = line.split()
    for j, (i, o, x) in enumerate(exp):
        if j >= len(got):
            return None
        if got[j] != x:
            prefix = " ".join(t[:i + 2])
            return ("history `%s`: query %s answered %s, the pointwise result is %s"
                    % (prefix, o, got[j], x))
    return None


def nontrivial(line, answer):
    """rule: some binary operation or comparison was evaluated on two operands that each
    hold at least two bindings (trees with an inner node), neither being bottom/top."""
    t = line.split()
    step, init = MACHINES[t[0]]
    R = init()
    big = lambda x: x is not None and x != "top" and len(x) >= 2
    for o in t[1:]:
        a = o.split(",")
        if a[0] in ("join", "meet", "widen", "narrow", "widenth", "union", "inter", "diff"):
            if big(R[int(a[2]) & 3]) and big(R[int(a[3]) & 3]):
                return True
        if a[0] in ("leq", "eq", "geq", "unionw", "interw", "joinw"):
            if big(R[int(a[1]) & 3]) and big(R[int(a[2]) & 3]):
                return True
        try:
            step(R, a)
        except Unknown:
            return False
    return False


# ------------------------------------------------------------------ generation

def universes():
    """key universes placed on the case splits of the tree code"""
    M = U64 - 1
    return [
        [0, 1, 2, 3],
        [4, 5, 6, 7, 12, 13],
        [0, 1, 2 ** 63, M],
        [5, 5 ^ (1 << 62), 5 ^ (1 << 63), 7],
        [8, 9, 10, 12],
        [2 ** 32, 2 ** 32 + 1, 2 ** 33, 0],
        [M, M - 1, M - 2, 2 ** 63 - 1, 2 ** 63],
        [1, 2, 4, 8, 16, 32, 64, 128],
        [3, 3 + 2 ** 20, 3 + 2 ** 40, 3 + 2 ** 60, 3 + 2 ** 63],
        list(range(16)),
        [0xAAAAAAAAAAAAAAAA, 0x5555555555555555, 0xAAAAAAAAAAAAAAAB, 0x5555555555555554, 0, M],
    ]


VAL_A = ["0:5", "-oo:0", "1:1", "3:9", "-4:4", "7:+oo", "2:2", "-oo:-1"]
VAL_B = ["2:7", "0:+oo", "1:1", "10:12", "-2:6", "-oo:9", "2:3", "-5:+oo"]
VAL_B2 = ["2:7", "0:+oo", "1:1", "5:12", "-2:6", "-oo:9", "2:3", "-5:+oo"]
ITV_POOL = ["0:0", "0:5", "-oo:0", "0:+oo", "1:1", "3:9", "-4:4", "7:+oo", "2:2", "-oo:-1",
            "10:12", "-oo:+oo", "5:6", "-3:-1", "-oo:9", "1:+oo", "100:200", "bot",
            "-9223372036854775808:9223372036854775807", "18446744073709551616:18446744073709551617"]


def subset_pairs(U, rng, limit):
    n = len(U)
    if n <= 4:
        pairs = [(a, b) for a in range(1 << n) for b in range(1 << n)]
        if len(pairs) > limit:
            rng.shuffle(pairs)
            pairs = pairs[:limit]
    else:
        pairs = [(rng.randrange(1 << n), rng.randrange(1 << n)) for _ in range(limit)]
        # nested / disjoint / equal shapes
        full = (1 << n) - 1
        lowhalf = (1 << (n // 2)) - 1
        pairs += [(full, full), (full, lowhalf), (lowhalf, full), (lowhalf, full ^ lowhalf),
                  (full, 1), (1, full), (full, 1 << (n - 1)), (1 << (n - 1), full), (full, 0), (0, full)]
    return pairs


ENV_TAIL = ("join,2,0,1 dump,2 meet,2,0,1 dump,2 widen,2,0,1 dump,2 narrow,2,0,1 dump,2 "
            "widenth,2,0,1,-3;0;8;100 dump,2 leq,0,1 leq,1,0 eq,0,1 leq,0,2 leq,2,0")


def boundary_env(rng, tier):
    out = []
    lim = 96 if tier == "quick" else 400
    for U in universes():
        for (ma, mb) in subset_pairs(U, rng, lim):
            vb = VAL_B if rng.random() < 0.5 else VAL_B2
            ops = []
            for i, k in enumerate(U):
                if ma >> i & 1:
                    ops.append("set,0,%d,%s" % (k, VAL_A[i % len(VAL_A)]))
            for i, k in enumerate(U):
                if mb >> i & 1:
                    ops.append("set,1,%d,%s" % (k, vb[i % len(vb)]))
            out.append("env " + " ".join(ops) + " dump,0 dump,1 size,0 istop,1 " + ENV_TAIL)
        # operands sharing subtrees: copy then update locally
        for _ in range(12 if tier == "quick" else 60):
            ks = U[:]
            rng.shuffle(ks)
            ops = ["set,0,%d,%s" % (k, rng.choice(VAL_A)) for k in ks]
            ops.append("cp,1,0")
            for _ in range(rng.randint(0, 3)):
                k = rng.choice(U)
                c = rng.random()
                if c < 0.4:
                    ops.append("set,1,%d,%s" % (k, rng.choice(VAL_B)))
                elif c < 0.7:
                    ops.append("forget,1,%d" % k)
                else:
                    ops.append("joinkv,1,%d,%s" % (k, rng.choice(VAL_B)))
            out.append("env " + " ".join(ops) + " dump,1 " + ENV_TAIL)
        # project: both branches (small environment, few keys, many keys)
        for _ in range(10 if tier == "quick" else 40):
            ks = U[:]
            rng.shuffle(ks)
            ops = ["set,0,%d,%s" % (k, rng.choice(VAL_A)) for k in ks]
            sel = [k for k in U if rng.random() < rng.choice([0.2, 0.7, 0.95])]
            if rng.random() < 0.3:
                sel.append(rng.choice(U) ^ 1)
            if rng.random() < 0.3 and sel:
                sel.append(sel[0])
            rng.shuffle(sel)
            out.append("env " + " ".join(ops) + " size,0 project,0,%s dump,0 size,0" % fmt_keys(sel))
    return out


def boundary_sets(rng, tier):
    out = []
    lim = 64 if tier == "quick" else 256
    tail_p = "union,2,0,1 dump,2 size,2 inter,3,0,1 dump,3 size,3 leq,0,1 leq,1,0 geq,0,1 eq,0,1 leq,3,0 leq,0,2 leq,2,0 isempty,3"
    tail_d = "join,2,0,1 dump,2 size,2 meet,3,0,1 dump,3 size,3 leq,0,1 leq,1,0 eq,0,1 diff,2,0,1 dump,2 diff,3,1,0 dump,3 isbot,3 leq,3,1"
    for U in universes():
        for (ma, mb) in subset_pairs(U, rng, lim):
            a = ["add,0,%d" % k for i, k in enumerate(U) if ma >> i & 1]
            b = ["add,1,%d" % k for i, k in enumerate(U) if mb >> i & 1]
            q = " ".join("mem,%d,%d" % (rng.randrange(2), rng.choice(U)) for _ in range(2))
            out.append("pset " + " ".join(a + b) + " dump,0 dump,1 " + tail_p + " " + q)
            q = " ".join("contain,%d,%d" % (rng.randrange(4), rng.choice(U)) for _ in range(2))
            out.append("ddom " + " ".join(a + b) + " dump,0 dump,1 " + tail_d + " " + q)
    for x in ("top", "bot", "single,%d,7"):
        for y in ("top", "bot", "single,%d,9", "single,%d,7"):
            sx = x % 0 if "%" in x else x + ",0"
            sy = y % 1 if "%" in y else y + ",1"
            out.append("ddom %s %s eq,0,1 eq,1,0 leq,0,1 leq,1,0 join,2,0,1 dump,2 meet,3,0,1 dump,3 "
                       "istop,2 isbot,3 size,0 size,1 contain,0,7 contain,1,9" % (sx, sy))
    return out


def pick_universe(rng):
    c = rng.random()
    if c < 0.45:
        U = list(rng.choice(universes()))
    elif c < 0.6:
        base = rng.getrandbits(64)
        U = list({base ^ (1 << rng.choice([0, 1, 2, 31, 32, 61, 62, 63])) for _ in range(6)} | {base})
    elif c < 0.8:
        base = rng.getrandbits(64) & ~0xFF
        U = list({base + rng.randrange(256) for _ in range(rng.randint(3, 14))})
    else:
        U = list({rng.getrandbits(rng.choice([3, 8, 16, 33, 64])) for _ in range(rng.randint(2, 14))})
    rng.shuffle(U)
    return U


def rand_env_history(rng):
    U = pick_universe(rng)
    n = rng.randint(1, 40)
    R = [{}, {}, {}, {}]
    ops = []
    key = lambda: rng.choice(U) if rng.random() < 0.95 else rng.getrandbits(64)
    regs = lambda: rng.randrange(4) if rng.random() < 0.3 else rng.randrange(2)
    while len(ops) < n:
        c = rng.random()
        if c < 0.32:
            o = "set,%d,%d,%s" % (regs(), key(), rng.choice(ITV_POOL if rng.random() < 0.5 else VAL_A + VAL_B))
        elif c < 0.40:
            o = "cp,%d,%d" % (regs(), regs())
        elif c < 0.46:
            o = "joinkv,%d,%d,%s" % (regs(), key(), rng.choice(ITV_POOL))
        elif c < 0.52:
            o = "forget,%d,%d" % (regs(), key())
        elif c < 0.70:
            b = rng.choice(["join", "meet", "widen", "narrow", "join", "meet", "widenth"])
            o = "%s,%d,%d,%d" % (b, regs(), regs(), regs())
            if b == "widenth":
                ts = sorted({rng.randint(-10, 20) for _ in range(rng.randint(0, 4))})
                o += "," + (";".join(str(x) for x in ts) if ts else "-")
        elif c < 0.74:
            sel = [k for k in U if rng.random() < rng.choice([0.2, 0.7, 0.95])]
            if rng.random() < 0.2:
                sel.append(key())
            o = "project,%d,%s" % (regs(), fmt_keys(sel))
        elif c < 0.78:
            r = regs()
            e = R[r]
            bound = list(e) if e else []
            cand = [k for k in U if rng.random() < 0.4] or [key()]
            fr = list(dict.fromkeys(cand))[:rng.randint(1, 4)]
            to = []
            for f in fr:
                t = (f ^ (1 << rng.choice([0, 3, 40, 63]))) if rng.random() < 0.7 else rng.getrandbits(64)
                to.append(t)
            if rng.random() < 0.85:
                # keep the documented precondition: fresh, distinct targets
                ok = (len(set(to)) == len(to) and not (set(to) & set(fr)) and not any(t in bound for t in to))
                if not ok:
                    continue
                if len(fr) >= 2 and rng.random() < 0.3:
                    # an identity pair (k renamed to k: "nothing to rename") before / between real pairs
                    i = rng.randrange(len(fr) - 1)
                    to[i] = fr[i]
            o = "rename,%d,%s,%s" % (r, fmt_keys(fr), fmt_keys(to))
        elif c < 0.80:
            o = "%s,%d" % (rng.choice(["top", "bot", "top"]), regs())
        else:
            q = rng.choice(["at", "at", "dump", "leq", "leq", "eq", "istop", "isbot", "size"])
            if q == "at":
                o = "at,%d,%d" % (regs(), key())
            elif q in ("leq", "eq"):
                o = "%s,%d,%d" % (q, regs(), regs())
            else:
                o = "%s,%d" % (q, regs())
        try:
            env_step(R, o.split(","))
        except Unknown:
            pass
        ops.append(o)
    a, b = rng.randrange(4), rng.randrange(4)
    ops += ["dump,%d" % a, "dump,%d" % b, "leq,%d,%d" % (a, b), "leq,%d,%d" % (b, a)]
    return "env " + " ".join(ops)


def rand_set_history(rng, kind):
    U = pick_universe(rng)
    n = rng.randint(1, 40)
    ops = []
    key = lambda: rng.choice(U) if rng.random() < 0.95 else rng.getrandbits(64)
    regs = lambda: rng.randrange(4) if rng.random() < 0.3 else rng.randrange(2)
    R = [set(), set(), set(), set()]
    while len(ops) < n:
        c = rng.random()
        if kind == "pset":
            if c < 0.35:
                o = "add,%d,%d" % (regs(), key())
            elif c < 0.45:
                o = "del,%d,%d" % (regs(), key())
            elif c < 0.52:
                o = "cp,%d,%d" % (regs(), regs())
            elif c < 0.70:
                b = rng.choice(["union", "inter"])
                o = "%s,%d,%d,%d" % (b, regs(), regs(), regs())
            elif c < 0.76:
                o = "%s,%d,%d" % (rng.choice(["unionw", "interw"]), regs(), regs())
            elif c < 0.79:
                o = rng.choice(["empty,%d" % regs(), "clear,%d" % regs(), "single,%d,%d" % (regs(), key())])
            else:
                q = rng.choice(["mem", "mem", "leq", "leq", "geq", "eq", "size", "isempty", "dump"])
                if q == "mem":
                    o = "mem,%d,%d" % (regs(), key())
                elif q in ("leq", "geq", "eq"):
                    o = "%s,%d,%d" % (q, regs(), regs())
                else:
                    o = "%s,%d" % (q, regs())
        else:
            if c < 0.28:
                o = "add,%d,%d" % (regs(), key())
            elif c < 0.36:
                o = "del,%d,%d" % (regs(), key())
            elif c < 0.42:
                o = "%s,%d,%s" % (rng.choice(["addr", "delr"]), regs(),
                                  fmt_keys([k for k in U if rng.random() < 0.4]))
            elif c < 0.48:
                o = "cp,%d,%d" % (regs(), regs())
            elif c < 0.66:
                b = rng.choice(["join", "meet", "diff"])
                o = "%s,%d,%d,%d" % (b, regs(), regs(), regs())
            elif c < 0.69:
                o = "joinw,%d,%d" % (regs(), regs())
            elif c < 0.73:
                o = rng.choice(["top,%d" % regs(), "bot,%d" % regs(), "single,%d,%d" % (regs(), key())])
            elif c < 0.77:
                r = regs()
                d = R[r]
                fr = list(dict.fromkeys([k for k in U if rng.random() < 0.4] or [key()]))[:3]
                to = [f ^ (1 << rng.choice([0, 3, 40, 63])) for f in fr]
                if rng.random() < 0.85:
                    ok = (len(set(to)) == len(to) and not (set(to) & set(fr))
                          and (d == "top" or not any(t in d for t in to)))
                    if not ok:
                        continue
                o = "rename,%d,%s,%s" % (r, fmt_keys(fr), fmt_keys(to))
            else:
                q = rng.choice(["contain", "contain", "leq", "leq", "eq", "eq", "size", "istop", "isbot", "dump"])
                if q == "contain":
                    o = "contain,%d,%d" % (regs(), key())
                elif q in ("leq", "eq"):
                    o = "%s,%d,%d" % (q, regs(), regs())
                else:
                    o = "%s,%d" % (q, regs())
        try:
            (pset_step if kind == "pset" else ddom_step)(R, o.split(","))
        except Unknown:
            pass
        ops.append(o)
    a, b = rng.randrange(4), rng.randrange(4)
    ops += ["dump,%d" % a, "dump,%d" % b, "leq,%d,%d" % (a, b), "eq,%d,%d" % (a, b)]
    return kind + " " + " ".join(ops)


CORPUS = [
    # fixes/patricia-1: two leaves bound to different keys
    "env set,0,1,0:0 set,1,2,0:0 leq,0,1 leq,1,0 eq,0,1",
    "env set,0,9223372036854775808,1:2 set,1,0,1:2 leq,0,1 leq,1,0",
    # fixes/patricia-2: join(k,v) storing top
    "env set,0,1,-oo:0 joinkv,0,1,0:+oo dump,0 istop,0 top,1 leq,1,0 leq,0,1 at,0,1 eq,0,1",
    "env set,0,1,-oo:0 set,0,2,1:1 joinkv,0,1,0:+oo dump,0 size,0 set,1,2,1:1 leq,1,0 eq,0,1",
    # fixes/patricia-3: discrete_domain top == bottom
    "ddom top,0 bot,1 eq,0,1 eq,1,0 leq,0,1 leq,1,0",
    # extreme keys, iteration order, sizes
    "env set,0,9223372036854775808,1:2 set,0,18446744073709551615,3:4 set,0,0,5:6 dump,0 size,0 at,0,0 at,0,1",
    "env set,0,1,0:5 set,0,2,1:2 rename,0,1;2,11;12 dump,0 at,0,1 at,0,11",
    "env set,0,3,0:5 set,0,3,-oo:+oo dump,0 istop,0 size,0",
    "env set,0,3,0:5 set,1,3,7:9 meet,2,0,1 isbot,2 dump,2 size,2 leq,2,0 leq,0,2",
    "env set,0,1,0:1 set,0,2,0:1 set,0,3,0:1 set,0,4,0:1 set,0,5,0:1 set,0,6,0:1 set,0,7,0:1 "
    "project,0,1;2;3;4;5;9 dump,0 project,0,1 dump,0",
    "pset add,0,1 add,1,2 leq,0,1 leq,1,0 eq,0,1 union,2,0,1 dump,2 inter,3,0,1 dump,3 isempty,3",
    "pset add,0,1 add,0,3 add,1,1 leq,0,1 leq,1,0 geq,0,1 del,0,3 eq,0,1 size,0",
]


def gen(seed, tier):
    rng = random.Random(seed)
    lines = list(CORPUS)
    lines += boundary_env(rng, tier)
    lines += boundary_sets(rng, tier)
    nrand = 2500 if tier == "quick" else 60000
    for _ in range(nrand):
        lines.append(rand_env_history(rng))
    for _ in range(nrand // 3):
        lines.append(rand_set_history(rng, "pset"))
        lines.append(rand_set_history(rng, "ddom"))
    return lines


def key(line):
    """histogram / report key: family, with the histories using join(k,v) apart"""
    fam = line.split(" ", 1)[0]
    return fam + ("-joinkv" if "joinkv," in line else "")
