"""Case generator and property-level oracle of the scalars2 family (C08, second half):
congruences (cg), signs (sg), constants (ct), three-valued booleans (bv), small ranges (sr),
interval x congruence (ic) and disjunctive intervals (di).
Case line:  <dom> <op> <A> [<B>]; operand syntax as in harness/scalars2.cpp."""
import random, re

NINF, PINF = "-oo", "+oo"
BIG = 2 ** 64 + 3


def tdiv(x, y):
    q = abs(x) // abs(y)
    return q if (x >= 0) == (y >= 0) else -q


def trem(x, y):
    return x - y * tdiv(x, y)


def shr(x, k):
    if k > 10 ** 5:
        return -1 if x < 0 else 0
    return x >> k


# =============================================================== operands (generator side)

CG_SINGLE = [0, 1, -1, 2, -2, 3, 4, 7, -7, 8, 12, -12, 63, 64, 2 ** 63, -(2 ** 63), 2 ** 70 + 1]
CG_MOD = ([(2, r) for r in range(2)] + [(3, r) for r in range(3)] + [(4, r) for r in range(4)] +
          [(6, r) for r in range(6)] + [(8, r) for r in (0, 1, 4, 7)] +
          [(3, -1), (4, -3), (6, -1), (3, 5), (2, -1), (-4, 1), (1, 0), (1, 5), (0, 6), (5, 0),
           (7, 3), (10, 3), (12, 8), (100, 97), (2 ** 64, 5), (2 ** 70, 2 ** 69), (2 ** 64, -1)])
CG_SHIFT = ["bot", "top", "0", "1", "2", "3", "7", "31", "63", "64", "65", "128", "200", "-1", "-3",
            "2:0", "2:1", "3:1", "3:-1", "4:2", "6:5", "8:7", "8:0"]


def cg_pool():
    return ["bot", "top"] + [str(n) for n in CG_SINGLE] + ["%d:%d" % ab for ab in CG_MOD]


CG_BIN = ["add", "sub", "mul", "div", "rem", "sdiv", "srem", "udiv", "urem", "and", "or", "xor",
          "join", "meet", "widen", "narrow", "leq", "eq", "neq"]
CG_SHIFTOPS = ["shl", "ashr", "lshr"]
CG_UN = ["neg", "isbot", "istop", "singleton", "repr"]

SG_VALS = ["bot", "top", "ltz", "gtz", "eqz", "nez", "gez", "lez"]
SG_BIN = ["add", "sub", "mul", "div", "udiv", "srem", "urem", "and", "or", "xor", "shl", "lshr",
          "ashr", "join", "meet", "leq", "eq"]
CT_VALS = ["bot", "top", "0", "1", "-1", "2", "-2", "3", "7", "-7", "-8", "64", str(2 ** 63),
           str(-(2 ** 63) - 1), str(2 ** 70)]
CT_SHIFT = ["bot", "top", "0", "1", "2", "3", "7", "63", "64", "65", "200", "-1", "-5"]
CT_BIN = ["add", "sub", "mul", "sdiv", "srem", "udiv", "urem", "and", "or", "xor", "join", "meet",
          "widen", "narrow", "leq", "eq"]
CT_SHIFTOPS = ["shl", "lshr", "ashr"]
BV_VALS = ["bot", "top", "true", "false"]
BV_BIN = ["and", "or", "xor", "join", "meet", "widen", "narrow", "leq", "eq"]
SR_IDX = [1, 2, 3, 2 ** 64 - 1]
SR_VALS = ["bot", "top", "zero", "oom"] + ["one:%d" % v for v in SR_IDX] + ["zoo:%d" % v for v in SR_IDX]
SR_BIN = ["join", "meet", "widen", "narrow", "leq", "eq"]
IC_BIN = ["add", "sub", "mul", "div", "sdiv", "udiv", "srem", "urem", "and", "or", "xor", "join", "meet"]
IC_SHIFTOPS = ["shl", "lshr", "ashr"]
DI_BIN = ["add", "sub", "mul", "div", "udiv", "srem", "urem", "and", "or", "xor", "join", "meet",
          "widen", "narrow", "leq", "eq", "trim"]
DI_SHIFTOPS = ["shl", "lshr", "ashr"]

ITV_POOL = ["bot", "-oo:+oo", "0:0", "1:1", "-1:-1", "4:4", "-7:-7", "1:10", "-10:-1", "-5:3", "0:7",
            "-8:0", "2:3", "10:20", "-20:-10", "-oo:5", "-oo:-1", "-oo:0", "0:+oo", "1:+oo",
            "-3:+oo", "0:1", "-1:0", "0:128", "%d:%d" % (2 ** 63, 2 ** 70), "-1:1", "5:6"]


def ic_pool():
    cgs = ["bot", "top", "0", "4", "-7", "2:0", "2:1", "3:1", "4:3", "6:4", "8:7", "10:3", "5:0",
           "3:-1", "%d:5" % (2 ** 64)]
    pool = []
    for i in ITV_POOL:
        for c in cgs:
            pool.append("%s/%s" % (i, c))
    return pool


IC_SHIFT = ["0:0/top", "1:1/top", "2:2/2", "3:3/top", "0:3/top", "1:2/top", "64:64/top", "129:129/top",
            "-1:-1/top", "0:8/2:0", "1:7/3:1", "bot/top", "-oo:+oo/top", "0:+oo/4:2", "-oo:+oo/8:7"]

DI_POOL = ["bot", "top", "0:0", "1:1", "-1:-1", "5:5", "-7:-7", "1:2,5:7", "-7:-5,-2:-1", "-5:-3,3:5",
           "-1:0,4:4", "0:0,2:2,4:4", "-oo:-1,1:+oo", "-oo:0", "1:+oo", "-oo:-5,0:0,5:+oo",
           "10:20,40:50", "-20:-10,10:20", "1:10", "-10:-1", "-5:3", "0:1,3:4,6:7,9:10", "2:3",
           "-oo:5,8:9", "0:3,100:+oo", "1:1,3:3", "-3:-3,3:3", "0:128", "-2:-2,2:2"]
DI_SHIFT = ["0:0", "1:1", "2:2", "0:1", "1:1,3:3", "3:3", "64:64", "129:129", "-1:-1", "bot", "top", "0:2,5:5"]


def rand_cg(rng):
    k = rng.random()
    if k < 0.04:
        return "bot"
    if k < 0.08:
        return "top"
    mag = rng.choice([4, 10, 10, 40, 200, 2 ** 20, 2 ** 40, 2 ** 64, 2 ** 72])
    if k < 0.35:
        return str(rng.randint(-mag, mag))
    a = rng.choice([2, 3, 4, 5, 6, 7, 8, 9, 10, 12, 15, 16, 24, 30, 36, 64, 100, rng.randint(2, mag + 2)])
    b = rng.randint(-a - 2, 2 * a) if rng.random() < 0.7 else rng.randint(-mag, mag)
    return "%d:%d" % (a, b)


def rand_itv(rng):
    k = rng.random()
    if k < 0.04:
        return "bot"
    if k < 0.1:
        return "-oo:+oo"
    mag = rng.choice([4, 10, 10, 40, 200, 2 ** 20, 2 ** 66])
    a = rng.randint(-mag, mag)
    if k < 0.25:
        return "%d:%d" % (a, a)
    b = a + rng.choice([0, 1, 2, 3, 5, 17, mag // 2 + 1, mag])
    if k < 0.35:
        return "-oo:%d" % b
    if k < 0.45:
        return "%d:+oo" % a
    return "%d:%d" % (a, b)


def rand_di(rng):
    k = rng.random()
    if k < 0.04:
        return "bot"
    if k < 0.08:
        return "top"
    n = rng.choice([1, 1, 2, 2, 3, 4])
    mag = rng.choice([6, 12, 12, 40, 200, 2 ** 66])
    pts = sorted(rng.randint(-mag, mag) for _ in range(2 * n))
    parts = ["%d:%d" % (pts[2 * i], pts[2 * i + 1]) for i in range(n)]
    if rng.random() < 0.15:
        parts[0] = "-oo:%d" % pts[1]
    if rng.random() < 0.15:
        parts[-1] = "%d:+oo" % pts[-2]
    rng.shuffle(parts)
    return ",".join(parts)


CORPUS = [
    # defects of the pinned tree (fixes/scalars2-*)
    "cg meet 2:0 3:1", "cg meet 4:1 6:3", "cg meet 6:5 4:3", "cg add 3:0 -1", "cg repr 3:-1",
    "cg div 4:1 2", "cg div 4:1 -2", "cg div 12 10:3", "cg div 12 100:97", "cg div 4:0 -2",
    "cg rem 4:1 2", "cg rem 12 10:3", "cg rem 6:3 3", "cg srem 7 5:1", "cg leq 2:0 1",
    "cg leq -1 3:2", "cg eq 3:-1 3:2", "cg istop bot", "cg narrow bot 2:0", "cg shl 7:1 3:-1",
    "cg div 2:0 -2", "cg meet 2:0 -4:2", "cg leq 4:1 2:1", "cg leq 2:1 4:1",
    "sg div gtz gtz", "sg div ltz ltz", "sg div 1 5", "sg div ltz gtz", "sg div gez lez",
    "sr leq zero bot", "sr leq one:3 bot", "sr leq oom bot", "sr leq zoo:1 bot",
    "ic id 1:10/4:3", "ic id 1:2/10:5", "ic id 4:4/top", "ic meet 0:20/2:0 0:20/3:1",
    "ic div -7:-3/4:1 2:2/2", "ic srem -7:-3/4:1 2:2/2",
]
MANY = ",".join("%d:%d" % (2 * k, 2 * k) for k in range(51))          # 51 disjuncts: merged
MANY49 = ",".join("%d:%d" % (3 * k, 3 * k + 1) for k in range(49))     # 49 disjuncts: kept
SEVEN = ",".join("%d:%d" % (3 * k, 3 * k) for k in range(-3, 4))                 # 7 singletons
EIGHT = ",".join("%d:%d" % (10 * k + 5, 10 * k + 6) for k in range(-4, 4))      # 8 intervals: 56 raw pairs with SEVEN
DI_CORPUS = ["di sub %s %s" % (SEVEN, EIGHT), "di mul %s %s" % (SEVEN, EIGHT), "di div %s %s" % (EIGHT, SEVEN),
             "di sub %s %s" % (EIGHT, SEVEN), "di add %s %s" % (SEVEN, EIGHT),
             "di id " + MANY, "di id " + MANY49, "di neg " + MANY49, "di join %s 200:200" % MANY49,
             "di add 0:0,10:10,20:20,30:30,40:40,50:50,60:60,70:70 0:0,100:100,200:200,300:300,400:400,500:500,600:600,700:700",
             "di widen %s 0:1,500:600" % MANY49, "di leq 6:7 " + MANY49, "di meet %s 10:40" % MANY49,
             "di div -7:-5 2:3", "di div -7:-5,5:7 2:3", "di meet 1:2,5:7 2:5", "di add 1:2,5:7 10:10",
             "di ashr -5:-5 1:1", "di div 10:20,40:50 0:0,2:2", "di mul -oo:-1,1:+oo 0:0"]


def gen(seed, tier):
    rng = random.Random(seed * 31 + 7)
    quick = tier == "quick"
    lines = list(CORPUS)
    # ---- congruences: boundary pool x operators
    pool = cg_pool()
    pairs = [(a, b) for a in pool for b in pool]
    if quick:
        rng.shuffle(pairs)
        pairs = pairs[:420]
    for (a, b) in pairs:
        for op in CG_BIN:
            lines.append("cg %s %s %s" % (op, a, b))
    spairs = [(a, b) for a in pool for b in CG_SHIFT]
    if quick:
        rng.shuffle(spairs)
        spairs = spairs[:350]
    for (a, b) in spairs:
        for op in CG_SHIFTOPS:
            lines.append("cg %s %s %s" % (op, a, b))
    for a in pool:
        for op in CG_UN:
            lines.append("cg %s %s" % (op, a))
    # ---- signs, constants, booleans, small ranges: exhaustive over the pools
    sg_ops = SG_VALS + ["-5", "0", "3"]
    for a in sg_ops:
        for b in sg_ops:
            for op in SG_BIN:
                lines.append("sg %s %s %s" % (op, a, b))
        for op in ("id", "isbot", "istop", "toitv"):
            lines.append("sg %s %s" % (op, a))
    for i in ITV_POOL:
        lines.append("sg fromitv %s" % i)
    for a in CT_VALS:
        for b in CT_VALS:
            for op in CT_BIN:
                lines.append("ct %s %s %s" % (op, a, b))
        for b in CT_SHIFT:
            for op in CT_SHIFTOPS:
                lines.append("ct %s %s %s" % (op, a, b))
        for op in ("isbot", "istop", "isconst"):
            lines.append("ct %s %s" % (op, a))
    for a in BV_VALS:
        for b in BV_VALS:
            for op in BV_BIN:
                lines.append("bv %s %s %s" % (op, a, b))
        for op in ("neg", "isbot", "istop", "istrue", "isfalse"):
            lines.append("bv %s %s" % (op, a))
    for a in SR_VALS:
        for b in SR_VALS:
            for op in SR_BIN:
                lines.append("sr %s %s %s" % (op, a, b))
        for v in SR_IDX:
            lines.append("sr incr %s %d" % (a, v))
        for op in ("id", "isbot", "istop", "iszero", "isone"):
            lines.append("sr %s %s" % (op, a))
    # ---- interval x congruence
    ipool = ic_pool()
    for a in ipool:
        lines.append("ic id %s" % a)
    for a in ipool[::7]:
        for op in ("isbot", "istop", "trunc", "zext", "sext"):
            lines.append("ic %s %s" % (op, a))
    ipairs = [(a, b) for a in ipool for b in ipool]
    rng.shuffle(ipairs)
    ipairs = ipairs[:300] if quick else ipairs[:6000]
    for (a, b) in ipairs:
        for op in IC_BIN:
            lines.append("ic %s %s %s" % (op, a, b))
    for a in (ipool[::5] if quick else ipool):
        for b in IC_SHIFT:
            for op in IC_SHIFTOPS:
                lines.append("ic %s %s %s" % (op, a, b))
    # ---- structured random
    nrand = 5000 if quick else 100000
    for _ in range(nrand):
        d = rng.random()
        if d < 0.55:
            op = rng.choice(CG_BIN + CG_SHIFTOPS + ["meet", "meet", "div", "rem", "join", "mul", "leq"])
            a = rand_cg(rng)
            b = rng.choice(CG_SHIFT) if op in CG_SHIFTOPS else rand_cg(rng)
            lines.append("cg %s %s %s" % (op, a, b))
        elif d < 0.6:
            lines.append("cg %s %s" % (rng.choice(CG_UN), rand_cg(rng)))
        elif d < 0.7:
            op = rng.choice(CT_BIN + CT_SHIFTOPS)
            a = rng.choice(CT_VALS + [str(rng.randint(-300, 300))] * 4)
            b = rng.choice(CT_SHIFT) if op in CT_SHIFTOPS else rng.choice(CT_VALS + [str(rng.randint(-30, 30))] * 4)
            lines.append("ct %s %s %s" % (op, a, b))
        elif d < 0.75:
            lines.append("sg fromitv %s" % rand_itv(rng))
        else:
            op = rng.choice(IC_BIN + IC_SHIFTOPS + ["meet", "join", "div", "srem"])
            a = "%s/%s" % (rand_itv(rng), rand_cg(rng))
            b = rng.choice(IC_SHIFT) if op in IC_SHIFTOPS else "%s/%s" % (rand_itv(rng), rand_cg(rng))
            lines.append("ic %s %s %s" % (op, a, b))
    return lines


def gen_di(seed, tier):
    """disjunctive intervals (a stream of their own)"""
    rng = random.Random(seed * 17 + 3)
    quick = tier == "quick"
    lines = list(DI_CORPUS)
    pairs = [(a, b) for a in DI_POOL for b in DI_POOL]
    if quick:
        rng.shuffle(pairs)
        pairs = pairs[:250]
    for (a, b) in pairs:
        for op in DI_BIN:
            lines.append("di %s %s %s" % (op, a, b))
    for a in DI_POOL:
        for b in DI_SHIFT:
            for op in DI_SHIFTOPS:
                lines.append("di %s %s %s" % (op, a, b))
        for op in ("id", "isbot", "istop", "approx", "neg", "lower", "upper", "singleton"):
            lines.append("di %s %s" % (op, a))
    for _ in range(3000 if quick else 60000):
        op = rng.choice(DI_BIN + DI_SHIFTOPS + ["div", "mul", "meet", "join", "widen"])
        a = rand_di(rng)
        b = rng.choice(DI_SHIFT) if op in DI_SHIFTOPS else rand_di(rng)
        lines.append("di %s %s %s" % (op, a, b))
    # operands with 7-9 disjuncts each: the pairwise result list passes the limit of 50 disjuncts
    # before it is normalised (the collapse to the hull must see a sorted list)
    def many(k):
        pts = sorted(rng.sample(range(-200, 200), 2 * k))
        parts = ["%d:%d" % (pts[2 * i], pts[2 * i + 1]) for i in range(k)]
        rng.shuffle(parts)
        return ",".join(parts)
    for _ in range(60 if quick else 1500):
        op = rng.choice([o for o in DI_BIN if o not in ("leq", "eq")] + ["div", "mul", "sub", "sub", "mul"])
        lines.append("di %s %s %s" % (op, many(rng.randint(7, 9)), many(rng.randint(7, 9))))
    return lines


# =============================================================== concrete sets (oracle side)
# Every abstract value is turned into (member : int -> bool, samples : [int]) by code that
# does not share anything with the model.

class CSet:
    def __init__(self, member, samples, empty=False, full=False, desc=""):
        # small witnesses first
        samples = sorted(set(samples), key=lambda x: (abs(x), x))
        self.member, self.samples, self.empty, self.full, self.desc = member, samples, empty, full, desc


def cset_bot():
    return CSet(lambda x: False, [], empty=True, desc="bot")


def cset_top(rng):
    return CSet(lambda x: True, [0, 1, -1, 2, -2, 3, -3, 5, 7, -7, 8, 12, 1000, -1000, BIG, -BIG,
                                 rng.randint(-50, 50)], full=True, desc="top")


def cset_cong(a, b, rng, lo=None, hi=None):
    """{ b + a*k } intersected with [lo,hi] (None = unbounded)"""
    a = abs(a)

    def inrange(x):
        return (lo is None or lo <= x) and (hi is None or x <= hi)
    if a == 0:
        xs = [b] if inrange(b) else []
        return CSet((lambda x: x == b and inrange(x)), xs, empty=not xs, desc="{%d}" % b)
    r = b % a
    mem = lambda x: (x - r) % a == 0 and inrange(x)
    # members near 0, near the bounds, and far away
    cands = set()
    centres = [0]
    if lo is not None:
        centres.append(lo)
    if hi is not None:
        centres.append(hi)
    for c in centres:
        base = c - ((c - r) % a)
        for k in range(-3, 5):
            cands.add(base + a * k)
    for far in (2 ** 40 + rng.randint(0, 1000), -(2 ** 40) - rng.randint(0, 1000), BIG, -BIG):
        cands.add(far - ((far - r) % a))
    xs = sorted(x for x in cands if mem(x))
    full = (a == 1 and lo is None and hi is None)
    return CSet(mem, xs, empty=not xs, full=full, desc="%dZ+%d" % (a, r))


def parse_bound(s):
    return None if s in (NINF, PINF) else int(s)


def parse_itv_lit(s):
    """-> None (bottom) | (l,u) with None for infinite"""
    if s == "bot":
        return None
    l, u = s.split(":")
    l, u = (None if l == NINF else int(l)), (None if u == PINF else int(u))
    if l is not None and u is not None and l > u:
        return None
    return (l, u)


def itv_samples(i, rng, n=6):
    if i is None:
        return []
    l, u = i
    out = set()
    if l is not None and u is not None:
        if u - l <= 2 * n:
            return list(range(l, u + 1))
        out |= {l, l + 1, u - 1, u}
        for c in (0, 1, -1):
            if l <= c <= u:
                out.add(c)
        while len(out) < n + 4:
            out.add(rng.randint(l, u))
    elif l is None and u is None:
        out |= {0, 1, -1, 2, -2, 7, -7, 1000, -1000, BIG, -BIG}
    elif l is None:
        out |= {u, u - 1, u - 2, u - 7, u - 1000, u - 2 ** 65}
        out |= {c for c in (0, 1, -1) if c <= u}
    else:
        out |= {l, l + 1, l + 2, l + 7, l + 1000, l + 2 ** 65}
        out |= {c for c in (0, 1, -1) if c >= l}
    return sorted(out)


def in_itv(i, x):
    return i is not None and (i[0] is None or i[0] <= x) and (i[1] is None or x <= i[1])


def cset_itv(i, rng):
    if i is None:
        return cset_bot()
    return CSet(lambda x: in_itv(i, x), itv_samples(i, rng), full=(i == (None, None)), desc=str(i))


# ---- congruence operands / answers
def cg_operand(s, rng, lo=None, hi=None):
    if s == "bot":
        return cset_bot()
    if s == "top":
        s = "1:0"
    if ":" in s:
        a, b = s.split(":")
        return cset_cong(int(a), int(b), rng, lo, hi)
    return cset_cong(0, int(s), rng, lo, hi)


def cg_answer(s):
    """-> member predicate or None if unparsable; also the (a,b) pair"""
    s = s.strip()
    if s == "_|_":
        return (lambda x: False), None
    m = re.match(r"^(-?\d+)Z\+(-?\d+)$", s)
    if m:
        a, b = int(m.group(1)), int(m.group(2))
        if a == 0:
            return (lambda x: x == b), (a, b)
        return (lambda x: (x - b) % abs(a) == 0), (a, b)
    if re.match(r"^-?\d+$", s):
        b = int(s)
        return (lambda x: x == b), (0, b)
    return None, None


def itv_answer(s):
    s = s.strip()
    if s == "_|_":
        return lambda x: False
    m = re.match(r"^\[(\S+), ?(\S+)\]$", s)
    if not m:
        return None
    if m.group(1) == PINF or m.group(2) == NINF:
        return lambda x: False
    l = None if m.group(1) == NINF else int(m.group(1))
    u = None if m.group(2) == PINF else int(m.group(2))
    return lambda x: (l is None or l <= x) and (u is None or x <= u)


def concrete_binop(op, x, y):
    """list of concrete results that the abstract result must contain"""
    if op == "add": return [x + y]
    if op == "sub": return [x - y]
    if op == "mul": return [x * y]
    if op in ("div", "sdiv"): return [tdiv(x, y)] if y != 0 else []
    if op in ("rem", "srem"): return [trem(x, y)] if y != 0 else []
    if op == "udiv":
        # unsigned division of the two's complement encodings, for every width that can
        # hold both operands (width-independent when both are non-negative)
        if y == 0: return []
        if x >= 0 and y > 0: return [x // y]
        out = []
        for w in (8, 16, 32, 64, 128):
            if -(2 ** (w - 1)) <= x < 2 ** (w - 1) and -(2 ** (w - 1)) <= y < 2 ** (w - 1):
                v = (x % (2 ** w)) // (y % (2 ** w))
                out.append(v - 2 ** w if v >= 2 ** (w - 1) else v)   # read back as signed
        return out
    if op == "urem":
        if y <= 0: return []
        if x >= 0: return [x % y]
        return [(x % (2 ** w)) % y for w in (8, 16, 32, 64, 128) if y < 2 ** w]
    if op == "and": return [x & y]
    if op == "or": return [x | y]
    if op == "xor": return [x ^ y]
    if op == "shl": return [x << y] if 0 <= y <= 400 else []
    if op == "ashr": return [shr(x, y)] if y >= 0 else []
    if op == "lshr": return [shr(x, y)] if (y >= 0 and x >= 0) else []
    return []


ARITH = ("add", "sub", "mul", "div", "sdiv", "rem", "srem", "udiv", "urem", "and", "or", "xor",
         "shl", "ashr", "lshr")


def check_binop(line, ans, op, A, B, member):
    for x in A.samples:
        for y in B.samples:
            for v in concrete_binop(op, x, y):
                if not member(v):
                    return "%s = %s but %s(%d, %d) = %d is not in it" % (line, ans, op, x, y, v)
    return None


def check_lattice(line, ans, op, A, B, member):
    if op in ("join", "widen"):
        for x in A.samples + B.samples:
            if not member(x):
                return "%s = %s but %d is in an operand" % (line, ans, x)
    elif op in ("meet", "narrow"):
        for x in A.samples + B.samples:
            if A.member(x) and B.member(x) and not member(x):
                return "%s = %s but %d is in both operands" % (line, ans, x)
    return None


def check_leq_eq(line, ans, op, A, B, samedesc):
    if ans not in ("true", "false"):
        return "%s: unparsable answer %r" % (line, ans)
    if op == "neq":
        op, ans = "eq", ("false" if ans == "true" else "true")
    if ans == "true":
        for x in A.samples:
            if not B.member(x):
                return "%s answered true but %d is in the left operand only" % (line, x)
        if op == "eq":
            for x in B.samples:
                if not A.member(x):
                    return "%s answered true but %d is in the right operand only" % (line, x)
    else:
        if op == "leq" and (A.empty or B.full or samedesc):
            return "%s answered false (bottom on the left / top on the right / equal operands)" % line
    return None


def crt_common(a1, b1, a2, b2):
    """a common element of a1Z+b1 and a2Z+b2 (a1,a2 > 0) or None"""
    from math import gcd
    g = gcd(a1, a2)
    if (b2 - b1) % g != 0:
        return None
    m = a2 // g
    if m == 1:
        return b1
    t = ((b2 - b1) // g) * pow(a1 // g, -1, m) % m
    return b1 + a1 * t


# =============================================================== oracles per domain

def oracle_cg(t, line, ans, rng):
    op = t[1]
    A = cg_operand(t[2], rng)
    if len(t) == 3:
        if op == "isbot":
            return None if ans == ("true" if A.empty else "false") else "%s answered %s" % (line, ans)
        if op == "istop":
            return None if ans == ("true" if A.full else "false") else "%s answered %s" % (line, ans)
        if op == "singleton":
            exp = "none"
            if t[2] not in ("bot", "top") and (":" not in t[2] or int(t[2].split(":")[0]) == 0):
                exp = str(A.samples[0])
            return None if ans == exp else "%s answered %s, expected %s" % (line, ans, exp)
        if op == "repr":
            m = re.match(r"^(-?\d+) (-?\d+)$", ans)
            if not m:
                return "%s: unparsable answer %r" % (line, ans)
            a, b = int(m.group(1)), int(m.group(2))
            if A.empty:
                return None
            if a < 0 or (a != 0 and not (0 <= b < a)):
                return "%s = (%d,%d) is not in normal form (a >= 0, 0 <= b < a)" % (line, a, b)
            mem = (lambda x: x == b) if a == 0 else (lambda x: (x - b) % a == 0)
            for x in A.samples:
                if not mem(x):
                    return "%s = %dZ+%d but %d is in the operand" % (line, a, b, x)
            return None
        if op == "neg":
            member, _ = cg_answer(ans)
            if member is None:
                return "%s: unparsable answer %r" % (line, ans)
            for x in A.samples:
                if not member(-x):
                    return "%s = %s but -(%d) is not in it" % (line, ans, x)
            return None
        return None
    B = cg_operand(t[3], rng)
    if op in ("leq", "eq", "neq"):
        return check_leq_eq(line, ans, op, A, B, t[2] == t[3])
    member, ab = cg_answer(ans)
    if member is None:
        return "%s: unparsable answer %r" % (line, ans)
    if ab is not None and (ab[0] < 0 or (ab[0] > 0 and not (0 <= ab[1] < ab[0]))):
        return "%s = %s is not in normal form (a >= 0, 0 <= b < a)" % (line, ans)
    if op in ARITH:
        return check_binop(line, ans, op, A, B, member)
    w = check_lattice(line, ans, op, A, B, member)
    if w:
        return w
    if op in ("meet", "narrow") and not A.empty and not B.empty:
        # an independent common element (Chinese remainder theorem)
        def ab_of(s):
            if s == "top":
                return (1, 0)
            if ":" in s:
                a, b = s.split(":")
                return (abs(int(a)), int(b))
            return (0, int(s))
        (a1, b1), (a2, b2) = ab_of(t[2]), ab_of(t[3])
        c = None
        if a1 == 0 and a2 == 0:
            c = b1 if b1 == b2 else None
        elif a1 == 0:
            c = b1 if (b1 - b2) % a2 == 0 else None
        elif a2 == 0:
            c = b2 if (b2 - b1) % a1 == 0 else None
        else:
            c = crt_common(a1, b1, a2, b2)
        if c is not None and not member(c):
            return "%s = %s but %d is in both operands" % (line, ans, c)
    return None


SG_PRED = {
    "bot": lambda x: False, "top": lambda x: True, "ltz": lambda x: x < 0, "gtz": lambda x: x > 0,
    "eqz": lambda x: x == 0, "nez": lambda x: x != 0, "gez": lambda x: x >= 0, "lez": lambda x: x <= 0}
SG_WRITE = {"_|_": "bot", "[-oo,-1]": "ltz", "[1,+oo]": "gtz", "[0,0]": "eqz",
            "[-oo,-1] U [1,+oo]": "nez", "[0,+oo]": "gez", "[-oo,0]": "lez", "[-oo,+oo]": "top"}
SG_SAMPLES = [-BIG, -1000, -3, -2, -1, 0, 1, 2, 3, 5, 64, 1000, BIG]


def sg_operand(s):
    if s in SG_PRED:
        p = SG_PRED[s]
        return CSet(p, [x for x in SG_SAMPLES if p(x)], empty=(s == "bot"), full=(s == "top"), desc=s)
    # sign(Number c): the abstract value is the sign class of c
    n = int(s)
    return sg_operand("eqz" if n == 0 else ("ltz" if n < 0 else "gtz"))


def oracle_sg(t, line, ans, rng):
    op = t[1]
    if op == "fromitv":
        i = parse_itv_lit(t[2])
        if ans not in SG_WRITE:
            return "%s: unparsable answer %r" % (line, ans)
        p = SG_PRED[SG_WRITE[ans]]
        for x in itv_samples(i, rng):
            if not p(x):
                return "%s = %s but %d is in the interval" % (line, ans, x)
        return None
    A = sg_operand(t[2])
    if len(t) == 3:
        if op == "toitv":
            m = itv_answer(ans)
            if m is None:
                return "%s: unparsable answer %r" % (line, ans)
            for x in A.samples:
                if not m(x):
                    return "%s = %s but %d has this sign" % (line, ans, x)
            return None
        if op == "isbot":
            return None if ans == ("true" if A.empty else "false") else "%s answered %s" % (line, ans)
        if op == "istop":
            return None if ans == ("true" if A.full else "false") else "%s answered %s" % (line, ans)
        if op == "id":
            if ans not in SG_WRITE:
                return "%s: unparsable answer %r" % (line, ans)
            p = SG_PRED[SG_WRITE[ans]]
            if t[2] not in SG_PRED and not p(int(t[2])):
                return "%s = %s does not contain the constant" % (line, ans)
            for x in A.samples:
                if not p(x):
                    return "%s = %s but %d is in the operand" % (line, ans, x)
        return None
    B = sg_operand(t[3])
    if op in ("leq", "eq"):
        return check_leq_eq(line, ans, op, A, B, t[2] == t[3])
    if ans not in SG_WRITE:
        return "%s: unparsable answer %r" % (line, ans)
    p = SG_PRED[SG_WRITE[ans]]
    if op in ARITH:
        return check_binop(line, ans, op, A, B, p)
    return check_lattice(line, ans, op, A, B, p)


def ct_operand(s, rng):
    if s == "bot":
        return cset_bot()
    if s == "top":
        return cset_top(rng)
    n = int(s)
    return CSet(lambda x: x == n, [n], desc=s)


def ct_answer(s):
    if s == "_|_":
        return lambda x: False
    if s == "top":
        return lambda x: True
    if re.match(r"^-?\d+$", s):
        n = int(s)
        return lambda x: x == n
    return None


CT_OPMAP = {"sdiv": "sdiv", "srem": "srem"}


def oracle_ct(t, line, ans, rng):
    op = t[1]
    A = ct_operand(t[2], rng)
    if len(t) == 3:
        exp = {"isbot": A.empty, "istop": A.full, "isconst": (not A.empty and not A.full)}.get(op)
        if exp is None:
            return None
        return None if ans == ("true" if exp else "false") else "%s answered %s" % (line, ans)
    B = ct_operand(t[3], rng)
    if op in ("leq", "eq"):
        return check_leq_eq(line, ans, op, A, B, t[2] == t[3])
    m = ct_answer(ans)
    if m is None:
        return "%s: unparsable answer %r" % (line, ans)
    if op in ARITH:
        return check_binop(line, ans, op, A, B, m)
    return check_lattice(line, ans, op, A, B, m)


BV_SETS = {"bot": set(), "top": {True, False}, "true": {True}, "false": {False}}
BV_WRITE = {"_|_": "bot", "*": "top", "true": "true", "false": "false"}


def oracle_bv(t, line, ans, rng):
    op = t[1]
    A = BV_SETS[t[2]]
    if len(t) == 3:
        if op == "neg":
            if ans not in BV_WRITE:
                return "%s: unparsable answer %r" % (line, ans)
            R = BV_SETS[BV_WRITE[ans]]
            for a in A:
                if (not a) not in R:
                    return "%s = %s but not %s is not in it" % (line, ans, a)
            return None
        exp = {"isbot": not A, "istop": len(A) == 2, "istrue": A == {True}, "isfalse": A == {False}}[op]
        return None if ans == ("true" if exp else "false") else "%s answered %s" % (line, ans)
    B = BV_SETS[t[3]]
    if op in ("leq", "eq"):
        if ans == "true":
            if not (A <= B) or (op == "eq" and A != B):
                return "%s answered true" % line
        elif op == "leq" and A <= B and (not A or len(B) == 2 or A == B):
            return "%s answered false" % line
        return None
    if ans not in BV_WRITE:
        return "%s: unparsable answer %r" % (line, ans)
    R = BV_SETS[BV_WRITE[ans]]
    if op in ("join", "widen"):
        need = A | B
    elif op in ("meet", "narrow"):
        need = A & B
    else:
        f = {"and": lambda a, b: a and b, "or": lambda a, b: a or b, "xor": lambda a, b: a != b}[op]
        need = {f(a, b) for a in A for b in B}
    for v in need:
        if v not in R:
            return "%s = %s but %s is a possible result" % (line, ans, v)
    return None


# small ranges: the concrete values are the subsets of a small universe of variable indexes
SR_UNIV = SR_IDX + [5]


def sr_subsets():
    out = []
    for mask in range(1 << len(SR_UNIV)):
        out.append(frozenset(v for i, v in enumerate(SR_UNIV) if mask >> i & 1))
    return out


SR_SUBSETS = sr_subsets()


def sr_pred_operand(s):
    if s == "bot": return lambda S: False
    if s == "top": return lambda S: True
    if s == "zero": return lambda S: len(S) == 0
    if s == "oom": return lambda S: len(S) >= 1
    k, v = s.split(":")
    v = int(v)
    if k == "one": return lambda S: S == frozenset([v])
    return lambda S: S <= frozenset([v])


def sr_pred_answer(s):
    if s == "_|_": return lambda S: False
    if s == "[0,0]": return lambda S: len(S) == 0
    if s == "[0,+oo]": return lambda S: True
    if s == "[1,+oo]": return lambda S: len(S) >= 1
    m = re.match(r"^\[([01]),1\]\((\d+)\)$", s)
    if not m:
        return None
    v = int(m.group(2))
    if m.group(1) == "1": return lambda S: S == frozenset([v])
    return lambda S: S <= frozenset([v])


def oracle_sr(t, line, ans, rng):
    op = t[1]
    pa = sr_pred_operand(t[2])
    GA = [S for S in SR_SUBSETS if pa(S)]
    if len(t) == 3:
        if op == "id":
            pr = sr_pred_answer(ans)
            if pr is None:
                return "%s: unparsable answer %r" % (line, ans)
            for S in GA:
                if not pr(S):
                    return "%s = %s but the set %s is in the operand" % (line, ans, sorted(S))
            return None
        exp = {"isbot": not GA, "istop": t[2] == "top", "iszero": t[2] == "zero",
               "isone": t[2].startswith("one:")}[op]
        return None if ans == ("true" if exp else "false") else "%s answered %s" % (line, ans)
    if op == "incr":
        v = int(t[3])
        pr = sr_pred_answer(ans)
        if pr is None:
            return "%s: unparsable answer %r" % (line, ans)
        for S in GA:
            if not pr(S | frozenset([v])):
                return "%s = %s but adding %d to the set %s gives a set outside it" % (line, ans, v, sorted(S))
        return None
    pb = sr_pred_operand(t[3])
    GB = [S for S in SR_SUBSETS if pb(S)]
    if op in ("leq", "eq"):
        if ans == "true":
            for S in GA:
                if not pb(S):
                    return "%s answered true but the set %s is in the left operand only" % (line, sorted(S))
            if op == "eq":
                for S in GB:
                    if not pa(S):
                        return "%s answered true but the set %s is in the right operand only" % (line, sorted(S))
        elif ans == "false":
            if op == "leq" and (not GA or t[3] == "top" or t[2] == t[3]):
                return "%s answered false (bottom on the left / top on the right / equal operands)" % line
        else:
            return "%s: unparsable answer %r" % (line, ans)
        return None
    pr = sr_pred_answer(ans)
    if pr is None:
        return "%s: unparsable answer %r" % (line, ans)
    if op in ("join", "widen"):
        for S in GA + GB:
            if not pr(S):
                return "%s = %s but the set %s is in an operand" % (line, ans, sorted(S))
    else:
        for S in GA:
            if pb(S) and not pr(S):
                return "%s = %s but the set %s is in both operands" % (line, ans, sorted(S))
    return None


def ic_operand(s, rng):
    i, c = s.split("/")
    it = parse_itv_lit(i)
    if it is None or c == "bot":
        return cset_bot()
    A = cg_operand(c, rng, it[0], it[1])
    A.full = A.full and it == (None, None)
    return A


def ic_answer(s):
    m = re.match(r"^\((.*), ([^,]*)\)$", s.strip())
    if not m:
        return None
    mi = itv_answer(m.group(1))
    mc, _ = cg_answer(m.group(2))
    if mi is None or mc is None:
        return None
    return lambda x: mi(x) and mc(x)


def oracle_ic(t, line, ans, rng):
    op = t[1]
    A = ic_operand(t[2], rng)
    if len(t) == 3:
        if op in ("isbot", "istop"):
            if ans == "true":
                if op == "isbot" and A.samples:
                    return "%s answered true but %d is in the operand" % (line, A.samples[0])
                if op == "istop" and not A.full:
                    return "%s answered true" % line
            return None
        m = ic_answer(ans)
        if m is None:
            return "%s: unparsable answer %r" % (line, ans)
        if op == "id":
            for x in A.samples:
                if not m(x):
                    return "%s = %s but %d is in the operand" % (line, ans, x)
            # the reduction must not add elements: probe a window around the small samples
            for x in A.samples[:4]:
                if abs(x) < 2 ** 40:
                    for z in range(x - 12, x + 13):
                        if m(z) and not A.member(z):
                            return "%s = %s contains %d which is not in the operand" % (line, ans, z)
        else:
            for x in (A.samples[:4] + [0, 1, -1, 255, 256, -129]) if A.samples else []:
                if not m(x):
                    return "%s = %s but %d is a possible result" % (line, ans, x)
        return None
    B = ic_operand(t[3], rng)
    m = ic_answer(ans)
    if m is None:
        return "%s: unparsable answer %r" % (line, ans)
    if op in ARITH:
        return check_binop(line, ans, op, A, B, m)
    return check_lattice(line, ans, op, A, B, m)


# ---- disjunctive intervals
def di_operand(s, rng):
    if s == "bot":
        return cset_bot()
    if s == "top":
        return cset_itv((None, None), rng)
    parts = [parse_itv_lit(p) for p in s.split(",")]
    parts = [p for p in parts if p is not None]
    if not parts:
        return cset_bot()
    xs = set()
    for p in parts:
        xs |= set(itv_samples(p, rng, n=3))
    full = any(p == (None, None) for p in parts)
    return CSet(lambda x: any(in_itv(p, x) for p in parts), sorted(xs), full=full, desc=s)


def di_answer(s):
    s = s.strip()
    if s == "_|_":
        return lambda x: False
    ms = []
    for p in s.split(" | "):
        m = itv_answer(p)
        if m is None:
            return None
        ms.append(m)
    return lambda x: any(m(x) for m in ms)


def oracle_di(t, line, ans, rng):
    op = t[1]
    A = di_operand(t[2], rng)
    if len(t) == 3:
        if op == "isbot":
            return None if ans == ("true" if A.empty else "false") else "%s answered %s" % (line, ans)
        if op == "istop":
            return ("%s answered true" % line) if (ans == "true" and not A.full) else None
        if op == "singleton":
            if ans != "none" and (len(A.samples) != 1 or str(A.samples[0]) != ans):
                return "%s answered %s" % (line, ans)
            return None
        m = di_answer(ans)
        if m is None:
            return "%s: unparsable answer %r" % (line, ans)
        for x in A.samples:
            zs = {"id": [x], "approx": [x], "neg": [-x], "lower": [x, x - 1, x - 1000],
                  "upper": [x, x + 1, x + 1000]}[op]
            for z in zs:
                if not m(z):
                    return "%s = %s misses %d" % (line, ans, z)
        if op == "id" and t[2].count(",") < 40:   # 50 disjuncts and more are merged into their hull
            for x in A.samples:
                for d in (-1, 1):
                    if m(x + d) and not A.member(x + d):
                        return "%s = %s contains %d which is not in the operand" % (line, ans, x + d)
        return None
    B = di_operand(t[3], rng)
    if op in ("leq", "eq"):
        return check_leq_eq(line, ans, op, A, B, t[2] == t[3])
    m = di_answer(ans)
    if m is None:
        return "%s: unparsable answer %r" % (line, ans)
    if op == "trim":
        if len(B.samples) == 1 and "+oo" not in t[3] and "-oo" not in t[3] and t[3] != "top":
            c = B.samples[0]
            for x in A.samples:
                if x != c and not m(x):
                    return "%s = %s but %d (different from %d) is in the left operand" % (line, ans, x, c)
        return None
    if op in ARITH:
        return check_binop(line, ans, op, A, B, m)
    return check_lattice(line, ans, op, A, B, m)


ORACLES = {"cg": oracle_cg, "sg": oracle_sg, "ct": oracle_ct, "bv": oracle_bv, "sr": oracle_sr,
           "ic": oracle_ic, "di": oracle_di}


def oracle(line, ans, rng=None):
    """Property C08 on the implementation's answer: None if no concrete counterexample was
    found, else a text describing the failing input."""
    rng = rng or random.Random(1)
    t = line.split()
    if ans in ("ABORT", "MISSING"):
        return "%s: the implementation aborted (CRAB_ERROR) on operands it must handle" % line
    if ans.startswith("HARNESS-ERROR"):
        return None
    return ORACLES[t[0]](t, line, ans, rng)


TRIVIAL_ANS = {"cg": {"_|_", "1Z+0"}, "sg": {"_|_", "[-oo,+oo]", "[-oo, +oo]"}, "ct": {"_|_", "top"},
               "bv": {"_|_", "*"}, "sr": {"_|_", "[0,+oo]"},
               "ic": {"(_|_, _|_)", "([-oo, +oo], 1Z+0)"}, "di": {"_|_", "[-oo, +oo]"}}


def nontrivial(line, ans):
    """rule: no operand is bottom and the answer is neither bottom nor top of its domain"""
    t = line.split()
    for o in t[2:]:
        if o == "bot" or o.startswith("bot/") or o.endswith("/bot"):
            return False
    return ans not in TRIVIAL_ANS[t[0]]
