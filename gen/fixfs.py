"""C06: CFGs over a finite state space; oracle = independent least-fixpoint computation."""
import random


def sccs(n, succ):
    idx = {}; low = {}; st = []; on = set(); out = []; c = [0]
    def dfs(v):
        idx[v] = low[v] = c[0]; c[0] += 1; st.append(v); on.add(v)
        for w in succ[v]:
            if w not in idx:
                dfs(w); low[v] = min(low[v], low[w])
            elif w in on:
                low[v] = min(low[v], idx[w])
        if low[v] == idx[v]:
            comp = []
            while True:
                w = st.pop(); on.discard(w); comp.append(w)
                if w == v: break
            out.append(comp)
    for v in range(n):
        if v not in idx:
            dfs(v)
    return out


def gen_case(rng, boundary=None):
    n = rng.randint(1, 12)
    S = rng.randint(1, 8)
    edges = []
    # a spine so that most blocks are reachable, then extra forward / back edges
    for b in range(1, n):
        if rng.random() < 0.85:
            edges.append((rng.randrange(b), b))
    for _ in range(rng.randint(0, n + 2)):
        a, b = rng.randrange(n), rng.randrange(n)
        edges.append((a, b))
    if boundary == "selfloop-entry":
        edges.insert(0, (0, 0))
    if boundary == "two-cycle-entry" and n >= 2:
        edges = [(0, 1), (1, 0)] + edges
    seen = set(); ed = []
    for e in edges:
        if e not in seen:
            seen.add(e); ed.append(e)
    edges = ed
    succ = [[b for (a, b) in edges if a == v] for v in range(n)]
    rel = []
    for b in range(n):
        k = rng.choice([0, 1, 2, 3, S, 2 * S])
        rel.append(sorted(set((rng.randrange(S), rng.randrange(S)) for _ in range(k))))
        if rng.random() < 0.3:
            rel[b] = [(s, s) for s in range(S)]               # identity block
        if rng.random() < 0.15:
            rel[b] = [(s, (s + 1) % S) for s in range(S) if s + 1 < S]   # increment
    init = sorted(set(rng.randrange(S) for _ in range(rng.randint(1, 3))))
    plain = rng.random() < 0.4
    entry = 0
    asm = {}
    if not plain:
        inloop = set()
        for comp in sccs(n, succ):
            if len(comp) > 1:
                inloop |= set(comp)
        for (a, b) in edges:
            if a == b:
                inloop.add(a)
        reach = {0}; work = [0]
        while work:
            v = work.pop()
            for w in succ[v]:
                if w not in reach:
                    reach.add(w); work.append(w)
        # admissible start blocks: the CFG entry, or a block outside every loop (and in the
        # WTO, i.e. reachable from the CFG entry)
        cands = [0] + [v for v in range(n) if v not in inloop and v in reach]
        entry = rng.choice(cands)
        if rng.random() < 0.3:
            # any block of the WTO, also inside loops (the property itself only speaks of start
            # blocks outside loops; since fix engine-4 the engine is exact there too)
            entry = rng.choice(sorted(reach))
        for b in range(n):
            if rng.random() < 0.25:
                asm[b] = sorted(set(rng.randrange(S) for _ in range(rng.randint(1, S))))
    delay = rng.choice([0, 1, 2, 3]); desc = rng.choice([0, 1, 2, 3])
    parts = ["fix %d %d %d %d %d%s" % (n, S, entry, delay, desc, " plain" if plain else "")]
    parts.append("E " + " ".join("%d %d" % e for e in edges))
    for b in range(n):
        parts.append("R %d %d %s" % (b, len(rel[b]), " ".join("%d %d" % p for p in rel[b])))
    parts.append("I " + " ".join(map(str, init)))
    for b, a in asm.items():
        parts.append("A %d %d %s" % (b, len(a), " ".join(map(str, a))))
    if rng.random() < 0.3:
        # the same engine object has been run before (from the CFG entry, other initial states):
        # the answer must not depend on it
        parts.append("P " + " ".join(map(str, sorted(set(rng.randrange(S) for _ in range(rng.randint(1, S)))))))
    return " | ".join(parts)


CORPUS = [
    # start block strictly inside a loop (fixed defect, engine-4)
    "fix 2 3 1 1 1 | E 0 1 1 0 | R 0 3 0 0 1 1 2 2 | R 1 2 0 1 1 2 | I 0",
    # analysis entry is a loop head (fixed defect): a <-> b, b: s -> s+1, init {0}
    "fix 3 4 0 2 1 plain | E 0 1 1 0 0 2 | R 0 4 0 0 1 1 2 2 3 3 | R 1 3 0 1 1 2 2 3 | R 2 4 0 0 1 1 2 2 3 3 | I 0",
    "fix 2 3 0 0 0 plain | E 0 1 1 0 | R 0 3 0 0 1 1 2 2 | R 1 2 0 1 1 2 | I 0",
    # assumption at a loop head (fixed defect)
    "fix 2 4 0 2 1 | E 0 1 1 0 | R 0 4 0 0 1 1 2 2 3 3 | R 1 3 0 1 1 2 2 3 | I 0 | A 0 2 0 1",
    "fix 1 2 0 0 0 plain | E 0 0 | R 0 1 0 1 | I 0",
]


def gen(seed, tier):
    rng = random.Random(seed)
    lines = list(CORPUS)
    n = 1500 if tier == "quick" else 60000
    for i in range(n):
        b = None
        if i % 11 == 0: b = "selfloop-entry"
        if i % 13 == 0: b = "two-cycle-entry"
        lines.append(gen_case(rng, b))
    return lines


def parse(line):
    secs = [s.split() for s in line.split(" | ")]
    h = secs[0]
    n, S, entry = int(h[1]), int(h[2]), int(h[3])
    plain = len(h) > 6 and h[6] == "plain"
    edges = []; rel = [[] for _ in range(n)]; init = set(); asm = {}
    for s in secs[1:]:
        if not s: continue
        if s[0] == "E":
            v = list(map(int, s[1:])); edges = list(zip(v[0::2], v[1::2]))
        elif s[0] == "R":
            v = list(map(int, s[3:])); rel[int(s[1])] = list(zip(v[0::2], v[1::2]))
        elif s[0] == "I":
            init = set(map(int, s[1:]))
        elif s[0] == "A":
            asm[int(s[1])] = set(map(int, s[3:]))
    if plain:
        entry = 0; asm = {}
    return n, S, entry, edges, rel, init, asm


def solve(line):
    n, S, entry, edges, rel, init, asm = parse(line)
    pre = [set() for _ in range(n)]; post = [set() for _ in range(n)]
    changed = True
    while changed:
        changed = False
        for b in range(n):
            p = set(init) if b == entry else set()
            for (a, t) in edges:
                if t == b:
                    p |= post[a]
            if b in asm:
                p &= asm[b]
            q = set(t for (s, t) in rel[b] if s in p)
            if p != pre[b] or q != post[b]:
                pre[b], post[b] = p, q; changed = True
    return pre, post


def bits(x):
    return set(i for i in range(64) if (x >> i) & 1)


def oracle(line, ans, rng=None):
    if ans in ("ABORT", "MISSING") or ans.startswith("HARNESS"):
        return "%s: the analysis aborted (%s)" % (line, ans)
    pre, post = solve(line)
    parts = ans.split()
    for b, p in enumerate(parts[:len(pre)]):
        a, c = p.split(":")
        pa, pc = bits(int(a)), bits(int(c))
        if pa != pre[b]:
            miss = sorted(pre[b] - pa); extra = sorted(pa - pre[b])
            return ("%s: at the entry of b%d the least solution (= the states that reach it) is %s but the iterator returned %s "
                    "(missing %s, extra %s)" % (line, b, sorted(pre[b]), sorted(pa), miss, extra))
        if pc != post[b]:
            return "%s: at the exit of b%d the least solution is %s but the iterator returned %s" % (line, b, sorted(post[b]), sorted(pc))
    return None


def nontrivial(line, ans):
    """rule: the CFG has a cycle reachable with a non-empty state set and at least two
    blocks receive a non-empty, non-full set"""
    n, S, entry, edges, rel, init, asm = parse(line)
    vals = [p.split(":")[0] for p in ans.split()[:n]]
    ne = [v for v in vals if v not in ("0", str((1 << S) - 1))]
    return len(ne) >= 2 and any(a >= b for (a, b) in edges)
