"""Generators and oracles of the all-native-domains witness search (checks/domall.py).

The histories are the ones of gen/domhist.py, restricted (by post-processing) to the
operations whose concrete meaning is unambiguous over mathematical integers
(DESIGN.md 3.2): unsigned division/remainder become the signed ones, constants are kept
inside the range in which a 64-bit DBM weight cannot overflow (the `big` streams keep
them), bitwise/cast operators are never generated.  The oracle is domhist.oracle
(sampled concrete stores pushed through the same operations), strengthened for
relational domains: after `q_leq s t` the constraints exported by t are fetched and, when
the answer was true, checked on the stores of s."""
import random, zlib, re, zlib
import domhist

OPS_C03 = (["assume"] * 4 + ["bounds"] * 3 + ["assign"] * 4 + ["arith"] * 4 +
           ["forget", "project", "rename", "expand", "join", "join", "meet", "widen", "narrow",
            "copy", "copy", "q_entails", "q_entails", "q_csts", "q_csts", "normalize", "wassign",
            "select", "top", "bot", "widenthr"])
OPS_C04 = (["bounds"] * 3 + ["assume"] * 3 + ["assign"] * 3 + ["arith", "join", "join", "join", "meet", "meet",
            "copy", "forget", "q_leq", "q_leq", "q_leq", "q_leq", "wassign", "widen", "top", "bot", "expand", "project"])
OPS_C05 = ["bounds", "bounds", "assign", "assign", "assume", "assume", "widen", "widen", "widen", "narrow", "widenthr",
           "join", "copy", "q_leq", "arith", "q_csts", "forget"]
OPS_C16 = (["copy"] * 4 + ["bounds"] * 2 + ["assign"] * 3 + ["assume"] * 3 + ["arith"] * 2 +
           ["join", "meet", "widen", "forget", "normalize", "normalize", "q_leq", "q_entails", "q_csts",
            "wassign", "expand", "project", "rename"])
OPS = {"C03": OPS_C03, "C04": OPS_C04, "C05": OPS_C05, "C16": OPS_C16}

# minimal histories of the findings made so far (run first on every domain)
CORPUS = [
    # dis_interval_domain: normalize() took a leading top interval for a duplicate of its sentinel (domall-13):
    # ({-2} | [0,2]) widen ([-3,-1] | {2}) was [0,2]
    "hist 4 2 ; assume 0 2 C le E 1 -1 1 -2 C le E 1 1 1 2 ; assume 3 2 C le E 1 -1 1 0 C le E 1 1 1 -2 ; join 0 0 3 ; assume 1 2 C le E 1 -1 1 2 C le E 1 1 1 -2 ; top 3 ; assume 3 2 C le E 1 -1 1 -3 C le E 1 1 1 1 ; join 1 1 3 ; widen 2 0 1 ; q_leq 0 2 ; q_leq 1 2 ; q_csts 2",
    # powerset inclusion smashed the right operand: {x=5} <= {x=0 or x=10} (domall-12)
    "hist 3 2 ; assign 0 0 E 0 5 ; assign 1 0 E 0 0 ; assign 2 0 E 0 10 ; join 1 1 2 ; q_leq 0 1 ; q_entails 1 C ne E 1 1 0 -5 ; q_csts 1",
    # split_oct::assign left x unchanged (domall-1)
    "hist 2 4 ; assume 0 1 C le E 1 -1 0 -3 ; arith 0 add 0 2 v 3 ; q_csts 0",
    "hist 2 4 ; assume 1 1 C le E 1 -1 2 -1 ; assign 1 2 E 2 7 0 -4096 1 0",
    "hist 4 2 ; assume 2 1 C ne E 1 1 0 0 ; arith 2 srem 1 0 k 1000 ; assign 2 1 E 2 -1 0 -1 1 -1 ; assign 2 1 E 2 2 0 2 1 10 ; q_csts 2",
    # disequations with a rounding division in zones/octagons (domall-2)
    "hist 2 2 ; assume 0 1 C le E 1 -1 0 0 ; assume 0 1 C ne E 1 3 0 1 ; assume 1 1 C le E 1 1 0 0 ; assume 1 1 C ne E 1 3 0 -1",
    # inclusion with a variable bound only on the right: term / uf (domall-3)
    "hist 4 5 ; assign 3 3 E 0 -1 ; q_leq 0 3 ; q_csts 3",
    "hist 3 2 ; assume 0 2 C le E 2 -1 0 -4096 1 -1 C le E 1 -3 0 3 ; q_leq 1 0 ; q_csts 0",
    "hist 2 5 ; assign 0 2 E 1 2 2 0 ; forget 0 1 1 ; expand 0 2 1 ; q_leq 1 0 ; q_csts 0",
    # powerset forget after a join (domall-4)
    "hist 3 5 ; assign 1 1 E 1 1 3 0 ; assign 2 2 E 1 1 4 10 ; join 1 1 2 ; forget 1 1 1",
    # value partitioning: queries with an active partition (domall-5)
    "hist 3 2 ; assign 0 0 E 0 10 ; assign 1 0 E 0 20 ; assign 1 1 E 0 7 ; join 2 0 1 ; q_csts 2 ; q_entails 2 C le E 1 1 0 -20",
    # packing: forget on top packs, double rename, empty meet (domall-6/7/8)
    "hist 2 2 ; assign 0 1 E 2 3 0 2 1 -7 ; forget 0 1 1 ; rename 0 1 0 1",
    "hist 2 5 ; assign 0 4 E 0 0 ; forget 0 1 0 ; rename 0 1 4 0 ; q_csts 0",
    "hist 3 3 ; assign 0 2 E 2 -4096 0 1 2 -5 ; assume 1 1 C lt E 1 -1 2 10 ; assume 0 2 C le E 1 -1 1 -100 C le E 1 1 2 0 ; meet 2 0 1",
    # fixed tvpi: rename, ghost updates (domall-9/10), integrality of the ghosts (known finding)
    "hist 3 3 ; assume 0 2 C le E 1 1 0 -10 C le E 1 -1 1 -5 ; arith 0 sdiv 2 0 k -2",
    "hist 4 4 ; arith 0 mul 3 3 k 2 ; assume 0 1 C le E 1 -1 3 -2",
    "hist 3 2 ; assign 0 0 E 1 3 0 3 ; assign 0 1 E 1 -1 0 1 ; assume 0 3 C le E 1 -1 1 -10 C le E 1 -1 0 -10 C le E 1 -1 0 -3 ; q_at 0 ; q_at 0",
    "hist 2 2 ; assume 0 2 C eq E 1 1000 1 1000 C lt E 1 1 1 0",
    "hist 2 3 ; assume 0 2 C lt E 1 1 0 0 C lt E 1 1 1 0 ; assume 0 1 C le E 3 -1 0 -1 1 2 2 0",
    # term_domain exported `true` for a bottom value made by set_to_bottom()/normalize() (domall-11)
    "hist 3 3 ; bot 0 ; q_csts 0 ; assume 1 1 C le E 1 1 0 10 ; assume 2 1 C le E 1 -1 0 0 ; meet 1 1 2 ; q_csts 1 ; normalize 1 ; q_csts 1",
    # lookahead widening on non-ascending arguments (made ascending for that domain)
    "hist 3 3 ; assume 2 1 C le E 1 1 2 -10 ; assume 1 3 C le E 1 1 2 -10 C le E 1 -1 0 -10 C le E 1 1 2 3 ; widen 0 2 1",
]

SMALLMAP = {2 ** 31: 1000, -(2 ** 31): -1000, 2 ** 62: 4096, -(2 ** 62): -4096, 2 ** 40: 5000}


def ascending_widen(line):
    """x widen y  ->  y := x join y ; x widen y.  lookahead_widening_domain implements the
    operator of Gopan & Reps (CAV'06), which is only defined on ascending arguments."""
    ops = line.split(" ; ")
    out = [ops[0]]
    for o in ops[1:]:
        t = o.split()
        if t[0] in ("widen", "widenthr") and t[2] != t[3]:
            out.append("join %s %s %s" % (t[3], t[2], t[3]))
        out.append(o)
    return " ; ".join(out)


def sanitize(line, big=False, drop=()):
    """restrict a history of domhist.gen_history to the searched fragment"""
    ops = line.split(" ; ")
    out = [ops[0]]
    for o in ops[1:]:
        t = o.split()
        if not t or t[0] in ("bit", "cast") or t[0] in drop:
            continue
        if t[0] == "arith":
            t[2] = {"udiv": "sdiv", "urem": "srem"}.get(t[2], t[2])
            if t[2] in drop:
                continue
            if t[2] in ("sdiv", "srem"):
                # division/remainder by non-zero operands only
                if t[5] == "k" and int(t[6]) == 0:
                    t[6] = "2"
                elif t[5] == "v":
                    out.append("assume %s 1 C ne E 1 1 %s 0" % (t[1], t[6]))
        if t[0] == "expand":
            # precondition of expand in the graph domains: the new variable is unbound
            out.append("forget %s 1 %s" % (t[1], t[3]))
        if not big:
            t = [str(SMALLMAP[int(x)]) if re.match(r"^-?\d{8,}$", x) and int(x) in SMALLMAP else x for x in t]
        out.append(" ".join(t))
    return " ; ".join(out)


def with_csts_after_leq(line):
    """q_leq s t  ->  q_leq s t ; q_csts t ; q_entails t c ; q_entails t c'  and  join/meet r s t -> ... ; q_csts r
    (what the right operand exports or entails must hold on the stores of the left operand when
    the inclusion is answered true; the entailment queries see non-convex values, e.g. the
    disjuncts of a powerset, that exported constraints and at() smash)"""
    ops = line.split(" ; ")
    nv = int(ops[0].split()[2])
    rng = random.Random(zlib.crc32(line.encode()))
    out = [ops[0]]
    for o in ops[1:]:
        out.append(o)
        t = o.split()
        if t[0] == "q_leq":
            out.append("q_csts " + t[2])
            for _ in range(2):
                v = rng.randrange(nv); k = rng.choice([0, 1, -1, 2, 3, 4, 5, 6, -2, -4, 8, 9])
                kind = rng.choice(["ne", "ne", "le"]); sg = rng.choice([1, -1])
                out.append("q_entails %s C %s E 1 %d %d %d" % (t[2], kind, sg, v, -sg * k))
        elif t[0] in ("join", "meet"):
            out.append("q_csts " + t[1])
    return " ; ".join(out)


MUTATING = ("assign", "arith", "assume", "forget", "project", "rename", "expand", "join", "meet", "widen", "widenthr",
            "narrow", "select", "wassign", "copy")


def with_csts(line, rng, p=0.35):
    """fetch the exported constraints after a share of the state-changing operations (the
    only way a relational fact can be compared with the stores)"""
    ops = line.split(" ; ")
    out = [ops[0]]
    for o in ops[1:]:
        out.append(o)
        t = o.split()
        if t[0] in MUTATING and rng.random() < p:
            out.append("q_csts " + t[1])
    return " ; ".join(out)


def with_normalize(line, rng):
    """the same history with normalize()/minimize()/at queries injected at random points;
    returns (new line, indices (in the new op list) of the original ops)"""
    ops = line.split(" ; ")
    nregs = int(ops[0].split()[1])
    out = [ops[0]]
    keep = []
    for o in ops[1:]:
        while rng.random() < 0.3:
            out.append("%s %d" % (rng.choice(["normalize", "minimize", "q_at", "q_csts"]), rng.randrange(nregs)))
        keep.append(len(out) - 1)
        out.append(o)
    return " ; ".join(out), keep


REGPOS = {"join": (1, 2, 3), "meet": (1, 2, 3), "widen": (1, 2, 3), "narrow": (1, 2, 3), "widenthr": (1, 2, 3),
          "copy": (1, 2), "q_leq": (1, 2)}


def twin(line, rng):
    """value semantics of copies: after some operation on register s (preferably a widening, whose
    result carries lazily-normalised state) a copy T := s is made by ASSIGNMENT onto an existing value
    (T is a new last register, first set to some other value), then every later operation on s is
    also applied to T, each pair followed by q_at s ; q_at T (and q_csts): the answers must agree"""
    ops = line.split(" ; ")
    head = ops[0].split()
    nregs = int(head[1]); T = nregs
    head[1] = str(nregs + 1)
    body = ops[1:]
    cand = [i for i, o in enumerate(body) if o.split()[0] in ("widen", "widenthr")]
    if not cand or rng.random() < 0.3:
        cand = [i for i, o in enumerate(body) if not o.startswith("q_")]
    if not cand:
        return None
    i0 = rng.choice(cand)
    s_reg = body[i0].split()[1]
    out = [" ".join(head)] + body[:i0 + 1]
    # T holds some unrelated value first (so that the copy is an assignment, not a construction)
    out.append("assume %d 1 C le E 1 1 0 -3" % T)
    out.append("copy %d %s" % (T, s_reg))
    out.append("q_at %s" % s_reg); out.append("q_at %d" % T)
    if rng.random() < 0.6:
        # an operation whose result depends on the closure of the value: forget one variable on both
        v = rng.randrange(int(head[2]))
        out.append("forget %s 1 %d" % (s_reg, v)); out.append("forget %d 1 %d" % (T, v))
        out.append("q_at %s" % s_reg); out.append("q_at %d" % T)
        out.append("q_csts %s" % s_reg); out.append("q_csts %d" % T)
    for o in body[i0 + 1:]:
        t = o.split()
        out.append(o)
        if t[0].startswith("q_") or t[1] != s_reg:
            continue
        t2 = list(t)
        for pos in REGPOS.get(t[0], (1,)):
            if t2[pos] == s_reg:
                t2[pos] = str(T)
        out.append(" ".join(t2))
        out.append("q_at %s" % s_reg); out.append("q_at %d" % T)
        if rng.random() < 0.5:
            out.append("q_csts %s" % s_reg); out.append("q_csts %d" % T)
    return " ; ".join(out)


def twin_scripted(rng, n):
    """scripted twins: a widening drops a bound that the surviving relation and the other bound still
    imply (the value then needs closure), the result is copied by assignment onto an existing
    value, and an operation whose result depends on the closure (forget of the other variable,
    an entailment, a join with itself) is applied to the original and to the copy"""
    out = []
    for _ in range(n):
        nv = rng.choice([2, 3])
        x, y = rng.sample(range(nv), 2)
        d = rng.randint(0, 3); bx = rng.randint(-5, 10); by = bx + d - rng.randint(1, 6)
        up = rng.random() < 0.6
        sg = 1 if up else -1
        # relation: sg*(y - x) <= d ; bounds sg*x <= bx, sg*y <= by  (by tighter than what relation + bx imply)
        rel = "C le E 2 %d %d %d %d %d" % (-sg, x, sg, y, -d) if x < y else "C le E 2 %d %d %d %d %d" % (sg, y, -sg, x, -d)
        cbx = "C le E 1 %d %d %d" % (sg, x, -bx); cby = "C le E 1 %d %d %d" % (sg, y, -by)
        ops = ["assume 0 3 %s %s %s" % (cbx, rel, cby), "assume 1 2 %s %s" % (cbx, rel), "widen 2 0 1",
               "assume 3 1 C le E 1 1 0 -3", "copy 3 2", "q_at 2", "q_at 3"]
        k = rng.random()
        if k < 0.5:
            ops += ["forget 2 1 %d" % x, "forget 3 1 %d" % x]
        elif k < 0.75:
            ops += ["join 2 2 2", "join 3 3 3", "forget 2 1 %d" % x, "forget 3 1 %d" % x]
        else:
            ops += ["assume 2 1 C le E 1 %d %d %d" % (-sg, y, bx + d + 1), "assume 3 1 C le E 1 %d %d %d" % (-sg, y, bx + d + 1)]
        ops += ["q_at 2", "q_at 3", "q_csts 2", "q_csts 3"]
        out.append("hist 4 %d ; %s" % (nv, " ; ".join(ops)))
    return out


def lazy_join_scripted(rng, n):
    """a widening result W that still implies a dropped relation (z - x <= a + b from y - x <= a and
    z - y <= b) is the RIGHT operand of a join, once as it is and once after normalize(): the two
    joins must answer alike (registers 5 and 6; 6 is the last one, as the twin oracle expects)"""
    out = []
    for _ in range(n):
        x, y, z = rng.sample(range(3), 3)
        a, b = rng.randint(0, 3), rng.randint(0, 3); c = a + b - rng.randint(1, 3)
        def le(u, v, k): return ("C le E 2 1 %d -1 %d %d" % (u, v, -k)) if u < v else ("C le E 2 -1 %d 1 %d %d" % (v, u, -k))
        rel = "%s %s" % (le(y, x, a), le(z, y, b))
        ops = ["assume 0 3 %s %s" % (rel, le(z, x, c)), "assume 1 2 %s" % rel, "widen 2 0 1",
               "copy 3 2", "normalize 3"]
        for v in range(3):
            ops.append("assign 4 %d E 0 %d" % (v, rng.randint(-1, 1)))
        ops += ["join 5 4 2", "join 6 4 3", "q_at 5", "q_at 6", "q_csts 5", "q_csts 6",
                "q_entails 5 %s" % le(z, x, a + b), "q_entails 6 %s" % le(z, x, a + b)]
        out.append("hist 7 3 ; " + " ; ".join(ops))
    return out


def twin_oracle(line, ans):
    """consecutive  q_at s ; q_at T  /  q_csts s ; q_csts T  (T = the last register) must agree"""
    if ans.startswith("ABORT") or ans == "MISSING" or ans.startswith("HARNESS-ERROR"):
        return None
    ops = line.split(" ; ")
    T = str(int(ops[0].split()[1]) - 1)
    answers = ans.split(" ; ")
    body = ops[1:]
    for i in range(len(body) - 1):
        a, b = body[i].split(), body[i + 1].split()
        if a[0] in ("q_at", "q_csts", "q_entails") and b[0] == a[0] and b[1] == T and a[1] != T and a[2:] == b[2:] and i + 1 < len(answers):
            x, y = answers[i], answers[i + 1]
            if a[0] == "q_csts":
                x = ",".join(sorted(x[1:-1].split(","))); y = ",".join(sorted(y[1:-1].split(",")))
            if x != y:
                return ("step %d (%s) of: %s: register %s is a copy of register %s and has seen the same operations, "
                        "but it answers %s where the original answers %s" % (i + 2, body[i + 1], line, T, a[1], answers[i + 1], answers[i]))
    return None


def with_sign_probes(line, rng, p=0.3):
    """after an assignment / arithmetic operation on (register r, variable x): entailment queries about the
    sign of x (x != 0, x <= -1, x >= 1, x <= 0, x >= 0).  Domains whose at() is weak (sign, constant,
    congruence ...) are observable through them; a wrong 'true' is caught on the sampled stores."""
    ops = line.split(" ; ")
    out = [ops[0]]
    for o in ops[1:]:
        out.append(o)
        t = o.split()
        if t[0] in ("assign", "arith", "bit", "wassign", "select") and rng.random() < p:
            r = t[1]; x = t[3] if t[0] in ("arith", "bit") else t[2]
            for c in rng.sample(["C ne E 1 1 %s 0", "C le E 1 1 %s 1", "C le E 1 -1 %s 1", "C le E 1 1 %s 0", "C le E 1 -1 %s 0"], 2):
                out.append("q_entails %s %s" % (r, c % x))
    return " ; ".join(out)


def histories(seed, prop, n, big=False, drop=(), maxvars=5, maxops=30, asc_widen=False, rel=False):
    """n histories; for a relational domain every second one is written in the octagon
    language (unit coefficients, x-y / x+y constraints, x := y + k assignments), which
    keeps the states relational for longer than arbitrary linear constraints do"""
    rng = random.Random(seed)
    opts = {"ops": OPS[prop], "maxvars": maxvars, "maxops": maxops, "minops": 4}
    opts_rel = dict(opts, lang="oct", maxvars=4)
    out = []
    for i in range(n):
        l = sanitize(domhist.gen_history(rng, opts_rel if (rel and i % 2) else opts), big, drop)
        if prop == "C04":
            l = with_csts_after_leq(l)
        elif rel:
            l = with_csts(l, rng)
        if prop == "C03":
            l = with_sign_probes(l, rng)
        if asc_widen:
            l = ascending_widen(l)
        out.append(l)
    return out


def box_joins(seed, n):
    """scripted binary-operation cases on the case splits of the graph joins: two registers hold
    boxes (constants or finite bounds per variable, sometimes one difference constraint), the
    bounds of each variable go up or down from the left to the right operand independently;
    then join / widening / meet into a third register, its exported constraints and the
    inclusion of both operands are queried"""
    rng = random.Random(seed)
    out = []
    for _ in range(n):
        nv = rng.choice([2, 2, 3, 4])
        ops = []
        for r in (0, 1):
            for x in range(nv):
                c = rng.randint(-3, 3)
                if rng.random() < 0.6:
                    ops.append("assign %d %d E 0 %d" % (r, x, c))
                else:
                    w = rng.randint(0, 3)
                    ops.append("assume %d 2 C le E 1 -1 %d %d C le E 1 1 %d %d" % (r, x, c, x, -(c + w)))
            if nv >= 2 and rng.random() < 0.3:
                a, b = rng.sample(range(nv), 2)
                ops.append("assume %d 1 C le E 2 1 %d -1 %d %d" % (r, a, b, rng.randint(-2, 2)))
        op = rng.choice(["join", "join", "join", "widen", "meet"])
        ops.append("%s 2 0 1" % op)
        ops.append("q_csts 2")
        # what the result claims about the sign of each variable must hold on both operands' stores
        for x in range(nv):
            for c in rng.sample(["C ne E 1 1 %d 0", "C le E 1 1 %d 1", "C le E 1 -1 %d 1", "C le E 1 1 %d 0", "C le E 1 -1 %d 0"], 2):
                ops.append("q_entails 2 %s" % (c % x))
        if op != "meet":
            ops.append("q_leq 0 2"); ops.append("q_leq 1 2")
        else:
            ops.append("q_leq 2 0"); ops.append("q_leq 2 1")
        ops.append("q_csts 2")
        # a third box, usually not inside the result: when the inclusion is answered true, whatever
        # the result entails (e.g. x != c for a value between two disjuncts) must hold on it
        c3 = [rng.randint(-3, 3) for _ in range(nv)]
        for x in range(nv):
            ops.append("assign 3 %d E 0 %d" % (x, c3[x]))
        ops.append("q_leq 3 2")
        for x in range(nv):
            ops.append("q_entails 2 C ne E 1 1 %d %d" % (x, -c3[x]))
        out.append("hist 4 %d ; %s" % (nv, " ; ".join(ops)))
    return out


def dis_widen(seed, n):
    """scripted widenings on the case splits of the disjunctive domains: each operand is a join of
    1..3 pairwise disjoint boxes (so a disjunctive value keeps 1..3 disjuncts), all combinations of
    one / several disjuncts on either side; then widening (with or without thresholds) into a third
    register, inclusion of both operands, and a second widening step with the same right operand"""
    rng = random.Random(seed)
    out = []
    for i in range(n):
        nv = rng.choice([1, 2, 2])
        k0, k1 = [(1, 2), (1, 3), (2, 1), (2, 2), (1, 1), (3, 2)][i % 6]
        pts = sorted(rng.sample(range(-14, 15), 8))
        pieces = [(pts[2 * j], pts[2 * j + 1] if rng.random() < 0.6 else pts[2 * j]) for j in range(4)]
        ops = []
        for r, kk in ((0, k0), (1, k1)):
            mine = sorted(rng.sample(pieces, kk)) if (r == 0 or rng.random() < 0.4) else None
            if mine is None:
                # usually the right operand contains the left one's disjuncts
                rest = [q for q in pieces if q not in left]
                mine = sorted(left[:kk] + rng.sample(rest, max(0, kk - len(left))))[:max(kk, 1)]
            if r == 0:
                left = mine
            for j, (lo, hi) in enumerate(mine):
                t = r if j == 0 else 3
                ops.append("top %d" % t)
                ops.append("assume %d 2 C le E 1 -1 0 %d C le E 1 1 0 %d" % (t, lo, -hi))
                for x in range(1, nv):
                    c = rng.randint(-3, 3); w = rng.choice([0, 0, 2])
                    ops.append("assume %d 2 C le E 1 -1 %d %d C le E 1 1 %d %d" % (t, x, c, x, -(c + w)))
                if j > 0:
                    ops.append("join %d %d 3" % (r, r))
        if rng.random() < 0.5:
            w = "widen 2 %s 1"
        else:
            thr = sorted(rng.sample(range(-20, 21), rng.randint(1, 3)))
            w = "widenthr 2 %%s 1 %d %s" % (len(thr), " ".join(map(str, thr)))
        ops.append(w % "0"); ops.append("q_leq 0 2"); ops.append("q_leq 1 2"); ops.append("q_csts 2")
        ops.append(w % "2"); ops.append("q_leq 1 2"); ops.append("q_csts 2")
        out.append("hist 4 %d ; %s" % (nv, " ; ".join(ops)))
    return out


# x<0 and x>0 in both forms (x <= -1 / x < 0): the sign domain only understands comparisons with 0
SIGN_CLASSES = ["C lt E 1 1 %d 0", "C le E 1 1 %d 1", "C le E 1 1 %d 0", "C eq E 1 1 %d 0", "C le E 1 -1 %d 0", "C lt E 1 -1 %d 0",
                "C le E 1 -1 %d 1", "C ne E 1 1 %d 0", None]


def sign_cases(seed, n):
    """x and y pinned to a sign class each (<0, <=0, =0, >=0, >0, !=0, unknown), z := x op y, then the
    five sign probes on z and a final assume on z; dense sample of small stores"""
    rng = random.Random(seed)
    out = []
    for _ in range(n):
        cx, cy = rng.choice(SIGN_CLASSES), rng.choice(SIGN_CLASSES)
        ops = []
        if cx: ops.append("assume 0 1 %s" % (cx % 0))
        if cy: ops.append("assume 0 1 %s" % (cy % 1))
        f = rng.choice(["mul", "mul", "add", "sub", "sdiv", "srem"])
        ops.append("arith 0 %s 2 0 v 1" % f)
        for c in ["C ne E 1 1 %d 0", "C le E 1 1 %d 1", "C le E 1 -1 %d 1", "C le E 1 1 %d 0", "C le E 1 -1 %d 0"]:
            ops.append("q_entails 0 %s" % (c % 2))
        ops.append("assume 0 1 %s" % (rng.choice(SIGN_CLASSES[:8]) % 2))
        ops.append("q_at 0")
        out.append("hist 2 3 ; " + " ; ".join(ops))
    return out


def sign_lattice(seed, n):
    """two registers whose variable is pinned to a sign class each; join / widening / meet in both orders;
    the five sign probes on the result; inclusion of the operands.  All pairs of classes with join in
    both orders come first (162 cases), then the other operations."""
    rng = random.Random(seed)
    combos = [(c0, c1, "join", o) for c0 in SIGN_CLASSES for c1 in SIGN_CLASSES for o in ((0, 1), (1, 0))]
    rest = [(c0, c1, op, o) for c0 in SIGN_CLASSES for c1 in SIGN_CLASSES for op in ("widen", "meet") for o in ((0, 1), (1, 0))]
    rng.shuffle(rest)
    combos += rest
    out = []
    for (c0, c1, op, (a, b)) in combos[:n]:
        ops = []
        if c0: ops.append("assume 0 1 %s" % (c0 % 0))
        if c1: ops.append("assume 1 1 %s" % (c1 % 0))
        ops.append("%s 2 %d %d" % (op, a, b))
        for c in ["C ne E 1 1 %d 0", "C le E 1 1 %d 1", "C le E 1 -1 %d 1", "C le E 1 1 %d 0", "C le E 1 -1 %d 0"]:
            ops.append("q_entails 2 %s" % (c % 0))
        if op != "meet":
            ops += ["q_leq 0 2", "q_leq 1 2"]
        else:
            ops += ["q_leq 2 0", "q_leq 2 1"]
        ops.append("q_at 2")
        out.append("hist 3 2 ; " + " ; ".join(ops))
    return out


def cong_meets(seed, n):
    """scripted meets of two arithmetic progressions x = A*k1 + a and x = B*k2 + b (moduli not coprime,
    remainders different, a common element exists), then the result is pinned to a common element
    (must not be bottom) and to an element of one operand only; with a dense sample of small stores"""
    rng = random.Random(seed)
    out = []
    import math
    while len(out) < n:
        A, B = rng.choice([2, 4, 6, 3, 8, 9, 12]), rng.choice([4, 6, 10, 8, 9, 12, 15])
        g = math.gcd(A, B)
        if g == 1:
            continue
        a = rng.randrange(A); b = a % g + g * rng.randrange(B // g)
        if a == b:
            continue
        com = [v for v in range(-7, 8) if v % A == a % A and v % B == b % B]
        if not com:
            continue
        V = rng.choice(com)
        ops = ["arith 0 mul 0 1 k %d" % A, "arith 0 add 0 0 k %d" % a,
               "arith 1 mul 0 2 k %d" % B, "arith 1 add 0 0 k %d" % b,
               rng.choice(["meet 2 0 1", "meet 2 1 0"]), "q_at 2",
               "assume 2 1 C eq E 1 1 0 %d" % (-V), "q_at 2"]
        out.append("hist 3 3 ; " + " ; ".join(ops))
    return out


# ---------------------------------------------------------------- widening chains

def rel_cst(rng, nv, shape):
    """a random octagonal / linear constraint with a constant in a growing window"""
    k = rng.randint(-60, 60)
    x = rng.randrange(nv)
    if nv < 2 or shape < 0.3:
        return "C le E 1 %d %d %d" % (rng.choice([1, -1]), x, k)
    y = rng.choice([v for v in range(nv) if v != x])
    a, b = min(x, y), max(x, y)
    if shape < 0.65:
        s = rng.choice([1, -1])
        return "C le E 2 %d %d %d %d %d" % (s, a, -s, b, k)
    if shape < 0.9:
        return "C le E 2 %d %d %d %d %d" % (rng.choice([1, -1]), a, rng.choice([1, -1]), b, k)
    return "C le E 2 %d %d %d %d %d" % (rng.choice([1, -1, 2, -2]), a, rng.choice([1, -1, 3, -3]), b, k)


def rel_chains(seed, n, steps=None, maxvars=3, k=1):
    """r0 := r0 widen r1, repeatedly.  r1 is re-made at every step: mostly as a transformed
    copy of r0 (the way an analysis produces the next iterate; most transformations are
    x := x +- c, under which a join would grow for ever), sometimes as a fresh bounded box
    with relational constraints.  After each step: stationarity (q_leq 0 2 with r2 the old
    value), the exported constraints, and q_leq 1 0.  The number of steps is three times
    the stabilisation bound of the chain (chain_bound) unless given."""
    rng = random.Random(seed)
    out = []
    for ci in range(n):
        thr = ci >= 2 and k == 1 and rng.random() < 0.3      # with ghost dimensions the threshold bound exceeds any practical length
        nv = rng.randint(1, 2 if thr else maxvars) if ci >= 2 else 2
        ths = sorted(set(rng.choice([-100, -10, 10, 50, 1000]) for _ in range(rng.randint(1, 2)))) if thr else []
        nsteps = steps or (3 * chain_bound(nv, len(ths), k) + 10)
        ops = []
        if not thr and nv >= 2 and (ci < 2 or rng.random() < 0.3):
            # staircase: the iterates keep |v_a - v_b| <= d while the two upper (or lower) bounds are
            # raised in turn; a widening that re-derives a dropped bound from the kept relation and
            # the other bound (e.g. by closing its left argument) never stabilises on it
            a, b = rng.sample(range(nv), 2); d = rng.choice([1, 1, 2]); base = rng.randint(-3, 3); up = (rng.random() < 0.7) if ci >= 2 else (ci == 0)
            # the relation first, the bounds last: the difference constraints stay explicit edges
            ops.append("assume 0 2 C le E 2 1 %d -1 %d %d C le E 2 -1 %d 1 %d %d" % (a, b, -d, a, b, -d))
            for v in range(nv):
                ops.append("assume 0 2 C le E 1 -1 %d %d C le E 1 1 %d %d" % (v, base, v, -base))
            for i in range(nsteps):
                # Y_i: both bounds at base + i (the first one raises only v_a): under a widening that
                # re-derives the dropped bound as (other bound + d) exactly one bound is unstable per step
                ha, hb = (1, 0) if i == 0 else (i, i)
                ops.append("top 1")
                ops.append("assume 1 2 C le E 2 1 %d -1 %d %d C le E 2 -1 %d 1 %d %d" % (a, b, -d, a, b, -d))
                for v, h in ((a, ha), (b, hb)):
                    lo, hi = (base, base + h) if up else (base - h, base)
                    ops.append("assume 1 2 C le E 1 -1 %d %d C le E 1 1 %d %d" % (v, lo, v, -hi))
                for v in range(nv):
                    if v not in (a, b):
                        ops.append("assume 1 1 C eq E 1 1 %d %d" % (v, -base))
                # queries on a copy: the chain value is only ever an argument of the widening, as in the engine
                ops.append("copy 2 0"); ops.append("widen 0 0 1"); ops.append("copy 3 0")
                ops.append("q_leq 3 2"); ops.append("q_csts 3"); ops.append("q_leq 1 3")
            out.append("hist 4 %d ; %s" % (nv, " ; ".join(ops)))
            continue
        for v in range(nv):
            ops.append("assign 0 %d E 0 %d" % (v, rng.randint(-5, 5)))
        for _ in range(nsteps):
            if rng.random() < 0.2:
                ops.append("top 1")
                for v in range(nv):
                    if rng.random() < 0.9:
                        a = rng.randint(-40, 40); b = a + rng.randint(0, 30)
                        ops.append("assume 1 2 C le E 1 -1 %d %d C le E 1 1 %d %d" % (v, a, v, -b))
                m = rng.randint(0, 3)
                if m:
                    ops.append("assume 1 %d %s" % (m, " ".join(rel_cst(rng, nv, rng.random()) for _ in range(m))))
            else:
                ops.append("copy 1 0")
                for _ in range(rng.randint(1, 2)):
                    x = rng.randrange(nv); y = rng.randrange(nv)
                    if rng.random() < 0.65:
                        ops.append("arith 1 %s %d %d k %d" % (rng.choice(["add", "sub"]), x, x, rng.choice([1, 1, 2, 5])))
                    else:
                        ops.append(rng.choice([
                            "assign 1 %d E 1 1 %d %d" % (x, y, rng.choice([1, -1, 2, 3])),
                            "arith 1 add %d %d v %d" % (x, y, rng.randrange(nv)),
                            "arith 1 sub %d %d v %d" % (x, y, rng.randrange(nv)),
                            "assume 1 1 %s" % rel_cst(rng, nv, rng.random()),
                        ]))
            ops.append("copy 2 0")
            if thr:
                ops.append("widenthr 0 0 1 %d %s" % (len(ths), " ".join(map(str, ths))))
            else:
                ops.append("widen 0 0 1")
            ops.append("q_leq 0 2")
            ops.append("q_csts 0")
            ops.append("q_leq 1 0")
        out.append("hist 3 %d ; %s" % (nv, " ; ".join(ops)))
    return out


def chain_bound(nv, nthr, k=1):
    """generous bound on the number of non-stationary steps of a widening chain over nv
    variables: every constraint +-x+-y<=c / +-x<=c over k*nv dimensions (k = 3 for the
    fixed-tvpi ghosts) may be relaxed once per threshold and dropped once, plus slack for
    the first (bottom/initial) steps"""
    d = k * nv
    return (2 * d * d + 2 * d) * (nthr + 1) + 8


def rel_chain_oracle(line, ans, rng=None, k=1, sound=True, complete_leq=False):
    """soundness of every step (domhist.oracle) + stabilisation.  A step is
    widen ; q_leq 0 2 ; q_csts 0 ; q_leq 1 0 (nothing in between).  It is stationary if the
    new value is included in the old one according to the domain's own inclusion test
    (q_leq 0 2, what the fixpoint engine uses to stop).  Steps whose printed value
    (intervals and exported constraints) did not change but whose inclusion test still
    answers false are counted separately: an engine would not stop on them either.
    `q_leq 1 0` = false (second argument not below the result) is a defect only for a
    domain whose inclusion test is complete; soundness of the result is checked on the
    stores in any case."""
    if ans.startswith("ABORT") or ans == "MISSING" or ans.startswith("HARNESS-ERROR"):
        return None
    ans = drop_ghost_csts(ans)
    if sound:
        w = domhist.oracle(line, ans, rng)
        if w:
            return w
    ops = line.split(" ; ")
    nv = int(ops[0].split()[2])
    answers = ans.split(" ; ")
    ns = 0; ns_print = 0; steps = 0
    prev = None; cur = None
    tail = 0
    for i, o in enumerate(ops[1:]):
        if i >= len(answers):
            break
        a = answers[i]
        if o.startswith("widen"):
            cur = [a]
        elif o == "copy 3 0" and cur is not None:
            pass        # the queries are made on a copy (register 3): the chain value itself is not touched
        elif not o.startswith("q_"):
            cur = None
        elif o in ("q_leq 0 2", "q_leq 3 2") and cur is not None and len(cur) == 1:
            cur.append(a)
        elif o in ("q_csts 0", "q_csts 3") and cur is not None and len(cur) == 2:
            cur.append(",".join(sorted(a[1:-1].split(","))))
        elif o in ("q_leq 1 0", "q_leq 1 3") and cur is not None and len(cur) == 3:
            steps += 1
            if a == "false" and complete_leq:
                return "step %d (q_leq 1 0) of: %s: the second argument of a widening is not included in its result" % (i + 1, line)
            if cur[1] != "true":
                ns += 1; tail = steps
                if not (prev is not None and (cur[0], cur[2]) == (prev[0], prev[2])):
                    ns_print += 1
            prev = cur; cur = None
    nthr = max([int(o.split()[4]) for o in ops[1:] if o.startswith("widenthr")] + [0])
    bound = chain_bound(nv, nthr, k)      # the two boolean variables are never constrained
    if ns > bound:
        return ("step %d (widen) of: %s: %d non-stationary widening steps out of %d (bound %d for %d variables), the last at step %d; "
                "in %d of them the printed value changed: the chain does not stabilise%s"
                % (len(ops) - 1, line, ns, steps, bound, nv, tail, ns_print,
                   "" if ns_print > bound else " according to the domain's own inclusion test (x widen y <= x keeps answering false on a value that no longer changes)"))
    return None


# ---------------------------------------------------------------- "lin": decomposition of linear constraints

LIN_COEFS = [1, -1, 2, -2, 3, -3, 5, -5]


def lin_histories(seed, n):
    """short histories aimed at the decomposition of a general linear constraint into bounds
    and difference/octagonal constraints: bounds on 2-4 variables (each side present with
    probability 3/4, values in [-20,20]), then 1-2 linear (in)equalities with coefficients
    in {+-1,+-2,+-3,+-5} over 1-3 variables and constants in [-40,40], then the exported
    constraints and entailment queries of difference constraints and bounds"""
    rng = random.Random(seed)
    out = []
    for _ in range(n):
        nv = rng.randint(2, 4)
        ops = []
        bs = []
        wit = [rng.randint(-30, 30) for _ in range(nv)]       # a store meant to satisfy most of the history
        for v in rng.sample(range(nv), rng.randint(2, nv)):
            lo = rng.randint(-20, 20); hi = rng.randint(lo, 20)
            wit[v] = rng.randint(lo, hi)
            if rng.random() < 0.75:
                bs.append("C le E 1 -1 %d %d" % (v, lo))
            if rng.random() < 0.75:
                bs.append("C le E 1 1 %d %d" % (v, -hi))
        if bs:
            if rng.random() < 0.5:
                ops.append("assume 0 %d %s" % (len(bs), " ".join(bs)))
            else:
                ops += ["assume 0 1 " + b for b in bs]
        gs = []
        for _ in range(rng.randint(1, 2)):
            vs = sorted(rng.sample(range(nv), rng.randint(1, min(3, nv))))
            kind = rng.choice(["le"] * 7 + ["eq"] * 2 + ["lt"])
            cf = [rng.choice(LIN_COEFS) for _ in vs]
            if rng.random() < 0.8:
                # constant chosen around the witness store (slack -8..2: mostly satisfiable, sometimes tight or violated)
                k = -sum(c * wit[v] for c, v in zip(cf, vs)) + (0 if kind == "eq" else rng.randint(-8, 2))
                k = max(-40, min(40, k))
            else:
                k = rng.randint(-40, 40)
            gs.append("C %s E %d %s%d" % (kind, len(vs), "".join("%d %d " % (c, v) for c, v in zip(cf, vs)), k))
        if len(gs) == 2 and rng.random() < 0.3:
            ops.append("assume 0 2 " + " ".join(gs))
        else:
            ops += ["assume 0 1 " + g for g in gs]
        ops.append("q_csts 0")
        for _ in range(rng.randint(2, 3)):
            a, b = rng.sample(range(nv), 2)
            if rng.random() < 0.7:
                ops.append("q_entails 0 C le E 2 1 %d -1 %d %d" % (a, b, rng.randint(-40, 40)))
            else:
                ops.append("q_entails 0 C le E 1 %d %d %d" % (rng.choice([1, -1]), a, rng.randint(-30, 30)))
        out.append("hist 2 %d ; %s" % (nv, " ; ".join(ops)))
    return out


_LIN_CACHE = {}


def lin_samples(line, nsamples=450, span=45):
    """dense joint samples for a `lin` history: every variable is drawn from its box (the
    unary unit constraints of the history) cut to [-span, span]; for every other constraint
    points on and next to its boundary are added.  Returns the list, per operation, of the
    stores that satisfy all the assumes up to it."""
    if line in _LIN_CACHE:
        return _LIN_CACHE[line]
    ops = [o.split() for o in line.split(" ; ")]
    nv = int(ops[0][2])
    rng = random.Random(zlib.crc32(line.encode()))
    lo = [-span] * nv; hi = [span] * nv
    general = []
    assumes = []
    for o in ops[1:]:
        if o[0] != "assume":
            assumes.append(None)
            continue
        k = domhist.Tok(o); k.next(); k.next()
        cs = [domhist.p_cst(k) for _ in range(k.nexti())]
        assumes.append(cs)
        for kind, (terms, c) in cs:
            if len(terms) == 1 and abs(terms[0][0]) == 1 and kind == "le":
                a, v = terms[0]
                if a == 1:
                    hi[v] = min(hi[v], -c)
                else:
                    lo[v] = max(lo[v], c)
            else:
                general.append((kind, (terms, c)))
    pts = set()
    if all(lo[v] <= hi[v] for v in range(nv)):
        for _ in range(nsamples):
            pts.add(tuple(rng.randint(lo[v], hi[v]) for v in range(nv)))
        corners = [[lo[v], hi[v], (lo[v] + hi[v]) // 2] for v in range(nv)]
        for _ in range(60):
            pts.add(tuple(rng.choice(corners[v]) for v in range(nv)))
        base = list(pts)
        for kind, (terms, c) in general:
            for s in rng.sample(base, min(len(base), 120)):
                a, v = rng.choice(terms)
                rest = sum(x * s[w] for x, w in terms if w != v) + c
                q = -rest // a
                for d in (-1, 0, 1):
                    t = list(s); t[v] = q + d
                    if -4 * span <= t[v] <= 4 * span:
                        pts.add(tuple(t))
    S = [p + (0, 0) for p in pts]
    seq = []
    for cs in assumes:
        if cs is not None:
            S = [s for s in S if all(domhist.holds(c, s) for c in cs)]
        seq.append(S)
    _LIN_CACHE[line] = seq
    if len(_LIN_CACHE) > 5000:
        _LIN_CACHE.clear()
    return seq


def lin_oracle(line, ans):
    """(witness or None, final sample set non-empty?) for a `lin` history: all operations act
    on register 0 and are assume / q_csts / q_entails"""
    if ans.startswith("ABORT") or ans == "MISSING" or ans.startswith("HARNESS-ERROR"):
        return None, False
    ans = drop_ghost_csts(ans)
    seq = lin_samples(line)
    ops = [o.split() for o in line.split(" ; ")][1:]
    answers = ans.split(" ; ")
    nonempty = bool(seq and seq[-1])
    for i, (o, S) in enumerate(zip(ops, seq)):
        if i >= len(answers):
            break
        a = answers[i]
        where = "step %d (%s) of: %s" % (i + 1, " ".join(o), line)
        if o[0] == "assume":
            st = domhist.parse_state(a)
            if st == "bot":
                if S:
                    return "%s: the value is bottom but store %s is reachable by the same concrete operations" % (where, list(S[0])), nonempty
                continue
            for s in S:
                for v in range(min(len(s), len(st))):
                    if st[v] is not None and not domhist.in_itv(st[v], s[v]):
                        return "%s: at(v%d) = %s but reachable store %s has v%d = %d" % (where, v, st[v], list(s), v, s[v]), nonempty
        elif o[0] == "q_csts" and a.startswith("{"):
            body = a[1:-1]
            for c in ([domhist.parse_ans_cst(x) for x in body.split(",")] if body else []):
                for s in S:
                    if not domhist.holds(c, s):
                        return "%s: exported constraint %s is violated by reachable store %s" % (where, c, list(s)), nonempty
        elif o[0] == "q_entails" and a == "true":
            k = domhist.Tok(o); k.next(); k.next()
            c = domhist.p_cst(k)
            for s in S:
                if not domhist.holds(c, s):
                    return "%s: entails answered true but store %s (reachable by the same concrete operations) violates it" % (where, list(s)), nonempty
    return None, nonempty


# ---------------------------------------------------------------- "bool": boolean operations

# minimal histories of the boolean findings (run first on every domain)
BOOL_CORPUS = [
    # dual_set_domain::at in the wrong direction: havoc of a boolean leaves it in the sets of size >= 2 of the others (bool-1)
    "hist 2 2 3 ; bbin 0 and 2 0 1 ; havoc 0 3 ; bassume 0 2 0 ; q_bat 0 1",
    "hist 2 2 3 ; bbin 0 and 2 0 1 ; bforget 0 0 ; bassume 0 2 0 ; q_bat 0 0",
    # a constraint whose variable changed is revived when another boolean is assigned from a constraint over the
    # same variable, or by the meet with a value in which the variable is unchanged (bool-2)
    "hist 2 2 ; bassign 0 0 C le E 1 1 0 0 ; assign 0 0 E 0 5 ; bassign 0 1 C le E 1 1 0 -10 ; bassume 0 0 0 ; q_bat 0 0 ; q_bat 0 1",
    "hist 3 2 ; bassign 0 0 C le E 1 1 0 0 ; arith 0 add 0 0 k 10 ; bassign 1 1 C le E 1 -1 0 3 ; meet 2 0 1 ; bassume 2 0 0 ; q_at 2",
    "hist 3 2 ; bassign 0 0 C le E 1 1 0 0 ; arith 0 add 0 0 k 10 ; bassign 1 1 C le E 1 -1 0 3 ; narrow 2 0 1 ; bassume 2 0 0 ; q_at 2",
    # forget / project / rename / expand return early when the product is top although constraints are remembered (bool-3)
    "hist 2 2 ; bassign 0 0 C le E 1 1 0 0 ; forget 0 1 0 ; bassume 0 0 0",
    "hist 2 2 ; bassign 0 0 C le E 1 1 0 0 ; project 0 1 1 ; bassume 0 0 0",
    "hist 2 2 ; bassign 0 0 C le E 1 1 0 0 ; forget 0 1 0 ; expand 0 1 0 ; bassume 0 0 0",
    "hist 2 2 ; bassign 0 0 C le E 1 1 0 0 ; forget 0 1 0 ; rename 0 1 1 0 ; bassume 0 0 0",
    # b := constant constraint / not b' with nothing remembered for b' / trunc keep what was remembered for b (bool-4)
    "hist 2 2 ; bassign 0 0 C le E 1 1 0 0 ; bassign 0 0 C le E 0 0 ; bassume 0 0 0",
    "hist 2 2 ; bassign 0 0 C le E 1 1 0 0 ; bforget 0 1 ; bcopy 0 0 1 1 ; bassume 0 0 0",
    "hist 2 2 ; bassign 0 0 C le E 1 1 0 0 ; bfromint 0 0 1 ; bassume 0 0 0 ; q_at 0",
    # b1 := b0 ; b0 := ... ; assume(b1) makes the new b0 true (bool-5)
    "hist 2 2 ; bcopy 0 1 0 0 ; bassign 0 0 C le E 1 1 0 0 ; bassume 0 1 0 ; q_bat 0 0",
    "hist 2 2 3 ; bbin 0 and 2 0 1 ; bcopy 0 0 0 1 ; bassume 0 2 0 ; q_bat 0 0",
    # inclusion ignores the remembered constraints (bool-6)
    "hist 3 2 ; bassign 1 0 C le E 1 1 0 0 ; q_leq 0 1 ; leqprobe 2 0 1 0 0",
    "hist 3 2 ; bcopy 1 1 0 0 ; q_leq 0 1 ; leqprobe 2 0 1 1 0",
    # negation of a constraint that is only implied by the result of select_bool (bool-7)
    "hist 2 2 4 ; bassign 0 0 C le E 1 1 0 0 ; bforget 0 1 ; bassign 0 3 C lt E 0 0 ; bselect 0 2 0 1 3 ; bcopy 0 3 2 1 ; bassume 0 3 0 ; q_bat 0 2",
    "hist 2 2 4 ; bassign 0 0 C le E 1 1 0 0 ; bforget 0 1 ; bassign 0 3 C lt E 0 0 ; bselect 0 2 0 3 1 ; bcopy 0 3 2 1 ; bassume 0 3 0 ; q_bat 0 2",
    # select_bool with lhs = cond reads the new value of cond (bool-8)
    "hist 2 2 3 ; bassign 0 0 C lt E 0 0 ; bassign 0 1 C le E 1 1 0 0 ; bassign 0 2 C le E 0 0 ; bselect 0 0 0 1 2 ; bassume 0 0 0 ; q_bat 0 1",
    "hist 4 3 3 ; assign 0 0 E 0 -1 ; assign 0 1 E 0 -1 ; assume 0 1 C le E 1 -1 2 0 ; bassign 0 0 C le E 2 1 0 -1 2 -1 ; bassign 0 2 C lt E 1 -1 1 3 ; bselect 0 0 0 2 0 ; bcopy 0 1 0 1 ; bassume 0 1 0",
    # numerical domains: boolean assignments are no-ops, b := trunc(v) is not
    "hist 2 2 ; assign 0 0 E 0 1 ; bfromint 0 0 0 ; bassign 0 0 C le E 1 1 1 0 ; q_bat 0 0 ; cast 0 zext 1 2 ; q_at 0",
    "hist 2 2 ; cast 0 zext 0 2 ; bcopy 0 0 0 1 ; cast 0 zext 1 2 ; q_csts 0",
    # plain reductions that must stay sound
    "hist 2 2 ; bassign 0 0 C le E 1 1 0 0 ; bassume 0 0 0 ; q_at 0 ; q_csts 0 ; q_entails 0 C le E 1 1 0 0",
    "hist 2 2 ; bassign 0 0 C le E 1 1 0 0 ; bassume 0 0 1 ; q_at 0 ; q_csts 0",
    "hist 3 2 ; assign 0 0 E 0 1 ; assign 1 0 E 0 -1 ; bassign 0 0 C le E 1 1 0 0 ; bassign 1 0 C le E 1 1 0 0 ; join 2 0 1 ; q_bat 2 0 ; bassume 2 0 0 ; q_at 2",
    "hist 2 2 3 ; bassign 0 0 C le E 1 1 0 0 ; bassign 0 1 C le E 1 -1 1 1 ; bbin 0 and 2 0 1 ; bassume 0 2 0 ; q_at 0 ; q_bat 0 0 ; q_bat 0 1",
    "hist 2 2 3 ; bassign 0 0 C le E 1 1 0 0 ; bassign 0 1 C le E 1 -1 1 1 ; bbin 0 or 2 0 1 ; bassume 0 2 1 ; q_at 0 ; q_bat 0 0 ; q_bat 0 1",
    "hist 2 2 3 ; bassign 0 0 C le E 1 1 0 0 ; bassign 0 1 C le E 1 -1 1 1 ; bbin 0 xor 2 0 1 ; bassume 0 2 0 ; q_at 0 ; q_bat 0 0 ; q_bat 0 1",
]


def _bcst(rng, nv, const_p=0.08):
    """a small constraint for b := (constraint)"""
    kind = rng.choice(["le", "le", "le", "lt", "eq", "ne"])
    k = rng.randint(-3, 3)
    sh = rng.random()
    if sh < const_p:
        return "C %s E 0 %d" % (kind, rng.choice([0, 0, 1, -1]))
    x = rng.randrange(nv)
    if sh < 0.7 or nv < 2:
        return "C %s E 1 %d %d %d" % (kind, rng.choice([1, -1]), x, k)
    y = rng.choice([v for v in range(nv) if v != x])
    a, b = min(x, y), max(x, y)
    sg = rng.choice([1, -1])
    return "C %s E 2 %d %d %d %d %d" % (kind, sg, a, rng.choice([-sg, -sg, sg]), b, k)


def _cst_vars(c):
    t = c.split()
    n = int(t[3])
    return [int(t[5 + 2 * i]) for i in range(n)]


def _modify(rng, r, x, nv, nb):
    """operations (a list) after which the integer variable x of register r may hold another value"""
    y = rng.randrange(nv)
    k = rng.randint(-3, 3)
    m = rng.randrange(13)
    if m == 0:
        return ["assign %d %d E 0 %d" % (r, x, k)]
    if m == 1:
        return ["assign %d %d E 1 1 %d %d" % (r, x, x, rng.choice([1, -1, 2]))]
    if m == 2:
        return ["assign %d %d E 1 %d %d %d" % (r, x, rng.choice([1, -1]), y, k)]
    if m == 3:
        return ["arith %d %s %d %d k %d" % (r, rng.choice(["add", "sub", "mul"]), x, rng.choice([x, y]), rng.choice([1, 2, -1, 3]))]
    if m == 4:
        return ["forget %d 1 %d" % (r, x)]
    if m == 5:
        return ["havoc %d %d" % (r, x)]
    if m == 6:
        return ["select %d %d %s E 0 %d E 1 1 %d 1" % (r, x, _bcst(rng, nv, 0), k, y)]
    if m == 7:
        return ["wassign %d %d E 0 %d" % (r, x, k)]
    if m == 8:
        return ["cast %d zext %d %d" % (r, x, nv + rng.randrange(nb))]
    if m == 9 and nv >= 2:
        y = rng.choice([v for v in range(nv) if v != x])
        return ["forget %d 1 %d" % (r, x), "expand %d %d %d" % (r, y, x)]
    if m == 10 and nv >= 2:
        y = rng.choice([v for v in range(nv) if v != x])
        return ["forget %d 1 %d" % (r, x), "rename %d 1 %d %d" % (r, y, x)]
    if m == 11:
        keep = [v for v in range(nv + nb) if v != x]
        return ["project %d %d %s" % (r, len(keep), " ".join(map(str, keep)))]
    return ["arith %d sdiv %d %d k %d" % (r, x, x, rng.choice([2, -2, 3]))]


def _bool_op(rng, r, nv, nb, known):
    """one random boolean operation on register r; `known` = booleans assigned so far (preferred as operands)"""
    def old():
        return rng.choice(known) if known and rng.random() < 0.8 else rng.randrange(nb)
    b = rng.randrange(nb)
    m = rng.randrange(12)
    if m <= 2:
        o = "bassign %d %d %s" % (r, b, _bcst(rng, nv))
    elif m <= 4:
        o = "bcopy %d %d %d %d" % (r, b, old(), rng.randrange(2))
    elif m <= 6:
        o = "bbin %d %s %d %d %d" % (r, rng.choice(["and", "and", "or", "xor"]), b, old(), old())
    elif m == 7:
        o = "bselect %d %d %d %d %d" % (r, b, old(), old(), old())
    elif m == 8:
        o = rng.choice(["bwassign %d %d %s" % (r, b, _bcst(rng, nv)), "bwcopy %d %d %d %d" % (r, b, old(), rng.randrange(2))])
    elif m == 9:
        o = rng.choice(["bforget %d %d" % (r, b), "havoc %d %d" % (r, nv + b)])
    elif m == 10:
        o = "bassign %d %d %s" % (r, b, rng.choice(["C lt E 0 0", "C le E 0 0", "C eq E 0 1", "C ne E 0 0", "C ne E 0 2"]))
    else:
        o = "bfromint %d %d %d" % (r, b, rng.randrange(nv))
    if b not in known:
        known.append(b)
    return o


def bool_histories(seed, n, prop="C03", asc_widen=False):
    """scripted histories on the case splits of the boolean half of the domains
    (flat_boolean_numerical_domain remembers `b := constraint` and re-applies the constraint on
    assume_bool(b) unless one of its variables changed):
      setup    bounds / constants on some integer variables (so that some booleans are decided),
               sometimes a second register made by copy
      reify    b := constraint (also constant constraints), on one or two registers, sometimes on
               one branch only
      perturb  a variable of a remembered constraint is reassigned / forgotten / havocked /
               renamed / expanded / projected away, possibly followed by a new `b' := constraint`
               over the same variable; (negated) copy chains; and/or/xor of two reified
               constraints; select_bool with decided operands; weak assignments; b := trunc(v)
      combine  join / meet / widening / narrowing of two registers that went through different
               perturbations
      observe  assume_bool of a boolean or its negation, then the boxes, every boolean, the
               exported constraints; inclusion queries between the register that knows a
               boolean and the one that does not, each followed by a probe
               (leqprobe: assume_bool on a copy of the right operand)
    followed (last third) by random mixes of all boolean and numerical operations."""
    rng = random.Random(seed)
    out = []
    for i in range(n):
        nv = rng.choice([2, 2, 3])
        nb = rng.choice([2, 2, 3, 3, 4])
        head = "hist 4 %d%s" % (nv, "" if nb == 2 else " %d" % nb)
        ops = []
        known = []
        if i * 3 >= n * 2:
            # random mix
            for _ in range(rng.randint(5, 16)):
                r = rng.randrange(3)
                x = rng.random()
                if x < 0.45:
                    ops.append(_bool_op(rng, r, nv, nb, known))
                elif x < 0.6:
                    ops.append("bassume %d %d %d" % (r, rng.choice(known) if known else rng.randrange(nb), rng.randrange(2)))
                elif x < 0.72:
                    ops += _modify(rng, r, rng.randrange(nv), nv, nb)
                elif x < 0.8:
                    v = rng.randrange(nv); c = rng.randint(-3, 3)
                    ops.append(rng.choice(["assume %d 1 C le E 1 1 %d %d" % (r, v, c), "assume %d 1 C le E 1 -1 %d %d" % (r, v, c),
                                           "assume %d 1 %s" % (r, _bcst(rng, nv, 0))]))
                elif x < 0.9:
                    ops.append("%s %d %d %d" % (rng.choice(["join", "join", "meet", "widen", "narrow", "copy"]), r, rng.randrange(3), rng.randrange(3)))
                    if ops[-1].startswith("copy"):
                        ops[-1] = "copy %d %d" % (r, rng.randrange(3))
                else:
                    s, t = rng.randrange(3), rng.randrange(3)
                    ops.append("q_leq %d %d" % (s, t))
                    ops.append("leqprobe 3 %d %d %d %d" % (s, t, rng.choice(known) if known else rng.randrange(nb), rng.randrange(2)))
                if rng.random() < 0.25:
                    ops.append(rng.choice(["q_bat %d %d" % (r, rng.randrange(nb)), "q_csts %d" % r, "q_at %d" % r]))
            r = rng.randrange(3)
            ops.append("bassume %d %d %d" % (r, rng.choice(known) if known else 0, rng.randrange(2)))
            ops.append("q_csts %d" % r)
            for b in range(nb):
                ops.append("q_bat %d %d" % (r, b))
        else:
            two = rng.random() < (0.75 if prop == "C04" else 0.45)
            regs = [0, 1] if two else [0]
            # setup
            for v in range(nv):
                x = rng.random()
                c = rng.randint(-3, 3)
                if x < 0.25:
                    ops.append("assign 0 %d E 0 %d" % (v, c))
                elif x < 0.5:
                    ops.append("assume 0 2 C le E 1 -1 %d %d C le E 1 1 %d %d" % (v, c, v, -(c + rng.randint(0, 3))))
                elif x < 0.6:
                    ops.append("assume 0 1 C le E 1 %d %d %d" % (rng.choice([1, -1]), v, c))
            cs = {}
            early = two and rng.random() < 0.5
            if two and not early:
                ops.append("copy 1 0")
            # reify
            for _ in range(rng.randint(1, min(3, nb))):
                b = rng.randrange(nb)
                c = _bcst(rng, nv)
                r = rng.choice(regs) if (two and not early) else 0
                ops.append("bassign %d %d %s" % (r, b, c))
                cs[b] = c
                if b not in known:
                    known.append(b)
                if two and not early and rng.random() < 0.5:
                    # the same or another constraint on the other register
                    c2 = c if rng.random() < 0.5 else _bcst(rng, nv)
                    ops.append("bassign %d %d %s" % (1 - r, b, c2))
            if early:
                ops.append("copy 1 0")
            # perturb
            focus = []
            for r in regs:
                for _ in range(rng.choice([0, 1, 1, 2, 3])):
                    x = rng.random()
                    b = rng.choice(known)
                    vs = _cst_vars(cs[b]) if b in cs else []
                    others = [y for y in range(nb) if y != b]
                    if x < 0.3:
                        v = rng.choice(vs) if vs and rng.random() < 0.85 else rng.randrange(nv)
                        ops += _modify(rng, r, v, nv, nb)
                        if rng.random() < 0.45:
                            # a new constraint over the changed variable
                            b2 = rng.randrange(nb)
                            ops.append("bassign %d %d C %s E 1 %d %d %d" % (r, b2, rng.choice(["le", "lt", "ne", "eq"]), rng.choice([1, -1]), v, rng.randint(-3, 3)))
                            if b2 not in known:
                                known.append(b2)
                            cs.pop(b2, None)
                        focus.append(b)
                    elif x < 0.42:
                        # the reified boolean is overwritten, the variables of its constraint are not
                        u = rng.choice(others)
                        w = rng.randrange(7)
                        if w == 0:
                            ops.append("bassign %d %d %s" % (r, b, rng.choice(["C le E 0 0", "C lt E 0 0", "C eq E 0 0", "C ne E 0 0", "C le E 0 1"])))
                        elif w <= 2:
                            # (negated) copy of a boolean for which nothing is remembered
                            ops.append(rng.choice(["bforget %d %d" % (r, u), "havoc %d %d" % (r, nv + u), "bbin %d %s %d %d %d" % (r, rng.choice(["or", "xor"]), u, u, b),
                                                   "forget %d 1 %d" % (r, nv + u)]))
                            ops.append("bcopy %d %d %d %d" % (r, b, u, 1 if w == 1 else rng.randrange(2)))
                        elif w == 3:
                            ops.append("bfromint %d %d %d" % (r, b, rng.randrange(nv)))
                        elif w == 4:
                            ops.append("bbin %d %s %d %d %d" % (r, rng.choice(["and", "or", "xor"]), b, rng.choice([b, u]), u))
                        elif w == 5:
                            ops.append("bselect %d %d %d %d %d" % (r, b, u, rng.choice([b, u]), rng.randrange(nb)))
                        else:
                            ops.append(rng.choice(["bwcopy %d %d %d %d" % (r, b, u, rng.randrange(2)), "bwassign %d %d %s" % (r, b, _bcst(rng, nv))]))
                        cs.pop(b, None)
                        focus.append(b)
                    elif x < 0.54:
                        # an alias of b (copy, or a conjunction with b), then b or the other conjunct is overwritten / forgotten
                        al = rng.choice(others)
                        o2 = rng.choice(others)
                        if rng.random() < 0.5:
                            ops.append("bcopy %d %d %d 0" % (r, al, b))
                        else:
                            ops.append("bbin %d and %d %d %d" % (r, al, b, o2) if rng.random() < 0.5 else "bbin %d and %d %d %d" % (r, al, o2, b))
                        cs.pop(al, None)
                        victim = rng.choice([b, b, o2])
                        if victim != al:
                            ops.append(rng.choice(["bforget %d %d" % (r, victim), "havoc %d %d" % (r, nv + victim), "forget %d 1 %d" % (r, nv + victim),
                                                   "bassign %d %d %s" % (r, victim, _bcst(rng, nv)), "bcopy %d %d %d 1" % (r, victim, victim),
                                                   "bfromint %d %d %d" % (r, victim, rng.randrange(nv)),
                                                   "bbin %d %s %d %d %d" % (r, rng.choice(["or", "xor", "and"]), victim, victim, rng.randrange(nb))]))
                            cs.pop(victim, None)
                        if al not in known:
                            known.append(al)
                        focus.append(al)
                    elif x < 0.70 and nb >= 3:
                        # select_bool with a decided operand, then (negated) copies of the result
                        fl = rng.choice(others)
                        ops.append("bassign %d %d %s" % (r, fl, rng.choice(["C lt E 0 0", "C ne E 0 0", "C lt E 0 1", "C eq E 0 0"])))
                        cs.pop(fl, None)
                        rest = [y for y in range(nb) if y not in (b, fl)]
                        o1 = rng.choice(rest)
                        if rng.random() < 0.3:
                            # the result is also the condition, and changes its (decided) value
                            fv = rng.randrange(2)
                            ops[-1] = "bassign %d %d %s" % (r, fl, ["C lt E 0 0", "C le E 0 0"][fv])
                            ops.append("bassign %d %d %s" % (r, o1, ["C le E 0 0", "C ne E 0 0"][fv]))
                            cs.pop(o1, None)
                            ops.append("bselect %d %d %d %d %d" % ((r, fl, fl) + ((b, o1) if fv == 0 else (o1, b))))
                            y = rng.choice([z for z in range(nb) if z != fl])
                            ops.append("bcopy %d %d %d %d" % (r, y, fl, rng.randrange(2)))
                            cs.pop(y, None)
                            for z in (fl, o1, y):
                                if z not in known:
                                    known.append(z)
                            focus += [fl, y]
                            continue
                        if rng.random() < 0.5:
                            ops.append(rng.choice(["bforget %d %d" % (r, o1), "bforget %d %d" % (r, o1), "bassign %d %d %s" % (r, o1, _bcst(rng, nv))]))
                        lhs = rng.choice(rest + [fl])
                        args = rng.choice([(b, o1, fl)] * 3 + [(b, fl, o1)] * 3 + [(o1, b, fl), (o1, fl, b), (fl, b, o1)])
                        ops.append("bselect %d %d %d %d %d" % ((r, lhs) + args))
                        cs.pop(lhs, None)
                        y = rng.choice([z for z in range(nb) if z != lhs])
                        neg = 1 if rng.random() < 0.7 else 0
                        ops.append("bcopy %d %d %d %d" % (r, y, lhs, neg))
                        cs.pop(y, None)
                        for z in (lhs, y):
                            if z not in known:
                                known.append(z)
                        focus += [y, y, lhs]
                    elif x < 0.79:
                        # copy chain
                        src = b
                        for _ in range(rng.randint(1, 3)):
                            dst = rng.randrange(nb)
                            ops.append("bcopy %d %d %d %d" % (r, dst, src, rng.randrange(2)))
                            if dst not in known:
                                known.append(dst)
                            cs.pop(dst, None)
                            src = dst
                        focus.append(src)
                    elif x < 0.88:
                        b1 = rng.choice(known)
                        dst = rng.randrange(nb)
                        ops.append("bbin %d %s %d %d %d" % (r, rng.choice(["and", "and", "or", "xor"]), dst, b, b1))
                        if dst not in known:
                            known.append(dst)
                        cs.pop(dst, None)
                        focus.append(dst)
                    else:
                        ops.append(_bool_op(rng, r, nv, nb, known))
                        cs.pop(int(ops[-1].split()[2]) if not ops[-1].startswith("bbin") else int(ops[-1].split()[3]), None)
            def pick():
                return rng.choice(focus) if focus and rng.random() < 0.75 else rng.choice(known)
            # combine
            res = 0
            if two:
                op = rng.choice(["join", "join", "join", "meet", "meet", "widen", "narrow", "widenthr"])
                a, b_ = rng.choice([(0, 1), (1, 0)])
                if prop == "C04" or rng.random() < 0.3:
                    for (s, t) in ((0, 1), (1, 0)):
                        ops.append("q_leq %d %d" % (s, t))
                        ops.append("leqprobe 3 %d %d %d %d" % (s, t, pick(), rng.randrange(2)))
                        if rng.random() < 0.5:
                            ops.append("leqprobe 3 %d %d %d %d" % (s, t, pick(), rng.randrange(2)))
                ops.append("%s 2 %d %d%s" % (op, a, b_, " 2 -1 2" if op == "widenthr" else ""))
                res = 2
                if prop == "C04" or rng.random() < 0.3:
                    s = rng.choice([0, 1])
                    pair = (s, 2) if op in ("join", "widen", "widenthr") else (2, s)
                    ops.append("q_leq %d %d" % pair)
                    ops.append("leqprobe 3 %d %d %d %d" % (pair[0], pair[1], pick(), rng.randrange(2)))
            # observe
            if rng.random() < 0.3:
                ops.append("q_bat %d %d" % (res, rng.choice(known)))
            for _ in range(rng.choice([1, 1, 2])):
                ops.append("bassume %d %d %d" % (res, pick(), 0 if rng.random() < 0.75 else 1))
            ops.append("q_csts %d" % res)
            for b in range(nb):
                ops.append("q_bat %d %d" % (res, b))
            if rng.random() < 0.3:
                v = rng.randrange(nv)
                ops.append("q_entails %d C le E 1 %d %d %d" % (res, rng.choice([1, -1]), v, rng.randint(-3, 3)))
        l = head + " ; " + " ; ".join(ops)
        if asc_widen:
            l = ascending_widen(l)
        out.append(l)
    return out


def bool_oracle(line, ans, checks):
    """domhist.oracle with a denser sample of small stores (the constants of the bool stream are
    in [-3, 3]) so that both truth values of every reified constraint are populated"""
    if ans.startswith("ABORT") or ans == "MISSING" or ans.startswith("HARNESS-ERROR"):
        return None
    ans = drop_ghost_csts(ans)
    return domhist.oracle(line, ans, None, checks, dense=(260, 5))


# ---------------------------------------------------------------- extended oracle

def oracle_ext(line, ans, rng=None, checks=("at", "leq", "entails", "csts", "bot")):
    """domhist.oracle, plus: if `q_leq s t` answered true and is followed by `q_csts t`,
    every sampled store of s must satisfy the constraints exported by t."""
    if ans.startswith("ABORT") or ans == "MISSING" or ans.startswith("HARNESS-ERROR"):
        return None
    ans = drop_ghost_csts(ans)
    w = domhist.oracle(line, ans, rng, checks)
    if not w and "botcsts" in checks:
        w = bottom_export(line, ans)
    if w or "leq" not in checks:
        return w
    ops = line.split(" ; ")
    answers = ans.split(" ; ")
    if len(answers) != len(ops) - 1:
        return None
    new = list(ops)
    changed = []
    ent = list(ops); ent_changed = []
    for i in range(1, len(ops) - 1):
        t = ops[i].split(); u = ops[i + 1].split()
        if t[0] == "q_leq" and u[0] == "q_csts" and u[1] == t[2] and t[1] != t[2] and answers[i - 1] == "true":
            new[i + 1] = "q_csts " + t[1]
            changed.append(i + 1)
        if t[0] == "q_leq" and t[1] != t[2] and answers[i - 1] == "true":
            # queries that directly follow: what the right operand entails holds on the left operand's stores
            j = i + 1
            while j < len(ops) and ops[j].split()[0] in ("q_csts", "q_entails", "q_at") and ops[j].split()[1] == t[2]:
                if ops[j].startswith("q_entails") and answers[j - 1] == "true":
                    ent[j] = " ".join(["q_entails", t[1]] + ops[j].split()[2:]); ent_changed.append((j, i))
                j += 1
    if ent_changed:
        ans3 = [(a if any(j == i + 1 for j, _ in ent_changed) else ("false" if ops[i + 1].startswith("q_entails") else a)) for i, a in enumerate(answers)]
        w = domhist.oracle(" ; ".join(ent), " ; ".join(ans3), rng, ("entails",))
        if w:
            m = re.match(r"step (\d+) ", w)
            j = int(m.group(1)) if m else None
            src = dict(ent_changed).get(j)
            if src is not None:
                return ("step %d (%s) of: %s: inclusion answered true but the right operand entails the constraint of step %d (%s) "
                        "that a store of the left operand violates [%s]" % (src, ops[src], line, j, ops[j], w.split(": ", 2)[-1][:200]))
            return w
    # all other q_csts answers were checked already: blank them
    ans2 = [(a if (i + 1) in changed or not ops[i + 1].startswith("q_csts") else "{}") for i, a in enumerate(answers)]
    if not changed:
        return None
    w = domhist.oracle(" ; ".join(new), " ; ".join(ans2), rng, ("csts",))
    if w:
        m = re.match(r"step (\d+) \(q_csts (\d+)\) of: .*?: exported constraint (.*) is violated by reachable store (.*)$", w)
        if m:
            i = int(m.group(1))
            return ("step %d (%s) of: %s: inclusion answered true but store %s of the left operand violates the constraint %s "
                    "exported by the right operand (next step)" % (i - 1, ops[i - 1], line, m.group(4), m.group(3)))
        return w
    return None


def drop_ghost_csts(ans):
    """exported constraints that mention a variable that is not one of the history (the
    ghost variables of fixed_tvpi print as v?) cannot be evaluated on a store: dropped"""
    if "v?" not in ans:
        return ans
    out = []
    for a in ans.split(" ; "):
        if a.startswith("{") and "v?" in a:
            a = "{" + ",".join(c for c in a[1:-1].split(",") if "v?" not in c) + "}"
        out.append(a)
    return " ; ".join(out)


def bottom_export(line, ans):
    """a value that prints as bottom must export an unsatisfiable constraint system (a
    constant constraint that is false), however the bottom was produced"""
    ops = [o.split() for o in line.split(" ; ")][1:]
    answers = ans.split(" ; ")
    bot = {}
    for i, o in enumerate(ops):
        if i >= len(answers):
            break
        a = answers[i]
        if o[0] == "q_csts":
            if bot.get(o[1]) and a.startswith("{"):
                false_found = False
                for c in [x for x in a[1:-1].split(",") if x]:
                    p = c.split(":")
                    if len(p) == 3 and p[1] == "":
                        k = int(p[2])
                        if not {"eq": k == 0, "ne": k != 0, "le": k <= 0, "lt": k < 0}[p[0]]:
                            false_found = True
                if not false_found:
                    return ("step %d (%s) of: %s: the value is bottom but the exported constraints %s differ from false"
                            % (i + 1, " ".join(o), line, a))
        elif not o[0].startswith("q_"):
            bot[o[1]] = (a.strip() == "_|_")
    return None


def kind_of(w):
    """coarse class of an oracle message (kept fixed while shrinking)"""
    for k, pat in (("nonstab", "does not stabilise"), ("widen-arg", "second argument of a widening"),
                   ("leq", "inclusion"), ("entails", "entails answered"), ("csts", "exported constraint"),
                   ("bottom", "the value is bottom"), ("at", r"at\(v\d+\)"), ("differs", "differs")):
        if re.search(pat, w):
            return k
    return "other"


def step_of(w):
    m = re.match(r"step (\d+) \(([^)]*)\)", w)
    if not m:
        return "?"
    t = m.group(2).split()
    if not t:
        return "?"
    return t[0] + ("-" + t[2] if t[0] == "arith" else "")
